/-
  EG.Lemmas.FontLayout — `line_elements` in closed form, the calls of `draw_string_binary`, the
  decoration rectangles.
-/
import EG.Model.Font
namespace EG
namespace Font

/-! ### `line_elements`: the state machine against its closed form -/

/-- Closed form of what the `for` loop of `draw_string_binary` sees: character cells `cw + spacing`
apart, a spacing element after every character but the last, `Done` at the end of the last cell. -/
def lineSpec (f : MonoFont) (pos : Pt) : List Nat → List (Pt × Elem)
  | [] => [(pos, .done)]
  | [c] => [(pos, .char c), (⟨pos.x + (f.cw : Int), pos.y⟩, .done)]
  | c :: c' :: cs =>
    (pos, .char c) :: (⟨pos.x + (f.cw : Int), pos.y⟩, .spacing) ::
      lineSpec f ⟨pos.x + (f.cw : Int) + (f.spacing : Int), pos.y⟩ (c' :: cs)

theorem toListFuel_eq_lineSpec (f : MonoFont) : ∀ (text : List Nat) (pos : Pt) (fuel : Nat),
    2 * text.length + 1 ≤ fuel → (⟨pos, text, false⟩ : LineIt).toListFuel f fuel = lineSpec f pos text
  | [], pos, fuel, h => by
    obtain ⟨k, rfl⟩ : ∃ k, fuel = k + 1 := ⟨fuel - 1, by omega⟩
    simp [LineIt.toListFuel, LineIt.next, lineSpec]
  | [c], pos, fuel, h => by
    obtain ⟨k, rfl⟩ : ∃ k, fuel = k + 2 := ⟨fuel - 2, by simp at h; omega⟩
    simp [LineIt.toListFuel, LineIt.next, lineSpec]
  | c :: c' :: cs, pos, fuel, h => by
    obtain ⟨k, rfl⟩ : ∃ k, fuel = k + 2 := ⟨fuel - 2, by simp at h; omega⟩
    have ih := toListFuel_eq_lineSpec f (c' :: cs) ⟨pos.x + (f.cw : Int) + (f.spacing : Int), pos.y⟩ k
      (by simp at h ⊢; omega)
    simp [LineIt.toListFuel, LineIt.next, lineSpec, ih]

theorem lineElements_eq_lineSpec (f : MonoFont) (pos : Pt) (text : List Nat) :
    lineElements f pos text = lineSpec f pos text :=
  toListFuel_eq_lineSpec f text pos _ (Nat.le_refl _)

/-- x coordinate of the `i`-th character cell. -/
def cellX (f : MonoFont) (pos : Pt) (i : Nat) : Int := pos.x + ((i * (f.cw + f.spacing) : Nat) : Int)

theorem cellX_succ (f : MonoFont) (pos : Pt) (i : Nat) :
    cellX f pos (i + 1) = cellX f ⟨pos.x + (f.cw : Int) + (f.spacing : Int), pos.y⟩ i := by
  unfold cellX
  rw [Nat.succ_mul]
  simp only [Int.natCast_add]
  omega

theorem lineSpec_char (f : MonoFont) : ∀ (text : List Nat) (pos : Pt) (i : Nat) (h : i < text.length),
    (lineSpec f pos text)[2 * i]? = some (⟨cellX f pos i, pos.y⟩, .char text[i])
  | [c], pos, 0, _ => by simp [lineSpec, cellX]
  | [c], pos, i + 1, h => by simp at h
  | c :: c' :: cs, pos, 0, _ => by simp [lineSpec, cellX]
  | c :: c' :: cs, pos, i + 1, h => by
    have ih := lineSpec_char f (c' :: cs) ⟨pos.x + (f.cw : Int) + (f.spacing : Int), pos.y⟩ i
      (by simp at h ⊢; omega)
    have e : 2 * (i + 1) = 2 * i + 1 + 1 := by omega
    rw [cellX_succ, e]
    simp only [lineSpec, List.getElem?_cons_succ, List.getElem_cons_succ]
    exact ih

theorem lineSpec_spacing (f : MonoFont) : ∀ (text : List Nat) (pos : Pt) (i : Nat) (_ : i + 1 < text.length),
    (lineSpec f pos text)[2 * i + 1]? = some (⟨cellX f pos i + (f.cw : Int), pos.y⟩, .spacing)
  | [c], pos, i, h => by simp at h
  | c :: c' :: cs, pos, 0, _ => by simp [lineSpec, cellX]
  | c :: c' :: cs, pos, i + 1, h => by
    have ih := lineSpec_spacing f (c' :: cs) ⟨pos.x + (f.cw : Int) + (f.spacing : Int), pos.y⟩ i
      (by simp at h ⊢; omega)
    have e : 2 * (i + 1) + 1 = 2 * i + 1 + 1 + 1 := by omega
    rw [cellX_succ, e]
    simp only [lineSpec, List.getElem?_cons_succ]
    exact ih

/-- Position after the text: the end of the last character cell (no trailing spacing). -/
def endPos (f : MonoFont) (pos : Pt) (n : Nat) : Pt :=
  if n = 0 then pos else ⟨cellX f pos (n - 1) + (f.cw : Int), pos.y⟩

theorem lineSpec_length (f : MonoFont) : ∀ (text : List Nat) (pos : Pt),
    (lineSpec f pos text).length = if text.length = 0 then 1 else 2 * text.length
  | [], _ => by simp [lineSpec]
  | [c], _ => by simp [lineSpec]
  | c :: c' :: cs, pos => by
    have ih := lineSpec_length f (c' :: cs) ⟨pos.x + (f.cw : Int) + (f.spacing : Int), pos.y⟩
    simp only [lineSpec, List.length_cons] at ih ⊢
    simp at ih ⊢
    omega

theorem lineSpec_done (f : MonoFont) : ∀ (text : List Nat) (pos : Pt),
    (lineSpec f pos text).find? (fun e => e.2 == Elem.done) = some (endPos f pos text.length, .done)
  | [], pos => by simp [lineSpec, endPos]
  | [c], pos => by simp [lineSpec, endPos, cellX]
  | c :: c' :: cs, pos => by
    have ih := lineSpec_done f (c' :: cs) ⟨pos.x + (f.cw : Int) + (f.spacing : Int), pos.y⟩
    have hne1 : ((Elem.char c) == Elem.done) = false := by simp
    have hne2 : (Elem.spacing == Elem.done) = false := by decide
    simp only [lineSpec, List.find?_cons, hne1, hne2]
    rw [ih]
    simp only [endPos, List.length_cons]
    have h1 : ¬ (cs.length + 1 = 0) := by omega
    have h2 : ¬ (cs.length + 1 + 1 = 0) := by omega
    simp only [h1, h2, ↓reduceIte, Nat.add_sub_cancel]
    have := cellX_succ f pos cs.length
    rw [this]

/-! ### `draw_string_binary` in closed form -/

/-- The fill of the gap after a character (only when the font has spacing and a background colour is set). -/
def spacingCalls (f : MonoFont) (hasBg : Bool) (p : Pt) : List BCall :=
  if f.spacing > 0 ∧ hasBg then [BCall.fillSolid ⟨p, ⟨f.spacing, f.ch⟩⟩ false] else []

/-- Calls of `draw_string_binary` by recursion on the text. -/
def textBCalls (f : MonoFont) (atlas : Pt → Bool) (hasBg : Bool) (pos : Pt) : List Nat → List BCall
  | [] => []
  | [c] => f.glyphCalls atlas c pos
  | c :: c' :: cs =>
    f.glyphCalls atlas c pos ++ spacingCalls f hasBg ⟨pos.x + (f.cw : Int), pos.y⟩ ++
      textBCalls f atlas hasBg ⟨pos.x + (f.cw : Int) + (f.spacing : Int), pos.y⟩ (c' :: cs)

theorem flatMap_lineSpec (f : MonoFont) (atlas : Pt → Bool) (hasBg : Bool) : ∀ (text : List Nat) (pos : Pt),
    (lineSpec f pos text).flatMap (f.elemCalls atlas hasBg) = textBCalls f atlas hasBg pos text
  | [], _ => by simp [lineSpec, textBCalls, MonoFont.elemCalls]
  | [c], _ => by simp [lineSpec, textBCalls, MonoFont.elemCalls]
  | c :: c' :: cs, pos => by
    have ih := flatMap_lineSpec f atlas hasBg (c' :: cs) ⟨pos.x + (f.cw : Int) + (f.spacing : Int), pos.y⟩
    simp only [lineSpec, textBCalls, List.flatMap_cons, ih, MonoFont.elemCalls, spacingCalls, List.append_assoc]

theorem drawStringBinary_eq (f : MonoFont) (atlas : Pt → Bool) (hasBg : Bool) (text : List Nat) (pos : Pt) :
    f.drawStringBinary atlas hasBg text pos =
      (textBCalls f atlas hasBg pos text, endPos f pos text.length) := by
  unfold MonoFont.drawStringBinary
  simp only [lineElements_eq_lineSpec, flatMap_lineSpec, lineSpec_done]

end Font
end EG
