/-
  EG.Lemmas.JoinsPolyScan — the scanline iterators of a stroked polyline whose vertices are moved by
  `d` yield the moved scanlines (`ScanlineIntersections`, `ScanlineIterator`, `draw_thick`).
-/
import EG.Lemmas.JoinsPolyMove
set_option linter.unusedSimpArgs false
namespace EG
namespace Joins
open Thick (LineSide StrokeOffset)

/-- Lift a relation to `Option`s (both `none`, or both `some` and related). -/
def OptRel {α β : Type} (R : α → β → Prop) : Option α → Option β → Prop
  | some a, some b => R a b
  | none, none => True
  | _, _ => False

theorem PolyNoSat_tail {w : Nat} {d : Pt} {a : Pt} {rest : List Pt} (h : PolyNoSat w d (a :: rest)) :
    PolyNoSat w d rest := by
  rcases rest with _ | ⟨b, _ | ⟨c, r⟩⟩
  · trivial
  · trivial
  · exact h.2

/-! ### Scanline operations and `SR` -/

theorem touches_iff (s o : Scanline) :
    s.touches o = true ↔ s.xs < s.xe ∧ o.xs < o.xe ∧
      ((s.xs - 1 ≤ o.xs ∧ o.xs ≤ s.xe) ∨ (s.xs - 1 ≤ o.xe - 1 ∧ o.xe - 1 ≤ s.xe) ∨
       (o.xs - 1 ≤ s.xs ∧ s.xs ≤ o.xe) ∨ (o.xs - 1 ≤ s.xe - 1 ∧ s.xe - 1 ≤ o.xe)) := by
  unfold Scanline.touches Scanline.isEmpty
  by_cases h1 : s.xs < s.xe
  · by_cases h2 : o.xs < o.xe
    · simp only [h1, h2, decide_true, Bool.not_true, Bool.or_self, Bool.false_eq_true, ↓reduceIte,
        Bool.or_eq_true, decide_eq_true_eq, true_and]
      omega
    · simp only [h1, h2, decide_true, decide_false, Bool.not_true, Bool.not_false, Bool.or_true,
        ↓reduceIte, Bool.false_eq_true, false_and, and_false]
  · simp only [h1, decide_false, Bool.not_false, Bool.true_or, ↓reduceIte, Bool.false_eq_true,
      false_and]

theorem touches_SR {d : Pt} {a' a b' b : Scanline} (ha : SR d a' a) (hb : SR d b' b) :
    a'.touches b' = a.touches b := by
  rw [Bool.eq_iff_iff, touches_iff, touches_iff]
  have ea := SR_isEmpty ha
  have eb := SR_isEmpty hb
  by_cases he : a.isEmpty = false ∧ b.isEmpty = false
  · have e1 := SR_of_nonempty ha he.1
    have e2 := SR_of_nonempty hb he.2
    subst e1 e2
    simp only [shiftS]
    omega
  · have hne : ¬ (a.xs < a.xe ∧ b.xs < b.xe) := by
      intro ⟨c1, c2⟩; apply he
      constructor
      · cases hx : a.isEmpty
        · rfl
        · exact absurd c1 ((isEmpty_iff a).mp hx)
      · cases hx : b.isEmpty
        · rfl
        · exact absurd c2 ((isEmpty_iff b).mp hx)
    have hne' : ¬ (a'.xs < a'.xe ∧ b'.xs < b'.xe) := by
      intro ⟨c1, c2⟩; apply he
      constructor
      · cases hx : a.isEmpty
        · rfl
        · rw [hx] at ea; exact absurd c1 ((isEmpty_iff a').mp ea)
      · cases hx : b.isEmpty
        · rfl
        · rw [hx] at eb; exact absurd c2 ((isEmpty_iff b').mp eb)
    constructor
    · intro ⟨c1, c2, _⟩; exact absurd ⟨c1, c2⟩ hne'
    · intro ⟨c1, c2, _⟩; exact absurd ⟨c1, c2⟩ hne

theorem tryExtend_SR {d : Pt} {a' a b' b : Scanline} (ha : SR d a' a) (hb : SR d b' b) :
    (a'.tryExtend b').1 = (a.tryExtend b).1 ∧ SR d (a'.tryExtend b').2 (a.tryExtend b).2 := by
  unfold Scanline.tryExtend
  rw [touches_SR ha hb]
  by_cases ht : a.touches b = true
  · simp only [ht, ↓reduceIte, true_and]
    have hne : a.isEmpty = false ∧ b.isEmpty = false := by
      unfold Scanline.touches at ht
      by_cases he : (a.isEmpty || b.isEmpty) = true
      · simp only [he, ↓reduceIte, Bool.false_eq_true] at ht
      · simp only [Bool.or_eq_true, not_or, Bool.not_eq_true] at he; exact he
    have ea := SR_of_nonempty ha hne.1
    have eb := SR_of_nonempty hb hne.2
    subst ea eb
    refine ⟨by simp only [shiftS], Or.inr ?_⟩
    simp only [shiftS, Scanline.mk.injEq, true_and]
    constructor <;> omega
  · simp only [ht, Bool.false_eq_true, ↓reduceIte, true_and]; exact ha

theorem tryTake_SR {d : Pt} {a' a : Scanline} (ha : SR d a' a) :
    OptRel (SR d) a'.tryTake.1 a.tryTake.1 ∧ SR d a'.tryTake.2 a.tryTake.2 := by
  unfold Scanline.tryTake
  rw [SR_isEmpty ha]
  by_cases he : a.isEmpty = true
  · simp only [he, Bool.not_true, Bool.false_eq_true, ↓reduceIte]; exact ⟨trivial, ha⟩
  · have he' : a.isEmpty = false := by simpa using he
    simp only [he', Bool.not_false, ↓reduceIte]
    refine ⟨ha, ha.1, Or.inl ⟨rfl, rfl⟩⟩

theorem toRectangle_shiftS (s : Scanline) (d : Pt) :
    (shiftS s d).toRectangle = s.toRectangle.translate d := by
  unfold Scanline.toRectangle
  rw [isEmpty_shiftS]
  simp only [shiftS, Rect.translate, Rect.mk.injEq, Pt.ext_iff', Pt.add_x, Pt.add_y, and_self, true_and]
  split
  · simp only [Sz.mk.injEq, and_true]; congr 1; omega
  · trivial

/-! ### `ScanlineIntersections` -/

/-- The moved iterator: same structure on the moved points, accumulator related by `SR`; the
unmoved side carries the no-saturation facts for everything it can still look at. -/
structure PIR (d : Pt) (it' it : PolyIntersections) : Prop where
  points : it'.points = it.points.map (· + d)
  remaining : it'.remainingPoints = it.remainingPoints.map (· + d)
  join : it'.nextStartJoin = it.nextStartJoin.map (·.translate d)
  width : it'.width = it.width
  scan : SR d it'.scanline it.scanline
  nsP : PolyNoSat it.width d it.points
  nsR : PolyNoSat it.width d it.remainingPoints

theorem PolyIntersections.new_moved (vs : List Pt) (w : Nat) (y : Int) (d : Pt)
    (hns : PolyNoSat w d vs) :
    OptRel (PIR d) (PolyIntersections.new (vs.map (· + d)) w (y + d.y)) (PolyIntersections.new vs w y) := by
  unfold PolyIntersections.new
  rcases vs with _ | ⟨a, _ | ⟨b, rest⟩⟩
  · exact ⟨rfl, rfl, rfl, rfl, SR_newEmpty d y, hns, hns⟩
  · exact ⟨rfl, rfl, rfl, rfl, SR_newEmpty d y, hns, hns⟩
  · simp only [List.map_cons, start_translate]
    cases LineJoin.start a b w .none with
    | none => trivial
    | some j => exact ⟨rfl, rfl, rfl, rfl, SR_newEmpty d y, hns, hns⟩

/-- Related `next_segment` results. -/
def SegItemR (d : Pt) (r' r : ThickSegment × PolyIntersections) : Prop :=
  r'.1 = r.1.translate d ∧ PIR d r'.2 r.2

theorem PolyIntersections.nextSegment_moved {d : Pt} {it' it : PolyIntersections} (h : PIR d it' it) :
    OptRel (OptRel (SegItemR d)) it'.nextSegment it.nextSegment := by
  obtain ⟨p', r', j', w', sc'⟩ := it'
  obtain ⟨p, r, j, w, sc⟩ := it
  obtain ⟨hp, hr, hj, hw, hs, nsP, nsR⟩ := h
  simp only at hp hr hj hw hs nsP nsR
  subst hp hr hj hw
  unfold PolyIntersections.nextSegment
  cases j with
  | none => trivial
  | some sj =>
    simp only [Option.map_some]
    rcases r with _ | ⟨a, _ | ⟨b, _ | ⟨c, rest⟩⟩⟩
    · trivial
    · trivial
    · simp only [List.map_cons, List.map_nil, stop_translate]
      cases LineJoin.stop a b w' .none with
      | none => simp only [Option.map_none]; trivial
      | some ej =>
        simp only [Option.map_some]
        exact ⟨rfl, rfl, rfl, rfl, rfl, hs, nsP, PolyNoSat_tail nsR⟩
    · simp only [List.map_cons, fromPoints_translate a b c w' .none d nsR.1]
      cases LineJoin.fromPoints a b c w' .none with
      | none => simp only [Option.map_none]; trivial
      | some ej =>
        simp only [Option.map_some]
        exact ⟨rfl, rfl, rfl, rfl, rfl, hs, nsP, PolyNoSat_tail nsR⟩

/-- Related results of `ScanlineIntersections::next`. -/
def IntItemR (d : Pt) (r' r : Option Scanline × PolyIntersections) : Prop :=
  OptRel (SR d) r'.1 r.1 ∧ PIR d r'.2 r.2

theorem PIR.withScan {d : Pt} {it' it : PolyIntersections} (h : PIR d it' it) {s' s : Scanline}
    (hs : SR d s' s) : PIR d { it' with scanline := s' } { it with scanline := s } :=
  ⟨h.points, h.remaining, h.join, h.width, hs, h.nsP, h.nsR⟩

theorem PolyIntersections.nextFuel_moved {d : Pt} (fuel : Nat) {it' it : PolyIntersections}
    (h : PIR d it' it) : OptRel (IntItemR d) (it'.nextFuel fuel) (it.nextFuel fuel) := by
  induction fuel generalizing it' it with
  | zero => trivial
  | succ fuel ih =>
    unfold PolyIntersections.nextFuel
    have hseg := PolyIntersections.nextSegment_moved h
    cases h1 : it'.nextSegment with
    | none =>
      cases h2 : it.nextSegment with
      | none => trivial
      | some r => rw [h1, h2] at hseg; exact hseg.elim
    | some r' =>
      cases h2 : it.nextSegment with
      | none => rw [h1, h2] at hseg; exact hseg.elim
      | some r =>
        rw [h1, h2] at hseg
        cases r' with
        | none =>
          cases r with
          | none =>
            obtain ⟨a, b⟩ := tryTake_SR h.scan
            exact ⟨a, h.withScan b⟩
          | some x => exact hseg.elim
        | some x' =>
          cases r with
          | none => exact hseg.elim
          | some x =>
            obtain ⟨seg', it1'⟩ := x'
            obtain ⟨seg, it1⟩ := x
            obtain ⟨hs, hp⟩ := hseg
            simp only at hs hp
            subst hs
            simp only []
            have hy : it1'.scanline.y = it1.scanline.y + d.y := hp.scan.1
            rw [hy]
            have hn := intersection_translate_segment seg d it1.scanline.y
            obtain ⟨hf, hsr⟩ := tryExtend_SR hp.scan hn
            rw [hf]
            by_cases he : (it1.scanline.tryExtend (seg.intersection it1.scanline.y)).1 = true
            · simp only [he, Bool.not_true, Bool.false_eq_true, ↓reduceIte]
              exact ih (hp.withScan hsr)
            · simp only [he, Bool.not_false, ↓reduceIte]
              exact ⟨hp.scan, hp.withScan hn⟩

theorem PolyIntersections.next_moved {d : Pt} {it' it : PolyIntersections} (h : PIR d it' it) :
    OptRel (IntItemR d) it'.next it.next := by
  unfold PolyIntersections.next
  rw [h.remaining, List.length_map]
  exact PolyIntersections.nextFuel_moved _ h

/-! ### `ScanlineIterator` -/

theorem PolyIntersections.reset_moved {d : Pt} {it' it : PolyIntersections} (h : PIR d it' it)
    (y : Int) :
    OptRel (PIR d) (it'.resetWithNewScanline (y + d.y)) (it.resetWithNewScanline y) := by
  unfold PolyIntersections.resetWithNewScanline
  rw [h.points, h.width]
  exact PolyIntersections.new_moved it.points it.width y d h.nsP

/-- The moved scanline iterator: rows moved by `d.y`, intersections related. -/
structure PSR (d : Pt) (it' it : PolyScanlines) : Prop where
  rs : it'.rowsStart = it.rowsStart + d.y
  re : it'.rowsEnd = it.rowsEnd + d.y
  ints : PIR d it'.intersections it.intersections

/-- Related items of `ScanlineIterator::next`: the scanline is moved exactly. -/
def ScanItemR (d : Pt) (r' r : Scanline × PolyScanlines) : Prop :=
  r'.1 = shiftS r.1 d ∧ PSR d r'.2 r.2

theorem PolyScanlines.nextFuel_moved {d : Pt} (fuel : Nat) {it' it : PolyScanlines} (h : PSR d it' it) :
    OptRel (OptRel (ScanItemR d)) (it'.nextFuel fuel) (it.nextFuel fuel) := by
  induction fuel generalizing it' it with
  | zero => trivial
  | succ fuel ih =>
    unfold PolyScanlines.nextFuel
    have hn := PolyIntersections.next_moved h.ints
    cases h1 : it'.intersections.next with
    | none =>
      cases h2 : it.intersections.next with
      | none => trivial
      | some r => rw [h1, h2] at hn; exact hn.elim
    | some r' =>
      cases h2 : it.intersections.next with
      | none => rw [h1, h2] at hn; exact hn.elim
      | some r =>
        rw [h1, h2] at hn
        obtain ⟨o', ints'⟩ := r'
        obtain ⟨o, ints⟩ := r
        obtain ⟨ho, hp⟩ := hn
        simp only at ho hp
        cases o' with
        | some nxt' =>
          cases o with
          | none => exact ho.elim
          | some nxt =>
            have hsr : SR d nxt' nxt := ho
            simp only []
            rw [SR_isEmpty hsr]
            by_cases he : nxt.isEmpty = true
            · simp only [he, Bool.not_true, Bool.false_eq_true, ↓reduceIte]
              exact ih ⟨h.rs, h.re, hp⟩
            · have he' : nxt.isEmpty = false := by simpa using he
              simp only [he', Bool.not_false, ↓reduceIte]
              exact ⟨SR_of_nonempty hsr he', h.rs, h.re, hp⟩
        | none =>
          cases o with
          | some nxt => exact ho.elim
          | none =>
            simp only []
            rw [h.rs, h.re]
            by_cases hr : it.rowsStart < it.rowsEnd
            · have hr' : it.rowsStart + d.y < it.rowsEnd + d.y := by omega
              simp only [hr, hr', ↓reduceIte]
              have hreset := PolyIntersections.reset_moved hp it.rowsStart
              cases h3 : ints'.resetWithNewScanline (it.rowsStart + d.y) with
              | none =>
                cases h4 : ints.resetWithNewScanline it.rowsStart with
                | none => trivial
                | some x => rw [h3, h4] at hreset; exact hreset.elim
              | some x' =>
                cases h4 : ints.resetWithNewScanline it.rowsStart with
                | none => rw [h3, h4] at hreset; exact hreset.elim
                | some x =>
                  rw [h3, h4] at hreset
                  exact ih ⟨by show it.rowsStart + d.y + 1 = it.rowsStart + 1 + d.y; omega, rfl, hreset⟩
            · have hr' : ¬ it.rowsStart + d.y < it.rowsEnd + d.y := by omega
              simp only [hr, hr', ↓reduceIte]
              trivial

theorem PolyScanlines.stepBudget_moved {d : Pt} {it' it : PolyScanlines} (h : PSR d it' it) :
    it'.stepBudget = it.stepBudget := by
  unfold PolyScanlines.stepBudget
  rw [h.rs, h.re, h.ints.points, List.length_map]
  congr 3
  omega

theorem PolyScanlines.next_moved {d : Pt} {it' it : PolyScanlines} (h : PSR d it' it) :
    OptRel (OptRel (ScanItemR d)) it'.next it.next := by
  unfold PolyScanlines.next
  rw [PolyScanlines.stepBudget_moved h]
  exact PolyScanlines.nextFuel_moved _ h

theorem PolyScanlines.toListFuel_moved {d : Pt} (fuel : Nat) {it' it : PolyScanlines} (h : PSR d it' it) :
    OptRel (fun l' l => l' = l.map (shiftS · d)) (it'.toListFuel fuel) (it.toListFuel fuel) := by
  induction fuel generalizing it' it with
  | zero => exact rfl
  | succ fuel ih =>
    unfold PolyScanlines.toListFuel
    have hn := PolyScanlines.next_moved h
    cases h1 : it'.next with
    | none =>
      cases h2 : it.next with
      | none => trivial
      | some r => rw [h1, h2] at hn; exact hn.elim
    | some r' =>
      cases h2 : it.next with
      | none => rw [h1, h2] at hn; exact hn.elim
      | some r =>
        rw [h1, h2] at hn
        cases r' with
        | none =>
          cases r with
          | none => exact rfl
          | some x => exact hn.elim
        | some x' =>
          cases r with
          | none => exact hn.elim
          | some x =>
            obtain ⟨s', it1'⟩ := x'
            obtain ⟨s, it1⟩ := x
            obtain ⟨hs, hp⟩ := hn
            simp only at hs hp
            subst hs
            simp only [Option.bind_eq_bind, Option.bind_some]
            have hrec := ih hp
            cases h3 : PolyScanlines.toListFuel fuel it1' with
            | none =>
              cases h4 : PolyScanlines.toListFuel fuel it1 with
              | none => trivial
              | some l => rw [h3, h4] at hrec; exact hrec.elim
            | some l' =>
              cases h4 : PolyScanlines.toListFuel fuel it1 with
              | none => rw [h3, h4] at hrec; exact hrec.elim
              | some l =>
                rw [h3, h4] at hrec
                have hrec' : l' = l.map (shiftS · d) := hrec
                subst hrec'
                exact rfl

theorem PolyScanlines.toList_moved {d : Pt} {it' it : PolyScanlines} (h : PSR d it' it) :
    OptRel (fun l' l => l' = l.map (shiftS · d)) it'.toList it.toList := by
  unfold PolyScanlines.toList
  rw [PolyScanlines.stepBudget_moved h]
  exact PolyScanlines.toListFuel_moved _ h

/-! ### `ScanlineIterator::new`, `draw_thick` -/

/-- `Rectangle::rows()` of the moved box does not saturate. -/
def RowsGuard (vs : List Pt) (w : Nat) (d : Pt) : Prop :=
  match untranslatedBoundingBox ⟨Pt.zero, vs⟩ w with
  | some bb => (bb.translate d).rowsEnd = bb.rowsEnd + d.y
  | none => True

instance (vs : List Pt) (w : Nat) (d : Pt) : Decidable (RowsGuard vs w d) := by
  unfold RowsGuard; split <;> exact inferInstance

theorem PolyScanlines.empty_toList : PolyScanlines.empty.toList = some [] := by decide

/-- The scanlines of the polyline with moved vertices are the moved scanlines. -/
theorem polyScanlineList_moved (vs : List Pt) (w : Nat) (d : Pt) (hw : 0 < w) (hn : 2 ≤ vs.length)
    (hns : PolyNoSat w d vs) (hg : BoxGuard vs w d) (hrows : RowsGuard vs w d) :
    OptRel (fun l' l => l' = l.map (shiftS · d))
      ((PolyScanlines.new ⟨Pt.zero, vs.map (· + d)⟩ w).bind PolyScanlines.toList)
      ((PolyScanlines.new ⟨Pt.zero, vs⟩ w).bind PolyScanlines.toList) := by
  unfold PolyScanlines.new
  rw [untranslatedBoundingBox_moved vs w d hw hn hns hg]
  unfold RowsGuard at hrows
  cases hb : untranslatedBoundingBox ⟨Pt.zero, vs⟩ w with
  | none => trivial
  | some bb =>
    rw [hb] at hrows
    simp only [Option.map_some, Option.bind_eq_bind, Option.bind_some, hrows, Rect.translate_tl, Pt.add_y]
    by_cases hr : bb.tl.y < bb.rowsEnd
    · have hr' : bb.tl.y + d.y < bb.rowsEnd + d.y := by omega
      simp only [hr, hr', ↓reduceIte]
      have hnew := PolyIntersections.new_moved vs w bb.tl.y d hns
      cases h1 : PolyIntersections.new (vs.map (· + d)) w (bb.tl.y + d.y) with
      | none =>
        cases h2 : PolyIntersections.new vs w bb.tl.y with
        | none => trivial
        | some x => rw [h1, h2] at hnew; exact hnew.elim
      | some x' =>
        cases h2 : PolyIntersections.new vs w bb.tl.y with
        | none => rw [h1, h2] at hnew; exact hnew.elim
        | some x =>
          rw [h1, h2] at hnew
          simp only [Option.bind_some, pure]
          exact PolyScanlines.toList_moved
            ⟨by show bb.tl.y + d.y + 1 = bb.tl.y + 1 + d.y; omega, rfl, hnew⟩
    · have hr' : ¬ bb.tl.y + d.y < bb.rowsEnd + d.y := by omega
      simp only [hr, hr', ↓reduceIte, pure, Option.bind_some, PolyScanlines.empty_toList]
      exact rfl

theorem rects_shift (l : List Scanline) (d : Pt) :
    ((l.map (shiftS · d)).map Scanline.toRectangle).filter (fun r => !r.isZeroSized) =
      ((l.map Scanline.toRectangle).filter (fun r => !r.isZeroSized)).map (·.translate d) := by
  induction l with
  | nil => rfl
  | cons s rest ih =>
    simp only [List.map_cons, List.filter_cons, toRectangle_shiftS, Rect.isZeroSized_translate]
    by_cases h : (!s.toRectangle.isZeroSized) = true
    · simp only [h, ↓reduceIte, List.map_cons, ih]
    · simp only [h, Bool.false_eq_true, ↓reduceIte, ih]

/-- **`draw_thick` of a polyline with moved vertices fills the moved rectangles, in the same order.** -/
theorem drawThickRects_moved (vs : List Pt) (w : Nat) (d : Pt) (hw : 0 < w) (hn : 2 ≤ vs.length)
    (hns : PolyNoSat w d vs) (hg : BoxGuard vs w d) (hrows : RowsGuard vs w d) :
    drawThickRects ⟨Pt.zero, vs.map (· + d)⟩ w =
      (drawThickRects ⟨Pt.zero, vs⟩ w).map (·.map (·.translate d)) := by
  have h := polyScanlineList_moved vs w d hw hn hns hg hrows
  have e : ∀ pl : Polyline, drawThickRects pl w =
      ((PolyScanlines.new pl w).bind PolyScanlines.toList).map
        (fun lines => (lines.map Scanline.toRectangle).filter (fun r => !r.isZeroSized)) := by
    intro pl
    unfold drawThickRects
    cases PolyScanlines.new pl w with
    | none => rfl
    | some it =>
      simp only [Option.bind_eq_bind, Option.bind_some]
      cases it.toList with
      | none => rfl
      | some l => rfl
  rw [e, e]
  cases h1 : (PolyScanlines.new ⟨Pt.zero, vs.map (· + d)⟩ w).bind PolyScanlines.toList with
  | none =>
    cases h2 : (PolyScanlines.new ⟨Pt.zero, vs⟩ w).bind PolyScanlines.toList with
    | none => rfl
    | some l => rw [h1, h2] at h; exact h.elim
  | some l' =>
    cases h2 : (PolyScanlines.new ⟨Pt.zero, vs⟩ w).bind PolyScanlines.toList with
    | none => rw [h1, h2] at h; exact h.elim
    | some l =>
      rw [h1, h2] at h
      have h' : l' = l.map (shiftS · d) := h
      subst h'
      simp only [Option.map_some, Option.some.injEq]
      exact rects_shift l d

end Joins
end EG
