/-
  EG.Lemmas.FaultTarget — facts about the error-aware target model (EG/Model/FaultTarget.lean):
  each adapter method is ONE parent method applied to the lowered call (`FTarget.wrap_call`), a
  stack is one root call (`FTarget.stack_call`), the recording roots are `enter()?; log.push`
  (`FTarget.root_call`), and what a `?`-run over such a target leaves in the root's record
  (`FTarget.runCalls_record_fail`, `FTarget.runCalls_record_ok`).
-/
import EG.Model.FaultTarget
namespace EG
namespace FTarget
open Adapter

/-- The box an adapter reports is the one the call-level model (`Adapter.bbox`) computes from the
parent's box. -/
theorem wrap_bbox (P : FTarget) (a : Adapter) : (P.wrap a).bbox = a.bbox P.bbox := by
  cases a <;> rfl

/-- **One adapter call = one parent call, result returned unchanged.** Whatever the parent is
(failing or not), a method of the adapter is the parent's method applied to the lowered call: the
same function of the root's record, so the same `Result` and the same record afterwards. -/
theorem wrap_call (P : FTarget) (a : Adapter) (c : Call) :
    (P.wrap a).call c = P.call (a.lower P.bbox c) := by
  cases a with
  | clipped r =>
    cases c with
    | drawIter px => rfl
    | fillContiguous area cs =>
      show (if (r.intersection P.bbox).intersection area = area then P.fillContiguous area cs
        else P.fillContiguous ((r.intersection P.bbox).intersection area)
          (croppedList cs area.size (((r.intersection P.bbox).intersection area).translate (-area.tl)))) = _
      simp only [Adapter.lower, Adapter.lowerClipped]
      split <;> rfl
    | fillSolid area col => rfl
    | clear col => rfl
  | cropped r => cases c <;> rfl
  | translated d => cases c <;> rfl
  | converted f => cases c <;> rfl

theorem stack_bbox (P : FTarget) (s : Stack) : (P.stack s).bbox = stackBox P.bbox s := by
  induction s generalizing P with
  | nil => rfl
  | cons a rest ih => simp only [stack, stackBox, ih, wrap_bbox]

/-- A call on top of a stack of any depth is ONE call on the bottom target: `lowerStack` of it. -/
theorem stack_call (P : FTarget) (s : Stack) (c : Call) :
    (P.stack s).call c = P.call (lowerStack P.bbox s c) := by
  induction s generalizing P with
  | nil => rfl
  | cons a rest ih => simp only [stack, lowerStack, ih, wrap_call, wrap_bbox]

/-- Both recording roots: every method is `enter()?` followed by logging one call — on `R1` the
three trait defaults reach `draw_iter` by tail calls, one `enter` per call issued. -/
theorem root_call (native : Bool) (B : Rect) (c : Call) :
    (root native B).call c = RootState.record (rootLogged native B c) := by
  cases native <;> cases c <;> rfl

theorem root_bbox (native : Bool) (B : Rect) : (root native B).bbox = B := by
  cases native <;> rfl

/-- A call on top of any stack over a recording root: one `enter()?`, one log entry (the lowered
call as the root records it). -/
theorem root_stack_call (native : Bool) (B : Rect) (s : Stack) (c : Call) :
    ((root native B).stack s).call c
      = RootState.record ((rootLogged native B ∘ lowerStack B s) c) := by
  rw [stack_call, root_bbox, root_call]; rfl

/-! ### `Rec::enter` -/

theorem enter_ok (st : RootState) (he : st.errored = false) (hf : st.failAt ≠ some st.calls) :
    st.enter = (.ok (), { st with calls := st.calls + 1 }) := by
  simp [RootState.enter, he, hf]

theorem enter_err (st : RootState) (he : st.errored = false) (hf : st.failAt = some st.calls) :
    st.enter = (.error st.calls, { st with calls := st.calls + 1, errored := true }) := by
  simp [RootState.enter, he, hf]

theorem record_ok (call : Call) (st : RootState) (he : st.errored = false)
    (hf : st.failAt ≠ some st.calls) :
    RootState.record call st =
      (.ok (), { st with calls := st.calls + 1, log := st.log ++ [call] }) := by
  simp only [RootState.record, enter_ok st he hf]

theorem record_err (call : Call) (st : RootState) (he : st.errored = false)
    (hf : st.failAt = some st.calls) :
    RootState.record call st =
      (.error st.calls, { st with calls := st.calls + 1, errored := true }) := by
  simp only [RootState.record, enter_err st he hf]

/-- Every call that reaches a recording root is counted, failing or not. -/
theorem record_calls (call : Call) (st : RootState) :
    (RootState.record call st).2.calls = st.calls + 1 := by
  unfold RootState.record RootState.enter
  by_cases he : st.errored = true <;> by_cases hf : st.failAt = some st.calls <;> simp [he, hf]

/-! ### `?`-runs over a target whose every call is `enter()?; log.push(g call)` -/

/-- No fault position inside the run: all calls succeed and are logged. -/
theorem runCalls_record_ok (T : FTarget) (g : Call → Call)
    (hT : ∀ c, T.call c = RootState.record (g c)) (cs : List Call) (st : RootState)
    (he : st.errored = false)
    (hno : ∀ k, st.failAt = some k → k < st.calls ∨ st.calls + cs.length ≤ k) :
    T.runCalls cs st =
      (.ok (), { st with calls := st.calls + cs.length, log := st.log ++ cs.map g }) := by
  induction cs generalizing st with
  | nil => simp [runCalls]
  | cons c cs ih =>
    have hf : st.failAt ≠ some st.calls := by
      intro h
      rcases hno _ h with h' | h'
      · omega
      · simp only [List.length_cons] at h'; omega
    have hstep : T.runCalls (c :: cs) st =
        T.runCalls cs { st with calls := st.calls + 1, log := st.log ++ [g c] } := by
      simp only [runCalls, hT, record_ok (g c) st he hf]
    have hno' : ∀ k, st.failAt = some k → k < st.calls + 1 ∨ st.calls + 1 + cs.length ≤ k := by
      intro k hk
      rcases hno k hk with h' | h'
      · left; omega
      · right; simp only [List.length_cons] at h'; omega
    rw [hstep, ih { st with calls := st.calls + 1, log := st.log ++ [g c] } he hno']
    simp [Nat.add_assoc, Nat.add_comm 1]

/-- Fault position `k` inside the run (the run starts at call number `st.calls ≤ k`): the run
returns `Err(k)` at once; `k + 1` calls were counted, none after the error; the log holds the
calls before the failing one. -/
theorem runCalls_record_fail (T : FTarget) (g : Call → Call)
    (hT : ∀ c, T.call c = RootState.record (g c)) (k : Nat) (cs : List Call) (st : RootState)
    (he : st.errored = false) (hf : st.failAt = some k)
    (hik : st.calls ≤ k) (hk : k < st.calls + cs.length) :
    T.runCalls cs st =
      (.error k, { st with calls := k + 1, errored := true,
                           log := st.log ++ (cs.map g).take (k - st.calls) }) := by
  induction cs generalizing st with
  | nil => simp only [List.length_nil] at hk; omega
  | cons c cs ih =>
    by_cases hkc : k = st.calls
    · have hf' : st.failAt = some st.calls := by rw [hf, hkc]
      simp only [runCalls, hT, record_err (g c) st he hf']
      subst hkc
      simp
    · have hf' : st.failAt ≠ some st.calls := by
        rw [hf]; intro h; exact hkc (Option.some.inj h)
      have hstep : T.runCalls (c :: cs) st =
          T.runCalls cs { st with calls := st.calls + 1, log := st.log ++ [g c] } := by
        simp only [runCalls, hT, record_ok (g c) st he hf']
      have hik' : st.calls + 1 ≤ k := by omega
      have hk' : k < st.calls + 1 + cs.length := by simp only [List.length_cons] at hk; omega
      rw [hstep, ih { st with calls := st.calls + 1, log := st.log ++ [g c] } he hf hik' hk']
      have h1 : k - st.calls = (k - (st.calls + 1)) + 1 := by omega
      simp [h1, List.take_succ_cons]

/-- A caller that DROPS errors: every call reaches the target, whatever fails. -/
theorem runCallsIgnoring_calls (T : FTarget) (g : Call → Call)
    (hT : ∀ c, T.call c = RootState.record (g c)) (cs : List Call) (st : RootState) :
    (T.runCallsIgnoring cs st).2.calls = st.calls + cs.length := by
  induction cs generalizing st with
  | nil => rfl
  | cons c cs ih =>
    simp only [runCallsIgnoring, ih, hT, record_calls, List.length_cons]
    omega

end FTarget
end EG
