/-
  EG.Lemmas.MockPatternText — the direction text -> display -> text of the pattern round trip:
  for every pattern `from_pattern` accepts, the `Debug` rows of the display are the pattern again,
  normalised: every row padded with spaces to 64 columns (`normRow`), lower-case hex digits printed
  upper-case (`canonChar`, `Gray4` / `Gray8` only), trailing blank rows dropped (`dropTrailing`).
-/
import EG.Lemmas.MockPattern
namespace EG
namespace Mock

/-! ### characters -/

/-- `a`..`f` to `A`..`F`, every other character unchanged. -/
def upcaseHex (c : Char) : Char :=
  if 97 ≤ c.toNat ∧ c.toNat ≤ 102 then Char.ofNat (c.toNat - 32) else c

/-- What `Debug` prints for an accepted pattern character: the character itself; for the two types
that read hex digits in both cases (`Gray4`, `Gray8`: `char::to_digit(16)`) the upper-case digit. -/
def canonChar (ct : CT) (c : Char) : Char :=
  match ct with
  | .gray4 => upcaseHex c
  | .gray8 => upcaseHex c
  | _ => c

/-- The ASCII characters `char_to_color` accepts. -/
def accepted (ct : CT) : List Char :=
  ((List.range 128).map Char.ofNat).filter (fun c => (charToColor ct c).isSome)

/-- Finite table: every accepted ASCII character is printed back as its canonical form, which is
not the space; it is one byte long. -/
theorem accepted_table : ∀ ct ∈ allCT, ∀ c ∈ accepted ct,
    (charToColor ct c).map (colorToChar ct) = some (canonChar ct c) ∧ canonChar ct c ≠ ' ' ∧
      c ≠ ' ' ∧ c.utf8Size = 1 := by decide +kernel

theorem lookup_mem_keys {β : Type} (c : Char) : ∀ (l : List (Char × β)) (v : β),
    l.lookup c = some v → c ∈ l.map Prod.fst
  | [], _, h => by cases h
  | (k, w) :: rest, v, h => by
    rw [List.lookup_cons] at h
    by_cases hk : c == k
    · have : c = k := by simpa using hk
      simp [this]
    · have hk' : (c == k) = false := by simpa using hk
      rw [hk'] at h
      simp only [List.map_cons, List.mem_cons]
      exact Or.inr (lookup_mem_keys c rest v h)

/-- Only ASCII characters are accepted. -/
theorem charToColor_ascii (ct : CT) (c : Char) (col : Color) (h : charToColor ct c = some col) :
    c.toNat < 128 := by
  have hd16 : ∀ v, toDigit16 c = some v → c.toNat < 128 := by
    intro v hv
    unfold toDigit16 at hv
    dsimp only at hv
    split at hv
    · omega
    · split at hv
      · omega
      · split at hv
        · omega
        · cases hv
  have hrgb : ∀ l : RgbLayout, l.named.lookup c = some col → c.toNat < 128 := by
    intro l hl
    have hm := lookup_mem_keys c _ _ hl
    simp only [RgbLayout.named, List.map_cons, List.map_nil, List.mem_cons, List.not_mem_nil,
      or_false] at hm
    rcases hm with rfl | rfl | rfl | rfl | rfl | rfl | rfl | rfl <;> decide
  cases ct
  case binary =>
    unfold charToColor at h
    dsimp only at h
    split at h
    · next hc => rw [hc]; decide
    · split at h
      · next hc => rw [hc]; decide
      · cases h
  case gray2 =>
    unfold charToColor toDigit4 at h
    dsimp only at h
    split at h
    · omega
    · cases h
  case gray4 => exact hd16 col h
  case gray8 =>
    unfold charToColor at h
    dsimp only at h
    cases hv : toDigit16 c with
    | none => rw [hv] at h; cases h
    | some v => exact hd16 v hv
  all_goals exact hrgb _ h

theorem mem_accepted (ct : CT) (c : Char) (col : Color) (h : charToColor ct c = some col) :
    c ∈ accepted ct := by
  unfold accepted
  rw [List.mem_filter]
  refine ⟨?_, by rw [h]; rfl⟩
  rw [List.mem_map]
  exact ⟨c.toNat, List.mem_range.mpr (charToColor_ascii ct c col h), Char.ofNat_toNat c⟩

theorem canonChar_space (ct : CT) : canonChar ct ' ' = ' ' := by cases ct <;> decide

/-- One pattern character through `from_pattern` and `Debug`. -/
theorem convChar_show (ct : CT) (c : Char) (v : Option Color) (h : convChar ct c = some v) :
    showCell ct v = canonChar ct c ∧ (v.isNone = (showCell ct v == ' ')) ∧ c.utf8Size = 1 := by
  unfold convChar at h
  by_cases hs : c = ' '
  · subst hs
    simp only [↓reduceIte, Option.some.injEq] at h
    subst h
    exact ⟨(canonChar_space ct).symm, rfl, by decide⟩
  · simp only [hs, ↓reduceIte] at h
    cases hc : charToColor ct c with
    | none => rw [hc] at h; cases h
    | some col =>
      rw [hc] at h
      simp only [Option.some.injEq] at h
      subst h
      obtain ⟨t1, t2, _, t4⟩ := accepted_table ct (mem_allCT ct) c (mem_accepted ct c col hc)
      rw [hc] at t1
      simp only [Option.map_some, Option.some.injEq] at t1
      refine ⟨t1, ?_, t4⟩
      show false = (colorToChar ct col == ' ')
      rw [t1]
      symm
      simpa using t2

/-! ### rows -/

/-- A pattern row as `Debug` prints it: canonical characters, padded with spaces to 64 columns. -/
def normRow (ct : CT) (r : List Char) : List Char :=
  (r.map (canonChar ct) ++ List.replicate 64 ' ').take 64

theorem normRow_of_le (ct : CT) (r : List Char) (h : r.length ≤ 64) :
    normRow ct r = r.map (canonChar ct) ++ List.replicate (64 - r.length) ' ' := by
  unfold normRow
  rw [List.take_append, List.take_of_length_le (by simp; omega), List.take_replicate]
  simp only [List.length_map]
  congr 2
  omega

theorem padRow_map_show (ct : CT) (vr : List (Option Color)) :
    (padRow vr).map (showCell ct) = (vr.map (showCell ct) ++ List.replicate 64 ' ').take 64 := by
  unfold padRow
  rw [List.map_take, List.map_append, List.map_replicate]
  rfl

theorem convRow_show' (ct : CT) : ∀ (r : List Char) (vr : List (Option Color)),
    convRow ct r = some vr →
      vr.map (showCell ct) = r.map (canonChar ct) ∧
      (∀ v ∈ vr, v.isNone = (showCell ct v == ' ')) ∧ rowLen r = r.length
  | [], vr, h => by
    simp only [convRow, Option.some.injEq] at h
    subst h
    exact ⟨rfl, (fun v hv => by cases hv), rfl⟩
  | c :: rest, vr, h => by
    simp only [convRow] at h
    cases h1 : convChar ct c with
    | none => rw [h1] at h; cases h
    | some v =>
      cases h2 : convRow ct rest with
      | none => rw [h1, h2] at h; cases h
      | some vs =>
        rw [h1, h2] at h
        simp only [Option.some.injEq] at h
        subst h
        obtain ⟨a1, a2, a3⟩ := convChar_show ct c v h1
        obtain ⟨b1, b2, b3⟩ := convRow_show' ct rest vs h2
        refine ⟨by simp only [List.map_cons, a1, b1], ?_, ?_⟩
        · intro x hx
          rcases List.mem_cons.mp hx with rfl | hx
          · exact a2
          · exact b2 x hx
        · unfold rowLen at b3 ⊢
          simp only [List.map_cons, List.sum_cons, List.length_cons, a3, b3]
          omega

/-- A blank row of cells / of characters. -/
def blankCells (row : List (Option Color)) : Bool := row.all Option.isNone
def blankRow (row : List Char) : Bool := row.all (· == ' ')

theorem all_map_congr {α β : Type} (f : α → β) (P : β → Bool) (Q : α → Bool) : ∀ (l : List α),
    (∀ a ∈ l, Q a = P (f a)) → l.all Q = (l.map f).all P
  | [], _ => rfl
  | a :: rest, h => by
    simp only [List.all_cons, List.map_cons, h a (by simp),
      all_map_congr f P Q rest (fun x hx => h x (by simp [hx]))]

/-- A converted row, padded: shown it is the normalised text row; blank iff the text row is. -/
theorem padRow_show (ct : CT) (r : List Char) (vr : List (Option Color)) (h : convRow ct r = some vr) :
    (padRow vr).map (showCell ct) = normRow ct r ∧
    blankCells (padRow vr) = blankRow ((padRow vr).map (showCell ct)) := by
  obtain ⟨b1, b2, _⟩ := convRow_show' ct r vr h
  refine ⟨by rw [padRow_map_show, b1]; rfl, ?_⟩
  unfold blankCells blankRow
  apply all_map_congr
  intro v hv
  unfold padRow at hv
  rcases List.mem_append.mp (List.mem_of_mem_take hv) with hv | hv
  · exact b2 v hv
  · rw [(List.mem_replicate.mp hv).2]; rfl

theorem convRows_show' (ct : CT) : ∀ (pat : List (List Char)) (rows : List (List (Option Color))),
    convRows ct pat = some rows →
      (rows.map padRow).map (fun row => row.map (showCell ct)) = pat.map (normRow ct) ∧
      ∀ row ∈ rows.map padRow, blankCells row = blankRow (row.map (showCell ct))
  | [], rows, h => by
    simp only [convRows, Option.some.injEq] at h
    subst h
    exact ⟨rfl, (fun row hr => by cases hr)⟩
  | r :: rest, rows, h => by
    simp only [convRows] at h
    cases h1 : convRow ct r with
    | none => rw [h1] at h; cases h
    | some v =>
      cases h2 : convRows ct rest with
      | none => rw [h1, h2] at h; cases h
      | some vs =>
        rw [h1, h2] at h
        simp only [Option.some.injEq] at h
        subst h
        obtain ⟨a1, a2⟩ := padRow_show ct r v h1
        obtain ⟨b1, b2⟩ := convRows_show' ct rest vs h2
        refine ⟨by simp only [List.map_cons, a1, b1], ?_⟩
        intro row hr
        simp only [List.map_cons, List.mem_cons] at hr
        rcases hr with rfl | hr
        · exact a2
        · exact b2 row hr

/-! ### trailing rows -/

/-- `L` without its trailing elements that satisfy `P`. -/
def dropTrailing {α : Type} (P : α → Bool) (L : List α) : List α :=
  L.take (L.length - (L.reverse.takeWhile P).length)

theorem takeWhile_length_map {α β : Type} (f : α → β) (P : β → Bool) (Q : α → Bool) :
    ∀ (l : List α), (∀ a ∈ l, Q a = P (f a)) →
      ((l.map f).takeWhile P).length = (l.takeWhile Q).length
  | [], _ => rfl
  | a :: rest, h => by
    have ha := h a (by simp)
    simp only [List.map_cons, List.takeWhile_cons, ← ha]
    cases Q a
    · rfl
    · simp only [↓reduceIte, List.length_cons,
        takeWhile_length_map f P Q rest (fun x hx => h x (by simp [hx]))]

theorem dropTrailing_map {α β : Type} (f : α → β) (P : β → Bool) (Q : α → Bool) (L : List α)
    (h : ∀ a ∈ L, Q a = P (f a)) : dropTrailing P (L.map f) = (dropTrailing Q L).map f := by
  unfold dropTrailing
  rw [← List.map_reverse, takeWhile_length_map f P Q L.reverse
    (fun a ha => h a (List.mem_reverse.mp ha)), List.length_map, List.map_take]

theorem takeWhile_replicate_append {α : Type} (P : α → Bool) (e : α) (he : P e = true) (l : List α) :
    ∀ n, ((List.replicate n e ++ l).takeWhile P).length = n + (l.takeWhile P).length
  | 0 => by simp
  | n + 1 => by
    rw [List.replicate_succ, List.cons_append, List.takeWhile_cons, he]
    simp only [↓reduceIte, List.length_cons, takeWhile_replicate_append P e he l n]
    omega

/-! ### the display `from_pattern` builds -/

theorem chunks64_flatten_rows : ∀ (L : List (List (Option Color))), (∀ r ∈ L, r.length = 64) →
    chunks64 L.flatten L.length = L
  | [], _ => rfl
  | r :: rest, h => by
    have hr : r.length = 64 := h r (by simp)
    rw [List.flatten_cons, List.length_cons]
    unfold chunks64
    rw [List.take_left' hr, List.drop_left' hr,
      chunks64_flatten_rows rest (fun x hx => h x (by simp [hx]))]

/-- What `from_pattern` returns `Ok` for. -/
theorem fromPattern_ok_inv (ct : CT) (pat : List (List Char)) (d : MD)
    (h : fromPattern ct pat = .ok d) :
    ∃ rows, convRows ct pat = some rows ∧ pat.length ≤ 64 ∧ d = ⟨cellsOfPattern rows, false, false⟩ := by
  cases pat with
  | nil =>
    have e : fromPattern ct [] = .ok ⟨cellsOfPattern [], false, false⟩ := by
      simp [fromPattern, convRows]
    rw [e] at h
    simp only [PatRes.ok.injEq] at h
    exact ⟨[], rfl, by simp, h.symm⟩
  | cons r rest =>
    unfold fromPattern at h
    dsimp only at h
    by_cases h1 : rowLen r ≤ 64
    · by_cases h2 : (r :: rest).length ≤ 64
      · by_cases h3 : ((r :: rest).all fun r' => rowLen r' == rowLen r) = true
        · simp only [h1, h2, h3, not_true_eq_false, ↓reduceIte] at h
          cases hc : convRows ct (r :: rest) with
          | none => rw [hc] at h; cases h
          | some rows =>
            rw [hc] at h
            simp only [PatRes.ok.injEq] at h
            exact ⟨rows, rfl, h2, h.symm⟩
        · simp only [h1, h2, h3, not_true_eq_false, ↓reduceIte] at h
          cases h
      · simp only [h1, h2, not_true_eq_false, not_false_eq_true, ↓reduceIte] at h
        cases h
    · simp only [h1, not_false_eq_true, ↓reduceIte] at h
      cases h

/-- The 64 cell rows of a display made from converted rows: the padded rows, then empty rows. -/
theorem rows_of_pattern (rows : List (List (Option Color))) (hlen : rows.length ≤ 64) :
    (⟨cellsOfPattern rows, false, false⟩ : MD).rows =
      rows.map padRow ++ List.replicate (64 - rows.length) (List.replicate 64 none) := by
  have hto : (cellsOfPattern rows).toList = patternColors rows := by unfold cellsOfPattern; simp
  unfold MD.rows
  dsimp only
  rw [hto]
  have hall : ∀ r ∈ rows.map padRow ++ List.replicate (64 - rows.length) (List.replicate 64 none),
      r.length = 64 := by
    intro r hr
    rcases List.mem_append.mp hr with hr | hr
    · obtain ⟨v, _, rfl⟩ := List.mem_map.mp hr
      exact padRow_length v
    · rw [(List.mem_replicate.mp hr).2]; simp
  have hpc : patternColors rows =
      (rows.map padRow ++ List.replicate (64 - rows.length) (List.replicate 64 none)).flatten := by
    unfold patternColors
    rw [List.flatten_append, ← List.flatMap_def]
    apply take_pad
    · rw [flatMap_padRow_length]
      have : (List.replicate (64 - rows.length) (List.replicate 64 (none : Option Color))).flatten.length
          = (64 - rows.length) * 64 := by
        simp
      rw [this]; omega
    · intro z hz
      obtain ⟨r, hr, hzr⟩ := List.mem_flatten.mp hz
      rw [(List.mem_replicate.mp hr).2] at hzr
      exact (List.mem_replicate.mp hzr).2
  have hl : (rows.map padRow ++ List.replicate (64 - rows.length) (List.replicate 64 none)).length
      = 64 := by simp; omega
  rw [hpc]
  have hch := chunks64_flatten_rows _ hall
  rw [hl] at hch
  exact hch

/-- **`Debug` of `from_pattern(pattern)` is the pattern again, normalised**: every row in canonical
characters padded to 64 columns, trailing blank rows dropped. -/
theorem debugRows_fromPattern (ct : CT) (pat : List (List Char)) (d : MD)
    (h : fromPattern ct pat = .ok d) :
    d.debugRows ct = dropTrailing blankRow (pat.map (normRow ct)) := by
  obtain ⟨rows, hconv, hlen, rfl⟩ := fromPattern_ok_inv ct pat d h
  have hrl : rows.length ≤ 64 := by rw [convRows_length ct pat rows hconv]; exact hlen
  obtain ⟨hshow, hblank⟩ := convRows_show' ct pat rows hconv
  have hrows := rows_of_pattern rows hrl
  -- the number of trailing empty rows
  have hempty : (⟨cellsOfPattern rows, false, false⟩ : MD).emptyRows =
      (64 - rows.length) + ((rows.map padRow).reverse.takeWhile blankCells).length := by
    unfold MD.emptyRows
    rw [hrows, List.reverse_append, List.reverse_replicate]
    exact takeWhile_replicate_append blankCells (List.replicate 64 none)
      (by simp [blankCells]) (rows.map padRow).reverse (64 - rows.length)
  have hk : ((rows.map padRow).reverse.takeWhile blankCells).length ≤ rows.length := by
    have := (List.takeWhile_sublist blankCells (l := (rows.map padRow).reverse)).length_le
    simpa using this
  rw [debugRows_eq, hempty, hrows, ← hshow, dropTrailing_map _ blankRow blankCells _ hblank]
  unfold dropTrailing
  have e : 64 - (64 - rows.length + ((rows.map padRow).reverse.takeWhile blankCells).length) =
      (rows.map padRow).length - ((rows.map padRow).reverse.takeWhile blankCells).length := by
    rw [List.length_map]; omega
  rw [e, List.take_append_of_le_length (by rw [List.length_map]; omega)]

/-! ### patterns that are already in normal form -/

theorem dropTrailing_of_last {α : Type} (P : α → Bool) (L : List α)
    (h : ∀ last, L.getLast? = some last → P last = false) : dropTrailing P L = L := by
  unfold dropTrailing
  have : L.reverse.takeWhile P = [] := by
    cases hr : L.reverse with
    | nil => rfl
    | cons a rest =>
      have hl : L.getLast? = some a := by
        rw [← List.head?_reverse, hr]; rfl
      rw [List.takeWhile_cons, h a hl]
      rfl
  rw [this]
  simp

/-- The documented characters (upper-case hex digits included) are canonical. -/
theorem canonChar_charset : ∀ ct ∈ allCT, ∀ ch ∈ charset ct, canonChar ct ch = ch := by decide +kernel

theorem normRow_of_canonical (ct : CT) (r : List Char) (hl : r.length = 64)
    (hc : ∀ c ∈ r, canonChar ct c = c) : normRow ct r = r := by
  rw [normRow_of_le ct r (by omega), hl]
  simp only [Nat.sub_self, List.replicate_zero, List.append_nil]
  conv => rhs; rw [← List.map_id r]
  exact List.map_congr_left hc

/-- A pattern of full-width rows in canonical characters whose last row is not blank is printed
back exactly. -/
theorem debugRows_fromPattern_exact (ct : CT) (pat : List (List Char)) (d : MD)
    (h : fromPattern ct pat = .ok d) (hw : ∀ r ∈ pat, r.length = 64)
    (hc : ∀ r ∈ pat, ∀ c ∈ r, canonChar ct c = c)
    (hl : ∀ last, pat.getLast? = some last → blankRow last = false) : d.debugRows ct = pat := by
  rw [debugRows_fromPattern ct pat d h]
  have e : pat.map (normRow ct) = pat := by
    conv => rhs; rw [← List.map_id pat]
    exact List.map_congr_left (fun r hr => normRow_of_canonical ct r (hw r hr) (hc r hr))
  rw [e]
  exact dropTrailing_of_last blankRow pat hl

end Mock
end EG
