/-
  EG.Lemmas.Scanline — generic facts behind every scanline-based shape:
  * `Range::find` on `a..b` (`rangeFind`) and filters of integer ranges,
  * **`mirroredRange_spec`**: for a predicate that is mirror-symmetric about the middle of `a..b` and
    convex, "first hit, mirrored" (`x..b - (x - a)`) is exactly the set of hits,
  * the `Scanline` iterator equals its closed form,
  * `untilNone`.
-/
import EG.Model.StyledScanline
import EG.Lemmas.RectPoints
namespace EG

/-! ### integer ranges -/

theorem filter_irange_interval (p : Int → Bool) : ∀ (n : Nat) (a b l u : Int), (b - a).toNat = n →
    (∀ x, a ≤ x → x < b → (p x = true ↔ l ≤ x ∧ x < u)) → a ≤ l → u ≤ b →
    (irange a b).filter p = irange l u := by
  intro n
  induction n with
  | zero =>
    intro a b l u hn _ hl hu
    rw [irange_empty (a := a) (b := b) (by omega), irange_empty (a := l) (b := u) (by omega)]
    rfl
  | succ n ih =>
    intro a b l u hn h hl hu
    have hab : a < b := by omega
    rw [irange_cons hab, List.filter_cons]
    by_cases hpa : p a = true
    · have hla := (h a (Int.le_refl a) hab).mp hpa
      have hl' : l = a := by omega
      subst hl'
      rw [if_pos hpa, irange_cons (a := l) (b := u) hla.2]
      congr 1
      apply ih (l + 1) b (l + 1) u (by omega) _ (Int.le_refl _) hu
      intro x hx1 hx2
      rw [h x (by omega) hx2]; omega
    · rw [if_neg hpa]
      have hna : ¬ (l ≤ a ∧ a < u) := fun hc => hpa ((h a (Int.le_refl a) hab).mpr hc)
      by_cases hla : l ≤ a
      · -- then `u ≤ a`: the target interval is empty
        rw [irange_empty (a := l) (b := u) (by omega)]
        have := ih (a + 1) b (a + 1) u (by omega) (by
          intro x hx1 hx2
          rw [h x (by omega) hx2]; omega) (Int.le_refl _) hu
        rw [this, irange_empty (a := a + 1) (b := u) (by omega)]
      · apply ih (a + 1) b l u (by omega) _ (by omega) hu
        intro x hx1 hx2
        exact h x (by omega) hx2

theorem rangeFind_none {p : Int → Bool} {a b : Int} :
    rangeFind p a b = none ↔ ∀ x, a ≤ x → x < b → p x = false := by
  unfold rangeFind
  rw [List.find?_eq_none]
  constructor
  · intro h x h1 h2
    have := h x (mem_irange.mpr ⟨h1, h2⟩)
    simpa using this
  · intro h x hx
    rw [mem_irange] at hx
    simp [h x hx.1 hx.2]

theorem rangeFind_some_aux (p : Int → Bool) : ∀ (n : Nat) (a b x0 : Int), (b - a).toNat = n →
    (rangeFind p a b = some x0 ↔
      a ≤ x0 ∧ x0 < b ∧ p x0 = true ∧ ∀ x, a ≤ x → x < x0 → p x = false) := by
  intro n
  induction n with
  | zero =>
    intro a b x0 hn
    unfold rangeFind
    rw [irange_empty (a := a) (b := b) (by omega)]
    simp only [List.find?_nil]
    constructor
    · intro h; cases h
    · intro h; omega
  | succ n ih =>
    intro a b x0 hn
    have hab : a < b := by omega
    unfold rangeFind
    rw [irange_cons hab, List.find?_cons]
    by_cases hpa : p a = true
    · rw [hpa]
      simp only [Option.some.injEq]
      constructor
      · intro h; subst h
        exact ⟨Int.le_refl _, hab, hpa, fun x h1 h2 => by omega⟩
      · rintro ⟨h1, _, _, h4⟩
        by_cases hx : a = x0
        · exact hx
        · have := h4 a (Int.le_refl _) (by omega)
          rw [hpa] at this; cases this
    · have hpa' : p a = false := by simpa using hpa
      rw [hpa']
      have := ih (a + 1) b x0 (by omega)
      unfold rangeFind at this
      simp only
      rw [this]
      constructor
      · rintro ⟨h1, h2, h3, h4⟩
        refine ⟨by omega, h2, h3, ?_⟩
        intro x hx1 hx2
        by_cases hxa : x = a
        · subst hxa; exact hpa'
        · exact h4 x (by omega) hx2
      · rintro ⟨h1, h2, h3, h4⟩
        have : a ≠ x0 := by
          intro hc; subst hc; rw [hpa'] at h3; cases h3
        exact ⟨by omega, h2, h3, fun x hx1 hx2 => h4 x (by omega) hx2⟩

/-- `Range::find`: the result is the first hit. -/
theorem rangeFind_some {p : Int → Bool} {a b x0 : Int} :
    rangeFind p a b = some x0 ↔
      a ≤ x0 ∧ x0 < b ∧ p x0 = true ∧ ∀ x, a ≤ x → x < x0 → p x = false :=
  rangeFind_some_aux p _ a b x0 rfl

/-! ### symmetric convex predicates: first hit mirrored = all hits -/

/-- `p` is mirror-symmetric about the middle of `a..b` and convex towards the middle. -/
structure SymConvex (p : Int → Bool) (a b : Int) : Prop where
  sym : ∀ x, p (a + b - 1 - x) = p x
  conv : ∀ x z, p x = true → x ≤ z → z ≤ a + b - 1 - x → p z = true

/-- **Row interval lemma (generic).** If the hit predicate of a row is symmetric about the middle of
the searched range and convex, the range "first hit .. end shortened by the same amount" is exactly
the set of hits within `a..b`; it is non-empty, lies within `a..b` and is centred. -/
theorem mirroredRange_spec {p : Int → Bool} {a b l u : Int} (hp : SymConvex p a b)
    (h : mirroredRange p a b = some (l, u)) :
    (∀ x, a ≤ x → x < b → (p x = true ↔ l ≤ x ∧ x < u)) ∧ a ≤ l ∧ u ≤ b ∧ l < u ∧ l + u = a + b := by
  unfold mirroredRange at h
  cases hf : rangeFind p a b with
  | none => rw [hf] at h; cases h
  | some x0 =>
    rw [hf] at h
    simp only [Option.map_some, Option.some.injEq, Prod.mk.injEq] at h
    obtain ⟨rfl, rfl⟩ := h
    obtain ⟨h1, h2, h3, h4⟩ := rangeFind_some.mp hf
    -- the mirror of the first hit is a hit, hence not left of the first hit
    have hm : p (a + b - 1 - x0) = true := by rw [hp.sym]; exact h3
    have hle : x0 ≤ a + b - 1 - x0 := by
      by_cases hc : x0 ≤ a + b - 1 - x0
      · exact hc
      · have := h4 (a + b - 1 - x0) (by omega) (by omega)
        rw [hm] at this; cases this
    refine ⟨?_, h1, by omega, by omega, by omega⟩
    intro x hx1 hx2
    constructor
    · intro hpx
      by_cases hlo : x < x0
      · have := h4 x hx1 hlo; rw [hpx] at this; cases this
      · by_cases hhi : x < b - (x0 - a)
        · omega
        · -- right of the mirror: its own mirror is left of the first hit
          have := h4 (a + b - 1 - x) (by omega) (by omega)
          rw [hp.sym, hpx] at this; cases this
    · rintro ⟨hx3, hx4⟩
      exact hp.conv x0 x h3 hx3 (by omega)

theorem mirroredRange_none {p : Int → Bool} {a b : Int} :
    mirroredRange p a b = none ↔ ∀ x, a ≤ x → x < b → p x = false := by
  unfold mirroredRange
  rw [Option.map_eq_none_iff, rangeFind_none]

/-- The hits of `a..b` as a list are the mirrored range. -/
theorem filter_irange_mirrored {p : Int → Bool} {a b l u : Int} (hp : SymConvex p a b)
    (h : mirroredRange p a b = some (l, u)) : (irange a b).filter p = irange l u := by
  obtain ⟨h1, h2, h3, _, _⟩ := mirroredRange_spec hp h
  exact filter_irange_interval p _ a b l u rfl h1 h2 h3

theorem filter_irange_none {p : Int → Bool} {a b : Int} (h : mirroredRange p a b = none) :
    (irange a b).filter p = [] := by
  rw [List.filter_eq_nil_iff]
  intro x hx
  rw [mem_irange] at hx
  rw [mirroredRange_none.mp h x hx.1 hx.2]; simp

/-! ### the `Scanline` iterator -/

namespace Scanline

theorem toListFuel_eq : ∀ (fuel : Nat) (s : Scanline), (s.xe - s.xs).toNat < fuel →
    s.toListFuel fuel = s.points := by
  intro fuel
  induction fuel with
  | zero => intro s h; omega
  | succ fuel ih =>
    intro s h
    unfold toListFuel next points
    by_cases hx : s.xs < s.xe
    · simp only [hx, ↓reduceIte]
      rw [ih _ (by dsimp only; omega), irange_cons hx]
      simp [points]
    · simp only [hx, ↓reduceIte]
      rw [irange_empty (a := s.xs) (b := s.xe) (by omega)]; rfl

/-- A `for` loop over a scanline sees the points `(x, y)`, `x` in `xs..xe`, in order. -/
theorem toList_eq (s : Scanline) : s.toList = s.points := toListFuel_eq _ s (by omega)

theorem mem_points {s : Scanline} {p : Pt} : p ∈ s.points ↔ p.y = s.y ∧ s.xs ≤ p.x ∧ p.x < s.xe := by
  unfold points
  simp only [List.mem_map, mem_irange]
  constructor
  · rintro ⟨x, hx, rfl⟩; exact ⟨rfl, hx⟩
  · rintro ⟨h1, h2⟩; exact ⟨p.x, h2, by cases p; simp_all⟩

theorem points_empty {s : Scanline} (h : ¬ s.xs < s.xe) : s.points = [] := by
  unfold points; rw [irange_empty (a := s.xs) (b := s.xe) (by omega)]; rfl

theorem points_cons {s : Scanline} (h : s.xs < s.xe) :
    s.points = ⟨s.xs, s.y⟩ :: ({ s with xs := s.xs + 1 } : Scanline).points := by
  unfold points; rw [irange_cons h]; rfl

theorem points_length (s : Scanline) : s.points.length = (s.xe - s.xs).toNat := by
  simp [points, irange_length]

end Scanline

/-! ### `untilNone` -/

theorem untilNone_map_some {α β : Type} (f : α → Option β) (g : α → β) :
    ∀ (l : List α), (∀ a ∈ l, f a = some (g a)) → untilNone (l.map f) = l.map g := by
  intro l
  induction l with
  | nil => intro _; rfl
  | cons a l ih =>
    intro h
    simp only [List.map_cons]
    rw [h a List.mem_cons_self]
    simp only [untilNone]
    rw [ih (fun b hb => h b (List.mem_cons_of_mem _ hb))]

end EG
