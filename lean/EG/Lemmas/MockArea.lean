/-
  EG.Lemmas.MockArea — `affected_area`, `PartialEq`, `diff` of the `MockDisplay` model.
-/
import EG.Lemmas.Mock
namespace EG
namespace Mock

/-! ### The points of the display, by index -/

theorem displayArea_inRange : displayArea.InRange := by decide

theorem mem_displayPoints {p : Pt} : p ∈ displayArea.points ↔ Inside p := by
  rw [Rect.mem_points displayArea_inRange, contains_iff_inside]

/-- Element `i` of a concatenation of rows of 64. -/
theorem getElem?_flatMap64 {α β : Type} (f : α → List β) : ∀ (l : List α),
    (∀ a ∈ l, (f a).length = 64) → ∀ i : Nat,
    (l.flatMap f)[i]? = (l[i / 64]?).bind (fun a => (f a)[i % 64]?)
  | [], _, i => by simp
  | a :: l, h, i => by
    have ha : (f a).length = 64 := h a (by simp)
    rw [List.flatMap_cons]
    by_cases hi : i < 64
    · rw [List.getElem?_append_left (by omega)]
      have e1 : i / 64 = 0 := by omega
      have e2 : i % 64 = i := by omega
      simp [e1, e2]
    · rw [List.getElem?_append_right (by omega), ha,
        getElem?_flatMap64 f l (fun b hb => h b (by simp [hb])) (i - 64)]
      have e1 : i / 64 = (i - 64) / 64 + 1 := by omega
      have e2 : (i - 64) % 64 = i % 64 := by omega
      rw [e1, e2]; simp

theorem irange_getElem? (a b : Int) (i : Nat) (h : i < (b - a).toNat) :
    (irange a b)[i]? = some (a + i) := by
  rw [List.getElem?_eq_getElem (by rw [irange_length]; exact h), irange_getElem]

/-- `bounding_box().points()` is in index order: its `i`-th point is the cell of slot `i`. -/
theorem displayPoints_getElem? {i : Nat} (hi : i < 4096) :
    displayArea.points[i]? = some ⟨((i % 64 : Nat) : Int), ((i / 64 : Nat) : Int)⟩ := by
  rw [Rect.points_eq_spec]
  have hrows : displayArea.rows = irange 0 64 := by decide
  have hcols : displayArea.columns = irange 0 64 := by decide
  unfold Rect.pointsSpec
  rw [if_neg (by decide), hrows, hcols,
    getElem?_flatMap64 _ _ (by intro a _; simp [irange_length])]
  rw [irange_getElem? 0 64 (i / 64) (by omega)]
  simp only [Option.bind_some, List.getElem?_map]
  rw [irange_getElem? 0 64 (i % 64) (by omega)]
  simp

theorem pixels_toList_getElem? (d : MD) {i : Nat} (hi : i < 4096) :
    d.pixels.toList[i]? = some (d.get i) := by
  rw [List.getElem?_eq_getElem (by simp; exact hi), Vector.getElem_toList]
  unfold MD.get; simp [hi]

/-- The list `affected_area` folds over: exactly the cells that hold a colour. -/
theorem mem_touched (d : MD) (p : Pt) : p ∈ d.touched ↔ Inside p ∧ (d.cell p).isSome = true := by
  unfold MD.touched
  rw [List.mem_filterMap]
  constructor
  · rintro ⟨⟨q, c⟩, hmem, hsome⟩
    obtain ⟨i, hi⟩ := List.mem_iff_getElem?.mp hmem
    rw [List.getElem?_zip_eq_some] at hi
    obtain ⟨h1, h2⟩ := hi
    simp only at h1 h2 hsome
    have hlt : i < 4096 := by
      obtain ⟨h, _⟩ := List.getElem?_eq_some_iff.mp h2
      simpa using h
    rw [displayPoints_getElem? hlt] at h1
    rw [pixels_toList_getElem? d hlt] at h2
    cases c with
    | none => cases hsome
    | some v =>
      simp only [Option.map_some, Option.some.injEq] at hsome h1 h2
      subst hsome
      subst h1
      refine ⟨by unfold Inside; simp only; omega, ?_⟩
      unfold MD.cell idx
      simp only
      have e : (((i % 64 : Nat) : Int) + ((i / 64 : Nat) : Int) * 64).toNat = i := by omega
      rw [e, h2]; rfl
  · rintro ⟨hp, hs⟩
    have hi := idx_lt hp
    refine ⟨(p, d.cell p), ?_, ?_⟩
    · rw [List.mem_iff_getElem?]
      refine ⟨idx p, ?_⟩
      rw [List.getElem?_zip_eq_some]
      refine ⟨?_, pixels_toList_getElem? d hi⟩
      rw [displayPoints_getElem? hi]
      simp only [Option.some.injEq]
      unfold Inside at hp
      unfold idx
      rw [Pt.ext_iff']; simp only; omega
    · simp only
      cases h : d.cell p with
      | none => rw [h] at hs; cases hs
      | some v => rfl

/-! ### The fold of `affected_area` -/

/-- `tl`/`br` are the componentwise minimum / maximum of the points of `L`. -/
structure Tight (L : List Pt) (tl br : Pt) : Prop where
  bound : ∀ p ∈ L, tl.x ≤ p.x ∧ tl.y ≤ p.y ∧ p.x ≤ br.x ∧ p.y ≤ br.y
  left : ∃ p ∈ L, p.x = tl.x
  top : ∃ p ∈ L, p.y = tl.y
  right : ∃ p ∈ L, p.x = br.x
  bottom : ∃ p ∈ L, p.y = br.y

theorem aaFold_some : ∀ (L seen : List Pt) (tl br : Pt), Tight seen tl br →
    ∃ tl' br', L.foldl aaStep (some tl, some br) = (some tl', some br') ∧ Tight (seen ++ L) tl' br'
  | [], seen, tl, br, h => ⟨tl, br, rfl, by simpa using h⟩
  | q :: L, seen, tl, br, h => by
    have hstep : aaStep (some tl, some br) q = (some (tl.componentMin q), some (br.componentMax q)) := rfl
    have ht : Tight (seen ++ [q]) (tl.componentMin q) (br.componentMax q) := by
      obtain ⟨hb, ⟨l, hl, hl'⟩, ⟨t, ht, ht'⟩, ⟨r, hr, hr'⟩, ⟨b, hb1, hb'⟩⟩ := h
      refine ⟨?_, ?_, ?_, ?_, ?_⟩
      · intro p hp
        simp only [List.mem_append, List.mem_singleton] at hp
        simp only [Pt.componentMin, Pt.componentMax]
        rcases hp with hp | rfl
        · have := hb p hp; omega
        · omega
      · by_cases hc : q.x < tl.x
        · exact ⟨q, by simp, by simp only [Pt.componentMin]; omega⟩
        · exact ⟨l, by simp [hl], by simp only [Pt.componentMin]; omega⟩
      · by_cases hc : q.y < tl.y
        · exact ⟨q, by simp, by simp only [Pt.componentMin]; omega⟩
        · exact ⟨t, by simp [ht], by simp only [Pt.componentMin]; omega⟩
      · by_cases hc : br.x < q.x
        · exact ⟨q, by simp, by simp only [Pt.componentMax]; omega⟩
        · exact ⟨r, by simp [hr], by simp only [Pt.componentMax]; omega⟩
      · by_cases hc : br.y < q.y
        · exact ⟨q, by simp, by simp only [Pt.componentMax]; omega⟩
        · exact ⟨b, by simp [hb1], by simp only [Pt.componentMax]; omega⟩
    obtain ⟨tl', br', hf, ht'⟩ := aaFold_some L (seen ++ [q]) _ _ ht
    refine ⟨tl', br', by rw [List.foldl_cons, hstep]; exact hf, ?_⟩
    simpa [List.append_assoc] using ht'

theorem aaFold (L : List Pt) :
    (L = [] ∧ L.foldl aaStep (none, none) = (none, none)) ∨
    ∃ tl br, L.foldl aaStep (none, none) = (some tl, some br) ∧ Tight L tl br := by
  cases L with
  | nil => exact Or.inl ⟨rfl, rfl⟩
  | cons q L =>
    right
    have h0 : Tight [q] q q :=
      ⟨by intro p hp; simp only [List.mem_singleton] at hp; subst hp; omega,
       ⟨q, by simp, rfl⟩, ⟨q, by simp, rfl⟩, ⟨q, by simp, rfl⟩, ⟨q, by simp, rfl⟩⟩
    obtain ⟨tl, br, hf, ht⟩ := aaFold_some L [q] q q h0
    exact ⟨tl, br, by rw [List.foldl_cons]; exact hf, by simpa using ht⟩

/-- `affected_area` in closed form. -/
theorem affectedArea_spec (d : MD) :
    (d.touched = [] ∧ d.affectedArea = Rect.zero) ∨
    ∃ tl br, d.affectedArea = Rect.withCorners tl br ∧ Tight d.touched tl br := by
  unfold MD.affectedArea
  rcases aaFold d.touched with ⟨h1, h2⟩ | ⟨tl, br, h1, h2⟩
  · left; rw [h2]; exact ⟨h1, rfl⟩
  · right; rw [h1]; exact ⟨tl, br, rfl, h2⟩

/-! ### `PartialEq` -/

theorem iterEq_iff : ∀ (l1 l2 : List (Option Color)), iterEq l1 l2 = true ↔ l1 = l2
  | [], [] => by simp [iterEq]
  | [], _ :: _ => by simp [iterEq]
  | _ :: _, [] => by simp [iterEq]
  | a :: as, b :: bs => by
    unfold iterEq
    by_cases h : a = b
    · subst h; simp [iterEq_iff as bs]
    · have : (a != b) = true := bne_iff_ne.mpr h
      simp [this, h]

theorem eq_iff_pixels (a b : MD) : a.eq b = true ↔ a.pixels = b.pixels := by
  unfold MD.eq; rw [iterEq_iff, Vector.toList_inj]

theorem pixels_eq_iff_cells (a b : MD) :
    a.pixels = b.pixels ↔ ∀ p, Inside p → a.getPixel p = b.getPixel p := by
  constructor
  · intro h p hp
    rw [getPixel_inside a hp, getPixel_inside b hp]
    unfold MD.cell MD.get; rw [h]
  · intro h
    apply pixels_ext_cells
    intro p hp
    have := h p hp
    rw [getPixel_inside a hp, getPixel_inside b hp] at this
    simpa using this

/-! ### `diff` -/

theorem diffColor_eq_none_iff (s o : Option Color) : diffColor s o = none ↔ s = o := by
  cases s <;> cases o <;> simp [diffColor]

theorem diffStep_inside (a b D : MD) {q : Pt} (hq : Inside q) :
    diffStep a b (some D) q = some (D.upd (idx q) (diffColor (a.cell q) (b.cell q))) := by
  unfold diffStep
  simp only [getPixel_inside a hq, getPixel_inside b hq, setPixelUnchecked_inside D hq]

theorem diffFold : ∀ (L : List Pt), (∀ q ∈ L, Inside q) → ∀ (a b D0 : MD),
    ∃ D1, L.foldl (diffStep a b) (some D0) = some D1 ∧
      D1.allowOverdraw = D0.allowOverdraw ∧ D1.allowOob = D0.allowOob ∧
      ∀ p, Inside p → D1.cell p = if p ∈ L then diffColor (a.cell p) (b.cell p) else D0.cell p
  | [], _, a, b, D0 => ⟨D0, rfl, rfl, rfl, by intro p _; simp⟩
  | q :: L, hL, a, b, D0 => by
    have hq : Inside q := hL q (by simp)
    obtain ⟨D1, hf, ho, hb, hc⟩ := diffFold L (fun r hr => hL r (by simp [hr])) a b
      (D0.upd (idx q) (diffColor (a.cell q) (b.cell q)))
    refine ⟨D1, by rw [List.foldl_cons, diffStep_inside a b D0 hq]; exact hf, by simpa using ho,
      by simpa using hb, ?_⟩
    intro p hp
    rw [hc p hp]
    unfold MD.cell
    rw [get_upd _ _ _ _ (idx_lt hq)]
    by_cases hpL : p ∈ L
    · simp [hpL]
    · by_cases e : p = q
      · subst e; simp
      · have : ¬ idx p = idx q := fun h' => e (idx_inj hp hq h')
        simp [hpL, e, this]

/-- `diff` never panics and computes the documented colour code cell by cell. -/
theorem diff_spec (a b : MD) :
    ∃ D, a.diff b = some D ∧ ∀ p, Inside p → D.cell p = diffColor (a.cell p) (b.cell p) := by
  obtain ⟨D, hf, _, _, hc⟩ := diffFold displayArea.points (fun q hq => mem_displayPoints.mp hq) a b MD.new
  refine ⟨D, hf, ?_⟩
  intro p hp
  rw [hc p hp, if_pos (mem_displayPoints.mpr hp)]

/-! ### Property-level forms (in terms of `get_pixel`) -/

/-- `p` is a cell of the display that holds a colour. -/
def Touched (d : MD) (p : Pt) : Prop := Inside p ∧ ∃ c, d.getPixel p = some (some c)

theorem touched_iff (d : MD) (p : Pt) : p ∈ d.touched ↔ Touched d p := by
  rw [mem_touched]
  unfold Touched
  constructor
  · rintro ⟨hp, hs⟩
    refine ⟨hp, ?_⟩
    rw [getPixel_inside d hp]
    cases h : d.cell p with
    | none => rw [h] at hs; cases hs
    | some v => exact ⟨v, rfl⟩
  · rintro ⟨hp, v, hv⟩
    refine ⟨hp, ?_⟩
    rw [getPixel_inside d hp] at hv
    have hc : d.cell p = some v := by simpa using hv
    rw [hc]; rfl

theorem affectedArea_of_touched (d : MD) (h : ∃ p, Touched d p) :
    ∃ tl br, d.affectedArea = Rect.withCorners tl br ∧ Tight d.touched tl br := by
  rcases affectedArea_spec d with ⟨h1, _⟩ | h2
  · obtain ⟨p, hp⟩ := h
    have := (touched_iff d p).mpr hp
    rw [h1] at this; cases this
  · exact h2

theorem affectedArea_of_untouched (d : MD) (h : ¬ ∃ p, Touched d p) : d.affectedArea = Rect.zero := by
  rcases affectedArea_spec d with ⟨_, h2⟩ | ⟨tl, br, _, ht⟩
  · exact h2
  · obtain ⟨p, hp, _⟩ := ht.left
    exact absurd ⟨p, (touched_iff d p).mp hp⟩ h

/-- The four sides of `with_corners tl br` for a tight pair. -/
theorem tight_sides {L : List Pt} {tl br : Pt} (ht : Tight L tl br) :
    (Rect.withCorners tl br).tl = tl ∧
    (Rect.withCorners tl br).tl.x + ((Rect.withCorners tl br).size.w : Int) - 1 = br.x ∧
    (Rect.withCorners tl br).tl.y + ((Rect.withCorners tl br).size.h : Int) - 1 = br.y := by
  obtain ⟨l, hl, hl'⟩ := ht.left
  obtain ⟨t, htt, ht'⟩ := ht.top
  have b1 := ht.bound l hl
  have b2 := ht.bound t htt
  refine ⟨?_, ?_, ?_⟩
  · rw [Pt.ext_iff', Rect.withCorners_tl_x, Rect.withCorners_tl_y]; omega
  · rw [Rect.withCorners_tl_x, Rect.withCorners_w]; omega
  · rw [Rect.withCorners_tl_y, Rect.withCorners_h]; omega

end Mock
end EG
