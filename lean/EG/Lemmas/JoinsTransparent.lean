/-
  EG.Lemmas.JoinsTransparent — a triangle style without any colour yields no pixel from `pixels()`
  (the scanline iterator is still walked; every scanline is skipped).
-/
import EG.Model.ThickTriangle
set_option linter.unusedSimpArgs false
namespace EG
namespace Joins

/-- No colour at all in the iterator. -/
def TriPixels.Colourless (it : TriPixels) : Prop :=
  it.currentColor = none ∧ it.fillColor = none ∧ it.strokeColor = none

theorem TriPixels.nextFuel_colourless (fuel : Nat) (it : TriPixels) (h : it.Colourless) :
    it.nextFuel fuel = none ∨ it.nextFuel fuel = some none := by
  induction fuel generalizing it with
  | zero => left; rfl
  | succ fuel ih =>
    obtain ⟨li, cl, cc, fc, sc⟩ := it
    obtain ⟨h1, h2, h3⟩ := h
    simp only at h1 h2 h3
    subst h1 h2 h3
    unfold TriPixels.nextFuel
    simp only []
    cases li.nextLoop with
    | none => left; rfl
    | some r =>
      cases r with
      | none => right; rfl
      | some v =>
        obtain ⟨⟨nl, nt⟩, l2⟩ := v
        simp only []
        apply ih
        refine ⟨?_, rfl, rfl⟩
        cases nt <;> rfl

theorem TriPixels.toListFuel_colourless (fuel : Nat) (it : TriPixels) (h : it.Colourless)
    (ps : List (Pt × Nat)) (hps : it.toListFuel fuel = some ps) : ps = [] := by
  cases fuel with
  | zero =>
    simp only [TriPixels.toListFuel, Option.some.injEq] at hps
    exact hps.symm
  | succ fuel =>
    unfold TriPixels.toListFuel TriPixels.next at hps
    rcases TriPixels.nextFuel_colourless _ it h with e | e
    · rw [e] at hps; cases hps
    · rw [e] at hps
      simp only [Option.bind_eq_bind, Option.bind_some, pure, Option.some.injEq] at hps
      exact hps.symm

/-- `StyledPixelsIterator::new` with a transparent style is colourless. -/
theorem TriPixels.new_colourless (t : Tri) (style : TriStyle) (h : style.isTransparent = true)
    (it : TriPixels) (hn : TriPixels.new t style = some it) : it.Colourless := by
  have hf : style.fillColor = none := by
    unfold TriStyle.isTransparent at h
    simp only [Bool.and_eq_true, Option.isNone_iff_eq_none] at h
    exact h.2
  have hs : style.effectiveStrokeColor = none := by
    unfold TriStyle.isTransparent at h
    unfold TriStyle.effectiveStrokeColor
    simp only [Bool.and_eq_true, Bool.or_eq_true, Option.isNone_iff_eq_none, beq_iff_eq] at h
    rcases h.1 with e | e
    · simp only [e, ite_self]
    · simp only [e, Nat.lt_irrefl, ↓reduceIte]
  have hc : ∀ ty, style.colorOf ty = none := by
    intro ty; cases ty
    · exact hs
    · exact hf
  unfold TriPixels.new at hn
  cases hsc : triScanlines t style with
  | none => rw [hsc] at hn; cases hn
  | some li =>
    rw [hsc] at hn
    simp only [Option.bind_eq_bind, Option.bind_some] at hn
    cases hnx : li.next with
    | none => rw [hnx] at hn; cases hn
    | some r =>
      rw [hnx] at hn
      obtain ⟨first, l2⟩ := r
      cases first with
      | none =>
        simp only [Option.bind_some, pure, Option.getD_none, Option.some.injEq] at hn
        subst hn
        exact ⟨hc PointType.stroke, hf, hs⟩
      | some v =>
        obtain ⟨l, ty⟩ := v
        simp only [Option.bind_some, pure, Option.getD_some, Option.some.injEq] at hn
        subst hn
        exact ⟨hc ty, hf, hs⟩

/-- **`pixels()` of a triangle with a transparent style yields nothing.** -/
theorem triPixels_transparent (t : Tri) (style : TriStyle) (h : style.isTransparent = true)
    (ps : List (Pt × Nat)) (hps : triPixels t style = some ps) : ps = [] := by
  unfold triPixels at hps
  cases hb : triPixelFuel t style with
  | none => rw [hb] at hps; cases hps
  | some fuel =>
    rw [hb] at hps
    simp only [Option.bind_eq_bind, Option.bind_some] at hps
    cases hn : TriPixels.new t style with
    | none => rw [hn] at hps; cases hps
    | some it =>
      rw [hn] at hps
      simp only [Option.bind_some] at hps
      exact TriPixels.toListFuel_colourless _ it (TriPixels.new_colourless t style h it hn) ps hps

end Joins
end EG
