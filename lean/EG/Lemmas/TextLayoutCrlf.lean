/-
  EG.Lemmas.TextLayoutCrlf — CR LF as a line terminator: a text written as line contents, each ended
  by LF or by CR LF, has the same lines whichever terminators are chosen.
-/
import EG.Lemmas.TextLayoutChain
namespace EG
namespace TextLayout
open Font

/-- A text written as lines: `(content, ended by CR LF?)` for every terminated line, then the last
(unterminated) line. -/
def joinLines : List (List Nat × Bool) → List Nat → List Nat
  | [], last => last
  | (l, crlf) :: rest, last => l ++ (if crlf then [13, 10] else [10]) ++ joinLines rest last

theorem stripCR_append_cr (l : List Nat) : stripCR (l ++ [13]) = l := by
  rw [stripCR_append l [13] (by simp), stripCR_singleton]; simp

/-- The stripped segments of such a text are the contents (and the stripped last line). -/
theorem splitNL_joinLines : ∀ (L : List (List Nat × Bool)) (last : List Nat),
    (∀ lc ∈ L, 10 ∉ lc.1 ∧ lc.1.getLast? ≠ some 13) → 10 ∉ last →
    (splitNL (joinLines L last)).map stripCR = L.map (fun lc => lc.1) ++ [stripCR last]
  | [], last, _, hl => by simp [joinLines, splitNL_of_no_nl last hl]
  | (l, crlf) :: rest, last, h, hl => by
    have hl1 := h (l, crlf) (by simp)
    have ih := splitNL_joinLines rest last (fun lc hlc => h lc (List.mem_cons_of_mem _ hlc)) hl
    cases crlf with
    | false =>
      have e : joinLines ((l, false) :: rest) last = l ++ 10 :: joinLines rest last := by
        simp [joinLines]
      rw [e, splitNL_append_nl l _ hl1.1, List.map_cons, ih, stripCR_of_not_cr l hl1.2]
      rfl
    | true =>
      have e : joinLines ((l, true) :: rest) last = (l ++ [13]) ++ 10 :: joinLines rest last := by
        simp [joinLines]
      have h10 : 10 ∉ l ++ [13] := by simp [hl1.1]
      rw [e, splitNL_append_nl (l ++ [13]) _ h10, List.map_cons, ih, stripCR_append_cr]
      rfl

/-- `lines()` depends on the text only through its stripped segments. -/
theorem linesGo_of_map_stripCR (f : MonoFont) (st : Style) (ts : TextStyle) :
    ∀ (a b : List (List Nat)) (p : Pt), a.map stripCR = b.map stripCR →
      linesGo f st ts p a = linesGo f st ts p b
  | [], [], _, _ => rfl
  | [], _ :: _, _, h => by simp at h
  | _ :: _, [], _, h => by simp at h
  | x :: a, y :: b, p, h => by
    simp only [List.map_cons, List.cons.injEq] at h
    simp only [linesGo, h.1, linesGo_of_map_stripCR f st ts a b _ h.2]

/-- **CR LF as a terminator behaves exactly like LF**: whichever terminator ends each line, the lines
(contents and positions, for every alignment) are those of the text with LF everywhere. (Contents
contain no `\n` and do not end in `\r`, so that the text reads unambiguously.) -/
theorem lines_joinLines (f : MonoFont) (L : List (List Nat × Bool)) (last : List Nat) (p : Pt) (st : Style)
    (ts : TextStyle) (h : ∀ lc ∈ L, 10 ∉ lc.1 ∧ lc.1.getLast? ≠ some 13) (hl : 10 ∉ last) :
    lines f ⟨joinLines L last, p, st, ts⟩ =
      lines f ⟨joinLines (L.map (fun lc => (lc.1, false))) last, p, st, ts⟩ := by
  unfold lines
  apply linesGo_of_map_stripCR
  rw [splitNL_joinLines L last h hl,
    splitNL_joinLines (L.map (fun lc => (lc.1, false))) last (by
      intro lc hlc
      obtain ⟨lc', hlc', rfl⟩ := List.mem_map.mp hlc
      exact h lc' hlc') hl]
  simp [List.map_map]

end TextLayout
end EG
