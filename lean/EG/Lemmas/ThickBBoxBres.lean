/-
  EG.Lemmas.ThickBBoxBres — the points of ONE parallel of a stroked line: `n` calls of
  `Bresenham::next` from `(p0, e0)` with the line's parameters yield points
  `p0 + k * major + j * minor` with `0 <= k < n` and a bound on the number `j` of minor steps that
  depends on the initial error `e0`:
  * `e0 <= threshold` (every parallel): `j <= dmin` within `dmaj + 1` points;
  * `e0 <= 2 dmin - dmaj` (the extra parallels): `j <= dmin - 1` within `dmaj` points.
  Hence the points lie coordinate-wise between `p0` and `p0 + delta`, resp.
  `p0 + delta - (major + minor)` - the two corners `Line::extents` uses for the parallel.
-/
import EG.Lemmas.ThickBBoxFrame
import Mathlib.Tactic.Linarith
import Mathlib.Tactic.Ring
set_option linter.unusedSimpArgs false
namespace EG
namespace Thick

/-- The first `n` points `Bresenham::next` yields from the state `b`. -/
def parPts : Nat → Bresenham → BresenhamParameters → List Pt
  | 0, _, _ => []
  | n + 1, b, pp => (b.next pp).1 :: parPts n (b.next pp).2 pp

theorem smul_succ (k : Int) (v : Pt) : smul (k + 1) v = smul k v + v := by
  rw [Pt.ext_iff']
  simp only [smul_x, smul_y, Pt.add_x, Pt.add_y]
  constructor <;> rw [Int.add_mul, Int.one_mul]

theorem pt_assoc1 (p a b v : Pt) : p + a + b + v = p + (a + v) + b := by
  rw [Pt.ext_iff']; simp only [Pt.add_x, Pt.add_y]; constructor <;> omega

theorem pt_assoc2 (p a b v : Pt) : p + a + b + v = p + a + (b + v) := by
  rw [Pt.ext_iff']; simp only [Pt.add_x, Pt.add_y]; constructor <;> omega

/-- Closed form of the points of a parallel, with the bound on the minor steps. -/
theorem parPts_spec (D d : Int) (M m : Pt) (hd : 0 ≤ d) (p0 : Pt) (e0 : Int) :
    ∀ (n : Nat) (b : Bresenham) (k j : Int), 0 ≤ j →
    b.point = p0 + smul k M + smul j m → b.error = e0 + 2 * d * k - 2 * D * j →
    (j = 0 ∨ 2 * d - D < b.error) →
    ∀ q ∈ parPts n b ⟨D, ⟨2 * d, 2 * D⟩, ⟨M, m⟩⟩, ∃ k' j' : Int, k ≤ k' ∧ k' < k + n ∧ 0 ≤ j' ∧
      q = p0 + smul k' M + smul j' m ∧ (j' = 0 ∨ 2 * D * j' < e0 + 2 * d * k' + D)
  | 0, _, _, _, _, _, _, _, q, hq => by cases hq
  | n + 1, b, k, j, hj, hp, he, hinv, q, hq => by
    unfold parPts at hq
    by_cases hE : b.error > D
    · -- a minor step first
      have hnext : b.next ⟨D, ⟨2 * d, 2 * D⟩, ⟨M, m⟩⟩ =
          (b.point + m, ⟨b.point + m + M, b.error - 2 * D + 2 * d⟩) := by
        unfold Bresenham.next; simp only [hE, ↓reduceIte]
      rw [hnext] at hq
      rcases List.mem_cons.mp hq with rfl | hq
      · refine ⟨k, j + 1, Int.le_refl _, by omega, by omega, ?_, Or.inr ?_⟩
        · rw [hp, smul_succ, pt_assoc2]
        · nlinarith
      · obtain ⟨k', j', h1, h2, h3, h4, h5⟩ := parPts_spec D d M m hd p0 e0 n
          ⟨b.point + m + M, b.error - 2 * D + 2 * d⟩ (k + 1) (j + 1) (by omega)
          (by show b.point + m + M = _; rw [hp, smul_succ, smul_succ]
              rw [Pt.ext_iff']; simp only [Pt.add_x, Pt.add_y]; constructor <;> omega)
          (by show b.error - 2 * D + 2 * d = _; rw [he]; ring)
          (Or.inr (by show 2 * d - D < b.error - 2 * D + 2 * d; omega)) q hq
        exact ⟨k', j', by omega, by push_cast at h2 ⊢; omega, h3, h4, h5⟩
    · have hnext : b.next ⟨D, ⟨2 * d, 2 * D⟩, ⟨M, m⟩⟩ =
          (b.point, ⟨b.point + M, b.error + 2 * d⟩) := by
        unfold Bresenham.next; simp only [hE, ↓reduceIte]
      rw [hnext] at hq
      rcases List.mem_cons.mp hq with rfl | hq
      · refine ⟨k, j, Int.le_refl _, by omega, hj, hp, ?_⟩
        rcases hinv with h0 | h0
        · left; exact h0
        · right; nlinarith
      · obtain ⟨k', j', h1, h2, h3, h4, h5⟩ := parPts_spec D d M m hd p0 e0 n
          ⟨b.point + M, b.error + 2 * d⟩ (k + 1) j hj
          (by show b.point + M = _; rw [hp, smul_succ]
              rw [Pt.ext_iff']; simp only [Pt.add_x, Pt.add_y]; constructor <;> omega)
          (by show b.error + 2 * d = _; rw [he]; ring)
          (by rcases hinv with h0 | h0
              · left; exact h0
              · right; show 2 * d - D < b.error + 2 * d; omega) q hq
        exact ⟨k', j', by omega, by push_cast at h2 ⊢; omega, h3, h4, h5⟩

/-- A point `p0 + k M + j m` with `0 <= k <= K`, `0 <= j <= J` lies between `p0` and
`p0 + K M + J m`. -/
theorem between_steps {M m : Pt} (h : AxisPair M m) (p0 : Pt) (k j K J : Int) (hk : 0 ≤ k)
    (hkK : k ≤ K) (hj : 0 ≤ j) (hjJ : j ≤ J) :
    (min p0.x (p0 + smul K M + smul J m).x ≤ (p0 + smul k M + smul j m).x ∧
      (p0 + smul k M + smul j m).x ≤ max p0.x (p0 + smul K M + smul J m).x) ∧
    (min p0.y (p0 + smul K M + smul J m).y ≤ (p0 + smul k M + smul j m).y ∧
      (p0 + smul k M + smul j m).y ≤ max p0.y (p0 + smul K M + smul J m).y) := by
  rcases h with ⟨e1 | e1, e2 | e2⟩ | ⟨e1 | e1, e2 | e2⟩ <;> subst e1 <;> subst e2 <;>
    simp only [Pt.add_x, Pt.add_y, smul_x, smul_y, Int.mul_zero, Int.mul_one, Int.mul_neg,
      Int.add_zero, Int.zero_add, Int.neg_zero] <;> omega

/-- **A parallel with initial error at most the threshold stays between its start `p0` and
`p0 + dmaj M + dmin m`** (`dmaj + 1` points or fewer). -/
theorem normal_parallel_between {M m : Pt} (hax : AxisPair M m) (D d : Int) (hD : 0 < D) (hd : 0 ≤ d)
    (p0 : Pt) (e0 : Int) (he : e0 ≤ D) (n : Nat) (hn : (n : Int) ≤ D + 1) (q : Pt)
    (hq : q ∈ parPts n ⟨p0, e0⟩ ⟨D, ⟨2 * d, 2 * D⟩, ⟨M, m⟩⟩) :
    (min p0.x (p0 + smul D M + smul d m).x ≤ q.x ∧ q.x ≤ max p0.x (p0 + smul D M + smul d m).x) ∧
    (min p0.y (p0 + smul D M + smul d m).y ≤ q.y ∧ q.y ≤ max p0.y (p0 + smul D M + smul d m).y) := by
  obtain ⟨k', j', h1, h2, h3, h4, h5⟩ := parPts_spec D d M m hd p0 e0 n ⟨p0, e0⟩ 0 0 (Int.le_refl _)
    (by rw [Pt.ext_iff']; simp) (by simp) (Or.inl rfl) q hq
  have hk : k' ≤ D := by omega
  have hj : j' ≤ d := by
    rcases h5 with h5 | h5
    · omega
    · by_contra hc
      have hc' : d + 1 ≤ j' := by omega
      nlinarith [mul_le_mul_of_nonneg_left hc' (Int.le_of_lt hD),
        mul_le_mul_of_nonneg_left hk hd]
  rw [h4]
  exact between_steps hax p0 k' j' D d h1 hk h3 hj

/-- **An extra parallel (initial error at most `2 dmin - dmaj`, `dmaj` points or fewer) stays
between its start `p0` and `p0 + (dmaj - 1) M + (dmin - 1) m`.** -/
theorem extra_parallel_between {M m : Pt} (hax : AxisPair M m) (D d : Int) (hD : 0 < D) (hd1 : 1 ≤ d)
    (p0 : Pt) (e0 : Int) (he : e0 ≤ 2 * d - D) (n : Nat) (hn : (n : Int) ≤ D) (q : Pt)
    (hq : q ∈ parPts n ⟨p0, e0⟩ ⟨D, ⟨2 * d, 2 * D⟩, ⟨M, m⟩⟩) :
    (min p0.x (p0 + smul (D - 1) M + smul (d - 1) m).x ≤ q.x ∧
      q.x ≤ max p0.x (p0 + smul (D - 1) M + smul (d - 1) m).x) ∧
    (min p0.y (p0 + smul (D - 1) M + smul (d - 1) m).y ≤ q.y ∧
      q.y ≤ max p0.y (p0 + smul (D - 1) M + smul (d - 1) m).y) := by
  have hd : 0 ≤ d := by omega
  obtain ⟨k', j', h1, h2, h3, h4, h5⟩ := parPts_spec D d M m hd p0 e0 n ⟨p0, e0⟩ 0 0 (Int.le_refl _)
    (by rw [Pt.ext_iff']; simp) (by simp) (Or.inl rfl) q hq
  have hk : k' ≤ D - 1 := by omega
  have hj : j' ≤ d - 1 := by
    rcases h5 with h5 | h5
    · omega
    · by_contra hc
      have hc' : d ≤ j' := by omega
      nlinarith [mul_le_mul_of_nonneg_left hc' (Int.le_of_lt hD),
        mul_le_mul_of_nonneg_left hk hd]
  rw [h4]
  exact between_steps hax p0 k' j' (D - 1) (d - 1) h1 hk h3 hj

end Thick
end EG
