/-
  EG.Lemmas.JoinsTotalTri — the model of a styled triangle is total: `triStyledBoundingBox`,
  `triDraw` and `triPixels` return `some` for every triangle and style (any stroke width, alignment,
  fill).
  * everything that calls `Line::extents` (`joins`, `is_collapsed`, the closed segment iterator,
    `edge_intersections`) is total by EG.Lemmas.ExtentsTotal;
  * the `loop` of `StyledPixelsIterator::next` (one iteration per scanline without a pixel to give)
    is bounded by the fuel of the model: a row yields at most three scanlines (`TriIntersections.m`),
    every scanline returned by the `ScanlineIterator` lowers `TriScanlines.mu = 3 rows + m`;
  * `toList` / `triPixels` truncate at their budget (`some []` at fuel 0), they never return `none`.
-/
import EG.Lemmas.ExtentsTotal
import EG.Lemmas.JoinsTriMove
import EG.Lemmas.JoinsTotalPoly
namespace EG
namespace Joins
open Thick (LineSide StrokeOffset)

/-! ### joins, `is_collapsed`, bounding box -/

theorem closedSegments3_total (t : Tri) (w : Nat) (off : StrokeOffset) :
    ∃ segs, closedSegments3 t w off = some segs := by
  obtain ⟨j0, h0⟩ := fromPoints_total t.v3 t.v1 t.v2 w off
  obtain ⟨j1, h1⟩ := fromPoints_total t.v1 t.v2 t.v3 w off
  obtain ⟨j2, h2⟩ := fromPoints_total t.v2 t.v3 t.v1 w off
  unfold closedSegments3
  simp only [h0, h1, h2, Option.bind_eq_bind, Option.bind_some, pure]
  exact ⟨_, rfl⟩

/-- **`bounding_box()` of a styled triangle is total.** -/
theorem triStyledBoundingBox_total (t : Tri) (style : TriStyle) :
    ∃ r, triStyledBoundingBox t style = some r := by
  rw [triStyledBoundingBox_eq]
  split
  · exact ⟨_, rfl⟩
  · obtain ⟨segs, h⟩ := closedSegments3_total t.sortedClockwise style.strokeWidth
      style.strokeAlignment.toOffset
    rw [h]
    exact ⟨_, rfl⟩

theorem joins_total (t : Tri) (w : Nat) (off : StrokeOffset) :
    ∃ j1 j2 j3, t.joins w off = some [j1, j2, j3] := by
  obtain ⟨j1, h1⟩ := fromPoints_total t.v3 t.v1 t.v2 w off
  obtain ⟨j2, h2⟩ := fromPoints_total t.v1 t.v2 t.v3 w off
  obtain ⟨j3, h3⟩ := fromPoints_total t.v2 t.v3 t.v1 w off
  refine ⟨j1, j2, j3, ?_⟩
  unfold Tri.joins
  simp only [h1, h2, h3, Option.bind_eq_bind, Option.bind_some, pure]

theorem joinCollapsed_total (t : Tri) (w : Nat) (off : StrokeOffset) (i : Nat) (j : LineJoin) :
    ∃ b, t.joinCollapsed w off i j = some b := by
  unfold Tri.joinCollapsed
  split
  · exact ⟨_, rfl⟩
  · obtain ⟨⟨a, b⟩, h⟩ := extents_total ⟨t.vertex (i + 1), t.vertex (i + 2)⟩ w off
    simp only [h, Option.bind_eq_bind, Option.bind_some, pure]
    exact ⟨_, rfl⟩

/-- `is_collapsed` is total. -/
theorem isCollapsed_total (t : Tri) (w : Nat) (off : StrokeOffset) : ∃ c, t.isCollapsed w off = some c := by
  obtain ⟨j1, j2, j3, hj⟩ := joins_total t w off
  obtain ⟨c1, h1⟩ := joinCollapsed_total t w off 0 j1
  obtain ⟨c2, h2⟩ := joinCollapsed_total t w off 1 j2
  obtain ⟨c3, h3⟩ := joinCollapsed_total t w off 2 j3
  unfold Tri.isCollapsed
  simp only [hj, h1, h2, h3, Option.bind_eq_bind, Option.bind_some, pure]
  exact ⟨_, rfl⟩

/-! ### `ScanlineIntersections` (triangle) -/

namespace TriIntersections

theorem edgeLoop_total (it : TriIntersections) (y : Int) : ∀ (fuel : Nat) (st : EdgeState),
    ∃ st', it.edgeLoop y fuel st = some st' := by
  intro fuel
  induction fuel with
  | zero => intro st; exact ⟨st, rfl⟩
  | succ n ih =>
    intro st
    rw [edgeLoop]
    split
    · obtain ⟨j1, h1⟩ := fromPoints_total (it.triangle.vertex st.idx) (it.triangle.vertex (st.idx + 1))
        (it.triangle.vertex (st.idx + 2)) it.strokeWidth it.strokeOffset
      obtain ⟨j2, h2⟩ := fromPoints_total (it.triangle.vertex (st.idx + 1))
        (it.triangle.vertex (st.idx + 2)) (it.triangle.vertex (st.idx + 3)) it.strokeWidth it.strokeOffset
      simp only [h1, h2, Option.bind_eq_bind, Option.bind_some]
      split
      · split
        · exact ih _
        · split
          · exact ih _
          · exact ih _
      · exact ih _
    · exact ⟨st, rfl⟩

theorem edgeNext_total (it : TriIntersections) (y : Int) (st : EdgeState) :
    ∃ r, it.edgeNext y st = some r := by
  unfold edgeNext
  split
  · exact ⟨_, rfl⟩
  · obtain ⟨st', h⟩ := edgeLoop_total it y 3 st
    simp only [h, Option.bind_eq_bind, Option.bind_some]
    split <;> exact ⟨_, rfl⟩

theorem generateLines_total (it : TriIntersections) (y : Int) : ∃ c, it.generateLines y = some c := by
  unfold generateLines
  split
  · exact ⟨_, rfl⟩
  · obtain ⟨⟨f, st1⟩, h1⟩ := edgeNext_total it y ⟨0, Scanline.newEmpty y, Scanline.newEmpty y⟩
    obtain ⟨⟨s, st2⟩, h2⟩ := edgeNext_total it y st1
    simp only [h1, h2, Option.bind_eq_bind, Option.bind_some, pure]
    exact ⟨_, rfl⟩

theorem reset_total (it : TriIntersections) (y : Int) : ∃ it', it.resetWithNewScanline y = some it' := by
  obtain ⟨c, h⟩ := generateLines_total it y
  unfold resetWithNewScanline
  simp only [h, Option.bind_eq_bind, Option.bind_some, pure]
  exact ⟨_, rfl⟩

theorem new_total (t : Tri) (w : Nat) (off : StrokeOffset) (fill : Bool) (y : Int) :
    ∃ it, TriIntersections.new t w off fill y = some it := by
  obtain ⟨c, hc⟩ := isCollapsed_total t w off
  rw [TriIntersections.new_eq, hc]
  exact reset_total _ y

/-- Number of scanlines the current row still has to give (at most three). -/
def m (it : TriIntersections) : Nat :=
  (if it.lines.internal.isEmpty then 0 else 1) + (if it.lines.first.isEmpty then 0 else 1) +
    (if it.lines.second.isEmpty then 0 else 1)

theorem m_le (it : TriIntersections) : m it ≤ 3 := by
  unfold m; split <;> split <;> split <;> omega

/-- A scanline returned by `next` is taken out of the row. -/
theorem next_m {it it' : TriIntersections} {r : Scanline × PointType}
    (h : it.next = some (r, it')) : m it' < m it := by
  unfold TriIntersections.next at h
  cases h1 : it.lines.internal.tryTake with
  | mk o1 rest1 =>
    have e1 : it.lines.internal.tryTake.1 = o1 := by rw [h1]
    have r1 : it.lines.internal.tryTake.2 = rest1 := by rw [h1]
    rw [h1] at h
    cases o1 with
    | some a =>
      simp only [Option.some.injEq, Prod.mk.injEq] at h
      obtain ⟨-, rfl⟩ := h
      obtain ⟨n1, n2⟩ := tryTake_some e1
      rw [r1] at n2
      unfold m
      simp only [n1, n2, ↓reduceIte, Bool.false_eq_true]
      omega
    | none =>
      dsimp only at h
      cases h2 : it.lines.first.tryTake with
      | mk o2 rest2 =>
        have e2 : it.lines.first.tryTake.1 = o2 := by rw [h2]
        have r2 : it.lines.first.tryTake.2 = rest2 := by rw [h2]
        rw [h2] at h
        cases o2 with
        | some a =>
          simp only [Option.some.injEq, Prod.mk.injEq] at h
          obtain ⟨-, rfl⟩ := h
          obtain ⟨n1, n2⟩ := tryTake_some e2
          rw [r2] at n2
          unfold m
          simp only [n1, n2, ↓reduceIte, Bool.false_eq_true]
          omega
        | none =>
          dsimp only at h
          cases h3 : it.lines.second.tryTake with
          | mk o3 rest3 =>
            have e3 : it.lines.second.tryTake.1 = o3 := by rw [h3]
            have r3 : it.lines.second.tryTake.2 = rest3 := by rw [h3]
            rw [h3] at h
            cases o3 with
            | some a =>
              simp only [Option.some.injEq, Prod.mk.injEq] at h
              obtain ⟨-, rfl⟩ := h
              obtain ⟨n1, n2⟩ := tryTake_some e3
              rw [r3] at n2
              unfold m
              simp only [n1, n2, ↓reduceIte, Bool.false_eq_true]
              omega
            | none => simp at h

end TriIntersections

/-! ### `ScanlineIterator` (triangle) -/

namespace TriScanlines

theorem new_total (t : Tri) (w : Nat) (off : StrokeOffset) (fill : Bool) (bb : Rect) :
    ∃ it, TriScanlines.new t w off fill bb = some it := by
  unfold TriScanlines.new
  dsimp only
  split
  · obtain ⟨ints, h⟩ := TriIntersections.new_total t.sortedClockwise w off fill bb.tl.y
    simp only [h, Option.bind_eq_bind, Option.bind_some, pure]
    exact ⟨_, rfl⟩
  · exact ⟨_, rfl⟩

/-- Bound on the number of scanlines still to come. -/
def mu (it : TriScanlines) : Nat :=
  3 * (it.rowsEnd - it.rowsStart).toNat + TriIntersections.m it.intersections

/-- `ScanlineIterator::next` (as a loop sees it) is total, and every scanline it returns lowers `mu`. -/
theorem next_spec (it : TriScanlines) :
    ∃ r, it.nextLoop = some r ∧ ∀ x it', r = some (x, it') → mu it' < mu it := by
  rw [TriScanlines.nextLoop_eq_def]
  unfold TriScanlines.nextLoopDef
  cases h : it.intersections.next with
  | some p =>
    obtain ⟨r, ints⟩ := p
    refine ⟨_, rfl, fun x it' hx => ?_⟩
    simp only [Option.some.injEq, Prod.mk.injEq] at hx
    obtain ⟨-, rfl⟩ := hx
    have := TriIntersections.next_m h
    unfold mu
    dsimp only
    omega
  | none =>
    dsimp only
    split
    · rename_i hrows
      obtain ⟨ints, hr⟩ := TriIntersections.reset_total it.intersections it.rowsStart
      simp only [hr, Option.bind_eq_bind, Option.bind_some]
      cases h2 : ints.next with
      | none => exact ⟨_, rfl, fun x it' hx => by cases hx⟩
      | some p =>
        obtain ⟨r, ints2⟩ := p
        refine ⟨_, rfl, fun x it' hx => ?_⟩
        simp only [Option.some.injEq, Prod.mk.injEq] at hx
        obtain ⟨-, rfl⟩ := hx
        have h3 := TriIntersections.next_m h2
        have h4 := TriIntersections.m_le ints
        unfold mu
        dsimp only
        omega
    · exact ⟨_, rfl, fun x it' hx => by cases hx⟩

/-- The non-fused `ScanlineIterator::next` is total. -/
theorem next_total (it : TriScanlines) : ∃ r, it.next = some r := by
  obtain ⟨r, hr, -⟩ := next_spec it
  have h := TriScanlines.next_isSome_iff it
  rw [hr] at h
  cases hn : it.next with
  | none => rw [hn] at h; cases h
  | some r => exact ⟨r, rfl⟩

theorem toListFuel_total : ∀ (fuel : Nat) (it : TriScanlines), ∃ l, it.toListFuel fuel = some l := by
  intro fuel
  induction fuel with
  | zero => intro it; exact ⟨[], rfl⟩
  | succ n ih =>
    intro it
    obtain ⟨r, hr, -⟩ := next_spec it
    rw [toListFuel]
    simp only [hr, Option.bind_eq_bind, Option.bind_some]
    cases r with
    | none => exact ⟨[], rfl⟩
    | some p =>
      obtain ⟨s, it'⟩ := p
      obtain ⟨l, hl⟩ := ih it'
      simp only [hl, Option.bind_some, pure]
      exact ⟨_, rfl⟩

end TriScanlines

theorem triScanlines_total (t : Tri) (style : TriStyle) : ∃ it, triScanlines t style = some it := by
  obtain ⟨bb, hbb⟩ := triStyledBoundingBox_total t style
  unfold triScanlines
  simp only [hbb, Option.bind_eq_bind, Option.bind_some]
  exact TriScanlines.new_total _ _ _ _ _

/-- **`draw` of a styled triangle is total** (every stroke width, alignment and fill). -/
theorem triDraw_total (t : Tri) (style : TriStyle) : ∃ calls, triDraw t style = some calls := by
  rw [triDraw_eq]
  split
  · exact ⟨_, rfl⟩
  · obtain ⟨it, hit⟩ := triScanlines_total t style
    obtain ⟨l, hl⟩ := TriScanlines.toListFuel_total (3 * ((it.rowsEnd - it.rowsStart).toNat + 1) + 1) it
    have hl' : it.toList = some l := hl
    rw [hit]
    simp only [Option.bind_some, hl', Option.map_some]
    exact ⟨_, rfl⟩

/-! ### `StyledPixelsIterator` (triangle) -/

namespace TriPixels

theorem new_total (t : Tri) (style : TriStyle) : ∃ it, TriPixels.new t style = some it := by
  obtain ⟨li, hli⟩ := triScanlines_total t style
  obtain ⟨r, hr⟩ := TriScanlines.next_total li
  unfold TriPixels.new
  simp only [hli, hr, Option.bind_eq_bind, Option.bind_some]
  exact ⟨_, rfl⟩

/-- The `loop` of `next` never exhausts fuel above `mu` of the scanline iterator. -/
theorem nextFuel_total : ∀ (fuel : Nat) (it : TriPixels), TriScanlines.mu it.linesIter < fuel →
    ∃ r, it.nextFuel fuel = some r := by
  intro fuel
  induction fuel with
  | zero => intro it h; omega
  | succ n ih =>
    intro it hf
    rw [nextFuel]
    split
    · exact ⟨_, rfl⟩
    · obtain ⟨r, hr, hmu⟩ := TriScanlines.next_spec it.linesIter
      rw [hr]
      cases r with
      | none => exact ⟨_, rfl⟩
      | some p =>
        obtain ⟨⟨nl, nt⟩, li⟩ := p
        dsimp only
        apply ih
        have := hmu (nl, nt) li rfl
        show TriScanlines.mu li < n
        omega

theorem next_total (it : TriPixels) : ∃ r, it.next = some r := by
  apply nextFuel_total
  have := TriIntersections.m_le it.linesIter.intersections
  unfold TriScanlines.mu
  omega

theorem toListFuel_total : ∀ (fuel : Nat) (it : TriPixels), ∃ l, it.toListFuel fuel = some l := by
  intro fuel
  induction fuel with
  | zero => intro it; exact ⟨[], rfl⟩
  | succ n ih =>
    intro it
    obtain ⟨r, hr⟩ := next_total it
    rw [toListFuel]
    simp only [hr, Option.bind_eq_bind, Option.bind_some]
    cases r with
    | none => exact ⟨[], rfl⟩
    | some p =>
      obtain ⟨s, it'⟩ := p
      obtain ⟨l, hl⟩ := ih it'
      simp only [hl, Option.bind_some, pure]
      exact ⟨_, rfl⟩

end TriPixels

theorem triPixelFuel_total (t : Tri) (style : TriStyle) : ∃ n, triPixelFuel t style = some n := by
  obtain ⟨it, hit⟩ := triScanlines_total t style
  obtain ⟨l, hl⟩ := TriScanlines.toListFuel_total (3 * ((it.rowsEnd - it.rowsStart).toNat + 1) + 1) it
  have hl' : it.toList = some l := hl
  unfold triPixelFuel
  simp only [hit, hl', Option.bind_eq_bind, Option.bind_some, pure]
  exact ⟨_, rfl⟩

/-- **`pixels()` of a styled triangle is total** (every stroke width, alignment and fill). -/
theorem triPixels_total (t : Tri) (style : TriStyle) : ∃ px, triPixels t style = some px := by
  obtain ⟨n, hn⟩ := triPixelFuel_total t style
  obtain ⟨it, hit⟩ := TriPixels.new_total t style
  unfold triPixels
  simp only [hn, hit, Option.bind_eq_bind, Option.bind_some]
  exact TriPixels.toListFuel_total _ it

end Joins
end EG
