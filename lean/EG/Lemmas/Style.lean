/-
  EG.Lemmas.Style — facts about `PrimitiveStyle` (EG.Model.Style) shared by all styled shapes.
-/
import EG.Model.Style
import EG.Lemmas.Rect
namespace EG
namespace Style

theorem outside_le_width (s : Style) : s.outsideStrokeWidth ≤ s.width := by
  obtain ⟨f, st, w, a⟩ := s
  cases a <;> simp only [outsideStrokeWidth] <;> omega

theorem inside_le_width (s : Style) : s.insideStrokeWidth ≤ s.width := by
  obtain ⟨f, st, w, a⟩ := s
  cases a <;> simp only [insideStrokeWidth, satAddU32] <;> (try split) <;> omega

/-- Below the `u32` saturation point the two parts add up to the stroke width. -/
theorem inside_add_outside (s : Style) (h : s.width < 4294967295) :
    s.insideStrokeWidth + s.outsideStrokeWidth = s.width := by
  obtain ⟨f, st, w, a⟩ := s
  simp only at h
  cases a <;> simp only [insideStrokeWidth, outsideStrokeWidth, satAddU32] <;> (try split) <;> omega

/-- `Center`: the larger half is inside (below the saturation point). -/
theorem center_split (s : Style) (h : s.width < 4294967295) (ha : s.align = .center) :
    s.outsideStrokeWidth = s.width / 2 ∧ s.insideStrokeWidth = (s.width + 1) / 2 := by
  obtain ⟨f, st, w, a⟩ := s
  simp only at h ha
  subst ha
  simp only [insideStrokeWidth, outsideStrokeWidth, satAddU32]
  refine ⟨trivial, ?_⟩
  split <;> omega

/-- At the saturation point one pixel of a centred stroke is lost (`saturating_add(1)`). -/
theorem center_split_saturated :
    (⟨none, none, 4294967295, .center⟩ : Style).insideStrokeWidth +
      (⟨none, none, 4294967295, .center⟩ : Style).outsideStrokeWidth = 4294967294 := by decide

theorem strokeOffset_eq (s : Style) (h : s.width ≤ 2147483647) :
    s.strokeOffset = (s.outsideStrokeWidth : Int) := by
  have := s.outside_le_width
  unfold strokeOffset
  rw [Rect.satAsI32_of_le (by omega)]

theorem fillOffset_eq (s : Style) (h : s.width ≤ 2147483647) :
    s.fillOffset = -(s.insideStrokeWidth : Int) := by
  have := s.inside_le_width
  unfold fillOffset
  rw [Rect.satAsI32_of_le (by omega)]

/-- Width 0: both parts are 0, so `stroke_area = fill_area = shape.offset(0)`. -/
theorem offsets_of_width_zero (s : Style) (h : s.width = 0) :
    s.strokeOffset = 0 ∧ s.fillOffset = 0 := by
  obtain ⟨f, st, w, a⟩ := s
  simp only at h
  subst h
  cases a <;> simp [strokeOffset, fillOffset, outsideStrokeWidth, insideStrokeWidth, satAsI32, satAddU32]

theorem isTransparent_iff (s : Style) :
    s.isTransparent = true ↔ (s.stroke = none ∨ s.width = 0) ∧ s.fill = none := by
  unfold isTransparent
  simp [Option.isNone_iff_eq_none]

theorem effectiveStrokeColor_eq (s : Style) :
    s.effectiveStrokeColor = if s.width > 0 then s.stroke else none := by
  unfold effectiveStrokeColor
  cases hs : s.stroke with
  | none => simp
  | some c => by_cases hw : s.width > 0 <;> simp [Option.filter, hw]

end Style
end EG
