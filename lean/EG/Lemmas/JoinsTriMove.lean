/-
  EG.Lemmas.JoinsTriMove — a styled triangle moved by `d`: vertex sorting, `is_collapsed`, the
  closed segment iterator, the styled bounding box, the scanline intersections and `draw` all move
  with it. Guard: `TriNoSat` (no saturating cast in any of the three joins), plus the sentinel /
  row-range guards of the bounding box.
-/
import EG.Lemmas.JoinsPolyScan
import EG.Model.ThickTriangle
import EG.Lemmas.TriScanlinesLoop
set_option linter.unusedSimpArgs false
namespace EG
namespace Joins
open Thick (LineSide StrokeOffset)

/-! ### Vertex order -/

theorem areaDoubled_translate (t : Tri) (d : Pt) : (t.translate d).areaDoubled = t.areaDoubled := by
  unfold Tri.areaDoubled Tri.translate
  simp only [Pt.add_x, Pt.add_y]
  ring

theorem sortTwoYx_translate (p q d : Pt) :
    Tri.sortTwoYx (p + d) (q + d) = ((Tri.sortTwoYx p q).1 + d, (Tri.sortTwoYx p q).2 + d) := by
  unfold Tri.sortTwoYx
  simp only [Pt.add_x, Pt.add_y]
  by_cases h : p.y < q.y ∨ p.y = q.y ∧ p.x < q.x
  · have h' : p.y + d.y < q.y + d.y ∨ p.y + d.y = q.y + d.y ∧ p.x + d.x < q.x + d.x := by omega
    simp only [h, h', ↓reduceIte]
  · have h' : ¬ (p.y + d.y < q.y + d.y ∨ p.y + d.y = q.y + d.y ∧ p.x + d.x < q.x + d.x) := by omega
    simp only [h, h', ↓reduceIte]

theorem sortedYx_translate (t : Tri) (d : Pt) : (t.translate d).sortedYx = t.sortedYx.translate d := by
  unfold Tri.sortedYx Tri.translate
  simp only [sortTwoYx_translate]

theorem sortedClockwise_translate (t : Tri) (d : Pt) :
    (t.translate d).sortedClockwise = t.sortedClockwise.translate d := by
  unfold Tri.sortedClockwise
  rw [areaDoubled_translate, sortedYx_translate]
  split
  · rfl
  · split <;> rfl

theorem vertex_translate (t : Tri) (d : Pt) (i : Nat) : (t.translate d).vertex i = t.vertex i + d := by
  unfold Tri.vertex Tri.translate
  split <;> rfl

theorem tri_boundingBox_translate (t : Tri) (d : Pt) :
    (t.translate d).boundingBox = t.boundingBox.translate d := by
  unfold Tri.boundingBox Tri.translate
  rw [← Rect.withCorners_translate]
  congr 1 <;> (rw [Pt.ext_iff']; simp only [Pt.add_x, Pt.add_y]; constructor <;> omega)

/-- `scanline_intersection` of the moved triangle in the moved row. -/
theorem tri_scanlineIntersection_translate (t : Tri) (d : Pt) (y : Int) :
    SR d ((t.translate d).scanlineIntersection (y + d.y)) (t.scanlineIntersection y) := by
  unfold Tri.scanlineIntersection
  rw [areaDoubled_translate, sortedYx_translate]
  have e : ∀ a b : Pt, (⟨a + d, b + d⟩ : Line) = (⟨a, b⟩ : Line).translate d := fun _ _ => rfl
  simp only [Tri.translate, e]
  split
  · exact SR_bint (SR_newEmpty d y) _
  · exact SR_bint (SR_bint (SR_bint (SR_newEmpty d y) _) _) _

/-! ### Joins of the triangle -/

/-- "No cast saturates in any of the three joins of the triangle, before or after the move." -/
def TriNoSat (t : Tri) (w : Nat) (off : StrokeOffset) (d : Pt) : Prop :=
  JoinNoSat t.v3 t.v1 t.v2 w off d ∧ JoinNoSat t.v1 t.v2 t.v3 w off d ∧ JoinNoSat t.v2 t.v3 t.v1 w off d

instance (t : Tri) (w : Nat) (off : StrokeOffset) (d : Pt) : Decidable (TriNoSat t w off d) := by
  unfold TriNoSat; exact inferInstance

theorem TriNoSat_vertex {t : Tri} {w : Nat} {off : StrokeOffset} {d : Pt} (h : TriNoSat t w off d)
    (i : Nat) : JoinNoSat (t.vertex i) (t.vertex (i + 1)) (t.vertex (i + 2)) w off d := by
  have h3 : i % 3 = 0 ∨ i % 3 = 1 ∨ i % 3 = 2 := by omega
  unfold Tri.vertex
  rcases h3 with h0 | h0 | h0
  · have h1 : (i + 1) % 3 = 1 := by omega
    have h2 : (i + 2) % 3 = 2 := by omega
    simp only [h0, h1, h2]; exact h.2.1
  · have h1 : (i + 1) % 3 = 2 := by omega
    have h2 : (i + 2) % 3 = 0 := by omega
    simp only [h0, h1, h2]; exact h.2.2
  · have h1 : (i + 1) % 3 = 0 := by omega
    have h2 : (i + 2) % 3 = 1 := by omega
    simp only [h0, h1, h2]; exact h.1

theorem tri_joins_translate (t : Tri) (w : Nat) (off : StrokeOffset) (d : Pt) (h : TriNoSat t w off d) :
    (t.translate d).joins w off = (t.joins w off).map (·.map (·.translate d)) := by
  unfold Tri.joins Tri.translate
  simp only [fromPoints_translate _ _ _ w off d h.1, fromPoints_translate _ _ _ w off d h.2.1,
    fromPoints_translate _ _ _ w off d h.2.2]
  cases LineJoin.fromPoints t.v3 t.v1 t.v2 w off with
  | none => rfl
  | some j1 =>
    cases LineJoin.fromPoints t.v1 t.v2 t.v3 w off with
    | none => rfl
    | some j2 =>
      cases LineJoin.fromPoints t.v2 t.v3 t.v1 w off with
      | none => rfl
      | some j3 => rfl

theorem joinCollapsed_translate (t : Tri) (w : Nat) (off : StrokeOffset) (d : Pt) (i : Nat)
    (j : LineJoin) :
    (t.translate d).joinCollapsed w off i (j.translate d) = t.joinCollapsed w off i j := by
  unfold Tri.joinCollapsed
  have ed : (j.translate d).isDegenerate = j.isDegenerate := rfl
  rw [ed]
  by_cases hd : j.isDegenerate = true
  · simp only [hd, ↓reduceIte]
  · simp only [hd, Bool.false_eq_true, ↓reduceIte, vertex_translate]
    rw [line_mk_translate, extents_translate]
    cases extents ⟨t.vertex (i + 1), t.vertex (i + 2)⟩ w off with
    | none => rfl
    | some r =>
      obtain ⟨l1, l2⟩ := r
      simp only [Option.map_some, Option.bind_eq_bind, Option.bind_some, shiftLines, pure,
        Option.some.injEq]
      exact checkSide_translate l2 d j.firstEdgeEnd.right LineSide.left

/-- `is_collapsed` does not depend on the position. -/
theorem isCollapsed_translate (t : Tri) (w : Nat) (off : StrokeOffset) (d : Pt)
    (h : TriNoSat t w off d) : (t.translate d).isCollapsed w off = t.isCollapsed w off := by
  unfold Tri.isCollapsed
  rw [tri_joins_translate t w off d h]
  cases hj : t.joins w off with
  | none => simp only [Option.map_none, Option.bind_eq_bind, Option.bind_none]
  | some js =>
    simp only [Option.map_some, Option.bind_eq_bind, Option.bind_some]
    rcases js with _ | ⟨j1, _ | ⟨j2, _ | ⟨j3, _ | ⟨j4, rest⟩⟩⟩⟩
    · simp only [List.map_nil]
    · simp only [List.map_cons, List.map_nil]
    · simp only [List.map_cons, List.map_nil]
    · simp only [List.map_cons, List.map_nil, joinCollapsed_translate]
    · simp only [List.map_cons]

/-! ### `ClosedThickSegmentIter` on three points, `styled_bounding_box` -/

/-- The three closed segments of a triangle, in iterator order. -/
def closedSegments3 (t : Tri) (w : Nat) (off : StrokeOffset) : Option (List ThickSegment) := do
  let j0 ← LineJoin.fromPoints t.v3 t.v1 t.v2 w off
  let j1 ← LineJoin.fromPoints t.v1 t.v2 t.v3 w off
  let j2 ← LineJoin.fromPoints t.v2 t.v3 t.v1 w off
  pure [⟨j0, j1⟩, ⟨j1, j2⟩, ⟨j2, j0⟩]

/-- `ClosedThickSegmentIter::new(&t.vertices, ..)` drained = the three closed segments. -/
theorem closedIter_eq (t : Tri) (w : Nat) (off : StrokeOffset) :
    (ClosedThickSegmentIter.new t.vertices w off).bind ClosedThickSegmentIter.toList =
      closedSegments3 t w off := by
  unfold closedSegments3 ClosedThickSegmentIter.new Tri.vertices
  simp only [List.getLast?_cons_cons, List.getLast?_singleton, Option.bind_eq_bind, Option.bind_some]
  cases h0 : LineJoin.fromPoints t.v3 t.v1 t.v2 w off with
  | none => rfl
  | some j0 =>
    simp only [Option.bind_some, pure, ClosedThickSegmentIter.toList, List.length_cons, List.length_nil]
    cases h1 : LineJoin.fromPoints t.v1 t.v2 t.v3 w off with
    | none =>
      simp only [ClosedThickSegmentIter.toListFuel, ClosedThickSegmentIter.next, windowsNext, h1,
        Bool.false_eq_true, ↓reduceIte, Option.bind_eq_bind, Option.bind_none]
    | some j1 =>
      cases h2 : LineJoin.fromPoints t.v2 t.v3 t.v1 w off with
      | none =>
        simp [ClosedThickSegmentIter.toListFuel, ClosedThickSegmentIter.next, windowsNext, h1, h2]
      | some j2 =>
        simp [ClosedThickSegmentIter.toListFuel, ClosedThickSegmentIter.next, windowsNext, h1, h2]

theorem closedSegments3_translate (t : Tri) (w : Nat) (off : StrokeOffset) (d : Pt)
    (h : TriNoSat t w off d) :
    closedSegments3 (t.translate d) w off = (closedSegments3 t w off).map (·.map (·.translate d)) := by
  unfold closedSegments3 Tri.translate
  simp only [fromPoints_translate _ _ _ w off d h.1, fromPoints_translate _ _ _ w off d h.2.1,
    fromPoints_translate _ _ _ w off d h.2.2]
  cases LineJoin.fromPoints t.v3 t.v1 t.v2 w off with
  | none => rfl
  | some j1 =>
    cases LineJoin.fromPoints t.v1 t.v2 t.v3 w off with
    | none => rfl
    | some j2 =>
      cases LineJoin.fromPoints t.v2 t.v3 t.v1 w off with
      | none => rfl
      | some j3 => rfl

theorem triStyledBoundingBox_eq (t : Tri) (style : TriStyle) :
    triStyledBoundingBox t style =
      if style.strokeWidth < 2 ∨ style.strokeAlignment = .inside then some t.boundingBox
      else (closedSegments3 t.sortedClockwise style.strokeWidth style.strokeAlignment.toOffset).map
        foldEdgeBoxes := by
  unfold triStyledBoundingBox
  split
  · rfl
  · rw [← closedIter_eq]
    simp only [Option.bind_eq_bind]
    generalize ClosedThickSegmentIter.new t.sortedClockwise.vertices style.strokeWidth
        style.strokeAlignment.toOffset = o
    cases o with
    | none => rfl
    | some it =>
      simp only [Option.bind_some]
      cases it.toList with
      | none => rfl
      | some segs => rfl

/-- The sentinel guard of the fold over the triangle's segment boxes. -/
def TriBoxGuard (t : Tri) (style : TriStyle) (d : Pt) : Prop :=
  match closedSegments3 t.sortedClockwise style.strokeWidth style.strokeAlignment.toOffset with
  | some (s :: _) => SentinelOK s.edgesBoundingBox d
  | some [] => False
  | none => True

instance (t : Tri) (style : TriStyle) (d : Pt) : Decidable (TriBoxGuard t style d) := by
  unfold TriBoxGuard; split <;> exact inferInstance

/-- **The styled bounding box of a moved triangle is the moved box.** -/
theorem triStyledBoundingBox_translate (t : Tri) (style : TriStyle) (d : Pt)
    (hns : TriNoSat t.sortedClockwise style.strokeWidth style.strokeAlignment.toOffset d)
    (hg : TriBoxGuard t style d) :
    triStyledBoundingBox (t.translate d) style = (triStyledBoundingBox t style).map (·.translate d) := by
  rw [triStyledBoundingBox_eq, triStyledBoundingBox_eq]
  split
  · simp only [Option.map_some, tri_boundingBox_translate]
  · rw [sortedClockwise_translate, closedSegments3_translate _ _ _ d hns]
    unfold TriBoxGuard at hg
    cases hs : closedSegments3 t.sortedClockwise style.strokeWidth style.strokeAlignment.toOffset with
    | none => rfl
    | some segs =>
      rw [hs] at hg
      cases segs with
      | nil => exact absurd hg (by simp)
      | cons s rest =>
        simp only [Option.map_some, Option.some.injEq]
        exact foldEdgeBoxes_translate s rest d hg

/-! ### `ScanlineIntersections` of the triangle -/

/-- Both empty, or exactly shifted (rows are not compared: the parked scanlines of `LineConfig`
are only ever `try_take`n). -/
def SR0 (d : Pt) (s' s : Scanline) : Prop :=
  (s'.isEmpty = true ∧ s.isEmpty = true) ∨ s' = shiftS s d

theorem SR0_newEmpty (d : Pt) (y' y : Int) : SR0 d (Scanline.newEmpty y') (Scanline.newEmpty y) :=
  Or.inl ⟨rfl, rfl⟩

theorem tryTake_SR0 {d : Pt} {a' a : Scanline} (h : SR0 d a' a) :
    OptRel (fun x' x => x' = shiftS x d) a'.tryTake.1 a.tryTake.1 ∧ SR0 d a'.tryTake.2 a.tryTake.2 := by
  unfold Scanline.tryTake
  rcases h with ⟨h1, h2⟩ | h
  · simp only [h1, h2, Bool.not_true, Bool.false_eq_true, ↓reduceIte]
    exact ⟨trivial, Or.inl ⟨h1, h2⟩⟩
  · subst h
    rw [isEmpty_shiftS]
    by_cases he : a.isEmpty = true
    · simp only [he, Bool.not_true, Bool.false_eq_true, ↓reduceIte]
      exact ⟨trivial, Or.inr rfl⟩
    · have he' : a.isEmpty = false := by simpa using he
      simp only [he', Bool.not_false, ↓reduceIte]
      exact ⟨rfl, Or.inl ⟨rfl, rfl⟩⟩

/-- Related closure states of `edge_intersections`. -/
structure ESR (d : Pt) (st' st : EdgeState) : Prop where
  idx : st'.idx = st.idx
  left : SR d st'.left st.left
  right : SR d st'.right st.right

/-- What the edge closure reads from the iterator. -/
structure TIRcore (d : Pt) (it' it : TriIntersections) : Prop where
  tri : it'.triangle = it.triangle.translate d
  w : it'.strokeWidth = it.strokeWidth
  off : it'.strokeOffset = it.strokeOffset
  fill : it'.hasFill = it.hasFill
  col : it'.isCollapsed = it.isCollapsed
  ns : TriNoSat it.triangle it.strokeWidth it.strokeOffset d

theorem edgeLoop_moved {d : Pt} {it' it : TriIntersections} (hc : TIRcore d it' it) (y : Int)
    (fuel : Nat) {st' st : EdgeState} (hs : ESR d st' st) :
    OptRel (ESR d) (it'.edgeLoop (y + d.y) fuel st') (it.edgeLoop y fuel st) := by
  induction fuel generalizing st' st with
  | zero => exact hs
  | succ fuel ih =>
    unfold TriIntersections.edgeLoop
    rw [hs.idx]
    by_cases hi : st.idx < 3
    · simp only [hi, ↓reduceIte, hc.tri, hc.w, hc.off, vertex_translate]
      have n1 := TriNoSat_vertex hc.ns st.idx
      have n2 := TriNoSat_vertex hc.ns (st.idx + 1)
      rw [fromPoints_translate _ _ _ _ _ d n1, fromPoints_translate _ _ _ _ _ d n2]
      cases LineJoin.fromPoints (it.triangle.vertex st.idx) (it.triangle.vertex (st.idx + 1))
          (it.triangle.vertex (st.idx + 2)) it.strokeWidth it.strokeOffset with
      | none => trivial
      | some j1 =>
        cases LineJoin.fromPoints (it.triangle.vertex (st.idx + 1)) (it.triangle.vertex (st.idx + 1 + 1))
            (it.triangle.vertex (st.idx + 1 + 2)) it.strokeWidth it.strokeOffset with
        | none => trivial
        | some j2 =>
          simp only [Option.map_some, Option.bind_eq_bind, Option.bind_some]
          have hsc : SR d ((ThickSegment.mk (j1.translate d) (j2.translate d)).intersection (y + d.y))
              ((ThickSegment.mk j1 j2).intersection y) :=
            intersection_translate_segment ⟨j1, j2⟩ d y
          rw [SR_isEmpty hs.left]
          by_cases hl : st.left.isEmpty = true
          · simp only [hl, Bool.not_true, Bool.false_eq_true, ↓reduceIte]
            exact ih ⟨hs.idx ▸ rfl, hsc, hs.right⟩
          · have hl' : st.left.isEmpty = false := by simpa using hl
            simp only [hl', Bool.not_false, ↓reduceIte]
            obtain ⟨hf, hsr⟩ := tryExtend_SR hs.left hsc
            rw [hf]
            by_cases he : (st.left.tryExtend ((ThickSegment.mk j1 j2).intersection y)).1 = true
            · simp only [he, ↓reduceIte]
              exact ih ⟨hs.idx ▸ rfl, hsr, hs.right⟩
            · simp only [he, Bool.false_eq_true, ↓reduceIte]
              rw [SR_isEmpty hs.right]
              by_cases hr : st.right.isEmpty = true
              · simp only [hr, Bool.not_true, Bool.false_eq_true, ↓reduceIte]
                exact ih ⟨hs.idx ▸ rfl, hs.left, hsc⟩
              · have hr' : st.right.isEmpty = false := by simpa using hr
                simp only [hr', Bool.not_false, ↓reduceIte]
                exact ih ⟨hs.idx ▸ rfl, hs.left, (tryExtend_SR hs.right hsc).2⟩
    · simp only [hi, ↓reduceIte]
      exact hs

/-- Related results of one call of the edge closure: the returned scanline is moved exactly. -/
def EdgeItemR (d : Pt) (r' r : Option Scanline × EdgeState) : Prop :=
  OptRel (fun x' x => x' = shiftS x d) r'.1 r.1 ∧ ESR d r'.2 r.2

theorem tryTake_SR_exact {d : Pt} {a' a : Scanline} (ha : SR d a' a) :
    OptRel (fun x' x => x' = shiftS x d) a'.tryTake.1 a.tryTake.1 ∧ SR d a'.tryTake.2 a.tryTake.2 := by
  obtain ⟨h1, h2⟩ := tryTake_SR ha
  refine ⟨?_, h2⟩
  unfold Scanline.tryTake at h1 ⊢
  rw [SR_isEmpty ha] at h1 ⊢
  by_cases he : a.isEmpty = true
  · simp only [he, Bool.not_true, Bool.false_eq_true, ↓reduceIte]; trivial
  · have he' : a.isEmpty = false := by simpa using he
    simp only [he', Bool.not_false, ↓reduceIte]
    exact SR_of_nonempty ha he'

theorem edgeNext_moved {d : Pt} {it' it : TriIntersections} (hc : TIRcore d it' it) (y : Int)
    {st' st : EdgeState} (hs : ESR d st' st) :
    OptRel (EdgeItemR d) (it'.edgeNext (y + d.y) st') (it.edgeNext y st) := by
  unfold TriIntersections.edgeNext
  rw [hc.w]
  by_cases hw : it.strokeWidth = 0
  · simp only [hw, ↓reduceIte]; exact ⟨trivial, hs⟩
  · simp only [hw, ↓reduceIte]
    have hl := edgeLoop_moved hc y 3 hs
    cases h1 : it'.edgeLoop (y + d.y) 3 st' with
    | none =>
      cases h2 : it.edgeLoop y 3 st with
      | none => trivial
      | some x => rw [h1, h2] at hl; exact hl.elim
    | some x' =>
      cases h2 : it.edgeLoop y 3 st with
      | none => rw [h1, h2] at hl; exact hl.elim
      | some x =>
        rw [h1, h2] at hl
        have hx : ESR d x' x := hl
        simp only [Option.bind_eq_bind, Option.bind_some]
        obtain ⟨hf, hsr⟩ := tryExtend_SR hx.left hx.right
        rw [hf]
        by_cases he : (x.left.tryExtend x.right).1 = true
        · simp only [he, ↓reduceIte]
          obtain ⟨t1, t2⟩ := tryTake_SR_exact hsr
          rcases hp' : (x'.left.tryExtend x'.right).2.tryTake with ⟨o', l'⟩
          rcases hp : (x.left.tryExtend x.right).2.tryTake with ⟨o, l⟩
          rw [hp', hp] at t1 t2
          simp only at t1 t2
          cases o' with
          | none =>
            cases o with
            | none =>
              simp only []
              obtain ⟨t3, t4⟩ := tryTake_SR_exact (SR_newEmpty d y)
              exact ⟨t3, hx.idx, hsr, t4⟩
            | some v => exact t1.elim
          | some v' =>
            cases o with
            | none => exact t1.elim
            | some v =>
              simp only []
              exact ⟨t1, hx.idx, t2, SR_newEmpty d y⟩
        · simp only [he, Bool.false_eq_true, ↓reduceIte]
          obtain ⟨t1, t2⟩ := tryTake_SR_exact hx.left
          rcases hp' : x'.left.tryTake with ⟨o', l'⟩
          rcases hp : x.left.tryTake with ⟨o, l⟩
          rw [hp', hp] at t1 t2
          simp only at t1 t2
          cases o' with
          | none =>
            cases o with
            | none =>
              simp only []
              obtain ⟨t3, t4⟩ := tryTake_SR_exact hx.right
              exact ⟨t3, hx.idx, hx.left, t4⟩
            | some v => exact t1.elim
          | some v' =>
            cases o with
            | none => exact t1.elim
            | some v =>
              simp only []
              exact ⟨t1, hx.idx, t2, hx.right⟩

/-- Related `LineConfig`s. -/
structure LCR (d : Pt) (c' c : LineConfig) : Prop where
  first : SR0 d c'.first c.first
  second : SR0 d c'.second c.second
  internal : SR0 d c'.internal c.internal
  ty : c'.internalType = c.internalType

theorem SR0_of_exact {d : Pt} {o' o : Option Scanline} (h : OptRel (fun x' x => x' = shiftS x d) o' o)
    (y' y : Int) : SR0 d (o'.getD (Scanline.newEmpty y')) (o.getD (Scanline.newEmpty y)) := by
  cases o' with
  | none =>
    cases o with
    | none => exact SR0_newEmpty d y' y
    | some v => exact h.elim
  | some v' =>
    cases o with
    | none => exact h.elim
    | some v => exact Or.inr h

theorem generateLines_moved {d : Pt} {it' it : TriIntersections} (hc : TIRcore d it' it) (y : Int) :
    OptRel (LCR d) (it'.generateLines (y + d.y)) (it.generateLines y) := by
  unfold TriIntersections.generateLines
  rw [hc.col]
  by_cases hcol : it.isCollapsed = true
  · simp only [hcol, ↓reduceIte]
    refine ⟨SR0_newEmpty d 0 0, SR0_newEmpty d 0 0, ?_, rfl⟩
    rw [hc.tri]
    exact (tri_scanlineIntersection_translate it.triangle d y).2
  · simp only [hcol, Bool.false_eq_true, ↓reduceIte]
    have hs0 : ESR d ⟨0, Scanline.newEmpty (y + d.y), Scanline.newEmpty (y + d.y)⟩
        ⟨0, Scanline.newEmpty y, Scanline.newEmpty y⟩ := ⟨rfl, SR_newEmpty d y, SR_newEmpty d y⟩
    have h1 := edgeNext_moved hc y hs0
    cases e1' : it'.edgeNext (y + d.y) ⟨0, Scanline.newEmpty (y + d.y), Scanline.newEmpty (y + d.y)⟩ with
    | none =>
      cases e1 : it.edgeNext y ⟨0, Scanline.newEmpty y, Scanline.newEmpty y⟩ with
      | none => trivial
      | some r => rw [e1', e1] at h1; exact h1.elim
    | some r' =>
      cases e1 : it.edgeNext y ⟨0, Scanline.newEmpty y, Scanline.newEmpty y⟩ with
      | none => rw [e1', e1] at h1; exact h1.elim
      | some r =>
        rw [e1', e1] at h1
        obtain ⟨f', st1'⟩ := r'
        obtain ⟨f, st1⟩ := r
        obtain ⟨hf, hst⟩ := h1
        simp only at hf hst
        simp only [Option.bind_eq_bind, Option.bind_some]
        have h2 := edgeNext_moved hc y hst
        cases e2' : it'.edgeNext (y + d.y) st1' with
        | none =>
          cases e2 : it.edgeNext y st1 with
          | none => trivial
          | some r => rw [e2', e2] at h2; exact h2.elim
        | some r2' =>
          cases e2 : it.edgeNext y st1 with
          | none => rw [e2', e2] at h2; exact h2.elim
          | some r2 =>
            rw [e2', e2] at h2
            obtain ⟨s', st2'⟩ := r2'
            obtain ⟨s, st2⟩ := r2
            obtain ⟨hsec, _⟩ := h2
            simp only at hsec
            simp only [Option.bind_some, pure, hc.fill]
            refine ⟨SR0_of_exact hf _ _, SR0_of_exact hsec _ _, ?_, rfl⟩
            by_cases hfill : it.hasFill = true
            · simp only [hfill, ↓reduceIte]
              cases f' with
              | none =>
                cases f with
                | some v => exact hf.elim
                | none =>
                  cases s' with
                  | none =>
                    cases s with
                    | some v => exact hsec.elim
                    | none =>
                      simp only []
                      rw [hc.tri]
                      exact (tri_scanlineIntersection_translate it.triangle d y).2
                  | some v' =>
                    cases s with
                    | none => exact hsec.elim
                    | some v => exact SR0_newEmpty d _ _
              | some u' =>
                cases f with
                | none => exact hf.elim
                | some u =>
                  cases s' with
                  | none =>
                    cases s with
                    | some v => exact hsec.elim
                    | none => exact SR0_newEmpty d _ _
                  | some v' =>
                    cases s with
                    | none => exact hsec.elim
                    | some v =>
                      have hu : u' = shiftS u d := hf
                      have hv : v' = shiftS v d := hsec
                      subst hu hv
                      right
                      simp only [shiftS, Scanline.mk.injEq, true_and]
                      constructor <;> omega
            · simp only [hfill, Bool.false_eq_true, ↓reduceIte]
              exact SR0_newEmpty d _ _

theorem TIRcore.withLines {d : Pt} {it' it : TriIntersections} (h : TIRcore d it' it)
    (l' l : LineConfig) : TIRcore d { it' with lines := l' } { it with lines := l } :=
  ⟨h.tri, h.w, h.off, h.fill, h.col, h.ns⟩

/-- Related triangle scanline-intersection iterators. -/
structure TIR (d : Pt) (it' it : TriIntersections) : Prop where
  core : TIRcore d it' it
  lines : LCR d it'.lines it.lines

theorem TriIntersections.reset_moved {d : Pt} {it' it : TriIntersections} (h : TIRcore d it' it)
    (y : Int) :
    OptRel (TIR d) (it'.resetWithNewScanline (y + d.y)) (it.resetWithNewScanline y) := by
  unfold TriIntersections.resetWithNewScanline
  have hg := generateLines_moved h y
  cases g' : it'.generateLines (y + d.y) with
  | none =>
    cases g : it.generateLines y with
    | none => trivial
    | some c => rw [g', g] at hg; exact hg.elim
  | some c' =>
    cases g : it.generateLines y with
    | none => rw [g', g] at hg; exact hg.elim
    | some c =>
      rw [g', g] at hg
      exact ⟨⟨h.tri, h.w, h.off, h.fill, h.col, h.ns⟩, hg⟩

/-- The iterator that `ScanlineIntersections::new` resets. -/
def newSelfTri (t : Tri) (w : Nat) (off : StrokeOffset) (fill c : Bool) : TriIntersections :=
  { TriIntersections.empty with
    hasFill := fill, triangle := t, strokeOffset := off, strokeWidth := w
    isCollapsed := c && off == .right }

theorem TriIntersections.new_eq (t : Tri) (w : Nat) (off : StrokeOffset) (fill : Bool) (y : Int) :
    TriIntersections.new t w off fill y =
      (t.isCollapsed w off).bind (fun c => (newSelfTri t w off fill c).resetWithNewScanline y) := rfl

theorem newSelfTri_core (t : Tri) (w : Nat) (off : StrokeOffset) (fill c : Bool) (d : Pt)
    (hns : TriNoSat t w off d) :
    TIRcore d (newSelfTri (t.translate d) w off fill c) (newSelfTri t w off fill c) :=
  ⟨rfl, rfl, rfl, rfl, rfl, hns⟩

theorem TriIntersections.new_moved (t : Tri) (w : Nat) (off : StrokeOffset) (fill : Bool) (y : Int)
    (d : Pt) (hns : TriNoSat t w off d) :
    OptRel (TIR d) (TriIntersections.new (t.translate d) w off fill (y + d.y))
      (TriIntersections.new t w off fill y) := by
  rw [TriIntersections.new_eq, TriIntersections.new_eq, isCollapsed_translate t w off d hns]
  cases t.isCollapsed w off with
  | none => trivial
  | some c =>
    simp only [Option.bind_some]
    exact TriIntersections.reset_moved (newSelfTri_core t w off fill c d hns) y

/-- Related items of the triangle's `ScanlineIntersections::next`. -/
def TriItemR (d : Pt) (r' r : (Scanline × PointType) × TriIntersections) : Prop :=
  r'.1.1 = shiftS r.1.1 d ∧ r'.1.2 = r.1.2 ∧ TIR d r'.2 r.2

theorem TriIntersections.next_moved {d : Pt} {it' it : TriIntersections} (h : TIR d it' it) :
    OptRel (TriItemR d) it'.next it.next := by
  unfold TriIntersections.next
  obtain ⟨a1, a2⟩ := tryTake_SR0 h.lines.internal
  rcases p1' : it'.lines.internal.tryTake with ⟨o1', l1'⟩
  rcases p1 : it.lines.internal.tryTake with ⟨o1, l1⟩
  rw [p1', p1] at a1 a2
  simp only at a1 a2
  cases o1' with
  | some v' =>
    cases o1 with
    | none => exact a1.elim
    | some v =>
      simp only []
      exact ⟨a1, h.lines.ty, h.core.withLines _ _, ⟨h.lines.first, h.lines.second, a2, h.lines.ty⟩⟩
  | none =>
    cases o1 with
    | some v => exact a1.elim
    | none =>
      simp only []
      obtain ⟨b1, b2⟩ := tryTake_SR0 h.lines.first
      rcases p2' : it'.lines.first.tryTake with ⟨o2', l2'⟩
      rcases p2 : it.lines.first.tryTake with ⟨o2, l2⟩
      rw [p2', p2] at b1 b2
      simp only at b1 b2
      cases o2' with
      | some v' =>
        cases o2 with
        | none => exact b1.elim
        | some v =>
          simp only []
          exact ⟨b1, rfl, h.core.withLines _ _, ⟨b2, h.lines.second, h.lines.internal, h.lines.ty⟩⟩
      | none =>
        cases o2 with
        | some v => exact b1.elim
        | none =>
          simp only []
          obtain ⟨c1, c2⟩ := tryTake_SR0 h.lines.second
          rcases p3' : it'.lines.second.tryTake with ⟨o3', l3'⟩
          rcases p3 : it.lines.second.tryTake with ⟨o3, l3⟩
          rw [p3', p3] at c1 c2
          simp only at c1 c2
          cases o3' with
          | some v' =>
            cases o3 with
            | none => exact c1.elim
            | some v =>
              simp only []
              exact ⟨c1, rfl, h.core.withLines _ _, ⟨h.lines.first, c2, h.lines.internal, h.lines.ty⟩⟩
          | none =>
            cases o3 with
            | some v => exact c1.elim
            | none => trivial

/-! ### The triangle's `ScanlineIterator`, `draw_styled` -/

/-- Related triangle scanline iterators. -/
structure TSR (d : Pt) (it' it : TriScanlines) : Prop where
  rs : it'.rowsStart = it.rowsStart + d.y
  re : it'.rowsEnd = it.rowsEnd + d.y
  ints : TIR d it'.intersections it.intersections

/-- Related items of the triangle's `ScanlineIterator::next`. -/
def TriScanItemR (d : Pt) (r' r : (Scanline × PointType) × TriScanlines) : Prop :=
  r'.1.1 = shiftS r.1.1 d ∧ r'.1.2 = r.1.2 ∧ TSR d r'.2 r.2

/-- Related results of the (non-fused) `ScanlineIterator::next`: related optional items, related
successor states — also after a `None`. -/
def TriScanStepR (d : Pt) (r' r : Option (Scanline × PointType) × TriScanlines) : Prop :=
  OptRel (fun x' x => x'.1 = shiftS x.1 d ∧ x'.2 = x.2) r'.1 r.1 ∧ TSR d r'.2 r.2

theorem TriScanlines.next_moved {d : Pt} {it' it : TriScanlines} (h : TSR d it' it) :
    OptRel (TriScanStepR d) it'.next it.next := by
  unfold TriScanlines.next
  have hn := TriIntersections.next_moved h.ints
  cases n' : it'.intersections.next with
  | some r' =>
    cases n : it.intersections.next with
    | none => rw [n', n] at hn; exact hn.elim
    | some r =>
      rw [n', n] at hn
      obtain ⟨h1, h2, h3⟩ := hn
      exact ⟨⟨h1, h2⟩, h.rs, h.re, h3⟩
  | none =>
    cases n : it.intersections.next with
    | some r => rw [n', n] at hn; exact hn.elim
    | none =>
      simp only []
      rw [h.rs, h.re]
      by_cases hr : it.rowsStart < it.rowsEnd
      · have hr' : it.rowsStart + d.y < it.rowsEnd + d.y := by omega
        simp only [hr, hr', ↓reduceIte]
        have hreset := TriIntersections.reset_moved h.ints.core it.rowsStart
        cases r' : it'.intersections.resetWithNewScanline (it.rowsStart + d.y) with
        | none =>
          cases r : it.intersections.resetWithNewScanline it.rowsStart with
          | none => trivial
          | some x => rw [r', r] at hreset; exact hreset.elim
        | some x' =>
          cases r : it.intersections.resetWithNewScanline it.rowsStart with
          | none => rw [r', r] at hreset; exact hreset.elim
          | some x =>
            rw [r', r] at hreset
            have hx : TIR d x' x := hreset
            simp only [Option.bind_eq_bind, Option.bind_some]
            have hn2 := TriIntersections.next_moved hx
            cases m' : x'.next with
            | none =>
              cases m : x.next with
              | none =>
                exact ⟨trivial, by show it.rowsStart + d.y + 1 = it.rowsStart + 1 + d.y; omega, rfl, hx⟩
              | some v => rw [m', m] at hn2; exact hn2.elim
            | some v' =>
              cases m : x.next with
              | none => rw [m', m] at hn2; exact hn2.elim
              | some v =>
                rw [m', m] at hn2
                obtain ⟨h1, h2, h3⟩ := hn2
                exact ⟨⟨h1, h2⟩, by show it.rowsStart + d.y + 1 = it.rowsStart + 1 + d.y; omega, rfl, h3⟩
      · have hr' : ¬ it.rowsStart + d.y < it.rowsEnd + d.y := by omega
        simp only [hr, hr', ↓reduceIte]
        exact ⟨trivial, h⟩

/-- The same for the view of a loop that stops at the first `None`. -/
theorem TriScanlines.nextLoop_moved {d : Pt} {it' it : TriScanlines} (h : TSR d it' it) :
    OptRel (OptRel (TriScanItemR d)) it'.nextLoop it.nextLoop := by
  have hn := TriScanlines.next_moved h
  unfold TriScanlines.nextLoop
  cases n' : it'.next with
  | none =>
    cases n : it.next with
    | none => trivial
    | some r => rw [n', n] at hn; exact hn.elim
  | some r' =>
    cases n : it.next with
    | none => rw [n', n] at hn; exact hn.elim
    | some r =>
      rw [n', n] at hn
      obtain ⟨o', s'⟩ := r'
      obtain ⟨o, s0⟩ := r
      obtain ⟨h1, h2⟩ := hn
      cases o' with
      | none =>
        cases o with
        | none => trivial
        | some x => exact h1.elim
      | some x' =>
        cases o with
        | none => exact h1.elim
        | some x => exact ⟨h1.1, h1.2, h2⟩

/-- A typed scanline moved by `d`. -/
def shiftTyped (r : Scanline × PointType) (d : Pt) : Scanline × PointType := (shiftS r.1 d, r.2)

theorem TriScanlines.toListFuel_moved {d : Pt} (fuel : Nat) {it' it : TriScanlines} (h : TSR d it' it) :
    OptRel (fun l' l => l' = l.map (shiftTyped · d)) (it'.toListFuel fuel) (it.toListFuel fuel) := by
  induction fuel generalizing it' it with
  | zero => exact rfl
  | succ fuel ih =>
    unfold TriScanlines.toListFuel
    have hn := TriScanlines.nextLoop_moved h
    cases h1 : it'.nextLoop with
    | none =>
      cases h2 : it.nextLoop with
      | none => trivial
      | some r => rw [h1, h2] at hn; exact hn.elim
    | some r' =>
      cases h2 : it.nextLoop with
      | none => rw [h1, h2] at hn; exact hn.elim
      | some r =>
        rw [h1, h2] at hn
        cases r' with
        | none =>
          cases r with
          | none => exact rfl
          | some x => exact hn.elim
        | some x' =>
          cases r with
          | none => exact hn.elim
          | some x =>
            obtain ⟨⟨s', ty'⟩, it1'⟩ := x'
            obtain ⟨⟨s, ty⟩, it1⟩ := x
            obtain ⟨hs, hty, hp⟩ := hn
            simp only at hs hty hp
            subst hs hty
            simp only [Option.bind_eq_bind, Option.bind_some]
            have hrec := ih hp
            cases h3 : TriScanlines.toListFuel fuel it1' with
            | none =>
              cases h4 : TriScanlines.toListFuel fuel it1 with
              | none => trivial
              | some l => rw [h3, h4] at hrec; exact hrec.elim
            | some l' =>
              cases h4 : TriScanlines.toListFuel fuel it1 with
              | none => rw [h3, h4] at hrec; exact hrec.elim
              | some l =>
                rw [h3, h4] at hrec
                have hrec' : l' = l.map (shiftTyped · d) := hrec
                subst hrec'
                exact rfl

theorem TriScanlines.toList_moved {d : Pt} {it' it : TriScanlines} (h : TSR d it' it) :
    OptRel (fun l' l => l' = l.map (shiftTyped · d)) it'.toList it.toList := by
  unfold TriScanlines.toList
  rw [h.rs, h.re]
  have e : (it.rowsEnd + d.y - (it.rowsStart + d.y)).toNat = (it.rowsEnd - it.rowsStart).toNat := by
    congr 1; omega
  rw [e]
  exact TriScanlines.toListFuel_moved _ h

/-- `Rectangle::rows()` of the moved styled box does not saturate. -/
def TriRowsGuard (t : Tri) (style : TriStyle) (d : Pt) : Prop :=
  match triStyledBoundingBox t style with
  | some bb => (bb.translate d).rowsEnd = bb.rowsEnd + d.y
  | none => True

instance (t : Tri) (style : TriStyle) (d : Pt) : Decidable (TriRowsGuard t style d) := by
  unfold TriRowsGuard; split <;> exact inferInstance

theorem TriScanlines.empty_toList : TriScanlines.empty.toList = some [] := by decide

/-- All guards of the triangle theorems. -/
structure TriGuards (t : Tri) (style : TriStyle) (d : Pt) : Prop where
  ns : TriNoSat t.sortedClockwise style.strokeWidth style.strokeAlignment.toOffset d
  box : TriBoxGuard t style d
  rows : TriRowsGuard t style d

instance (t : Tri) (style : TriStyle) (d : Pt) : Decidable (TriGuards t style d) :=
  decidable_of_iff (TriNoSat t.sortedClockwise style.strokeWidth style.strokeAlignment.toOffset d ∧
    TriBoxGuard t style d ∧ TriRowsGuard t style d)
    ⟨fun ⟨a, b, c⟩ => ⟨a, b, c⟩, fun ⟨a, b, c⟩ => ⟨a, b, c⟩⟩

/-- The typed scanlines of the moved triangle are the moved typed scanlines. -/
theorem triScanlineList_moved (t : Tri) (style : TriStyle) (d : Pt) (hg : TriGuards t style d) :
    OptRel (fun l' l => l' = l.map (shiftTyped · d))
      ((triScanlines (t.translate d) style).bind TriScanlines.toList)
      ((triScanlines t style).bind TriScanlines.toList) := by
  unfold triScanlines
  rw [triStyledBoundingBox_translate t style d hg.ns hg.box]
  have hrows := hg.rows
  unfold TriRowsGuard at hrows
  cases hb : triStyledBoundingBox t style with
  | none => trivial
  | some bb =>
    rw [hb] at hrows
    simp only [Option.map_some, Option.bind_eq_bind, Option.bind_some]
    unfold TriScanlines.new
    simp only [hrows, Rect.translate_tl, Pt.add_y, sortedClockwise_translate]
    by_cases hr : bb.tl.y < bb.rowsEnd
    · have hr' : bb.tl.y + d.y < bb.rowsEnd + d.y := by omega
      simp only [hr, hr', ↓reduceIte]
      have hnew := TriIntersections.new_moved t.sortedClockwise style.strokeWidth
        style.strokeAlignment.toOffset style.fillColor.isSome bb.tl.y d hg.ns
      cases h1 : TriIntersections.new (t.sortedClockwise.translate d) style.strokeWidth
          style.strokeAlignment.toOffset style.fillColor.isSome (bb.tl.y + d.y) with
      | none =>
        cases h2 : TriIntersections.new t.sortedClockwise style.strokeWidth
            style.strokeAlignment.toOffset style.fillColor.isSome bb.tl.y with
        | none => trivial
        | some x => rw [h1, h2] at hnew; exact hnew.elim
      | some x' =>
        cases h2 : TriIntersections.new t.sortedClockwise style.strokeWidth
            style.strokeAlignment.toOffset style.fillColor.isSome bb.tl.y with
        | none => rw [h1, h2] at hnew; exact hnew.elim
        | some x =>
          rw [h1, h2] at hnew
          simp only [Option.bind_eq_bind, Option.bind_some, pure]
          exact TriScanlines.toList_moved
            ⟨by show bb.tl.y + d.y + 1 = bb.tl.y + 1 + d.y; omega, rfl, hnew⟩
    · have hr' : ¬ bb.tl.y + d.y < bb.rowsEnd + d.y := by omega
      simp only [hr, hr', ↓reduceIte, Option.bind_some, TriScanlines.empty_toList]
      exact rfl

/-- The `fill_solid` call of one typed scanline (if any). -/
def triCall (style : TriStyle) (x : Scanline × PointType) : Option (Rect × Nat) :=
  match style.colorOf x.2 with
  | some color =>
    let rect := x.1.toRectangle
    if !rect.isZeroSized then some (rect, color) else none
  | none => none

/-- A `fill_solid` call moved by `d`. -/
def shiftCall (c : Rect × Nat) (d : Pt) : Rect × Nat := (c.1.translate d, c.2)

theorem triCall_shift (style : TriStyle) (x : Scanline × PointType) (d : Pt) :
    triCall style (shiftTyped x d) = (triCall style x).map (shiftCall · d) := by
  unfold triCall shiftTyped
  simp only [toRectangle_shiftS, Rect.isZeroSized_translate]
  cases style.colorOf x.2 with
  | none => rfl
  | some c =>
    simp only []
    by_cases h : (!x.1.toRectangle.isZeroSized) = true
    · simp only [h, ↓reduceIte, Option.map_some, shiftCall]
    · simp only [h, Bool.false_eq_true, ↓reduceIte, Option.map_none]

theorem filterMap_triCall_shift (style : TriStyle) (l : List (Scanline × PointType)) (d : Pt) :
    (l.map (shiftTyped · d)).filterMap (triCall style) =
      (l.filterMap (triCall style)).map (shiftCall · d) := by
  induction l with
  | nil => rfl
  | cons x rest ih =>
    simp only [List.map_cons, List.filterMap_cons, triCall_shift]
    cases triCall style x with
    | none => simp only [Option.map_none, ih]
    | some c => simp only [Option.map_some, List.map_cons, ih]

theorem triDraw_eq (t : Tri) (style : TriStyle) :
    triDraw t style =
      if style.isTransparent then some []
      else ((triScanlines t style).bind TriScanlines.toList).map (·.filterMap (triCall style)) := by
  unfold triDraw
  split
  · rfl
  · cases triScanlines t style with
    | none => rfl
    | some it =>
      simp only [Option.bind_eq_bind, Option.bind_some]
      cases it.toList with
      | none => rfl
      | some l => rfl

/-- **`draw` of a moved styled triangle issues the moved `fill_solid` calls, in the same order and
with the same colours.** -/
theorem triDraw_translate (t : Tri) (style : TriStyle) (d : Pt) (hg : TriGuards t style d) :
    triDraw (t.translate d) style = (triDraw t style).map (·.map (shiftCall · d)) := by
  rw [triDraw_eq, triDraw_eq]
  split
  · rfl
  · have h := triScanlineList_moved t style d hg
    cases h1 : (triScanlines (t.translate d) style).bind TriScanlines.toList with
    | none =>
      cases h2 : (triScanlines t style).bind TriScanlines.toList with
      | none => rfl
      | some l => rw [h1, h2] at h; exact h.elim
    | some l' =>
      cases h2 : (triScanlines t style).bind TriScanlines.toList with
      | none => rw [h1, h2] at h; exact h.elim
      | some l =>
        rw [h1, h2] at h
        have h' : l' = l.map (shiftTyped · d) := h
        subst h'
        simp only [Option.map_some, filterMap_triCall_shift]

end Joins
end EG
