/-
  EG.Lemmas.RawIter — `RawDataIterator`: state machine vs closed form.
  `rest it` = what is still to come = `[load index, load (index+1), ..]` up to the pixel count;
  one-step lemmas for `next`, lifted to `toList` by induction on the fuel; `nth`; `size_hint`.
-/
import EG.Lemmas.RawLoadStore
namespace EG.Raw

/-- Number of whole pixels in the iterator's data. -/
def Iter.count (it : Iter) : Nat := pixelCount it.bits it.data.length

/-- Closed form of what the iterator still yields (as `Option`s: all of them are `some`). -/
def Iter.rest (it : Iter) : List (Option Nat) :=
  (List.range' it.index (it.count - it.index)).map (load it.bits it.order it.data)

/-- The slice is small enough for its pixel count to fit `usize` (every real slice of less than
2^61 bytes): the guard under which the saturating operations of `nth` / `size_hint` are exact. -/
def Iter.Fits (it : Iter) : Prop := it.data.length * 8 ≤ usizeMax
instance (it : Iter) : Decidable it.Fits := by unfold Iter.Fits; exact inferInstance

theorem pixelCount_le {bits : Nat} (hb : validBits bits = true) (len : Nat) :
    pixelCount bits len ≤ len * 8 := by
  simp only [validBits, Bool.or_eq_true, beq_iff_eq] at hb
  unfold pixelCount
  rcases hb with (((((rfl | rfl) | rfl) | rfl) | rfl) | rfl) | rfl <;>
    simp only [Nat.reduceLT, ↓reduceIte, Nat.reduceDiv, Nat.lt_irrefl] <;> omega

theorem Iter.next_of_inside {it : Iter} (hb : validBits it.bits = true) (h : it.index < it.count) :
    ∃ v, load it.bits it.order it.data it.index = some v ∧
      it.next = (some v, { it with index := it.index + 1 }) := by
  obtain ⟨v, hv⟩ := load_inside hb it.order it.data it.index h
  exact ⟨v, hv, by simp only [Iter.next, hv]⟩

theorem Iter.next_of_outside {it : Iter} (hb : validBits it.bits = true) (h : it.count ≤ it.index) :
    it.next = (none, it) := by
  simp only [Iter.next, load_outside hb it.order it.data it.index h]

theorem Iter.rest_of_inside {it : Iter} (h : it.index < it.count) :
    it.rest = load it.bits it.order it.data it.index
      :: Iter.rest { it with index := it.index + 1 } := by
  unfold Iter.rest Iter.count
  unfold Iter.count at h
  have : pixelCount it.bits it.data.length - it.index
      = (pixelCount it.bits it.data.length - (it.index + 1)) + 1 := by omega
  rw [this, List.range'_succ]
  simp only [List.map_cons]

theorem Iter.rest_of_outside {it : Iter} (h : it.count ≤ it.index) : it.rest = [] := by
  unfold Iter.rest
  have : it.count - it.index = 0 := by omega
  rw [this]; rfl

theorem Iter.toListFuel_eq (fuel : Nat) (it : Iter) (hb : validBits it.bits = true)
    (hf : it.count - it.index < fuel) : (it.toListFuel fuel).map some = it.rest := by
  induction fuel generalizing it with
  | zero => omega
  | succ f ih =>
    by_cases hin : it.index < it.count
    · obtain ⟨v, hv, hn⟩ := Iter.next_of_inside hb hin
      rw [Iter.rest_of_inside hin, hv]
      simp only [Iter.toListFuel, hn, List.map_cons]
      congr 1
      apply ih
      · exact hb
      · show pixelCount it.bits it.data.length - (it.index + 1) < f
        unfold Iter.count at hf hin
        omega
    · rw [Iter.rest_of_outside (by omega)]
      simp only [Iter.toListFuel, Iter.next_of_outside hb (by omega : it.count ≤ it.index), List.map_nil]

theorem Iter.toList_eq_rest (it : Iter) (hb : validBits it.bits = true) :
    it.toList.map some = it.rest := by
  apply Iter.toListFuel_eq _ _ hb
  have := pixelCount_le hb it.data.length
  unfold Iter.count
  omega

theorem Iter.rest_length (it : Iter) : it.rest.length = it.count - it.index := by
  simp [Iter.rest]

theorem Iter.toList_length (it : Iter) (hb : validBits it.bits = true) :
    it.toList.length = it.count - it.index := by
  rw [← Iter.rest_length, ← Iter.toList_eq_rest it hb, List.length_map]

theorem Iter.toList_getElem? (it : Iter) (hb : validBits it.bits = true) (k : Nat) :
    it.toList[k]? = load it.bits it.order it.data (it.index + k) := by
  have h1 : (it.toList.map some)[k]? = it.rest[k]? := by rw [Iter.toList_eq_rest it hb]
  by_cases hk : k < it.count - it.index
  · have h2 : it.rest[k]? = some (load it.bits it.order it.data (it.index + k)) := by
      unfold Iter.rest
      rw [List.getElem?_map, List.getElem?_range' hk]
      simp
    rw [h2, List.getElem?_map] at h1
    cases hx : it.toList[k]? with
    | none => rw [hx] at h1; cases h1
    | some x => rw [hx] at h1; simp only [Option.map_some, Option.some.injEq] at h1; exact h1
  · rw [List.getElem?_eq_none (by rw [Iter.toList_length it hb]; omega)]
    exact (load_outside hb _ _ _ (by unfold Iter.count at hk; omega)).symm

theorem Iter.next_fst (it : Iter) : it.next.1 = load it.bits it.order it.data it.index := by
  unfold Iter.next
  split <;> rename_i hl <;> simp only [hl]

theorem Iter.next_snd_getElem? (it : Iter) (hb : validBits it.bits = true) (m : Nat) :
    it.next.2.toList[m]? = load it.bits it.order it.data (it.index + 1 + m) := by
  by_cases hin : it.index < it.count
  · obtain ⟨v, _, hn⟩ := Iter.next_of_inside hb hin
    rw [hn]
    exact Iter.toList_getElem? ⟨it.bits, it.order, it.data, it.index + 1⟩ hb m
  · rw [Iter.next_of_outside hb (by omega)]
    show it.toList[m]? = _
    unfold Iter.count at hin
    rw [Iter.toList_getElem? it hb, load_outside hb _ _ _ (by omega),
      load_outside hb _ _ _ (by omega)]

/-- Saturation of the index is invisible: beyond `usize::MAX` there is no pixel. -/
theorem Iter.load_sat (it : Iter) (hb : validBits it.bits = true) (hf : it.Fits) (k m : Nat) :
    load it.bits it.order it.data (satAddUsize it.index k + m)
      = load it.bits it.order it.data (it.index + k + m) := by
  have hc := pixelCount_le hb it.data.length
  unfold Iter.Fits at hf
  unfold satAddUsize
  split
  · rfl
  · rw [load_outside hb _ _ _ (by omega), load_outside hb _ _ _ (by omega)]

/-- `nth(k)` returns item `index + k`. -/
theorem Iter.nth_fst (it : Iter) (hb : validBits it.bits = true) (hf : it.Fits) (k : Nat) :
    (it.nth k).1 = load it.bits it.order it.data (it.index + k) := by
  unfold Iter.nth
  rw [Iter.next_fst]
  exact Iter.load_sat it hb hf k 0

/-- The state after `nth(k)`: everything up to and including item `index + k` is consumed. -/
theorem Iter.nth_snd_toList (it : Iter) (hb : validBits it.bits = true) (hf : it.Fits) (k : Nat) :
    (it.nth k).2.toList = it.toList.drop (k + 1) := by
  apply List.ext_getElem?
  intro m
  rw [List.getElem?_drop, Iter.toList_getElem? it hb]
  unfold Iter.nth
  have h := Iter.next_snd_getElem? ⟨it.bits, it.order, it.data, satAddUsize it.index k⟩ hb m
  refine h.trans ?_
  show load it.bits it.order it.data (satAddUsize it.index k + 1 + m) = _
  rw [Nat.add_assoc, Iter.load_sat it hb hf k (1 + m)]
  congr 1
  omega

theorem Iter.sizeHint_eq (it : Iter) (hf : it.Fits) :
    it.sizeHint = (it.count - it.index, some (it.count - it.index)) := by
  unfold Iter.Fits at hf
  unfold Iter.sizeHint Iter.count pixelCount satMulUsize
  have h8 : 8 / it.bits ≤ 8 := Nat.div_le_self _ _
  have : it.data.length * (8 / it.bits) ≤ usizeMax :=
    Nat.le_trans (Nat.mul_le_mul_left _ h8) hf
  simp only [this, ↓reduceIte]

end EG.Raw
