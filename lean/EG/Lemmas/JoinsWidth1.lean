/-
  EG.Lemmas.JoinsWidth1 — stroke width 1 (centre alignment): the join code collapses to the thin
  edge lines.
  * `Line::extents(1, StrokeOffset::None)` returns the line itself twice;
  * every corner of `LineJoin::from_points(a, m, b, 1, None)` is `m`, whatever the kind
    (the two edge pairs meet exactly in `m`; no rounding, no miter limit);
  * hence a segment between two such joins is a skeleton segment whose scanline is the Bresenham
    intersection of the plain edge `Line(m1, m2)`.
  This is the reading of the join code that the one-pixel triangle outline (C19) relies on.
-/
import EG.Lemmas.ThickWidth1
import EG.Lemmas.JoinsTranslate
import EG.Lemmas.JoinsBox
import EG.Model.ThickTriangle
set_option linter.unusedSimpArgs false
namespace EG
namespace Joins
open Thick (LineSide StrokeOffset ParallelsIterator ParallelLineType extentsLoop)

theorem line_rebuild (l : Line) : (⟨l.start, l.start + (l.stop - l.start) - Pt.zero⟩ : Line) = l := by
  obtain ⟨s, e⟩ := l
  simp only [Line.mk.injEq, true_and, Pt.ext_iff', Pt.add_x, Pt.add_y, Pt.sub_x, Pt.sub_y, Pt.zero]
  constructor <;> omega

/-- `Line::extents(1, StrokeOffset::None)`: both edge lines are the line itself. -/
theorem extents_width1_none (l : Line) : extents l 1 .none = some (l, l) := by
  obtain ⟨iter, hnew, hr, hre, hs, hso, hpp, hperp, hacc, hthr⟩ := Thick.new_any l 1
  have hD := Thick.dmaj_paramLine_pos l
  have hd0 := Line.dmin_nonneg (Thick.paramLine l)
  have hdD := Line.dmin_le_dmaj (Thick.paramLine l)
  have hmin : iter.perpendicularParameters.errorStep.minor = 2 * Line.dmaj (Thick.paramLine l) := by
    rw [hperp, Line.params_new, Thick.dmaj_perpendicular]
  have hpthr : 0 < iter.perpendicularParameters.errorThreshold := by
    rw [hperp, Line.params_new, Thick.dmaj_perpendicular]; exact hD
  obtain ⟨ha1, ha2⟩ := Thick.width1_arith (Line.dmaj (Thick.paramLine l)) (Line.dmin (Thick.paramLine l)) _
    hd0 hdD hD (Thick.dmaj_dmin_squares (Thick.paramLine l)).symm
  obtain ⟨it1, hn1, _, e2, e3⟩ := Thick.next_first iter l.start hr hre hs hso hpthr
    (by rw [hacc, hthr]; exact ha1)
  have hn2 : it1.next = some (none, it1) :=
    Thick.next_done it1 (by rw [e3, e2, hacc, hthr, hmin]; exact ha2)
  have hloop : extentsLoop (2 * 1 + 4) iter (l.start, ParallelLineType.normal)
      (l.start, ParallelLineType.normal) =
      some ((l.start, ParallelLineType.normal), (l.start, ParallelLineType.normal)) := by
    show extentsLoop 6 iter _ _ = _
    unfold extentsLoop
    rw [hn1]
    simp only []
    rw [hn2]
  have hone : satAsI32 1 = 1 := by decide
  unfold extents
  rw [hone, hnew]
  simp only [Option.bind_eq_bind, Option.bind_some, hloop, pure, line_rebuild]

/-! ### The two edge pairs of a width-1 join meet exactly in the middle vertex -/

theorem roundDivRaw_mul (m d : Int) (hd : d ≠ 0) : roundDivRaw (m * d) d = m := by
  have h := roundDivRaw_translate 0 d m hd
  rw [Int.zero_add] at h
  rw [h]
  have h0 : roundDivRaw 0 d = 0 := by
    unfold roundDivRaw isignum iabs
    by_cases hn : d < 0
    · simp only [hn, ↓reduceIte]
      rw [Int.ediv_eq_zero_of_lt] <;> omega
    · have h0 : ¬ d = 0 := hd
      simp only [hn, h0, ↓reduceIte]
      rw [Int.ediv_eq_zero_of_lt] <;> omega
  omega

theorem roundDiv_mul (m d : Int) (hd : d ≠ 0) (hm : inI32 m) : roundDiv (m * d) d = m := by
  rw [roundDiv_eq, roundDivRaw_mul m d hd, satI32_of_inI32 hm]

/-- The numerators of the intersection of `Line(m, b)` with `Line(a, m)`: `m` times the denominator. -/
theorem xNumerator_through (a m b : Pt) :
    (IntersectionParams.fromLines ⟨m, b⟩ ⟨a, m⟩).xNumerator =
      m.x * (IntersectionParams.fromLines ⟨m, b⟩ ⟨a, m⟩).denominator := by
  unfold IntersectionParams.xNumerator IntersectionParams.fromLines LinearEquation.fromLine
  simp only [det, dot, rotate90, Line.delta, Pt.sub_x, Pt.sub_y]
  ring

theorem yNumerator_through (a m b : Pt) :
    (IntersectionParams.fromLines ⟨m, b⟩ ⟨a, m⟩).yNumerator =
      m.y * (IntersectionParams.fromLines ⟨m, b⟩ ⟨a, m⟩).denominator := by
  unfold IntersectionParams.yNumerator IntersectionParams.fromLines LinearEquation.fromLine
  simp only [det, dot, rotate90, Line.delta, Pt.sub_x, Pt.sub_y]
  ring

/-- `intersection()` of `Line(m, b)` and `Line(a, m)` is `m` exactly (or the lines are colinear). -/
theorem intersection_through (a m b : Pt) (hx : inI32 m.x) (hy : inI32 m.y) :
    (IntersectionParams.fromLines ⟨m, b⟩ ⟨a, m⟩).intersection = .colinear ∨
    ∃ side, (IntersectionParams.fromLines ⟨m, b⟩ ⟨a, m⟩).intersection = .point m side := by
  unfold IntersectionParams.intersection
  by_cases hd : (IntersectionParams.fromLines ⟨m, b⟩ ⟨a, m⟩).denominator = 0
  · left; simp only [hd, ↓reduceIte]
  · right
    simp only [hd, ↓reduceIte]
    rw [xNumerator_through, yNumerator_through, roundDiv_mul _ _ hd hx, roundDiv_mul _ _ hd hy]
    exact ⟨_, rfl⟩

/-- The private `intersections` for a width-1 join: nothing (colinear) or `(m, side, m)`. -/
theorem intersections_width1 (a m b : Pt) (hx : inI32 m.x) (hy : inI32 m.y) :
    intersections ⟨a, m⟩ ⟨a, m⟩ ⟨m, b⟩ ⟨m, b⟩ = none ∨
    ∃ side, intersections ⟨a, m⟩ ⟨a, m⟩ ⟨m, b⟩ ⟨m, b⟩ = some (m, side, m) := by
  unfold intersections
  rcases intersection_through a m b hx hy with h | ⟨side, h⟩
  · left; simp only [h]
  · right
    refine ⟨side, ?_⟩
    simp only [h]
    cases (IntersectionParams.fromLines ⟨m, b⟩ ⟨a, m⟩).nearlyColinearHasError <;> rfl

/-- Both corner pairs of `from_points(a, m, b, 1, None)` are `(m, m)`, for every join kind. -/
theorem fromExtents_width1_corners (a m b : Pt) (hx : inI32 m.x) (hy : inI32 m.y) :
    (LineJoin.fromExtents m 1 ⟨a, m⟩ ⟨a, m⟩ ⟨m, b⟩ ⟨m, b⟩).firstEdgeEnd = ⟨m, m⟩ ∧
    (LineJoin.fromExtents m 1 ⟨a, m⟩ ⟨a, m⟩ ⟨m, b⟩ ⟨m, b⟩).secondEdgeStart = ⟨m, m⟩ := by
  unfold LineJoin.fromExtents
  rcases intersections_width1 a m b hx hy with h | ⟨side, h⟩
  · rw [h]; exact ⟨rfl, rfl⟩
  · rw [h]
    simp only []
    cases side with
    | left =>
      simp only []
      cases (LinearEquation.fromLine (⟨a, m⟩ : Line)).checkSide b LineSide.left
      · simp only [Bool.not_false, ↓reduceIte]
        split <;> exact ⟨rfl, rfl⟩
      · exact ⟨rfl, rfl⟩
    | right =>
      simp only []
      cases (LinearEquation.fromLine (⟨a, m⟩ : Line)).checkSide b LineSide.right
      · simp only [Bool.not_false, ↓reduceIte]
        split <;> exact ⟨rfl, rfl⟩
      · exact ⟨rfl, rfl⟩

/-- `LineJoin::from_points(a, m, b, 1, StrokeOffset::None)` always exists and all its corners are `m`. -/
theorem fromPoints_width1 (a m b : Pt) (hx : inI32 m.x) (hy : inI32 m.y) :
    ∃ j, LineJoin.fromPoints a m b 1 .none = some j ∧
      j.firstEdgeEnd = ⟨m, m⟩ ∧ j.secondEdgeStart = ⟨m, m⟩ := by
  unfold LineJoin.fromPoints
  rw [extents_width1_none, extents_width1_none]
  simp only [Option.bind_eq_bind, Option.bind_some, pure]
  exact ⟨_, rfl, fromExtents_width1_corners a m b hx hy⟩

/-- **A one-pixel segment is the thin edge line**: the thick segment between the joins at `m1` and
`m2` (width 1, centre alignment) is a skeleton segment, and its scanline in any row is the
Bresenham intersection of `Line(m1, m2)`. -/
theorem segment_width1 (a m1 m2 b : Pt) (h1x : inI32 m1.x) (h1y : inI32 m1.y) (h2x : inI32 m2.x)
    (h2y : inI32 m2.y) :
    ∃ j1 j2, LineJoin.fromPoints a m1 m2 1 .none = some j1 ∧
      LineJoin.fromPoints m1 m2 b 1 .none = some j2 ∧
      (ThickSegment.mk j1 j2).isSkeleton = true ∧
      ∀ y, (ThickSegment.mk j1 j2).intersection y = bint (Scanline.newEmpty y) ⟨m1, m2⟩ := by
  obtain ⟨j1, e1, c1, c1'⟩ := fromPoints_width1 a m1 m2 h1x h1y
  obtain ⟨j2, e2, c2, _⟩ := fromPoints_width1 m1 m2 b h2x h2y
  have hs : (ThickSegment.mk j1 j2).isSkeleton = true := by
    unfold ThickSegment.isSkeleton; simp only [c1]; exact beq_self_eq_true m1
  refine ⟨j1, j2, e1, e2, hs, ?_⟩
  intro y
  rw [intersection_skeleton _ hs]
  unfold ThickSegment.edges
  simp only [c1', c2]

end Joins
end EG
