/-
  EG.Lemmas.ThickGeoDiscountMetric — `thickPoints_discount` (EG.Lemmas.ThickGeoDiscount) in the
  oracle's metrics `cross`, `L2` (EG.Lemmas.ThickGeoMetric), with the oracle's choice of side:
  the pixels with `cross < 0` are discounted by the skipped steps of the LEFT side, the others by
  those of the RIGHT side (header of harness/src/m_thick.rs, class
  `C17:thick-band:wide-stroke-overcount`).
-/
import EG.Lemmas.ThickGeoDiscount
import EG.Lemmas.ThickGeoMetric
import EG.Lemmas.ThickGeoBandMetric
set_option linter.unusedSimpArgs false
namespace EG.C17.Stroke
open EG

/-- The first step of the perpendicular walk to the left lies on the side `cross < 0`. -/
theorem cross_M'_neg (l : Line) : cross l (l.start + (Thick.ctxOf l).M') < 0 := by
  obtain ⟨hx, hy⟩ := strokeDir_eq l
  have hne : Line.dxOf (Thick.paramLine l) ≠ 0 ∨ Line.dyOf (Thick.paramLine l) ≠ 0 := by
    by_contra hc
    apply Thick.paramLine_nondeg l
    rw [Pt.ext_iff']
    unfold Line.dxOf Line.dyOf at hc
    omega
  have hpx := Thick.dxOf_perpendicular (Thick.paramLine l)
  have hpy := Thick.dyOf_perpendicular (Thick.paramLine l)
  unfold cross
  rw [hx, hy]
  simp only [Pt.add_x, Pt.add_y]
  show _ * (l.start.y + (Line.pmaj (Thick.paramLine l).perpendicular).y - l.start.y) -
    _ * (l.start.x + (Line.pmaj (Thick.paramLine l).perpendicular).x - l.start.x) < 0
  unfold Line.pmaj
  by_cases h2 : Line.yMajor (Thick.paramLine l).perpendicular <;>
    simp only [h2, ↓reduceIte, hpx, hpy] <;>
    unfold Line.yMajor at h2 <;> rw [hpx, hpy] at h2 <;>
    rcases Thick.sgn_abs_cases (Line.dxOf (Thick.paramLine l)) with
      ⟨a0, a1, a2, a3, a4⟩ | ⟨a0, a1, a2, a3, a4⟩ | ⟨a0, a1, a2, a3, a4⟩ <;>
    rcases Thick.sgn_abs_cases (Line.dyOf (Thick.paramLine l)) with
      ⟨b0, b1, b2, b3, b4⟩ | ⟨b0, b1, b2, b3, b4⟩ | ⟨b0, b1, b2, b3, b4⟩ <;>
    simp only [a1, a2, a3, a4, b1, b2, b3, b4] at h2 ⊢ <;> omega

/-- The band form and the cross product, with the orientation of the left side fixed: left bands
(`tau n`, `n > 0`) are on the side `cross < 0`. -/
theorem tau_cross (l : Line) :
    ((Thick.ctxOf l).ph (Thick.ctxOf l).M' = 2 * (Thick.ctxOf l).D ∧
      ∀ p, (Thick.ctxOf l).ph p - (Thick.ctxOf l).ph l.start = -(2 * cross l p)) ∨
    ((Thick.ctxOf l).ph (Thick.ctxOf l).M' = -(2 * (Thick.ctxOf l).D) ∧
      ∀ p, (Thick.ctxOf l).ph p - (Thick.ctxOf l).ph l.start = 2 * cross l p) := by
  have hD := (Thick.ctxOf_valid l).hD
  have hneg := cross_M'_neg l
  have hadd : (Thick.ctxOf l).ph (l.start + (Thick.ctxOf l).M') - (Thick.ctxOf l).ph l.start =
      (Thick.ctxOf l).ph (Thick.ctxOf l).M' := by rw [Thick.StrokeCtx.ph_add]; omega
  rcases ph_cross_uniform l with hu | hu <;>
    rcases Thick.tau_cases (Thick.frameOK_ctxOf l) with ht | ht
  · have := hu (l.start + (Thick.ctxOf l).M'); omega
  · exact Or.inr ⟨ht, hu⟩
  · exact Or.inl ⟨ht, hu⟩
  · have := hu (l.start + (Thick.ctxOf l).M'); omega

/-- `skL` / `skR` are the total numbers of `Extra` perpendicular steps that the
`ParallelsIterator` of the stroke skips on the left / right side (`Thick.skipTotals`, the counters
of the harness port `joins_port::skipped_extras`). -/
def SkippedSteps (l : Line) (w : Nat) (skL skR : Nat) : Prop :=
  ∃ it f, Thick.ParallelsIterator.new l (satAsI32 w) .none = some it ∧
    Thick.skipTotals f it = some (skL, skR)

theorem skippedSteps_unique (l : Line) (w : Nat) (a b a' b' : Nat) (h : SkippedSteps l w a b)
    (h' : SkippedSteps l w a' b') : a = a' ∧ b = b' := by
  obtain ⟨it, f, h1, h2⟩ := h
  obtain ⟨it', f', h1', h2'⟩ := h'
  rw [h1] at h1'
  simp only [Option.some.injEq] at h1'
  subst h1'
  have := Thick.skipTotals_unique f f' it _ _ h2 h2'
  simpa using this

/-- The oracle's discounted reach of a pixel:
`t = 2 |cross(p)| - 2 min(|dx|,|dy|) sk(side(p))`, left side = `cross < 0`. -/
def discountedReach (l : Line) (skL skR : Nat) (p : Pt) : Int :=
  2 * ((cross l p).natAbs : Int) - 2 * minorLen l * (if cross l p < 0 then (skL : Int) else (skR : Int))

/-- **The reach of a stroke with the skipped steps discounted, in the oracle's metric.** -/
theorem discount_cross (l : Line) (w : Nat) (hw2 : w ≤ 2147483647) (ps : List Pt)
    (h : Thick.thickPoints l w = some ps) :
    ∃ skL skR, SkippedSteps l w skL skR ∧ ∀ p ∈ ps, ∃ A : Int, 0 ≤ A ∧
      A * A ≤ (2 * (w : Int)) ^ 2 * L2 l ∧
      2 * discountedReach l skL skR p ≤ A + 5 * majorLen l - minorLen l := by
  obtain ⟨it0, f, a, b, hnew, hst, hall⟩ := Thick.thickPoints_discount l w hw2 ps h
  refine ⟨a, b, ⟨it0, f, hnew, hst⟩, ?_⟩
  have hv := Thick.ctxOf_valid l
  have hD := hv.hD
  have hd0 := hv.hd0
  have hdD := hv.hdD
  intro p hp
  obtain ⟨n, A, hA0, hAT, b1, b2, h1, h2⟩ := hall p hp
  refine ⟨A, hA0, ?_, ?_⟩
  · rw [L2_eq]
    have : (2 * (w : Int)) ^ 2 = (w : Int) * 2 * ((w : Int) * 2) := by ring
    rw [this]; exact hAT
  · rw [majorLen_eq, minorLen_eq]
    unfold discountedReach
    rw [minorLen_eq]
    have hda : 0 ≤ (Thick.ctxOf l).d * (a : Int) := Int.mul_nonneg hd0 (by omega)
    have hdb : 0 ≤ (Thick.ctxOf l).d * (b : Int) := Int.mul_nonneg hd0 (by omega)
    have hpos : 0 < n → 2 * (Thick.ctxOf l).D ≤ 2 * (Thick.ctxOf l).D * n := by
      intro h0
      have := Int.mul_le_mul_of_nonneg_left (show 1 ≤ n by omega) (show 0 ≤ 2 * (Thick.ctxOf l).D by omega)
      omega
    have hnonpos : n ≤ 0 → 2 * (Thick.ctxOf l).D * n ≤ 0 := by
      intro h0
      have := Int.mul_le_mul_of_nonneg_left h0 (show 0 ≤ 2 * (Thick.ctxOf l).D by omega)
      omega
    have e1 : 2 * (Thick.ctxOf l).D * -n = -(2 * (Thick.ctxOf l).D * n) := by ring
    have e2 : -(2 * (Thick.ctxOf l).D) * n = -(2 * (Thick.ctxOf l).D * n) := by ring
    have e3 : 2 * (Thick.ctxOf l).d * (a : Int) = 2 * ((Thick.ctxOf l).d * (a : Int)) := by ring
    have e4 : 2 * (Thick.ctxOf l).d * (b : Int) = 2 * ((Thick.ctxOf l).d * (b : Int)) := by ring
    rw [e1] at h2
    rw [e3] at h1
    rw [e4] at h2
    rcases tau_cross l with ⟨ht, hu⟩ | ⟨ht, hu⟩
    · rw [hu p, ht] at b1 b2
      by_cases hc : cross l p < 0
      · simp only [hc, ↓reduceIte]
        rw [e3]
        by_cases h0 : 0 < n
        · have := h1 h0; have := hpos h0; omega
        · have := hnonpos (by omega); omega
      · simp only [hc, ↓reduceIte]
        rw [e4]
        by_cases h0 : 0 < n
        · have := hpos h0; omega
        · have := h2 (by omega); have := hnonpos (by omega); omega
    · rw [hu p, ht, e2] at b1 b2
      by_cases hc : cross l p < 0
      · simp only [hc, ↓reduceIte]
        rw [e3]
        by_cases h0 : 0 < n
        · have := h1 h0; have := hpos h0; omega
        · have := hnonpos (by omega); omega
      · simp only [hc, ↓reduceIte]
        rw [e4]
        by_cases h0 : 0 < n
        · have := hpos h0; omega
        · have := h2 (by omega); have := hnonpos (by omega); omega

/-- `2 t <= A + 5 D`, `A^2 <= (2 w)^2 L2`, `D^2 <= L2`: `t <= 0`, or `t` is within the band
`w/2 + 5/4`, hence within the oracle's attribution band `w/2 + 3/2` and the band `w/2 + 5/2` of the
property text. -/
theorem disc_band (t A D S w : Int) (hD : 0 ≤ D) (hS : D * D ≤ S) (hw : 0 ≤ w) (hA0 : 0 ≤ A)
    (hA : A * A ≤ (2 * w) ^ 2 * S) (h : 2 * t ≤ A + 5 * D) :
    t ≤ 0 ∨ (4 * t ^ 2 ≤ (2 * w + 5) ^ 2 * S ∧ t ^ 2 ≤ (w + 3) ^ 2 * S ∧ t ^ 2 ≤ (w + 5) ^ 2 * S) := by
  by_cases ht : t ≤ 0
  · exact Or.inl ht
  right
  have hS0 : 0 ≤ S := by nlinarith
  have h1 : A * A ≤ (2 * w) * (2 * w) * S := by
    have : (2 * w) ^ 2 = (2 * w) * (2 * w) := by ring
    rw [← this]; exact hA
  have h2 : (5 * D) * (5 * D) ≤ 5 * 5 * S := by nlinarith
  have h3 := Thick.sq_add_le A (5 * D) (2 * w) 5 S hA0 (by omega) (by omega) (by omega) hS0 h1 h2
  have h4 : (2 * t) * (2 * t) ≤ (A + 5 * D) * (A + 5 * D) :=
    Int.mul_le_mul h (by omega) (by omega) (by omega)
  have e1 : 4 * t ^ 2 = (2 * t) * (2 * t) := by ring
  have e2 : (2 * w + 5) ^ 2 * S = (2 * w + 5) * (2 * w + 5) * S := by ring
  have h5 : 4 * t ^ 2 ≤ (2 * w + 5) ^ 2 * S := by rw [e1, e2]; omega
  refine ⟨h5, ?_, ?_⟩
  · have h6 : (2 * w + 5) ^ 2 ≤ (2 * w + 6) ^ 2 := by nlinarith
    have h7 := Int.mul_le_mul_of_nonneg_right h6 hS0
    have e3 : (2 * w + 6) ^ 2 * S = 4 * ((w + 3) ^ 2 * S) := by ring
    omega
  · have h6 : (2 * w + 5) ^ 2 ≤ (2 * w + 10) ^ 2 := by nlinarith
    have h7 := Int.mul_le_mul_of_nonneg_right h6 hS0
    have e3 : (2 * w + 10) ^ 2 * S = 4 * ((w + 5) ^ 2 * S) := by ring
    omega

end EG.C17.Stroke
