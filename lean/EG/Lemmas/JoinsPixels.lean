/-
  EG.Lemmas.JoinsPixels — `pixels()` of stroked polylines under translation: the
  `StyledPixelsIterator` (`Thick` arm) of a polyline with moved vertices yields the moved pixel
  sequence; moved with the `translate` field likewise. Both sides run with the same step budget.
-/
import EG.Lemmas.JoinsTriMove
import EG.Lemmas.JoinsPolyline
set_option linter.unusedSimpArgs false
namespace EG
namespace Joins
open Thick (LineSide StrokeOffset)

/-! ### `Scanline::next` under `SR0` -/

theorem scanline_next_SR0 {d : Pt} {a' a : Scanline} (h : SR0 d a' a) :
    OptRel (fun (r' r : Pt × Scanline) => r'.1 = r.1 + d ∧ SR0 d r'.2 r.2) a'.next a.next := by
  unfold Scanline.next
  rcases h with ⟨h1, h2⟩ | h
  · have e1 : ¬ a'.xs < a'.xe := (isEmpty_iff a').mp h1
    have e2 : ¬ a.xs < a.xe := (isEmpty_iff a).mp h2
    simp only [e1, e2, ↓reduceIte]; trivial
  · subst h
    by_cases hlt : a.xs < a.xe
    · have hlt' : a.xs + d.x < a.xe + d.x := by omega
      simp only [shiftS, hlt, hlt', ↓reduceIte]
      refine ⟨rfl, Or.inr ?_⟩
      simp only [shiftS, Scanline.mk.injEq, true_and, and_true]; omega
    · have hlt' : ¬ a.xs + d.x < a.xe + d.x := by omega
      simp only [shiftS, hlt, hlt', ↓reduceIte]; trivial

/-! ### `ScanlineIterator::new` of the polyline with moved vertices -/

theorem PolyScanlines.new_moved (vs : List Pt) (w : Nat) (d : Pt) (hw : 0 < w) (hn : 2 ≤ vs.length)
    (hns : PolyNoSat w d vs) (hg : BoxGuard vs w d) (hrows : RowsGuard vs w d) :
    (∃ a b, PolyScanlines.new ⟨Pt.zero, vs.map (· + d)⟩ w = some a ∧
        PolyScanlines.new ⟨Pt.zero, vs⟩ w = some b ∧ PSR d a b) ∨
    (PolyScanlines.new ⟨Pt.zero, vs.map (· + d)⟩ w = some PolyScanlines.empty ∧
        PolyScanlines.new ⟨Pt.zero, vs⟩ w = some PolyScanlines.empty) ∨
    (PolyScanlines.new ⟨Pt.zero, vs.map (· + d)⟩ w = none ∧ PolyScanlines.new ⟨Pt.zero, vs⟩ w = none) := by
  unfold PolyScanlines.new
  rw [untranslatedBoundingBox_moved vs w d hw hn hns hg]
  unfold RowsGuard at hrows
  cases hb : untranslatedBoundingBox ⟨Pt.zero, vs⟩ w with
  | none => right; right; exact ⟨rfl, rfl⟩
  | some bb =>
    rw [hb] at hrows
    simp only [Option.map_some, Option.bind_eq_bind, Option.bind_some, hrows, Rect.translate_tl, Pt.add_y]
    by_cases hr : bb.tl.y < bb.rowsEnd
    · have hr' : bb.tl.y + d.y < bb.rowsEnd + d.y := by omega
      simp only [hr, hr', ↓reduceIte]
      have hnew := PolyIntersections.new_moved vs w bb.tl.y d hns
      cases h1 : PolyIntersections.new (vs.map (· + d)) w (bb.tl.y + d.y) with
      | none =>
        cases h2 : PolyIntersections.new vs w bb.tl.y with
        | none => right; right; exact ⟨rfl, rfl⟩
        | some x => rw [h1, h2] at hnew; exact hnew.elim
      | some x' =>
        cases h2 : PolyIntersections.new vs w bb.tl.y with
        | none => rw [h1, h2] at hnew; exact hnew.elim
        | some x =>
          rw [h1, h2] at hnew
          left
          exact ⟨_, _, rfl, rfl, by show bb.tl.y + d.y + 1 = bb.tl.y + 1 + d.y; omega, rfl, hnew⟩
    · have hr' : ¬ bb.tl.y + d.y < bb.rowsEnd + d.y := by omega
      rw [if_neg hr', if_neg hr]
      right; left; exact ⟨rfl, rfl⟩

/-! ### The pixel iterator -/

/-- Related pixel iterators of the polyline with moved vertices (`translate` is the same). -/
structure PPR (d : Pt) (it' it : PolyThickPixels) : Prop where
  scan : PSR d it'.scanlineIter it.scanlineIter
  line : SR0 d it'.lineIter it.lineIter
  tr : it'.translate = it.translate

theorem pt_add_add_comm (p d t : Pt) : p + d + t = p + t + d := by
  rw [Pt.ext_iff']; simp only [Pt.add_x, Pt.add_y]; omega

theorem PolyThickPixels.next_moved {d : Pt} {it' it : PolyThickPixels} (h : PPR d it' it) :
    OptRel (OptRel (fun (r' r : Pt × PolyThickPixels) => r'.1 = r.1 + d ∧ PPR d r'.2 r.2))
      it'.next it.next := by
  unfold PolyThickPixels.next
  have hl := scanline_next_SR0 h.line
  cases l' : it'.lineIter.next with
  | some x' =>
    cases l : it.lineIter.next with
    | none => rw [l', l] at hl; exact hl.elim
    | some x =>
      rw [l', l] at hl
      obtain ⟨p', li'⟩ := x'
      obtain ⟨p, li⟩ := x
      obtain ⟨hp, hli⟩ := hl
      simp only at hp hli
      subst hp
      simp only [h.tr]
      exact ⟨pt_add_add_comm _ _ _, h.scan, hli, rfl⟩
  | none =>
    cases l : it.lineIter.next with
    | some x => rw [l', l] at hl; exact hl.elim
    | none =>
      simp only []
      have hn := PolyScanlines.next_moved h.scan
      cases n' : it'.scanlineIter.next with
      | none =>
        cases n : it.scanlineIter.next with
        | none => trivial
        | some r => rw [n', n] at hn; exact hn.elim
      | some r' =>
        cases n : it.scanlineIter.next with
        | none => rw [n', n] at hn; exact hn.elim
        | some r =>
          rw [n', n] at hn
          simp only [Option.bind_eq_bind, Option.bind_some]
          cases r' with
          | none =>
            cases r with
            | none => trivial
            | some v => exact hn.elim
          | some v' =>
            cases r with
            | none => exact hn.elim
            | some v =>
              obtain ⟨li', si'⟩ := v'
              obtain ⟨li, si⟩ := v
              obtain ⟨hli, hsi⟩ := hn
              simp only at hli hsi
              subst hli
              simp only []
              have hl2 := scanline_next_SR0 (d := d) (Or.inr (rfl : shiftS li d = shiftS li d))
              cases m' : (shiftS li d).next with
              | none =>
                cases m : li.next with
                | none => trivial
                | some x => rw [m', m] at hl2; exact hl2.elim
              | some x' =>
                cases m : li.next with
                | none => rw [m', m] at hl2; exact hl2.elim
                | some x =>
                  rw [m', m] at hl2
                  obtain ⟨p', l2'⟩ := x'
                  obtain ⟨p, l2⟩ := x
                  obtain ⟨hp, hl3⟩ := hl2
                  simp only at hp hl3
                  subst hp
                  simp only [pure, h.tr]
                  exact ⟨pt_add_add_comm _ _ _, hsi, hl3, rfl⟩

theorem PolyThickPixels.toListFuel_moved {d : Pt} (fuel : Nat) {it' it : PolyThickPixels}
    (h : PPR d it' it) :
    OptRel (fun l' l => l' = l.map (· + d)) (it'.toListFuel fuel) (it.toListFuel fuel) := by
  induction fuel generalizing it' it with
  | zero => exact rfl
  | succ fuel ih =>
    unfold PolyThickPixels.toListFuel
    have hn := PolyThickPixels.next_moved h
    cases h1 : it'.next with
    | none =>
      cases h2 : it.next with
      | none => trivial
      | some r => rw [h1, h2] at hn; exact hn.elim
    | some r' =>
      cases h2 : it.next with
      | none => rw [h1, h2] at hn; exact hn.elim
      | some r =>
        rw [h1, h2] at hn
        cases r' with
        | none =>
          cases r with
          | none => exact rfl
          | some x => exact hn.elim
        | some x' =>
          cases r with
          | none => exact hn.elim
          | some x =>
            obtain ⟨p', it1'⟩ := x'
            obtain ⟨p, it1⟩ := x
            obtain ⟨hp, hpp⟩ := hn
            simp only at hp hpp
            subst hp
            simp only [Option.bind_eq_bind, Option.bind_some]
            have hrec := ih hpp
            cases h3 : PolyThickPixels.toListFuel fuel it1' with
            | none =>
              cases h4 : PolyThickPixels.toListFuel fuel it1 with
              | none => trivial
              | some l => rw [h3, h4] at hrec; exact hrec.elim
            | some l' =>
              cases h4 : PolyThickPixels.toListFuel fuel it1 with
              | none => rw [h3, h4] at hrec; exact hrec.elim
              | some l =>
                rw [h3, h4] at hrec
                have hrec' : l' = l.map (· + d) := hrec
                subst hrec'
                exact rfl

/-! ### `pixels()` of the polyline with moved vertices -/

theorem PolyScanlines.empty_next : PolyScanlines.empty.next = some none := by rfl

theorem PolyThickPixels.empty_toListFuel (fuel : Nat) (t : Pt) :
    PolyThickPixels.toListFuel fuel ⟨PolyScanlines.empty, Scanline.newEmpty 0, t⟩ = some [] := by
  cases fuel with
  | zero => rfl
  | succ fuel =>
    unfold PolyThickPixels.toListFuel PolyThickPixels.next
    simp only [Scanline.next, Scanline.newEmpty, Int.lt_irrefl, ↓reduceIte, PolyScanlines.empty_next,
      Option.bind_eq_bind, Option.bind_some, pure]

/-- `StyledPixelsIterator::new` (thick arm), both sides, as a disjunction of the three outcomes. -/
theorem PolyThickPixels.new_moved (vs : List Pt) (w : Nat) (d : Pt) (hw : 0 < w) (hn : 2 ≤ vs.length)
    (hns : PolyNoSat w d vs) (hg : BoxGuard vs w d) (hrows : RowsGuard vs w d) :
    (∃ a b, PolyThickPixels.new ⟨Pt.zero, vs.map (· + d)⟩ w = some a ∧
        PolyThickPixels.new ⟨Pt.zero, vs⟩ w = some b ∧ PPR d a b) ∨
    (PolyThickPixels.new ⟨Pt.zero, vs.map (· + d)⟩ w =
        some ⟨PolyScanlines.empty, Scanline.newEmpty 0, Pt.zero⟩ ∧
      PolyThickPixels.new ⟨Pt.zero, vs⟩ w = some ⟨PolyScanlines.empty, Scanline.newEmpty 0, Pt.zero⟩) ∨
    (PolyThickPixels.new ⟨Pt.zero, vs.map (· + d)⟩ w = none ∧ PolyThickPixels.new ⟨Pt.zero, vs⟩ w = none) := by
  unfold PolyThickPixels.new
  rcases PolyScanlines.new_moved vs w d hw hn hns hg hrows with ⟨a, b, ha, hb, hab⟩ | ⟨ha, hb⟩ | ⟨ha, hb⟩
  · rw [ha, hb]
    simp only [Option.bind_eq_bind, Option.bind_some]
    have hn := PolyScanlines.next_moved hab
    cases n' : a.next with
    | none =>
      cases n : b.next with
      | none => right; right; exact ⟨rfl, rfl⟩
      | some r => rw [n', n] at hn; exact hn.elim
    | some r' =>
      cases n : b.next with
      | none => rw [n', n] at hn; exact hn.elim
      | some r =>
        rw [n', n] at hn
        cases r' with
        | none =>
          cases r with
          | some v => exact hn.elim
          | none =>
            left
            exact ⟨_, _, rfl, rfl, hab, SR0_newEmpty d 0 0, rfl⟩
        | some v' =>
          cases r with
          | none => exact hn.elim
          | some v =>
            obtain ⟨li', si'⟩ := v'
            obtain ⟨li, si⟩ := v
            obtain ⟨hli, hsi⟩ := hn
            simp only at hli hsi
            left
            exact ⟨_, _, rfl, rfl, hsi, Or.inr hli, rfl⟩
  · rw [ha, hb]
    simp only [Option.bind_eq_bind, Option.bind_some, PolyScanlines.empty_next]
    right; left; exact ⟨rfl, rfl⟩
  · rw [ha, hb]
    right; right; exact ⟨rfl, rfl⟩

/-- The model's fuel for `pixels()` (total length of the scanline run) does not change when the
vertices are moved. -/
theorem polyPixelFuel_moved (vs : List Pt) (w : Nat) (d : Pt) (hw : 0 < w) (hn : 2 ≤ vs.length)
    (hns : PolyNoSat w d vs) (hg : BoxGuard vs w d) (hrows : RowsGuard vs w d) :
    polyPixelFuel ⟨Pt.zero, vs.map (· + d)⟩ w = polyPixelFuel ⟨Pt.zero, vs⟩ w := by
  have h := polyScanlineList_moved vs w d hw hn hns hg hrows
  have e1 : ∀ pl : Polyline, polyPixelFuel pl w =
      ((PolyScanlines.new pl w).bind PolyScanlines.toList).map
        (fun lines => (lines.map (fun s => (s.xe - s.xs).toNat)).sum + 1) := by
    intro pl
    unfold polyPixelFuel
    cases PolyScanlines.new pl w with
    | none => rfl
    | some si =>
      simp only [Option.bind_eq_bind, Option.bind_some]
      cases si.toList <;> rfl
  rw [e1, e1]
  cases h1 : (PolyScanlines.new ⟨Pt.zero, vs.map (· + d)⟩ w).bind PolyScanlines.toList with
  | none =>
    cases h2 : (PolyScanlines.new ⟨Pt.zero, vs⟩ w).bind PolyScanlines.toList with
    | none => rfl
    | some l => rw [h1, h2] at h; exact h.elim
  | some l' =>
    cases h2 : (PolyScanlines.new ⟨Pt.zero, vs⟩ w).bind PolyScanlines.toList with
    | none => rw [h1, h2] at h; exact h.elim
    | some l =>
      rw [h1, h2] at h
      have h' : l' = l.map (shiftS · d) := h
      subst h'
      simp only [Option.map_some, Option.some.injEq, List.map_map, Nat.add_right_cancel_iff]
      congr 1
      apply List.map_congr_left
      intro x _
      simp only [Function.comp, shiftS]
      congr 1
      omega

/-- **`pixels()` of a stroked polyline (width >= 2) with moved vertices is the moved pixel sequence**
(same pixels, same order). -/
theorem pixels_moved (vs : List Pt) (w : Nat) (d : Pt) (hw : 2 ≤ w) (hn : 2 ≤ vs.length)
    (hns : PolyNoSat w d vs) (hg : BoxGuard vs w d) (hrows : RowsGuard vs w d) :
    pixels ⟨Pt.zero, vs.map (· + d)⟩ w = (pixels ⟨Pt.zero, vs⟩ w).map (·.map (· + d)) := by
  obtain ⟨k, rfl⟩ : ∃ k, w = k + 2 := ⟨w - 2, by omega⟩
  unfold pixels
  simp only []
  rw [polyPixelFuel_moved vs (k + 2) d (by omega) hn hns hg hrows]
  cases hb : polyPixelFuel ⟨Pt.zero, vs⟩ (k + 2) with
  | none => rfl
  | some fuel =>
    simp only [Option.map_some, Option.bind_eq_bind, Option.bind_some]
    rcases PolyThickPixels.new_moved vs (k + 2) d (by omega) hn hns hg hrows with
      ⟨a, b, ha, hb', hab⟩ | ⟨ha, hb'⟩ | ⟨ha, hb'⟩
    · rw [ha, hb']
      simp only [Option.bind_some]
      have h := PolyThickPixels.toListFuel_moved fuel hab
      cases h1 : a.toListFuel fuel with
      | none =>
        cases h2 : b.toListFuel fuel with
        | none => rfl
        | some l => rw [h1, h2] at h; exact h.elim
      | some l' =>
        cases h2 : b.toListFuel fuel with
        | none => rw [h1, h2] at h; exact h.elim
        | some l =>
          rw [h1, h2] at h
          have h' : l' = l.map (· + d) := h
          rw [h']; rfl
    · rw [ha, hb']
      simp only [Option.bind_some, PolyThickPixels.empty_toListFuel, Option.map_some, List.map_nil]
    · rw [ha, hb']
      rfl

/-! ### `pixels()` of a polyline moved with its `translate` field -/

/-- The pixel iterator with another `translate`. -/
def PolyThickPixels.withTr (it : PolyThickPixels) (t : Pt) : PolyThickPixels := { it with translate := t }

theorem pt_zero_add_right (p t : Pt) : p + Pt.zero + t = p + t := by
  rw [Pt.ext_iff']; simp only [Pt.add_x, Pt.add_y, Pt.zero]; omega

theorem PolyThickPixels.next_withTr (it : PolyThickPixels) (t : Pt) (h0 : it.translate = Pt.zero) :
    (it.withTr t).next = it.next.map (·.map (fun r => (r.1 + t, r.2.withTr t))) ∧
    ∀ p it1, it.next = some (some (p, it1)) → it1.translate = Pt.zero := by
  unfold PolyThickPixels.next PolyThickPixels.withTr
  simp only [h0]
  cases it.lineIter.next with
  | some x =>
    simp only [Option.map_some, Option.some.injEq, Prod.mk.injEq]
    refine ⟨⟨(pt_zero_add_right _ _).symm, trivial⟩, ?_⟩
    intro p it1 h
    obtain ⟨_, rfl⟩ := h
    rfl
  | none =>
    simp only []
    cases it.scanlineIter.next with
    | none => exact ⟨rfl, fun _ _ h => by cases h⟩
    | some r =>
      cases r with
      | none => exact ⟨rfl, fun _ _ h => by cases h⟩
      | some v =>
        obtain ⟨li, si⟩ := v
        simp only [Option.bind_eq_bind, Option.bind_some]
        cases li.next with
        | none => exact ⟨rfl, fun _ _ h => by cases h⟩
        | some x =>
          simp only [pure, Option.map_some, Option.some.injEq, Prod.mk.injEq]
          refine ⟨⟨(pt_zero_add_right _ _).symm, trivial⟩, ?_⟩
          intro p it1 h
          obtain ⟨_, rfl⟩ := h
          rfl

theorem PolyThickPixels.toListFuel_withTr (fuel : Nat) (it : PolyThickPixels) (t : Pt)
    (h0 : it.translate = Pt.zero) :
    (it.withTr t).toListFuel fuel = (it.toListFuel fuel).map (·.map (· + t)) := by
  induction fuel generalizing it with
  | zero => rfl
  | succ fuel ih =>
    unfold PolyThickPixels.toListFuel
    obtain ⟨hn, hz⟩ := PolyThickPixels.next_withTr it t h0
    rw [hn]
    cases h1 : it.next with
    | none => rfl
    | some r =>
      cases r with
      | none => rfl
      | some x =>
        obtain ⟨p, it1⟩ := x
        simp only [Option.map_some, Option.bind_eq_bind, Option.bind_some, ih it1 (hz p it1 h1)]
        cases it1.toListFuel fuel with
        | none => rfl
        | some l => rfl

/-- **`pixels()` of a stroked polyline (width >= 2) moved with its `translate` field is the moved
pixel sequence.** -/
theorem pixels_translate_field (t : Pt) (vs : List Pt) (w : Nat) (hw : 2 ≤ w) (hn : 1 < vs.length) :
    pixels ⟨t, vs⟩ w = (pixels ⟨Pt.zero, vs⟩ w).map (·.map (· + t)) := by
  obtain ⟨k, rfl⟩ : ∃ k, w = k + 2 := ⟨w - 2, by omega⟩
  unfold pixels
  simp only []
  have hfuel : polyPixelFuel ⟨t, vs⟩ (k + 2) = polyPixelFuel ⟨Pt.zero, vs⟩ (k + 2) := by
    unfold polyPixelFuel PolyScanlines.new
    rw [untranslatedBoundingBox_field t vs (k + 2) (by omega) hn]
  rw [hfuel]
  cases polyPixelFuel ⟨Pt.zero, vs⟩ (k + 2) with
  | none => rfl
  | some bb =>
    simp only [Option.bind_eq_bind, Option.bind_some]
    have hnew : PolyThickPixels.new ⟨t, vs⟩ (k + 2) =
        (PolyThickPixels.new ⟨Pt.zero, vs⟩ (k + 2)).map (·.withTr t) ∧
        ∀ it, PolyThickPixels.new ⟨Pt.zero, vs⟩ (k + 2) = some it → it.translate = Pt.zero := by
      unfold PolyThickPixels.new PolyScanlines.new
      rw [untranslatedBoundingBox_field t vs (k + 2) (by omega) hn]
      generalize (do
        let bb ← untranslatedBoundingBox ⟨Pt.zero, vs⟩ (k + 2)
        let rowsStart := bb.tl.y
        let rowsEnd := bb.rowsEnd
        if rowsStart < rowsEnd then do
          let intersections ← PolyIntersections.new vs (k + 2) rowsStart
          pure (⟨rowsStart + 1, rowsEnd, rowsStart, intersections⟩ : PolyScanlines)
        else pure PolyScanlines.empty) = o
      cases o with
      | none => exact ⟨rfl, fun _ h => by cases h⟩
      | some si =>
        simp only [Option.bind_eq_bind, Option.bind_some]
        cases si.next with
        | none => exact ⟨rfl, fun _ h => by cases h⟩
        | some r =>
          cases r with
          | none =>
            simp only [Option.bind_some, pure, Option.map_some, Option.some.injEq]
            exact ⟨rfl, fun _ h => by rw [← h]⟩
          | some v =>
            simp only [Option.bind_some, pure, Option.map_some, Option.some.injEq]
            exact ⟨rfl, fun _ h => by rw [← h]⟩
    obtain ⟨h1, h2⟩ := hnew
    rw [h1]
    cases h3 : PolyThickPixels.new ⟨Pt.zero, vs⟩ (k + 2) with
    | none => rfl
    | some it =>
      simp only [Option.map_some, Option.bind_some]
      exact PolyThickPixels.toListFuel_withTr _ it t (h2 it h3)

/-! ### `pixels()` of a moved styled triangle -/

theorem triScanlines_moved (t : Tri) (style : TriStyle) (d : Pt) (hg : TriGuards t style d) :
    (∃ a b, triScanlines (t.translate d) style = some a ∧ triScanlines t style = some b ∧ TSR d a b) ∨
    (triScanlines (t.translate d) style = some TriScanlines.empty ∧
      triScanlines t style = some TriScanlines.empty) ∨
    (triScanlines (t.translate d) style = none ∧ triScanlines t style = none) := by
  unfold triScanlines
  rw [triStyledBoundingBox_translate t style d hg.ns hg.box]
  have hrows := hg.rows
  unfold TriRowsGuard at hrows
  cases hb : triStyledBoundingBox t style with
  | none => right; right; exact ⟨rfl, rfl⟩
  | some bb =>
    rw [hb] at hrows
    simp only [Option.map_some, Option.bind_eq_bind, Option.bind_some]
    unfold TriScanlines.new
    simp only [hrows, Rect.translate_tl, Pt.add_y, sortedClockwise_translate]
    by_cases hr : bb.tl.y < bb.rowsEnd
    · have hr' : bb.tl.y + d.y < bb.rowsEnd + d.y := by omega
      simp only [hr, hr', ↓reduceIte]
      have hnew := TriIntersections.new_moved t.sortedClockwise style.strokeWidth
        style.strokeAlignment.toOffset style.fillColor.isSome bb.tl.y d hg.ns
      cases h1 : TriIntersections.new (t.sortedClockwise.translate d) style.strokeWidth
          style.strokeAlignment.toOffset style.fillColor.isSome (bb.tl.y + d.y) with
      | none =>
        cases h2 : TriIntersections.new t.sortedClockwise style.strokeWidth
            style.strokeAlignment.toOffset style.fillColor.isSome bb.tl.y with
        | none => right; right; exact ⟨rfl, rfl⟩
        | some x => rw [h1, h2] at hnew; exact hnew.elim
      | some x' =>
        cases h2 : TriIntersections.new t.sortedClockwise style.strokeWidth
            style.strokeAlignment.toOffset style.fillColor.isSome bb.tl.y with
        | none => rw [h1, h2] at hnew; exact hnew.elim
        | some x =>
          rw [h1, h2] at hnew
          left
          exact ⟨_, _, rfl, rfl, by show bb.tl.y + d.y + 1 = bb.tl.y + 1 + d.y; omega, rfl, hnew⟩
    · have hr' : ¬ bb.tl.y + d.y < bb.rowsEnd + d.y := by omega
      rw [if_neg hr', if_neg hr]
      right; left; exact ⟨rfl, rfl⟩

/-- Related triangle pixel iterators. -/
structure TPR (d : Pt) (it' it : TriPixels) : Prop where
  lines : TSR d it'.linesIter it.linesIter
  cur : SR0 d it'.currentLine it.currentLine
  cc : it'.currentColor = it.currentColor
  fc : it'.fillColor = it.fillColor
  sc : it'.strokeColor = it.strokeColor

/-- A coloured pixel moved by `d`. -/
def shiftPx (r : Pt × Nat) (d : Pt) : Pt × Nat := (r.1 + d, r.2)

theorem TriPixels.nextFuel_moved {d : Pt} (fuel : Nat) {it' it : TriPixels} (h : TPR d it' it) :
    OptRel (OptRel (fun (r' r : (Pt × Nat) × TriPixels) => r'.1 = shiftPx r.1 d ∧ TPR d r'.2 r.2))
      (it'.nextFuel fuel) (it.nextFuel fuel) := by
  induction fuel generalizing it' it with
  | zero => trivial
  | succ fuel ih =>
    obtain ⟨li', cl', cc', fc', sc'⟩ := it'
    obtain ⟨li, cl, cc, fc, sc⟩ := it
    obtain ⟨hlines, hcur, hcc, hfc, hsc⟩ := h
    simp only at hlines hcur hcc hfc hsc
    subst hcc hfc hsc
    unfold TriPixels.nextFuel
    simp only []
    -- the branch that fetches the next scanline
    have hbranch : OptRel (OptRel (fun (r' r : (Pt × Nat) × TriPixels) => r'.1 = shiftPx r.1 d ∧ TPR d r'.2 r.2))
        (match li'.nextLoop with
          | none => none
          | some none => some none
          | some (some ((nextLine, nextType), l2)) =>
            TriPixels.nextFuel fuel
              { linesIter := l2, currentLine := nextLine
                currentColor := match nextType with
                  | .stroke => sc'
                  | .fill => fc'
                fillColor := fc', strokeColor := sc' })
        (match li.nextLoop with
          | none => none
          | some none => some none
          | some (some ((nextLine, nextType), l2)) =>
            TriPixels.nextFuel fuel
              { linesIter := l2, currentLine := nextLine
                currentColor := match nextType with
                  | .stroke => sc'
                  | .fill => fc'
                fillColor := fc', strokeColor := sc' }) := by
      have hn := TriScanlines.nextLoop_moved hlines
      cases n' : li'.nextLoop with
      | none =>
        cases n : li.nextLoop with
        | none => trivial
        | some r => rw [n', n] at hn; exact hn.elim
      | some r' =>
        cases n : li.nextLoop with
        | none => rw [n', n] at hn; exact hn.elim
        | some r =>
          rw [n', n] at hn
          cases r' with
          | none =>
            cases r with
            | none => trivial
            | some v => exact hn.elim
          | some v' =>
            cases r with
            | none => exact hn.elim
            | some v =>
              obtain ⟨⟨nl', nt'⟩, l2'⟩ := v'
              obtain ⟨⟨nl, nt⟩, l2⟩ := v
              obtain ⟨h1, h2, h3⟩ := hn
              simp only at h1 h2 h3
              subst h1 h2
              simp only []
              exact ih ⟨h3, Or.inr rfl, rfl, rfl, rfl⟩
    cases cc' with
    | none => exact hbranch
    | some color =>
      simp only []
      have hl := scanline_next_SR0 hcur
      cases l' : cl'.next with
      | none =>
        cases l : cl.next with
        | none => exact hbranch
        | some x => rw [l', l] at hl; exact hl.elim
      | some x' =>
        cases l : cl.next with
        | none => rw [l', l] at hl; exact hl.elim
        | some x =>
          rw [l', l] at hl
          obtain ⟨p', c'⟩ := x'
          obtain ⟨p, c⟩ := x
          obtain ⟨hp, hc⟩ := hl
          simp only at hp hc
          subst hp
          exact ⟨rfl, hlines, hc, rfl, rfl, rfl⟩

theorem TriPixels.next_moved {d : Pt} {it' it : TriPixels} (h : TPR d it' it) :
    OptRel (OptRel (fun (r' r : (Pt × Nat) × TriPixels) => r'.1 = shiftPx r.1 d ∧ TPR d r'.2 r.2))
      it'.next it.next := by
  unfold TriPixels.next
  rw [h.lines.rs, h.lines.re]
  have e : (it.linesIter.rowsEnd + d.y - (it.linesIter.rowsStart + d.y)).toNat =
      (it.linesIter.rowsEnd - it.linesIter.rowsStart).toNat := by congr 1; omega
  rw [e]
  exact TriPixels.nextFuel_moved _ h

theorem TriPixels.toListFuel_moved {d : Pt} (fuel : Nat) {it' it : TriPixels} (h : TPR d it' it) :
    OptRel (fun l' l => l' = l.map (shiftPx · d)) (it'.toListFuel fuel) (it.toListFuel fuel) := by
  induction fuel generalizing it' it with
  | zero => exact rfl
  | succ fuel ih =>
    unfold TriPixels.toListFuel
    have hn := TriPixels.next_moved h
    cases h1 : it'.next with
    | none =>
      cases h2 : it.next with
      | none => trivial
      | some r => rw [h1, h2] at hn; exact hn.elim
    | some r' =>
      cases h2 : it.next with
      | none => rw [h1, h2] at hn; exact hn.elim
      | some r =>
        rw [h1, h2] at hn
        cases r' with
        | none =>
          cases r with
          | none => exact rfl
          | some x => exact hn.elim
        | some x' =>
          cases r with
          | none => exact hn.elim
          | some x =>
            obtain ⟨p', it1'⟩ := x'
            obtain ⟨p, it1⟩ := x
            obtain ⟨hp, hpp⟩ := hn
            simp only at hp hpp
            subst hp
            simp only [Option.bind_eq_bind, Option.bind_some]
            have hrec := ih hpp
            cases h3 : TriPixels.toListFuel fuel it1' with
            | none =>
              cases h4 : TriPixels.toListFuel fuel it1 with
              | none => trivial
              | some l => rw [h3, h4] at hrec; exact hrec.elim
            | some l' =>
              cases h4 : TriPixels.toListFuel fuel it1 with
              | none => rw [h3, h4] at hrec; exact hrec.elim
              | some l =>
                rw [h3, h4] at hrec
                have hrec' : l' = l.map (shiftPx · d) := hrec
                subst hrec'
                exact rfl

theorem TriScanlines.empty_next : TriScanlines.empty.next = some (none, TriScanlines.empty) := by rfl

theorem TriScanlines.empty_nextLoop : TriScanlines.empty.nextLoop = some none := by rfl

/-- The pixel iterator built on the empty scanline iterator yields nothing. -/
theorem TriPixels.empty_toListFuel (fuel : Nat) (cc fc sc : Option Nat) :
    TriPixels.toListFuel fuel ⟨TriScanlines.empty, Scanline.newEmpty 0, cc, fc, sc⟩ = some [] := by
  cases fuel with
  | zero => rfl
  | succ fuel =>
    unfold TriPixels.toListFuel TriPixels.next
    have e : TriPixels.nextFuel (3 * ((TriScanlines.empty.rowsEnd - TriScanlines.empty.rowsStart).toNat + 1) + 2)
        ⟨TriScanlines.empty, Scanline.newEmpty 0, cc, fc, sc⟩ = some none := by
      show TriPixels.nextFuel 5 _ = _
      unfold TriPixels.nextFuel
      cases cc <;> simp [Scanline.next, Scanline.newEmpty, TriScanlines.empty_nextLoop]
    simp only [e, Option.bind_eq_bind, Option.bind_some, pure]

/-- `StyledPixelsIterator::new` of the triangle, both sides. -/
theorem TriPixels.new_moved (t : Tri) (style : TriStyle) (d : Pt) (hg : TriGuards t style d) :
    (∃ a b, TriPixels.new (t.translate d) style = some a ∧ TriPixels.new t style = some b ∧ TPR d a b) ∨
    (∃ cc, TriPixels.new (t.translate d) style =
        some ⟨TriScanlines.empty, Scanline.newEmpty 0, cc, style.fillColor, style.effectiveStrokeColor⟩ ∧
      TriPixels.new t style =
        some ⟨TriScanlines.empty, Scanline.newEmpty 0, cc, style.fillColor, style.effectiveStrokeColor⟩) ∨
    (TriPixels.new (t.translate d) style = none ∧ TriPixels.new t style = none) := by
  unfold TriPixels.new
  rcases triScanlines_moved t style d hg with ⟨a, b, ha, hb, hab⟩ | ⟨ha, hb⟩ | ⟨ha, hb⟩
  · rw [ha, hb]
    simp only [Option.bind_eq_bind, Option.bind_some]
    have hn := TriScanlines.next_moved hab
    cases n' : a.next with
    | none =>
      cases n : b.next with
      | none => right; right; exact ⟨rfl, rfl⟩
      | some r => rw [n', n] at hn; exact hn.elim
    | some r' =>
      cases n : b.next with
      | none => rw [n', n] at hn; exact hn.elim
      | some r =>
        rw [n', n] at hn
        obtain ⟨o', si'⟩ := r'
        obtain ⟨o, si⟩ := r
        obtain ⟨h0, h3⟩ := hn
        cases o' with
        | none =>
          cases o with
          | some v => exact h0.elim
          | none =>
            left
            exact ⟨_, _, rfl, rfl, h3, SR0_newEmpty d 0 0, rfl, rfl, rfl⟩
        | some v' =>
          cases o with
          | none => exact h0.elim
          | some v =>
            obtain ⟨l', ty'⟩ := v'
            obtain ⟨l, ty⟩ := v
            obtain ⟨h1, h2⟩ := h0
            simp only at h1 h2 h3
            subst h1 h2
            left
            exact ⟨_, _, rfl, rfl, h3, Or.inr rfl, rfl, rfl, rfl⟩
  · rw [ha, hb]
    simp only [Option.bind_eq_bind, Option.bind_some, TriScanlines.empty_next]
    right; left; exact ⟨_, rfl, rfl⟩
  · rw [ha, hb]
    right; right; exact ⟨rfl, rfl⟩

/-- The model's fuel for `pixels()` (total length of the scanline run) does not change when the
triangle is moved. -/
theorem triPixelFuel_translate (t : Tri) (style : TriStyle) (d : Pt) (hg : TriGuards t style d) :
    triPixelFuel (t.translate d) style = triPixelFuel t style := by
  have h := triScanlineList_moved t style d hg
  have e1 : ∀ t', triPixelFuel t' style =
      ((triScanlines t' style).bind TriScanlines.toList).map
        (fun lines => (lines.map (fun x => (x.1.xe - x.1.xs).toNat)).sum + 1) := by
    intro t'
    unfold triPixelFuel
    cases triScanlines t' style with
    | none => rfl
    | some li =>
      simp only [Option.bind_eq_bind, Option.bind_some]
      cases li.toList <;> rfl
  rw [e1, e1]
  cases h1 : (triScanlines (t.translate d) style).bind TriScanlines.toList with
  | none =>
    cases h2 : (triScanlines t style).bind TriScanlines.toList with
    | none => rfl
    | some l => rw [h1, h2] at h; exact h.elim
  | some l' =>
    cases h2 : (triScanlines t style).bind TriScanlines.toList with
    | none => rw [h1, h2] at h; exact h.elim
    | some l =>
      rw [h1, h2] at h
      have h' : l' = l.map (shiftTyped · d) := h
      subst h'
      simp only [Option.map_some, Option.some.injEq, List.map_map, Nat.add_right_cancel_iff]
      congr 1
      apply List.map_congr_left
      intro x _
      simp only [Function.comp, shiftTyped, shiftS]
      congr 1
      omega

/-- **`pixels()` of a moved styled triangle is the moved pixel sequence, with the same colours.** -/
theorem triPixels_translate (t : Tri) (style : TriStyle) (d : Pt) (hg : TriGuards t style d) :
    triPixels (t.translate d) style = (triPixels t style).map (·.map (shiftPx · d)) := by
  unfold triPixels
  rw [triPixelFuel_translate t style d hg]
  cases triPixelFuel t style with
  | none => rfl
  | some fuel =>
    simp only [Option.map_some, Option.bind_eq_bind, Option.bind_some]
    rcases TriPixels.new_moved t style d hg with ⟨a, b, ha, hb, hab⟩ | ⟨cc, ha, hb⟩ | ⟨ha, hb⟩
    · rw [ha, hb]
      simp only [Option.bind_some]
      have h := TriPixels.toListFuel_moved fuel hab
      cases h1 : a.toListFuel fuel with
      | none =>
        cases h2 : b.toListFuel fuel with
        | none => rfl
        | some l => rw [h1, h2] at h; exact h.elim
      | some l' =>
        cases h2 : b.toListFuel fuel with
        | none => rw [h1, h2] at h; exact h.elim
        | some l =>
          rw [h1, h2] at h
          have h' : l' = l.map (shiftPx · d) := h
          rw [h']; rfl
    · rw [ha, hb]
      simp only [Option.bind_some, TriPixels.empty_toListFuel, Option.map_some, List.map_nil]
    · rw [ha, hb]
      rfl

end Joins
end EG
