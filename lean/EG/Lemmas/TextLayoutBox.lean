/-
  EG.Lemmas.TextLayoutBox — everything `draw_string` / `Text::draw` hands to the target lies inside
  the box `measure_string` / `bounding_box()` reports; a transparent style makes no call.
-/
import EG.Lemmas.TextLayoutLines
import EG.Lemmas.RectPoints
namespace EG
namespace TextLayout
open Font

/-! ### Rectangles inside rectangles -/

/-- Rectangle `a` covers no pixel outside `R` (an empty `a` covers none at all). -/
def RectIn (a R : Rect) : Prop :=
  a.size.w = 0 ∨ a.size.h = 0 ∨
    (R.tl.x ≤ a.tl.x ∧ a.tl.x + (a.size.w : Int) ≤ R.tl.x + (R.size.w : Int) ∧
     R.tl.y ≤ a.tl.y ∧ a.tl.y + (a.size.h : Int) ≤ R.tl.y + (R.size.h : Int))

theorem RectIn.contains {a R : Rect} (h : RectIn a R) {p : Pt} (hp : a.contains p = true) :
    R.contains p = true := by
  rw [Rect.contains_iff] at hp ⊢
  unfold RectIn at h
  omega

theorem RectIn.trans {a R R' : Rect} (h1 : RectIn a R) (h2 : RectIn R R') : RectIn a R' := by
  unfold RectIn at *
  omega

/-- The top-left corner of a non-empty box is not below the `i32` range (no real `Point` is). -/
def LowerBound (R : Rect) : Prop :=
  0 < R.size.w ∧ 0 < R.size.h → -2147483648 ≤ R.tl.x ∧ -2147483648 ≤ R.tl.y

instance (R : Rect) : Decidable (LowerBound R) := by unfold LowerBound; exact inferInstance

theorem LowerBound.mono {R R' : Rect} (h : RectIn R R') (hb : LowerBound R') : LowerBound R := by
  unfold LowerBound RectIn at *
  omega

/-- `points()` of a rectangle whose corner is not below `i32::MIN` yields only points it contains
(saturation can only shorten the ranges). -/
theorem points_sub_contains (a : Rect) (hx : -2147483648 ≤ a.tl.x) (hy : -2147483648 ≤ a.tl.y) {p : Pt}
    (hp : p ∈ a.points) : a.contains p = true := by
  rw [Rect.points_eq_spec] at hp
  unfold Rect.pointsSpec at hp
  rw [Rect.contains_iff]
  by_cases hz : a.isZeroSized = true
  · rw [if_pos hz] at hp; simp at hp
  · rw [if_neg hz] at hp
    simp only [Rect.rows, Rect.columns, List.mem_flatMap, List.mem_map, mem_irange] at hp
    obtain ⟨y, ⟨hy1, hy2⟩, x, ⟨hx1, hx2⟩, rfl⟩ := hp
    unfold satAddI32 satAsI32 at hy2 hx2
    simp only
    refine ⟨hx1, ?_, hy1, ?_⟩
    · split at hx2 <;> split at hx2 <;> (try split at hx2) <;> omega
    · split at hy2 <;> split at hy2 <;> (try split at hy2) <;> omega

theorem points_of_zero (a : Rect) (h : a.size.w = 0 ∨ a.size.h = 0) : a.points = [] := by
  rw [Rect.points_eq_spec]
  unfold Rect.pointsSpec
  rw [if_pos (Rect.isZeroSized_iff.mpr h)]

theorem points_in_box {a R : Rect} (h : RectIn a R) (hb : LowerBound R) {p : Pt} (hp : p ∈ a.points) :
    R.contains p = true := by
  by_cases hz : a.size.w = 0 ∨ a.size.h = 0
  · rw [points_of_zero a hz] at hp; simp at hp
  · have hb' := LowerBound.mono h hb
    unfold LowerBound at hb'
    have := hb' (by omega)
    exact h.contains (points_sub_contains a this.1 this.2 hp)

/-! ### Calls inside a box -/

/-- Every pixel the call can touch lies in `R`: the pixels of a `draw_iter`, the area of a fill. -/
def CallIn (R : Rect) : Call → Prop
  | .drawIter px => ∀ w ∈ px, R.contains w.1 = true
  | .fillContiguous a _ => RectIn a R
  | .fillSolid a _ => RectIn a R
  | .clear _ => False

theorem CallIn.mono {R R' : Rect} (h : RectIn R R') : ∀ {c : Call}, CallIn R c → CallIn R' c
  | .drawIter _, hc => fun w hw => h.contains (hc w hw)
  | .fillContiguous _ _, hc => RectIn.trans hc h
  | .fillSolid _ _, hc => RectIn.trans hc h
  | .clear _, hc => hc

/-- On either kind of target, a call inside `R` writes only pixels of `R`. -/
theorem CallIn.writes {R : Rect} (hb : LowerBound R) (B : Rect) :
    ∀ {c : Call}, CallIn R c → ∀ w ∈ c.lowerDefault B, R.contains w.1 = true
  | .drawIter _, hc => fun w hw => hc w hw
  | .fillContiguous a cs, hc => fun w hw => by
    have : w.1 ∈ a.points := (List.of_mem_zip hw).1
    exact points_in_box hc hb this
  | .fillSolid a c, hc => fun w hw => by
    have : w.1 ∈ a.points := (List.of_mem_zip hw).1
    exact points_in_box hc hb this
  | .clear _, hc => absurd hc id

/-- The same for the documented (native) meaning of the fill calls. -/
theorem CallIn.writesNative {R : Rect} (hb : LowerBound R) (B : Rect) :
    ∀ {c : Call}, CallIn R c → ∀ w ∈ c.lowerNative B, R.contains w.1 = true
  | .drawIter _, hc => fun w hw => hc w hw
  | .fillContiguous a cs, hc => fun w hw => by
    have : w.1 ∈ a.points := by rw [Rect.points_eq_spec]; exact (List.of_mem_zip hw).1
    exact points_in_box hc hb this
  | .fillSolid a c, hc => fun w hw => by
    simp only [Call.lowerNative, List.mem_map] at hw
    obtain ⟨p, hp, rfl⟩ := hw
    have : p ∈ a.points := by rw [Rect.points_eq_spec]; exact hp
    exact points_in_box hc hb this
  | .clear _, hc => absurd hc id

def bcallArea : BCall → Rect
  | .fillContiguous a _ => a
  | .fillSolid a _ => a

/-- The colour adapter never widens a call: what `MonoFontDrawTarget` passes on for a binary-target call
with area `a` stays inside any box containing `a`. -/
theorem lower_in_box (m : Mode) (b : BCall) (R : Rect) (h : RectIn (bcallArea b) R) (hb : LowerBound R) :
    ∀ c ∈ m.lower b, CallIn R c := by
  intro c hc
  have hdi : ∀ (area : Rect) (bits : List Bool) (keep : Pt × Bool → Bool) (col : Color), RectIn area R →
      CallIn R (Call.drawIter (((area.points.zip bits).filter keep).map (fun pb => (pb.1, col)))) := by
    intro area bits keep col har w hw
    simp only [List.mem_map, List.mem_filter] at hw
    obtain ⟨pb, ⟨hpb, _⟩, rfl⟩ := hw
    exact points_in_box har hb (List.of_mem_zip hpb).1
  cases m with
  | fg tc =>
    cases b with
    | fillContiguous area bits =>
      simp only [Mode.lower, List.mem_singleton] at hc
      subst hc
      exact hdi area bits _ tc h
    | fillSolid area on =>
      cases on with
      | true => simp only [Mode.lower, List.mem_singleton] at hc; subst hc; exact h
      | false => simp [Mode.lower] at hc
  | bg bc =>
    cases b with
    | fillContiguous area bits =>
      simp only [Mode.lower, List.mem_singleton] at hc
      subst hc
      exact hdi area bits _ bc h
    | fillSolid area on =>
      cases on with
      | true => simp [Mode.lower] at hc
      | false => simp only [Mode.lower, List.mem_singleton] at hc; subst hc; exact h
  | both tc bc =>
    cases b with
    | fillContiguous area bits =>
      simp only [Mode.lower, List.mem_singleton] at hc
      subst hc
      exact h
    | fillSolid area on =>
      simp only [Mode.lower, List.mem_singleton] at hc
      subst hc
      exact h

/-! ### Glyph cells and spacing cells of a line -/

theorem glyphArea_size (f : MonoFont) (c : Nat) :
    (f.glyphArea c).size = ⟨0, 0⟩ ∨ (f.glyphArea c).size = ⟨f.cw, f.ch⟩ := by
  unfold MonoFont.glyphArea MonoFont.glyphAreaOfIndex
  split
  · exact Or.inl rfl
  · exact Or.inr rfl

/-- The strip of a line: `n` cells and `n - 1` gaps wide, one character high. -/
def strip (f : MonoFont) (pos : Pt) (n : Nat) : Rect := ⟨pos, ⟨bbWidth f n, f.ch⟩⟩

theorem glyphCalls_in (f : MonoFont) (atlas : Pt → Bool) (c : Nat) (p : Pt) (R : Rect)
    (h : RectIn ⟨p, ⟨f.cw, f.ch⟩⟩ R) : ∀ b ∈ f.glyphCalls atlas c p, RectIn (bcallArea b) R := by
  intro b hb
  unfold MonoFont.glyphCalls at hb
  simp only at hb
  split at hb
  · simp only [List.mem_singleton] at hb
    subst hb
    simp only [bcallArea]
    rcases glyphArea_size f c with hs | hs <;> rw [hs]
    · exact Or.inl rfl
    · exact h
  · simp at hb

theorem gapCalls_in (f : MonoFont) (hasBg : Bool) (p : Pt) (R : Rect)
    (h : RectIn ⟨p, ⟨f.spacing, f.ch⟩⟩ R) : ∀ b ∈ gapCalls f hasBg p, RectIn (bcallArea b) R := by
  intro b hb
  unfold gapCalls at hb
  split at hb
  · simp only [List.mem_singleton] at hb
    subst hb
    exact h
  · simp at hb

/-- Every glyph cell and spacing cell of a line lies inside the line's strip. -/
theorem binCalls_in_strip (f : MonoFont) (atlas : Pt → Bool) (hasBg : Bool) :
    ∀ (text : List Nat) (pos : Pt), ∀ b ∈ binCalls f atlas hasBg pos text,
      RectIn (bcallArea b) (strip f pos text.length)
  | [], _, b, hb => by simp [binCalls] at hb
  | [c], pos, b, hb => by
    have hw : bbWidth f 1 = f.cw := by simpa using bbWidth_succ f 0
    apply glyphCalls_in f atlas c pos _ _ b hb
    unfold RectIn strip
    simp only [List.length_singleton, hw]
    omega
  | c :: c' :: cs, pos, b, hb => by
    have hw := bbWidth_succ_succ f cs.length
    have hw1 := bbWidth_succ f cs.length
    simp only [binCalls, List.mem_append] at hb
    rcases hb with (hb | hb) | hb
    · apply glyphCalls_in f atlas c pos _ _ b hb
      unfold RectIn strip
      simp only [List.length_cons, hw]
      omega
    · apply gapCalls_in f hasBg _ _ _ b hb
      unfold RectIn strip
      simp only [List.length_cons, hw]
      omega
    · have ih := binCalls_in_strip f atlas hasBg (c' :: cs) _ b hb
      apply RectIn.trans ih
      unfold RectIn strip
      simp only [List.length_cons, hw]
      omega

/-! ### A line inside its `measure_string` box -/

/-- The strikethrough lies inside the character cell (true of all 292 built-in fonts). The underline
needs no condition: the box height is the larger of character height and underline bottom. -/
def FontBoxOK (f : MonoFont) : Prop := f.stOff + f.stH ≤ f.ch
instance (f : MonoFont) : Decidable (FontBoxOK f) := by unfold FontBoxOK; exact inferInstance

theorem ch_le_bbHeight (f : MonoFont) (st : Style) : f.ch ≤ bbHeight f st := by
  unfold bbHeight; split <;> omega

theorem strip_in_box (f : MonoFont) (st : Style) (pos : Pt) (n : Nat) :
    RectIn (strip f pos n) ⟨pos, ⟨bbWidth f n, bbHeight f st⟩⟩ := by
  have := ch_le_bbHeight f st
  unfold RectIn strip
  simp only
  omega

theorem glyphPartCalls_in_box (f : MonoFont) (atlas : Pt → Bool) (st : Style) (text : List Nat) (pos : Pt)
    (hb : LowerBound ⟨pos, ⟨bbWidth f text.length, bbHeight f st⟩⟩) :
    ∀ c ∈ glyphPartCalls f atlas st text pos, CallIn ⟨pos, ⟨bbWidth f text.length, bbHeight f st⟩⟩ c := by
  intro c hc
  unfold glyphPartCalls at hc
  have key : ∀ (m : Mode) (hasBg : Bool), c ∈ (binCalls f atlas hasBg pos text).flatMap m.lower →
      CallIn ⟨pos, ⟨bbWidth f text.length, bbHeight f st⟩⟩ c := by
    intro m hasBg hm
    obtain ⟨b, hb1, hb2⟩ := List.mem_flatMap.mp hm
    exact lower_in_box m b _ (RectIn.trans (binCalls_in_strip f atlas hasBg text pos b hb1)
      (strip_in_box f st pos text.length)) hb c hb2
  cases htc : st.textColor <;> cases hbg : st.bgColor <;> rw [htc, hbg] at hc <;> simp only at hc
  · simp at hc
  · exact key _ _ hc
  · exact key _ _ hc
  · exact key _ _ hc

theorem effective_some_ne_none {d : DecoColor} {tc : Option Color} {c : Color} (h : d.effective tc = some c) :
    d ≠ DecoColor.none := by
  intro e; subst e; simp [DecoColor.effective] at h

theorem decoPartCalls_in_box (f : MonoFont) (st : Style) (n : Nat) (pos : Pt) (hok : FontBoxOK f)
    (hadv : drawAdvance f st n = bbWidth f n) :
    ∀ c ∈ decoPartCalls f st n pos, CallIn ⟨pos, ⟨bbWidth f n, bbHeight f st⟩⟩ c := by
  intro c hc
  unfold decoPartCalls at hc
  split at hc
  · unfold MonoFont.drawDecorations at hc
    rw [hadv] at hc
    have hch := ch_le_bbHeight f st
    unfold FontBoxOK at hok
    simp only [List.mem_append] at hc
    rcases hc with hc | hc
    · cases hs : st.strikethrough.effective st.textColor with
      | none => rw [hs] at hc; simp at hc
      | some col =>
        rw [hs] at hc
        simp only [List.mem_singleton] at hc
        subst hc
        unfold CallIn RectIn decoRect
        simp only
        omega
    · cases hs : st.underline.effective st.textColor with
      | none => rw [hs] at hc; simp at hc
      | some col =>
        rw [hs] at hc
        simp only [List.mem_singleton] at hc
        subst hc
        have hne := effective_some_ne_none hs
        have hh : bbHeight f st = max (f.ulH + f.ulOff) f.ch := by unfold bbHeight; rw [if_pos hne]
        unfold CallIn RectIn decoRect
        simp only [hh]
        omega
  · simp at hc

/-- **Per line**: every call `draw_string` makes — glyph cells, spacing cells, strikethrough and
underline rectangles — lies inside the box `measure_string` reports for the same arguments. -/
theorem drawString_in_box (f : MonoFont) (atlas : Pt → Bool) (st : Style) (text : List Nat) (p : Pt)
    (bl : Baseline) (hok : FontBoxOK f)
    (hadv : st.textColor ≠ none ∨ st.bgColor ≠ none ∨ f.spacing = 0)
    (hb : LowerBound (measureString f st text p bl).bbox) :
    ∀ c ∈ (f.drawString atlas st text p bl).1, CallIn (measureString f st text p bl).bbox c := by
  intro c hc
  rw [drawString_calls] at hc
  rw [measureString_bbox] at hb ⊢
  rcases List.mem_append.mp hc with hc | hc
  · exact glyphPartCalls_in_box f atlas st text _ hb c hc
  · exact decoPartCalls_in_box f st text.length _ hok
      (drawAdvance_eq_bbWidth f st text.length (by
        rcases hadv with h | h | h
        · exact Or.inl h
        · exact Or.inr (Or.inl h)
        · exact Or.inr (Or.inr (Or.inl h)))) c hc

/-! ### The union of the line boxes -/

/-- `mm` (the running min / max corner pair) covers the box `R`. -/
def Covers (mm : Option (Pt × Pt)) (R : Rect) : Prop :=
  R.size.w = 0 ∨ R.size.h = 0 ∨
    ∃ mn mx, mm = some (mn, mx) ∧ mn.x ≤ R.tl.x ∧ R.tl.x + (R.size.w : Int) - 1 ≤ mx.x ∧
      mn.y ≤ R.tl.y ∧ R.tl.y + (R.size.h : Int) - 1 ≤ mx.y

def MMOrdered (mm : Option (Pt × Pt)) : Prop := ∀ mn mx, mm = some (mn, mx) → mn.x ≤ mx.x ∧ mn.y ≤ mx.y

theorem updateMinMax_spec (mm : Option (Pt × Pt)) (m : Metrics) (hw : MMOrdered mm) :
    MMOrdered (updateMinMax mm m) ∧ Covers (updateMinMax mm m) m.bbox ∧
      ∀ R, Covers mm R → Covers (updateMinMax mm m) R := by
  unfold updateMinMax
  by_cases hz : 0 < m.bbox.size.w ∧ 0 < m.bbox.size.h
  · rw [Rect.bottomRight_some hz]
    cases mm with
    | none =>
      refine ⟨?_, ?_, ?_⟩
      · intro mn mx h
        simp only [Option.some.injEq, Prod.mk.injEq] at h
        obtain ⟨rfl, rfl⟩ := h
        simp only
        omega
      · exact Or.inr (Or.inr ⟨_, _, rfl, by simp only; omega⟩)
      · intro R hR
        rcases hR with h | h | ⟨mn, mx, h, _⟩
        · exact Or.inl h
        · exact Or.inr (Or.inl h)
        · simp at h
    | some mnmx =>
      obtain ⟨mn0, mx0⟩ := mnmx
      have ho := hw mn0 mx0 rfl
      refine ⟨?_, ?_, ?_⟩
      · intro mn mx h
        simp only [Option.some.injEq, Prod.mk.injEq] at h
        obtain ⟨rfl, rfl⟩ := h
        simp only
        omega
      · exact Or.inr (Or.inr ⟨_, _, rfl, by simp only; omega⟩)
      · intro R hR
        rcases hR with h | h | ⟨mn, mx, h, h'⟩
        · exact Or.inl h
        · exact Or.inr (Or.inl h)
        · simp only [Option.some.injEq, Prod.mk.injEq] at h
          obtain ⟨rfl, rfl⟩ := h
          exact Or.inr (Or.inr ⟨_, _, rfl, by simp only; omega⟩)
  · rw [Rect.bottomRight_none hz]
    refine ⟨hw, ?_, fun R hR => hR⟩
    unfold Covers
    omega

theorem minMaxGo_spec (f : MonoFont) (st : Style) (bl : Baseline) :
    ∀ (ls : List (List Nat × Pt)) (mm : Option (Pt × Pt)), MMOrdered mm →
      MMOrdered (minMaxGo f st bl mm ls) ∧
      (∀ R, Covers mm R → Covers (minMaxGo f st bl mm ls) R) ∧
      ∀ lp ∈ ls, Covers (minMaxGo f st bl mm ls) (measureString f st lp.1 lp.2 bl).bbox
  | [], mm, hw => ⟨hw, fun _ h => h, fun _ h => by simp at h⟩
  | (l, p) :: rest, mm, hw => by
    obtain ⟨h1, h2, h3⟩ := updateMinMax_spec mm (measureString f st l p bl) hw
    obtain ⟨g1, g2, g3⟩ := minMaxGo_spec f st bl rest _ h1
    refine ⟨g1, fun R hR => g2 R (h3 R hR), ?_⟩
    intro lp hlp
    rcases List.mem_cons.mp hlp with h | h
    · subst h; exact g2 _ h2
    · exact g3 lp h

/-- The last step of `bounding_box`: the corners found, or the zero-sized box at the position. -/
def mmBox (pos : Pt) : Option (Pt × Pt) → Rect
  | some (mn, mx) => Rect.withCorners mn mx
  | none => ⟨pos, Sz.zero⟩

theorem boundingBox_eq_mmBox (f : MonoFont) (t : Text) :
    boundingBox f t = mmBox t.position (minMaxGo f t.style t.ts.baseline none (lines f t)) := by
  unfold boundingBox mmBox
  cases minMaxGo f t.style t.ts.baseline none (lines f t) with
  | none => rfl
  | some mnmx => rfl

theorem covers_rectIn (mm : Option (Pt × Pt)) (hw : MMOrdered mm) (pos : Pt) (R : Rect) (h : Covers mm R) :
    RectIn R (mmBox pos mm) := by
  rcases h with h | h | ⟨mn, mx, rfl, h⟩
  · exact Or.inl h
  · exact Or.inr (Or.inl h)
  · have ho := hw mn mx rfl
    have w1 := Rect.withCorners_w mn mx
    have w2 := Rect.withCorners_h mn mx
    have t1 := Rect.withCorners_tl_x mn mx
    have t2 := Rect.withCorners_tl_y mn mx
    refine Or.inr (Or.inr ?_)
    simp only [mmBox]
    omega

/-- Every line's `measure_string` box lies inside `Text::bounding_box()`. -/
theorem lineBox_in_boundingBox (f : MonoFont) (t : Text) :
    ∀ lp ∈ lines f t, RectIn (measureString f t.style lp.1 lp.2 t.ts.baseline).bbox (boundingBox f t) := by
  intro lp hlp
  have hord : MMOrdered none := fun _ _ h => by simp at h
  obtain ⟨g1, _, g3⟩ := minMaxGo_spec f t.style t.ts.baseline (lines f t) none hord
  rw [boundingBox_eq_mmBox]
  exact covers_rectIn _ g1 t.position _ (g3 lp hlp)

/-- **Whole text**: every call of `Text::draw` lies inside `Text::bounding_box()`. -/
theorem draw_in_boundingBox (f : MonoFont) (atlas : Pt → Bool) (t : Text) (hok : FontBoxOK f)
    (hadv : t.style.textColor ≠ none ∨ t.style.bgColor ≠ none ∨ f.spacing = 0)
    (hb : LowerBound (boundingBox f t)) :
    ∀ c ∈ (draw f atlas t).1, CallIn (boundingBox f t) c := by
  intro c hc
  unfold draw at hc
  rw [drawLines_calls] at hc
  obtain ⟨lp, hlp, hc⟩ := List.mem_flatMap.mp hc
  have hin := lineBox_in_boundingBox f t lp hlp
  exact CallIn.mono hin
    (drawString_in_box f atlas t.style lp.1 lp.2 t.ts.baseline hok hadv (LowerBound.mono hin hb) c hc)

/-! ### Transparent style -/

theorem drawString_transparent (f : MonoFont) (atlas : Pt → Bool) (st : Style) (text : List Nat) (p : Pt)
    (bl : Baseline) (h : styleTransparent st = true) : (f.drawString atlas st text p bl).1 = [] := by
  unfold styleTransparent at h
  simp only [Bool.and_eq_true, Option.isNone_iff_eq_none, decide_eq_true_eq] at h
  obtain ⟨⟨⟨h1, h2⟩, h3⟩, h4⟩ := h
  rw [drawString_calls]
  unfold glyphPartCalls decoPartCalls MonoFont.drawDecorations
  rw [h1, h2, h3, h4]
  simp [DecoColor.effective]

theorem draw_transparent (f : MonoFont) (atlas : Pt → Bool) (t : Text) (h : styleTransparent t.style = true) :
    (draw f atlas t).1 = [] := by
  unfold draw
  rw [drawLines_calls]
  simp [drawString_transparent f atlas t.style _ _ _ h]

end TextLayout
end EG
