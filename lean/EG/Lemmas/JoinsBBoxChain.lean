/-
  EG.Lemmas.JoinsBBoxChain — the segments of a stroked polyline in closed form.
  `chainFrom w sj vs`: the segments of the vertex list `vs` when the start join of the first one is
  `sj` (interior joins `LineJoin::from_points`, last join `LineJoin::end`).
  * `ThickSegmentIter` (the iterator folded by `untranslated_bounding_box`) drained = `polyChain`;
  * the chain is linked (consecutive segments share their join), its first start join and last end
    join have no filler line;
  * `ScanlineIntersections::next_segment` (the walk that draws) yields the same chain, one segment
    per call.
-/
import EG.Lemmas.JoinsBBoxCover
import EG.Model.ThickPolyline
set_option linter.unusedSimpArgs false
namespace EG
namespace Joins
open Thick (LineSide StrokeOffset)

/-! ### Kinds of the joins -/

theorem fromExtents_kind_ne_stop (mid : Pt) (w : Nat) (fl fr sl sr : Line) :
    (LineJoin.fromExtents mid w fl fr sl sr).kind ≠ .stop := by
  unfold LineJoin.fromExtents
  cases intersections fl fr sl sr with
  | none => simp
  | some r =>
    obtain ⟨l, side, r'⟩ := r
    cases side
    all_goals
      simp only []
      split
      · split <;> simp
      · simp

theorem fromPoints_kind_ne_stop {a b c : Pt} {w : Nat} {off : StrokeOffset} {j : LineJoin}
    (h : LineJoin.fromPoints a b c w off = some j) : j.kind ≠ .stop := by
  unfold LineJoin.fromPoints at h
  cases h1 : extents ⟨a, b⟩ w off with
  | none => rw [h1] at h; cases h
  | some e1 =>
    cases h2 : extents ⟨b, c⟩ w off with
    | none => rw [h1, h2] at h; cases h
    | some e2 =>
      rw [h1, h2] at h
      obtain ⟨fl, fr⟩ := e1
      obtain ⟨sl, sr⟩ := e2
      simp only [Option.bind_eq_bind, Option.bind_some, pure, Option.some.injEq] at h
      rw [← h]
      exact fromExtents_kind_ne_stop _ _ _ _ _ _

theorem stop_kind {a b : Pt} {w : Nat} {off : StrokeOffset} {j : LineJoin}
    (h : LineJoin.stop a b w off = some j) : j.kind = .stop := by
  unfold LineJoin.stop at h
  cases h1 : extents ⟨a, b⟩ w off with
  | none => rw [h1] at h; cases h
  | some e1 =>
    rw [h1] at h
    obtain ⟨l, r⟩ := e1
    simp only [Option.bind_eq_bind, Option.bind_some, pure, Option.some.injEq] at h
    rw [← h]

theorem start_kind {a b : Pt} {w : Nat} {off : StrokeOffset} {j : LineJoin}
    (h : LineJoin.start a b w off = some j) : j.kind = .start := by
  unfold LineJoin.start at h
  cases h1 : extents ⟨a, b⟩ w off with
  | none => rw [h1] at h; cases h
  | some e1 =>
    rw [h1] at h
    obtain ⟨l, r⟩ := e1
    simp only [Option.bind_eq_bind, Option.bind_some, pure, Option.some.injEq] at h
    rw [← h]

theorem fillerLine_of_kind_stop {j : LineJoin} (h : j.kind = .stop) : j.fillerLine = none := by
  unfold LineJoin.fillerLine; rw [h]

theorem fillerLine_of_kind_start {j : LineJoin} (h : j.kind = .start) : j.fillerLine = none := by
  unfold LineJoin.fillerLine; rw [h]

/-! ### The chain -/

/-- The segments of the vertex list `vs`, the first one starting with the join `sj`. -/
def chainFrom (w : Nat) : LineJoin → List Pt → Option (List ThickSegment)
  | sj, a :: b :: c :: rest =>
    (LineJoin.fromPoints a b c w .none).bind fun ej =>
      (chainFrom w ej (b :: c :: rest)).bind fun r => some (⟨sj, ej⟩ :: r)
  | sj, [a, b] => (LineJoin.stop a b w .none).bind fun ej => some [⟨sj, ej⟩]
  | _, [_] => some []
  | _, [] => some []

/-- All segments of a stroked polyline. -/
def polyChain (vs : List Pt) (w : Nat) : Option (List ThickSegment) :=
  match vs with
  | a :: b :: _ => (LineJoin.start a b w .none).bind fun sj => chainFrom w sj vs
  | _ => some []

theorem chainFrom_three (w : Nat) (sj : LineJoin) (a b c : Pt) (rest : List Pt) :
    chainFrom w sj (a :: b :: c :: rest) =
      (LineJoin.fromPoints a b c w .none).bind fun ej =>
        (chainFrom w ej (b :: c :: rest)).bind fun r => some (⟨sj, ej⟩ :: r) := by
  rw [chainFrom]

theorem chainFrom_two (w : Nat) (sj : LineJoin) (a b : Pt) :
    chainFrom w sj [a, b] = (LineJoin.stop a b w .none).bind fun ej => some [⟨sj, ej⟩] := by
  rw [chainFrom]

theorem chainFrom_one (w : Nat) (sj : LineJoin) (a : Pt) : chainFrom w sj [a] = some [] := by
  rw [chainFrom]

theorem chainFrom_nil (w : Nat) (sj : LineJoin) : chainFrom w sj [] = some [] := by
  rw [chainFrom]

/-- What the chain looks like: linked, starting with `sj`, ending with a join without filler. -/
theorem chainFrom_spec (w : Nat) : ∀ (vs : List Pt) (sj : LineJoin) (L : List ThickSegment),
    chainFrom w sj vs = some L →
    Linked L ∧ (∀ s, L.head? = some s → s.startJoin = sj) ∧
      (∀ s, L.getLast? = some s → s.endJoin.fillerLine = none) ∧ (2 ≤ vs.length → L ≠ [])
  | [], sj, L, h => by
    rw [chainFrom_nil] at h; cases h
    exact ⟨trivial, by simp, by simp, by simp⟩
  | [_], sj, L, h => by
    rw [chainFrom_one] at h; cases h
    exact ⟨trivial, by simp, by simp, by simp⟩
  | [a, b], sj, L, h => by
    rw [chainFrom_two] at h
    cases hs : LineJoin.stop a b w .none with
    | none => rw [hs] at h; cases h
    | some ej =>
      rw [hs] at h
      simp only [Option.bind_some, Option.some.injEq] at h
      subst h
      refine ⟨trivial, ?_, ?_, by simp⟩
      · intro s hs'; simp only [List.head?_cons, Option.some.injEq] at hs'; subst hs'; rfl
      · intro s hs'
        simp only [List.getLast?_singleton, Option.some.injEq] at hs'; subst hs'
        exact fillerLine_of_kind_stop (stop_kind hs)
  | a :: b :: c :: rest, sj, L, h => by
    rw [chainFrom_three] at h
    cases hf : LineJoin.fromPoints a b c w .none with
    | none => rw [hf] at h; cases h
    | some ej =>
      rw [hf] at h
      simp only [Option.bind_some] at h
      cases hr : chainFrom w ej (b :: c :: rest) with
      | none => rw [hr] at h; cases h
      | some r =>
        rw [hr] at h
        simp only [Option.bind_some, Option.some.injEq] at h
        subst h
        obtain ⟨i1, i2, i3, i4⟩ := chainFrom_spec w (b :: c :: rest) ej r hr
        have hne : r ≠ [] := i4 (by simp)
        cases r with
        | nil => exact absurd rfl hne
        | cons s1 r' =>
          refine ⟨⟨?_, i1⟩, ?_, ?_, by simp⟩
          · exact (i2 s1 rfl).symm
          · intro s hs'; simp only [List.head?_cons, Option.some.injEq] at hs'; subst hs'; rfl
          · intro s hs'
            rw [List.getLast?_cons_cons] at hs'
            exact i3 s hs'

/-- **The chain of a polyline is linked and neither its first start join nor its last end join
has a filler line.** -/
theorem polyChain_spec (vs : List Pt) (w : Nat) (L : List ThickSegment) (h : polyChain vs w = some L) :
    Linked L ∧ (∀ s, L.head? = some s → s.startJoin.fillerLine = none) ∧
      (∀ s, L.getLast? = some s → s.endJoin.fillerLine = none) := by
  unfold polyChain at h
  split at h
  · rename_i a b rest
    cases hs : LineJoin.start a b w .none with
    | none => rw [hs] at h; cases h
    | some sj =>
      rw [hs] at h
      simp only [Option.bind_some] at h
      obtain ⟨i1, i2, i3, _⟩ := chainFrom_spec w _ sj L h
      refine ⟨i1, ?_, i3⟩
      intro s hs'
      rw [i2 s hs']
      exact fillerLine_of_kind_start (start_kind hs)
  · cases h
    exact ⟨trivial, by simp, by simp⟩

/-! ### `ThickSegmentIter` drained is the chain -/

/-- The state of a `ThickSegmentIter` that still has interior or final joins to compute. -/
structure TSInv (it : ThickSegmentIter) : Prop where
  stop : it.stop = false
  suffix : ∃ pre, it.points = pre ++ it.windows
  len : 2 ≤ it.windows.length
  kind : it.endJoin.kind ≠ .stop

/-- The last state: the end join is the `End` join. -/
theorem ThickSegmentIter.toListFuel_last (fuel : Nat) (it : ThickSegmentIter) (h1 : it.stop = false)
    (h2 : it.endJoin.kind = .stop) (h3 : windowsNext it.windows = none) :
    it.toListFuel (fuel + 1) = some [⟨it.startJoin, it.endJoin⟩] := by
  unfold ThickSegmentIter.toListFuel ThickSegmentIter.next
  simp only [h1, Bool.false_eq_true, ↓reduceIte, h3, h2, bne_self_eq_false]
  cases fuel with
  | zero => rfl
  | succ f =>
    unfold ThickSegmentIter.toListFuel ThickSegmentIter.next
    simp only [↓reduceIte]
    rfl

theorem suffix_two {α : Type} {pre : List α} {a b : α} {pts : List α} (h : pts = pre ++ [a, b]) :
    pts[pts.length - 2]? = some a ∧ pts.getLast? = some b := by
  subst h
  constructor
  · rw [List.getElem?_append_right (by simp)]
    simp
  · simp

theorem ThickSegmentIter.toListFuel_chain : ∀ (fuel : Nat) (it : ThickSegmentIter), TSInv it →
    it.windows.length + 1 ≤ fuel →
    it.toListFuel fuel = (chainFrom it.width it.endJoin it.windows).bind
      (fun r => some (⟨it.startJoin, it.endJoin⟩ :: r))
  | 0, it, hi, hf => by omega
  | fuel + 1, it, hi, hf => by
    obtain ⟨h1, ⟨pre, hpre⟩, h3, h4⟩ := hi
    obtain ⟨windows, sj0, ej0, width, points, stop⟩ := it
    simp only at h1 hpre h3 h4 hf ⊢
    subst h1
    rcases windows with _ | ⟨a, _ | ⟨b, _ | ⟨c, rest⟩⟩⟩
    · simp at h3
    · simp at h3
    · -- the last interior join has been used: the `End` join follows
      obtain ⟨g1, g2⟩ := suffix_two hpre
      rw [chainFrom_two]
      unfold ThickSegmentIter.toListFuel ThickSegmentIter.next
      have hk : (ej0.kind != JoinKind.stop) = true := by simpa using h4
      simp only [Bool.false_eq_true, ↓reduceIte, windowsNext, hk, g1, g2]
      cases hs : LineJoin.stop a b width .none with
      | none => simp
      | some ej =>
        simp only [Option.bind_eq_bind, Option.bind_some, pure]
        have hlast := ThickSegmentIter.toListFuel_last (fuel - 1)
          ⟨[a, b], ej0, ej, width, points, false⟩ rfl (stop_kind hs) rfl
        have hfu : fuel - 1 + 1 = fuel := by simp at hf; omega
        rw [hfu] at hlast
        rw [hlast]
        rfl
    · unfold ThickSegmentIter.toListFuel ThickSegmentIter.next
      rw [chainFrom_three]
      simp only [Bool.false_eq_true, ↓reduceIte, windowsNext]
      cases hfp : LineJoin.fromPoints a b c width .none with
      | none => simp
      | some ej =>
        simp only [Option.bind_eq_bind, Option.bind_some, pure]
        have hinv : TSInv ⟨b :: c :: rest, ej0, ej, width, points, false⟩ :=
          ⟨rfl, ⟨pre ++ [a], by show points = _; rw [hpre]; simp⟩, by simp,
            fromPoints_kind_ne_stop hfp⟩
        have ih := ThickSegmentIter.toListFuel_chain fuel _ hinv
          (by simp at hf ⊢; omega)
        rw [ih]

/-- **`ThickSegmentIter::new(vertices, width, _)` drained yields the chain of the polyline.** -/
theorem polySegments_eq_chain (vs : List Pt) (w : Nat) (h : 2 ≤ vs.length) :
    polySegments vs w = polyChain vs w := by
  unfold polySegments polyChain ThickSegmentIter.new
  rcases vs with _ | ⟨a, _ | ⟨b, _ | ⟨c, rest⟩⟩⟩
  · simp at h
  · simp at h
  · simp only [windowsNext, Option.bind_eq_bind]
    cases hs : LineJoin.start a b w .none with
    | none => rfl
    | some sj =>
      simp only [Option.bind_some]
      rw [chainFrom_two]
      cases he : LineJoin.stop a b w .none with
      | none => rfl
      | some ej =>
        simp only [Option.bind_some, pure]
        exact ThickSegmentIter.toListFuel_last _ _ rfl (stop_kind he) rfl
  · simp only [windowsNext, Option.bind_eq_bind]
    cases hs : LineJoin.start a b w .none with
    | none => rfl
    | some sj =>
      simp only [Option.bind_some]
      rw [chainFrom_three]
      cases he : LineJoin.fromPoints a b c w .none with
      | none => rfl
      | some ej =>
        simp only [Option.bind_some, pure]
        unfold ThickSegmentIter.toList
        rw [ThickSegmentIter.toListFuel_chain _ _
          ⟨rfl, ⟨[a], rfl⟩, by simp, fromPoints_kind_ne_stop he⟩ (by simp)]

/-! ### `ScanlineIntersections::next_segment` walks the chain -/

/-- One call of `next_segment` from a state whose remaining segments are the chain `L`. -/
theorem PolyIntersections.nextSegment_chain (it : PolyIntersections) (sj : LineJoin)
    (L : List ThickSegment) (h1 : it.nextStartJoin = some sj)
    (h2 : chainFrom it.width sj it.remainingPoints = some L) :
    (L = [] ∧ it.nextSegment = some none) ∨
    (∃ s L' it', L = s :: L' ∧ it.nextSegment = some (some (s, it')) ∧
      it'.nextStartJoin = some s.endJoin ∧
      chainFrom it'.width s.endJoin it'.remainingPoints = some L' ∧
      it'.points = it.points ∧ it'.width = it.width ∧ it'.scanline = it.scanline ∧
      it'.remainingPoints.length + 1 = it.remainingPoints.length) := by
  obtain ⟨points, rp, nsj, width, scanline⟩ := it
  simp only at h1 h2 ⊢
  subst h1
  unfold PolyIntersections.nextSegment
  rcases rp with _ | ⟨a, _ | ⟨b, _ | ⟨c, rest⟩⟩⟩
  · rw [chainFrom_nil] at h2; cases h2; left; exact ⟨rfl, rfl⟩
  · rw [chainFrom_one] at h2; cases h2; left; exact ⟨rfl, rfl⟩
  · rw [chainFrom_two] at h2
    cases hs : LineJoin.stop a b width .none with
    | none => rw [hs] at h2; cases h2
    | some ej =>
      rw [hs] at h2
      simp only [Option.bind_some, Option.some.injEq] at h2
      subst h2
      right
      refine ⟨_, _, ⟨points, [b], some ej, width, scanline⟩, rfl, ?_, rfl, ?_, rfl, rfl, rfl, ?_⟩
      · simp only [hs, Option.map_some, List.tail_cons]
      · exact chainFrom_one _ _ _
      · simp
  · rw [chainFrom_three] at h2
    cases hs : LineJoin.fromPoints a b c width .none with
    | none => rw [hs] at h2; cases h2
    | some ej =>
      rw [hs] at h2
      simp only [Option.bind_some] at h2
      cases hc : chainFrom width ej (b :: c :: rest) with
      | none => rw [hc] at h2; cases h2
      | some r =>
        rw [hc] at h2
        simp only [Option.bind_some, Option.some.injEq] at h2
        subst h2
        right
        refine ⟨_, _, ⟨points, b :: c :: rest, some ej, width, scanline⟩, rfl, ?_, rfl, ?_, rfl, rfl,
          rfl, ?_⟩
        · simp only [hs, Option.map_some, List.tail_cons]
        · exact hc
        · simp

end Joins
end EG
