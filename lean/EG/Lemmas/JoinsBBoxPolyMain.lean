/-
  EG.Lemmas.JoinsBBoxPolyMain — **every pixel of a stroked polyline of width > 1 lies inside
  `styled_bounding_box`** (both `draw_styled`'s `fill_solid` rectangles and the points of
  `StyledPixelsIterator`), under the decidable guard `PolyBBoxGuard`:
  * `chainOK`: no LEFT-side filler line between a skeleton and a non-skeleton segment escapes the
    box (see EG.Lemmas.JoinsBBoxCover; never observed to fail);
  * the top row of the box is an `i32` (`Rectangle::rows` saturates there).
-/
import EG.Lemmas.JoinsBBoxPoly
set_option linter.unusedSimpArgs false
namespace EG
namespace Joins
open Thick (LineSide StrokeOffset)

/-- The guard of the stroked-polyline theorems (see the file header). -/
def PolyBBoxGuard (pl : Polyline) (w : Nat) : Prop :=
  match untranslatedBoundingBox pl w, polySegments pl.vertices w with
  | some ubb, some segs => -2147483648 ≤ ubb.tl.y ∧ chainOK ubb segs = true
  | _, _ => True

instance (pl : Polyline) (w : Nat) : Decidable (PolyBBoxGuard pl w) := by
  unfold PolyBBoxGuard; split <;> exact inferInstance

theorem rowsEnd_le (r : Rect) (h : -2147483648 ≤ r.tl.y) : r.rowsEnd ≤ r.tl.y + r.size.h := by
  unfold Rect.rowsEnd satAddI32 satAsI32
  split <;> split <;> (try split) <;> omega

theorem covered_segOK {U : Rect} {s : ThickSegment} (h : ∀ l ∈ s.outline, Covered U l) :
    SegOK U.tl.x (U.tl.x + U.size.w - 1) s := by
  intro l hl
  obtain ⟨h1, h2⟩ := h l hl
  rw [Rect.contains_iff] at h1 h2
  omega

/-- The segments of a polyline (two or more vertices) all satisfy `SegOK` for the columns of the
fold of their boxes. -/
theorem polyChain_segOK (vs : List Pt) (w : Nat) (segs : List ThickSegment)
    (hc : polyChain vs w = some segs) (hok : chainOK (foldEdgeBoxes segs) segs = true) :
    ∀ s ∈ segs, SegOK (foldEdgeBoxes segs).tl.x
      ((foldEdgeBoxes segs).tl.x + (foldEdgeBoxes segs).size.w - 1) s := by
  obtain ⟨h1, h2, h3⟩ := polyChain_spec vs w segs hc
  have hcov := chain_outline_covered (foldEdgeBoxes segs) segs h1 hok
    (fun s hs => foldEdgeBoxes_boxIn segs s hs)
    (by intro s hs _ f hf; rw [h2 s hs] at hf; cases hf)
    (by intro s hs _ f hf; rw [h3 s hs] at hf; cases hf)
  intro s hs
  exact covered_segOK (hcov s hs)

theorem polySegments_short (vs : List Pt) (w : Nat) (h : vs.length < 2) : polySegments vs w = some [] := by
  rcases vs with _ | ⟨a, _ | ⟨b, rest⟩⟩
  · rfl
  · rfl
  · simp only [List.length_cons] at h; omega

/-- What the row iterator of `draw_thick` / `StyledPixelsIterator::new` starts with. -/
theorem polyScanlines_new_ok (pl : Polyline) (w : Nat) (hw : 2 ≤ w) (hg : PolyBBoxGuard pl w)
    (ubb : Rect) (hb : untranslatedBoundingBox pl w = some ubb) :
    -2147483648 ≤ ubb.tl.y ∧
    ∃ segs, polyChain pl.vertices w = some segs ∧
      (∀ s ∈ segs, SegOK ubb.tl.x (ubb.tl.x + ubb.size.w - 1) s) ∧
      ∀ it, PolyScanlines.new pl w = some it →
        SIOk pl.vertices w segs ubb.tl.x (ubb.tl.x + ubb.size.w - 1) ubb.tl.y ubb.rowsEnd it := by
  unfold PolyBBoxGuard at hg
  rw [hb] at hg
  by_cases hn : 2 ≤ pl.vertices.length
  · -- the general case
    rw [untranslatedBoundingBox_eq pl w ⟨by omega, by omega⟩] at hb
    cases hs : polySegments pl.vertices w with
    | none => rw [hs] at hb; cases hb
    | some segs =>
      rw [hs] at hb hg
      simp only [Option.map_some, Option.some.injEq] at hb
      simp only at hg
      obtain ⟨hmin, hok⟩ := hg
      subst hb
      have hc : polyChain pl.vertices w = some segs := by rw [← polySegments_eq_chain _ _ hn]; exact hs
      have hseg := polyChain_segOK pl.vertices w segs hc hok
      refine ⟨hmin, segs, hc, hseg, ?_⟩
      intro it hit
      unfold PolyScanlines.new at hit
      rw [untranslatedBoundingBox_eq pl w ⟨by omega, by omega⟩, hs] at hit
      simp only [Option.map_some, Option.bind_eq_bind, Option.bind_some] at hit
      by_cases hr : (foldEdgeBoxes segs).tl.y < (foldEdgeBoxes segs).rowsEnd
      · simp only [hr, ↓reduceIte] at hit
        cases hnew : PolyIntersections.new pl.vertices w (foldEdgeBoxes segs).tl.y with
        | none => rw [hnew] at hit; cases hit
        | some ints =>
          rw [hnew] at hit
          simp only [Option.bind_some, pure, Option.some.injEq] at hit
          subst hit
          obtain ⟨n1, n2⟩ := PolyIntersections.new_inv hc hseg _ _ hnew
          right
          exact ⟨n1, by show _ ≤ ints.scanline.y; rw [n2],
            by show ints.scanline.y < _; rw [n2]; exact hr,
            by show _ ≤ (foldEdgeBoxes segs).tl.y + 1; omega, rfl⟩
      · simp only [hr, ↓reduceIte, pure, Option.some.injEq] at hit
        left; exact hit.symm
  · -- fewer than two vertices: nothing is iterated
    have hlt : pl.vertices.length < 2 := by omega
    have hs := polySegments_short pl.vertices w hlt
    rw [hs] at hg
    simp only at hg
    have hc : polyChain pl.vertices w = some [] := by
      unfold polyChain
      rcases hv : pl.vertices with _ | ⟨a, _ | ⟨b, rest⟩⟩
      · rfl
      · rfl
      · rw [hv] at hlt; simp only [List.length_cons] at hlt; omega
    refine ⟨hg.1, [], hc, ?_, ?_⟩
    · intro s hs'; cases hs'
    intro it hit
    unfold PolyScanlines.new at hit
    rw [hb] at hit
    simp only [Option.bind_eq_bind, Option.bind_some] at hit
    have hsz : ubb.size.h = 0 := by
      unfold untranslatedBoundingBox at hb
      have : ¬ (w > 0 ∧ pl.vertices.length > 1) := by omega
      simp only [this, ↓reduceIte, Option.some.injEq] at hb
      rw [← hb]; rfl
    have hr : ¬ ubb.tl.y < ubb.rowsEnd := by
      have := rowsEnd_le ubb hg.1
      rw [hsz] at this
      omega
    simp only [hr, ↓reduceIte, pure, Option.some.injEq] at hit
    left; exact hit.symm

/-- A non-empty scanline inside the columns and rows of the box: its rectangle is inside the box. -/
theorem goodLine_rect_in_box {U : Rect} (hmin : -2147483648 ≤ U.tl.y) {sc : Scanline}
    (hg : GoodLine U.tl.x (U.tl.x + U.size.w - 1) U.tl.y U.rowsEnd sc) (p : Pt)
    (hp : sc.toRectangle.contains p = true) : U.contains p = true := by
  obtain ⟨g1, g2, g3, g4, g5⟩ := hg
  have hre := rowsEnd_le U hmin
  unfold Scanline.toRectangle at hp
  have hne : sc.isEmpty = false := by unfold Scanline.isEmpty; simp [g1]
  simp only [hne, Bool.not_false, ↓reduceIte] at hp
  rw [Rect.contains_iff] at hp ⊢
  simp only at hp
  omega

theorem point_in_box {U : Rect} (hmin : -2147483648 ≤ U.tl.y) {p : Pt}
    (h : U.tl.x ≤ p.x ∧ p.x ≤ U.tl.x + U.size.w - 1 ∧ U.tl.y ≤ p.y ∧ p.y < U.rowsEnd) :
    U.contains p = true := by
  have hre := rowsEnd_le U hmin
  rw [Rect.contains_iff]
  omega

/-- **The rectangles `draw_thick` fills lie inside the untranslated bounding box.** -/
theorem drawThickRects_in_box (pl : Polyline) (w : Nat) (hw : 2 ≤ w) (hg : PolyBBoxGuard pl w)
    (ubb : Rect) (hb : untranslatedBoundingBox pl w = some ubb) (rs : List Rect)
    (hrs : drawThickRects pl w = some rs) :
    ∀ r ∈ rs, ∀ p, r.contains p = true → ubb.contains p = true := by
  obtain ⟨hmin, segs, hc, hseg, hnew⟩ := polyScanlines_new_ok pl w hw hg ubb hb
  unfold drawThickRects at hrs
  cases hit : PolyScanlines.new pl w with
  | none => rw [hit] at hrs; cases hrs
  | some it =>
    rw [hit] at hrs
    simp only [Option.bind_eq_bind, Option.bind_some] at hrs
    cases hl : it.toList with
    | none => rw [hl] at hrs; cases hrs
    | some lines =>
      rw [hl] at hrs
      simp only [Option.bind_some, pure, Option.some.injEq] at hrs
      subst hrs
      have hgood : ∀ sc ∈ lines, GoodLine ubb.tl.x (ubb.tl.x + ubb.size.w - 1) ubb.tl.y ubb.rowsEnd sc := by
        rcases hnew it hit with he | hinv
        · rw [he, PolyScanlines.empty_toList] at hl
          cases hl
          intro sc hsc; cases hsc
        · exact PolyScanlines.toListFuel_inv hc hseg _ it hinv lines hl
      intro r hr p hp
      rw [List.mem_filter, List.mem_map] at hr
      obtain ⟨⟨sc, hsc, rfl⟩, _⟩ := hr
      exact goodLine_rect_in_box hmin (hgood sc hsc) p hp

/-- **Every `fill_solid` rectangle of `draw_styled` of a stroked polyline (width > 1) lies inside
`styled_bounding_box`.** -/
theorem drawStyled_in_bbox (pl : Polyline) (w : Nat) (hw : 2 ≤ w) (hg : PolyBBoxGuard pl w)
    (bb : Rect) (hb : styledBoundingBox pl w = some bb) (rs : List Rect)
    (hd : drawStyled pl w = some (.fillSolids rs)) :
    ∀ r ∈ rs, ∀ p, r.contains p = true → bb.contains p = true := by
  unfold styledBoundingBox at hb
  cases hu : untranslatedBoundingBox pl w with
  | none => rw [hu] at hb; cases hb
  | some ubb =>
    rw [hu] at hb
    simp only [Option.bind_eq_bind, Option.bind_some, pure, Option.some.injEq] at hb
    subst hb
    unfold drawStyled at hd
    obtain ⟨w', rfl⟩ : ∃ w', w = w' + 2 := ⟨w - 2, by omega⟩
    simp only at hd
    cases hr : drawThickRects pl (w' + 2) with
    | none => rw [hr] at hd; cases hd
    | some rs0 =>
      rw [hr] at hd
      simp only [Option.bind_eq_bind, Option.bind_some] at hd
      have hin := drawThickRects_in_box pl (w' + 2) hw hg ubb hu rs0 hr
      by_cases ht : pl.translate ≠ Pt.zero
      · simp only [ht, ↓reduceIte, pure, Option.some.injEq, PolyDraw.fillSolids.injEq, ne_eq,
          not_false_eq_true] at hd
        subst hd
        intro r hr' p hp
        rw [List.mem_map] at hr'
        obtain ⟨r0, hr0, rfl⟩ := hr'
        rw [Rect.contains_translate'] at hp ⊢
        exact hin r0 hr0 _ hp
      · have ht' : pl.translate = Pt.zero := by simpa using ht
        simp only [ht', ne_eq, not_true_eq_false, ↓reduceIte, pure, Option.some.injEq,
          PolyDraw.fillSolids.injEq] at hd
        subst hd
        intro r hr' p hp
        rw [ht']
        show (ubb.translate ⟨0, 0⟩).contains p = true
        rw [Rect.translate_zero]
        exact hin r hr' p hp

/-- **Every point of `pixels()` of a stroked polyline (width > 1) lies inside
`styled_bounding_box`.** -/
theorem pixels_in_bbox (pl : Polyline) (w : Nat) (hw : 2 ≤ w) (hg : PolyBBoxGuard pl w)
    (bb : Rect) (hb : styledBoundingBox pl w = some bb) (ps : List Pt) (hps : pixels pl w = some ps) :
    ∀ q ∈ ps, bb.contains q = true := by
  unfold styledBoundingBox at hb
  cases hu : untranslatedBoundingBox pl w with
  | none => rw [hu] at hb; cases hb
  | some ubb =>
    rw [hu] at hb
    simp only [Option.bind_eq_bind, Option.bind_some, pure, Option.some.injEq] at hb
    subst hb
    obtain ⟨hmin, segs, hc, hseg, hnew⟩ := polyScanlines_new_ok pl w hw hg ubb hu
    unfold pixels at hps
    obtain ⟨w', rfl⟩ : ∃ w', w = w' + 2 := ⟨w - 2, by omega⟩
    simp only at hps
    cases hfuel : polyPixelFuel pl (w' + 2) with
    | none => rw [hfuel] at hps; cases hps
    | some fuel0 =>
    rw [hfuel] at hps
    simp only [Option.bind_eq_bind, Option.bind_some] at hps
    cases hit : PolyThickPixels.new pl (w' + 2) with
    | none => rw [hit] at hps; cases hps
    | some it =>
      rw [hit] at hps
      simp only [Option.bind_some] at hps
      -- the invariant of the freshly constructed iterator
      have hinv : PPInv pl.vertices (w' + 2) segs ubb.tl.x (ubb.tl.x + ubb.size.w - 1) ubb.tl.y
          ubb.rowsEnd it ∧ it.translate = pl.translate := by
        unfold PolyThickPixels.new at hit
        cases hsi : PolyScanlines.new pl (w' + 2) with
        | none => rw [hsi] at hit; cases hit
        | some si =>
          rw [hsi] at hit
          simp only [Option.bind_eq_bind, Option.bind_some] at hit
          have hsi' := hnew si hsi
          cases hn : si.next with
          | none => rw [hn] at hit; cases hit
          | some x =>
            rw [hn] at hit
            cases x with
            | none =>
              simp only [Option.bind_some, pure, Option.some.injEq] at hit
              subst hit
              exact ⟨⟨hsi', Or.inl (by simp [Scanline.newEmpty])⟩, rfl⟩
            | some y =>
              obtain ⟨li, si2⟩ := y
              simp only [Option.bind_some, pure, Option.some.injEq] at hit
              subst hit
              rcases hsi' with he | hpi
              · rw [he, PolyScanlines.empty_next] at hn; cases hn
              · obtain ⟨a, b⟩ := PolyScanlines.nextFuel_inv hc hseg _ _ hpi li si2 hn
                exact ⟨⟨Or.inr a, Or.inr b⟩, rfl⟩
      intro q hq
      obtain ⟨p, rfl, h1, h2, h3, h4⟩ :=
        PolyThickPixels.toListFuel_inv hc hseg _ it hinv.1 ps hps q hq
      rw [hinv.2, Rect.contains_translate]
      exact point_in_box hmin ⟨h1, h2, h3, h4⟩

end Joins
end EG
