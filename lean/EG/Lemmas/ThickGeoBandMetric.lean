/-
  EG.Lemmas.ThickGeoBandMetric — `thickPoints_reach` (EG.Lemmas.ThickGeoBand) in the oracle's
  metrics `cross`, `L2` (EG.Lemmas.ThickGeoMetric), without square roots.
-/
import EG.Lemmas.ThickGeoBand
import EG.Lemmas.ThickGeoMetric
set_option linter.unusedSimpArgs false
namespace EG.C17.Stroke
open EG

/-- The reach of a stroke in the oracle's metric: `4 |cross(p)| <= a + 3 D - d + 2 (D - d) E` with
`a^2 <= (2 w)^2 L2`. -/
theorem reach_cross (l : Line) (w : Nat) (hw2 : w ≤ 2147483647) (ps : List Pt)
    (h : Thick.thickPoints l w = some ps) :
    ∃ E, Thick.ExtraParallels l w E ∧ 0 ≤ E ∧ (minorLen l = 0 → E = 0) ∧ ∀ p ∈ ps, ∃ a : Int,
      a * a ≤ (2 * (w : Int)) ^ 2 * L2 l ∧
      4 * ((cross l p).natAbs : Int) ≤
        a + 3 * majorLen l - minorLen l + 2 * (majorLen l - minorLen l) * E := by
  obtain ⟨E, h1, h2, h3, h4⟩ := Thick.thickPoints_reach l w hw2 ps h
  refine ⟨E, h1, h2, by rw [minorLen_eq]; exact h3, ?_⟩
  intro p hp
  obtain ⟨a, a1, a2, a3⟩ := h4 p hp
  refine ⟨a, ?_, ?_⟩
  · rw [L2_eq]
    have : (2 * (w : Int)) ^ 2 = (w : Int) * 2 * ((w : Int) * 2) := by ring
    rw [this]; exact a1
  · rw [majorLen_eq, minorLen_eq]
    rcases ph_cross l p with hc | hc <;> rw [hc] at a2 a3 <;> omega

/-- From `0 < t <= a` and `a^2 <= B`: `t^2 <= B`. -/
theorem sq_le_of_le (t a B : Int) (ht : 0 < t) (hta : t ≤ a) (ha : a * a ≤ B) : t ^ 2 ≤ B := by
  have : t * t ≤ a * a := Int.mul_le_mul hta hta (by omega) (by omega)
  have : t ^ 2 = t * t := by ring
  omega

/-- `4 |cross| <= a + 3 D`, `a^2 <= (2 w)^2 L2`, `D^2 <= L2` give the band `w/2 + 3/4`, hence the
band `w/2 + 5/2` of the property text. -/
theorem band_of_reach (c a D S w : Int) (hc : 0 ≤ c) (hD : 0 ≤ D) (hS : D * D ≤ S) (hw : 0 ≤ w)
    (ha : a * a ≤ (2 * w) ^ 2 * S) (h : 4 * c ≤ a + 3 * D) :
    16 * c ^ 2 ≤ (2 * w + 3) ^ 2 * S ∧ 4 * c ^ 2 ≤ (w + 5) ^ 2 * S := by
  have hS0 : 0 ≤ S := by nlinarith
  obtain ⟨Y, hY0, hYY, _, hY2⟩ := Thick.abs_exists a
  have h1 : Y * Y ≤ (2 * w) * (2 * w) * S := by
    rw [hYY]; have : (2 * w) ^ 2 = (2 * w) * (2 * w) := by ring
    rw [← this]; exact ha
  have h2 : (3 * D) * (3 * D) ≤ 3 * 3 * S := by nlinarith
  have h3 := Thick.sq_add_le Y (3 * D) (2 * w) 3 S hY0 (by omega) (by omega) (by omega) hS0 h1 h2
  have h4 : (4 * c) * (4 * c) ≤ (Y + 3 * D) * (Y + 3 * D) :=
    Int.mul_le_mul (by omega) (by omega) (by omega) (by omega)
  have e1 : 16 * c ^ 2 = (4 * c) * (4 * c) := by ring
  have e2 : (2 * w + 3) ^ 2 * S = (2 * w + 3) * (2 * w + 3) * S := by ring
  have h5 : 16 * c ^ 2 ≤ (2 * w + 3) ^ 2 * S := by rw [e1, e2]; omega
  refine ⟨h5, ?_⟩
  have h6 : (2 * w + 3) ^ 2 ≤ (2 * w + 10) ^ 2 := by nlinarith
  have h7 := Int.mul_le_mul_of_nonneg_right h6 hS0
  have e3 : (2 * w + 10) ^ 2 * S = 4 * ((w + 5) ^ 2 * S) := by ring
  omega

/-- `4 |cross| <= a + 10 D`, `a^2 <= (2 w)^2 L2`, `D^2 <= L2` give the band `w/2 + 5/2`. -/
theorem band_of_reach10 (c a D S w : Int) (hc : 0 ≤ c) (hD : 0 ≤ D) (hS : D * D ≤ S) (hw : 0 ≤ w)
    (ha : a * a ≤ (2 * w) ^ 2 * S) (h : 4 * c ≤ a + 10 * D) : 4 * c ^ 2 ≤ (w + 5) ^ 2 * S := by
  have hS0 : 0 ≤ S := by nlinarith
  obtain ⟨Y, hY0, hYY, _, hY2⟩ := Thick.abs_exists a
  have h1 : Y * Y ≤ (2 * w) * (2 * w) * S := by
    rw [hYY]; have : (2 * w) ^ 2 = (2 * w) * (2 * w) := by ring
    rw [← this]; exact ha
  have h2 : (10 * D) * (10 * D) ≤ 10 * 10 * S := by nlinarith
  have h3 := Thick.sq_add_le Y (10 * D) (2 * w) 10 S hY0 (by omega) (by omega) (by omega) hS0 h1 h2
  have h4 : (4 * c) * (4 * c) ≤ (Y + 10 * D) * (Y + 10 * D) :=
    Int.mul_le_mul (by omega) (by omega) (by omega) (by omega)
  have e1 : 4 * (4 * c ^ 2) = (4 * c) * (4 * c) := by ring
  have e3 : (2 * w + 10) * (2 * w + 10) * S = 4 * ((w + 5) ^ 2 * S) := by ring
  omega

end EG.C17.Stroke
