/-
  EG.Lemmas.C01ThickBudget — when the pixel budgets of the join models suffice.

  `Joins.pixels` / `Joins.triPixels` drain the pixel iterator with a fuel derived from the styled
  bounding box (`polyPixelBudget bb * (n + 1)`, `3 (bb.w + 2 width + 4) (bb.h + 1) + 2`). The guards
  `PolyPixelBudgetOK` / `TriPixelBudgetOK` of the C01 theorems say that fuel was not used up. Here:
  they follow from a condition on what `draw()` issues — no `fill_solid` rectangle is wider than the
  bounding box (polyline) / than the bounding box plus twice the stroke width plus 4 (triangle) —
  and the top row of the box being an `i32`. That condition is a consequence of C02's claim
  (everything drawn lies inside the bounding box), so wherever C02 is proved the budget guard is
  discharged. The number of scanlines is bounded by the measures `mu` of the totality proofs.
-/
import EG.Lemmas.C01ThickTri
import EG.Lemmas.JoinsBBoxPolyMain
import Mathlib.Tactic.Linarith
namespace EG
namespace C01Thick
open EG.Tgt EG.Joins

theorem flatMap_length_le {α β : Type} (L : List α) (f : α → List β) (W : Nat)
    (h : ∀ a ∈ L, (f a).length ≤ W) : (L.flatMap f).length ≤ L.length * W := by
  induction L with
  | nil => simp
  | cons a L ih =>
    rw [List.flatMap_cons, List.length_append, List.length_cons, Nat.succ_mul]
    have h1 := h a List.mem_cons_self
    have h2 := ih (fun b hb => h b (List.mem_cons_of_mem _ hb))
    omega

theorem poly_budget_arith (W h n mu len : Nat) (hh : 1 ≤ h) (hn : 1 ≤ n)
    (hmu : mu ≤ (h - 1) * (n + 3) + n + 2) (hlen : len ≤ mu * W) :
    len < (W * h * 2 + 2) * (n + 1) := by
  obtain ⟨k, rfl⟩ : ∃ k, h = k + 1 := ⟨h - 1, by omega⟩
  simp only [Nat.add_sub_cancel] at hmu
  have h1 : mu * W ≤ (k * (n + 3) + n + 2) * W := Nat.mul_le_mul_right W hmu
  have h2 : W * k ≤ W * k * n := Nat.le_mul_of_pos_right _ hn
  nlinarith [h1, h2, hlen]

theorem tri_budget_arith (W h mu len : Nat) (hmu : mu ≤ 3 * h) (hlen : len ≤ mu * W) :
    len < 3 * W * (h + 1) + 2 := by
  have h1 : mu * W ≤ 3 * h * W := Nat.mul_le_mul_right W hmu
  nlinarith [h1, hlen]

theorem toRectangle_width {s : Scanline} (h : s.isEmpty = false) :
    s.toRectangle.size.w = s.points.length := by
  rw [toRectangle_of_nonempty h, Scanline.points_length]

/-! ### polyline -/

/-- The scanline run of a stroked polyline has at most `(h - 1) (n + 3) + n + 2` scanlines (`h` the
height of the untranslated bounding box, `n` the number of vertices); none if the box has no row. -/
theorem polyRun_length (pl : Polyline) (w : Nat) (bb : Rect) (hbb : untranslatedBoundingBox pl w = some bb)
    (htop : -2147483648 ≤ bb.tl.y) (L : List Scanline) (hL : polyScanlineRun pl w = some L) :
    L = [] ∨ (1 ≤ bb.size.h ∧ L.length ≤ (bb.size.h - 1) * (pl.vertices.length + 3) + pl.vertices.length + 2) := by
  unfold polyScanlineRun at hL
  unfold PolyScanlines.new at hL
  simp only [hbb, Option.bind_eq_bind, Option.bind_some] at hL
  by_cases hrows : bb.tl.y < bb.rowsEnd
  · right
    have hre := rowsEnd_le bb htop
    obtain ⟨ints, hi, e1, e2, e3, e4⟩ := PolyIntersections.new_total pl.vertices w bb.tl.y
    simp only [hrows, ↓reduceIte, hi, Option.bind_some, pure] at hL
    have hok : PolyScanlines.Ok ⟨bb.tl.y + 1, bb.rowsEnd, bb.tl.y, ints⟩ := by
      show ints.remainingPoints.length ≤ ints.points.length
      rw [e1, e2]
    have hL' : listFuel PolyScanlines.next
        (PolyScanlines.stepBudget ⟨bb.tl.y + 1, bb.rowsEnd, bb.tl.y, ints⟩)
        ⟨bb.tl.y + 1, bb.rowsEnd, bb.tl.y, ints⟩ = some L := by
      rw [← polyScanlines_toListFuel_eq]; exact hL
    have hlen := listFuel_length_le_mu PolyScanlines.Ok PolyScanlines.mu
      (fun s a s' hinv hn => ⟨(polyScanlines_next_yield s s' a hinv hn).1,
        (polyScanlines_next_yield s s' a hinv hn).2.1⟩) _ _ L hok hL'
    have hm := PolyIntersections.m_le ints
    rw [e2] at hm
    unfold PolyScanlines.mu at hlen
    dsimp only at hlen
    rw [e1] at hlen
    refine ⟨by omega, ?_⟩
    have hk : (bb.rowsEnd - (bb.tl.y + 1)).toNat ≤ bb.size.h - 1 := by omega
    have := Nat.mul_le_mul_right (pl.vertices.length + 3) hk
    omega
  · left
    simp only [hrows, ↓reduceIte, pure] at hL
    have : PolyScanlines.empty.toList = some L := hL
    rw [PolyScanlines.empty_toList] at this
    simp only [Option.some.injEq] at this
    exact this.symm

/-- A bounding box with a row belongs to a polyline with two or more vertices. -/
theorem poly_vertices_of_height (pl : Polyline) (w : Nat) (bb : Rect)
    (hbb : untranslatedBoundingBox pl w = some bb) (hh : 1 ≤ bb.size.h) : 2 ≤ pl.vertices.length := by
  unfold untranslatedBoundingBox at hbb
  split at hbb
  · omega
  · simp only [Option.some.injEq] at hbb
    subst hbb
    simp [Sz.zero] at hh

/-- **The pixel budget of a stroked polyline suffices whenever no `fill_solid` rectangle of `draw()`
is wider than the bounding box** (and the top row of the box is an `i32`). -/
theorem polyPixelBudgetOK_of_widths (pl : Polyline) (w : Nat)
    (hwd : ∀ d bb, drawStyled pl w = some d → untranslatedBoundingBox pl w = some bb →
      -2147483648 ≤ bb.tl.y ∧ ∀ r ∈ polyRects d, r.size.w ≤ bb.size.w) :
    PolyPixelBudgetOK pl w := by
  unfold PolyPixelBudgetOK
  cases hps : pixels pl w with
  | none => trivial
  | some ps =>
    cases hbb : untranslatedBoundingBox pl w with
    | none => trivial
    | some bb =>
      dsimp only
      rcases Nat.lt_or_ge w 2 with hw | hw
      · exact Or.inl hw
      · right
        obtain ⟨L, hL, hne, hd⟩ := drawStyled_eq_run pl w hw
        obtain ⟨L', hL', hpre⟩ := pixels_prefix_run pl w hw bb hbb
        rw [hL] at hL'
        simp only [Option.some.injEq] at hL'
        subst hL'
        obtain ⟨htop, hwid⟩ := hwd _ bb hd hbb
        rw [hps] at hpre
        simp only [Option.some.injEq] at hpre
        have hfull : (L.flatMap (fun s => (moveS s pl.translate).points)).length ≤ L.length * bb.size.w := by
          apply flatMap_length_le
          intro s hs
          have h1 := hwid ((moveS s pl.translate).toRectangle) (by
            simp only [polyRects]; exact List.mem_map.mpr ⟨s, hs, rfl⟩)
          rw [toRectangle_width (by rw [moveS_isEmpty]; exact hne s hs)] at h1
          exact h1
        have hplen : ps.length ≤ (L.flatMap (fun s => (moveS s pl.translate).points)).length := by
          rw [hpre, List.length_take]; exact Nat.min_le_right _ _
        rcases polyRun_length pl w bb hbb htop L hL with rfl | ⟨hh, hlen⟩
        · simp only [List.flatMap_nil, List.length_nil] at hplen
          unfold polyPixelBudget
          have : 0 < (bb.size.w * bb.size.h * 2 + 2) * (pl.vertices.length + 1) := Nat.mul_pos (by omega) (by omega)
          omega
        · have hn := poly_vertices_of_height pl w bb hbb hh
          unfold polyPixelBudget
          exact poly_budget_arith bb.size.w bb.size.h pl.vertices.length L.length ps.length hh (by omega)
            hlen (by omega)

/-! ### triangle -/

/-- The scanline run of a styled triangle has at most three scanlines per row of the box. -/
theorem triRun_length_le (t : Tri) (style : TriStyle) (bb : Rect) (hbb : triStyledBoundingBox t style = some bb)
    (htop : -2147483648 ≤ bb.tl.y) (L : List (Scanline × PointType)) (hL : triScanlineRun t style = some L) :
    L.length ≤ 3 * bb.size.h := by
  unfold triScanlineRun triScanlines at hL
  simp only [hbb, Option.bind_eq_bind, Option.bind_some] at hL
  cases hit : TriScanlines.new t style.strokeWidth style.strokeAlignment.toOffset style.fillColor.isSome bb with
  | none => rw [hit] at hL; cases hL
  | some it =>
    rw [hit] at hL
    simp only [Option.bind_some] at hL
    have hL' : listFuel TriScanlines.nextLoop (3 * ((it.rowsEnd - it.rowsStart).toNat + 1) + 1) it = some L := by
      rw [← triScanlines_toListFuel_eq]; exact hL
    have hlen : L.length ≤ TriScanlines.mu it :=
      listFuel_length_le_mu (fun _ => True) TriScanlines.mu
        (fun s a s' _ hn => ⟨trivial, triScanlines_next_mu hn⟩) _ it L trivial hL'
    refine Nat.le_trans hlen ?_
    unfold TriScanlines.new at hit
    dsimp only at hit
    by_cases hrows : bb.tl.y < bb.rowsEnd
    · have hre := rowsEnd_le bb htop
      simp only [hrows, ↓reduceIte, Option.bind_eq_bind] at hit
      cases hints : TriIntersections.new t.sortedClockwise style.strokeWidth style.strokeAlignment.toOffset
          style.fillColor.isSome bb.tl.y with
      | none => rw [hints] at hit; cases hit
      | some ints =>
        rw [hints] at hit
        simp only [Option.bind_some, pure, Option.some.injEq] at hit
        subst hit
        have hm := TriIntersections.m_le ints
        unfold TriScanlines.mu
        dsimp only
        omega
    · simp only [hrows, ↓reduceIte, Option.some.injEq] at hit
      subst hit
      have : TriScanlines.mu TriScanlines.empty = 0 := by decide
      omega

/-- **The pixel budget of a styled triangle suffices whenever no `fill_solid` rectangle of `draw()`
is wider than the bounding box plus twice the stroke width plus 4** (and the top row of the box is
an `i32`). -/
theorem triPixelBudgetOK_of_widths (t : Tri) (style : TriStyle) (hf : TriFirstNoneFinal t style)
    (hwd : ∀ calls bb, triDraw t style = some calls → triStyledBoundingBox t style = some bb →
      -2147483648 ≤ bb.tl.y ∧ ∀ rc ∈ calls, rc.1.size.w ≤ bb.size.w + 2 * style.strokeWidth + 4) :
    TriPixelBudgetOK t style := by
  unfold TriPixelBudgetOK
  cases hpx : triPixels t style with
  | none => trivial
  | some px =>
    cases hbb : triStyledBoundingBox t style with
    | none => trivial
    | some bb =>
      dsimp only
      obtain ⟨L, hL, hpre⟩ := triPixels_prefix_run t style hf bb hbb
      have hne : ∀ x ∈ L, x.1.isEmpty = false := by
        obtain ⟨li, hli⟩ := triScanlines_total t style
        obtain ⟨L2, hL2, -, hne2⟩ := triLines li
        have : triScanlineRun t style = some L2 := by unfold triScanlineRun; rw [hli]; exact hL2
        rw [hL] at this
        simp only [Option.some.injEq] at this
        subst this
        exact hne2
      rw [hpx] at hpre
      simp only [Option.some.injEq] at hpre
      have hplen : px.length ≤ (L.flatMap (typedPixels style.fillColor style.effectiveStrokeColor)).length := by
        rw [hpre, List.length_take]; exact Nat.min_le_right _ _
      have hd : triDraw t style = some (if style.isTransparent then [] else L.filterMap (triCall style)) := by
        rw [triDraw_eq]
        unfold triScanlineRun at hL
        by_cases htr : style.isTransparent = true
        · simp only [htr, ↓reduceIte]
        · simp only [htr, Bool.false_eq_true, ↓reduceIte, hL, Option.map_some]
      obtain ⟨htop, hwid⟩ := hwd _ bb hd hbb
      have hfull : (L.flatMap (typedPixels style.fillColor style.effectiveStrokeColor)).length ≤
          L.length * (bb.size.w + 2 * style.strokeWidth + 4) := by
        by_cases htr : style.isTransparent = true
        · obtain ⟨h1, h2⟩ := isTransparent_colors htr
          rw [h1, h2, flatMap_typedPixels_none]
          exact Nat.zero_le _
        · apply flatMap_length_le
          intro x hx
          obtain ⟨s, k⟩ := x
          unfold typedPixels linePixels
          dsimp only
          rw [← colorOf_eq_kindColor]
          cases hc : style.colorOf k with
          | none => exact Nat.zero_le _
          | some c =>
            dsimp only
            rw [List.length_map]
            have hs : s.isEmpty = false := hne (s, k) hx
            have hz : s.toRectangle.isZeroSized = false := by
              rw [toRectangle_of_nonempty hs]
              unfold Scanline.isEmpty at hs
              have hx' : s.xs < s.xe := by simpa using hs
              unfold Rect.isZeroSized
              simp
              omega
            have hmem : (s.toRectangle, c) ∈ (if style.isTransparent then [] else L.filterMap (triCall style)) := by
              simp only [htr, Bool.false_eq_true, ↓reduceIte]
              rw [List.mem_filterMap]
              refine ⟨(s, k), hx, ?_⟩
              unfold triCall
              dsimp only
              rw [hc]
              simp only [hz, Bool.not_false, ↓reduceIte]
            have := hwid _ hmem
            rw [toRectangle_width hs] at this
            exact this
      have hlen := triRun_length_le t style bb hbb htop L hL
      exact tri_budget_arith (bb.size.w + 2 * style.strokeWidth + 4) bb.size.h L.length px.length hlen
        (by omega)

/-! ### from "everything `draw()` fills lies inside the bounding box" (C02) -/

theorem width_le_of_contained {r bb : Rect} (hz : r.isZeroSized = false)
    (h : ∀ p, r.contains p = true → bb.contains p = true) : r.size.w ≤ bb.size.w := by
  have hwh : 0 < r.size.w ∧ 0 < r.size.h := by
    unfold Rect.isZeroSized at hz
    simp only [Bool.or_eq_false_iff, beq_eq_false_iff_ne, ne_eq] at hz
    omega
  have h1 := h r.tl (by rw [Rect.contains_iff]; omega)
  have h2 := h ⟨r.tl.x + r.size.w - 1, r.tl.y⟩ (by rw [Rect.contains_iff]; dsimp only; omega)
  rw [Rect.contains_iff] at h1 h2
  dsimp only at h2
  omega

/-- **Under the guard of C02's polyline theorem (`PolyBBoxGuard`: everything drawn lies inside the
bounding box) the pixel budget of the model suffices.** -/
theorem polyPixelBudgetOK_of_bboxGuard (pl : Polyline) (w : Nat) (hg : PolyBBoxGuard pl w) :
    PolyPixelBudgetOK pl w := by
  apply polyPixelBudgetOK_of_widths
  intro d ubb hd hbb
  rcases Nat.lt_or_ge w 2 with hw | hw
  · -- no rectangles for widths 0 and 1; the top row: the guard
    have hrects : polyRects d = [] := by
      rcases (show w = 0 ∨ w = 1 by omega) with rfl | rfl <;>
        (simp only [drawStyled, Option.some.injEq] at hd; subst hd; rfl)
    rw [hrects]
    refine ⟨?_, fun r hr => by cases hr⟩
    unfold PolyBBoxGuard at hg
    rw [hbb] at hg
    obtain ⟨segs, hsegs⟩ := polySegments_total pl.vertices w
    rw [hsegs] at hg
    exact hg.1
  · obtain ⟨hmin, -⟩ := polyScanlines_new_ok pl w hw hg ubb hbb
    refine ⟨hmin, ?_⟩
    obtain ⟨L, -, hne, hd'⟩ := drawStyled_eq_run pl w hw
    rw [hd'] at hd
    simp only [Option.some.injEq] at hd
    subst hd
    have hsb : styledBoundingBox pl w = some (ubb.translate pl.translate) := by
      unfold styledBoundingBox
      simp only [hbb, Option.bind_eq_bind, Option.bind_some, pure]
    have hin := drawStyled_in_bbox pl w hw hg _ hsb _ hd'
    intro r hr
    have hz : r.isZeroSized = false := by
      simp only [polyRects, List.mem_map] at hr
      obtain ⟨s, hs, rfl⟩ := hr
      have he : (moveS s pl.translate).isEmpty = false := by rw [moveS_isEmpty]; exact hne s hs
      rw [toRectangle_of_nonempty he]
      unfold Scanline.isEmpty at he
      have hx : (moveS s pl.translate).xs < (moveS s pl.translate).xe := by simpa using he
      unfold Rect.isZeroSized
      simp
      omega
    exact width_le_of_contained (bb := ubb.translate pl.translate) hz (hin r hr)

theorem triDraw_rect_nonzero (t : Tri) (style : TriStyle) (calls : List (Rect × Nat))
    (hd : triDraw t style = some calls) : ∀ rc ∈ calls, rc.1.isZeroSized = false := by
  rw [triDraw_eq] at hd
  by_cases htr : style.isTransparent = true
  · simp only [htr, ↓reduceIte, Option.some.injEq] at hd
    subst hd
    intro rc hrc; cases hrc
  · simp only [htr, Bool.false_eq_true, ↓reduceIte] at hd
    cases hl : (triScanlines t style).bind TriScanlines.toList with
    | none => rw [hl] at hd; cases hd
    | some l =>
      rw [hl] at hd
      simp only [Option.map_some, Option.some.injEq] at hd
      subst hd
      intro rc hrc
      rw [List.mem_filterMap] at hrc
      obtain ⟨x, -, hx⟩ := hrc
      unfold triCall at hx
      split at hx
      · dsimp only at hx
        split at hx
        · rename_i hz
          simp only [Option.some.injEq] at hx
          subst hx
          simpa using hz
        · cases hx
      · cases hx

/-- **Whenever everything `draw()` fills lies inside the bounding box (C02's claim) and the top row of
the box is an `i32`, the pixel budget of the triangle model suffices.** -/
theorem triPixelBudgetOK_of_draw_in_box (t : Tri) (style : TriStyle) (hf : TriFirstNoneFinal t style)
    (h : ∀ calls bb, triDraw t style = some calls → triStyledBoundingBox t style = some bb →
      -2147483648 ≤ bb.tl.y ∧ ∀ rc ∈ calls, ∀ p, rc.1.contains p = true → bb.contains p = true) :
    TriPixelBudgetOK t style := by
  apply triPixelBudgetOK_of_widths t style hf
  intro calls bb hd hbb
  obtain ⟨htop, hin⟩ := h calls bb hd hbb
  refine ⟨htop, fun rc hrc => ?_⟩
  have := width_le_of_contained (triDraw_rect_nonzero t style calls hd rc hrc) (hin rc hrc)
  omega

/-- `styled_bounding_box` is the plain vertex box for widths 0, 1 and for inside strokes. -/
theorem vertex_box_of_thin_or_inside (t : Tri) (style : TriStyle)
    (h : style.strokeWidth < 2 ∨ style.strokeAlignment = .inside) (bb : Rect)
    (hbb : triStyledBoundingBox t style = some bb) : bb = t.boundingBox := by
  unfold triStyledBoundingBox at hbb
  simp only [h, ↓reduceIte, Option.some.injEq] at hbb
  exact hbb.symm

end C01Thick
end EG
