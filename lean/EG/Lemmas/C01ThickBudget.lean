/-
  EG.Lemmas.C01ThickBudget — when the pixel budget of the polyline join model suffices.

  `Joins.pixels` drains the pixel iterator with a fuel derived from the styled bounding box
  (`polyPixelBudget bb * (n + 1)`). The guard `PolyPixelBudgetOK` of the C01 theorems says that fuel
  was not used up. Here: it follows from a condition on what `draw()` issues — no `fill_solid`
  rectangle is wider than the bounding box — and the top row of the box being an `i32`. That
  condition is a consequence of C02's claim (everything drawn lies inside the bounding box), so
  wherever C02 is proved the budget guard is discharged. The number of scanlines is bounded by the
  measure `mu` of the totality proofs.
  (Styled triangles need no such guard any more: `Joins.triPixels` drains with the total length of the
  scanline run as fuel, which is proved sufficient — `triPixels_eq_run`, EG/Lemmas/C01ThickTri.lean.)
-/
import EG.Lemmas.C01ThickTri
import EG.Lemmas.JoinsBBoxPolyMain
import Mathlib.Tactic.Linarith
namespace EG
namespace C01Thick
open EG.Tgt EG.Joins

theorem flatMap_length_le {α β : Type} (L : List α) (f : α → List β) (W : Nat)
    (h : ∀ a ∈ L, (f a).length ≤ W) : (L.flatMap f).length ≤ L.length * W := by
  induction L with
  | nil => simp
  | cons a L ih =>
    rw [List.flatMap_cons, List.length_append, List.length_cons, Nat.succ_mul]
    have h1 := h a List.mem_cons_self
    have h2 := ih (fun b hb => h b (List.mem_cons_of_mem _ hb))
    omega

theorem poly_budget_arith (W h n mu len : Nat) (hh : 1 ≤ h) (hn : 1 ≤ n)
    (hmu : mu ≤ (h - 1) * (n + 3) + n + 2) (hlen : len ≤ mu * W) :
    len < (W * h * 2 + 2) * (n + 1) := by
  obtain ⟨k, rfl⟩ : ∃ k, h = k + 1 := ⟨h - 1, by omega⟩
  simp only [Nat.add_sub_cancel] at hmu
  have h1 : mu * W ≤ (k * (n + 3) + n + 2) * W := Nat.mul_le_mul_right W hmu
  have h2 : W * k ≤ W * k * n := Nat.le_mul_of_pos_right _ hn
  nlinarith [h1, h2, hlen]

theorem toRectangle_width {s : Scanline} (h : s.isEmpty = false) :
    s.toRectangle.size.w = s.points.length := by
  rw [toRectangle_of_nonempty h, Scanline.points_length]

/-! ### polyline -/

/-- The scanline run of a stroked polyline has at most `(h - 1) (n + 3) + n + 2` scanlines (`h` the
height of the untranslated bounding box, `n` the number of vertices); none if the box has no row. -/
theorem polyRun_length (pl : Polyline) (w : Nat) (bb : Rect) (hbb : untranslatedBoundingBox pl w = some bb)
    (htop : -2147483648 ≤ bb.tl.y) (L : List Scanline) (hL : polyScanlineRun pl w = some L) :
    L = [] ∨ (1 ≤ bb.size.h ∧ L.length ≤ (bb.size.h - 1) * (pl.vertices.length + 3) + pl.vertices.length + 2) := by
  unfold polyScanlineRun at hL
  unfold PolyScanlines.new at hL
  simp only [hbb, Option.bind_eq_bind, Option.bind_some] at hL
  by_cases hrows : bb.tl.y < bb.rowsEnd
  · right
    have hre := rowsEnd_le bb htop
    obtain ⟨ints, hi, e1, e2, e3, e4⟩ := PolyIntersections.new_total pl.vertices w bb.tl.y
    simp only [hrows, ↓reduceIte, hi, Option.bind_some, pure] at hL
    have hok : PolyScanlines.Ok ⟨bb.tl.y + 1, bb.rowsEnd, bb.tl.y, ints⟩ := by
      show ints.remainingPoints.length ≤ ints.points.length
      rw [e1, e2]
    have hL' : listFuel PolyScanlines.next
        (PolyScanlines.stepBudget ⟨bb.tl.y + 1, bb.rowsEnd, bb.tl.y, ints⟩)
        ⟨bb.tl.y + 1, bb.rowsEnd, bb.tl.y, ints⟩ = some L := by
      rw [← polyScanlines_toListFuel_eq]; exact hL
    have hlen := listFuel_length_le_mu PolyScanlines.Ok PolyScanlines.mu
      (fun s a s' hinv hn => ⟨(polyScanlines_next_yield s s' a hinv hn).1,
        (polyScanlines_next_yield s s' a hinv hn).2.1⟩) _ _ L hok hL'
    have hm := PolyIntersections.m_le ints
    rw [e2] at hm
    unfold PolyScanlines.mu at hlen
    dsimp only at hlen
    rw [e1] at hlen
    refine ⟨by omega, ?_⟩
    have hk : (bb.rowsEnd - (bb.tl.y + 1)).toNat ≤ bb.size.h - 1 := by omega
    have := Nat.mul_le_mul_right (pl.vertices.length + 3) hk
    omega
  · left
    simp only [hrows, ↓reduceIte, pure] at hL
    have : PolyScanlines.empty.toList = some L := hL
    rw [PolyScanlines.empty_toList] at this
    simp only [Option.some.injEq] at this
    exact this.symm

/-- A bounding box with a row belongs to a polyline with two or more vertices. -/
theorem poly_vertices_of_height (pl : Polyline) (w : Nat) (bb : Rect)
    (hbb : untranslatedBoundingBox pl w = some bb) (hh : 1 ≤ bb.size.h) : 2 ≤ pl.vertices.length := by
  unfold untranslatedBoundingBox at hbb
  split at hbb
  · omega
  · simp only [Option.some.injEq] at hbb
    subst hbb
    simp [Sz.zero] at hh

/-- **The pixel budget of a stroked polyline suffices whenever no `fill_solid` rectangle of `draw()`
is wider than the bounding box** (and the top row of the box is an `i32`). -/
theorem polyPixelBudgetOK_of_widths (pl : Polyline) (w : Nat)
    (hwd : ∀ d bb, drawStyled pl w = some d → untranslatedBoundingBox pl w = some bb →
      -2147483648 ≤ bb.tl.y ∧ ∀ r ∈ polyRects d, r.size.w ≤ bb.size.w) :
    PolyPixelBudgetOK pl w := by
  unfold PolyPixelBudgetOK
  cases hps : pixels pl w with
  | none => trivial
  | some ps =>
    cases hbb : untranslatedBoundingBox pl w with
    | none => trivial
    | some bb =>
      dsimp only
      rcases Nat.lt_or_ge w 2 with hw | hw
      · exact Or.inl hw
      · right
        obtain ⟨L, hL, hne, hd⟩ := drawStyled_eq_run pl w hw
        obtain ⟨L', hL', hpre⟩ := pixels_prefix_run pl w hw bb hbb
        rw [hL] at hL'
        simp only [Option.some.injEq] at hL'
        subst hL'
        obtain ⟨htop, hwid⟩ := hwd _ bb hd hbb
        rw [hps] at hpre
        simp only [Option.some.injEq] at hpre
        have hfull : (L.flatMap (fun s => (moveS s pl.translate).points)).length ≤ L.length * bb.size.w := by
          apply flatMap_length_le
          intro s hs
          have h1 := hwid ((moveS s pl.translate).toRectangle) (by
            simp only [polyRects]; exact List.mem_map.mpr ⟨s, hs, rfl⟩)
          rw [toRectangle_width (by rw [moveS_isEmpty]; exact hne s hs)] at h1
          exact h1
        have hplen : ps.length ≤ (L.flatMap (fun s => (moveS s pl.translate).points)).length := by
          rw [hpre, List.length_take]; exact Nat.min_le_right _ _
        rcases polyRun_length pl w bb hbb htop L hL with rfl | ⟨hh, hlen⟩
        · simp only [List.flatMap_nil, List.length_nil] at hplen
          unfold polyPixelBudget
          have : 0 < (bb.size.w * bb.size.h * 2 + 2) * (pl.vertices.length + 1) := Nat.mul_pos (by omega) (by omega)
          omega
        · have hn := poly_vertices_of_height pl w bb hbb hh
          unfold polyPixelBudget
          exact poly_budget_arith bb.size.w bb.size.h pl.vertices.length L.length ps.length hh (by omega)
            hlen (by omega)

/-! ### from "everything `draw()` fills lies inside the bounding box" (C02) -/

theorem width_le_of_contained {r bb : Rect} (hz : r.isZeroSized = false)
    (h : ∀ p, r.contains p = true → bb.contains p = true) : r.size.w ≤ bb.size.w := by
  have hwh : 0 < r.size.w ∧ 0 < r.size.h := by
    unfold Rect.isZeroSized at hz
    simp only [Bool.or_eq_false_iff, beq_eq_false_iff_ne, ne_eq] at hz
    omega
  have h1 := h r.tl (by rw [Rect.contains_iff]; omega)
  have h2 := h ⟨r.tl.x + r.size.w - 1, r.tl.y⟩ (by rw [Rect.contains_iff]; dsimp only; omega)
  rw [Rect.contains_iff] at h1 h2
  dsimp only at h2
  omega

/-- **Under the guard of C02's polyline theorem (`PolyBBoxGuard`: everything drawn lies inside the
bounding box) the pixel budget of the model suffices.** -/
theorem polyPixelBudgetOK_of_bboxGuard (pl : Polyline) (w : Nat) (hg : PolyBBoxGuard pl w) :
    PolyPixelBudgetOK pl w := by
  apply polyPixelBudgetOK_of_widths
  intro d ubb hd hbb
  rcases Nat.lt_or_ge w 2 with hw | hw
  · -- no rectangles for widths 0 and 1; the top row: the guard
    have hrects : polyRects d = [] := by
      rcases (show w = 0 ∨ w = 1 by omega) with rfl | rfl <;>
        (simp only [drawStyled, Option.some.injEq] at hd; subst hd; rfl)
    rw [hrects]
    refine ⟨?_, fun r hr => by cases hr⟩
    unfold PolyBBoxGuard at hg
    rw [hbb] at hg
    obtain ⟨segs, hsegs⟩ := polySegments_total pl.vertices w
    rw [hsegs] at hg
    exact hg.1
  · obtain ⟨hmin, -⟩ := polyScanlines_new_ok pl w hw hg ubb hbb
    refine ⟨hmin, ?_⟩
    obtain ⟨L, -, hne, hd'⟩ := drawStyled_eq_run pl w hw
    rw [hd'] at hd
    simp only [Option.some.injEq] at hd
    subst hd
    have hsb : styledBoundingBox pl w = some (ubb.translate pl.translate) := by
      unfold styledBoundingBox
      simp only [hbb, Option.bind_eq_bind, Option.bind_some, pure]
    have hin := drawStyled_in_bbox pl w hw hg _ hsb _ hd'
    intro r hr
    have hz : r.isZeroSized = false := by
      simp only [polyRects, List.mem_map] at hr
      obtain ⟨s, hs, rfl⟩ := hr
      have he : (moveS s pl.translate).isEmpty = false := by rw [moveS_isEmpty]; exact hne s hs
      rw [toRectangle_of_nonempty he]
      unfold Scanline.isEmpty at he
      have hx : (moveS s pl.translate).xs < (moveS s pl.translate).xe := by simpa using he
      unfold Rect.isZeroSized
      simp
      omega
    exact width_le_of_contained (bb := ubb.translate pl.translate) hz (hin r hr)

/-- `styled_bounding_box` is the plain vertex box for widths 0, 1 and for inside strokes. -/
theorem vertex_box_of_thin_or_inside (t : Tri) (style : TriStyle)
    (h : style.strokeWidth < 2 ∨ style.strokeAlignment = .inside) (bb : Rect)
    (hbb : triStyledBoundingBox t style = some bb) : bb = t.boundingBox := by
  unfold triStyledBoundingBox at hbb
  simp only [h, ↓reduceIte, Option.some.injEq] at hbb
  exact hbb.symm

end C01Thick
end EG
