/-
  EG.Lemmas.ThickGeoMid2 — the middle slab of a stroked line, where the full extent `w - 2` (the
  oracle's `C17:thick-middle-width`) can be proved:
  * `run_cover_ex`: `run_cover` (EG.Lemmas.ThickGeoCover) with the `Extra` parallels counted: the
    accumulator that ends the run is at most `D + d + 2 D N - 2 (D - d) E`;
  * `thickPoints_mid_raw`: the two pixels of the outermost parallels in the middle slab, their bands,
    and the accumulator bound;
  * three regimes in which `(X1 - X2)^2 >= (2 w - 4)^2 L2` follows: axis-parallel / diagonal lines
    (all `X` are multiples of `2 D`, the bands are met exactly), strokes with enough `Extra`
    parallels, and flat thin strokes (`(w - 2) d^2 <= 2 D`: `N >= w` and `X1 - X2` is even).
  In general the claim has NO slack: on the lines `(0,0)-(D,1)` with `w = 2 D` the extent is
  `D (N - 2) + 2` against `(w - 2) L`, a margin of `(1 + 1/D)/L` px (0.0084 px for `D = 120`), because
  the slab holds the parallel's single minor step: the outermost left parallel shows only its low
  phase, the outermost right one only its high phase.
-/
import EG.Lemmas.ThickGeoMid
set_option linter.unusedSimpArgs false
set_option linter.unnecessarySeqFocus false
namespace EG
namespace Thick
open ParallelsIterator StrokeCtx Line

/-- `run_cover` with the `Extra` parallels counted in the accumulator bound. -/
theorem run_cover_ex (c : StrokeCtx) (hv : c.Valid) (fl : Bool) (hfr : c.FrameOK fl) (s : Pt) (T : Int)
    {it : ParallelsIterator} {xs : List ParItem} (hrun : Run it xs) :
    ∀ (iL jR : Nat) (e0 : Int), NInv c s fl it iL jR → SideOK it iL jR → it.thicknessThreshold = T →
    it.thicknessAccumulator ≤ c.D + c.d + 2 * c.D * ((iL : Int) + jR) - 2 * (c.D - c.d) * e0 →
    0 ≤ it.thicknessAccumulator →
    ∃ (nL nR : Nat) (A : Int), iL ≤ nL ∧ jR ≤ nR ∧ (nR = nL ∨ nR = nL + 1) ∧
      0 ≤ A ∧ A * A > T ∧
      A ≤ c.D + c.d + 2 * c.D * ((nL : Int) + nR) - 2 * (c.D - c.d) * (e0 + exCount xs) ∧
      ∀ n : Int, (((iL : Int) < n ∧ n ≤ nL) ∨ (-(nR : Int) < n ∧ n ≤ -(jR : Int))) →
        ∃ x ∈ xs, ParOK c s (c.ph c.M' * n) x.2.1 x.2.2 := by
  have hD := hv.hD
  have hdD := hv.hdD
  induction hrun with
  | @done it it' hn =>
    intro iL jR e0 _ hside hT hA hA0
    refine ⟨iL, jR, it.thicknessAccumulator, Nat.le_refl _, Nat.le_refl _, ?_, hA0, ?_, ?_, ?_⟩
    · rcases hside with ⟨_, h⟩ | ⟨_, h⟩ <;> omega
    · rw [← hT]; exact next_none_acc it it' hn
    · simp only [exCount, Int.add_zero]; exact hA
    · intro n hn; omega
  | @step it it' b ty xs hn _ ih =>
    intro iL jR e0 hg hside hT hA hA0
    have hd0 := hv.hd0
    obtain ⟨hsw, hcase⟩ := next_geo c hv fl hfr s it it' iL jR hg b ty hn
    obtain ⟨_, a2, a3⟩ := next_acc c it it' b ty hg.hperp hn
    have hstep : accStep c ty = 2 * c.D - 2 * (c.D - c.d) * (if ty = .extra then 1 else 0) := by
      cases ty <;> simp [accStep] <;> omega
    have hstep0 : 0 ≤ accStep c ty := by
      cases ty <;> simp only [accStep] <;> omega
    have hexc : exCount ((it.nextSide, b, ty) :: xs) =
        (if ty = .extra then 1 else 0) + exCount xs := rfl
    rcases hcase with ⟨hs, hg', hok⟩ | ⟨hs, hg', hok⟩
    · have hjR : jR = iL + 1 := by
        rcases hside with ⟨h1, _⟩ | ⟨_, h2⟩
        · rw [hs] at h1; cases h1
        · exact h2
      obtain ⟨nL, nR, A, b1, b2, b3, b0, b4, b5, b6⟩ := ih (iL + 1) jR
        (e0 + (if ty = .extra then 1 else 0)) hg'
        (Or.inl ⟨by rw [hsw, hs]; rfl, hjR⟩) (by rw [a2, hT])
        (by rw [a3, hstep]; push_cast; linarith) (by rw [a3]; omega)
      refine ⟨nL, nR, A, by omega, b2, b3, b0, b4, by rw [hexc, ← Int.add_assoc]; exact b5, ?_⟩
      intro n hn'
      by_cases hn1 : n = (iL : Int) + 1
      · exact ⟨_, List.mem_cons_self, by rw [hn1]; exact hok⟩
      · obtain ⟨x, hx, hxo⟩ := b6 n (by push_cast; omega)
        exact ⟨x, List.mem_cons_of_mem _ hx, hxo⟩
    · have hjR : jR = iL := by
        rcases hside with ⟨_, h2⟩ | ⟨h1, _⟩
        · exact h2
        · rw [hs] at h1; cases h1
      obtain ⟨nL, nR, A, b1, b2, b3, b0, b4, b5, b6⟩ := ih iL (jR + 1)
        (e0 + (if ty = .extra then 1 else 0)) hg'
        (Or.inr ⟨by rw [hsw, hs]; rfl, by omega⟩) (by rw [a2, hT])
        (by rw [a3, hstep]; push_cast; linarith) (by rw [a3]; omega)
      refine ⟨nL, nR, A, b1, by omega, b3, b0, b4, by rw [hexc, ← Int.add_assoc]; exact b5, ?_⟩
      intro n hn'
      by_cases hn1 : n = -(jR : Int)
      · exact ⟨_, List.mem_cons_self, by rw [hn1, Int.mul_neg]; exact hok⟩
      · obtain ⟨x, hx, hxo⟩ := b6 n (by push_cast; omega)
        exact ⟨x, List.mem_cons_of_mem _ hx, hxo⟩

/-- **The raw facts about the middle slab**: pixels `q1`, `q2` of the outermost left / right
parallels in the middle slab, their bands `nL`, `1 - nR`, the alternation of the sides, and the
accumulator `A` that ended the run, `A^2 > (2 w)^2 L2`, `A <= D + d + 2 D (nL + nR) - 2 (D - d) E`. -/
theorem thickPoints_mid_raw (l : Line) (hnd : l.start ≠ l.stop) (w : Nat) (hw : 1 ≤ w)
    (hw2 : w ≤ 2147483647) (ps : List Pt) (hps : thickPoints l w = some ps) :
    ∃ q1 ∈ ps, ∃ q2 ∈ ps, ∃ (nL nR : Nat) (A E : Int),
      MidP ((ctxOf l).D * (ctxOf l).D + (ctxOf l).d * (ctxOf l).d) ((ctxOf l).tmid l.start q1) ∧
      MidP ((ctxOf l).D * (ctxOf l).D + (ctxOf l).d * (ctxOf l).d) ((ctxOf l).tmid l.start q2) ∧
      ExtraParallels l w E ∧ 0 ≤ E ∧ (nR = nL ∨ nR = nL + 1) ∧ 1 ≤ nR ∧ 0 ≤ A ∧
      A * A > (w : Int) * 2 * ((w : Int) * 2) *
        ((ctxOf l).D * (ctxOf l).D + (ctxOf l).d * (ctxOf l).d) ∧
      A ≤ (ctxOf l).D + (ctxOf l).d + 2 * (ctxOf l).D * ((nL : Int) + nR) -
        2 * ((ctxOf l).D - (ctxOf l).d) * E ∧
      -(ctxOf l).D < (ctxOf l).ph q1 - (ctxOf l).ph l.start - (ctxOf l).ph (ctxOf l).M' * (nL : Int) ∧
      (ctxOf l).ph q1 - (ctxOf l).ph l.start - (ctxOf l).ph (ctxOf l).M' * (nL : Int) ≤ (ctxOf l).D ∧
      -(ctxOf l).D < (ctxOf l).ph q2 - (ctxOf l).ph l.start -
        (ctxOf l).ph (ctxOf l).M' * (1 - (nR : Int)) ∧
      (ctxOf l).ph q2 - (ctxOf l).ph l.start - (ctxOf l).ph (ctxOf l).M' * (1 - (nR : Int)) ≤
        (ctxOf l).D := by
  have hv := ctxOf_valid l
  have hD := hv.hD
  have hd0 := hv.hd0
  have hdD := hv.hdD
  have hfr := frameOK_ctxOf l
  have hsat : satAsI32 w = (w : Int) := by unfold satAsI32; simp only [hw2, ↓reduceIte]
  obtain ⟨it, xs, hnew, hrun, rfl⟩ := thickPoints_run l w (by omega) ps hps
  obtain ⟨it', hnew', hside, hg, hacc, hthr⟩ := new_ninv l (satAsI32 w)
  rw [hnew] at hnew'
  simp only [Option.some.injEq] at hnew'
  subst hnew'
  rw [hsat, L2_eq] at hthr
  obtain ⟨nL, nR, A, _, _, hlr, hA0, hA, hAle, hcov⟩ := run_cover_ex (ctxOf l) hv _ hfr l.start _ hrun 0 0 0 hg
    (Or.inl ⟨hside, rfl⟩) hthr (by rw [hacc]; simp) (by rw [hacc]; omega)
  simp only [Int.zero_add] at hAle
  have hE0 := exCount_nonneg xs
  -- at least the centre line has been yielded
  have hnR : 1 ≤ nR := by
    by_contra hc
    have h0 : nR = 0 := by omega
    have h1 : nL = 0 := by rcases hlr with h | h <;> omega
    rw [h0, h1] at hAle
    simp only [Nat.cast_zero, Int.add_zero, Int.mul_zero] at hAle
    have hE1 : 0 ≤ ((ctxOf l).D - (ctxOf l).d) * exCount xs := Int.mul_nonneg (by omega) hE0
    have hAle' : A ≤ (ctxOf l).D + (ctxOf l).d := by linarith
    have h2 : A * A ≤ ((ctxOf l).D + (ctxOf l).d) * ((ctxOf l).D + (ctxOf l).d) :=
      Int.mul_le_mul hAle' hAle' hA0 (by omega)
    have h3 : ((ctxOf l).D + (ctxOf l).d) * ((ctxOf l).D + (ctxOf l).d) ≤
        1 * 2 * (1 * 2) * ((ctxOf l).D * (ctxOf l).D + (ctxOf l).d * (ctxOf l).d) := by nlinarith
    have h4 : (1 : Int) * 2 * (1 * 2) ≤ (w : Int) * 2 * ((w : Int) * 2) := by
      have : (1 : Int) ≤ w := by omega
      nlinarith
    have h5 := Int.mul_le_mul_of_nonneg_right h4
      (show 0 ≤ (ctxOf l).D * (ctxOf l).D + (ctxOf l).d * (ctxOf l).d by nlinarith)
    omega
  obtain ⟨x1, hx1, hok1⟩ := hcov (nL : Int) (by
    by_cases h0 : nL = 0
    · right; rw [h0]; simp; omega
    · left; constructor <;> simp <;> omega)
  obtain ⟨x2, hx2, hok2⟩ := hcov (1 - (nR : Int)) (by right; simp; omega)
  obtain ⟨q1, hq1, hm1⟩ := par_mid l hnd _ x1.2.1 x1.2.2 hok1
  obtain ⟨q2, hq2, hm2⟩ := par_mid l hnd _ x2.2.1 x2.2.2 hok2
  obtain ⟨a1, a2⟩ := parPts_band hv hok1 _ q1 hq1
  obtain ⟨a3, a4⟩ := parPts_band hv hok2 _ q2 hq2
  exact ⟨q1, List.mem_flatMap.mpr ⟨x1, hx1, hq1⟩, q2, List.mem_flatMap.mpr ⟨x2, hx2, hq2⟩, nL, nR, A,
    exCount xs, hm1, hm2, ⟨it, xs, hnew, hrun, rfl⟩, hE0, hlr, hnR, hA0, hA, hAle, a1, a2, a3, a4⟩

/-! ### Arithmetic -/

/-- From `A <= Z + Y`, `A^2 > (2 w)^2 S`, `Y^2 <= c^2 S`: `Z^2 >= (2 w - c)^2 S`. -/
theorem extent_arith_gen (S w A Z Y c : Int) (hS0 : 0 ≤ S) (hc : 0 ≤ c) (hcw : c ≤ 2 * w) (hA0 : 0 ≤ A)
    (hA : A * A > w * 2 * (w * 2) * S) (hZ0 : 0 ≤ Z) (hY0 : 0 ≤ Y) (hY : Y * Y ≤ c * c * S)
    (hZ : A ≤ Z + Y) : (2 * w - c) * (2 * w - c) * S ≤ Z * Z := by
  by_contra hcon
  have h1 : Z * Z ≤ (2 * w - c) * (2 * w - c) * S := by omega
  have h3 := sq_add_le Z Y (2 * w - c) c S hZ0 hY0 (by omega) hc hS0 h1 hY
  have h4 : A * A ≤ (Z + Y) * (Z + Y) := Int.mul_le_mul hZ hZ hA0 (by omega)
  have h5 : (2 * w - c + c) * (2 * w - c + c) = w * 2 * (w * 2) := by ring
  rw [h5] at h3
  omega

/-- A multiple of `2 D` in `(-D, D]` is zero. -/
theorem mult_band (D m : Int) (hD : 0 < D) (h1 : -D < 2 * D * m) (h2 : 2 * D * m ≤ D) : m = 0 := by
  by_contra hne
  rcases Int.lt_or_gt_of_ne hne with h | h
  · have : 2 * D * m ≤ 2 * D * (-1) := Int.mul_le_mul_of_nonneg_left (by omega) (by omega)
    omega
  · have : 2 * D * 1 ≤ 2 * D * m := Int.mul_le_mul_of_nonneg_left (by omega) (by omega)
    omega

/-- The band values of the two pixels, as one absolute difference `Z`. -/
theorem mid_Z (D tau X1 X2 : Int) (nL nR : Nat) (_hD : 0 < D) (ht : tau = 2 * D ∨ tau = -(2 * D))
    (_hnR : 1 ≤ nR) (a1 : -D < X1 - tau * (nL : Int)) (a2 : X1 - tau * (nL : Int) ≤ D)
    (a3 : -D < X2 - tau * (1 - (nR : Int))) (a4 : X2 - tau * (1 - (nR : Int)) ≤ D) :
    ∃ Z : Int, 0 ≤ Z ∧ Z * Z = (X1 - X2) * (X1 - X2) ∧ 2 * D * ((nL : Int) + nR - 2) < Z ∧
      (Z = X1 - X2 ∨ Z = X2 - X1) := by
  have e1 : D * ((nL : Int) + nR - 2) = D * (nL : Int) + D * (nR : Int) - 2 * D := by ring
  have hlt : 2 * D * ((nL : Int) + nR - 2) < X1 - X2 ∨ 2 * D * ((nL : Int) + nR - 2) < X2 - X1 := by
    rcases ht with rfl | rfl
    · left; nlinarith
    · right; nlinarith
  by_cases h0 : 0 ≤ X1 - X2
  · refine ⟨X1 - X2, h0, rfl, ?_, Or.inl rfl⟩
    rcases hlt with h | h <;> omega
  · refine ⟨X2 - X1, by omega, by ring, ?_, Or.inr rfl⟩
    rcases hlt with h | h <;> omega

/-- `N >= w`: the accumulator `D + d + 2 D N` exceeds `2 w L >= 2 w D`. -/
theorem count_ge_width (D d w A N : Int) (hD : 0 < D) (hd0 : 0 ≤ d) (hdD : d ≤ D) (_hw : 0 ≤ w)
    (hA0 : 0 ≤ A) (hA : A * A > w * 2 * (w * 2) * (D * D + d * d)) (hAle : A ≤ D + d + 2 * D * N) :
    w ≤ N := by
  by_contra hc
  have h1 : D * N ≤ D * (w - 1) := Int.mul_le_mul_of_nonneg_left (by omega) (by omega)
  have h2 : A ≤ 2 * D * w := by nlinarith
  have h3 : A * A ≤ (2 * D * w) * (2 * D * w) := Int.mul_le_mul h2 h2 hA0 (by nlinarith)
  have h4 : 0 ≤ w * 2 * (w * 2) * (d * d) := by
    apply Int.mul_nonneg _ (Int.mul_nonneg hd0 hd0)
    nlinarith
  nlinarith

/-- On axis-parallel and diagonal lines the band form takes multiples of `2 D` only. -/
theorem ph_mult (c : StrokeCtx) (h : c.d = 0 ∨ c.d = c.D) (p : Pt) : ∃ k : Int, c.ph p = 2 * c.D * k := by
  unfold StrokeCtx.ph
  rcases h with h | h <;> rw [h]
  · exact ⟨-c.amin p, by ring⟩
  · exact ⟨c.amaj p - c.amin p, by ring⟩

/-- The band form is even. -/
theorem ph_even (c : StrokeCtx) (p : Pt) : ∃ k : Int, c.ph p = 2 * k := by
  unfold StrokeCtx.ph
  exact ⟨c.d * c.amaj p - c.D * c.amin p, by ring⟩

/-- **Axis-parallel and diagonal lines: the middle slab has the full extent `w - 2`.** -/
theorem thickPoints_mid_extent_axis (l : Line) (hnd : l.start ≠ l.stop) (w : Nat) (hw : 2 ≤ w)
    (hw2 : w ≤ 2147483647) (ps : List Pt) (hps : thickPoints l w = some ps)
    (hreg : (ctxOf l).d = 0 ∨ (ctxOf l).d = (ctxOf l).D) :
    ∃ q1 ∈ ps, ∃ q2 ∈ ps,
      MidP ((ctxOf l).D * (ctxOf l).D + (ctxOf l).d * (ctxOf l).d) ((ctxOf l).tmid l.start q1) ∧
      MidP ((ctxOf l).D * (ctxOf l).D + (ctxOf l).d * (ctxOf l).d) ((ctxOf l).tmid l.start q2) ∧
      (2 * (w : Int) - 4) * (2 * (w : Int) - 4) *
          ((ctxOf l).D * (ctxOf l).D + (ctxOf l).d * (ctxOf l).d) ≤
        ((ctxOf l).ph q1 - (ctxOf l).ph q2) * ((ctxOf l).ph q1 - (ctxOf l).ph q2) := by
  have hv := ctxOf_valid l
  have hD := hv.hD
  have hd0 := hv.hd0
  have hdD := hv.hdD
  obtain ⟨q1, hq1, q2, hq2, nL, nR, A, E, m1, m2, _, hE0, hlr, hnR, hA0, hA, hAle, a1, a2, a3, a4⟩ :=
    thickPoints_mid_raw l hnd w (by omega) hw2 ps hps
  refine ⟨q1, hq1, q2, hq2, m1, m2, ?_⟩
  obtain ⟨k1, hk1⟩ := ph_mult (ctxOf l) hreg q1
  obtain ⟨k2, hk2⟩ := ph_mult (ctxOf l) hreg q2
  obtain ⟨k0, hk0⟩ := ph_mult (ctxOf l) hreg l.start
  have hS0 : 0 ≤ (ctxOf l).D * (ctxOf l).D + (ctxOf l).d * (ctxOf l).d := by nlinarith
  have hEE : 0 ≤ ((ctxOf l).D - (ctxOf l).d) * E := Int.mul_nonneg (by omega) hE0
  have hY : (3 * (ctxOf l).D + (ctxOf l).d) * (3 * (ctxOf l).D + (ctxOf l).d) ≤
      4 * 4 * ((ctxOf l).D * (ctxOf l).D + (ctxOf l).d * (ctxOf l).d) := by nlinarith
  have hN0 : 0 ≤ (ctxOf l).D * ((nL : Int) + nR - 1) := Int.mul_nonneg (by omega) (by omega)
  have key : ((ctxOf l).ph q1 - (ctxOf l).ph q2) * ((ctxOf l).ph q1 - (ctxOf l).ph q2) =
      (2 * (ctxOf l).D * ((nL : Int) + nR - 1)) * (2 * (ctxOf l).D * ((nL : Int) + nR - 1)) := by
    rcases tau_cases (frameOK_ctxOf l) with ht | ht <;> rw [ht, hk1, hk0] at a1 a2 <;>
      rw [ht, hk2, hk0] at a3 a4
    · have e1 : k1 - k0 - (nL : Int) = 0 := mult_band (ctxOf l).D _ hD (by linarith) (by linarith)
      have e2 : k2 - k0 - (1 - (nR : Int)) = 0 := mult_band (ctxOf l).D _ hD (by linarith) (by linarith)
      have : k1 - k2 = (nL : Int) + nR - 1 := by omega
      rw [hk1, hk2, ← this]; ring
    · have e1 : k1 - k0 + (nL : Int) = 0 := mult_band (ctxOf l).D _ hD (by linarith) (by linarith)
      have e2 : k2 - k0 + (1 - (nR : Int)) = 0 := mult_band (ctxOf l).D _ hD (by linarith) (by linarith)
      have : k1 - k2 = -((nL : Int) + nR - 1) := by omega
      rw [hk1, hk2]
      have e : 2 * (ctxOf l).D * k1 - 2 * (ctxOf l).D * k2 = 2 * (ctxOf l).D * (k1 - k2) := by ring
      rw [e, this]; ring
  rw [key]
  exact extent_arith_gen _ w A (2 * (ctxOf l).D * ((nL : Int) + nR - 1))
    (3 * (ctxOf l).D + (ctxOf l).d) 4 hS0 (by omega) (by omega) hA0 hA (by linarith) (by omega) hY
    (by linarith)

/-- **Strokes with enough `Extra` parallels: the middle slab has the full extent `w - 2`**, namely
when `Y = 5 D + d - 2 (D - d) E` satisfies `Y <= 0` or `Y^2 <= 16 L2` (`Y <= 4 L`). -/
theorem thickPoints_mid_extent_extras (l : Line) (hnd : l.start ≠ l.stop) (w : Nat) (hw : 2 ≤ w)
    (hw2 : w ≤ 2147483647) (ps : List Pt) (hps : thickPoints l w = some ps) (E : Int)
    (hE : ExtraParallels l w E)
    (hreg : 5 * (ctxOf l).D + (ctxOf l).d - 2 * ((ctxOf l).D - (ctxOf l).d) * E ≤ 0 ∨
      (5 * (ctxOf l).D + (ctxOf l).d - 2 * ((ctxOf l).D - (ctxOf l).d) * E) *
        (5 * (ctxOf l).D + (ctxOf l).d - 2 * ((ctxOf l).D - (ctxOf l).d) * E) ≤
        16 * ((ctxOf l).D * (ctxOf l).D + (ctxOf l).d * (ctxOf l).d)) :
    ∃ q1 ∈ ps, ∃ q2 ∈ ps,
      MidP ((ctxOf l).D * (ctxOf l).D + (ctxOf l).d * (ctxOf l).d) ((ctxOf l).tmid l.start q1) ∧
      MidP ((ctxOf l).D * (ctxOf l).D + (ctxOf l).d * (ctxOf l).d) ((ctxOf l).tmid l.start q2) ∧
      (2 * (w : Int) - 4) * (2 * (w : Int) - 4) *
          ((ctxOf l).D * (ctxOf l).D + (ctxOf l).d * (ctxOf l).d) ≤
        ((ctxOf l).ph q1 - (ctxOf l).ph q2) * ((ctxOf l).ph q1 - (ctxOf l).ph q2) := by
  have hv := ctxOf_valid l
  have hD := hv.hD
  have hd0 := hv.hd0
  have hdD := hv.hdD
  obtain ⟨q1, hq1, q2, hq2, nL, nR, A, E', m1, m2, hE', hE0, hlr, hnR, hA0, hA, hAle, a1, a2, a3, a4⟩ :=
    thickPoints_mid_raw l hnd w (by omega) hw2 ps hps
  have := extraParallels_unique l w E' E hE' hE
  subst this
  refine ⟨q1, hq1, q2, hq2, m1, m2, ?_⟩
  have hS0 : 0 ≤ (ctxOf l).D * (ctxOf l).D + (ctxOf l).d * (ctxOf l).d := by nlinarith
  have e0 : (ctxOf l).ph q1 - (ctxOf l).ph q2 =
      ((ctxOf l).ph q1 - (ctxOf l).ph l.start) - ((ctxOf l).ph q2 - (ctxOf l).ph l.start) := by ring
  obtain ⟨Z, hZ0, hZZ, hZ1, _⟩ := mid_Z (ctxOf l).D _ _ _ nL nR hD (tau_cases (frameOK_ctxOf l)) hnR
    a1 a2 a3 a4
  rw [e0, ← hZZ]
  have hAZ : A ≤ Z + (5 * (ctxOf l).D + (ctxOf l).d - 2 * ((ctxOf l).D - (ctxOf l).d) * E') := by
    linarith
  rcases hreg with hneg | hsq
  · -- A <= Z
    have hAZ' : A ≤ Z := by omega
    have h1 : A * A ≤ Z * Z := Int.mul_le_mul hAZ' hAZ' hA0 hZ0
    have h2 : (2 * (w : Int) - 4) * (2 * (w : Int) - 4) ≤ (w : Int) * 2 * ((w : Int) * 2) := by
      have : (2 : Int) ≤ w := by omega
      nlinarith
    have h3 := Int.mul_le_mul_of_nonneg_right h2 hS0
    omega
  · by_cases hneg : 5 * (ctxOf l).D + (ctxOf l).d - 2 * ((ctxOf l).D - (ctxOf l).d) * E' ≤ 0
    · have hAZ' : A ≤ Z := by omega
      have h1 : A * A ≤ Z * Z := Int.mul_le_mul hAZ' hAZ' hA0 hZ0
      have h2 : (2 * (w : Int) - 4) * (2 * (w : Int) - 4) ≤ (w : Int) * 2 * ((w : Int) * 2) := by
        have : (2 : Int) ≤ w := by omega
        nlinarith
      have h3 := Int.mul_le_mul_of_nonneg_right h2 hS0
      omega
    · exact extent_arith_gen _ w A Z _ 4 hS0 (by omega) (by omega) hA0 hA hZ0 (by omega)
        (by rw [show (4 : Int) * 4 = 16 by rfl]; exact hsq) hAZ

/-- **Flat thin strokes, `(w - 2) d^2 <= 2 D`: the middle slab has the full extent `w - 2`**
(`N >= w` parallels, and the extent, an even number above `2 D (N - 2)`, is at least `2 D (w - 2) + 2`).
This regime contains the lines with the smallest margin, `(0,0)-(D,1)` with `w = 2 D`. -/
theorem thickPoints_mid_extent_flat (l : Line) (hnd : l.start ≠ l.stop) (w : Nat) (hw : 2 ≤ w)
    (hw2 : w ≤ 2147483647) (ps : List Pt) (hps : thickPoints l w = some ps)
    (hreg : ((w : Int) - 2) * ((ctxOf l).d * (ctxOf l).d) ≤ 2 * (ctxOf l).D) :
    ∃ q1 ∈ ps, ∃ q2 ∈ ps,
      MidP ((ctxOf l).D * (ctxOf l).D + (ctxOf l).d * (ctxOf l).d) ((ctxOf l).tmid l.start q1) ∧
      MidP ((ctxOf l).D * (ctxOf l).D + (ctxOf l).d * (ctxOf l).d) ((ctxOf l).tmid l.start q2) ∧
      (2 * (w : Int) - 4) * (2 * (w : Int) - 4) *
          ((ctxOf l).D * (ctxOf l).D + (ctxOf l).d * (ctxOf l).d) ≤
        ((ctxOf l).ph q1 - (ctxOf l).ph q2) * ((ctxOf l).ph q1 - (ctxOf l).ph q2) := by
  have hv := ctxOf_valid l
  have hD := hv.hD
  have hd0 := hv.hd0
  have hdD := hv.hdD
  obtain ⟨q1, hq1, q2, hq2, nL, nR, A, E, m1, m2, _, hE0, hlr, hnR, hA0, hA, hAle, a1, a2, a3, a4⟩ :=
    thickPoints_mid_raw l hnd w (by omega) hw2 ps hps
  refine ⟨q1, hq1, q2, hq2, m1, m2, ?_⟩
  have hEE : 0 ≤ ((ctxOf l).D - (ctxOf l).d) * E := Int.mul_nonneg (by omega) hE0
  have hN : (w : Int) ≤ (nL : Int) + nR :=
    count_ge_width (ctxOf l).D (ctxOf l).d w A _ hD hd0 hdD (by omega) hA0 hA (by linarith)
  have e0 : (ctxOf l).ph q1 - (ctxOf l).ph q2 =
      ((ctxOf l).ph q1 - (ctxOf l).ph l.start) - ((ctxOf l).ph q2 - (ctxOf l).ph l.start) := by ring
  obtain ⟨Z, hZ0, hZZ, hZ1, hZ2⟩ := mid_Z (ctxOf l).D _ _ _ nL nR hD (tau_cases (frameOK_ctxOf l)) hnR
    a1 a2 a3 a4
  rw [e0, ← hZZ]
  -- Z is even
  obtain ⟨k1, hk1⟩ := ph_even (ctxOf l) q1
  obtain ⟨k2, hk2⟩ := ph_even (ctxOf l) q2
  have hDW : (ctxOf l).D * ((w : Int) - 2) ≤ (ctxOf l).D * ((nL : Int) + nR - 2) :=
    Int.mul_le_mul_of_nonneg_left (by omega) (by omega)
  have e1 : 2 * (ctxOf l).D * ((nL : Int) + nR - 2) = 2 * ((ctxOf l).D * ((nL : Int) + nR - 2)) := by ring
  rw [e1] at hZ1
  have hZge : 2 * ((ctxOf l).D * ((w : Int) - 2)) + 2 ≤ Z := by
    rcases hZ2 with h | h <;> omega
  have hW0 : 0 ≤ (w : Int) - 2 := by omega
  have hDW0 : 0 ≤ (ctxOf l).D * ((w : Int) - 2) := Int.mul_nonneg (by omega) hW0
  have h1 : (2 * ((ctxOf l).D * ((w : Int) - 2)) + 2) * (2 * ((ctxOf l).D * ((w : Int) - 2)) + 2) ≤ Z * Z :=
    Int.mul_le_mul hZge hZge (by omega) hZ0
  have h2 : ((w : Int) - 2) * (((w : Int) - 2) * ((ctxOf l).d * (ctxOf l).d)) ≤
      ((w : Int) - 2) * (2 * (ctxOf l).D) := Int.mul_le_mul_of_nonneg_left hreg hW0
  nlinarith

end Thick
end EG
