/-
  EG.Lemmas.ScanlineTranslate — moving scanlines and styled scanlines by a vector: the draw path
  (`drawLines`, `drawFillLines`) of the moved lines makes the moved calls, the pixels path
  (`pixelsSpec`, `StyledPixelsIt`) yields the moved pixels; `Range::find` / `rfind` / the mirrored
  range of a moved predicate over a moved range. Shared by the circle, ellipse and rounded
  rectangle parts of C07.
-/
import EG.Lemmas.ScanlinePaths
import EG.Lemmas.PMapTranslate
import EG.Model.RoundedRect
namespace EG

/-- A scanline moved by `d`. -/
def Scanline.shift (d : Pt) (s : Scanline) : Scanline := ⟨s.y + d.y, s.xs + d.x, s.xe + d.x⟩

/-- A styled scanline moved by `d`. -/
def StyledScanline.shift (d : Pt) (l : StyledScanline) : StyledScanline :=
  ⟨l.y + d.y, l.ss + d.x, l.se + d.x, l.fs + d.x, l.fe + d.x⟩

/-! ### ranges -/

theorem rangeFind_shift {p p' : Int → Bool} (d : Int) (h : ∀ x, p' (x + d) = p x) (a b : Int) :
    rangeFind p' (a + d) (b + d) = (rangeFind p a b).map (· + d) := by
  unfold rangeFind
  rw [irange_shift, List.find?_map]
  have : (p' ∘ fun x => x + d) = p := by funext x; exact h x
  rw [this]

theorem rangeRFind_shift {p p' : Int → Bool} (d : Int) (h : ∀ x, p' (x + d) = p x) (a b : Int) :
    rangeRFind p' (a + d) (b + d) = (rangeRFind p a b).map (· + d) := by
  unfold rangeRFind
  rw [irange_shift, ← List.map_reverse, List.find?_map]
  have : (p' ∘ fun x => x + d) = p := by funext x; exact h x
  rw [this]

theorem mirroredRange_shift {p p' : Int → Bool} (d : Int) (h : ∀ x, p' (x + d) = p x) (a b : Int) :
    mirroredRange p' (a + d) (b + d) = (mirroredRange p a b).map (fun r => (r.1 + d, r.2 + d)) := by
  unfold mirroredRange
  rw [rangeFind_shift d h]
  cases rangeFind p a b with
  | none => rfl
  | some x =>
    simp only [Option.map_some, Option.some.injEq, Prod.mk.injEq, true_and]
    omega

theorem untilNone_map_map {α β : Type} (f : α → β) :
    ∀ (l : List (Option α)), untilNone (l.map (Option.map f)) = (untilNone l).map f := by
  intro l
  induction l with
  | nil => rfl
  | cons a l ih =>
    cases a with
    | none => rfl
    | some a => simp only [List.map_cons, Option.map_some, untilNone, ih]

theorem filterMap_congr' {α β : Type} {f g : α → Option β} : ∀ (l : List α),
    (∀ a ∈ l, f a = g a) → l.filterMap f = l.filterMap g := by
  intro l
  induction l with
  | nil => intro _; rfl
  | cons a l ih =>
    intro h
    rw [List.filterMap_cons, List.filterMap_cons, h a List.mem_cons_self,
      ih (fun b hb => h b (List.mem_cons_of_mem _ hb))]

/-! ### one scanline -/

namespace Scanline

theorem shift_isEmpty (d : Pt) (s : Scanline) : (s.shift d).isEmpty = s.isEmpty := by
  unfold isEmpty shift
  congr 1
  rw [decide_eq_decide]
  dsimp only
  omega

/-- `Scanline::draw` of the moved scanline makes the moved call. -/
theorem draw_shift (d : Pt) (s : Scanline) (c : Color) :
    (s.shift d).draw c = (s.draw c).map (Call.translate d) := by
  unfold draw
  rw [shift_isEmpty]
  cases s.isEmpty
  · simp only [Bool.false_eq_true, ↓reduceIte, List.map_cons, List.map_nil, Call.translate,
      Rect.translate, shift]
    have e : (s.xe + d.x - (s.xs + d.x)).toNat = (s.xe - s.xs).toNat := by omega
    rw [e]
    rfl
  · rfl

theorem points_shift (d : Pt) (s : Scanline) : (s.shift d).points = s.points.map (· + d) := by
  unfold points shift
  dsimp only
  rw [irange_shift, List.map_map, List.map_map]
  rfl

theorem shift_WF_iff (d : Pt) (s : Scanline) :
    (s.shift d).WF ↔ (⟨⟨s.xs + d.x, s.y + d.y⟩, ⟨(s.xe - s.xs).toNat, 1⟩⟩ : Rect).InRange := by
  unfold WF shift
  dsimp only
  have e : (s.xe + d.x - (s.xs + d.x)).toNat = (s.xe - s.xs).toNat := by omega
  rw [e]

end Scanline

/-! ### one styled scanline -/

namespace StyledScanline

theorem shift_strokeLeft (d : Pt) (l : StyledScanline) :
    (l.shift d).strokeLeft = l.strokeLeft.shift d := rfl
theorem shift_strokeRight (d : Pt) (l : StyledScanline) :
    (l.shift d).strokeRight = l.strokeRight.shift d := rfl
theorem shift_fill (d : Pt) (l : StyledScanline) : (l.shift d).fill = l.fill.shift d := rfl

theorem drawStroke_shift (d : Pt) (l : StyledScanline) (sc : Color) :
    (l.shift d).drawStroke sc = (l.drawStroke sc).map (Call.translate d) := by
  unfold drawStroke
  rw [shift_strokeLeft, shift_strokeRight, Scanline.draw_shift, Scanline.draw_shift, List.map_append]

theorem drawStrokeAndFill_shift (d : Pt) (l : StyledScanline) (sc fc : Color) :
    (l.shift d).drawStrokeAndFill sc fc = (l.drawStrokeAndFill sc fc).map (Call.translate d) := by
  unfold drawStrokeAndFill
  rw [shift_strokeLeft, shift_strokeRight, shift_fill, Scanline.draw_shift, Scanline.draw_shift,
    Scanline.draw_shift, List.map_append, List.map_append]

/-- `StyledScanline::new` of moved ranges is the moved styled scanline. -/
theorem new_shift (d : Pt) (y ss se : Int) (fill : Option (Int × Int)) :
    StyledScanline.new (y + d.y) (ss + d.x) (se + d.x) (fill.map (fun r => (r.1 + d.x, r.2 + d.x))) =
      (StyledScanline.new y ss se fill).shift d := by
  cases fill with
  | none => rfl
  | some r => rfl

theorem pixelsSpec_shift (d : Pt) (sc fc : Option Color) (l : StyledScanline) :
    (l.shift d).pixelsSpec sc fc = Writes.translate d (l.pixelsSpec sc fc) := by
  unfold pixelsSpec Writes.translate
  rw [shift_strokeLeft, shift_strokeRight, shift_fill, Scanline.points_shift, Scanline.points_shift,
    Scanline.points_shift]
  cases sc <;> cases fc <;> simp only [List.map_append, List.map_map, List.map_nil] <;> rfl

end StyledScanline

/-! ### lists of scanlines -/

theorem map_flatMap_map {α β γ : Type} (f : α → α) (g : α → List β) (h : β → γ) (g' : α → List γ)
    (e : ∀ a, g' (f a) = (g a).map h) (l : List α) :
    (l.map f).flatMap g' = (l.flatMap g).map h := by
  induction l with
  | nil => rfl
  | cons a l ih => simp only [List.map_cons, List.flatMap_cons, List.map_append, ih, e]

/-- **The draw path of moved styled scanlines makes the moved calls.** -/
theorem drawLines_shift (d : Pt) (sc : Color) (fc : Option Color) (lines : List StyledScanline) :
    drawLines sc fc (lines.map (StyledScanline.shift d)) =
      (drawLines sc fc lines).map (Call.translate d) := by
  unfold drawLines
  cases fc with
  | none => exact map_flatMap_map _ _ _ _ (fun l => l.drawStroke_shift d sc) lines
  | some fc => exact map_flatMap_map _ _ _ _ (fun l => l.drawStrokeAndFill_shift d sc fc) lines

/-- **The fill-only draw path of moved scanlines makes the moved calls.** -/
theorem drawFillLines_shift (d : Pt) (fc : Color) (lines : List Scanline) :
    drawFillLines fc (lines.map (Scanline.shift d)) =
      (drawFillLines fc lines).map (Call.translate d) := by
  unfold drawFillLines
  exact map_flatMap_map _ _ _ _ (fun l => l.draw_shift d fc) lines

/-- The closed form of the pixels path over moved styled scanlines: the moved pixels. -/
theorem pixelsSpec_shift (d : Pt) (sc fc : Option Color) (lines : List StyledScanline) :
    pixelsSpec sc fc (lines.map (StyledScanline.shift d)) =
      Writes.translate d (pixelsSpec sc fc lines) := by
  unfold pixelsSpec
  exact map_flatMap_map _ _ _ _ (fun l => l.pixelsSpec_shift d sc fc) lines

/-- **The `StyledPixelsIterator` over moved styled scanlines yields the moved pixels**, in the
same order. -/
theorem StyledPixelsIt.toList_new_shift (d : Pt) (lines : List StyledScanline)
    (sc fc : Option Color) :
    (StyledPixelsIt.new (lines.map (StyledScanline.shift d)) sc fc).toList =
      Writes.translate d (StyledPixelsIt.new lines sc fc).toList := by
  rw [StyledPixelsIt.toList_new, StyledPixelsIt.toList_new, pixelsSpec_shift]

end EG
