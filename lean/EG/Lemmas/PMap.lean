/-
  EG.Lemmas.PMap — more facts about pixel maps (on top of EG.Lemmas.Target: `lastWrite` algebra,
  `PMap.apply_eq`, `runDefault_eq_runNative`), in particular for lists of `fill_solid` calls:
  the value at `p` is the colour of the LAST rectangle containing `p`, restricted to the target box;
  and for `draw_iter` of a write list whose points are pairwise distinct.
-/
import EG.Lemmas.Target
namespace EG
open EG.Tgt

/-! ### `apply`: last write wins -/

theorem PMap.apply_nil (m : PMap) : m.apply [] = m := rfl

theorem PMap.set_at (m : PMap) (w : Pt × Color) (p : Pt) :
    Tgt.PMap.set m w p = if p = w.1 then some w.2 else m p := rfl

theorem PMap.apply_append (m : PMap) (ws1 ws2 : Writes) :
    m.apply (ws1 ++ ws2) = (m.apply ws1).apply ws2 := by
  induction ws1 generalizing m with
  | nil => rfl
  | cons w ws1 ih => rw [List.cons_append, PMap.apply_cons, PMap.apply_cons, ih]

/-- A point no write touches keeps its old content. -/
theorem PMap.apply_of_not_mem (m : PMap) (ws : Writes) (p : Pt) (h : ∀ w ∈ ws, w.1 ≠ p) :
    m.apply ws p = m p := by
  induction ws generalizing m with
  | nil => rfl
  | cons w ws ih =>
    rw [PMap.apply_cons, ih _ (fun w' hw' => h w' (List.mem_cons_of_mem _ hw'))]
    have := h w List.mem_cons_self
    rw [PMap.set_at, if_neg (fun e => this e.symm)]

/-- If all writes carry the same colour, a touched point has that colour. -/
theorem PMap.apply_const (m : PMap) (ws : Writes) (p : Pt) (c : Color)
    (hc : ∀ w ∈ ws, w.2 = c) (hp : ∃ w ∈ ws, w.1 = p) : m.apply ws p = some c := by
  induction ws generalizing m with
  | nil => obtain ⟨w, hw, _⟩ := hp; cases hw
  | cons w ws ih =>
    rw [PMap.apply_cons]
    by_cases hex : ∃ w' ∈ ws, w'.1 = p
    · exact ih _ (fun w' hw' => hc w' (List.mem_cons_of_mem _ hw')) hex
    · rw [PMap.apply_of_not_mem _ ws p (fun w' hw' e => hex ⟨w', hw', e⟩)]
      obtain ⟨w', hw', e⟩ := hp
      rcases List.mem_cons.mp hw' with rfl | hw'
      · rw [PMap.set_at, if_pos e.symm, hc w' List.mem_cons_self]
      · exact absurd ⟨w', hw', e⟩ hex

/-- If every point is written at most once, a written point has the colour written to it. -/
theorem PMap.apply_nodup (m : PMap) (ws : Writes) (p : Pt) (c : Color)
    (hn : (ws.map Prod.fst).Nodup) (hp : (p, c) ∈ ws) : m.apply ws p = some c := by
  induction ws generalizing m with
  | nil => cases hp
  | cons w ws ih =>
    rw [PMap.apply_cons]
    rw [List.map_cons, List.nodup_cons] at hn
    rcases List.mem_cons.mp hp with rfl | hp'
    · rw [PMap.apply_of_not_mem]
      · rw [PMap.set_at]; simp
      · intro w' hw' e
        exact hn.1 (List.mem_map.mpr ⟨w', hw', e⟩)
    · exact ih _ hn.2 hp'

/-! ### `lastWrite`: the lookup form of `apply` (from EG.Lemmas.Target) -/

/-- `apply` is "look up the last write, else the old content". -/
theorem PMap.apply_eq_lastWrite (m : PMap) (ws : Writes) (p : Pt) :
    m.apply ws p = match lastWrite ws p with
      | some c => some c
      | none => m p := by
  rw [PMap.apply_eq]
  cases lastWrite ws p <;> rfl

/-! ### Runs of call lists -/

theorem runNative_nil (B : Rect) : runNative B [] = PMap.empty := rfl

theorem runNative_drawIter (B : Rect) (ws : Writes) :
    runNative B [Call.drawIter ws] = PMap.empty.apply (clipWrites B ws) := by
  simp [runNative, Call.writesNative, Call.lowerNative]

theorem runDefault_drawIter (B : Rect) (ws : Writes) :
    runDefault B [Call.drawIter ws] = PMap.empty.apply (clipWrites B ws) := by
  simp [runDefault, Call.writesDefault, Call.lowerDefault]

theorem mem_clipWrites {B : Rect} {ws : Writes} {w : Pt × Color} :
    w ∈ clipWrites B ws ↔ w ∈ ws ∧ B.contains w.1 = true := by
  unfold clipWrites; simp

/-- What a native `fill_solid` writes: the points of the area inside the box, all with `c`. -/
theorem Call.mem_writesNative_fillSolid {B a : Rect} {c : Color} (ha : a.InRange) {w : Pt × Color} :
    w ∈ Call.writesNative B (.fillSolid a c) ↔
      (a.contains w.1 = true ∧ B.contains w.1 = true ∧ w.2 = c) := by
  unfold Call.writesNative Call.lowerNative
  rw [mem_clipWrites, List.mem_map]
  constructor
  · rintro ⟨⟨q, hq, rfl⟩, hB⟩
    exact ⟨(Rect.mem_pointsSpec ha).mp hq, hB, rfl⟩
  · rintro ⟨h1, h2, h3⟩
    refine ⟨⟨w.1, (Rect.mem_pointsSpec ha).mpr h1, ?_⟩, h2⟩
    cases w; simp only at h3; subst h3; rfl

/-- One `fill_solid` on top of a map: the points of `area ∩ box` get `c`, all others are kept. -/
theorem PMap.apply_fillSolid (m : PMap) (B a : Rect) (c : Color) (ha : a.InRange) (p : Pt) :
    m.apply (Call.writesNative B (.fillSolid a c)) p =
      if a.contains p = true ∧ B.contains p = true then some c else m p := by
  by_cases h : a.contains p = true ∧ B.contains p = true
  · rw [if_pos h]
    apply PMap.apply_const
    · intro w hw; exact ((Call.mem_writesNative_fillSolid ha).mp hw).2.2
    · exact ⟨(p, c), (Call.mem_writesNative_fillSolid ha).mpr ⟨h.1, h.2, rfl⟩, rfl⟩
  · rw [if_neg h]
    apply PMap.apply_of_not_mem
    intro w hw e
    have := (Call.mem_writesNative_fillSolid ha).mp hw
    rw [e] at this
    exact h ⟨this.1, this.2.1⟩

/-- A list of solid fills, as calls. -/
def solidCalls (l : List (Rect × Color)) : List Call := l.map (fun ac => Call.fillSolid ac.1 ac.2)

/-- The colour of the last rectangle of the list that contains `p`. -/
def lastSolid (l : List (Rect × Color)) (p : Pt) : Option Color :=
  match l.reverse.find? (fun ac => ac.1.contains p) with
  | some ac => some ac.2
  | none => none

theorem lastSolid_cons (ac : Rect × Color) (l : List (Rect × Color)) (p : Pt) :
    lastSolid (ac :: l) p =
      match lastSolid l p with
      | some c => some c
      | none => if ac.1.contains p = true then some ac.2 else none := by
  unfold lastSolid
  rw [List.reverse_cons, List.find?_append]
  cases h : l.reverse.find? (fun ac => ac.1.contains p) with
  | some w' => simp
  | none =>
    by_cases e : ac.1.contains p = true
    · simp [e]
    · simp [e]

theorem lastSolid_eq_none_iff (l : List (Rect × Color)) (p : Pt) :
    lastSolid l p = none ↔ ∀ ac ∈ l, ¬ ac.1.contains p = true := by
  unfold lastSolid
  cases h : l.reverse.find? (fun ac => ac.1.contains p) with
  | some ac =>
    simp only [reduceCtorEq, false_iff]
    intro hall
    have hm := List.mem_of_find?_eq_some h
    have hc : ac.1.contains p = true := by simpa using List.find?_some h
    exact hall ac (List.mem_reverse.mp hm) hc
  | none =>
    simp only [true_iff]
    intro ac hac
    rw [List.find?_eq_none] at h
    simpa using h ac (List.mem_reverse.mpr hac)

theorem lastSolid_eq_some {l : List (Rect × Color)} {p : Pt} {c : Color} (h : lastSolid l p = some c) :
    ∃ ac ∈ l, ac.1.contains p = true ∧ ac.2 = c := by
  unfold lastSolid at h
  cases hf : l.reverse.find? (fun ac => ac.1.contains p) with
  | some ac =>
    rw [hf] at h
    simp only [Option.some.injEq] at h
    exact ⟨ac, List.mem_reverse.mp (List.mem_of_find?_eq_some hf), by simpa using List.find?_some hf, h⟩
  | none => rw [hf] at h; cases h

/-- **Solid fills on a native target**: the value at `p` is the colour of the last rectangle
containing `p`, restricted to the target box; untouched points keep the old content. -/
theorem PMap.apply_solidCalls (m : PMap) (B : Rect) (l : List (Rect × Color))
    (hl : ∀ ac ∈ l, ac.1.InRange) (p : Pt) :
    m.apply ((solidCalls l).flatMap (Call.writesNative B)) p =
      if B.contains p = true then
        (match lastSolid l p with
         | some c => some c
         | none => m p)
      else m p := by
  induction l generalizing m with
  | nil => simp [solidCalls, lastSolid, PMap.apply_nil]
  | cons ac l ih =>
    simp only [solidCalls, List.map_cons, List.flatMap_cons] at ih ⊢
    rw [PMap.apply_append, ih _ (fun a ha => hl a (List.mem_cons_of_mem _ ha)),
      PMap.apply_fillSolid _ _ _ _ (hl ac List.mem_cons_self), lastSolid_cons]
    by_cases hB : B.contains p = true
    · simp only [hB, and_true, ↓reduceIte]
      cases lastSolid l p with
      | some c => rfl
      | none => by_cases hc : ac.1.contains p = true <;> simp [hc]
    · simp [hB]

theorem runNative_solidCalls (B : Rect) (l : List (Rect × Color))
    (hl : ∀ ac ∈ l, ac.1.InRange) (p : Pt) :
    runNative B (solidCalls l) p = if B.contains p = true then lastSolid l p else none := by
  unfold runNative
  rw [PMap.apply_solidCalls _ _ _ hl]
  cases lastSolid l p <;> rfl

/-! ### `draw_iter` of a write list with pairwise distinct points -/

/-- The map after `draw_iter(ws)` on an empty target with box `B`, when no point occurs twice in
`ws`: `p` has colour `c` iff `(p, c)` is one of the writes and `p` is in the box. -/
theorem PMap.apply_clip_nodup (B : Rect) (ws : Writes) (hn : (ws.map Prod.fst).Nodup) (p : Pt) (c : Color) :
    PMap.empty.apply (clipWrites B ws) p = some c ↔ ((p, c) ∈ ws ∧ B.contains p = true) := by
  have hn' : ((clipWrites B ws).map Prod.fst).Nodup := by
    unfold clipWrites
    exact List.Pairwise.sublist (List.Sublist.map _ List.filter_sublist) hn
  constructor
  · intro h
    by_cases hex : ∃ w ∈ clipWrites B ws, w.1 = p
    · obtain ⟨w, hw, e⟩ := hex
      have hw' : (p, w.2) ∈ clipWrites B ws := by rw [← e]; exact hw
      rw [PMap.apply_nodup _ _ _ _ hn' hw'] at h
      simp only [Option.some.injEq] at h
      rw [h] at hw'
      exact mem_clipWrites.mp hw'
    · rw [PMap.apply_of_not_mem _ _ _ (fun w hw e => hex ⟨w, hw, e⟩)] at h
      cases h
  · rintro ⟨h1, h2⟩
    exact PMap.apply_nodup _ _ _ _ hn' (mem_clipWrites.mpr ⟨h1, h2⟩)

/-- ... and `p` is untouched iff it is not written inside the box. -/
theorem PMap.apply_clip_eq_none (B : Rect) (ws : Writes) (p : Pt) :
    PMap.empty.apply (clipWrites B ws) p = none ↔ ¬ (B.contains p = true ∧ ∃ c, (p, c) ∈ ws) := by
  rw [PMap.empty_apply]
  unfold lastWrite
  cases h : (clipWrites B ws).reverse.find? (fun w => w.1 == p) with
  | some w =>
    simp only [reduceCtorEq, false_iff, Classical.not_not]
    have hm := List.mem_reverse.mp (List.mem_of_find?_eq_some h)
    have he : w.1 = p := by simpa using List.find?_some h
    have := mem_clipWrites.mp hm
    rw [he] at this
    exact ⟨this.2, w.2, by rw [← he]; exact this.1⟩
  | none =>
    simp only [true_iff]
    rintro ⟨hB, c, hc⟩
    rw [List.find?_eq_none] at h
    have := h (p, c) (List.mem_reverse.mpr (mem_clipWrites.mpr ⟨hc, hB⟩))
    simp at this

end EG
