/-
  EG.Lemmas.ImageRawStream — the `ContiguousPixels` state machine equals its closed form:
  the raw pixels at `rowsFrom width (width + row_skip) initial_skip height`, up to the first
  failing `load` (`somePrefix`); for a buffer accepted by `new` and an area inside the image these
  are exactly the `width * height` pixels of the area, row-major.
-/
import EG.Lemmas.ImageRaw
namespace EG.Img
open EG EG.Raw

/-- Raw indices of `n` rows of `w` pixels whose starts are `stride` apart. -/
def rowsFrom (w stride : Nat) : Nat → Nat → List Nat
  | _, 0 => []
  | start, n + 1 => (List.range w).map (fun j => start + j) ++ rowsFrom w stride (start + stride) n

theorem rowsFrom_length (w stride : Nat) : ∀ (n start : Nat), (rowsFrom w stride start n).length = n * w := by
  intro n
  induction n with
  | zero => intro start; simp [rowsFrom]
  | succ n ih =>
    intro start
    simp only [rowsFrom, List.length_append, List.length_map, List.length_range, ih, Nat.succ_mul]
    omega

theorem rowsFrom_mem {w stride : Nat} : ∀ (n start k : Nat), k ∈ rowsFrom w stride start n →
    ∃ r j, r < n ∧ j < w ∧ k = start + r * stride + j := by
  intro n
  induction n with
  | zero => intro start k h; simp [rowsFrom] at h
  | succ n ih =>
    intro start k h
    simp only [rowsFrom, List.mem_append, List.mem_map, List.mem_range] at h
    rcases h with ⟨j, hj, rfl⟩ | h
    · exact ⟨0, j, by omega, hj, by omega⟩
    · obtain ⟨r, j, hr, hj, rfl⟩ := ih _ _ h
      exact ⟨r + 1, j, by omega, hj, by rw [Nat.succ_mul]; omega⟩

/-- Mapping a function of the raw index over `rowsFrom` is a row-major map over a grid. -/
theorem rowsFrom_map {β : Type} (w stride : Nat) (f : Nat → β) (g : Int → Int → β) (x0 : Int) :
    ∀ (n start : Nat) (y0 : Int),
      (∀ r j, r < n → j < w → f (start + r * stride + j) = g (x0 + j) (y0 + r)) →
      (rowsFrom w stride start n).map f =
        (irange y0 (y0 + n)).flatMap (fun y => (irange x0 (x0 + w)).map (fun x => g x y)) := by
  intro n
  induction n with
  | zero =>
    intro start y0 _
    rw [irange_empty (a := y0) (b := y0 + ((0 : Nat) : Int)) (by omega)]; rfl
  | succ n ih =>
    intro start y0 h
    rw [irange_cons (a := y0) (b := y0 + ((n + 1 : Nat) : Int)) (by omega)]
    simp only [rowsFrom, List.map_append, List.map_map, List.flatMap_cons]
    congr 1
    · unfold irange
      have : (x0 + ↑w - x0).toNat = w := by omega
      rw [this, List.map_map]
      apply List.map_congr_left
      intro j hj
      rw [List.mem_range] at hj
      have := h 0 j (by omega) hj
      simp only [Function.comp, Nat.zero_mul, Nat.add_zero, Int.natCast_zero, Int.add_zero] at this ⊢
      exact this
    · have := ih (start + stride) (y0 + 1) (by
        intro r j hr hj
        have := h (r + 1) j (by omega) hj
        rw [Nat.succ_mul] at this
        have e1 : start + stride + r * stride + j = start + (r * stride + stride) + j := by omega
        have e2 : y0 + 1 + (r : Int) = y0 + ((r + 1 : Nat) : Int) := by omega
        rw [e1, e2]; exact this)
      have e : y0 + 1 + (n : Int) = y0 + ((n + 1 : Nat) : Int) := by omega
      rw [e] at this
      exact this

theorem somePrefix_length_le {α : Type} : ∀ (l : List (Option α)), (somePrefix l).length ≤ l.length
  | [] => Nat.le_refl _
  | none :: _ => Nat.zero_le _
  | some _ :: l => by
    simp only [somePrefix, List.length_cons]
    exact Nat.succ_le_succ (somePrefix_length_le l)

namespace CP

/-- The raw indices a state still reads. -/
def indices (s : CP) : List Nat :=
  (List.range s.remainingX).map (fun j => s.iter.index + j) ++
    rowsFrom s.width (s.width + s.rowSkip) (s.iter.index + s.remainingX + s.rowSkip) s.remainingY

/-- Closed form of what a state still yields: the raw pixels at `indices`, up to the first one
that lies beyond the buffer. -/
def rest (s : CP) : List Nat :=
  somePrefix (s.indices.map (load s.iter.bits s.iter.order s.iter.data))

/-- Invariant of the states reachable from `new`. -/
structure Ok (s : CP) : Prop where
  bits : validBits s.iter.bits = true
  fits : Fits s.iter.bits s.iter.data
  width : 0 < s.remainingY → 0 < s.width

theorem indices_length (s : CP) : s.indices.length = s.remainingX + s.remainingY * s.width := by
  simp [indices, rowsFrom_length]

theorem range_succ_map (n a : Nat) :
    (List.range (n + 1)).map (fun j => a + j) = a :: (List.range n).map (fun j => a + 1 + j) := by
  rw [List.range_succ_eq_map]
  simp only [List.map_cons, List.map_map, Nat.add_zero]
  congr 1
  apply List.map_congr_left
  intro j _
  simp only [Function.comp]; omega

theorem next_spec (s : CP) (hs : s.Ok) :
    match s.next with
    | (some v, s') => s.rest = v :: s'.rest ∧ s'.Ok
    | (none, _) => s.rest = [] := by
  obtain ⟨it, rx, w, ry, rs⟩ := s
  obtain ⟨hb, hf, hw⟩ := hs
  simp only at hb hf hw
  unfold next
  cases rx with
  | succ rx =>
    simp only [Nat.succ_pos, ↓reduceIte, gt_iff_lt, Nat.add_sub_cancel]
    cases hl : load it.bits it.order it.data it.index with
    | none =>
      rw [iter_next_none hl]
      simp only [rest, indices, range_succ_map, List.cons_append, List.map_cons, hl, somePrefix]
    | some v =>
      rw [iter_next_some hl]
      refine ⟨?_, ⟨hb, hf, hw⟩⟩
      simp only [rest, indices, range_succ_map, List.cons_append, List.map_cons, hl, somePrefix]
      have e : it.index + (rx + 1) + rs = it.index + 1 + rx + rs := by omega
      rw [e]
  | zero =>
    simp only [Nat.lt_irrefl, ↓reduceIte, gt_iff_lt]
    cases ry with
    | zero =>
      simp only [↓reduceIte, rest, indices, List.range_zero, List.map_nil, rowsFrom, List.append_nil,
        somePrefix]
    | succ ry =>
      simp only [Nat.succ_ne_zero, ↓reduceIte, Nat.add_sub_cancel]
      have hw0 : 0 < w := hw (Nat.succ_pos _)
      obtain ⟨w', rfl⟩ : ∃ w', w = w' + 1 := ⟨w - 1, by omega⟩
      cases hl : load it.bits it.order it.data (it.index + rs) with
      | none =>
        have h1 := iter_nth_fst hb hf rs
        rw [hl] at h1
        have : (it.nth rs) = (none, (it.nth rs).2) := by rw [← h1]
        rw [this]
        simp only [rest, indices, List.range_zero, List.map_nil, List.nil_append, Nat.add_zero, rowsFrom,
          range_succ_map, List.cons_append, List.map_cons, hl, somePrefix]
      | some v =>
        rw [iter_nth_some hb hf hl]
        refine ⟨?_, ⟨hb, hf, fun _ => Nat.succ_pos _⟩⟩
        simp only [rest, indices, List.range_zero, List.map_nil, List.nil_append, Nat.add_zero, rowsFrom,
          range_succ_map, List.cons_append, List.map_cons, hl, somePrefix, Nat.add_sub_cancel]
        have e : it.index + rs + 1 + w' + rs = it.index + rs + (w' + 1 + rs) := by omega
        rw [e]

theorem toListFuel_eq : ∀ (fuel : Nat) (s : CP), s.Ok → s.rest.length < fuel →
    s.toListFuel fuel = s.rest := by
  intro fuel
  induction fuel with
  | zero => intro s _ h; omega
  | succ fuel ih =>
    intro s hs h
    unfold toListFuel
    have := next_spec s hs
    split <;> rename_i heq <;> rw [heq] at this <;> simp only at this
    · exact this.symm
    · rw [this.1] at h ⊢
      rw [ih _ this.2 (by simpa using h)]

/-- **The iterator yields exactly its closed form.** -/
theorem toList_eq (s : CP) (hs : s.Ok) : s.toList = s.rest := by
  unfold toList
  apply toListFuel_eq _ _ hs
  have h1 := somePrefix_length_le (s.indices.map (load s.iter.bits s.iter.order s.iter.data))
  rw [List.length_map, indices_length] at h1
  unfold rest budget
  have : s.remainingY * s.width ≤ s.remainingY * (s.width + 1) := Nat.mul_le_mul_left _ (by omega)
  omega

/-- The stream of a freshly made `ContiguousPixels`: `height` rows of `width` raw pixels starting
at `initial_skip`, row starts `width + row_skip` apart; nothing for a zero sized area. -/
theorem new_toList (im : ImageRaw) (hb : validBits im.bits = true) (hf : Fits im.bits im.data)
    (size : Sz) (initialSkip rowSkip : Nat) (hi : initialSkip ≤ pixelCount im.bits im.data.length) :
    (CP.new im size initialSkip rowSkip).toList =
      somePrefix ((if size.w > 0 ∧ size.h > 0 then
          rowsFrom size.w (size.w + rowSkip) initialSkip size.h else []).map
        (load im.bits im.order im.data)) := by
  -- the raw iterator after the initial skip
  have hit : (if initialSkip > 0 then ((Iter.new im.bits im.order im.data).nth (initialSkip - 1)).2
      else Iter.new im.bits im.order im.data) = ⟨im.bits, im.order, im.data, initialSkip⟩ := by
    by_cases h0 : initialSkip > 0
    · simp only [h0, ↓reduceIte]
      have hlt : initialSkip - 1 < pixelCount im.bits im.data.length := by omega
      rw [← load_isSome_iff hb im.order] at hlt
      obtain ⟨v, hv⟩ := Option.isSome_iff_exists.mp hlt
      have := iter_nth_some (it := Iter.new im.bits im.order im.data) hb hf (n := initialSkip - 1) (v := v)
        (by simpa [Iter.new] using hv)
      rw [this]
      simp only [Iter.new, Nat.zero_add]
      congr 1; omega
    · simp only [h0, ↓reduceIte, Iter.new]
      congr 1; omega
  have hnew : CP.new im size initialSkip rowSkip =
      ⟨⟨im.bits, im.order, im.data, initialSkip⟩,
       (if size.w > 0 ∧ size.h > 0 then (size.w, size.h - 1) else ((0 : Nat), (0 : Nat))).1, size.w,
       (if size.w > 0 ∧ size.h > 0 then (size.w, size.h - 1) else ((0 : Nat), (0 : Nat))).2, rowSkip⟩ := by
    unfold CP.new
    simp only [hit]
  rw [hnew, toList_eq]
  · unfold rest indices
    by_cases hz : size.w > 0 ∧ size.h > 0
    · simp only [hz, and_self, ↓reduceIte]
      obtain ⟨h', hh⟩ : ∃ h', size.h = h' + 1 := ⟨size.h - 1, by omega⟩
      rw [hh]
      simp only [Nat.add_sub_cancel, rowsFrom]
      have e : initialSkip + size.w + rowSkip = initialSkip + (size.w + rowSkip) := by omega
      rw [e]
    · simp only [hz, ↓reduceIte, List.range_zero, List.map_nil, rowsFrom, List.append_nil]
  · refine ⟨hb, hf, ?_⟩
    by_cases hz : size.w > 0 ∧ size.h > 0
    · intro _; exact hz.1
    · simp only [hz, ↓reduceIte]; intro h; exact absurd h (Nat.lt_irrefl 0)

end CP
end EG.Img
