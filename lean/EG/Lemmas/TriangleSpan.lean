/-
  EG.Lemmas.TriangleSpan — the row spans of a filled triangle and the full closed form of
  `points()`.

  * `scanline_intersection(y)` is the empty scanline extended by every pixel, in row `y`, of the
    Bresenham edge lines in use (`usedLines`: the three edges of the sorted triangle, or only
    `p1 p3` when the area is zero): the span is the hull of those pixels (`span_covers`,
    `span_ends`), it lies inside the columns of the bounding box, and it is non-empty for every row
    of the bounding box (the line `p1 p3` passes through every row).
  * Hence the early `None` of the non-fused iterators never fires and the step budget is never
    exhausted: `points_eq_rows` — `points()` is exactly the rows of the bounding box in order, each
    contributing its span; so it is row-major sorted, duplicate-free and inside the bounding box,
    and it contains every pixel of every edge line.
-/
import EG.Lemmas.TriangleLine
import EG.Lemmas.RectPoints
namespace EG
namespace Triangle

/-! ## the sorted triple -/

theorem sortedYx_y_le (t : Triangle) :
    t.sortedYx.v1.y ≤ t.sortedYx.v2.y ∧ t.sortedYx.v2.y ≤ t.sortedYx.v3.y := by
  simp only [sortedYx, sortTwoYx]
  repeat' split
  all_goals try dsimp only at *
  all_goals
    unfold yxLt at *
    refine ⟨?_, ?_⟩ <;> omega

/-- The lines `scanline_intersection` intersects the scanline with. -/
def usedLines (t : Triangle) : List Line :=
  if t.areaDoubled = 0 then [⟨t.sortedYx.v1, t.sortedYx.v3⟩] else t.edgeLines

theorem usedLines_downward (t : Triangle) : ∀ l ∈ usedLines t, 0 ≤ Line.dyOf l := by
  obtain ⟨h1, h2⟩ := sortedYx_y_le t
  intro l hl
  unfold usedLines edgeLines at hl
  split at hl
  · simp only [List.mem_cons, List.mem_nil_iff, or_false] at hl
    subst hl; unfold Line.dyOf; dsimp only; omega
  · simp only [List.mem_cons, List.mem_nil_iff, or_false] at hl
    rcases hl with rfl | rfl | rfl <;> unfold Line.dyOf <;> dsimp only <;> omega

theorem long_edge_mem_usedLines (t : Triangle) :
    (⟨t.sortedYx.v1, t.sortedYx.v3⟩ : Line) ∈ usedLines t := by
  unfold usedLines edgeLines
  split <;> simp

theorem usedLines_of_nonzero {t : Triangle} (h : t.areaDoubled ≠ 0) : usedLines t = t.edgeLines := by
  unfold usedLines; simp [h]

theorem scanlineIntersection_eq_foldl_used (t : Triangle) (y : Int) :
    t.scanlineIntersection y = (usedLines t).foldl Scanline.bint (Scanline.newEmpty y) := by
  unfold scanlineIntersection usedLines edgeLines
  split <;> rfl

/-- All pixels of the used edge lines in row `y`. -/
def rowPix (t : Triangle) (y : Int) : List Pt := (usedLines t).flatMap (fun l => Scanline.rowPixels l y)

theorem mem_rowPix {t : Triangle} {y : Int} {q : Pt} :
    q ∈ rowPix t y ↔ ∃ l ∈ usedLines t, q ∈ Line.points l ∧ q.y = y := by
  unfold rowPix
  simp only [List.mem_flatMap, Scanline.mem_rowPixels]

theorem foldl_bint_eq_extendAll : ∀ (L : List Line) (s : Scanline), (∀ l ∈ L, 0 ≤ Line.dyOf l) →
    L.foldl Scanline.bint s = s.extendAll (L.flatMap (fun l => Scanline.rowPixels l s.y)) := by
  intro L
  induction L with
  | nil => intro s _; rfl
  | cons l L ih =>
    intro s h
    rw [List.foldl_cons, ih _ (fun l' hl' => h l' (List.mem_cons_of_mem _ hl')),
      Scanline.bint_eq_extendAll s (h l List.mem_cons_self), Scanline.extendAll_y,
      List.flatMap_cons]
    unfold Scanline.extendAll
    rw [List.foldl_append]

/-- **The row span is the empty scanline extended by every edge pixel of that row.** -/
theorem scanlineIntersection_eq_extendAll (t : Triangle) (y : Int) :
    t.scanlineIntersection y = (Scanline.newEmpty y).extendAll (rowPix t y) := by
  rw [scanlineIntersection_eq_foldl_used, foldl_bint_eq_extendAll _ _ (usedLines_downward t)]
  rfl

theorem span_eq_scanlineIntersection (t : Triangle) (y : Int) :
    t.span y = t.scanlineIntersection y := by
  unfold span
  exact scanlineIntersection_of_mem_orders (sortedClockwise_mem_orders t) y

theorem span_eq_extendAll (t : Triangle) (y : Int) :
    t.span y = (Scanline.newEmpty y).extendAll (rowPix t y) := by
  rw [span_eq_scanlineIntersection, scanlineIntersection_eq_extendAll]

theorem span_y (t : Triangle) (y : Int) : (t.span y).y = y := by
  rw [span_eq_extendAll, Scanline.extendAll_y]; rfl

/-- The span covers every edge pixel of its row. -/
theorem span_covers {t : Triangle} {y : Int} {q : Pt} (h : q ∈ rowPix t y) : (t.span y).Covers q.x := by
  rw [span_eq_extendAll]; exact Scanline.extendAll_covers _ _ q h

/-- Both ends of a non-empty span are edge pixels of its row. -/
theorem span_ends (t : Triangle) (y : Int) (h : (t.span y).xs < (t.span y).xe) :
    (∃ q ∈ rowPix t y, q.x = (t.span y).xs) ∧ (∃ q ∈ rowPix t y, q.x + 1 = (t.span y).xe) := by
  rw [span_eq_extendAll] at h ⊢
  obtain ⟨h1, h2⟩ := Scanline.extendAll_ends (rowPix t y) (Scanline.newEmpty y) h
  have hne : ¬ ((Scanline.newEmpty y).xs < (Scanline.newEmpty y).xe) := by
    simp [Scanline.newEmpty]
  constructor
  · rcases h1 with h1 | ⟨c, _⟩
    · exact h1
    · exact absurd c hne
  · rcases h2 with h2 | ⟨c, _⟩
    · exact h2
    · exact absurd c hne

/-! ## bounds -/

/-- Smallest / largest coordinates of the vertices. -/
def xMin (t : Triangle) : Int := min (min t.v1.x t.v2.x) t.v3.x
def xMax (t : Triangle) : Int := max (max t.v1.x t.v2.x) t.v3.x
def yMin (t : Triangle) : Int := min (min t.v1.y t.v2.y) t.v3.y
def yMax (t : Triangle) : Int := max (max t.v1.y t.v2.y) t.v3.y

theorem boundingBox_eq (t : Triangle) :
    t.boundingBox.tl = ⟨xMin t, yMin t⟩ ∧ (t.boundingBox.size.w : Int) = xMax t - xMin t + 1 ∧
    (t.boundingBox.size.h : Int) = yMax t - yMin t + 1 := by
  unfold boundingBox xMin xMax yMin yMax Rect.withCorners
  refine ⟨?_, ?_, ?_⟩
  · rw [Pt.ext_iff']; dsimp only; refine ⟨?_, ?_⟩ <;> omega
  · dsimp only; omega
  · dsimp only; omega

theorem extremes_of_mem_orders {t t' : Triangle} (h : t' ∈ orders t) :
    xMin t' = xMin t ∧ xMax t' = xMax t ∧ yMin t' = yMin t ∧ yMax t' = yMax t := by
  obtain ⟨a, b, c⟩ := t
  rcases mem_orders.mp h with rfl | rfl | rfl | rfl | rfl | rfl <;>
    simp only [xMin, xMax, yMin, yMax] <;> refine ⟨?_, ?_, ?_, ?_⟩ <;> first | trivial | omega

theorem sorted_extremes (t : Triangle) :
    yMin t = t.sortedYx.v1.y ∧ yMax t = t.sortedYx.v3.y := by
  obtain ⟨_, _, e3, e4⟩ := extremes_of_mem_orders (sortedYx_mem_orders t)
  obtain ⟨h1, h2⟩ := sortedYx_y_le t
  rw [← e3, ← e4]
  unfold yMin yMax
  refine ⟨?_, ?_⟩ <;> omega

/-- Every pixel of a used edge line lies within the extreme coordinates of the vertices. -/
theorem usedLines_pixel_bounds {t : Triangle} {l : Line} (hl : l ∈ usedLines t) {q : Pt}
    (hq : q ∈ Line.points l) :
    xMin t ≤ q.x ∧ q.x ≤ xMax t ∧ yMin t ≤ q.y ∧ q.y ≤ yMax t := by
  obtain ⟨e1, e2, e3, e4⟩ := extremes_of_mem_orders (sortedYx_mem_orders t)
  obtain ⟨k, hk, rfl⟩ := Line.mem_points.mp hq
  have hb := Line.ptAt_in_box l k hk
  rw [← e1, ← e2, ← e3, ← e4]
  unfold usedLines edgeLines at hl
  unfold xMin xMax yMin yMax
  split at hl
  · simp only [List.mem_cons, List.mem_nil_iff, or_false] at hl
    subst hl; dsimp only at hb
    refine ⟨?_, ?_, ?_, ?_⟩ <;> omega
  · simp only [List.mem_cons, List.mem_nil_iff, or_false] at hl
    rcases hl with rfl | rfl | rfl <;> dsimp only at hb <;> refine ⟨?_, ?_, ?_, ?_⟩ <;> omega

/-- The span lies within the columns of the bounding box. -/
theorem span_within (t : Triangle) (y : Int) :
    ¬ (t.span y).xs < (t.span y).xe ∨ (xMin t ≤ (t.span y).xs ∧ (t.span y).xe ≤ xMax t + 1) := by
  rw [span_eq_extendAll]
  apply Scanline.extendAll_within
  · left; simp [Scanline.newEmpty]
  · intro q hq
    obtain ⟨l, hl, hq', _⟩ := mem_rowPix.mp hq
    have := usedLines_pixel_bounds hl hq'
    omega

/-- Every row of the bounding box has a non-empty span: the line `p1 p3` passes through it. -/
theorem span_nonempty (t : Triangle) (y : Int) (h1 : yMin t ≤ y) (h2 : y ≤ yMax t) :
    (t.span y).xs < (t.span y).xe := by
  obtain ⟨e1, e2⟩ := sorted_extremes t
  have hl := long_edge_mem_usedLines t
  obtain ⟨q, hq, hy⟩ := Line.exists_point_in_row (usedLines_downward t _ hl) y
    (by dsimp only; omega) (by dsimp only; omega)
  have := span_covers (mem_rowPix.mpr ⟨_, hl, hq, hy⟩)
  unfold Scanline.Covers at this; omega

/-! ## the full closed form of `points()` -/

theorem untilEmpty_all (sp : Int → Scanline) : ∀ (ys : List Int),
    (∀ y ∈ ys, (sp y).isEmpty = false) → untilEmpty sp ys = ys.map sp := by
  intro ys
  induction ys with
  | nil => intro _; rfl
  | cons y ys ih =>
    intro h
    simp only [untilEmpty, h y List.mem_cons_self, Bool.false_eq_true, ↓reduceIte, List.map_cons]
    rw [ih (fun y' hy' => h y' (List.mem_cons_of_mem _ hy'))]

theorem rowsSpec_all (sp : Int → Scanline) (rs re : Int)
    (h : ∀ y, rs ≤ y → y < re → (sp y).isEmpty = false) :
    rowsSpec sp rs re = (irange rs re).flatMap (fun y => (sp y).points) := by
  unfold rowsSpec seen
  by_cases hr : rs < re
  · simp only [hr, ↓reduceIte, h rs (Int.le_refl _) hr, Bool.false_eq_true]
    rw [untilEmpty_all sp _ (fun y hy => by
      rw [mem_irange] at hy; exact h y (by omega) hy.2), irange_cons hr]
    simp only [List.flatMap_cons, List.flatMap_map]
  · simp only [hr, ↓reduceIte]
    rw [irange_empty (a := rs) (b := re) (by omega)]; rfl

theorem length_flatMap_le {α β : Type} (f : α → List β) (n : Nat) : ∀ (l : List α),
    (∀ a ∈ l, (f a).length ≤ n) → (l.flatMap f).length ≤ l.length * n := by
  intro l
  induction l with
  | nil => intro _; simp
  | cons a l ih =>
    intro h
    have h1 := h a List.mem_cons_self
    have h2 := ih (fun b hb => h b (List.mem_cons_of_mem _ hb))
    simp only [List.flatMap_cons, List.length_append, List.length_cons, Nat.add_mul, Nat.one_mul]
    omega

/-- The rows of the bounding box. -/
def rowList (t : Triangle) : List Int := irange (yMin t) (yMax t + 1)

/-- **`points()` in closed form, without early stop and without budget**: the rows of the bounding
box from top to bottom, each contributing its (non-empty) span from left to right. -/
theorem points_eq_rows (t : Triangle) (h : t.boundingBox.InRange) :
    t.points = (rowList t).flatMap (fun y => (t.span y).points) := by
  obtain ⟨etl, ew, eh⟩ := boundingBox_eq t
  have hre : t.boundingBox.rowsEnd = yMax t + 1 := by
    rw [Rect.rowsEnd_eq h, etl]; dsimp only; omega
  have hrs : t.boundingBox.tl.y = yMin t := by rw [etl]
  rw [points_eq_take, hre, hrs, rowsSpec_all]
  · apply List.take_of_length_le
    have hlen := length_flatMap_le (fun y => (t.span y).points) t.boundingBox.size.w
      (irange (yMin t) (yMax t + 1)) (by
        intro y _
        rw [Scanline.points_length]
        have := span_within t y
        omega)
    rw [irange_length] at hlen
    unfold pointsBudget
    have e : (yMax t + 1 - yMin t).toNat = t.boundingBox.size.h := by omega
    rw [e, Nat.mul_comm] at hlen
    omega
  · intro y h1 h2
    rw [Scanline.isEmpty_false_iff]
    exact span_nonempty t y h1 (by omega)

/-! ## consequences -/

/-- Membership in `points()`: a row of the bounding box and a column of that row's span. -/
theorem mem_points_iff (t : Triangle) (h : t.boundingBox.InRange) (p : Pt) :
    p ∈ t.points ↔ yMin t ≤ p.y ∧ p.y ≤ yMax t ∧ (t.span p.y).Covers p.x := by
  rw [points_eq_rows t h]
  unfold rowList
  simp only [List.mem_flatMap, mem_irange, Scanline.mem_points, span_y, Scanline.Covers]
  constructor
  · rintro ⟨y, ⟨h1, h2⟩, h3, h4, h5⟩
    subst h3
    exact ⟨h1, by omega, h4, h5⟩
  · rintro ⟨h1, h2, h3, h4⟩
    exact ⟨p.y, ⟨h1, by omega⟩, rfl, h3, h4⟩

/-- Every point of `points()` lies inside `bounding_box()`. -/
theorem points_in_bbox (t : Triangle) (h : t.boundingBox.InRange) (p : Pt) (hp : p ∈ t.points) :
    t.boundingBox.contains p = true := by
  obtain ⟨h1, h2, h3⟩ := (mem_points_iff t h p).mp hp
  obtain ⟨etl, ew, eh⟩ := boundingBox_eq t
  rw [Rect.contains_iff, etl]
  dsimp only
  have := span_within t p.y
  unfold Scanline.Covers at h3
  refine ⟨?_, ?_, ?_, ?_⟩ <;> omega

theorem scanline_points_pairwise (s : Scanline) : s.points.Pairwise Pt.rowMajorLt := by
  unfold Scanline.points
  rw [List.pairwise_map]
  exact (irange_pairwise_lt s.xs s.xe).imp (by
    intro a b hab; right; exact ⟨rfl, hab⟩)

/-- `points()` is strictly increasing in row-major order (hence every point occurs once). -/
theorem points_rowMajor (t : Triangle) (h : t.boundingBox.InRange) :
    t.points.Pairwise Pt.rowMajorLt := by
  rw [points_eq_rows t h, List.pairwise_flatMap]
  refine ⟨fun y _ => scanline_points_pairwise _, ?_⟩
  unfold rowList
  refine (irange_pairwise_lt _ _).imp ?_
  intro y1 y2 hlt p hp q hq
  rw [Scanline.mem_points, span_y] at hp hq
  left; omega

theorem points_nodup (t : Triangle) (h : t.boundingBox.InRange) : t.points.Nodup :=
  (points_rowMajor t h).imp (by
    intro a b hab e
    subst e
    unfold Pt.rowMajorLt at hab; omega)

/-- **Every pixel of every edge line in use is a point of `points()`.** -/
theorem edge_pixel_mem_points (t : Triangle) (h : t.boundingBox.InRange) {l : Line}
    (hl : l ∈ usedLines t) {q : Pt} (hq : q ∈ Line.points l) : q ∈ t.points := by
  rw [mem_points_iff t h]
  have hb := usedLines_pixel_bounds hl hq
  exact ⟨hb.2.2.1, hb.2.2.2, span_covers (mem_rowPix.mpr ⟨l, hl, hq, rfl⟩)⟩

/-- **`points()` is the per-row hull of the edge pixels**: `p` is covered iff its row contains an
edge pixel at or left of `p` and one at or right of `p`. -/
theorem mem_points_iff_between (t : Triangle) (h : t.boundingBox.InRange) (p : Pt) :
    p ∈ t.points ↔
      ∃ q1 q2, q1 ∈ rowPix t p.y ∧ q2 ∈ rowPix t p.y ∧ q1.x ≤ p.x ∧ p.x ≤ q2.x := by
  rw [mem_points_iff t h]
  constructor
  · rintro ⟨_, _, h3⟩
    unfold Scanline.Covers at h3
    obtain ⟨⟨q1, hq1, e1⟩, ⟨q2, hq2, e2⟩⟩ := span_ends t p.y (by omega)
    exact ⟨q1, q2, hq1, hq2, by omega, by omega⟩
  · rintro ⟨q1, q2, hq1, hq2, h1, h2⟩
    have c1 := span_covers hq1
    have c2 := span_covers hq2
    obtain ⟨l, hl, hq, hy⟩ := mem_rowPix.mp hq1
    have hb := usedLines_pixel_bounds hl hq
    unfold Scanline.Covers at *
    refine ⟨by omega, by omega, by omega, by omega⟩

end Triangle
end EG
