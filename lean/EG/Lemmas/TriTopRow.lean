/-
  EG.Lemmas.TriTopRow — **the top row of the styled bounding box of a triangle always has a scanline**
  (unless no row has one: stroke width 0 without fill), hence a first `None` of the non-fused
  `ScanlineIterator` is followed by `None`s only (`C01Thick.TriFirstNoneFinal`) and
  `StyledPixelsIterator::new`, which forgives one `None`, sees what the `for` loop of `draw_styled`
  sees.

  Why the top row `y0` of the box has a scanline:
  * collapsed inside stroke, or fill with stroke width 0: the box is the vertex box, `y0` is the row of
    the topmost vertex and the plain triangle scanline contains that vertex;
  * Center / Outside stroke of width > 1: the box is the fold of the `edges_bounding_box`es of the
    three closed segments, `y0` is the top of one of them, i.e. the row of an end point of one of its
    (drawn) edges — and an edge is an outline line of its segment;
  * stroke width 1, or an Inside stroke: the box is the vertex box; the LEFT corners of the join at the
    topmost vertex `V` are `V` exactly (width 1: all four corners; `StrokeOffset::Right`: the left
    edge lines are the triangle's sides, their intersection is computed exactly — `i32` vertices), and
    `V` is an end point of a cap line of the segment that starts at `V` (if it is not a skeleton), of a
    cap line of the segment that ends at `V` (if that is not a skeleton), or of the one drawn edge of
    the latter (if both are skeletons).
-/
import EG.Lemmas.TriRowScan
import EG.Lemmas.C01ThickTri
import EG.Lemmas.JoinsWidth1Align
import EG.Lemmas.JoinsBBoxTriWidth1
set_option linter.unusedSimpArgs false
namespace EG
namespace Joins
open Thick (LineSide StrokeOffset)

/-! ### the three closed segments against the edge closure -/

/-- A closed segment with a scanline in row `y` is one of the segments the edge closure builds. -/
theorem scanNonempty_of_segment (it : TriIntersections) (y : Int) (j0 j1 j2 : LineJoin)
    (h0 : LineJoin.fromPoints it.triangle.v3 it.triangle.v1 it.triangle.v2 it.strokeWidth it.strokeOffset = some j0)
    (h1 : LineJoin.fromPoints it.triangle.v1 it.triangle.v2 it.triangle.v3 it.strokeWidth it.strokeOffset = some j1)
    (h2 : LineJoin.fromPoints it.triangle.v2 it.triangle.v3 it.triangle.v1 it.strokeWidth it.strokeOffset = some j2)
    (s : ThickSegment) (hs : s = ⟨j0, j1⟩ ∨ s = ⟨j1, j2⟩ ∨ s = ⟨j2, j0⟩)
    (hne : (s.intersection y).isEmpty = false) : ∃ k, k < 3 ∧ ScanNonempty it y k := by
  rcases hs with rfl | rfl | rfl
  · refine ⟨2, by omega, ?_⟩
    intro a b ha hb
    have ha' : LineJoin.fromPoints it.triangle.v3 it.triangle.v1 it.triangle.v2 it.strokeWidth
        it.strokeOffset = some a := ha
    have hb' : LineJoin.fromPoints it.triangle.v1 it.triangle.v2 it.triangle.v3 it.strokeWidth
        it.strokeOffset = some b := hb
    rw [h0] at ha'; rw [h1] at hb'
    cases ha'; cases hb'
    exact hne
  · refine ⟨0, by omega, ?_⟩
    intro a b ha hb
    have ha' : LineJoin.fromPoints it.triangle.v1 it.triangle.v2 it.triangle.v3 it.strokeWidth
        it.strokeOffset = some a := ha
    have hb' : LineJoin.fromPoints it.triangle.v2 it.triangle.v3 it.triangle.v1 it.strokeWidth
        it.strokeOffset = some b := hb
    rw [h1] at ha'; rw [h2] at hb'
    cases ha'; cases hb'
    exact hne
  · refine ⟨1, by omega, ?_⟩
    intro a b ha hb
    have ha' : LineJoin.fromPoints it.triangle.v2 it.triangle.v3 it.triangle.v1 it.strokeWidth
        it.strokeOffset = some a := ha
    have hb' : LineJoin.fromPoints it.triangle.v3 it.triangle.v1 it.triangle.v2 it.strokeWidth
        it.strokeOffset = some b := hb
    rw [h2] at ha'; rw [h0] at hb'
    cases ha'; cases hb'
    exact hne

/-! ### Center / Outside strokes of width > 1: the top of the fold of the segment boxes -/

theorem foldl_boxStep_top_attained (segs : List ThickSegment) (acc : Pt × Pt) :
    (segs.foldl boxStep acc).1.y = acc.1.y ∨
      ∃ s ∈ segs, (segs.foldl boxStep acc).1.y = s.edgesBoundingBox.tl.y := by
  induction segs generalizing acc with
  | nil => left; rfl
  | cons s rest ih =>
    simp only [List.foldl_cons]
    rcases ih (boxStep acc s) with h | ⟨s', hs', h⟩
    · rw [boxStep_1y] at h
      by_cases hle : acc.1.y ≤ s.edgesBoundingBox.tl.y
      · left; rw [h]; omega
      · right; exact ⟨s, List.mem_cons_self, by rw [h]; omega⟩
    · right; exact ⟨s', List.mem_cons_of_mem _ hs', h⟩

/-- The top row of the fold of the segment boxes, if it is below `i32::MAX`, is the top row of the box
of one of the segments. -/
theorem foldEdgeBoxes_top_attained (segs : List ThickSegment) (hne : segs ≠ [])
    (hlt : (foldEdgeBoxes segs).tl.y < 2147483647) :
    ∃ s ∈ segs, (foldEdgeBoxes segs).tl.y = s.edgesBoundingBox.tl.y := by
  rw [foldEdgeBoxes_eq] at hlt ⊢
  unfold Rect.withCorners at hlt ⊢
  dsimp only at hlt ⊢
  rcases foldl_boxStep_top_attained segs (⟨2147483647, 2147483647⟩, ⟨-2147483648, -2147483648⟩)
    with h | ⟨s, hs, h⟩
  · -- no segment lowered the top: then no box lies below `i32::MAX`, nor does the bottom
    exfalso
    dsimp only at h
    cases segs with
    | nil => exact hne rfl
    | cons s rest =>
      obtain ⟨-, c2, -, c4⟩ := foldl_boxStep_covers (s :: rest)
        (⟨2147483647, 2147483647⟩, ⟨-2147483648, -2147483648⟩) s List.mem_cons_self
      obtain ⟨br, -, -, -, -, hh⟩ := edgesBoundingBox_bottomRight s
      omega
  · refine ⟨s, hs, ?_⟩
    obtain ⟨-, c2, -, c4⟩ := foldl_boxStep_covers segs
      (⟨2147483647, 2147483647⟩, ⟨-2147483648, -2147483648⟩) s hs
    obtain ⟨br, -, -, -, -, hh⟩ := edgesBoundingBox_bottomRight s
    omega

theorem edges_mem_outline (s : ThickSegment) (h : s.isSkeleton = false) :
    s.edges.1 ∈ s.outline ∧ s.edges.2 ∈ s.outline := by
  unfold ThickSegment.outline
  simp only [h, Bool.false_eq_true, ↓reduceIte]
  constructor <;> simp

/-- The top row of `edges_bounding_box` is reached by an outline line of the segment (one of the
edges that are drawn). -/
theorem edgesBox_top_line (s : ThickSegment) :
    ∃ l ∈ s.outline, min l.start.y l.stop.y ≤ s.edgesBoundingBox.tl.y ∧
      s.edgesBoundingBox.tl.y ≤ max l.start.y l.stop.y := by
  by_cases hsk : s.isSkeleton = true
  · refine ⟨s.edges.1, by rw [outline_skeleton s hsk]; exact List.mem_cons_self, ?_⟩
    unfold ThickSegment.edgesBoundingBox lineBoundingBox Rect.withCorners
    simp only [hsk, ↓reduceIte]
    omega
  · have hsk' : s.isSkeleton = false := by simpa using hsk
    obtain ⟨m1, m2⟩ := edges_mem_outline s hsk'
    have htop : s.edgesBoundingBox.tl.y =
        min (min (min s.edges.1.start.y s.edges.1.stop.y) s.edges.2.start.y) s.edges.2.stop.y := by
      unfold ThickSegment.edgesBoundingBox Rect.withCorners
      simp only [hsk', Bool.false_eq_true, ↓reduceIte, Pt.componentMin, Pt.componentMax]
      omega
    by_cases hr : min s.edges.1.start.y s.edges.1.stop.y ≤ min s.edges.2.start.y s.edges.2.stop.y
    · exact ⟨s.edges.1, m1, by omega, by omega⟩
    · exact ⟨s.edges.2, m2, by omega, by omega⟩

/-! ### width 1 and Inside strokes: the left corners of a join are the vertex itself -/

theorem extents_right_left (l : Line) (w : Nat) (lft rgt : Line)
    (h : extents l w .right = some (lft, rgt)) : lft = l := by
  unfold extents at h
  cases hn : Thick.ParallelsIterator.new l (satAsI32 w) .right with
  | none => rw [hn] at h; cases h
  | some it =>
    rw [hn] at h
    simp only [Option.bind_eq_bind, Option.bind_some] at h
    have hmk : (⟨l.start, l.start + (l.stop - l.start) - Pt.zero⟩ : Line) = l := line_rebuild l
    cases hl : lastParallel (4 * w + 8) it none with
    | none => rw [hl] at h; cases h
    | some o =>
      rw [hl] at h
      cases o with
      | none =>
        simp only [Option.bind_some, pure, Option.some.injEq, Prod.mk.injEq] at h
        rw [← h.1]; exact hmk
      | some r =>
        obtain ⟨b, ty⟩ := r
        simp only [Option.bind_some, pure, Option.some.injEq, Prod.mk.injEq] at h
        rw [← h.1]; exact hmk

/-- The private `intersections` when the left edge lines are the two sides themselves: nothing, or the
left intersection is the vertex exactly. -/
theorem intersections_left (a m b : Pt) (fr sr : Line) (hx : inI32 m.x) (hy : inI32 m.y) :
    intersections ⟨a, m⟩ fr ⟨m, b⟩ sr = none ∨
    ∃ side r, intersections ⟨a, m⟩ fr ⟨m, b⟩ sr = some (m, side, r) := by
  unfold intersections
  rcases intersection_through a m b hx hy with h | ⟨side, h⟩
  · left; simp only [h]
  · simp only [h]
    have hl : (if (!(IntersectionParams.fromLines ⟨m, b⟩ ⟨a, m⟩).nearlyColinearHasError) = true then m
        else (⟨a, m⟩ : Line).stop) = m := by split <;> rfl
    rw [hl]
    cases (IntersectionParams.fromLines sr fr).intersection with
    | colinear => left; rfl
    | point pr sd => right; exact ⟨side, _, rfl⟩

/-- The left corners of `from_extents` when the left edge lines are the two sides themselves. -/
theorem fromExtents_left_corners (a m b : Pt) (w : Nat) (fr sr : Line) (hx : inI32 m.x) (hy : inI32 m.y) :
    (LineJoin.fromExtents m w ⟨a, m⟩ fr ⟨m, b⟩ sr).firstEdgeEnd.left = m ∧
    (LineJoin.fromExtents m w ⟨a, m⟩ fr ⟨m, b⟩ sr).secondEdgeStart.left = m := by
  unfold LineJoin.fromExtents
  rcases intersections_left a m b fr sr hx hy with h | ⟨side, r, h⟩
  · rw [h]; exact ⟨rfl, rfl⟩
  · rw [h]
    simp only []
    cases side with
    | left =>
      simp only []
      cases (LinearEquation.fromLine fr).checkSide sr.stop LineSide.left
      · simp only [Bool.not_false, ↓reduceIte]
        split <;> exact ⟨rfl, rfl⟩
      · exact ⟨rfl, rfl⟩
    | right =>
      simp only []
      cases (LinearEquation.fromLine (⟨a, m⟩ : Line)).checkSide b LineSide.right
      · simp only [Bool.not_false, ↓reduceIte]
        split <;> exact ⟨rfl, rfl⟩
      · exact ⟨rfl, rfl⟩

/-- **Stroke width 1 (any offset) or `StrokeOffset::Right` (any width): both left corners of the join at
`m` are `m`** (`i32` coordinates). -/
theorem join_left_exact (a m b : Pt) (w : Nat) (off : StrokeOffset) (hx : inI32 m.x) (hy : inI32 m.y)
    (h : w = 1 ∨ off = .right) (j : LineJoin) (hj : LineJoin.fromPoints a m b w off = some j) :
    j.firstEdgeEnd.left = m ∧ j.secondEdgeStart.left = m := by
  rcases h with rfl | rfl
  · obtain ⟨j', e, c1, c2⟩ := fromPoints_width1_off a m b off hx hy
    rw [e] at hj
    cases hj
    rw [c1, c2]
    exact ⟨rfl, rfl⟩
  · unfold LineJoin.fromPoints at hj
    cases h1 : extents ⟨a, m⟩ w .right with
    | none => rw [h1] at hj; cases hj
    | some p1 =>
      obtain ⟨fl, fr⟩ := p1
      cases h2 : extents ⟨m, b⟩ w .right with
      | none => rw [h1, h2] at hj; cases hj
      | some p2 =>
        obtain ⟨sl, sr⟩ := p2
        rw [h1, h2] at hj
        simp only [Option.bind_eq_bind, Option.bind_some, pure, Option.some.injEq] at hj
        subst hj
        rw [extents_right_left _ _ _ _ h1, extents_right_left _ _ _ _ h2]
        exact fromExtents_left_corners a m b w fr sr hx hy

theorem cap_fst_start (j : LineJoin) (c : EdgeCorners) : (j.cap c).1.start = c.left := by
  unfold LineJoin.cap
  split <;> rfl

/-- **The vertex is an end point of an outline line** of the segment that starts at the join `j` or of
the segment that ends at it, when both left corners of `j` are the vertex `V`. -/
theorem top_outline_at_join (p j n : LineJoin) (V : Pt) (h1 : j.firstEdgeEnd.left = V)
    (h2 : j.secondEdgeStart.left = V) :
    (∃ l ∈ (ThickSegment.mk j n).outline, l.start = V ∨ l.stop = V) ∨
    (∃ l ∈ (ThickSegment.mk p j).outline, l.start = V ∨ l.stop = V) := by
  by_cases hout : (ThickSegment.mk j n).isSkeleton = true
  · have hr : j.firstEdgeEnd.right = V := by
      unfold ThickSegment.isSkeleton at hout
      dsimp only at hout
      rw [h1] at hout
      exact (beq_iff_eq.mp hout).symm
    right
    by_cases hin : (ThickSegment.mk p j).isSkeleton = true
    · refine ⟨(ThickSegment.mk p j).edges.1, by rw [outline_skeleton _ hin]; exact List.mem_cons_self, ?_⟩
      right
      exact hr
    · have hin' : (ThickSegment.mk p j).isSkeleton = false := by simpa using hin
      refine ⟨(j.endCapLines).1, ?_, ?_⟩
      · unfold ThickSegment.outline
        simp only [hin', Bool.false_eq_true, ↓reduceIte]
        simp
      · left
        unfold LineJoin.endCapLines
        rw [cap_fst_start, h1]
  · have hout' : (ThickSegment.mk j n).isSkeleton = false := by simpa using hout
    left
    refine ⟨(j.startCapLines).1, ?_, ?_⟩
    · unfold ThickSegment.outline
      simp only [hout', Bool.false_eq_true, ↓reduceIte]
      simp
    · left
      unfold LineJoin.startCapLines
      rw [cap_fst_start, h2]

/-! ### the top row of the styled bounding box -/

/-- Where the proof uses exact join corners (`i32` vertices): stroke width 1, and Inside strokes of
width > 1 that are not collapsed. -/
def TriNeedsI32 (t : Tri) (style : TriStyle) : Prop :=
  style.strokeWidth = 1 ∨
    (2 ≤ style.strokeWidth ∧ style.strokeAlignment = .inside ∧
      t.sortedClockwise.isCollapsed style.strokeWidth .right ≠ some true)

instance (t : Tri) (style : TriStyle) : Decidable (TriNeedsI32 t style) := by
  unfold TriNeedsI32; exact inferInstance

theorem vertexBox_top (t : Tri) :
    t.boundingBox.tl.y = min (min t.sortedClockwise.v1.y t.sortedClockwise.v2.y) t.sortedClockwise.v3.y ∧
    t.boundingBox.tl.y ≤ max (max t.sortedClockwise.v1.y t.sortedClockwise.v2.y) t.sortedClockwise.v3.y := by
  obtain ⟨a, b⟩ := sortedClockwise_ys t
  have e : t.boundingBox.tl.y = min (min t.v1.y t.v2.y) t.v3.y := by
    unfold Tri.boundingBox Rect.withCorners
    dsimp only
    omega
  omega

theorem outline_end_row {l : Line} {V : Pt} (h : l.start = V ∨ l.stop = V) :
    min l.start.y l.stop.y ≤ V.y ∧ V.y ≤ max l.start.y l.stop.y := by
  rcases h with h | h <;> rw [← h] <;> omega

/-- **The top row of the styled bounding box has a scanline** — the line configuration
`ScanlineIntersections::new` computes for it yields one — unless the style has stroke width 0 and no
fill (then no row has one). -/
theorem triIntersections_new_top (t : Tri) (style : TriStyle) (bb : Rect)
    (hbb : triStyledBoundingBox t style = some bb) (hlt : bb.tl.y < 2147483647)
    (hi : TriNeedsI32 t style → TriI32 t) (ints0 : TriIntersections)
    (hnew : TriIntersections.new t.sortedClockwise style.strokeWidth style.strokeAlignment.toOffset
      style.fillColor.isSome bb.tl.y = some ints0) :
    ints0.next.isSome = true ∨
      (ints0.strokeWidth = 0 ∧ ints0.hasFill = false ∧ ints0.isCollapsed = false) := by
  unfold TriIntersections.new at hnew
  cases hc : t.sortedClockwise.isCollapsed style.strokeWidth style.strokeAlignment.toOffset with
  | none => rw [hc] at hnew; cases hnew
  | some c =>
    rw [hc] at hnew
    simp only [Option.bind_eq_bind, Option.bind_some] at hnew
    generalize hself : ({ TriIntersections.empty with
      hasFill := style.fillColor.isSome, triangle := t.sortedClockwise
      strokeOffset := style.strokeAlignment.toOffset, strokeWidth := style.strokeWidth
      isCollapsed := c && style.strokeAlignment.toOffset == StrokeOffset.right } : TriIntersections) = self_ at hnew
    have e1 : self_.triangle = t.sortedClockwise := by rw [← hself]
    have e2 : self_.strokeWidth = style.strokeWidth := by rw [← hself]
    have e3 : self_.strokeOffset = style.strokeAlignment.toOffset := by rw [← hself]
    have e4 : self_.hasFill = style.fillColor.isSome := by rw [← hself]
    have e5 : self_.isCollapsed = (c && style.strokeAlignment.toOffset == StrokeOffset.right) := by rw [← hself]
    -- the plain vertex box
    have hvb : style.strokeWidth < 2 ∨ style.strokeAlignment = .inside →
        bb.tl.y = min (min self_.triangle.v1.y self_.triangle.v2.y) self_.triangle.v3.y ∧
        bb.tl.y ≤ max (max self_.triangle.v1.y self_.triangle.v2.y) self_.triangle.v3.y := by
      intro h
      unfold triStyledBoundingBox at hbb
      simp only [h, ↓reduceIte, Option.some.injEq] at hbb
      rw [e1, ← hbb]
      exact vertexBox_top t
    by_cases hcol : self_.isCollapsed = true
    · -- collapsed inside stroke: the plain triangle scanline
      left
      have hal : style.strokeAlignment = .inside := by
        rw [e5] at hcol
        simp only [Bool.and_eq_true, beq_iff_eq] at hcol
        cases hs : style.strokeAlignment with
        | inside => rfl
        | center => rw [hs] at hcol; exact absurd hcol.2 (by decide)
        | outside => rw [hs] at hcol; exact absurd hcol.2 (by decide)
      obtain ⟨a, b⟩ := hvb (Or.inr hal)
      exact reset_next_isSome_of_plain self_ (Or.inl hcol) bb.tl.y (by omega) b ints0 hnew
    · have hcol' : self_.isCollapsed = false := by simpa using hcol
      by_cases hw : self_.strokeWidth = 0
      · by_cases hf : self_.hasFill = true
        · left
          obtain ⟨a, b⟩ := hvb (Or.inl (by rw [← e2, hw]; omega))
          exact reset_next_isSome_of_plain self_ (Or.inr ⟨hw, hf⟩) bb.tl.y (by omega) b ints0 hnew
        · right
          have hf' : self_.hasFill = false := by simpa using hf
          exact (reset_next_none_of_nothing self_ hw hf' hcol' bb.tl.y ints0 hnew).2
      · -- the stroke is drawn from the three edge segments
        left
        obtain ⟨j0, h0⟩ := fromPoints_total self_.triangle.v3 self_.triangle.v1 self_.triangle.v2
          self_.strokeWidth self_.strokeOffset
        obtain ⟨j1, h1⟩ := fromPoints_total self_.triangle.v1 self_.triangle.v2 self_.triangle.v3
          self_.strokeWidth self_.strokeOffset
        obtain ⟨j2, h2⟩ := fromPoints_total self_.triangle.v2 self_.triangle.v3 self_.triangle.v1
          self_.strokeWidth self_.strokeOffset
        suffices hseg : ∃ s : ThickSegment, (s = ⟨j0, j1⟩ ∨ s = ⟨j1, j2⟩ ∨ s = ⟨j2, j0⟩) ∧
            ∃ l ∈ s.outline, min l.start.y l.stop.y ≤ bb.tl.y ∧ bb.tl.y ≤ max l.start.y l.stop.y by
          obtain ⟨s, hs, l, hl, r1, r2⟩ := hseg
          obtain ⟨k, hk, hsc⟩ := scanNonempty_of_segment self_ bb.tl.y j0 j1 j2 h0 h1 h2 s hs
            (intersection_nonempty s bb.tl.y l hl r1 r2)
          exact reset_next_isSome_of_edge self_ hw hcol' bb.tl.y k hk hsc ints0 hnew
        by_cases hthin : style.strokeWidth < 2 ∨ style.strokeAlignment = .inside
        · -- vertex box: the topmost vertex is an end point of an outline line
          obtain ⟨a, b⟩ := hvb hthin
          have hexact : self_.strokeWidth = 1 ∨ self_.strokeOffset = .right := by
            rcases hthin with h | h
            · left; rw [e2] at hw ⊢; omega
            · right; rw [e3, h]; rfl
          have hneed : TriNeedsI32 t style := by
            by_cases h1w : style.strokeWidth = 1
            · exact Or.inl h1w
            · right
              rcases hthin with h | h
              · rw [e2] at hw; omega
              · refine ⟨by rw [e2] at hw; omega, h, ?_⟩
                rw [e5, h] at hcol'
                have hcf : c = false := by simpa [StrokeAlignment.toOffset] using hcol'
                rw [h] at hc
                have hc' : t.sortedClockwise.isCollapsed style.strokeWidth .right = some c := hc
                rw [hc', hcf]
                simp
          obtain ⟨i1, i2, i3⟩ := sortedClockwise_all (fun p => inI32 p.x ∧ inI32 p.y) t
            (hi hneed).1 (hi hneed).2.1 (hi hneed).2.2
          rw [← e1] at i1 i2 i3
          have hV : bb.tl.y = self_.triangle.v1.y ∨ bb.tl.y = self_.triangle.v2.y ∨
              bb.tl.y = self_.triangle.v3.y := by omega
          rcases hV with hV | hV | hV
          · obtain ⟨c1, c2⟩ := join_left_exact _ _ _ _ _ i1.1 i1.2 hexact j0 h0
            rcases top_outline_at_join j2 j0 j1 self_.triangle.v1 c1 c2 with ⟨l, hl, he⟩ | ⟨l, hl, he⟩
            · exact ⟨_, Or.inl rfl, l, hl, by rw [hV]; exact outline_end_row he⟩
            · exact ⟨_, Or.inr (Or.inr rfl), l, hl, by rw [hV]; exact outline_end_row he⟩
          · obtain ⟨c1, c2⟩ := join_left_exact _ _ _ _ _ i2.1 i2.2 hexact j1 h1
            rcases top_outline_at_join j0 j1 j2 self_.triangle.v2 c1 c2 with ⟨l, hl, he⟩ | ⟨l, hl, he⟩
            · exact ⟨_, Or.inr (Or.inl rfl), l, hl, by rw [hV]; exact outline_end_row he⟩
            · exact ⟨_, Or.inl rfl, l, hl, by rw [hV]; exact outline_end_row he⟩
          · obtain ⟨c1, c2⟩ := join_left_exact _ _ _ _ _ i3.1 i3.2 hexact j2 h2
            rcases top_outline_at_join j1 j2 j0 self_.triangle.v3 c1 c2 with ⟨l, hl, he⟩ | ⟨l, hl, he⟩
            · exact ⟨_, Or.inr (Or.inr rfl), l, hl, by rw [hV]; exact outline_end_row he⟩
            · exact ⟨_, Or.inr (Or.inl rfl), l, hl, by rw [hV]; exact outline_end_row he⟩
        · -- Center / Outside, width > 1: the fold of the segment boxes
          rw [triStyledBoundingBox_eq] at hbb
          simp only [hthin, ↓reduceIte] at hbb
          have hsegs : closedSegments3 t.sortedClockwise style.strokeWidth style.strokeAlignment.toOffset =
              some [⟨j0, j1⟩, ⟨j1, j2⟩, ⟨j2, j0⟩] := by
            unfold closedSegments3
            rw [e1, e2, e3] at h0 h1 h2
            rw [h0, h1, h2]
            rfl
          rw [hsegs] at hbb
          simp only [Option.map_some, Option.some.injEq] at hbb
          subst hbb
          obtain ⟨s, hs, htop⟩ := foldEdgeBoxes_top_attained _ (by simp) hlt
          obtain ⟨l, hl, r1, r2⟩ := edgesBox_top_line s
          refine ⟨s, by simpa using hs, l, hl, ?_, ?_⟩ <;> rw [htop] <;> assumption

end Joins

namespace C01Thick
open EG.Joins

theorem rowsEnd_le_max (r : Rect) : r.rowsEnd ≤ 2147483647 := by
  unfold Rect.rowsEnd satAddI32
  split
  · omega
  · split <;> omega

/-- **After a first `None` only `None`s** (`TriFirstNoneFinal`), for every triangle and style — where
the stroke has width 1 or is a (non-collapsed) Inside stroke the vertices are `i32`s (`TriNeedsI32`). -/
theorem triFirstNoneFinal (t : Tri) (style : TriStyle) (hi : TriNeedsI32 t style → TriI32 t) :
    TriFirstNoneFinal t style := by
  intro li li' hli hn
  obtain ⟨hnone, hcase⟩ := TriScanlines.next_none_state hn
  rcases hcase with ⟨hrows, rfl⟩ | ⟨hrows, ints, hre, hin, rfl⟩
  · -- no further row: the state is unchanged
    exact (TriScanlines.next_none_iff li').mp ⟨li', hn⟩
  · -- the iterator moved on to the second row: then the top row had no scanline
    unfold triScanlines at hli
    cases hbb : triStyledBoundingBox t style with
    | none => rw [hbb] at hli; cases hli
    | some bb =>
      rw [hbb] at hli
      simp only [Option.bind_eq_bind, Option.bind_some] at hli
      unfold TriScanlines.new at hli
      dsimp only at hli
      by_cases hr : bb.tl.y < bb.rowsEnd
      · simp only [hr, ↓reduceIte, Option.bind_eq_bind] at hli
        cases hnew : TriIntersections.new t.sortedClockwise style.strokeWidth style.strokeAlignment.toOffset
            style.fillColor.isSome bb.tl.y with
        | none => rw [hnew] at hli; cases hli
        | some ints0 =>
          rw [hnew] at hli
          simp only [Option.bind_some, pure, Option.some.injEq] at hli
          subst hli
          dsimp only at hnone hrows hre ⊢
          have hlt : bb.tl.y < 2147483647 := by have := rowsEnd_le_max bb; omega
          rcases triIntersections_new_top t style bb hbb hlt hi ints0 hnew with h | ⟨w0, f0, c0⟩
          · rw [hnone] at h; cases h
          · -- stroke width 0, no fill: no row has a scanline
            obtain ⟨-, w1, f1, c1⟩ := reset_next_none_of_nothing ints0 w0 f0 c0 _ ints hre
            rw [TriScanlines.nextLoop_eq_def]
            unfold TriScanlines.nextLoopDef
            dsimp only
            rw [hin]
            dsimp only
            split
            · cases hre2 : ints.resetWithNewScanline (bb.tl.y + 1 + 1) with
              | none =>
                obtain ⟨x, hx⟩ := TriIntersections.reset_total ints (bb.tl.y + 1 + 1)
                rw [hx] at hre2; cases hre2
              | some ints2 =>
                simp only [Option.bind_eq_bind, Option.bind_some]
                rw [(reset_next_none_of_nothing ints w1 f1 c1 _ ints2 hre2).1]
                rfl
            · rfl
      · simp only [hr, ↓reduceIte, Option.some.injEq] at hli
        subst hli
        exact absurd hrows (by decide)

end C01Thick
end EG
