/-
  EG.Lemmas.JoinsPolyline — stroked polylines: what does not depend on the `translate` field.
-/
import EG.Model.ThickPolyline
import EG.Lemmas.RectTranslate
namespace EG
namespace Joins
open Thick (LineSide StrokeOffset)

/-- `PolyDraw` moved by `d`. -/
def PolyDraw.translate : PolyDraw → Pt → PolyDraw
  | .nothing, _ => .nothing
  | .drawIter pts, d => .drawIter (pts.map (· + d))
  | .fillSolids rs, d => .fillSolids (rs.map (·.translate d))

/-- For a real stroke the untranslated box does not look at the `translate` field. -/
theorem untranslatedBoundingBox_field (t : Pt) (vs : List Pt) (w : Nat) (hw : 0 < w)
    (hn : 1 < vs.length) :
    untranslatedBoundingBox ⟨t, vs⟩ w = untranslatedBoundingBox ⟨Pt.zero, vs⟩ w := by
  unfold untranslatedBoundingBox
  have h : w > 0 ∧ vs.length > 1 := ⟨hw, hn⟩
  simp only [h, and_self, ↓reduceIte]

theorem drawThickRects_field (t : Pt) (vs : List Pt) (w : Nat) (hw : 0 < w) (hn : 1 < vs.length) :
    drawThickRects ⟨t, vs⟩ w = drawThickRects ⟨Pt.zero, vs⟩ w := by
  unfold drawThickRects PolyScanlines.new
  rw [untranslatedBoundingBox_field t vs w hw hn]

theorem rect_translate_zero (r : Rect) : r.translate Pt.zero = r := Rect.translate_zero r

theorem drawStyled_translate_field (t : Pt) (vs : List Pt) (w : Nat) (hw : 2 ≤ w)
    (hn : 1 < vs.length) :
    drawStyled ⟨t, vs⟩ w = (drawStyled ⟨Pt.zero, vs⟩ w).map (PolyDraw.translate · t) := by
  obtain ⟨k, rfl⟩ : ∃ k, w = k + 2 := ⟨w - 2, by omega⟩
  unfold drawStyled
  simp only []
  rw [drawThickRects_field t vs (k + 2) (by omega) hn]
  cases drawThickRects ⟨Pt.zero, vs⟩ (k + 2) with
  | none => rfl
  | some rs =>
    simp only [Option.bind_eq_bind, Option.bind_some, ne_eq, not_true_eq_false, ↓reduceIte, pure,
      Option.map_some, PolyDraw.translate]
    by_cases ht : t = Pt.zero
    · subst ht
      simp only [not_true_eq_false, ↓reduceIte, Option.some.injEq, PolyDraw.fillSolids.injEq]
      rw [List.map_congr_left (fun r _ => rect_translate_zero r), List.map_id']
    · simp only [ht, not_false_eq_true, ↓reduceIte]

end Joins
end EG
