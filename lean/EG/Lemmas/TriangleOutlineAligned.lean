/-
  EG.Lemmas.TriangleOutlineAligned — the one-pixel outline for `StrokeAlignment::Inside / Outside`
  (model EG/Model/TriangleAligned.lean).
  * `is_collapsed` not set (`Center`, `Outside`, and `Inside` on a triangle of non-zero area): the
    iterator is the one of the centre alignment, `outlinePixelsAligned = outlinePixels`.
  * `is_collapsed` set (`Inside` on a zero-area triangle): `generate_lines` hands out the whole
    `scanline_intersection` row as one stroke-coloured piece, so `pixels()` is `points()` in the
    stroke colour (`outlinePixelsAligned_collapsed`) - for a zero-area triangle the Bresenham line
    between the `(y, x)`-extreme vertices (EG.Lemmas.TriangleColinear).
-/
import EG.Lemmas.TriangleOutlineMain
import EG.Lemmas.TriangleColinear
import EG.Model.TriangleAligned
namespace EG
open Scanline

/-! ## not collapsed: the centre-alignment iterator -/

namespace Triangle

theorem collapsedFlag1_eq_true_iff (t : Triangle) (a : TriAlign) :
    t.collapsedFlag1 a = true ↔ t.areaDoubled ≤ 0 ∧ a = .inside := by
  unfold collapsedFlag1
  simp only [Bool.and_eq_true, decide_eq_true_eq, beq_iff_eq]

/-- `sorted_clockwise` has non-negative area; zero exactly when the triangle's is. -/
theorem sortedClockwise_area (t : Triangle) :
    0 ≤ t.sortedClockwise.areaDoubled ∧ (t.sortedClockwise.areaDoubled = 0 ↔ t.areaDoubled = 0) := by
  by_cases h1 : t.areaDoubled < 0
  · have es : t.sortedClockwise = ⟨t.v2, t.v1, t.v3⟩ := by
      unfold sortedClockwise; rw [if_pos h1]
    have e := areaDoubled_swap12 t.v1 t.v2 t.v3
    have e2 : (Triangle.mk t.v1 t.v2 t.v3).areaDoubled = t.areaDoubled := rfl
    rw [es, e, e2]; omega
  · by_cases h2 : t.areaDoubled > 0
    · have es : t.sortedClockwise = t := by
        unfold sortedClockwise; rw [if_neg h1, if_pos h2]
      rw [es]; omega
    · have es : t.sortedClockwise = t.sortedYx := by
        unfold sortedClockwise; rw [if_neg h1, if_neg h2]
      have h0 : t.areaDoubled = 0 := by omega
      have e := (areaDoubled_eq_zero_iff_of_mem_orders (sortedYx_mem_orders t)).mpr h0
      rw [es]; omega

/-- The flag of the triangle the scanline code works on: `Inside` and zero area. -/
theorem collapsedFlag1_sortedClockwise (t : Triangle) (a : TriAlign) :
    t.sortedClockwise.collapsedFlag1 a = true ↔ t.areaDoubled = 0 ∧ a = .inside := by
  rw [collapsedFlag1_eq_true_iff]
  obtain ⟨h1, h2⟩ := sortedClockwise_area t
  constructor
  · rintro ⟨h, ha⟩; exact ⟨h2.mp (by omega), ha⟩
  · rintro ⟨h, ha⟩; exact ⟨by have := h2.mpr h; omega, ha⟩

/-- **Without the collapsed flag the aligned outline is the centre outline** (the same iterator
state from the start). -/
theorem outlinePixelsAligned_of_not_collapsed (t : Triangle) (c : Nat) (a : TriAlign)
    (h : ¬ (t.areaDoubled = 0 ∧ a = .inside)) : t.outlinePixelsAligned c a = t.outlinePixels c := by
  have hf : t.sortedClockwise.collapsedFlag1 a = false := by
    cases hc : t.sortedClockwise.collapsedFlag1 a with
    | false => rfl
    | true => exact absurd ((collapsedFlag1_sortedClockwise t a).mp hc) h
  unfold outlinePixelsAligned outlinePixels TriPixelsIt.newAligned TriPixelsIt.new
    ScanlineIterator.newAligned ScanlineIterator.new ScanlineIntersections.newAligned
    ScanlineIntersections.new
  simp only [hf]
  rfl

end Triangle

/-! ## collapsed: `ScanlineIntersections` -/

namespace ScanlineIntersections

theorem generateLines_collapsed (it : ScanlineIntersections) (y : Int) (h : it.isCollapsed = true) :
    it.generateLines y =
      ⟨Scanline.newEmpty 0, Scanline.newEmpty 0, it.triangle.scanlineIntersection y, .stroke⟩ := by
  unfold generateLines
  simp only [h, ↓reduceIte]

end ScanlineIntersections

/-! ## collapsed: `ScanlineIterator` -/

namespace ScanlineIterator

/-- Invariant of the collapsed path. -/
structure CollInv (w : Triangle) (si : ScanlineIterator) : Prop where
  co : si.intersections.isCollapsed = true
  tri : si.intersections.triangle = w
  fe : si.intersections.lines.first.isEmpty = true
  se : si.intersections.lines.second.isEmpty = true
  ty : si.intersections.lines.internalType = .stroke

theorem nextC_some {w : Triangle} {si si' : ScanlineIterator} {l : Scanline} {ty : PointType}
    (inv : CollInv w si) (h : si.next = (some (l, ty), si')) :
    CollInv w si' ∧ l.isEmpty = false ∧ ty = .stroke ∧ seenOf w si = l :: seenOf w si' := by
  obtain ⟨co, htri, fe, se, hty⟩ := inv
  unfold next at h
  rw [ScanlineIntersections.next_eq _ fe se] at h
  by_cases hi : si.intersections.lines.internal.isEmpty = true
  · simp only [hi, ↓reduceIte] at h
    by_cases hr : si.rowsStart < si.rowsEnd
    · simp only [hr, ↓reduceIte] at h
      have hgen := ScanlineIntersections.generateLines_collapsed si.intersections si.rowsStart co
      rw [ScanlineIntersections.next_eq _
        (by simp only [ScanlineIntersections.reset, hgen]; exact Scanline.newEmpty_isEmpty _)
        (by simp only [ScanlineIntersections.reset, hgen]; exact Scanline.newEmpty_isEmpty _)] at h
      simp only [ScanlineIntersections.reset, hgen] at h
      by_cases hs : (si.intersections.triangle.scanlineIntersection si.rowsStart).isEmpty = true
      · simp only [hs, ↓reduceIte, Prod.mk.injEq] at h
        exact absurd h.1 (by simp)
      · have hs' : (si.intersections.triangle.scanlineIntersection si.rowsStart).isEmpty = false := by
          simpa using hs
        simp only [hs', Bool.false_eq_true, ↓reduceIte, Prod.mk.injEq, Option.some.injEq] at h
        obtain ⟨⟨rfl, rfl⟩, rfl⟩ := h
        refine ⟨⟨co, htri, Scanline.newEmpty_isEmpty _, Scanline.newEmpty_isEmpty _, rfl⟩, hs', rfl, ?_⟩
        unfold seenOf Triangle.seen
        simp only [hi, ↓reduceIte, Scanline.cleared_isEmpty]
        rw [irange_cons hr, Triangle.untilEmpty, ← htri]
        simp only [hs', Bool.false_eq_true, ↓reduceIte]
    · simp only [hr, ↓reduceIte, Prod.mk.injEq] at h
      exact absurd h.1 (by simp)
  · have hi' : si.intersections.lines.internal.isEmpty = false := by simpa using hi
    simp only [hi', Bool.false_eq_true, ↓reduceIte, Prod.mk.injEq, Option.some.injEq] at h
    obtain ⟨⟨rfl, rfl⟩, rfl⟩ := h
    refine ⟨⟨co, htri, fe, se, hty⟩, hi', hty, ?_⟩
    unfold seenOf Triangle.seen
    simp only [hi', Bool.false_eq_true, ↓reduceIte, Scanline.cleared_isEmpty]

theorem nextC_none {w : Triangle} {si si' : ScanlineIterator}
    (inv : CollInv w si) (h : si.next = (none, si')) : seenOf w si = [] := by
  obtain ⟨co, htri, fe, se, hty⟩ := inv
  unfold next at h
  rw [ScanlineIntersections.next_eq _ fe se] at h
  by_cases hi : si.intersections.lines.internal.isEmpty = true
  · simp only [hi, ↓reduceIte] at h
    unfold seenOf Triangle.seen
    simp only [hi, ↓reduceIte]
    by_cases hr : si.rowsStart < si.rowsEnd
    · simp only [hr, ↓reduceIte] at h
      have hgen := ScanlineIntersections.generateLines_collapsed si.intersections si.rowsStart co
      rw [ScanlineIntersections.next_eq _
        (by simp only [ScanlineIntersections.reset, hgen]; exact Scanline.newEmpty_isEmpty _)
        (by simp only [ScanlineIntersections.reset, hgen]; exact Scanline.newEmpty_isEmpty _)] at h
      simp only [ScanlineIntersections.reset, hgen] at h
      by_cases hs : (si.intersections.triangle.scanlineIntersection si.rowsStart).isEmpty = true
      · rw [irange_cons hr, Triangle.untilEmpty, ← htri]
        simp only [hs, ↓reduceIte]
      · have hs' : (si.intersections.triangle.scanlineIntersection si.rowsStart).isEmpty = false := by
          simpa using hs
        simp only [hs', Bool.false_eq_true, ↓reduceIte, Prod.mk.injEq] at h
        exact absurd h.1 (by simp)
    · rw [irange_empty (a := si.rowsStart) (b := si.rowsEnd) (by omega)]; rfl
  · have hi' : si.intersections.lines.internal.isEmpty = false := by simpa using hi
    simp only [hi', Bool.false_eq_true, ↓reduceIte, Prod.mk.injEq] at h
    exact absurd h.1 (by simp)

end ScanlineIterator

/-! ## collapsed: `StyledPixelsIterator` -/

namespace TriPixelsIt
open ScanlineIterator

/-- Invariant of the collapsed one-colour path. -/
structure CInv (w : Triangle) (c : Nat) (it : TriPixelsIt) : Prop where
  li : CollInv w it.linesIter
  cc : it.currentColor = some c
  sc : it.strokeColor = some c

/-- Everything a `for` loop over the pixel iterator still sees. -/
def restC (w : Triangle) (c : Nat) (it : TriPixelsIt) : List (Pt × Nat) :=
  (it.currentLine.points ++ (seenOf w it.linesIter).flatMap Scanline.points).map (fun p => (p, c))

theorem nextC_some {w : Triangle} {c : Nat} {it it' : TriPixelsIt} {pc : Pt × Nat}
    (inv : CInv w c it) (h : it.next = some (pc, it')) :
    CInv w c it' ∧ it.restC w c = pc :: it'.restC w c := by
  obtain ⟨li, cc, sc⟩ := inv
  unfold next at h
  obtain ⟨f, hf⟩ := loopBudget_ge it
  rw [hf] at h
  by_cases hc : it.currentLine.isEmpty = true
  · cases hn : it.linesIter.next with
    | mk r si' =>
      cases r with
      | none =>
        rw [nextFuel_fetch_none cc hc _ (by rw [hn])] at h
        simp at h
      | some lt =>
        obtain ⟨l, ty⟩ := lt
        obtain ⟨inv', hl, hty, hseen⟩ := ScanlineIterator.nextC_some li hn
        subst hty
        rw [nextFuel_fetch_stroke cc hc _ (l := l) (by rw [hn]), hn] at h
        dsimp only at h
        rw [nextFuel_hit (c := c) (by dsimp only; exact sc) (by dsimp only; exact hl)] at h
        simp only [Option.some.injEq, Prod.mk.injEq] at h
        obtain ⟨rfl, rfl⟩ := h
        refine ⟨⟨inv', sc, sc⟩, ?_⟩
        unfold restC
        dsimp only
        rw [hseen, Scanline.points_of_isEmpty hc, List.flatMap_cons,
          Scanline.points_cons ((Scanline.isEmpty_false_iff l).mp hl)]
        simp
  · have hc' : it.currentLine.isEmpty = false := by simpa using hc
    rw [nextFuel_hit cc hc'] at h
    simp only [Option.some.injEq, Prod.mk.injEq] at h
    obtain ⟨rfl, rfl⟩ := h
    refine ⟨⟨li, cc, sc⟩, ?_⟩
    unfold restC
    dsimp only
    rw [Scanline.points_cons ((Scanline.isEmpty_false_iff _).mp hc')]
    simp

theorem nextC_none {w : Triangle} {c : Nat} {it : TriPixelsIt}
    (inv : CInv w c it) (h : it.next = none) : it.restC w c = [] := by
  obtain ⟨li, cc, sc⟩ := inv
  unfold next at h
  obtain ⟨f, hf⟩ := loopBudget_ge it
  rw [hf] at h
  by_cases hc : it.currentLine.isEmpty = true
  · cases hn : it.linesIter.next with
    | mk r si' =>
      cases r with
      | none =>
        unfold restC
        rw [ScanlineIterator.nextC_none li hn, Scanline.points_of_isEmpty hc]; rfl
      | some lt =>
        obtain ⟨l, ty⟩ := lt
        obtain ⟨_, hl, hty, _⟩ := ScanlineIterator.nextC_some li hn
        subst hty
        rw [nextFuel_fetch_stroke cc hc _ (l := l) (by rw [hn]), hn] at h
        dsimp only at h
        rw [nextFuel_hit (c := c) (by dsimp only; exact sc) (by dsimp only; exact hl)] at h
        simp at h
  · have hc' : it.currentLine.isEmpty = false := by simpa using hc
    rw [nextFuel_hit cc hc'] at h
    simp at h

theorem toListFuel_eq_takeC (w : Triangle) (c : Nat) : ∀ (fuel : Nat) (it : TriPixelsIt),
    CInv w c it → it.toListFuel fuel = (it.restC w c).take fuel := by
  intro fuel
  induction fuel with
  | zero => intro it _; simp [toListFuel]
  | succ fuel ih =>
    intro it inv
    unfold toListFuel
    cases hn : it.next with
    | none => simp only [nextC_none inv hn, List.take_nil]
    | some r =>
      obtain ⟨pc, it'⟩ := r
      obtain ⟨inv', hrest⟩ := nextC_some inv hn
      simp only [hrest, List.take_succ_cons, ih it' inv']

end TriPixelsIt

/-! ## collapsed: the outline is `points()` in the stroke colour -/

namespace Triangle
open ScanlineIterator

/-- The `ScanlineIntersections` value before the first `reset_with_new_scanline` (collapsed). -/
def collapsedTemplate (w : Triangle) (hasFill : Bool) : ScanlineIntersections :=
  { lines := ScanlineIntersections.empty.lines, triangle := w, strokeWidth := 1, hasFill := hasFill,
    isCollapsed := true }

/-- **`Inside` alignment on a zero-area triangle: `pixels()` is `points()` in the stroke colour.** -/
theorem outlinePixelsAligned_collapsed (t : Triangle) (c : Nat) (h : t.boundingBox.InRange)
    (ha : t.areaDoubled = 0) :
    t.outlinePixelsAligned c .inside = t.points.map (fun p => (p, c)) := by
  obtain ⟨etl, ew, eh⟩ := boundingBox_eq t
  have hre : t.boundingBox.rowsEnd = yMax t + 1 := by
    rw [Rect.rowsEnd_eq h, etl]; dsimp only; omega
  have hrs : t.boundingBox.tl.y = yMin t := by rw [etl]
  have hmm := min_le_max t
  have hlt : yMin t < yMax t + 1 := by omega
  have hflag : t.sortedClockwise.collapsedFlag1 .inside = true :=
    (collapsedFlag1_sortedClockwise t .inside).mpr ⟨ha, rfl⟩
  let tpl : ScanlineIntersections := collapsedTemplate t.sortedClockwise false
  have hli : ScanlineIterator.newAligned t .inside false t.boundingBox =
      ⟨yMin t + 1, yMax t + 1, yMin t, tpl.reset (yMin t)⟩ := by
    unfold ScanlineIterator.newAligned
    simp only [hre, hrs, hlt, ↓reduceIte, hflag]
    rfl
  have hgen := ScanlineIntersections.generateLines_collapsed tpl (yMin t) rfl
  have hinv : CollInv t.sortedClockwise ⟨yMin t + 1, yMax t + 1, yMin t, tpl.reset (yMin t)⟩ := by
    refine ⟨rfl, rfl, ?_, ?_, ?_⟩ <;> simp only [ScanlineIntersections.reset, hgen]
    · exact Scanline.newEmpty_isEmpty _
    · exact Scanline.newEmpty_isEmpty _
  have hspan : ∀ y, yMin t ≤ y → y < yMax t + 1 → (t.span y).isEmpty = false := by
    intro y h1 h2
    rw [Scanline.isEmpty_false_iff]
    exact span_nonempty t y h1 (by omega)
  have hseen : (seenOf t.sortedClockwise ⟨yMin t + 1, yMax t + 1, yMin t, tpl.reset (yMin t)⟩).flatMap
      Scanline.points = t.points := by
    rw [points_eq_rows t h]
    have e := rowsSpec_all t.span (yMin t) (yMax t + 1) hspan
    unfold rowsSpec at e
    simp only [hlt, ↓reduceIte] at e
    unfold rowList
    rw [← e]
    unfold seenOf
    simp only [ScanlineIntersections.reset, hgen]
    rfl
  unfold outlinePixelsAligned TriPixelsIt.newAligned
  simp only [Option.isSome_none, hli]
  cases hn : (ScanlineIterator.next ⟨yMin t + 1, yMax t + 1, yMin t, tpl.reset (yMin t)⟩) with
  | mk r si' =>
    have hlen : t.points.length ≤ 2 * t.boundingBox.size.w * t.boundingBox.size.h + 1 := by
      rw [points_eq_rows t h]
      have hlen := length_flatMap_le (fun y => (t.span y).points) t.boundingBox.size.w
        (rowList t) (by
          intro y _
          rw [Scanline.points_length]
          have := span_within t y
          omega)
      unfold rowList at hlen ⊢
      rw [irange_length] at hlen
      have e1 : (yMax t + 1 - yMin t).toNat = t.boundingBox.size.h := by omega
      rw [e1] at hlen
      calc _ ≤ t.boundingBox.size.h * t.boundingBox.size.w := hlen
        _ = t.boundingBox.size.w * t.boundingBox.size.h := Nat.mul_comm _ _
        _ ≤ 2 * t.boundingBox.size.w * t.boundingBox.size.h + 1 := by
          rw [Nat.mul_assoc]; omega
    cases r with
    | none =>
      exfalso
      have hnil := nextC_none hinv hn
      unfold seenOf Triangle.seen at hnil
      simp only [ScanlineIntersections.reset, hgen] at hnil
      have h0 : (t.sortedClockwise.scanlineIntersection (yMin t)).isEmpty = false :=
        hspan (yMin t) (Int.le_refl _) hlt
      have h0' : (tpl.triangle.scanlineIntersection (yMin t)).isEmpty = false := h0
      simp only [h0', Bool.false_eq_true, ↓reduceIte] at hnil
      exact absurd hnil (by simp)
    | some lt =>
      obtain ⟨l, ty⟩ := lt
      obtain ⟨inv', hl, hty, hs⟩ := nextC_some hinv hn
      subst hty
      dsimp only [Option.getD_some]
      rw [TriPixelsIt.toListFuel_eq_takeC t.sortedClockwise c _ _ ⟨inv', rfl, rfl⟩]
      unfold TriPixelsIt.restC
      dsimp only
      have hflat : l.points ++ (seenOf t.sortedClockwise si').flatMap Scanline.points = t.points := by
        rw [← hseen, hs, List.flatMap_cons]
      rw [hflat]
      apply List.take_of_length_le
      rw [List.length_map]
      exact hlen

end Triangle
/-! ## edges in either orientation -/

namespace Triangle

/-- `l` is the edge between `a` and `b`, rasterised in one of its two directions. -/
def IsEdge (l : Line) (a b : Pt) : Prop := l = ⟨a, b⟩ ∨ l = ⟨b, a⟩

theorem IsEdge.symm {l : Line} {a b : Pt} (h : IsEdge l a b) : IsEdge l b a := Or.symm h

/-- The three edges of a reordered triangle are the three edges of the triangle. -/
theorem edges_of_orders {t s : Triangle} (h : s ∈ orders t) {l12 l23 l31 : Line}
    (h12 : IsEdge l12 s.v1 s.v2) (h23 : IsEdge l23 s.v2 s.v3) (h31 : IsEdge l31 s.v3 s.v1) :
    ∃ e1 e2 e3, IsEdge e1 t.v1 t.v2 ∧ IsEdge e2 t.v2 t.v3 ∧ IsEdge e3 t.v3 t.v1 ∧
      ∀ p, (p ∈ Line.points l12 ∨ p ∈ Line.points l23 ∨ p ∈ Line.points l31) ↔
        (p ∈ Line.points e1 ∨ p ∈ Line.points e2 ∨ p ∈ Line.points e3) := by
  obtain ⟨a, b, c⟩ := t
  rcases mem_orders.mp h with rfl | rfl | rfl | rfl | rfl | rfl <;> dsimp only at h12 h23 h31 ⊢
  · exact ⟨l12, l23, l31, h12, h23, h31, fun p => Iff.rfl⟩
  · exact ⟨l31, l23, l12, h31.symm, h23.symm, h12.symm, fun p => by
      constructor <;> rintro (h | h | h) <;> simp [h]⟩
  · exact ⟨l12, l31, l23, h12.symm, h31.symm, h23.symm, fun p => by
      constructor <;> rintro (h | h | h) <;> simp [h]⟩
  · exact ⟨l31, l12, l23, h31, h12, h23, fun p => by
      constructor <;> rintro (h | h | h) <;> simp [h]⟩
  · exact ⟨l23, l31, l12, h23, h31, h12, fun p => by
      constructor <;> rintro (h | h | h) <;> simp [h]⟩
  · exact ⟨l23, l12, l31, h23.symm, h12.symm, h31.symm, fun p => by
      constructor <;> rintro (h | h | h) <;> simp [h]⟩

end Triangle
end EG
