/-
  EG.Lemmas.ImageRawSub — sub-images (any nesting depth) and the `Image` wrapper:
  every drawable built from a well-formed raw image by `sub_image` draws, with one
  `fill_contiguous`, exactly the pixels `pixelSpec` of its box (or nothing when it is empty), and
  `pixelSpec` of a sub-image is the parent's `pixelSpec` shifted by the area's top-left corner.
-/
import EG.Lemmas.ImageRawDraw
import EG.Lemmas.ImageRawTarget
namespace EG.Img
open EG EG.Raw

theorem pt_add_zero (p : Pt) : p + Pt.zero = p := by rw [Pt.ext_iff']; simp [Pt.zero]
theorem pt_zero_add (p : Pt) : Pt.zero + p = p := by rw [Pt.ext_iff']; simp [Pt.zero]
theorem pt_add_assoc (a b c : Pt) : a + b + c = a + (b + c) := by
  rw [Pt.ext_iff']; simp only [Pt.add_x, Pt.add_y]; omega
theorem pt_add_comm (a b : Pt) : a + b = b + a := by
  rw [Pt.ext_iff']; simp only [Pt.add_x, Pt.add_y]; omega
theorem pt_add_sub_cancel (a b : Pt) : a + b - b = a := by
  rw [Pt.ext_iff']; simp only [Pt.add_x, Pt.add_y, Pt.sub_x, Pt.sub_y]; omega
theorem pt_sub_add_cancel (a b : Pt) : a - b + b = a := by
  rw [Pt.ext_iff']; simp only [Pt.add_x, Pt.add_y, Pt.sub_x, Pt.sub_y]; omega

theorem rect_translate_zero (r : Rect) : r.translate Pt.zero = r := by
  unfold Rect.translate; rw [pt_add_zero]
theorem rect_translate_translate (r : Rect) (a b : Pt) :
    (r.translate a).translate b = r.translate (a + b) := by
  unfold Rect.translate; simp only [pt_add_assoc]

namespace Drawable

/-- The raw image at the bottom of a chain of sub-images. -/
def root : Drawable → ImageRaw
  | raw im => im
  | sub p _ => p.root

/-- Position of the drawable's origin in the root image. -/
def origin : Drawable → Pt
  | raw _ => Pt.zero
  | sub p a => a.tl + p.origin

/-- Specification of the picture a drawable shows: a raw image shows its `pixel`s, a sub-image
shows, inside the box of its size, the parent's picture shifted by the area's top-left corner. -/
def pixelSpec : Drawable → Pt → Option Nat
  | raw im, p => im.pixel p
  | sub parent a, p =>
    if (⟨Pt.zero, a.size⟩ : Rect).contains p = true then parent.pixelSpec (a.tl + p) else none

/-- An area is empty or inside a box of size `s` at the origin. -/
def AreaOk (s : Sz) (a : Rect) : Prop :=
  a.isZeroSized = true ∨
    (0 ≤ a.tl.x ∧ 0 ≤ a.tl.y ∧ a.tl.x + a.size.w ≤ s.w ∧ a.tl.y + a.size.h ≤ s.h)

/-- Drawables whose root passed `ImageRaw::new` and whose areas are empty or inside their parent:
everything `sub_image` builds (`good_subImage`). -/
def Good : Drawable → Prop
  | raw im => im.WF
  | sub parent a => parent.Good ∧ AreaOk parent.size a

/-- `SubImage::new` clips the area to the parent's box: the stored area is empty or inside. -/
theorem areaOk_intersection (s : Sz) (area : Rect) :
    AreaOk s ((⟨Pt.zero, s⟩ : Rect).intersection area) := by
  unfold AreaOk
  by_cases hz : ((⟨Pt.zero, s⟩ : Rect).intersection area).isZeroSized = true
  · exact Or.inl hz
  · right
    rw [Rect.isZeroSized_iff] at hz
    have key : ∀ p, ((⟨Pt.zero, s⟩ : Rect).intersection area).contains p = true →
        (⟨Pt.zero, s⟩ : Rect).contains p = true :=
      fun p hp => ((Rect.mem_intersection _ _ _).mp hp).1
    generalize (⟨Pt.zero, s⟩ : Rect).intersection area = a at hz key ⊢
    have h1 := key a.tl (by rw [Rect.contains_iff]; omega)
    have h2 := key ⟨a.tl.x + a.size.w - 1, a.tl.y + a.size.h - 1⟩ (by
      rw [Rect.contains_iff]; simp only; omega)
    rw [Rect.contains_iff] at h1 h2
    simp only [Pt.zero] at h1 h2
    omega

theorem good_subImage {d : Drawable} (h : d.Good) (area : Rect) : (d.subImage area).Good :=
  ⟨h, areaOk_intersection d.size area⟩

theorem root_good : ∀ {d : Drawable}, d.Good → d.root.WF
  | raw _, h => h
  | sub p _, h => root_good (d := p) h.1

/-- Re-basing: a sub-image forwards `draw_sub_image` to the root with the area moved by its origin. -/
theorem drawSubImage_root : ∀ (d : Drawable) (area : Rect),
    d.drawSubImage area = d.root.drawSubImage (area.translate d.origin)
  | raw im, area => by simp only [drawSubImage, root, origin, rect_translate_zero]
  | sub p a, area => by
    simp only [drawSubImage, root, origin]
    rw [drawSubImage_root p, rect_translate_translate]

/-- A non-empty good drawable shows a region inside the root image. -/
theorem region_inside : ∀ {d : Drawable}, d.Good → 0 < d.size.w → 0 < d.size.h →
    0 ≤ d.origin.x ∧ 0 ≤ d.origin.y ∧ d.origin.x + d.size.w ≤ d.root.size.w ∧
      d.origin.y + d.size.h ≤ d.root.size.h
  | raw im, _, _, _ => by simp only [origin, root, size, Pt.zero]; omega
  | sub p a, h, hw, hh => by
    simp only [size] at hw hh
    obtain ⟨hp, ha⟩ := h
    rcases ha with ha | ha
    · rw [Rect.isZeroSized_iff] at ha; omega
    · have ih := region_inside (d := p) hp (by omega) (by omega)
      simp only [origin, root, size, Pt.add_x, Pt.add_y]
      omega

/-- Inside its box a good drawable shows the root's pixels at `origin + p`. -/
theorem pixelSpec_root : ∀ {d : Drawable}, d.Good → ∀ (p : Pt), d.boundingBox.contains p = true →
    d.pixelSpec p = d.root.pixel (d.origin + p)
  | raw im, _, p, _ => by simp only [pixelSpec, root, origin, pt_zero_add]
  | sub par a, h, p, hc => by
    simp only [boundingBox, size] at hc
    simp only [pixelSpec, hc, ↓reduceIte, root, origin]
    obtain ⟨hp, ha⟩ := h
    rw [Rect.contains_iff] at hc
    simp only [Pt.zero] at hc
    rcases ha with ha | ha
    · rw [Rect.isZeroSized_iff] at ha; omega
    · rw [pixelSpec_root (d := par) hp (a.tl + p) (by
        rw [boundingBox, Rect.contains_iff]; simp only [Pt.zero, Pt.add_x, Pt.add_y]; omega)]
      congr 1
      rw [pt_add_comm a.tl par.origin, pt_add_assoc]

theorem pixelSpec_outside : ∀ {d : Drawable}, d.Good → ∀ (p : Pt), d.boundingBox.contains p = false →
    d.pixelSpec p = none
  | raw im, h, p, hc => by
    simp only [pixelSpec]; rw [ImageRaw.pixel_none_iff h]; exact hc
  | sub par a, _, p, hc => by
    simp only [boundingBox, size] at hc
    simp only [pixelSpec, hc, Bool.false_eq_true, ↓reduceIte]

/-- What `draw` does for a good drawable: one `fill_contiguous` of its box with exactly
`width * height` colours, the picture row-major — or, for an empty sub-image, nothing. -/
theorem draw_spec : ∀ {d : Drawable}, d.Good →
    (∃ cs, d.draw = [Call.fillContiguous d.boundingBox cs] ∧
        cs.map some = d.boundingBox.pointsSpec.map d.pixelSpec ∧
        cs.length = d.size.w * d.size.h) ∨
      (d.draw = [] ∧ d.boundingBox.isZeroSized = true)
  | raw im, h => by
    left
    obtain ⟨cs, h1, h2, h3⟩ := ImageRaw.draw_eq h
    exact ⟨cs, h1, h2, h3⟩
  | sub par a, h => by
    have hg : (sub par a).Good := h
    obtain ⟨hp, ha⟩ := h
    simp only [draw]
    rw [drawSubImage_root]
    by_cases hz : 0 < a.size.w ∧ 0 < a.size.h
    · left
      have hr := region_inside hg hz.1 hz.2
      simp only [size, origin, root, Pt.add_x, Pt.add_y] at hr
      have hacc : par.root.Accepts (a.translate par.origin) := by
        unfold ImageRaw.Accepts
        simp only [Rect.translate, Pt.add_x, Pt.add_y]
        omega
      obtain ⟨cs, h1, h2, h3⟩ := ImageRaw.drawSubImage_accept (root_good hp) hacc
      refine ⟨cs, h1, ?_, h3⟩
      rw [h2]
      simp only [boundingBox, size, Rect.translate]
      apply List.map_congr_left
      intro p hpm
      have hwf := root_good hp
      have hin : (⟨Pt.zero, a.size⟩ : Rect).contains p = true := by
        rw [← Rect.mem_pointsSpec (originRect_inRange (by have := hwf.wI32; omega) (by have := hwf.hI32; omega))]
        exact hpm
      rw [pixelSpec_root hg p hin]
      simp only [root, origin]
    · right
      have hzz : (a.translate par.origin).isZeroSized = true := by
        rw [Rect.isZeroSized_iff]; simp only [Rect.translate]; omega
      refine ⟨?_, ?_⟩
      · apply ImageRaw.drawSubImage_reject
        unfold ImageRaw.Accepts
        rw [Rect.isZeroSized_iff] at hzz
        omega
      · rw [Rect.isZeroSized_iff]; simp only [boundingBox, size]; omega

/-- Sizes of good drawables survive `as i32`. -/
theorem size_le : ∀ {d : Drawable}, d.Good → 0 < d.size.w → 0 < d.size.h →
    d.size.w ≤ 2147483647 ∧ d.size.h ≤ 2147483647 := by
  intro d h hw hh
  have := region_inside h hw hh
  have hwf := root_good h
  have := hwf.wI32
  have := hwf.hI32
  omega

end Drawable

/-! ### `Image`: what is left on a target -/

namespace Image

/-- The picture an image shows, in target coordinates. -/
def picture (i : Image) (q : Pt) : Option Nat :=
  if i.boundingBox.contains q = true then i.drawable.pixelSpec (q - i.offset) else none

theorem run_fill (B area : Rect) (cs : List Color) :
    runNative B [Call.fillContiguous area cs] = PMap.empty.apply (clipWrites B (area.pointsSpec.zip cs)) := by
  simp only [runNative, List.flatMap_cons, List.flatMap_nil, List.append_nil, Call.writesNative,
    Call.lowerNative]

theorem run_fill_default (B area : Rect) (cs : List Color) :
    runDefault B [Call.fillContiguous area cs] = PMap.empty.apply (clipWrites B (area.pointsSpec.zip cs)) := by
  simp only [runDefault, List.flatMap_cons, List.flatMap_nil, List.append_nil, Call.writesDefault,
    Call.lowerDefault, Rect.points_eq_spec]

/-- **Drawing an image on a native-fill target with box `B`**: target point `q` gets the picture's
pixel if `q` is in `B`, and nothing else is touched. -/
theorem runNative_draw (i : Image) (hg : i.drawable.Good) (hr : i.boundingBox.InRange) (B : Rect) (q : Pt) :
    runNative B i.draw q = if B.contains q = true then i.picture q else none := by
  unfold draw picture
  rcases Drawable.draw_spec hg with ⟨cs, h1, h2, _⟩ | ⟨h1, h2⟩
  · rw [h1]
    simp only [List.map_cons, List.map_nil, translatedCall]
    rw [run_fill]
    by_cases hz : 0 < i.drawable.size.w ∧ 0 < i.drawable.size.h
    · have hsz := Drawable.size_le hg hz.1 hz.2
      have hin := originRect_inRange (sz := i.drawable.size) hsz.1 hsz.2
      have hpt : (i.drawable.boundingBox.translate i.offset).pointsSpec =
          i.drawable.boundingBox.pointsSpec.map (fun p => p + i.offset) :=
        pointsSpec_translate hin hr
      rw [apply_zip B _ cs (fun q => i.drawable.pixelSpec (q - i.offset))]
      · have hr' : (i.drawable.boundingBox.translate i.offset).InRange := hr
        have hm := Rect.mem_pointsSpec hr' (p := q)
        unfold boundingBox
        by_cases hb : B.contains q = true <;> by_cases hc : (i.drawable.boundingBox.translate i.offset).contains q = true <;>
          simp [hb, hc, hm]
      · rw [← Rect.points_eq_spec]; exact Rect.points_nodup _
      · rw [h2, hpt, List.map_map]
        apply List.map_congr_left
        intro p _
        simp only [Function.comp, pt_add_sub_cancel]
    · -- empty raw image: the stream and the point list are empty
      have hzz : (i.drawable.boundingBox.translate i.offset).isZeroSized = true := by
        rw [Rect.isZeroSized_iff]; simp only [Rect.translate, Drawable.boundingBox]; omega
      have hps : (i.drawable.boundingBox.translate i.offset).pointsSpec = [] := by
        unfold Rect.pointsSpec; simp only [hzz, ↓reduceIte]
      rw [hps]
      simp only [List.zip_nil_left, clipWrites, List.filter_nil, apply_nil]
      have hc : i.boundingBox.contains q = false := by
        apply Rect.contains_false_of_zero
        rw [Rect.isZeroSized_iff] at hzz; exact hzz
      simp only [hc, Bool.false_eq_true, ↓reduceIte, ite_self]
      rfl
  · rw [h1]
    have hc : i.boundingBox.contains q = false := by
      apply Rect.contains_false_of_zero
      rw [Rect.isZeroSized_iff] at h2
      simp only [boundingBox, Rect.translate]; exact h2
    simp only [List.map_nil, hc, Bool.false_eq_true, ↓reduceIte, ite_self]
    rfl

/-- The calls an image makes are `fill_contiguous` calls only, so the default (draw_iter only)
target and the native target end with the same map. -/
theorem runDefault_eq_runNative (i : Image) (hg : i.drawable.Good) (B : Rect) :
    runDefault B i.draw = runNative B i.draw := by
  unfold draw
  rcases Drawable.draw_spec hg with ⟨cs, h1, _, _⟩ | ⟨h1, _⟩
  · rw [h1]
    simp only [List.map_cons, List.map_nil, translatedCall]
    rw [run_fill, run_fill_default]
  · rw [h1]; rfl

end Image
end EG.Img
