/-
  EG.Lemmas.FixedTrigNormals — orientation of the normal vectors the `fixed_point` table produces:
  for a right boundary of whole degree `kr` and a left boundary `D` degrees further (`2 <= D <= 180`,
  or `D = 1` when neither cosine degree is off by one), the two normals `PlaneSector::new` computes are
  correctly ordered (`cross(right, left) > 0`) or do not point the same way (`dot <= 0`) — so the
  bisector test of `PlaneSector::contains` never rejects a point both half planes accept
  (`PlaneSector.contains_eq_plain_of_cross_pos` / `_of_dot_nonpos`).

  This is a fact about a finite table (360 degrees x 180 differences x the 4 combinations of the
  cosine's degree being `d + 90` or `d + 91`, see `deg_shift`): `decide +kernel`, over the derived
  list `Generated.normalTableNat` (components offset by 1024, `Nat` arithmetic), which is first proved equal to the model's functions. It fails for
  `D = 1` with the right cosine off by one (`kr` = 88, 89, 91, 268, 269, 271: the two normals come out
  parallel, the sweep degenerates to a ray) — `orient_fails_witness`.
-/
import EG.Lemmas.FixedTrig
import Mathlib.Tactic.Ring
namespace EG.Fx
open EG EG.Generated

/-- `(t64 (sinT k), t64 (sinT (k + 90)), t64 (sinT (k + 91)))` -/
def normalEntry (k : Nat) : Int × Int × Int :=
  (t64 (sinT (k : Int)), t64 (sinT ((k : Int) + 90)), t64 (sinT ((k : Int) + 91)))

/-- undo the offset of the derived table -/
def offEntry (e : Nat × Nat × Nat) : Int × Int × Int :=
  ((e.1 : Int) - 1024, (e.2.1 : Int) - 1024, (e.2.2 : Int) - 1024)

/-- The derived table is what the model computes. -/
theorem normalTableNat_eq : normalTableNat.map offEntry = (List.range 360).map normalEntry := by
  decide +kernel

/-- `cross(right, left) > 0` or `dot(left, right) <= 0` for `right = (-sr, cr)`, `left = (-sl, cl)`. -/
def orientOK (sr cr sl cl : Int) : Bool :=
  decide (0 < sl * cr - sr * cl) || decide (sl * sr + cl * cr ≤ 0)

/-- The same test on components offset by 1024, in `Nat` arithmetic (what the kernel evaluates). -/
def orientOKN (sr cr sl cl : Nat) : Bool :=
  Nat.ble (sr * cl + 1024 * (sl + cr) + 1) (sl * cr + 1024 * (sr + cl)) ||
  Nat.ble (sl * sr + cl * cr + 2097152) (1024 * (sl + sr + cl + cr))

theorem orientOKN_eq (sr cr sl cl : Nat) :
    orientOKN sr cr sl cl = orientOK ((sr : Int) - 1024) ((cr : Int) - 1024) ((sl : Int) - 1024) ((cl : Int) - 1024) := by
  unfold orientOKN orientOK
  have e1 : ((sl : Int) - 1024) * ((cr : Int) - 1024) - ((sr : Int) - 1024) * ((cl : Int) - 1024) =
      ((sl * cr + 1024 * (sr + cl) : Nat) : Int) - ((sr * cl + 1024 * (sl + cr) : Nat) : Int) := by
    push_cast; ring
  have e2 : ((sl : Int) - 1024) * ((sr : Int) - 1024) + ((cl : Int) - 1024) * ((cr : Int) - 1024) =
      ((sl * sr + cl * cr + 2097152 : Nat) : Int) - ((1024 * (sl + sr + cl + cr) : Nat) : Int) := by
    push_cast; ring
  rw [e1, e2]
  generalize sl * cr + 1024 * (sr + cl) = A
  generalize sr * cl + 1024 * (sl + cr) = B
  generalize sl * sr + cl * cr + 2097152 = C
  generalize 1024 * (sl + sr + cl + cr) = E
  have h1 : Nat.ble (B + 1) A = decide (0 < (A : Int) - (B : Int)) := by
    rw [Bool.eq_iff_iff, Nat.ble_eq, decide_eq_true_iff]; omega
  have h2 : Nat.ble C E = decide ((C : Int) - (E : Int) ≤ 0) := by
    rw [Bool.eq_iff_iff, Nat.ble_eq, decide_eq_true_iff]; omega
  rw [h1, h2]

/-- all four combinations of the cosine degrees -/
def pairOK (r l : Nat × Nat × Nat) : Bool :=
  orientOKN r.1 r.2.1 l.1 l.2.1 && orientOKN r.1 r.2.1 l.1 l.2.2 &&
  orientOKN r.1 r.2.2 l.1 l.2.1 && orientOKN r.1 r.2.2 l.1 l.2.2

/-- both cosine degrees exact -/
def pairOK0 (r l : Nat × Nat × Nat) : Bool := orientOKN r.1 r.2.1 l.1 l.2.1

def all2 {α : Type} (f : α → α → Bool) : List α → List α → Bool
  | x :: xs, y :: ys => f x y && all2 f xs ys
  | _, _ => true

theorem all2_get {α : Type} (f : α → α → Bool) : ∀ (xs ys : List α), all2 f xs ys = true →
    ∀ (i : Nat) (a b : α), xs[i]? = some a → ys[i]? = some b → f a b = true
  | [], _, _, i, a, b, ha, _ => by simp at ha
  | _ :: _, [], _, i, a, b, _, hb => by simp at hb
  | x :: xs, y :: ys, h, i, a, b, ha, hb => by
    unfold all2 at h
    rw [Bool.and_eq_true] at h
    cases i with
    | zero =>
      simp only [List.getElem?_cons_zero, Option.some.injEq] at ha hb
      rw [← ha, ← hb]; exact h.1
    | succ j =>
      simp only [List.getElem?_cons_succ] at ha hb
      exact all2_get f xs ys h.2 j a b ha hb

/-- row `D`: every right degree against the left degree `D` further (cyclically) -/
def rowOK (f : Nat × Nat × Nat → Nat × Nat × Nat → Bool) (D : Nat) : Bool :=
  all2 f normalTableNat ((normalTableNat ++ normalTableNat).drop D)

theorem rows_ok : ∀ D : Nat, D < 179 → rowOK pairOK (D + 2) = true := by decide +kernel

theorem row1_ok : rowOK pairOK0 1 = true := by decide +kernel

theorem normalEntry_congr {a b : Nat} (h : (a : Int) % 360 = (b : Int) % 360) : normalEntry a = normalEntry b := by
  unfold normalEntry
  rw [sinT_congr h, sinT_congr (a := (a : Int) + 90) (b := (b : Int) + 90) (by omega),
    sinT_congr (a := (a : Int) + 91) (b := (b : Int) + 91) (by omega)]

/-- `tableNormal` of arbitrary integer degrees from the table entry of the reduced degree. -/
theorem entry_of_int (d : Int) :
    normalEntry (d % 360).toNat = (t64 (sinT d), t64 (sinT (d + 90)), t64 (sinT (d + 91))) := by
  unfold normalEntry
  have e : (((d % 360).toNat : Nat) : Int) = d % 360 := Int.toNat_of_nonneg (by omega)
  rw [e, sinT_congr (a := d % 360) (b := d) (by omega),
    sinT_congr (a := d % 360 + 90) (b := d + 90) (by omega),
    sinT_congr (a := d % 360 + 91) (b := d + 91) (by omega)]

attribute [local irreducible] normalEntry

theorem tableNat_length : normalTableNat.length = 360 := by
  have h := congrArg List.length normalTableNat_eq
  simpa using h

theorem tableNat_get (k : Nat) (hk : k < 360) :
    ∃ e, normalTableNat[k]? = some e ∧ offEntry e = normalEntry k := by
  have h : (normalTableNat.map offEntry)[k]? = some (normalEntry k) := by
    rw [normalTableNat_eq, List.getElem?_map, List.getElem?_range hk]
    exact rfl
  rw [List.getElem?_map] at h
  cases hh : normalTableNat[k]? with
  | none => rw [hh] at h; cases h
  | some e =>
    rw [hh] at h
    exact ⟨e, rfl, Option.some.inj h⟩

theorem drop_doubled_get {α : Type} (T : List α) (N : Nat) (hlen : T.length = N) (k D : Nat) :
    ((T ++ T).drop D)[k]? = if D + k < N then T[D + k]? else T[D + k - N]? := by
  rw [List.getElem?_drop]
  by_cases h : D + k < N
  · rw [if_pos h, List.getElem?_append_left (by rw [hlen]; exact h)]
  · rw [if_neg h, List.getElem?_append_right (by rw [hlen]; omega), hlen]

theorem doubled_get (k D : Nat) (hk : k < 360) (hD : D ≤ 360) :
    ∃ e, ((normalTableNat ++ normalTableNat).drop D)[k]? = some e ∧ offEntry e = normalEntry (k + D) := by
  rw [drop_doubled_get normalTableNat 360 tableNat_length k D]
  by_cases h : D + k < 360
  · obtain ⟨e, h1, h2⟩ := tableNat_get (D + k) h
    refine ⟨e, ?_, ?_⟩
    · rw [if_pos h]; exact h1
    · rw [h2]; exact congrArg normalEntry (by omega)
  · obtain ⟨e, h1, h2⟩ := tableNat_get (D + k - 360) (by omega)
    refine ⟨e, ?_, ?_⟩
    · rw [if_neg h]; exact h1
    · rw [h2]
      apply normalEntry_congr
      omega

/-- a checked row, read at the right degree `k`: the entries and the test on them -/
theorem row_get (f : Nat × Nat × Nat → Nat × Nat × Nat → Bool) (D : Nat) (hD : D ≤ 360)
    (h : rowOK f D = true) (k : Nat) (hk : k < 360) :
    ∃ r l, offEntry r = normalEntry k ∧ offEntry l = normalEntry (k + D) ∧ f r l = true := by
  obtain ⟨r, hr1, hr2⟩ := tableNat_get k hk
  obtain ⟨l, hl1, hl2⟩ := doubled_get k D hk hD
  exact ⟨r, l, hr2, hl2, all2_get f _ _ h k r l hr1 hl1⟩

theorem offEntry_components {e : Nat × Nat × Nat} {a b c : Int} (h : offEntry e = (a, b, c)) :
    (e.1 : Int) - 1024 = a ∧ (e.2.1 : Int) - 1024 = b ∧ (e.2.2 : Int) - 1024 = c := by
  unfold offEntry at h
  simp only [Prod.mk.injEq] at h
  exact h

/-- **Orientation of the table normals**: right boundary of degree `dr` (cosine degree `cr`), left
boundary of degree `dl` (cosine degree `cl`), `2 <= dl - dr <= 180`. -/
theorem orient_ok (dr dl cr cl : Int) (hD : 2 ≤ dl - dr ∧ dl - dr ≤ 180)
    (hcr : cr = dr + 90 ∨ cr = dr + 91) (hcl : cl = dl + 90 ∨ cl = dl + 91) :
    orientOK (t64 (sinT dr)) (t64 (sinT cr)) (t64 (sinT dl)) (t64 (sinT cl)) = true := by
  have hrow := rows_ok ((dl - dr).toNat - 2) (by omega)
  have e : (dl - dr).toNat - 2 + 2 = (dl - dr).toNat := by omega
  rw [e] at hrow
  obtain ⟨r, l, hr, hl, h⟩ := row_get pairOK (dl - dr).toNat (by omega) hrow (dr % 360).toNat (by omega)
  have e2 : normalEntry ((dr % 360).toNat + (dl - dr).toNat) = normalEntry (dl % 360).toNat := by
    apply normalEntry_congr
    have : (((dr % 360).toNat + (dl - dr).toNat : Nat) : Int) = dr % 360 + (dl - dr) := by omega
    rw [this]
    have : (((dl % 360).toNat : Nat) : Int) = dl % 360 := Int.toNat_of_nonneg (by omega)
    rw [this]
    omega
  rw [e2] at hl
  rw [entry_of_int] at hr hl
  obtain ⟨r1, r2, r3⟩ := offEntry_components hr
  obtain ⟨l1, l2, l3⟩ := offEntry_components hl
  unfold pairOK at h
  simp only [Bool.and_eq_true, orientOKN_eq, r1, r2, r3, l1, l2, l3] at h
  rcases hcr with hcr | hcr <;> rcases hcl with hcl | hcl <;> rw [hcr, hcl]
  · exact h.1.1.1
  · exact h.1.1.2
  · exact h.1.2
  · exact h.2

/-- One degree apart, both cosine degrees exact. -/
theorem orient_ok_one (dr : Int) :
    orientOK (t64 (sinT dr)) (t64 (sinT (dr + 90))) (t64 (sinT (dr + 1))) (t64 (sinT (dr + 1 + 90))) = true := by
  obtain ⟨r, l, hr, hl, h⟩ := row_get pairOK0 1 (by omega) row1_ok (dr % 360).toNat (by omega)
  have e2 : normalEntry ((dr % 360).toNat + 1) = normalEntry ((dr + 1) % 360).toNat := by
    apply normalEntry_congr
    have : (((dr % 360).toNat + 1 : Nat) : Int) = dr % 360 + 1 := by omega
    rw [this]
    have : ((((dr + 1) % 360).toNat : Nat) : Int) = (dr + 1) % 360 := Int.toNat_of_nonneg (by omega)
    rw [this]
    omega
  rw [e2] at hl
  rw [entry_of_int] at hr hl
  obtain ⟨r1, r2, _⟩ := offEntry_components hr
  obtain ⟨l1, l2, _⟩ := offEntry_components hl
  unfold pairOK0 at h
  simp only [orientOKN_eq, r1, r2, l1, l2] at h
  exact h

/-- The orientation fact fails one degree apart when the right cosine degree is off by one: right
boundary 89 degrees with cosine degree 180 gives the normal (-1023, 0), left boundary 90 degrees the
normal (-1024, 0) — parallel, equally directed. -/
theorem orient_fails_witness :
    orientOK (t64 (sinT 89)) (t64 (sinT (89 + 91))) (t64 (sinT 90)) (t64 (sinT (90 + 90))) = false ∧
    tableNormal 89 (89 + 91) = ⟨-1023, 0⟩ ∧ tableNormal 90 (90 + 90) = ⟨-1024, 0⟩ := by decide +kernel

end EG.Fx
