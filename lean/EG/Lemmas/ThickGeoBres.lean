/-
  EG.Lemmas.ThickGeoBres — the points of ONE parallel of a stroked line as a lattice band.
  `n` calls of `Bresenham::next` from the state `b` (error in `(-D, 3D]`) with the line's parameters
  yield exactly the lattice points `q` with
    amaj b.point <= amaj q < amaj b.point + n         (one per column of the major axis, in order)
    -D < (b.error - ph b.point) + ph q <= D           (the half-open band of height `2 D`)
  (`amaj`, `ph`: EG.Lemmas.ThickGeoFrame). `b.error - ph b.point` is constant along the parallel.
-/
import EG.Lemmas.ThickGeoFrame
set_option linter.unusedSimpArgs false
namespace EG
namespace Thick
open StrokeCtx

/-- The band constant of a Bresenham state: `error - ph(point)`. -/
def bandK (c : StrokeCtx) (b : Bresenham) : Int := b.error - c.ph b.point

/-- `q` lies in the band with constant `K`. -/
def InBandK (c : StrokeCtx) (K : Int) (q : Pt) : Prop := -c.D < K + c.ph q ∧ K + c.ph q ≤ c.D

/-- One call of `Bresenham::next` with the line's parameters. -/
theorem bres_next_geo (c : StrokeCtx) (hv : c.Valid) (b : Bresenham) (h1 : -c.D < b.error)
    (h2 : b.error ≤ 3 * c.D) :
    c.amaj (b.next c.pp).1 = c.amaj b.point ∧ InBandK c (bandK c b) (b.next c.pp).1 ∧
    c.amin b.point ≤ c.amin (b.next c.pp).1 ∧
    c.amaj (b.next c.pp).2.point = c.amaj b.point + 1 ∧
    bandK c (b.next c.pp).2 = bandK c b ∧
    -c.D < (b.next c.pp).2.error ∧ (b.next c.pp).2.error ≤ 3 * c.D := by
  have hD := hv.hD
  have hd0 := hv.hd0
  have hdD := hv.hdD
  have e1 := amaj_M hv.ax
  have e2 := amaj_m hv.ax
  have e3 := amin_M hv.ax
  have e4 := amin_m hv.ax
  have e5 := ph_M hv.ax
  have e6 := ph_m hv.ax
  unfold InBandK bandK
  by_cases hE : b.error > c.D
  · have hn : b.next c.pp = (b.point + c.m, ⟨b.point + c.m + c.M, b.error - 2 * c.D + 2 * c.d⟩) := by
      unfold Bresenham.next StrokeCtx.pp
      simp only [hE, ↓reduceIte]
    rw [hn]
    simp only [amaj_add, amin_add, ph_add, e1, e2, e3, e4, e5, e6]
    refine ⟨?_, ⟨?_, ?_⟩, ?_, ?_, ?_, ?_, ?_⟩ <;> first | trivial | omega
  · have hn : b.next c.pp = (b.point, ⟨b.point + c.M, b.error + 2 * c.d⟩) := by
      unfold Bresenham.next StrokeCtx.pp
      simp only [hE, ↓reduceIte]
    rw [hn]
    simp only [amaj_add, amin_add, ph_add, e1, e2, e3, e4, e5, e6]
    refine ⟨?_, ⟨?_, ?_⟩, ?_, ?_, ?_, ?_, ?_⟩ <;> first | trivial | omega

/-- Every point of the parallel lies in its band, in the `k`-th column. -/
theorem parPts_mem_geo (c : StrokeCtx) (hv : c.Valid) :
    ∀ (n : Nat) (b : Bresenham), -c.D < b.error → b.error ≤ 3 * c.D →
    ∀ q ∈ parPts n b c.pp, ∃ k : Nat, k < n ∧ c.amaj q = c.amaj b.point + k ∧
      c.amin b.point ≤ c.amin q ∧ InBandK c (bandK c b) q
  | 0, _, _, _, q, hq => by cases hq
  | n + 1, b, h1, h2, q, hq => by
    obtain ⟨g1, g2, g3, g4, g5, g6, g7⟩ := bres_next_geo c hv b h1 h2
    unfold parPts at hq
    rcases List.mem_cons.mp hq with rfl | hq
    · exact ⟨0, by omega, by rw [g1]; simp, g3, g2⟩
    · obtain ⟨k, k1, k2, k3, k4⟩ := parPts_mem_geo c hv n _ g6 g7 q hq
      refine ⟨k + 1, by omega, by rw [k2, g4]; push_cast; omega, ?_, by rw [← g5]; exact k4⟩
      -- the minor coordinate never decreases
      have : c.amin b.point ≤ c.amin (b.next c.pp).2.point := by
        have e3 := amin_M hv.ax
        have e4 := amin_m hv.ax
        by_cases hE : b.error > c.D
        · have hn : (b.next c.pp).2.point = b.point + c.m + c.M := by
            unfold Bresenham.next StrokeCtx.pp; simp only [hE, ↓reduceIte]
          rw [hn]; simp only [amin_add, e3, e4]; omega
        · have hn : (b.next c.pp).2.point = b.point + c.M := by
            unfold Bresenham.next StrokeCtx.pp; simp only [hE, ↓reduceIte]
          rw [hn]; simp only [amin_add, e3, e4]; omega
      omega

/-- The major coordinate increases strictly along the parallel. -/
theorem parPts_pairwise (c : StrokeCtx) (hv : c.Valid) :
    ∀ (n : Nat) (b : Bresenham), -c.D < b.error → b.error ≤ 3 * c.D →
    List.Pairwise (fun p q => c.amaj p < c.amaj q) (parPts n b c.pp)
  | 0, _, _, _ => List.Pairwise.nil
  | n + 1, b, h1, h2 => by
    obtain ⟨g1, g2, g3, g4, g5, g6, g7⟩ := bres_next_geo c hv b h1 h2
    unfold parPts
    refine List.Pairwise.cons ?_ (parPts_pairwise c hv n _ g6 g7)
    intro q hq
    obtain ⟨k, _, k2, _, _⟩ := parPts_mem_geo c hv n _ g6 g7 q hq
    rw [g1, k2, g4]; omega

theorem parPts_nodup (c : StrokeCtx) (hv : c.Valid) (n : Nat) (b : Bresenham) (h1 : -c.D < b.error)
    (h2 : b.error ≤ 3 * c.D) : (parPts n b c.pp).Nodup := by
  have := parPts_pairwise c hv n b h1 h2
  exact this.imp (fun {p q} h e => by rw [e] at h; omega)

/-- Two lattice points of the same band in the same column are equal. -/
theorem band_unique (c : StrokeCtx) (hv : c.Valid) (K : Int) (p q : Pt) (hp : InBandK c K p)
    (hq : InBandK c K q) (ha : c.amaj p = c.amaj q) : p = q := by
  apply pt_eq_of_coords hv.ax ha
  unfold InBandK ph at hp hq
  rw [ha] at hp
  have hD := hv.hD
  by_contra hne
  rcases Int.lt_or_gt_of_ne hne with h | h
  · have : c.D * (c.amin p + 1) ≤ c.D * c.amin q :=
      Int.mul_le_mul_of_nonneg_left (by omega) (by omega)
    rw [Int.mul_add, Int.mul_one] at this
    have a1 : 2 * c.D * c.amin p = 2 * (c.D * c.amin p) := Int.mul_assoc _ _ _
    have a2 : 2 * c.D * c.amin q = 2 * (c.D * c.amin q) := Int.mul_assoc _ _ _
    omega
  · have : c.D * (c.amin q + 1) ≤ c.D * c.amin p :=
      Int.mul_le_mul_of_nonneg_left (by omega) (by omega)
    rw [Int.mul_add, Int.mul_one] at this
    have a1 : 2 * c.D * c.amin p = 2 * (c.D * c.amin p) := Int.mul_assoc _ _ _
    have a2 : 2 * c.D * c.amin q = 2 * (c.D * c.amin q) := Int.mul_assoc _ _ _
    omega

/-- **Completeness**: every lattice point of the band within the `n` columns is a point of the
parallel. -/
theorem parPts_complete (c : StrokeCtx) (hv : c.Valid) :
    ∀ (n : Nat) (b : Bresenham), -c.D < b.error → b.error ≤ 3 * c.D →
    ∀ q : Pt, c.amaj b.point ≤ c.amaj q → c.amaj q < c.amaj b.point + n →
      InBandK c (bandK c b) q → q ∈ parPts n b c.pp
  | 0, _, _, _, q, ha1, ha2, _ => by omega
  | n + 1, b, h1, h2, q, ha1, ha2, hb => by
    obtain ⟨g1, g2, g3, g4, g5, g6, g7⟩ := bres_next_geo c hv b h1 h2
    unfold parPts
    by_cases hk : c.amaj q = c.amaj b.point
    · have : q = (b.next c.pp).1 := band_unique c hv _ q _ hb g2 (by rw [g1, hk])
      rw [this]; exact List.mem_cons_self
    · apply List.mem_cons_of_mem
      apply parPts_complete c hv n _ g6 g7 q
      · rw [g4]; omega
      · rw [g4]; push_cast at ha2 ⊢; omega
      · rw [g5]; exact hb

end Thick
end EG
