/-
  EG.Lemmas.ThickTotal — the model of a stroked line is total: for every line and every width,
  `thickPoints` returns `some` list. Neither the bound `loopFuel` of the two inner loops
  (`next_parallel`, `ThickPoints::next`) nor the step budget of `drainFuel` is ever exhausted, so
  the model never answers "stuck" and never truncates.
  * `next_parallel` runs its loop at most twice: an `Extra` perpendicular point is followed by a
    `Normal` one (invariant `PInv` on the two perpendicular Bresenham errors);
  * every parallel raises the accumulator by at least 1 (an `Extra` point only occurs when the
    perpendicular `error_step.major` is positive), the iterator stops once `acc² > threshold`, so at
    most `threshold + 1 - acc` parallels remain (`pm`);
  * a fetched parallel has at least one point (`Extra` parallels occur only for lines with at least
    two points), so `ThickPoints::next` runs its loop at most twice and every call lowers the
    measure `remaining + length · pm`.
-/
import EG.Lemmas.ThickWidth1
import EG.Lemmas.ThickAccumulator
namespace EG
namespace Thick
open ParallelsIterator

/-- Invariant of the two perpendicular walks. -/
structure PInv (it : ParallelsIterator) : Prop where
  thr_pos : 1 ≤ it.perpendicularParameters.errorThreshold
  smaj_nonneg : 0 ≤ it.perpendicularParameters.errorStep.major
  smaj_le : it.perpendicularParameters.errorStep.major ≤ it.perpendicularParameters.errorStep.minor
  smin_pos : 1 ≤ it.perpendicularParameters.errorStep.minor
  left_le : it.left.error ≤
    it.perpendicularParameters.errorThreshold + it.perpendicularParameters.errorStep.major
  right_gt : -it.perpendicularParameters.errorThreshold - it.perpendicularParameters.errorStep.major
    < it.right.error
  zero_l : it.perpendicularParameters.errorStep.major = 0 →
    it.left.error ≤ it.perpendicularParameters.errorThreshold
  zero_r : it.perpendicularParameters.errorStep.major = 0 →
    -it.perpendicularParameters.errorThreshold < it.right.error

/-- The next perpendicular point of `side` is a `Normal` one. -/
def Ready (it : ParallelsIterator) : LineSide → Prop
  | .left => it.left.error ≤ it.perpendicularParameters.errorThreshold
  | .right => -it.perpendicularParameters.errorThreshold < it.right.error

/-- A `Normal` perpendicular point ends `next_parallel` at once. -/
theorem nextParallelFuel_ready (fuel : Nat) (it : ParallelsIterator) (side : LineSide)
    (hi : PInv it) (hr : Ready it side) :
    ∃ p e it', nextParallelFuel (fuel + 1) it side = some ((.normal p, e), it') ∧ PInv it' ∧
      SameFrame it it' := by
  have := hi.thr_pos; have := hi.smaj_nonneg; have := hi.smaj_le; have := hi.smin_pos
  have := hi.left_le; have := hi.right_gt; have := hi.zero_l; have := hi.zero_r
  cases side with
  | left =>
    have hc : ¬ (it.left.error > it.perpendicularParameters.errorThreshold) := by
      unfold Ready at hr; omega
    refine ⟨it.left.point, it.leftError,
      { it with left := ⟨it.left.point + it.perpendicularParameters.positionStep.major,
                         it.left.error + it.perpendicularParameters.errorStep.major⟩ }, ?_, ?_,
      ⟨rfl, rfl, rfl, rfl, rfl, rfl, rfl⟩⟩
    · simp only [nextParallelFuel, Bresenham.nextAll, hc, ↓reduceIte, sideError]
    · unfold Ready at hr
      constructor <;> first | assumption | (dsimp only; omega) | (dsimp only; intro h0; omega)
  | right =>
    have hc : ¬ (it.right.error ≤ -it.perpendicularParameters.errorThreshold) := by
      unfold Ready at hr; omega
    refine ⟨it.right.point, it.rightError,
      { it with right := ⟨it.right.point - it.perpendicularParameters.positionStep.major,
                          it.right.error - it.perpendicularParameters.errorStep.major⟩ }, ?_, ?_,
      ⟨rfl, rfl, rfl, rfl, rfl, rfl, rfl⟩⟩
    · simp only [nextParallelFuel, Bresenham.previousAll, hc, ↓reduceIte, sideError]
    · unfold Ready at hr
      constructor <;> first | assumption | (dsimp only; omega) | (dsimp only; intro h0; omega)

/-- `next_parallel` never exhausts `loopFuel`: it returns after at most two perpendicular steps,
keeps the invariant, touches only the walks and the parallel errors, and returns an `Extra` point
only when the perpendicular `error_step.major` is positive. -/
theorem nextParallelFuel_total (fuel : Nat) (it : ParallelsIterator) (side : LineSide) (hi : PInv it) :
    ∃ pt e it', nextParallelFuel (fuel + 2) it side = some ((pt, e), it') ∧ PInv it' ∧
      SameFrame it it' ∧
      (∀ q, pt = .extra q → 1 ≤ it.perpendicularParameters.errorStep.major) := by
  have h1 := hi.thr_pos; have h2 := hi.smaj_nonneg; have h3 := hi.smaj_le; have h4 := hi.smin_pos
  have h5 := hi.left_le; have h6 := hi.right_gt; have h7 := hi.zero_l; have h8 := hi.zero_r
  -- the second round: any state with a `Normal` point ahead
  have key : ∀ it2 : ParallelsIterator, PInv it2 → Ready it2 side → SameFrame it it2 →
      ∃ pt e it', nextParallelFuel (fuel + 1) it2 side = some ((pt, e), it') ∧ PInv it' ∧
        SameFrame it it' ∧
        (∀ q, pt = .extra q → 1 ≤ it.perpendicularParameters.errorStep.major) := by
    intro it2 hi2 hr2 hs2
    obtain ⟨p, e, it', h, hinv, hsf⟩ := nextParallelFuel_ready fuel it2 side hi2 hr2
    exact ⟨_, _, _, h, hinv, hs2.trans hsf, fun q hq => by cases hq⟩
  by_cases hr : Ready it side
  · obtain ⟨p, e, it', h, hinv, hsf⟩ := nextParallelFuel_ready (fuel + 1) it side hi hr
    exact ⟨_, _, _, h, hinv, hsf, fun q hq => by cases hq⟩
  · cases side with
    | left =>
      have hx : it.left.error > it.perpendicularParameters.errorThreshold := by
        unfold Ready at hr; omega
      have hs : 1 ≤ it.perpendicularParameters.errorStep.major := by
        by_cases hc : it.perpendicularParameters.errorStep.major = 0
        · have := h7 hc
          omega
        · omega
      rw [nextParallelFuel]
      simp only [Bresenham.nextAll, hx, ↓reduceIte, sideError, setSideError]
      split
      · split
        · refine ⟨_, _, _, rfl, ?_, ⟨rfl, rfl, rfl, rfl, rfl, rfl, rfl⟩, fun _ _ => hs⟩
          constructor <;> first | assumption | (dsimp only; omega) | (dsimp only; intro h0; omega)
        · apply key
          · constructor <;> first | assumption | (dsimp only; omega) | (dsimp only; intro h0; omega)
          · show _ ≤ _
            dsimp only; omega
          · exact ⟨rfl, rfl, rfl, rfl, rfl, rfl, rfl⟩
      · split
        · refine ⟨_, _, _, rfl, ?_, ⟨rfl, rfl, rfl, rfl, rfl, rfl, rfl⟩, fun _ _ => hs⟩
          constructor <;> first | assumption | (dsimp only; omega) | (dsimp only; intro h0; omega)
        · apply key
          · constructor <;> first | assumption | (dsimp only; omega) | (dsimp only; intro h0; omega)
          · show _ ≤ _
            dsimp only; omega
          · exact ⟨rfl, rfl, rfl, rfl, rfl, rfl, rfl⟩
    | right =>
      have hx : it.right.error ≤ -it.perpendicularParameters.errorThreshold := by
        unfold Ready at hr; omega
      have hs : 1 ≤ it.perpendicularParameters.errorStep.major := by
        by_cases hc : it.perpendicularParameters.errorStep.major = 0
        · have := h8 hc
          omega
        · omega
      rw [nextParallelFuel]
      simp only [Bresenham.previousAll, hx, ↓reduceIte, sideError, setSideError]
      split
      · split
        · refine ⟨_, _, _, rfl, ?_, ⟨rfl, rfl, rfl, rfl, rfl, rfl, rfl⟩, fun _ _ => hs⟩
          constructor <;> first | assumption | (dsimp only; omega) | (dsimp only; intro h0; omega)
        · apply key
          · constructor <;> first | assumption | (dsimp only; omega) | (dsimp only; intro h0; omega)
          · show _ < _
            dsimp only; omega
          · exact ⟨rfl, rfl, rfl, rfl, rfl, rfl, rfl⟩
      · split
        · refine ⟨_, _, _, rfl, ?_, ⟨rfl, rfl, rfl, rfl, rfl, rfl, rfl⟩, fun _ _ => hs⟩
          constructor <;> first | assumption | (dsimp only; omega) | (dsimp only; intro h0; omega)
        · apply key
          · constructor <;> first | assumption | (dsimp only; omega) | (dsimp only; intro h0; omega)
          · show _ < _
            dsimp only; omega
          · exact ⟨rfl, rfl, rfl, rfl, rfl, rfl, rfl⟩

theorem nextParallel_total (it : ParallelsIterator) (side : LineSide) (hi : PInv it) :
    ∃ pt e it', it.nextParallel side = some ((pt, e), it') ∧ PInv it' ∧ SameFrame it it' ∧
      (∀ q, pt = .extra q → 1 ≤ it.perpendicularParameters.errorStep.major) :=
  nextParallelFuel_total 2 it side hi

/-- `PInv` reads only the perpendicular parameters and the two perpendicular errors. -/
theorem PInv.of_eq {a b : ParallelsIterator} (h : PInv a)
    (e1 : b.perpendicularParameters = a.perpendicularParameters) (e2 : b.left = a.left)
    (e3 : b.right = a.right) : PInv b := by
  obtain ⟨h1, h2, h3, h4, h5, h6, h7, h8⟩ := h
  constructor <;> rw [e1] <;> first | assumption | (rw [e2]; assumption) | (rw [e3]; assumption)

theorem le_mul_self (a : Int) : a ≤ a * a := by
  by_cases h : a ≤ 0
  · have := Int.mul_nonneg_of_nonpos_of_nonpos h h
    omega
  · have := Int.mul_le_mul_of_nonneg_left (show (1 : Int) ≤ a by omega) (show (0 : Int) ≤ a by omega)
    omega

/-- Upper bound on the number of parallels still to come. -/
def pm (it : ParallelsIterator) : Nat :=
  (it.thicknessThreshold + 1 - it.thicknessAccumulator).toNat

/-- `ParallelsIterator::next` never exhausts a loop bound; a returned parallel lowers `pm`. -/
theorem next_total (it : ParallelsIterator) (hi : PInv it) :
    it.next = some (none, it) ∨
    ∃ b ty it', it.next = some (some (b, ty), it') ∧ PInv it' ∧ pm it' < pm it ∧
      it'.parallelParameters = it.parallelParameters ∧
      it'.perpendicularParameters = it.perpendicularParameters ∧
      it'.thicknessThreshold = it.thicknessThreshold ∧
      (ty = .extra → 1 ≤ it.perpendicularParameters.errorStep.major) := by
  by_cases hacc : it.thicknessAccumulator * it.thicknessAccumulator > it.thicknessThreshold
  · exact Or.inl (next_done it hacc)
  · right
    obtain ⟨pt, e, it1, h, hinv, hsf, hex⟩ := nextParallel_total it it.nextSide hi
    obtain ⟨f1, f2, f3, f4, f5, f6, f7⟩ := hsf
    have hle := le_mul_self it.thicknessAccumulator
    have h4 := hi.smin_pos
    unfold ParallelsIterator.next
    rw [if_neg hacc, h]
    cases pt with
    | normal p =>
      dsimp only
      split
      · refine ⟨_, _, _, rfl, hinv.of_eq rfl rfl rfl, ?_, f1, f2, f4, fun hc => by cases hc⟩
        unfold pm; dsimp only; rw [f2, f3, f4]; omega
      · refine ⟨_, _, _, rfl, hinv.of_eq rfl rfl rfl, ?_, f1, f2, f4, fun hc => by cases hc⟩
        unfold pm; dsimp only; rw [f2, f3, f4]; omega
    | extra p =>
      have hs := hex p rfl
      dsimp only
      split
      · refine ⟨_, _, _, rfl, hinv.of_eq rfl rfl rfl, ?_, f1, f2, f4, fun _ => hs⟩
        unfold pm; dsimp only; rw [f2, f3, f4]; omega
      · refine ⟨_, _, _, rfl, hinv.of_eq rfl rfl rfl, ?_, f1, f2, f4, fun _ => hs⟩
        unfold pm; dsimp only; rw [f2, f3, f4]; omega

/-! ### `ThickPoints` -/

/-- Invariant of `ThickPoints`: the parallels iterator's invariant, and a parallel is long enough
to have a point left after the `Extra` reduction. -/
structure TInv (t : ThickPointsIt) : Prop where
  pinv : PInv t.iter
  len_pos : 1 ≤ t.parallelLength
  len_two : 1 ≤ t.iter.perpendicularParameters.errorStep.major → 2 ≤ t.parallelLength

/-- Upper bound on the number of points still to come. -/
def mu (t : ThickPointsIt) : Nat := t.parallelPointsRemaining + t.parallelLength * pm t.iter

theorem nextFuel_total (fuel : Nat) (t : ThickPointsIt) (h : TInv t) :
    t.nextFuel (fuel + 2) = some none ∨
    ∃ p t', t.nextFuel (fuel + 2) = some (some (p, t')) ∧ TInv t' ∧ mu t' < mu t := by
  rw [ThickPointsIt.nextFuel]
  by_cases hrem : t.parallelPointsRemaining > 0
  · right
    simp only [hrem, ↓reduceIte]
    refine ⟨_, _, rfl, ⟨h.pinv, h.len_pos, h.len_two⟩, ?_⟩
    unfold mu; dsimp only; omega
  · simp only [hrem, ↓reduceIte]
    rcases next_total t.iter h.pinv with hdone | ⟨b, ty, it', hn, hinv, hpm, e1, e2, e3, hex⟩
    · left; rw [hdone]
    · right
      rw [hn]
      dsimp only
      rw [ThickPointsIt.nextFuel]
      have hl1 := h.len_pos
      have hpos : (if ty = ParallelLineType.extra then t.parallelLength - 1 else t.parallelLength) > 0 := by
        split
        · rename_i hty
          have := h.len_two (hex hty)
          omega
        · omega
      have hle : (if ty = ParallelLineType.extra then t.parallelLength - 1 else t.parallelLength)
          ≤ t.parallelLength := by split <;> omega
      simp only [hpos, ↓reduceIte]
      refine ⟨_, _, rfl, ⟨hinv, h.len_pos, fun hs => h.len_two (by rw [← e2]; exact hs)⟩, ?_⟩
      unfold mu; dsimp only
      have hm := Nat.mul_le_mul_left t.parallelLength (show pm it' + 1 ≤ pm t.iter by omega)
      rw [Nat.mul_succ] at hm
      omega

/-- Draining `ThickPoints` with more fuel than `mu` yields a list: no loop bound is exhausted. -/
theorem drainFuel_total : ∀ (fuel : Nat) (t : ThickPointsIt), TInv t → mu t < fuel →
    ∃ ps, t.drainFuel fuel = some ps := by
  intro fuel
  induction fuel with
  | zero => intro t _ hf; omega
  | succ n ih =>
    intro t h hf
    rw [ThickPointsIt.drainFuel]
    rcases nextFuel_total 2 t h with hd | ⟨p, t', hn, hinv, hmu⟩
    · have : t.next = some none := hd
      rw [this]; exact ⟨[], rfl⟩
    · have : t.next = some (some (p, t')) := hn
      rw [this]
      obtain ⟨ps, hps⟩ := ih t' hinv (by omega)
      exact ⟨p :: ps, by simp only [hps]⟩

/-! ### The initial state -/

open Line in
theorem dmin_perpendicular (m : Line) : dmin m.perpendicular = dmin m := by
  unfold dmin yMajor aabs dxOf dyOf Line.perpendicular
  simp only [Pt.add_x, Pt.add_y, Pt.sub_x, Pt.sub_y]
  omega

/-- `ParallelsIterator::new(line, t, None)` satisfies the invariant; its accumulator is not
negative; and if the perpendicular `error_step.major` is positive the line has two points. -/
theorem new_inv (l : Line) (t : Int) :
    ∃ iter, ParallelsIterator.new l t .none = some iter ∧ PInv iter ∧
      0 ≤ iter.thicknessAccumulator ∧
      (1 ≤ iter.perpendicularParameters.errorStep.major → 2 ≤ majorLength l) := by
  have hD := dmaj_paramLine_pos l
  have hd0 := Line.dmin_nonneg (paramLine l)
  have hdD := Line.dmin_le_dmaj (paramLine l)
  have hperp : BresenhamParameters.new (paramLine l).perpendicular =
      ⟨Line.dmaj (paramLine l), ⟨2 * Line.dmin (paramLine l), 2 * Line.dmaj (paramLine l)⟩,
        ⟨Line.pmaj (paramLine l).perpendicular, Line.pmin (paramLine l).perpendicular⟩⟩ := by
    rw [Line.params_new, dmaj_perpendicular, dmin_perpendicular]
  have hthr : 0 ≤ (BresenhamParameters.new (paramLine l).perpendicular).errorThreshold := by
    rw [hperp]; dsimp only; omega
  obtain ⟨iter0, hnew0, _, _, _, _, _, hperp0, hacc0, _⟩ := new_any l t
  have hnew := hnew0
  unfold ParallelsIterator.new at hnew
  simp only [LineSide.swap] at hnew
  rw [nextParallel_left_fresh _ l.start rfl hthr] at hnew
  simp only [Option.some.injEq] at hnew
  refine ⟨iter0, hnew0, ?_, ?_, ?_⟩
  · have hl : iter0.left.error = 0 + (BresenhamParameters.new (paramLine l).perpendicular).errorStep.major := by
      rw [← hnew]; rfl
    have hr : iter0.right.error = 0 := by rw [← hnew]; rfl
    rw [hperp] at hl
    dsimp only at hl
    constructor <;> rw [hperp0, hperp] <;> dsimp only <;> first | omega | (intro _; omega)
  · rw [hacc0]; omega
  · rw [hperp0, hperp]
    dsimp only
    intro h1
    by_cases hz : l.start = l.stop
    · have : paramLine l = horizontalLine := by simp [paramLine, hz]
      rw [this] at h1
      have : Line.dmin horizontalLine = 0 := by decide
      omega
    · have hp : paramLine l = l := by simp [paramLine, hz]
      rw [hp] at h1 hdD
      rw [Line.majorLength_eq]
      omega

/-- **The model of a stroked line is total**: for every line and every stroke width `thickPoints`
returns a list - no loop bound and not the step budget is ever exhausted. -/
theorem thickPoints_total (l : Line) (w : Nat) : ∃ ps, thickPoints l w = some ps := by
  obtain ⟨iter, hnew, hinv, hacc, hlen⟩ := new_inv l (satAsI32 w)
  unfold thickPoints ThickPointsIt.new
  rw [hnew]
  dsimp only
  by_cases hw : w = 0
  · exact ⟨[], by simp only [hw, ↓reduceIte]⟩
  · simp only [hw, ↓reduceIte]
    apply drainFuel_total
    · exact ⟨hinv, majorLength_pos l, hlen⟩
    · unfold mu pixelBudget pm
      dsimp only
      have hm := Nat.mul_le_mul_left (majorLength l)
        (show (iter.thicknessThreshold + 1 - iter.thicknessAccumulator).toNat
          ≤ iter.thicknessThreshold.toNat + 1 by omega)
      have := Nat.mul_succ (majorLength l) (iter.thicknessThreshold.toNat + 1)
      have : iter.thicknessThreshold.toNat + 2 = (iter.thicknessThreshold.toNat + 1).succ := rfl
      rw [this]
      omega

end Thick
end EG
