/-
  EG.Lemmas.TriangleCover — a filled triangle covers the mathematical triangle.

  One-line lemmas (`pixel_left`, `pixel_right`): for a line that runs strictly downwards and a
  lattice point `p` in its row range that lies on or to the right (left) of the ideal line, the
  Bresenham line has a pixel in `p`'s row at or left (right) of `p`. Proof: for a y-major line any
  pixel of the row is within half a pixel of the ideal line; for an x-major line take the first or
  the last pixel of the row and use the half-pixel bound of its neighbour in the adjacent row.
  With the hull characterisation of `points()` (EG.Lemmas.TriangleSpan) this gives
  `covered_of_between`: a point on or between two edge lines is covered.
-/
import EG.Lemmas.TriangleSpan
import EG.Lemmas.TriangleContains
import Mathlib.Tactic.Linarith
namespace EG
namespace Line

/-- `dx (p.y - y0) - dy (p.x - x0)`: positive when `p` is left of the downward line, negative when
it is right of it, zero on it. -/
def side (l : Line) (p : Pt) : Int :=
  dxOf l * (p.y - l.start.y) - dyOf l * (p.x - l.start.x)

theorem dmaj_cases (l : Line) (hdy : 0 < dyOf l) :
    (yMajor l ∧ dmaj l = dyOf l) ∨
    (¬ yMajor l ∧ 0 < dxOf l ∧ dmaj l = dxOf l ∧ dyOf l < dxOf l) ∨
    (¬ yMajor l ∧ dxOf l < 0 ∧ dmaj l = -dxOf l ∧ dyOf l < -dxOf l) := by
  unfold dmaj
  by_cases h : yMajor l
  · left; simp only [h, ↓reduceIte]; unfold aabs; exact ⟨trivial, by omega⟩
  · right
    simp only [h, ↓reduceIte]
    unfold yMajor aabs at h
    unfold aabs
    by_cases hx : 0 < dxOf l
    · left; refine ⟨not_false, hx, ?_, ?_⟩ <;> omega
    · right; refine ⟨not_false, ?_, ?_, ?_⟩ <;> omega

theorem stop_eq (l : Line) : l.stop.x = l.start.x + dxOf l ∧ l.stop.y = l.start.y + dyOf l := by
  unfold dxOf dyOf; omega

/-- The first pixel of a row: it is the start point or its predecessor is in the row above. -/
theorem first_in_row {l : Line} (h : 0 ≤ dyOf l) (y : Int) (h1 : l.start.y ≤ y) (h2 : y ≤ l.stop.y) :
    ∃ j : Nat, (j : Int) ≤ dmaj l ∧ (ptAt l j).y = y ∧
      (j = 0 ∨ ∃ i : Nat, j = i + 1 ∧ (ptAt l i).y = y - 1) := by
  have key : ∀ k : Nat, y ≤ (ptAt l k).y → ∃ j : Nat, j ≤ k ∧ (ptAt l j).y = y ∧
      (j = 0 ∨ ∃ i : Nat, j = i + 1 ∧ (ptAt l i).y = y - 1) := by
    intro k
    induction k with
    | zero =>
      intro hk
      rw [ptAt_zero] at hk
      exact ⟨0, Nat.le_refl _, by rw [ptAt_zero]; omega, Or.inl rfl⟩
    | succ k ih =>
      intro hk
      by_cases hc : y ≤ (ptAt l k).y
      · obtain ⟨j, hj, e⟩ := ih hc
        exact ⟨j, by omega, e⟩
      · have := ptAt_y_step h k
        exact ⟨k + 1, Nat.le_refl _, by omega, Or.inr ⟨k, rfl, by omega⟩⟩
  have hd := dmaj_nonneg l
  have hlast := ptAt_last l (dmaj l).toNat (by omega)
  obtain ⟨j, hj, e⟩ := key (dmaj l).toNat (by rw [hlast]; exact h2)
  exact ⟨j, by omega, e⟩

/-- The last pixel of a row: it is the end point or its successor is in the row below. -/
theorem last_in_row {l : Line} (h : 0 ≤ dyOf l) (y : Int) (h1 : l.start.y ≤ y) (h2 : y ≤ l.stop.y) :
    ∃ j : Nat, (j : Int) ≤ dmaj l ∧ (ptAt l j).y = y ∧
      ((j : Int) = dmaj l ∨ (ptAt l (j + 1)).y = y + 1) := by
  have hd := dmaj_nonneg l
  have hlast := ptAt_last l (dmaj l).toNat (by omega)
  have key : ∀ n : Nat, n ≤ (dmaj l).toNat → (ptAt l ((dmaj l).toNat - n)).y ≤ y →
      ∃ j : Nat, j ≤ (dmaj l).toNat ∧ (ptAt l j).y = y ∧
        (j = (dmaj l).toNat ∨ (ptAt l (j + 1)).y = y + 1) := by
    intro n
    induction n with
    | zero =>
      intro _ hk
      rw [Nat.sub_zero, hlast] at hk
      exact ⟨(dmaj l).toNat, Nat.le_refl _, by rw [hlast]; omega, Or.inl rfl⟩
    | succ n ih =>
      intro hn hk
      have e : (dmaj l).toNat - n = ((dmaj l).toNat - (n + 1)) + 1 := by omega
      by_cases hc : (ptAt l ((dmaj l).toNat - n)).y ≤ y
      · exact ih (by omega) hc
      · have hs := ptAt_y_step h ((dmaj l).toNat - (n + 1))
        rw [← e] at hs
        exact ⟨(dmaj l).toNat - (n + 1), by omega, by omega, Or.inr (by rw [← e]; omega)⟩
  have h0 : (ptAt l ((dmaj l).toNat - (dmaj l).toNat)).y ≤ y := by
    rw [Nat.sub_self, ptAt_zero]; exact h1
  obtain ⟨j, hj, e, hl⟩ := key (dmaj l).toNat (Nat.le_refl _) h0
  refine ⟨j, by omega, e, ?_⟩
  rcases hl with hl | hl
  · left; omega
  · right; exact hl

/-- A lattice point on or right of a strictly downward line has a pixel of the line at or left of
it in its row. -/
theorem pixel_left {l : Line} (hdy : 0 < dyOf l) (p : Pt) (h1 : l.start.y ≤ p.y)
    (h2 : p.y ≤ l.stop.y) (hs : side l p ≤ 0) : ∃ q ∈ points l, q.y = p.y ∧ q.x ≤ p.x := by
  unfold side at hs
  obtain ⟨sx, sy⟩ := stop_eq l
  rcases dmaj_cases l hdy with ⟨hm, hd⟩ | ⟨hm, hx, hd, hlt⟩ | ⟨hm, hx, hd, hlt⟩
  · -- y-major: any pixel of the row
    obtain ⟨q, hq, hy⟩ := exists_point_in_row (Int.le_of_lt hdy) p.y h1 h2
    refine ⟨q, hq, hy, ?_⟩
    obtain ⟨k, hk, rfl⟩ := mem_points.mp hq
    have hc := (ptAt_cross l k hk).1
    rw [hy, hd] at hc
    by_contra hcon
    have hge : p.x + 1 ≤ (ptAt l k).x := by omega
    nlinarith [mul_le_mul_of_nonneg_left (sub_le_sub_right hge l.start.x) (Int.le_of_lt hdy)]
  · -- x-major, to the right: the first pixel of the row
    obtain ⟨j, hj, hy, hfirst⟩ := first_in_row (Int.le_of_lt hdy) p.y h1 h2
    refine ⟨ptAt l j, mem_points.mpr ⟨j, hj, rfl⟩, hy, ?_⟩
    rcases hfirst with rfl | ⟨i, rfl, hi⟩
    · rw [ptAt_zero] at hy ⊢
      rw [← hy] at hs
      by_contra hcon
      nlinarith [mul_pos hdy (show 0 < l.start.x - p.x by omega)]
    · have hstep := ((ptAt_step l i).2 hm).1
      rw [sgn_of_nonneg (Int.le_of_lt hx)] at hstep
      have hc := (ptAt_cross l i (by omega)).1
      rw [hi, hd] at hc
      by_contra hcon
      have hge : p.x + 1 ≤ (ptAt l (i + 1)).x := by omega
      nlinarith [mul_le_mul_of_nonneg_left (sub_le_sub_right hge l.start.x) (Int.le_of_lt hdy)]
  · -- x-major, to the left: the last pixel of the row
    obtain ⟨j, hj, hy, hlast⟩ := last_in_row (Int.le_of_lt hdy) p.y h1 h2
    refine ⟨ptAt l j, mem_points.mpr ⟨j, hj, rfl⟩, hy, ?_⟩
    by_cases hjd : (j : Int) = dmaj l
    · rw [ptAt_last l j hjd] at hy ⊢
      rw [sx]
      rw [← hy, sy] at hs
      by_contra hcon
      nlinarith [mul_pos hdy (show 0 < l.start.x + dxOf l - p.x by omega)]
    · have hnext : (ptAt l (j + 1)).y = p.y + 1 := by
        rcases hlast with c | c
        · exact absurd c hjd
        · exact c
      have hstep := ((ptAt_step l j).2 hm).1
      have hsg : sgn (dxOf l) = -1 := by unfold sgn; simp; omega
      rw [hsg] at hstep
      have hc := (ptAt_cross l (j + 1) (by push_cast; omega)).1
      rw [hnext, hd] at hc
      by_contra hcon
      have hge : p.x + 1 ≤ (ptAt l j).x := by omega
      nlinarith [mul_le_mul_of_nonneg_left (sub_le_sub_right hge l.start.x) (Int.le_of_lt hdy)]

/-- A lattice point on or left of a strictly downward line has a pixel of the line at or right of
it in its row. -/
theorem pixel_right {l : Line} (hdy : 0 < dyOf l) (p : Pt) (h1 : l.start.y ≤ p.y)
    (h2 : p.y ≤ l.stop.y) (hs : 0 ≤ side l p) : ∃ q ∈ points l, q.y = p.y ∧ p.x ≤ q.x := by
  unfold side at hs
  obtain ⟨sx, sy⟩ := stop_eq l
  rcases dmaj_cases l hdy with ⟨hm, hd⟩ | ⟨hm, hx, hd, hlt⟩ | ⟨hm, hx, hd, hlt⟩
  · -- y-major: any pixel of the row
    obtain ⟨q, hq, hy⟩ := exists_point_in_row (Int.le_of_lt hdy) p.y h1 h2
    refine ⟨q, hq, hy, ?_⟩
    obtain ⟨k, hk, rfl⟩ := mem_points.mp hq
    have hc := (ptAt_cross l k hk).2
    rw [hy, hd] at hc
    by_contra hcon
    have hge : (ptAt l k).x + 1 ≤ p.x := by omega
    nlinarith [mul_le_mul_of_nonneg_left (sub_le_sub_right hge l.start.x) (Int.le_of_lt hdy)]
  · -- x-major, to the right: the last pixel of the row
    obtain ⟨j, hj, hy, hlast⟩ := last_in_row (Int.le_of_lt hdy) p.y h1 h2
    refine ⟨ptAt l j, mem_points.mpr ⟨j, hj, rfl⟩, hy, ?_⟩
    by_cases hjd : (j : Int) = dmaj l
    · rw [ptAt_last l j hjd] at hy ⊢
      rw [sx]
      rw [← hy, sy] at hs
      by_contra hcon
      nlinarith [mul_pos hdy (show 0 < p.x - (l.start.x + dxOf l) by omega)]
    · have hnext : (ptAt l (j + 1)).y = p.y + 1 := by
        rcases hlast with c | c
        · exact absurd c hjd
        · exact c
      have hstep := ((ptAt_step l j).2 hm).1
      rw [sgn_of_nonneg (Int.le_of_lt hx)] at hstep
      have hc := (ptAt_cross l (j + 1) (by push_cast; omega)).2
      rw [hnext, hd] at hc
      by_contra hcon
      have hge : (ptAt l j).x + 1 ≤ p.x := by omega
      nlinarith [mul_le_mul_of_nonneg_left (sub_le_sub_right hge l.start.x) (Int.le_of_lt hdy)]
  · -- x-major, to the left: the first pixel of the row
    obtain ⟨j, hj, hy, hfirst⟩ := first_in_row (Int.le_of_lt hdy) p.y h1 h2
    refine ⟨ptAt l j, mem_points.mpr ⟨j, hj, rfl⟩, hy, ?_⟩
    rcases hfirst with rfl | ⟨i, rfl, hi⟩
    · rw [ptAt_zero] at hy ⊢
      rw [← hy] at hs
      by_contra hcon
      nlinarith [mul_pos hdy (show 0 < p.x - l.start.x by omega)]
    · have hstep := ((ptAt_step l i).2 hm).1
      have hsg : sgn (dxOf l) = -1 := by unfold sgn; simp; omega
      rw [hsg] at hstep
      have hc := (ptAt_cross l i (by omega)).2
      rw [hi, hd] at hc
      by_contra hcon
      have hge : (ptAt l (i + 1)).x + 1 ≤ p.x := by omega
      nlinarith [mul_le_mul_of_nonneg_left (sub_le_sub_right hge l.start.x) (Int.le_of_lt hdy)]

end Line

namespace Triangle
open Line

/-- A point on or right of one strictly downward edge line in use and on or left of another one
(both passing through its row) is covered. -/
theorem covered_of_between (t : Triangle) (h : t.boundingBox.InRange) (p : Pt) {la lb : Line}
    (ha : la ∈ usedLines t) (hb : lb ∈ usedLines t) (da : 0 < dyOf la) (db : 0 < dyOf lb)
    (ra : la.start.y ≤ p.y ∧ p.y ≤ la.stop.y) (rb : lb.start.y ≤ p.y ∧ p.y ≤ lb.stop.y)
    (sa : side la p ≤ 0) (sb : 0 ≤ side lb p) : p ∈ t.points := by
  obtain ⟨q1, hq1, hy1, hx1⟩ := pixel_left da p ra.1 ra.2 sa
  obtain ⟨q2, hq2, hy2, hx2⟩ := pixel_right db p rb.1 rb.2 sb
  exact (mem_points_iff_between t h p).mpr
    ⟨q1, q2, mem_rowPix.mpr ⟨la, ha, hq1, hy1⟩, mem_rowPix.mpr ⟨lb, hb, hq2, hy2⟩, hx1, hx2⟩

/-- `p` lies in the closed mathematical triangle: the three edge functions agree in sign. -/
def ClosedIn (t : Triangle) (p : Pt) : Prop :=
  (0 ≤ edgeFn t.v1 t.v2 p ∧ 0 ≤ edgeFn t.v2 t.v3 p ∧ 0 ≤ edgeFn t.v3 t.v1 p) ∨
  (edgeFn t.v1 t.v2 p ≤ 0 ∧ edgeFn t.v2 t.v3 p ≤ 0 ∧ edgeFn t.v3 t.v1 p ≤ 0)

theorem edgeFn_swap (a b p : Pt) : edgeFn b a p = -edgeFn a b p := by
  unfold edgeFn; ring

theorem edgeFn_sum (a b c p : Pt) :
    edgeFn a b p + edgeFn b c p + edgeFn c a p = edgeFn a b c := by
  unfold edgeFn; ring

theorem closedIn_of_mem_orders {t t' : Triangle} (h : t' ∈ orders t) (p : Pt) :
    ClosedIn t' p ↔ ClosedIn t p := by
  obtain ⟨a, b, c⟩ := t
  have h1 := edgeFn_swap a b p
  have h2 := edgeFn_swap b c p
  have h3 := edgeFn_swap c a p
  rcases mem_orders.mp h with rfl | rfl | rfl | rfl | rfl | rfl <;>
    unfold ClosedIn <;> dsimp only <;> omega

theorem edgeFn_area (t : Triangle) : edgeFn t.v1 t.v2 t.v3 = t.areaDoubled := by
  unfold edgeFn areaDoubled; ring

/-- **A filled triangle covers the closed mathematical triangle** (non-zero area, bounding box
within the `i32` range): every lattice point whose three edge functions agree in sign — interior
points and points on the edges alike — is a point of `points()`. -/
theorem closed_triangle_covered (t : Triangle) (h : t.boundingBox.InRange) (ha : t.areaDoubled ≠ 0)
    (p : Pt) (hp : ClosedIn t p) : p ∈ t.points := by
  -- work with the sorted triple
  have hso := sortedYx_mem_orders t
  have hp' := (closedIn_of_mem_orders hso p).mpr hp
  unfold ClosedIn at hp'
  have ha' : t.sortedYx.areaDoubled ≠ 0 := fun c => ha ((areaDoubled_eq_zero_iff_of_mem_orders hso).mp c)
  obtain ⟨hy12, hy23⟩ := sortedYx_y_le t
  have hused : usedLines t = [⟨t.sortedYx.v1, t.sortedYx.v2⟩, ⟨t.sortedYx.v1, t.sortedYx.v3⟩,
      ⟨t.sortedYx.v2, t.sortedYx.v3⟩] := by
    rw [usedLines_of_nonzero ha]; rfl
  have m12 : (⟨t.sortedYx.v1, t.sortedYx.v2⟩ : Line) ∈ usedLines t := by rw [hused]; simp
  have m13 : (⟨t.sortedYx.v1, t.sortedYx.v3⟩ : Line) ∈ usedLines t := by rw [hused]; simp
  have m23 : (⟨t.sortedYx.v2, t.sortedYx.v3⟩ : Line) ∈ usedLines t := by rw [hused]; simp
  rw [← edgeFn_area] at ha'
  generalize t.sortedYx.v1 = p1 at *
  generalize t.sortedYx.v2 = p2 at *
  generalize t.sortedYx.v3 = p3 at *
  have hsum := edgeFn_sum p1 p2 p3 p
  have s12 : side ⟨p1, p2⟩ p = edgeFn p1 p2 p := rfl
  have s23 : side ⟨p2, p3⟩ p = edgeFn p2 p3 p := rfl
  have s13 : side ⟨p1, p3⟩ p = -edgeFn p3 p1 p := by
    rw [← edgeFn_swap]; rfl
  -- barycentric identities for the row
  have I1 : edgeFn p1 p2 p3 * (p.y - p1.y) =
      edgeFn p3 p1 p * (p2.y - p1.y) + edgeFn p1 p2 p * (p3.y - p1.y) := by
    unfold edgeFn; ring
  have I2 : edgeFn p1 p2 p3 * (p3.y - p.y) =
      edgeFn p2 p3 p * (p3.y - p1.y) + edgeFn p3 p1 p * (p3.y - p2.y) := by
    unfold edgeFn; ring
  have hy13 : p1.y < p3.y := by
    by_contra hc
    have e1 : p3.y = p1.y := by omega
    have e2 : p2.y = p1.y := by omega
    apply ha'
    unfold edgeFn; rw [e1, e2]; ring
  have d21 : 0 ≤ p2.y - p1.y := by omega
  have d31 : 0 ≤ p3.y - p1.y := by omega
  have d32 : 0 ≤ p3.y - p2.y := by omega
  rcases hp' with ⟨c12, c23, c31⟩ | ⟨c12, c23, c31⟩
  · -- positive orientation: right of `p1 p3`, left of `p1 p2` / `p2 p3`
    have hapos : 0 < edgeFn p1 p2 p3 := by omega
    have r1 : p1.y ≤ p.y := by
      by_contra hc
      have := mul_pos hapos (show 0 < p1.y - p.y by omega)
      nlinarith [mul_nonneg c31 d21, mul_nonneg c12 d31]
    have r3 : p.y ≤ p3.y := by
      by_contra hc
      have := mul_pos hapos (show 0 < p.y - p3.y by omega)
      nlinarith [mul_nonneg c23 d31, mul_nonneg c31 d32]
    by_cases hrow : p2.y ≤ p.y ∧ p2.y < p3.y
    · exact covered_of_between t h p m13 m23 (by unfold dyOf; dsimp only; omega)
        (by unfold dyOf; dsimp only; omega) ⟨r1, r3⟩ ⟨hrow.1, r3⟩ (by rw [s13]; omega)
        (by rw [s23]; exact c23)
    · exact covered_of_between t h p m13 m12 (by unfold dyOf; dsimp only; omega)
        (by unfold dyOf; dsimp only; omega) ⟨r1, r3⟩ ⟨r1, by dsimp only; omega⟩ (by rw [s13]; omega)
        (by rw [s12]; exact c12)
  · -- negative orientation: left of `p1 p3`, right of `p1 p2` / `p2 p3`
    have haneg : edgeFn p1 p2 p3 < 0 := by omega
    have r1 : p1.y ≤ p.y := by
      by_contra hc
      have := mul_pos (show 0 < -edgeFn p1 p2 p3 by omega) (show 0 < p1.y - p.y by omega)
      nlinarith [mul_nonneg (show 0 ≤ -edgeFn p3 p1 p by omega) d21,
        mul_nonneg (show 0 ≤ -edgeFn p1 p2 p by omega) d31]
    have r3 : p.y ≤ p3.y := by
      by_contra hc
      have := mul_pos (show 0 < -edgeFn p1 p2 p3 by omega) (show 0 < p.y - p3.y by omega)
      nlinarith [mul_nonneg (show 0 ≤ -edgeFn p2 p3 p by omega) d31,
        mul_nonneg (show 0 ≤ -edgeFn p3 p1 p by omega) d32]
    by_cases hrow : p2.y ≤ p.y ∧ p2.y < p3.y
    · exact covered_of_between t h p m23 m13 (by unfold dyOf; dsimp only; omega)
        (by unfold dyOf; dsimp only; omega) ⟨hrow.1, r3⟩ ⟨r1, r3⟩ (by rw [s23]; exact c23)
        (by rw [s13]; omega)
    · exact covered_of_between t h p m12 m13 (by unfold dyOf; dsimp only; omega)
        (by unfold dyOf; dsimp only; omega) ⟨r1, by dsimp only; omega⟩ ⟨r1, r3⟩
        (by rw [s12]; exact c12) (by rw [s13]; omega)

end Triangle
end EG
