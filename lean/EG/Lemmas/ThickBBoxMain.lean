/-
  EG.Lemmas.ThickBBoxMain — **every pixel of a stroked line (any width) lies inside
  `styled_bounding_box`** (`Line::extents(width, StrokeOffset::None)`).
  * the fresh `ParallelsIterator` satisfies the run invariant `GInv`;
  * `Line::extents` returns the last left / right parallels of the run (`extentsLoop_run`);
  * every point `ThickPoints` yields belongs to a parallel of the run (`toListFuel_acc`);
  * by the order theorem (EG.Lemmas.ThickBBoxRun) the start and the shortened end of every parallel
    lie in the box spanned by the four corners, and by EG.Lemmas.ThickBBoxBres every point of the
    parallel lies between its start and its shortened end.
-/
import EG.Lemmas.ThickBBoxRun
import EG.Lemmas.Rect
set_option linter.unusedSimpArgs false
namespace EG
namespace Thick
open ParallelsIterator Line

/-! ### The stroke constants of a line -/

/-- The constants of the stroke of `l` (taken from `paramLine l`, as the code does). -/
def ctxOf (l : Line) : StrokeCtx :=
  ⟨dmaj (paramLine l), dmin (paramLine l), pmaj (paramLine l), pmin (paramLine l),
    pmaj (paramLine l).perpendicular, pmin (paramLine l).perpendicular⟩

theorem ctxOf_pp (l : Line) : (ctxOf l).pp = BresenhamParameters.new (paramLine l) := by
  rw [params_new]; rfl

theorem ctxOf_perp (l : Line) : (ctxOf l).perp = BresenhamParameters.new (paramLine l).perpendicular := by
  rw [params_new, dmaj_perpendicular, dmin_perpendicular_bb]; rfl

theorem ctxOf_valid (l : Line) : (ctxOf l).Valid := by
  refine ⟨dmaj_paramLine_pos l, dmin_nonneg _, dmin_le_dmaj _, axisPair_params _, axisPair_params _, ?_⟩
  intro hd
  rw [ctxOf_perp]
  exact mirror_red (paramLine l) ((dmin_pos_iff _).mp hd).1

/-- The fresh iterator of `ParallelsIterator::new(line, t, StrokeOffset::None)` satisfies the run
invariant with the centre line standing in for both sides. -/
theorem new_ginv (l : Line) (t : Int) :
    ∃ it, ParallelsIterator.new l t .none = some it ∧ it.nextSide = .right ∧
      GInv (ctxOf l) l.start it (l.start, .normal) (l.start, .normal) := by
  have hthr : 0 ≤ (BresenhamParameters.new (paramLine l).perpendicular).errorThreshold := by
    rw [params_new]; exact dmaj_nonneg _
  have hv := ctxOf_valid l
  unfold ParallelsIterator.new
  simp only [LineSide.swap]
  rw [nextParallel_left_fresh _ l.start rfl hthr]
  refine ⟨_, rfl, rfl, ?_⟩
  refine ⟨(ctxOf_perp l).symm, (ctxOf_pp l).symm, rfl, ?_, ?_, ?_, ?_, ?_, ?_, ?_, ?_, ?_, ?_⟩
  · left
    refine ⟨rfl, ?_, ?_, ?_⟩
    · show l.start + (BresenhamParameters.new (paramLine l).perpendicular).positionStep.major = _
      rw [← ctxOf_perp]; rfl
    · show 0 + (BresenhamParameters.new (paramLine l).perpendicular).errorStep.major ≤ _
      rw [← ctxOf_perp]
      show 0 + 2 * (ctxOf l).d ≤ 3 * (ctxOf l).D
      have := hv.hdD; have := hv.hD; omega
    · intro hz
      show 0 + (BresenhamParameters.new (paramLine l).perpendicular).errorStep.major = 0
      rw [← ctxOf_perp]
      show 0 + 2 * (ctxOf l).d = 0
      omega
  · show -(ctxOf l).D < 0; have := hv.hD; omega
  · show (0 : Int) ≤ (ctxOf l).D; have := hv.hD; omega
  · left; exact ⟨rfl, rfl, rfl⟩
  · show -(ctxOf l).D < 0; have := hv.hD; omega
  · show (0 : Int) ≤ (ctxOf l).D; have := hv.hD; omega
  · exact cone_zero _ _ _
  · exact cone_of_zero _ _ (by unfold adj; pt_arith)
  · exact cone_zero _ _ _
  · exact cone_of_zero _ _ (by unfold adj; pt_arith)

/-! ### `Line::extents` returns the last parallels of the run -/

theorem runPar_nil_of_done {it it' : ParallelsIterator} (h : it.next = some (none, it')) (F : Nat) :
    runPar F it = [] := by
  cases F with
  | zero => rfl
  | succ F => unfold runPar; rw [h]

theorem extentsLoop_run (c : StrokeCtx) (hv : c.Valid) (ctr : Pt) :
    ∀ (fuel : Nat) (it : ParallelsIterator) (L R Lf Rf : Last), GInv c ctr it L R →
    it.nextSide = .right → extentsLoop fuel it L R = some (Lf, Rf) →
    (Lf, Rf) = lasts (runPar (2 * fuel) it) (L, R) ∧
      ∀ F, ∀ x ∈ runPar F it, x ∈ runPar (2 * fuel) it
  | 0, _, _, _, _, _, _, _, h => by simp [extentsLoop] at h
  | fuel + 1, it, L, R, Lf, Rf, hg, hs, h => by
    have h2 : 2 * (fuel + 1) = 2 * fuel + 1 + 1 := by omega
    rw [h2]
    unfold extentsLoop at h
    cases hn : it.next with
    | none => rw [hn] at h; cases h
    | some r =>
      obtain ⟨o, it1⟩ := r
      rw [hn] at h
      cases o with
      | none =>
        simp only [Option.some.injEq] at h
        rw [runPar_nil_of_done hn]
        refine ⟨by rw [← h]; rfl, ?_⟩
        intro F x hx
        rw [runPar_nil_of_done hn] at hx
        cases hx
      | some r1 =>
        obtain ⟨b1, ty1⟩ := r1
        simp only at h
        obtain ⟨_, hside1, hcase⟩ := next_spec c hv ctr it it1 L R hg b1 ty1 hn
        rcases hcase with ⟨hc, _⟩ | ⟨_, hg1, _, _⟩
        · rw [hs] at hc; cases hc
        · rw [hs] at hside1
          have hrun1 : ∀ F, runPar (F + 1) it = (LineSide.right, b1, ty1) :: runPar F it1 := by
            intro F
            show (match it.next with
              | some (some r, it') => (it.nextSide, r.1, r.2) :: runPar F it'
              | _ => []) = _
            rw [hn, hs]
          cases hn1 : it1.next with
          | none => rw [hn1] at h; cases h
          | some r' =>
            obtain ⟨o', it2⟩ := r'
            rw [hn1] at h
            cases o' with
            | none =>
              simp only [Option.some.injEq] at h
              rw [hrun1, runPar_nil_of_done hn1]
              refine ⟨by rw [← h]; rfl, ?_⟩
              intro F x hx
              cases F with
              | zero => cases hx
              | succ F =>
                rw [hrun1, runPar_nil_of_done hn1] at hx
                exact hx
            | some r2 =>
              obtain ⟨b2, ty2⟩ := r2
              simp only at h
              obtain ⟨_, hside2, hcase2⟩ := next_spec c hv ctr it1 it2 L (b1.point, ty1) hg1 b2 ty2 hn1
              rcases hcase2 with ⟨_, hg2, _, _⟩ | ⟨hc, _⟩
              · rw [hside1] at hside2
                have hrun2 : ∀ F, runPar (F + 1) it1 = (LineSide.left, b2, ty2) :: runPar F it2 := by
                  intro F
                  show (match it1.next with
                    | some (some r, it') => (it1.nextSide, r.1, r.2) :: runPar F it'
                    | _ => []) = _
                  rw [hn1, hside1]
                  rfl
                obtain ⟨i1, i2⟩ := extentsLoop_run c hv ctr fuel it2 (b2.point, ty2) (b1.point, ty1) Lf Rf
                  hg2 hside2 h
                rw [hrun1, hrun2]
                refine ⟨by rw [i1]; rfl, ?_⟩
                intro F x hx
                cases F with
                | zero => cases hx
                | succ F =>
                  rw [hrun1] at hx
                  rcases List.mem_cons.mp hx with rfl | hx
                  · exact List.mem_cons_self
                  · cases F with
                    | zero => cases hx
                    | succ F =>
                      rw [hrun2] at hx
                      rcases List.mem_cons.mp hx with rfl | hx
                      · exact List.mem_cons_of_mem _ List.mem_cons_self
                      · exact List.mem_cons_of_mem _ (List.mem_cons_of_mem _ (i2 F x hx))
              · rw [hside1] at hc; cases hc

/-! ### `ThickPoints` walks the parallels of the run -/

/-- Number of points of a parallel: `parallel_length`, one less for an extra parallel. -/
def lenOf (len : Nat) : ParallelLineType → Nat
  | .normal => len
  | .extra => len - 1

/-- The point `q` is accounted for: a point still to come of the current parallel, or a point of a
parallel the iterator still yields. -/
def Acc (c : StrokeCtx) (tp : ThickPointsIt) (q : Pt) : Prop :=
  q ∈ parPts tp.parallelPointsRemaining tp.parallel c.pp ∨
  ∃ F, ∃ x ∈ runPar F tp.iter, q ∈ parPts (lenOf tp.parallelLength x.2.2) x.2.1 c.pp

theorem nextFuel_acc (c : StrokeCtx) (hv : c.Valid) (ctr : Pt) :
    ∀ (lf : Nat) (tp tp' : ThickPointsIt) (q : Pt), (∃ L R, GInv c ctr tp.iter L R) →
    tp.nextFuel lf = some (some (q, tp')) →
    (∃ L R, GInv c ctr tp'.iter L R) ∧ tp'.parallelLength = tp.parallelLength ∧ Acc c tp q ∧
      ∀ q', Acc c tp' q' → Acc c tp q'
  | 0, _, _, _, _, h => by simp [ThickPointsIt.nextFuel] at h
  | lf + 1, tp, tp', q, ⟨L, R, hg⟩, h => by
    unfold ThickPointsIt.nextFuel at h
    by_cases hr : tp.parallelPointsRemaining > 0
    · simp only [hr, ↓reduceIte, Option.some.injEq, Prod.mk.injEq] at h
      obtain ⟨hq, htp⟩ := h
      obtain ⟨n, hn⟩ : ∃ n, tp.parallelPointsRemaining = n + 1 := ⟨tp.parallelPointsRemaining - 1, by omega⟩
      have hpts : parPts tp.parallelPointsRemaining tp.parallel c.pp =
          q :: parPts n (tp.parallel.next c.pp).2 c.pp := by
        rw [hn]
        show (tp.parallel.next c.pp).1 :: _ = _
        rw [← hg.hpp, hq]
      subst htp
      refine ⟨⟨L, R, hg⟩, rfl, Or.inl (by rw [hpts]; exact List.mem_cons_self), ?_⟩
      intro q' hq'
      rcases hq' with hq' | hq'
      · left
        rw [hpts]
        apply List.mem_cons_of_mem
        have : (tp.parallelPointsRemaining - 1) = n := by omega
        simp only [this] at hq'
        rw [hg.hpp] at hq'
        exact hq'
      · right; exact hq'
    · simp only [hr, ↓reduceIte] at h
      cases hn : tp.iter.next with
      | none => rw [hn] at h; cases h
      | some r =>
        obtain ⟨o, iter'⟩ := r
        rw [hn] at h
        cases o with
        | none => simp only [Option.some.injEq] at h; cases h
        | some r1 =>
          obtain ⟨par, ty⟩ := r1
          simp only at h
          obtain ⟨_, _, hcase⟩ := next_spec c hv ctr tp.iter iter' L R hg par ty hn
          have hg' : ∃ L' R', GInv c ctr iter' L' R' := by
            rcases hcase with ⟨_, hg', _, _⟩ | ⟨_, hg', _, _⟩
            · exact ⟨_, _, hg'⟩
            · exact ⟨_, _, hg'⟩
          have hlen : (if ty = ParallelLineType.extra then tp.parallelLength - 1 else tp.parallelLength) =
              lenOf tp.parallelLength ty := by
            cases ty <;> simp [lenOf]
          rw [hlen] at h
          obtain ⟨i1, i2, i3, i4⟩ := nextFuel_acc c hv ctr lf
            { tp with parallel := par, parallelPointsRemaining := lenOf tp.parallelLength ty, iter := iter' }
            tp' q hg' h
          -- whatever is accounted for in the new state is accounted for in the old one
          have hmono : ∀ q', Acc c
              { tp with parallel := par, parallelPointsRemaining := lenOf tp.parallelLength ty, iter := iter' }
              q' → Acc c tp q' := by
            intro q' hq'
            rcases hq' with hq' | ⟨F, x, hx, hq'⟩
            · right
              refine ⟨1, (tp.iter.nextSide, par, ty), ?_, hq'⟩
              show (tp.iter.nextSide, par, ty) ∈ (match tp.iter.next with
                | some (some r, it') => (tp.iter.nextSide, r.1, r.2) :: runPar 0 it'
                | _ => [])
              rw [hn]
              exact List.mem_cons_self
            · right
              refine ⟨F + 1, x, ?_, hq'⟩
              show x ∈ (match tp.iter.next with
                | some (some r, it') => (tp.iter.nextSide, r.1, r.2) :: runPar F it'
                | _ => [])
              rw [hn]
              exact List.mem_cons_of_mem _ hx
          exact ⟨i1, i2, hmono q i3, fun q' hq' => hmono q' (i4 q' hq')⟩

theorem toListFuel_acc (c : StrokeCtx) (hv : c.Valid) (ctr : Pt) :
    ∀ (fuel : Nat) (tp : ThickPointsIt) (ps : List Pt), (∃ L R, GInv c ctr tp.iter L R) →
    tp.toListFuel fuel = some ps → ∀ q ∈ ps, Acc c tp q
  | 0, _, ps, _, h => by
    simp only [ThickPointsIt.toListFuel, Option.some.injEq] at h
    subst h; intro q hq; cases hq
  | fuel + 1, tp, ps, hg, h => by
    unfold ThickPointsIt.toListFuel at h
    cases hn : tp.next with
    | none => rw [hn] at h; cases h
    | some r =>
      rw [hn] at h
      cases r with
      | none =>
        simp only [Option.some.injEq] at h
        subst h; intro q hq; cases hq
      | some r1 =>
        obtain ⟨p, tp'⟩ := r1
        simp only at h
        obtain ⟨i1, _, i3, i4⟩ := nextFuel_acc c hv ctr loopFuel tp tp' p hg hn
        cases hr : ThickPointsIt.toListFuel fuel tp' with
        | none => rw [hr] at h; cases h
        | some rest =>
          rw [hr] at h
          simp only [Option.some.injEq] at h
          subst h
          intro q hq
          rcases List.mem_cons.mp hq with rfl | hq
          · exact i3
          · exact i4 q (toListFuel_acc c hv ctr fuel tp' rest i1 hr q hq)

end Thick
end EG
