/-
  EG.Lemmas.PMapTranslate — moving write lists, calls and pixel maps by a vector
  (EG.Model.CallTranslate): `apply`, `clipWrites`, and runs of solid-fill call lists commute with
  translation. Used by C07.
-/
import EG.Model.CallTranslate
import EG.Lemmas.PMap
import EG.Lemmas.RectTranslate
namespace EG
open EG.Tgt

theorem PMap.shift_at (m : PMap) (d p : Pt) : PMap.shift d m p = m (p - d) := rfl

theorem Writes.translate_cons (d : Pt) (w : Pt × Color) (ws : Writes) :
    Writes.translate d (w :: ws) = (w.1 + d, w.2) :: Writes.translate d ws := rfl

theorem PMap.set_shift (m : PMap) (d : Pt) (w : Pt × Color) :
    Tgt.PMap.set (PMap.shift d m) (w.1 + d, w.2) = PMap.shift d (Tgt.PMap.set m w) := by
  apply funext
  intro p
  rw [PMap.set_at, PMap.shift_at, PMap.shift_at, PMap.set_at]
  by_cases h : p = w.1 + d
  · rw [if_pos h, if_pos ((Pt.eq_add_iff _ _ _).mp h)]
  · rw [if_neg h, if_neg (fun e => h ((Pt.eq_add_iff _ _ _).mpr e))]

/-- Applying moved writes to a moved map gives the moved result. -/
theorem PMap.apply_translate (m : PMap) (ws : Writes) (d : Pt) :
    (PMap.shift d m).apply (Writes.translate d ws) = PMap.shift d (m.apply ws) := by
  induction ws generalizing m with
  | nil => rfl
  | cons w ws ih => rw [Writes.translate_cons, PMap.apply_cons, PMap.apply_cons, PMap.set_shift, ih]

theorem PMap.shift_empty (d : Pt) : PMap.shift d PMap.empty = PMap.empty := rfl

/-- Clipping moved writes to the moved box = moving the clipped writes. -/
theorem clipWrites_translate (B : Rect) (ws : Writes) (d : Pt) :
    clipWrites (B.translate d) (Writes.translate d ws) = Writes.translate d (clipWrites B ws) := by
  unfold clipWrites Writes.translate
  rw [List.filter_map]
  congr 1
  apply List.filter_congr
  intro w _
  simp only [Function.comp, Rect.contains_translate]

/-- `draw_iter` of a moved write list on a target with the moved box: the moved map. -/
theorem apply_clip_translate (B : Rect) (ws : Writes) (d : Pt) :
    PMap.empty.apply (clipWrites (B.translate d) (Writes.translate d ws)) =
      PMap.shift d (PMap.empty.apply (clipWrites B ws)) := by
  rw [clipWrites_translate, ← PMap.apply_translate, PMap.shift_empty]

theorem lastSolid_translate (l : List (Rect × Color)) (d p : Pt) :
    lastSolid (l.map (fun ac => (ac.1.translate d, ac.2))) p = lastSolid l (p - d) := by
  induction l with
  | nil => rfl
  | cons ac l ih =>
    rw [List.map_cons, lastSolid_cons, lastSolid_cons, ih]
    simp only [Rect.contains_translate']

theorem solidCalls_translate (l : List (Rect × Color)) (d : Pt) :
    (solidCalls l).map (Call.translate d) = solidCalls (l.map (fun ac => (ac.1.translate d, ac.2))) := by
  simp [solidCalls, Call.translate, List.map_map, Function.comp_def]

/-- A list of solid fills moved by `d`, on a target with the moved box, leaves the moved map. -/
theorem runNative_solidCalls_translate (B : Rect) (l : List (Rect × Color)) (d : Pt)
    (h : ∀ ac ∈ l, ac.1.InRange ∧ (ac.1.translate d).InRange) :
    runNative (B.translate d) ((solidCalls l).map (Call.translate d)) =
      PMap.shift d (runNative B (solidCalls l)) := by
  apply funext
  intro p
  rw [solidCalls_translate, PMap.shift_at, runNative_solidCalls _ _ (fun ac hac => (h ac hac).1),
    runNative_solidCalls, lastSolid_translate, Rect.contains_translate']
  intro ac hac
  obtain ⟨ac', hac', rfl⟩ := List.mem_map.mp hac
  exact (h ac' hac').2

end EG
