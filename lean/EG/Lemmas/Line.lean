/-
  EG.Lemmas.Line — the `line::Points` state machine equals a closed form, and the arithmetic of
  that closed form (the Bresenham error invariant).

  After `k` major steps the returned point has made `mAt k` minor steps, where
    `mPre 0 = 0`, `mAt k = bump k (mPre k)`, `mPre (k+1) = mAt k`,
    `bump k m = if 2 (dmin k - dmaj m) > dmaj then m + 1 else m`
  (the test `error > error_threshold` of `Bresenham::next`, with
  `error = 2 (dmin k - dmaj m)`, `error_threshold = dmaj`).
  Invariant (for `0 < dmaj`): `-dmaj < 2 (dmin k - dmaj (mAt k)) ≤ dmaj`.
-/
import EG.Model.Line
namespace EG
namespace Line

/-! ## The minor-step counter -/

def bump (dmaj dmin : Int) (k : Nat) (m : Int) : Int :=
  if 2 * (dmin * (k : Int) - dmaj * m) > dmaj then m + 1 else m

def mPre (dmaj dmin : Int) : Nat → Int
  | 0 => 0
  | k + 1 => bump dmaj dmin k (mPre dmaj dmin k)

def mAt (dmaj dmin : Int) (k : Nat) : Int := bump dmaj dmin k (mPre dmaj dmin k)

theorem mPre_succ (dmaj dmin : Int) (k : Nat) : mPre dmaj dmin (k + 1) = mAt dmaj dmin k := rfl

theorem mAt_zero {dmaj dmin : Int} (h : 0 ≤ dmaj) : mAt dmaj dmin 0 = 0 := by
  simp only [mAt, mPre, bump]
  have : ¬ (2 * (dmin * ((0 : Nat) : Int) - dmaj * 0) > dmaj) := by
    simp only [Int.natCast_zero, Int.mul_zero, Int.sub_zero]; omega
  simp only [this, ↓reduceIte]

theorem bump_cases (dmaj dmin : Int) (k : Nat) (m : Int) :
    (2 * (dmin * (k : Int) - dmaj * m) > dmaj ∧ bump dmaj dmin k m = m + 1) ∨
    (2 * (dmin * (k : Int) - dmaj * m) ≤ dmaj ∧ bump dmaj dmin k m = m) := by
  unfold bump
  by_cases h : 2 * (dmin * (k : Int) - dmaj * m) > dmaj
  · left; exact ⟨h, by simp only [h, ↓reduceIte]⟩
  · right; exact ⟨by omega, by simp only [h, ↓reduceIte]⟩

/-- The error invariant, before (`mPre`) and after (`mAt`) the correction of call `k`. -/
theorem err_bounds {dmaj dmin : Int} (h0 : 0 ≤ dmin) (h1 : dmin ≤ dmaj) (hpos : 0 < dmaj) (k : Nat) :
    (-dmaj < 2 * (dmin * (k : Int) - dmaj * mPre dmaj dmin k) ∧
      2 * (dmin * (k : Int) - dmaj * mPre dmaj dmin k) ≤ dmaj + 2 * dmin) ∧
    (-dmaj < 2 * (dmin * (k : Int) - dmaj * mAt dmaj dmin k) ∧
      2 * (dmin * (k : Int) - dmaj * mAt dmaj dmin k) ≤ dmaj) := by
  induction k with
  | zero =>
    rw [mAt_zero (by omega)]
    simp only [mPre, Int.natCast_zero, Int.mul_zero, Int.sub_zero]
    refine ⟨⟨?_, ?_⟩, ?_, ?_⟩ <;> omega
  | succ k ih =>
    have hpre : -dmaj < 2 * (dmin * ((k + 1 : Nat) : Int) - dmaj * mPre dmaj dmin (k + 1)) ∧
        2 * (dmin * ((k + 1 : Nat) : Int) - dmaj * mPre dmaj dmin (k + 1)) ≤ dmaj + 2 * dmin := by
      rw [mPre_succ]
      have e : dmin * ((k + 1 : Nat) : Int) = dmin * (k : Int) + dmin := by
        rw [Int.natCast_succ, Int.mul_add, Int.mul_one]
      rw [e]
      obtain ⟨_, h3, h4⟩ := ih
      refine ⟨?_, ?_⟩ <;> omega
    refine ⟨hpre, ?_⟩
    obtain ⟨h3, h4⟩ := hpre
    unfold mAt
    rcases bump_cases dmaj dmin (k + 1) (mPre dmaj dmin (k + 1)) with ⟨hc, hb⟩ | ⟨hc, hb⟩
    · rw [hb, Int.mul_add, Int.mul_one]
      refine ⟨?_, ?_⟩ <;> omega
    · rw [hb]
      refine ⟨?_, ?_⟩ <;> omega

theorem mAt_sub_mPre (dmaj dmin : Int) (k : Nat) :
    mAt dmaj dmin k = mPre dmaj dmin k ∨ mAt dmaj dmin k = mPre dmaj dmin k + 1 := by
  unfold mAt
  rcases bump_cases dmaj dmin k (mPre dmaj dmin k) with ⟨_, hb⟩ | ⟨_, hb⟩ <;> rw [hb] <;> simp

/-- One major step changes the minor count by 0 or 1. -/
theorem mAt_succ (dmaj dmin : Int) (k : Nat) :
    mAt dmaj dmin (k + 1) = mAt dmaj dmin k ∨ mAt dmaj dmin (k + 1) = mAt dmaj dmin k + 1 := by
  have := mAt_sub_mPre dmaj dmin (k + 1)
  rwa [mPre_succ] at this

theorem mAt_nonneg {dmaj dmin : Int} (h : 0 ≤ dmaj) (k : Nat) : 0 ≤ mAt dmaj dmin k := by
  induction k with
  | zero => rw [mAt_zero h]; omega
  | succ k ih => rcases mAt_succ dmaj dmin k with e | e <;> omega

/-- The minor count never exceeds `dmin` on the line (`k ≤ dmaj`). -/
theorem mAt_le {dmaj dmin : Int} (h0 : 0 ≤ dmin) (h1 : dmin ≤ dmaj) (hpos : 0 < dmaj) (k : Nat)
    (hk : (k : Int) ≤ dmaj) : mAt dmaj dmin k ≤ dmin := by
  obtain ⟨_, h3, _⟩ := err_bounds h0 h1 hpos k
  by_cases hm : mAt dmaj dmin k ≤ dmin
  · exact hm
  · exfalso
    have a1 : dmaj * (dmin + 1) ≤ dmaj * mAt dmaj dmin k :=
      Int.mul_le_mul_of_nonneg_left (by omega) (by omega)
    have a2 : dmin * (k : Int) ≤ dmin * dmaj := Int.mul_le_mul_of_nonneg_left hk h0
    rw [Int.mul_add, Int.mul_one] at a1
    rw [Int.mul_comm dmin dmaj] at a2
    omega

/-- After `dmaj` major steps exactly `dmin` minor steps have been made. -/
theorem mAt_end {dmaj dmin : Int} (h0 : 0 ≤ dmin) (h1 : dmin ≤ dmaj) (hpos : 0 < dmaj) (k : Nat)
    (hk : (k : Int) = dmaj) : mAt dmaj dmin k = dmin := by
  obtain ⟨_, h3, h4⟩ := err_bounds h0 h1 hpos k
  rw [hk, Int.mul_comm dmin dmaj] at h3 h4
  by_cases hm : mAt dmaj dmin k ≤ dmin
  · by_cases hm2 : dmin ≤ mAt dmaj dmin k
    · omega
    · exfalso
      have a1 : dmaj * (mAt dmaj dmin k + 1) ≤ dmaj * dmin :=
        Int.mul_le_mul_of_nonneg_left (by omega) (by omega)
      rw [Int.mul_add, Int.mul_one] at a1
      omega
  · exfalso
    have a1 : dmaj * (dmin + 1) ≤ dmaj * mAt dmaj dmin k :=
      Int.mul_le_mul_of_nonneg_left (by omega) (by omega)
    rw [Int.mul_add, Int.mul_one] at a1
    omega

end Line
end EG
