/-
  EG.Lemmas.JoinsExtents — `Line::extents` commutes with translation: the `ParallelsIterator`
  keeps two Bresenham walkers whose positions are the only absolute coordinates; everything else
  depends on the line's delta.
-/
import EG.Lemmas.JoinsTranslate
set_option linter.unusedSimpArgs false
namespace EG
namespace Joins
open Thick (LineSide StrokeOffset ParallelsIterator ParallelLineType extentsLoop)

theorem pt_add_right_comm (a b d : Pt) : a + d + b = a + b + d := by
  rw [Pt.ext_iff']; simp only [Pt.add_x, Pt.add_y]; omega
theorem pt_add_sub_right_comm (a b d : Pt) : a + d - b = a - b + d := by
  rw [Pt.ext_iff']; simp only [Pt.add_x, Pt.add_y, Pt.sub_x, Pt.sub_y]; omega
theorem pt_add_zero (a : Pt) : a + Pt.zero = a := by
  rw [Pt.ext_iff']; simp only [Pt.add_x, Pt.add_y, Pt.zero]; omega
theorem pt_sub_zero (a : Pt) : a - Pt.zero = a := by
  rw [Pt.ext_iff']; simp only [Pt.sub_x, Pt.sub_y, Pt.zero]; omega

/-- A Bresenham walker moved by `d`. -/
def shiftB (b : Bresenham) (d : Pt) : Bresenham := ⟨b.point + d, b.error⟩

/-- A `BresenhamPoint` moved by `d`. -/
def shiftBP : BresenhamPoint → Pt → BresenhamPoint
  | .normal p, d => .normal (p + d)
  | .extra p, d => .extra (p + d)

/-- A `ParallelsIterator` moved by `d`. -/
def shiftIt (it : ParallelsIterator) (d : Pt) : ParallelsIterator :=
  { it with left := shiftB it.left d, right := shiftB it.right d }

/-- Closes equalities of tuples / walkers / points that differ only by linear point arithmetic. -/
macro "pt_arith" : tactic => `(tactic| (
  simp only [Prod.mk.injEq, BresenhamPoint.extra.injEq, BresenhamPoint.normal.injEq,
    Bresenham.mk.injEq, Line.mk.injEq, Option.some.injEq, Pt.ext_iff', Pt.add_x, Pt.add_y, Pt.sub_x,
    Pt.sub_y, Pt.zero, and_true, true_and]
  repeat' apply And.intro
  all_goals omega))

theorem nextAll_shift (b : Bresenham) (p : BresenhamParameters) (d : Pt) :
    (shiftB b d).nextAll p = (shiftBP (b.nextAll p).1 d, shiftB (b.nextAll p).2 d) := by
  unfold Bresenham.nextAll shiftB
  by_cases h : b.error > p.errorThreshold
  · cases hm : p.mirrorExtraPoints
    · simp only [h, ↓reduceIte, shiftBP, Bool.false_eq_true]; pt_arith
    · simp only [h, ↓reduceIte, shiftBP]; pt_arith
  · simp only [h, ↓reduceIte, shiftBP]; pt_arith

theorem previousAll_shift (b : Bresenham) (p : BresenhamParameters) (d : Pt) :
    (shiftB b d).previousAll p = (shiftBP (b.previousAll p).1 d, shiftB (b.previousAll p).2 d) := by
  unfold Bresenham.previousAll shiftB
  by_cases h : b.error ≤ -p.errorThreshold
  · cases hm : p.mirrorExtraPoints
    · simp only [h, ↓reduceIte, shiftBP, Bool.not_false]; pt_arith
    · simp only [h, ↓reduceIte, shiftBP, Bool.not_true, Bool.false_eq_true]; pt_arith
  · simp only [h, ↓reduceIte, shiftBP]; pt_arith

/-- The result of `next_parallel`, moved by `d`. -/
def shiftNP (r : (BresenhamPoint × Int) × ParallelsIterator) (d : Pt) :
    (BresenhamPoint × Int) × ParallelsIterator := ((shiftBP r.1.1 d, r.1.2), shiftIt r.2 d)

theorem sideError_shift (it : ParallelsIterator) (d : Pt) (side : LineSide) :
    (shiftIt it d).sideError side = it.sideError side := by cases side <;> rfl

theorem setSideError_shift (it : ParallelsIterator) (d : Pt) (side : LineSide) (e : Int) :
    (shiftIt it d).setSideError side e = shiftIt (it.setSideError side e) d := by cases side <;> rfl

theorem nextParallelFuel_shift (fuel : Nat) (it : ParallelsIterator) (side : LineSide) (d : Pt) :
    ParallelsIterator.nextParallelFuel fuel (shiftIt it d) side =
      (ParallelsIterator.nextParallelFuel fuel it side).map (shiftNP · d) := by
  induction fuel generalizing it with
  | zero => rfl
  | succ fuel ih =>
    obtain ⟨pp, perp, acc, thr, flip, left, le, right, re, ns, so⟩ := it
    cases side
    · simp only [shiftIt, ParallelsIterator.nextParallelFuel, nextAll_shift]
      generalize left.nextAll perp = r
      obtain ⟨bp, b'⟩ := r
      cases bp with
      | normal p => rfl
      | extra p =>
        simp only [shiftBP, ParallelsIterator.sideError, ParallelsIterator.setSideError]
        cases flip
        · simp only [Bool.false_eq_true, ↓reduceIte]
          by_cases h : (pp.increaseError le).2 = true
          · simp only [h, ↓reduceIte]; rfl
          · simp only [h, Bool.false_eq_true, ↓reduceIte]
            exact ih ⟨pp, perp, acc, thr, false, b', (pp.increaseError le).1, right, re, ns, so⟩
        · simp only [↓reduceIte]
          by_cases h : (pp.decreaseError le).2 = true
          · simp only [h, ↓reduceIte]; rfl
          · simp only [h, Bool.false_eq_true, ↓reduceIte]
            exact ih ⟨pp, perp, acc, thr, true, b', (pp.decreaseError le).1, right, re, ns, so⟩
    · simp only [shiftIt, ParallelsIterator.nextParallelFuel, previousAll_shift]
      generalize right.previousAll perp = r
      obtain ⟨bp, b'⟩ := r
      cases bp with
      | normal p => rfl
      | extra p =>
        simp only [shiftBP, ParallelsIterator.sideError, ParallelsIterator.setSideError]
        cases flip
        · simp only [Bool.not_false, ↓reduceIte]
          by_cases h : (pp.decreaseError re).2 = true
          · simp only [h, ↓reduceIte]; rfl
          · simp only [h, Bool.false_eq_true, ↓reduceIte]
            exact ih ⟨pp, perp, acc, thr, false, left, le, b', (pp.decreaseError re).1, ns, so⟩
        · simp only [Bool.not_true, Bool.false_eq_true, ↓reduceIte]
          by_cases h : (pp.increaseError re).2 = true
          · simp only [h, ↓reduceIte]; rfl
          · simp only [h, Bool.false_eq_true, ↓reduceIte]
            exact ih ⟨pp, perp, acc, thr, true, left, le, b', (pp.increaseError re).1, ns, so⟩

theorem nextParallel_shift (it : ParallelsIterator) (side : LineSide) (d : Pt) :
    (shiftIt it d).nextParallel side = (it.nextParallel side).map (shiftNP · d) :=
  nextParallelFuel_shift _ it side d

/-- One item of the iterator, moved by `d`. -/
def shiftItem (r : Option (Bresenham × ParallelLineType) × ParallelsIterator) (d : Pt) :
    Option (Bresenham × ParallelLineType) × ParallelsIterator :=
  (r.1.map (fun x => (shiftB x.1 d, x.2)), shiftIt r.2 d)

theorem next_shift (it : ParallelsIterator) (d : Pt) :
    (shiftIt it d).next = it.next.map (shiftItem · d) := by
  unfold ParallelsIterator.next
  rw [nextParallel_shift]
  have e1 : (shiftIt it d).thicknessAccumulator = it.thicknessAccumulator := rfl
  have e2 : (shiftIt it d).thicknessThreshold = it.thicknessThreshold := rfl
  have e3 : (shiftIt it d).nextSide = it.nextSide := rfl
  rw [e1, e2, e3]
  by_cases h : it.thicknessAccumulator * it.thicknessAccumulator > it.thicknessThreshold
  · simp only [h, ↓reduceIte]; rfl
  · simp only [h, ↓reduceIte]
    cases hr : it.nextParallel it.nextSide with
    | none => rfl
    | some r =>
      obtain ⟨⟨bp, e⟩, it'⟩ := r
      simp only [Option.map_some, shiftNP]
      obtain ⟨pp, perp, acc, thr, flip, left, le, right, re, ns, so⟩ := it'
      cases bp <;> cases so <;> rfl

/-! ### `ParallelsIterator::new` -/

/-- The iterator built by `ParallelsIterator::new` before the centre line is skipped, as a function
of what it depends on: the start point, the two parameter sets and the squared length. -/
def newSelf (s : Pt) (pp perp : BresenhamParameters) (lsq t : Int) (off : StrokeOffset) :
    ParallelsIterator :=
  { parallelParameters := pp, perpendicularParameters := perp
    thicknessAccumulator := tdiv2 (pp.errorStep.minor + pp.errorStep.major)
    thicknessThreshold := (t * 2) * (t * 2) * lsq
    flip := decide (perp.positionStep.minor = -pp.positionStep.major)
    left := Bresenham.new s, leftError := 0, right := Bresenham.new s, rightError := 0
    nextSide := match off with
      | .none => LineSide.right
      | .left => LineSide.left
      | .right => LineSide.right
    strokeOffset := off }

def newCore (s : Pt) (pp perp : BresenhamParameters) (lsq t : Int) (off : StrokeOffset) :
    Option ParallelsIterator :=
  match (newSelf s pp perp lsq t off).nextParallel (newSelf s pp perp lsq t off).nextSide.swap with
  | none => none
  | some (_, it) => some it

/-- The line whose parameters `ParallelsIterator::new` uses. -/
def paramLine (l : Line) : Line := if l.start = l.stop then Thick.horizontalLine else l

theorem new_eq_core (l : Line) (t : Int) (off : StrokeOffset) :
    ParallelsIterator.new l t off =
      newCore l.start (BresenhamParameters.new (paramLine l))
        (BresenhamParameters.new (paramLine l).perpendicular) (paramLine l).delta.lengthSquared t off := rfl

theorem newCore_shift (s : Pt) (pp perp : BresenhamParameters) (lsq t : Int) (off : StrokeOffset)
    (d : Pt) : newCore (s + d) pp perp lsq t off = (newCore s pp perp lsq t off).map (shiftIt · d) := by
  unfold newCore
  have e : newSelf (s + d) pp perp lsq t off = shiftIt (newSelf s pp perp lsq t off) d := rfl
  rw [e, nextParallel_shift]
  have e2 : (shiftIt (newSelf s pp perp lsq t off) d).nextSide = (newSelf s pp perp lsq t off).nextSide := rfl
  rw [e2]
  cases (newSelf s pp perp lsq t off).nextParallel (newSelf s pp perp lsq t off).nextSide.swap with
  | none => rfl
  | some r => rfl

theorem bparams_translate (l : Line) (d : Pt) :
    BresenhamParameters.new (l.translate d) = BresenhamParameters.new l := by
  unfold BresenhamParameters.new
  simp only [translate_start, translate_stop, pt_add_sub_add]

theorem perpendicular_translate (l : Line) (d : Pt) :
    (l.translate d).perpendicular = l.perpendicular.translate d := by
  unfold Line.perpendicular
  simp only [pt_add_sub_add, Line.translate]
  congr 1
  pt_arith

theorem paramLine_translate (l : Line) (d : Pt) :
    paramLine (l.translate d) = if l.start = l.stop then Thick.horizontalLine else (paramLine l).translate d := by
  unfold paramLine
  have hz : ((l.translate d).start = (l.translate d).stop) ↔ (l.start = l.stop) := by
    simp only [translate_start, translate_stop, Pt.ext_iff', Pt.add_x, Pt.add_y]; omega
  by_cases h : l.start = l.stop
  · simp only [h, hz.mpr h, ↓reduceIte]
  · have h' : ¬ (l.translate d).start = (l.translate d).stop := fun c => h (hz.mp c)
    simp only [h, h', ↓reduceIte]

/-- **`ParallelsIterator::new` commutes with translation.** -/
theorem new_shift (l : Line) (t : Int) (off : StrokeOffset) (d : Pt) :
    ParallelsIterator.new (l.translate d) t off = (ParallelsIterator.new l t off).map (shiftIt · d) := by
  rw [new_eq_core, new_eq_core, paramLine_translate, translate_start]
  by_cases h : l.start = l.stop
  · have hp : paramLine l = Thick.horizontalLine := by unfold paramLine; simp only [h, ↓reduceIte]
    simp only [h, ↓reduceIte, hp]
    exact newCore_shift _ _ _ _ _ _ _
  · simp only [h, ↓reduceIte, bparams_translate, perpendicular_translate, delta_translate]
    exact newCore_shift _ _ _ _ _ _ _

/-! ### `Line::extents` -/

/-- A remembered parallel `(start point, type)`, moved by `d`. -/
def shiftPT (s : Pt × ParallelLineType) (d : Pt) : Pt × ParallelLineType := (s.1 + d, s.2)

theorem extentsLoop_shift (fuel : Nat) (it : ParallelsIterator) (left right : Pt × ParallelLineType)
    (d : Pt) :
    extentsLoop fuel (shiftIt it d) (shiftPT left d) (shiftPT right d) =
      (extentsLoop fuel it left right).map (fun r => (shiftPT r.1 d, shiftPT r.2 d)) := by
  induction fuel generalizing it left right with
  | zero => rfl
  | succ fuel ih =>
    unfold extentsLoop
    rw [next_shift]
    cases h1 : it.next with
    | none => rfl
    | some r1 =>
      obtain ⟨o1, it1⟩ := r1
      cases o1 with
      | none => rfl
      | some bt1 =>
        obtain ⟨b1, ty1⟩ := bt1
        simp only [Option.map_some, shiftItem]
        rw [next_shift]
        cases h2 : it1.next with
        | none => rfl
        | some r2 =>
          obtain ⟨o2, it2⟩ := r2
          cases o2 with
          | none => rfl
          | some bt2 =>
            obtain ⟨b2, ty2⟩ := bt2
            simp only [Option.map_some, shiftItem]
            exact ih it2 (b2.point, ty2) (b1.point, ty1)

/-- The accumulator of `Iterator::last`, moved by `d`. -/
def shiftAcc (a : Option (Bresenham × ParallelLineType)) (d : Pt) :
    Option (Bresenham × ParallelLineType) := a.map (fun x => (shiftB x.1 d, x.2))

theorem lastParallel_shift (fuel : Nat) (it : ParallelsIterator)
    (acc : Option (Bresenham × ParallelLineType)) (d : Pt) :
    lastParallel fuel (shiftIt it d) (shiftAcc acc d) =
      (lastParallel fuel it acc).map (shiftAcc · d) := by
  induction fuel generalizing it acc with
  | zero => rfl
  | succ fuel ih =>
    unfold lastParallel
    rw [next_shift]
    cases h1 : it.next with
    | none => rfl
    | some r1 =>
      obtain ⟨o1, it1⟩ := r1
      cases o1 with
      | none => rfl
      | some bt1 => exact ih it1 (some bt1)

/-- A pair of lines moved by `d`. -/
def shiftLines (r : Line × Line) (d : Pt) : Line × Line := (r.1.translate d, r.2.translate d)

/-- **`Line::extents` commutes with translation**: the edge lines of a moved line are the moved
edge lines, for every thickness and stroke offset. -/
theorem extents_translate (l : Line) (w : Nat) (off : StrokeOffset) (d : Pt) :
    extents (l.translate d) w off = (extents l w off).map (shiftLines · d) := by
  unfold extents
  rw [new_shift]
  cases hn : ParallelsIterator.new l (satAsI32 w) off with
  | none => rfl
  | some it =>
    simp only [Option.map_some, Option.bind_eq_bind, Option.bind_some]
    have ep : (shiftIt it d).parallelParameters = it.parallelParameters := rfl
    have es : ((l.translate d).start, ParallelLineType.normal) = shiftPT (l.start, ParallelLineType.normal) d := rfl
    have hl : lastParallel (4 * w + 8) (shiftIt it d) none =
        (lastParallel (4 * w + 8) it none).map (shiftAcc · d) := lastParallel_shift _ it none d
    rw [ep]
    cases off with
    | none =>
      simp only [es]
      rw [extentsLoop_shift]
      cases extentsLoop (2 * w + 4) it (l.start, ParallelLineType.normal) (l.start, ParallelLineType.normal) with
      | none => rfl
      | some r =>
        obtain ⟨⟨p1, t1⟩, ⟨p2, t2⟩⟩ := r
        simp only [Option.map_some, Option.bind_some, pure, shiftPT, shiftLines, Line.translate,
          translate_start, translate_stop]
        cases t1 <;> cases t2 <;> pt_arith
    | left =>
      simp only []
      rw [hl]
      cases lastParallel (4 * w + 8) it none with
      | none => rfl
      | some r =>
        cases r with
        | none =>
          simp only [Option.map_some, Option.bind_some, pure, shiftAcc, Option.map_none, shiftLines,
            Line.translate, translate_start, translate_stop]
          pt_arith
        | some bt =>
          obtain ⟨b, ty⟩ := bt
          simp only [Option.map_some, Option.bind_some, pure, shiftAcc, shiftB, shiftLines,
            Line.translate, translate_start, translate_stop]
          cases ty <;> pt_arith
    | right =>
      simp only []
      rw [hl]
      cases lastParallel (4 * w + 8) it none with
      | none => rfl
      | some r =>
        cases r with
        | none =>
          simp only [Option.map_some, Option.bind_some, pure, shiftAcc, Option.map_none, shiftLines,
            Line.translate, translate_start, translate_stop]
          pt_arith
        | some bt =>
          obtain ⟨b, ty⟩ := bt
          simp only [Option.map_some, Option.bind_some, pure, shiftAcc, shiftB, shiftLines,
            Line.translate, translate_start, translate_stop]
          cases ty <;> pt_arith

end Joins
end EG
