/-
  EG.Lemmas.FramebufferHist — write histories: by induction over ANY list of writes the
  framebuffer's `pixel` refines the abstract last-write map (`PMap.apply`, EG/Model/Target.lean);
  the tail behind `BUFFER_SIZE` never changes; every `DrawTarget` call is a list of `set_pixel`s.
-/
import EG.Lemmas.Framebuffer
namespace EG.Fb
open EG EG.Raw

/-- The colours of a write list are values of the raw type (what `C::into()` can produce). -/
def ColorsOk (bits : Nat) (ws : Writes) : Prop := ∀ w ∈ ws, w.2 < 2 ^ bits

theorem ColorsOk.tail {bits : Nat} {w : Pt × Color} {ws : Writes} (h : ColorsOk bits (w :: ws)) :
    ColorsOk bits ws := fun x hx => h x (List.mem_cons_of_mem _ hx)

theorem ColorsOk.head {bits : Nat} {w : Pt × Color} {ws : Writes} (h : ColorsOk bits (w :: ws)) :
    w.2 < 2 ^ bits := h w List.mem_cons_self

/-- `pixel` agrees with the abstract map `m`: inside the area the colour last written according
to `m`, the all-zero colour where `m` has no entry; `None` outside. -/
def Refines (fb : Fb) (m : PMap) : Prop :=
  ∀ q, fb.pixel q = if fb.inside q then some ((m q).getD 0) else none

theorem drawIter_cons (fb : Fb) (w : Pt × Color) (ws : Writes) :
    fb.drawIter (w :: ws) = (fb.setPixel w.1 w.2).drawIter ws := rfl

theorem drawIter_append (fb : Fb) (a b : Writes) :
    fb.drawIter (a ++ b) = (fb.drawIter a).drawIter b := by
  unfold Fb.drawIter; rw [List.foldl_append]

theorem drawIter_bits (fb : Fb) (ws : Writes) : (fb.drawIter ws).bits = fb.bits := by
  induction ws generalizing fb with
  | nil => rfl
  | cons w ws ih => rw [drawIter_cons, ih, setPixel_bits]

theorem drawIter_width (fb : Fb) (ws : Writes) : (fb.drawIter ws).width = fb.width := by
  induction ws generalizing fb with
  | nil => rfl
  | cons w ws ih => rw [drawIter_cons, ih, setPixel_width]

theorem drawIter_height (fb : Fb) (ws : Writes) : (fb.drawIter ws).height = fb.height := by
  induction ws generalizing fb with
  | nil => rfl
  | cons w ws ih => rw [drawIter_cons, ih, setPixel_height]

theorem drawIter_bbox (fb : Fb) (ws : Writes) : (fb.drawIter ws).bbox = fb.bbox := by
  unfold Fb.bbox; rw [drawIter_width, drawIter_height]

theorem drawIter_bufSize (fb : Fb) (ws : Writes) : (fb.drawIter ws).bufSize = fb.bufSize := by
  unfold Fb.bufSize; rw [drawIter_width, drawIter_height, drawIter_bits]

theorem drawIter_inside_iff (fb : Fb) (ws : Writes) (q : Pt) :
    (fb.drawIter ws).inside q ↔ fb.inside q := by
  unfold Fb.inside; rw [drawIter_width, drawIter_height]

/-- One write: the map is updated at the written point. -/
theorem refines_setPixel (fb : Fb) (hw : fb.Wf) (m : PMap) (hr : Refines fb m) (p : Pt) {c : Nat}
    (hc : c < 2 ^ fb.bits) :
    Refines (fb.setPixel p c) (fun q => if q = p then some c else m q) := by
  intro q
  rw [pixel_setPixel fb hw p hc, hr q]
  by_cases hq : fb.inside q
  · have hq' : (fb.setPixel p c).inside q := (setPixel_inside_iff fb p c q).mpr hq
    by_cases hqp : q = p
    · subst hqp; simp only [hq, hq', and_self, ↓reduceIte, Option.getD_some]
    · simp only [hqp, false_and, hq, hq', ↓reduceIte]
  · have hq' : ¬ (fb.setPixel p c).inside q := fun h => hq ((setPixel_inside_iff fb p c q).mp h)
    have : ¬ (q = p ∧ fb.inside p) := by rintro ⟨rfl, h⟩; exact hq h
    simp only [this, hq, hq', ↓reduceIte]

/-- Any write history, by induction. -/
theorem refines_drawIter (fb : Fb) (hw : fb.Wf) (m : PMap) (hr : Refines fb m) (ws : Writes)
    (hc : ColorsOk fb.bits ws) : (fb.drawIter ws).Wf ∧ Refines (fb.drawIter ws) (m.apply ws) := by
  induction ws generalizing fb m with
  | nil => exact ⟨hw, hr⟩
  | cons w ws ih =>
    rw [drawIter_cons]
    have hw' := setPixel_wf fb hw w.1 hc.head
    have hr' := refines_setPixel fb hw m hr w.1 hc.head
    have hc' : ColorsOk (fb.setPixel w.1 w.2).bits ws := by rw [setPixel_bits]; exact hc.tail
    exact ih _ hw' _ hr' hc'

/-- The bytes behind `BUFFER_SIZE` never change. -/
theorem drawIter_tail (fb : Fb) (hw : fb.Wf) (ws : Writes) (hc : ColorsOk fb.bits ws) {k : Nat}
    (hk : fb.bufSize ≤ k) : (fb.drawIter ws).data[k]? = fb.data[k]? := by
  induction ws generalizing fb with
  | nil => rfl
  | cons w ws ih =>
    rw [drawIter_cons]
    have hw' := setPixel_wf fb hw w.1 hc.head
    have hc' : ColorsOk (fb.setPixel w.1 w.2).bits ws := by rw [setPixel_bits]; exact hc.tail
    rw [ih _ hw' hc' (by rw [setPixel_bufSize]; exact hk)]
    exact setPixel_tail fb hw w.1 w.2 hk

theorem drawIter_length (fb : Fb) (hw : fb.Wf) (ws : Writes) (hc : ColorsOk fb.bits ws) :
    (fb.drawIter ws).data.length = fb.data.length := by
  induction ws generalizing fb with
  | nil => rfl
  | cons w ws ih =>
    rw [drawIter_cons]
    have hw' := setPixel_wf fb hw w.1 hc.head
    have hc' : ColorsOk (fb.setPixel w.1 w.2).bits ws := by rw [setPixel_bits]; exact hc.tail
    rw [ih _ hw' hc', setPixel_length fb hw]

/-- Writes outside the area change nothing at all. -/
theorem drawIter_outside (fb : Fb) (ws : Writes) (ho : ∀ w ∈ ws, ¬ fb.inside w.1) :
    fb.drawIter ws = fb := by
  induction ws with
  | nil => rfl
  | cons w ws ih =>
    rw [drawIter_cons, setPixel_outside fb w.2 (ho w List.mem_cons_self)]
    exact ih (fun x hx => ho x (List.mem_cons_of_mem _ hx))

/-! ### Arbitrary `DrawTarget` calls -/

/-- A sequence of `DrawTarget` calls on the framebuffer. -/
def Fb.run (fb : Fb) (calls : List Call) : Fb := calls.foldl Fb.call fb

/-- Every sequence of drawing operations is one history of `set_pixel`s. -/
theorem run_eq_drawIter (fb : Fb) (calls : List Call) :
    fb.run calls = fb.drawIter (calls.flatMap (Call.lowerDefault fb.bbox)) := by
  induction calls generalizing fb with
  | nil => rfl
  | cons c cs ih =>
    show Fb.run (fb.call c) cs = _
    rw [ih, List.flatMap_cons, drawIter_append]
    unfold Fb.call
    rw [drawIter_bbox]

/-! ### The fresh framebuffer -/

theorem fromLe_replicate_zero (n : Nat) : fromLe (List.replicate n 0) = 0 := by
  induction n with
  | zero => rfl
  | succ n ih => simp only [List.replicate_succ, fromLe, ih]

theorem load_replicate_zero {bits : Nat} (hb : validBits bits = true) (o : Order) {n i : Nat}
    (hi : i < pixelCount bits n) : load bits o (List.replicate n 0) i = some 0 := by
  have hlen : (List.replicate n 0).length = n := List.length_replicate
  rcases validBits_cases hb with h | h | h
  · have h1 : i / (8 / bits) < n := (subByte_inside_iff h _ _).mp hi
    rw [load_sub h, loadBits_of_lt (by rw [hlen]; exact h1)]
    simp only [List.getElem_replicate, loadByte, rawNew, Nat.zero_shiftRight, Nat.zero_and]
  · rw [h] at hi ⊢
    have : i < n := by simpa [pixelCount] using hi
    show (List.replicate n 0)[i]? = some 0
    rw [List.getElem?_eq_getElem (by rw [hlen]; exact this), List.getElem_replicate]
  · rw [load_multi h]
    rw [pixelCount_multi h] at hi
    have h1 := (multiByte_inside_iff (multiByte_pos h) _ _).mp hi
    rw [loadBytes_of_le (by rw [hlen]; exact h1)]
    simp only [List.drop_replicate, List.take_replicate, decodeBytes, fromBe, List.reverse_replicate,
      fromLe_replicate_zero, ite_self]

theorem new_wf {bits : Nat} (hb : validBits bits = true) (o : Order) (w h n : Nat)
    (hn : bufferSize w h bits ≤ n) (hf : n * 8 ≤ usizeMax) : (Fb.new bits o w h n).Wf := by
  refine ⟨hb, ?_, ?_, ?_⟩
  · intro b hb'
    simp only [Fb.new, List.mem_replicate] at hb'
    omega
  · simp only [Fb.new, Fb.bufSize, List.length_replicate]; exact hn
  · simp only [Fb.new, List.length_replicate]; exact hf

theorem new_refines {bits : Nat} (hb : validBits bits = true) (o : Order) (w h n : Nat)
    (hn : bufferSize w h bits ≤ n) (hf : n * 8 ≤ usizeMax) :
    Refines (Fb.new bits o w h n) PMap.empty := by
  intro q
  have hw := new_wf hb o w h n hn hf
  rw [pixel_eq_load _ hw]
  by_cases hq : (Fb.new bits o w h n).inside q
  · simp only [hq, ↓reduceIte, PMap.empty, Option.getD_none]
    have := index_lt _ hw hq
    simp only [Fb.new, List.length_replicate] at this ⊢
    exact load_replicate_zero hb o this
  · simp only [hq, ↓reduceIte]

end EG.Fb
