/-
  EG.Lemmas.CircleTranslate — the styled circle commutes with translation: `offset`, the stroke
  and fill areas, the scanline iterators (the scanlines of the moved circle are the moved
  scanlines), hence the call list of `draw()` and the pixel list of `pixels()`.
  Guards: `Circle.InRange` of the iterated areas before and after the move (where `rows()` /
  `columns()` of the bounding box do not saturate).
-/
import EG.Lemmas.ScanlineTranslate
import EG.Lemmas.CircleStyled
namespace EG
namespace Circle

/-! ### areas -/

theorem translate_tl (c : Circle) (d : Pt) : (c.translate d).tl = c.tl + d := rfl
theorem translate_d (c : Circle) (d : Pt) : (c.translate d).d = c.d := rfl
theorem boundingBox_translate' (c : Circle) (d : Pt) :
    (c.translate d).boundingBox = c.boundingBox.translate d := rfl
theorem threshold_translate' (c : Circle) (d : Pt) : (c.translate d).threshold = c.threshold := rfl

theorem translate_center (c : Circle) (d : Pt) : (c.translate d).center = c.center + d := by
  unfold center
  rw [boundingBox_translate', Rect.center_translate]

theorem withCenter_add (p d : Pt) (n : Nat) : withCenter (p + d) n = (withCenter p n).translate d := by
  unfold withCenter translate
  rw [Rect.withCenter_translate]
  rfl

/-- `offset` commutes with translation, for every offset (growing and shrinking). -/
theorem translate_offset (c : Circle) (d : Pt) (o : Int) :
    (c.translate d).offset o = (c.offset o).translate d := by
  unfold offset
  by_cases h : o ≥ 0
  · simp only [h, ↓reduceIte, translate, Circle.mk.injEq, and_true]
    rw [Pt.ext_iff']; simp only [Pt.add_x, Pt.add_y, Pt.sub_x, Pt.sub_y]; omega
  · simp only [h, ↓reduceIte, translate_center, translate_d, withCenter_add]

theorem translate_strokeArea (st : PrimStyle) (c : Circle) (d : Pt) :
    (c.translate d).strokeArea st = (c.strokeArea st).translate d := translate_offset c d _

theorem translate_fillArea (st : PrimStyle) (c : Circle) (d : Pt) :
    (c.translate d).fillArea st = (c.fillArea st).translate d := translate_offset c d _

theorem translate_styledBoundingBox (st : PrimStyle) (c : Circle) (d : Pt) :
    (c.translate d).styledBoundingBox st = (c.styledBoundingBox st).translate d := by
  unfold styledBoundingBox
  rw [boundingBox_translate', Rect.offset_translate]

theorem center2x_translate' (c : Circle) (d : Pt) :
    (c.translate d).center2x = ⟨c.center2x.x + 2 * d.x, c.center2x.y + 2 * d.y⟩ := by
  rw [Pt.ext_iff']
  simp only [center2x, translate, Pt.add_x, Pt.add_y]
  constructor <;> omega

/-! ### the scanline iterator -/

theorem hit_shift (c2 : Pt) (thr : Nat) (d : Pt) (y x : Int) :
    hit ⟨c2.x + 2 * d.x, c2.y + 2 * d.y⟩ thr (y + d.y) (x + d.x) = hit c2 thr y x := by
  unfold hit
  have e : ((⟨(x + d.x) * 2, (y + d.y) * 2⟩ : Pt) - ⟨c2.x + 2 * d.x, c2.y + 2 * d.y⟩) =
      ((⟨x * 2, y * 2⟩ : Pt) - c2) := by
    rw [Pt.ext_iff']; simp only [Pt.sub_x, Pt.sub_y]; constructor <;> omega
  rw [e]

/-- The iterator state moved by `d`. -/
def ScanlinesIt.shift (d : Pt) (it : ScanlinesIt) : ScanlinesIt :=
  ⟨it.y + d.y, it.yEnd + d.y, it.xs + d.x, it.xe + d.x,
    ⟨it.center2x.x + 2 * d.x, it.center2x.y + 2 * d.y⟩, it.threshold⟩

theorem ScanlinesIt.row_shift (d : Pt) (it : ScanlinesIt) (y : Int) :
    (it.shift d).row (y + d.y) = (it.row y).map (Scanline.shift d) := by
  unfold ScanlinesIt.row ScanlinesIt.shift
  dsimp only
  rw [mirroredRange_shift d.x (p := hit it.center2x it.threshold y)
    (fun x => hit_shift it.center2x it.threshold d y x)]
  cases mirroredRange (hit it.center2x it.threshold y) it.xs it.xe <;> rfl

/-- **The scanlines of the moved iterator are the moved scanlines.** -/
theorem ScanlinesIt.toList_shift (d : Pt) (it : ScanlinesIt) :
    (it.shift d).toList = it.toList.map (Scanline.shift d) := by
  rw [ScanlinesIt.toList_eq, ScanlinesIt.toList_eq, ← untilNone_map_map]
  congr 1
  have e1 : (it.shift d).y = it.y + d.y := rfl
  have e2 : (it.shift d).yEnd = it.yEnd + d.y := rfl
  rw [e1, e2, irange_shift, List.map_map, List.map_map]
  apply List.map_congr_left
  intro y _
  exact ScanlinesIt.row_shift d it y

theorem translate_inRange_iff (c : Circle) (d : Pt) :
    (c.translate d).InRange ↔ (c.boundingBox.translate d).InRange := Iff.rfl

theorem scanlines_translate {c : Circle} {d : Pt} (h : c.InRange) (h' : (c.translate d).InRange) :
    (c.translate d).scanlines = c.scanlines.shift d := by
  rw [scanlines_eq h', scanlines_eq h, center2x_translate']
  unfold ScanlinesIt.shift
  simp only [translate_tl, translate_d, threshold_translate', Pt.add_x, Pt.add_y,
    ScanlinesIt.mk.injEq, and_true, true_and]
  refine ⟨?_, ?_⟩ <;> omega

/-- **The scanlines of the moved circle are the moved scanlines.** -/
theorem scanlines_toList_translate {c : Circle} {d : Pt} (h : c.InRange)
    (h' : (c.translate d).InRange) :
    (c.translate d).scanlines.toList = c.scanlines.toList.map (Scanline.shift d) := by
  rw [scanlines_translate h h', ScanlinesIt.toList_shift]

/-! ### the styled scanline iterator -/

theorem style_shift (d : Pt) (it : StyledScanlinesIt) (s : Scanline) :
    (⟨it.scanlines.shift d, it.fillThreshold⟩ : StyledScanlinesIt).style (s.shift d) =
      (it.style s).shift d := by
  unfold StyledScanlinesIt.style
  rw [← StyledScanline.new_shift]
  unfold Scanline.shift ScanlinesIt.shift
  dsimp only
  rw [mirroredRange_shift d.x (p := hit it.scanlines.center2x it.fillThreshold s.y)
    (fun x => hit_shift it.scanlines.center2x it.fillThreshold d s.y x)]

/-- **The styled scanlines of the moved areas are the moved styled scanlines.** -/
theorem styledScanlines_toList_translate {S F : Circle} {d : Pt} (h : S.InRange)
    (h' : (S.translate d).InRange) :
    (styledScanlines (S.translate d) (F.translate d)).toList =
      (styledScanlines S F).toList.map (StyledScanline.shift d) := by
  rw [StyledScanlinesIt.toList_eq, StyledScanlinesIt.toList_eq]
  unfold styledScanlines
  dsimp only
  rw [scanlines_toList_translate h h', List.map_map, List.map_map, threshold_translate',
    scanlines_translate h h']
  apply List.map_congr_left
  intro s _
  exact style_shift d ⟨S.scanlines, F.threshold⟩ s

/-! ### `draw()` and `pixels()` -/

/-- **`draw()` of the moved styled circle makes the moved calls.** -/
theorem drawStyled_translate (st : PrimStyle) (c : Circle) (d : Pt)
    (hS : (c.strokeArea st).InRange) (hF : (c.fillArea st).InRange)
    (hS' : ((c.translate d).strokeArea st).InRange) (hF' : ((c.translate d).fillArea st).InRange) :
    (c.translate d).drawStyled st = (c.drawStyled st).map (Call.translate d) := by
  rw [translate_strokeArea] at hS'
  rw [translate_fillArea] at hF'
  unfold drawStyled
  rw [translate_strokeArea, translate_fillArea]
  cases st.effectiveStrokeColor with
  | none =>
    cases st.fillColor with
    | none => rfl
    | some fc =>
      simp only
      rw [scanlines_toList_translate hF hF', drawFillLines_shift]
  | some sc =>
    cases st.fillColor with
    | none =>
      simp only
      rw [styledScanlines_toList_translate hS hS', drawLines_shift]
    | some fc =>
      simp only
      rw [styledScanlines_toList_translate hS hS', drawLines_shift]

/-- **`pixels()` of the moved styled circle are the moved pixels**, in the same order. -/
theorem styledPixels_translate (st : PrimStyle) (c : Circle) (d : Pt)
    (hS : (c.strokeArea st).InRange) (hS' : ((c.translate d).strokeArea st).InRange) :
    (c.translate d).styledPixels st = Writes.translate d (c.styledPixels st) := by
  rw [translate_strokeArea] at hS'
  unfold styledPixels styledPixelsIt
  rw [translate_strokeArea, translate_fillArea, styledScanlines_toList_translate hS hS',
    StyledPixelsIt.toList_new_shift]

/-- `contains` of the moved circle at a point = `contains` of the circle at the point moved back. -/
theorem translate_contains (c : Circle) (d p : Pt) :
    (c.translate d).contains p = c.contains (p - d) := by
  unfold contains
  have h : (c.translate d).center2x - (⟨p.x * 2, p.y * 2⟩ : Pt) =
      c.center2x - (⟨(p - d).x * 2, (p - d).y * 2⟩ : Pt) := by
    rw [Pt.ext_iff']
    simp only [center2x, translate, Pt.sub_x, Pt.sub_y, Pt.add_x, Pt.add_y]
    constructor <;> omega
  rw [h]
  rfl

/-- The prescribed colour of the moved circle at `p` is that of the circle at `p - d`. -/
theorem styledExpected_translate (st : PrimStyle) (c : Circle) (d p : Pt) :
    styledExpected st (c.translate d) p = styledExpected st c (p - d) := by
  unfold styledExpected
  rw [translate_strokeArea, translate_fillArea, translate_contains, translate_contains]

end Circle
end EG
