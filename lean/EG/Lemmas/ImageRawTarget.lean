/-
  EG.Lemmas.ImageRawTarget — what one `fill_contiguous` call leaves on a target (both semantics of
  EG.Model.Target), and translation of `pointsSpec`.
-/
import EG.Lemmas.RectPoints
import EG.Model.Target
namespace EG.Img
open EG

/-! ### `PMap.apply` -/

/-- one write -/
def upd (m : PMap) (w : Pt × Color) : PMap := fun p => if p = w.1 then some w.2 else m p

theorem apply_nil (m : PMap) : m.apply [] = m := rfl
theorem apply_cons (m : PMap) (w : Pt × Color) (ws : Writes) : m.apply (w :: ws) = (upd m w).apply ws := rfl
theorem upd_eq (m : PMap) (w : Pt × Color) (p : Pt) : upd m w p = if p = w.1 then some w.2 else m p := rfl

theorem apply_not_mem : ∀ (ws : Writes) (m : PMap) (q : Pt), (∀ w ∈ ws, w.1 ≠ q) → (m.apply ws) q = m q := by
  intro ws
  induction ws with
  | nil => intro m q _; rfl
  | cons w ws ih =>
    intro m q h
    rw [apply_cons, ih (upd m w) q (fun w' hw' => h w' (List.mem_cons_of_mem _ hw')), upd_eq]
    have hne : q ≠ w.1 := fun e => h w List.mem_cons_self e.symm
    simp only [hne, ↓reduceIte]

theorem apply_mem_nodup : ∀ (ws : Writes) (m : PMap) (q : Pt) (c : Color),
    (ws.map Prod.fst).Nodup → (q, c) ∈ ws → (m.apply ws) q = some c := by
  intro ws
  induction ws with
  | nil => intro m q c _ h; cases h
  | cons w ws ih =>
    intro m q c hn h
    rw [List.map_cons, List.nodup_cons] at hn
    rw [apply_cons]
    rcases List.mem_cons.mp h with h | h
    · subst h
      rw [apply_not_mem ws _ q (by
        intro w' hw' e
        apply hn.1
        rw [List.mem_map]
        exact ⟨w', hw', e⟩), upd_eq]
      simp only [↓reduceIte]
    · exact ih (upd m w) q c hn.2 h

/-! ### zipping points with a colour stream that is a pointwise function of the point -/

theorem zip_value {f : Pt → Option Color} : ∀ (ps : List Pt) (cs : List Color),
    cs.map some = ps.map f → ∀ q c, (q, c) ∈ ps.zip cs → f q = some c := by
  intro ps
  induction ps with
  | nil => intro cs _ q c h; simp at h
  | cons p ps ih =>
    intro cs hcs q c h
    cases cs with
    | nil => simp at h
    | cons c' cs =>
      simp only [List.map_cons, List.cons.injEq] at hcs
      simp only [List.zip_cons_cons, List.mem_cons, Prod.mk.injEq] at h
      rcases h with ⟨rfl, rfl⟩ | h
      · exact hcs.1.symm
      · exact ih cs hcs.2 q c h

theorem zip_exists {f : Pt → Option Color} : ∀ (ps : List Pt) (cs : List Color),
    cs.map some = ps.map f → ∀ q, q ∈ ps → ∃ c, (q, c) ∈ ps.zip cs := by
  intro ps
  induction ps with
  | nil => intro cs _ q h; cases h
  | cons p ps ih =>
    intro cs hcs q h
    cases cs with
    | nil => simp at hcs
    | cons c' cs =>
      simp only [List.map_cons, List.cons.injEq] at hcs
      rcases List.mem_cons.mp h with rfl | h
      · exact ⟨c', by simp⟩
      · obtain ⟨c, hc⟩ := ih cs hcs.2 q h
        exact ⟨c, by simp [hc]⟩

theorem zip_fst_nodup {ps : List Pt} (cs : List Color) (h : ps.Nodup) :
    ((ps.zip cs).map Prod.fst).Nodup := by
  induction ps generalizing cs with
  | nil => simp
  | cons p ps ih =>
    cases cs with
    | nil => simp
    | cons c cs =>
      rw [List.nodup_cons] at h
      simp only [List.zip_cons_cons, List.map_cons, List.nodup_cons]
      refine ⟨?_, ih cs h.2⟩
      intro hm
      rw [List.mem_map] at hm
      obtain ⟨w, hw, rfl⟩ := hm
      exact h.1 (List.of_mem_zip (a := w.1) (b := w.2) hw).1

/-- The map left by writing `ps.zip cs` (clipped to `B`) when the `i`-th colour is `f` of the
`i`-th point and no point repeats. -/
theorem apply_zip (B : Rect) (ps : List Pt) (cs : List Color) (f : Pt → Option Color)
    (hnd : ps.Nodup) (hcs : cs.map some = ps.map f) (q : Pt) :
    (PMap.empty.apply (clipWrites B (ps.zip cs))) q =
      if q ∈ ps ∧ B.contains q = true then f q else none := by
  by_cases h : q ∈ ps ∧ B.contains q = true
  · simp only [h, and_self, ↓reduceIte]
    obtain ⟨c, hc⟩ := zip_exists ps cs hcs q h.1
    rw [zip_value ps cs hcs q c hc]
    apply apply_mem_nodup
    · unfold clipWrites
      exact List.Nodup.sublist (List.Sublist.map _ List.filter_sublist) (zip_fst_nodup cs hnd)
    · unfold clipWrites
      rw [List.mem_filter]
      exact ⟨hc, h.2⟩
  · simp only [h, ↓reduceIte]
    rw [apply_not_mem]
    · rfl
    · intro w hw e
      unfold clipWrites at hw
      rw [List.mem_filter] at hw
      apply h
      subst e
      exact ⟨(List.of_mem_zip (a := w.1) (b := w.2) hw.1).1, hw.2⟩

/-! ### translation of `pointsSpec` -/

theorem irange_map_add (a b d : Int) : (irange a b).map (fun x => x + d) = irange (a + d) (b + d) := by
  unfold irange
  have : (b + d - (a + d)).toNat = (b - a).toNat := by omega
  rw [this, List.map_map]
  apply List.map_congr_left
  intro i _
  simp only [Function.comp]; omega

theorem translate_inRange_size {r : Rect} {d : Pt} : (r.translate d).size = r.size := rfl

theorem pointsSpec_translate {r : Rect} {d : Pt} (h : r.InRange) (ht : (r.translate d).InRange) :
    (r.translate d).pointsSpec = r.pointsSpec.map (fun p => p + d) := by
  have hr := Rect.rowsEnd_eq h
  have hc := Rect.columnsEnd_eq h
  have hr' := Rect.rowsEnd_eq ht
  have hc' := Rect.columnsEnd_eq ht
  unfold Rect.rowsEnd at hr hr'; unfold Rect.columnsEnd at hc hc'
  unfold Rect.pointsSpec
  have hz : (r.translate d).isZeroSized = r.isZeroSized := rfl
  rw [hz]
  by_cases hzz : r.isZeroSized = true
  · simp only [hzz, ↓reduceIte, List.map_nil]
  · simp only [hzz, Bool.false_eq_true, ↓reduceIte]
    unfold Rect.rows Rect.columns
    rw [hr, hc, hr', hc']
    simp only [Rect.translate, Pt.add_x, Pt.add_y]
    have e1 : r.tl.y + d.y + (r.size.h : Int) = r.tl.y + r.size.h + d.y := by omega
    have e2 : r.tl.x + d.x + (r.size.w : Int) = r.tl.x + r.size.w + d.x := by omega
    rw [e1, e2, ← irange_map_add, ← irange_map_add]
    simp only [List.map_flatMap, List.map_map, List.flatMap_map]
    rfl

end EG.Img
