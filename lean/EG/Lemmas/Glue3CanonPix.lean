/-
  EG.Lemmas.Glue3CanonPix — the driver's canonical pixel-map text is a proved function of the
  pixel map: `Driver.canonPix ws` (stable merge sort by (y, x), then the last entry of every run
  of equal points) lists, in strictly increasing row-major order, exactly the pairs `(p, c)` with
  `lastWrite ws p = some c` (= `PMap.empty.apply ws p`, EG/Lemmas/PMap.lean).
-/
import EG.Driver.Util
import EG.Lemmas.Target
namespace EG
namespace Glue3
open EG.Tgt EG.Driver

theorem ptLe_iff (a b : Pt) : ptLe a b = true ↔ a.y < b.y ∨ (a.y = b.y ∧ a.x ≤ b.x) := by
  unfold ptLe; simp

theorem ptLe_trans (a b c : Pt) (h1 : ptLe a b = true) (h2 : ptLe b c = true) : ptLe a c = true := by
  rw [ptLe_iff] at *; omega

theorem ptLe_total (a b : Pt) : (ptLe a b || ptLe b a) = true := by
  rw [Bool.or_eq_true, ptLe_iff, ptLe_iff]; omega

theorem ptLe_refl (a : Pt) : ptLe a a = true := by rw [ptLe_iff]; omega

/-- `a <= b` and `a ≠ b` is the strict row-major order. -/
theorem rowMajorLt_of_ptLe_ne {a b : Pt} (h : ptLe a b = true) (hne : a ≠ b) : Pt.rowMajorLt a b := by
  rw [ptLe_iff] at h
  unfold Pt.rowMajorLt
  have : ¬ (a.x = b.x ∧ a.y = b.y) := fun e => hne (Pt.ext_iff'.mpr e)
  omega

theorem rowMajorLt_of_lt_of_le {a b c : Pt} (h1 : Pt.rowMajorLt a b) (h2 : ptLe b c = true) :
    Pt.rowMajorLt a c := by
  rw [ptLe_iff] at h2; unfold Pt.rowMajorLt at *; omega

theorem rowMajorLt_ne {a b : Pt} (h : Pt.rowMajorLt a b) : a ≠ b := by
  intro e; subst e; unfold Pt.rowMajorLt at h; omega

/-- No write to `p`: nothing there. -/
theorem lastWrite_none_of_not_mem (ws : Writes) (p : Pt) (h : ∀ w ∈ ws, w.1 ≠ p) :
    lastWrite ws p = none := by
  induction ws with
  | nil => rfl
  | cons w ws ih =>
    rw [lastWrite_cons, ih (fun x hx => h x (List.mem_cons_of_mem _ hx))]
    simp [h w List.mem_cons_self]

/-- A write to `p` at the head of the rest: something is there. -/
theorem lastWrite_cons_isSome (w : Pt × Color) (ws : Writes) : (lastWrite (w :: ws) w.1).isSome = true := by
  rw [lastWrite_cons]
  cases lastWrite ws w.1 <;> simp

/-- `lastWrite` only looks at the writes to that point. -/
theorem lastWrite_filter_key (ws : Writes) (p : Pt) :
    lastWrite (ws.filter (fun w => w.1 == p)) p = lastWrite ws p := by
  have := lastWrite_filter (fun q => q == p) ws p
  simpa using this

/-! ### `lastOfRuns` on a sorted list -/

/-- The order the driver sorts by. -/
def keyLe (a b : Pt × Color) : Bool := ptLe a.1 b.1

theorem lastOfRuns_sublist : ∀ (l : List (Pt × Color)), (lastOfRuns l).Sublist l
  | [] => List.Sublist.refl _
  | [a] => List.Sublist.refl _
  | a :: b :: rest => by
    rw [lastOfRuns]
    split
    · exact (lastOfRuns_sublist (b :: rest)).cons _
    · exact (lastOfRuns_sublist (b :: rest)).cons_cons _

/-- On a list sorted by point, `lastOfRuns` keeps exactly the last write to every point. -/
theorem mem_lastOfRuns_sorted : ∀ (l : List (Pt × Color)), l.Pairwise (fun a b => keyLe a b = true) →
    ∀ (p : Pt) (c : Color), (p, c) ∈ lastOfRuns l ↔ lastWrite l p = some c
  | [], _, p, c => by simp [lastOfRuns, lastWrite_nil]
  | [a], _, p, c => by
    rw [lastOfRuns, lastWrite_singleton]
    obtain ⟨q, d⟩ := a
    by_cases h : q = p
    · subst h; simp [eq_comm]
    · have h' : ¬ p = q := fun e => h e.symm
      simp [h, h']
  | a :: b :: rest, hs, p, c => by
    have hs' : (b :: rest).Pairwise (fun a b => keyLe a b = true) := (List.pairwise_cons.mp hs).2
    have ih := mem_lastOfRuns_sorted (b :: rest) hs' p c
    rw [lastOfRuns, lastWrite_cons]
    by_cases hab : a.1 = b.1
    · simp only [hab, beq_self_eq_true, ↓reduceIte]
      rw [ih]
      by_cases hp : b.1 = p
      · have hsome := lastWrite_cons_isSome b rest
        rw [hp] at hsome
        cases hl : lastWrite (b :: rest) p with
        | none => rw [hl] at hsome; cases hsome
        | some d => simp
      · simp [hp]
    · have hab' : (a.1 == b.1) = false := by simpa using hab
      simp only [hab', Bool.false_eq_true, ↓reduceIte, List.mem_cons]
      rw [ih]
      have hlt : ∀ w ∈ b :: rest, Pt.rowMajorLt a.1 w.1 := by
        have hle := (List.pairwise_cons.mp hs).1
        have hb : Pt.rowMajorLt a.1 b.1 := rowMajorLt_of_ptLe_ne (hle b List.mem_cons_self) hab
        intro w hw
        rcases List.mem_cons.mp hw with rfl | hw
        · exact hb
        · exact rowMajorLt_of_lt_of_le hb ((List.pairwise_cons.mp hs').1 w hw)
      by_cases hp : a.1 = p
      · have hnone : lastWrite (b :: rest) p = none :=
          lastWrite_none_of_not_mem _ _ (fun w hw e => rowMajorLt_ne (hlt w hw) (hp.trans e.symm))
        rw [hnone]
        obtain ⟨q, d⟩ := a
        simp only at hp
        subst hp
        simp [eq_comm]
      · have : (p, c) ≠ a := fun e => hp (by rw [← e])
        simp [hp, this]

/-- On a list sorted by point, the points of `lastOfRuns` are strictly increasing. -/
theorem lastOfRuns_strict : ∀ (l : List (Pt × Color)), l.Pairwise (fun a b => keyLe a b = true) →
    (lastOfRuns l).Pairwise (fun a b => Pt.rowMajorLt a.1 b.1)
  | [], _ => by simp [lastOfRuns]
  | [a], _ => by simp [lastOfRuns]
  | a :: b :: rest, hs => by
    have hs' : (b :: rest).Pairwise (fun a b => keyLe a b = true) := (List.pairwise_cons.mp hs).2
    have ih := lastOfRuns_strict (b :: rest) hs'
    rw [lastOfRuns]
    by_cases hab : a.1 = b.1
    · simp only [hab, beq_self_eq_true, ↓reduceIte]; exact ih
    · have hab' : (a.1 == b.1) = false := by simpa using hab
      simp only [hab', Bool.false_eq_true, ↓reduceIte]
      rw [List.pairwise_cons]
      refine ⟨fun w hw => ?_, ih⟩
      have hw' : w ∈ b :: rest := (lastOfRuns_sublist (b :: rest)).subset hw
      have hle := (List.pairwise_cons.mp hs).1
      have hb : Pt.rowMajorLt a.1 b.1 := rowMajorLt_of_ptLe_ne (hle b List.mem_cons_self) hab
      rcases List.mem_cons.mp hw' with rfl | hw'
      · exact hb
      · exact rowMajorLt_of_lt_of_le hb ((List.pairwise_cons.mp hs').1 w hw')

/-! ### the stable sort keeps the last write of every point -/

theorem keyLe_trans (a b c : Pt × Color) (h1 : keyLe a b = true) (h2 : keyLe b c = true) :
    keyLe a c = true := ptLe_trans _ _ _ h1 h2

theorem keyLe_total (a b : Pt × Color) : (keyLe a b || keyLe b a) = true := ptLe_total _ _

/-- Stability: the writes to one point keep their order under the driver's sort. -/
theorem mergeSort_filter_key (ws : Writes) (p : Pt) :
    (ws.mergeSort keyLe).filter (fun w => w.1 == p) = ws.filter (fun w => w.1 == p) := by
  have hpw : (ws.filter (fun w => w.1 == p)).Pairwise (fun a b => keyLe a b = true) := by
    rw [List.pairwise_filter]
    apply List.pairwise_of_forall
    intro a b ha hb
    have ea : a.1 = p := by simpa using ha
    have eb : b.1 = p := by simpa using hb
    unfold keyLe; rw [ea, eb]; exact ptLe_refl p
  have hsub : (ws.filter (fun w => w.1 == p)).Sublist (ws.mergeSort keyLe) :=
    List.sublist_mergeSort keyLe_trans keyLe_total hpw List.filter_sublist
  have h2 := hsub.filter (fun w => w.1 == p)
  rw [List.filter_filter] at h2
  simp only [Bool.and_self] at h2
  have hlen : (ws.filter (fun w => w.1 == p)).length =
      ((ws.mergeSort keyLe).filter (fun w => w.1 == p)).length :=
    ((List.mergeSort_perm ws keyLe).filter _).length_eq.symm
  exact (h2.eq_of_length hlen).symm

theorem lastWrite_mergeSort (ws : Writes) (p : Pt) :
    lastWrite (ws.mergeSort keyLe) p = lastWrite ws p := by
  rw [← lastWrite_filter_key, mergeSort_filter_key, lastWrite_filter_key]

theorem canonPix_eq (ws : Writes) : canonPix ws = lastOfRuns (ws.mergeSort keyLe) := rfl

/-- **`canonPix` lists exactly the pixel map**: `(p, c)` is printed iff the last write to `p` has
colour `c`. -/
theorem mem_canonPix (ws : Writes) (p : Pt) (c : Color) :
    (p, c) ∈ canonPix ws ↔ lastWrite ws p = some c := by
  rw [canonPix_eq, mem_lastOfRuns_sorted _ (List.pairwise_mergeSort keyLe_trans keyLe_total ws),
    lastWrite_mergeSort]

/-- **`canonPix` is strictly sorted row-major** (y first, then x): no point occurs twice. -/
theorem canonPix_strict (ws : Writes) :
    (canonPix ws).Pairwise (fun a b => Pt.rowMajorLt a.1 b.1) := by
  rw [canonPix_eq]
  exact lastOfRuns_strict _ (List.pairwise_mergeSort keyLe_trans keyLe_total ws)

/-- Two lists with strictly increasing points and the same entries are equal. -/
theorem strict_ext : ∀ (l m : List (Pt × Color)),
    l.Pairwise (fun a b => Pt.rowMajorLt a.1 b.1) → m.Pairwise (fun a b => Pt.rowMajorLt a.1 b.1) →
    (∀ w, w ∈ l ↔ w ∈ m) → l = m
  | [], [], _, _, _ => rfl
  | [], b :: m, _, _, h => by have := (h b).mpr List.mem_cons_self; cases this
  | a :: l, [], _, _, h => by have := (h a).mp List.mem_cons_self; cases this
  | a :: l, b :: m, hl, hm, h => by
    have hl' := List.pairwise_cons.mp hl
    have hm' := List.pairwise_cons.mp hm
    have irr : ∀ x : Pt, ¬ Pt.rowMajorLt x x := fun x hx => rowMajorLt_ne hx rfl
    have asym : ∀ x y : Pt, Pt.rowMajorLt x y → Pt.rowMajorLt y x → False := by
      intro x y h1 h2; unfold Pt.rowMajorLt at h1 h2; omega
    have hab : a = b := by
      rcases List.mem_cons.mp ((h a).mp List.mem_cons_self) with e | ha
      · exact e
      · rcases List.mem_cons.mp ((h b).mpr List.mem_cons_self) with e | hb
        · exact e.symm
        · exact (asym _ _ (hm'.1 a ha) (hl'.1 b hb)).elim
    subst hab
    congr 1
    apply strict_ext l m hl'.2 hm'.2
    intro w
    constructor
    · intro hw
      rcases List.mem_cons.mp ((h w).mp (List.mem_cons_of_mem _ hw)) with e | hw'
      · subst e; exact (irr _ (hl'.1 w hw)).elim
      · exact hw'
    · intro hw
      rcases List.mem_cons.mp ((h w).mpr (List.mem_cons_of_mem _ hw)) with e | hw'
      · subst e; exact (irr _ (hm'.1 w hw)).elim
      · exact hw'

/-- **The canonical text decides equality of pixel maps**: two write lists have the same `canonPix`
iff the last write to every point is the same. -/
theorem canonPix_eq_iff (ws ws' : Writes) :
    canonPix ws = canonPix ws' ↔ ∀ p, lastWrite ws p = lastWrite ws' p := by
  constructor
  · intro h p
    cases hl : lastWrite ws p with
    | some c =>
      have := (mem_canonPix ws p c).mpr hl
      rw [h] at this
      exact ((mem_canonPix ws' p c).mp this).symm
    | none =>
      cases hl' : lastWrite ws' p with
      | none => rfl
      | some c =>
        have := (mem_canonPix ws' p c).mpr hl'
        rw [← h] at this
        rw [(mem_canonPix ws p c).mp this] at hl
        cases hl
  · intro h
    apply strict_ext _ _ (canonPix_strict ws) (canonPix_strict ws')
    rintro ⟨p, c⟩
    rw [mem_canonPix, mem_canonPix, h p]

end Glue3
end EG
