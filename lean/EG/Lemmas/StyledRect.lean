/-
  EG.Lemmas.StyledRect — geometry of the styled rectangle (EG.Model.StyledRect):
  closed forms of `stroke_area` / `fill_area`, and the key lemma: the four border rectangles of
  `draw_styled` cover exactly `stroke_area \ fill_area`, in every collapse case.
-/
import EG.Model.StyledRect
import EG.Lemmas.Style
import EG.Lemmas.RectPoints
namespace EG

namespace Rect

/-- Closed form of `offset` by a non-negative amount (no `u32` saturation). -/
theorem offset_grow (r : Rect) (k : Nat)
    (hw : r.size.w + 2 * k ≤ 4294967295) (hh : r.size.h + 2 * k ≤ 4294967295) :
    r.offset (k : Int) = ⟨⟨r.tl.x - k, r.tl.y - k⟩, ⟨r.size.w + 2 * k, r.size.h + 2 * k⟩⟩ := by
  unfold offset
  have h0 : (k : Int) ≥ 0 := by omega
  simp only [h0, if_true, Sz.satAdd, Sz.newEqual, satAddU32, Int.toNat_natCast]
  have h1 : r.size.w + k * 2 ≤ 4294967295 := by omega
  have h2 : r.size.h + k * 2 ≤ 4294967295 := by omega
  simp only [h1, h2, ↓reduceIte, Rect.mk.injEq, Sz.mk.injEq]
  refine ⟨?_, ?_, ?_⟩
  · rw [Pt.ext_iff']; simp
  · omega
  · omega

/-- Closed form of `offset` by a non-positive amount: the size shrinks, saturating at 0. -/
theorem offset_shrink (r : Rect) (k : Nat)
    (hw : r.size.w ≤ 4294967295) (hh : r.size.h ≤ 4294967295) :
    r.offset (-(k : Int)) =
      ⟨⟨r.tl.x + (((r.size.w - 1) / 2 : Nat) : Int) - (((r.size.w - 2 * k - 1) / 2 : Nat) : Int),
        r.tl.y + (((r.size.h - 1) / 2 : Nat) : Int) - (((r.size.h - 2 * k - 1) / 2 : Nat) : Int)⟩,
       ⟨r.size.w - 2 * k, r.size.h - 2 * k⟩⟩ := by
  unfold offset
  by_cases hk : k = 0
  · subst hk
    simp only [Int.natCast_zero, Int.neg_zero, ge_iff_le, Int.le_refl,
      Sz.satAdd, Sz.newEqual, satAddU32, Int.toNat_zero, Nat.zero_mul, Nat.add_zero,
      hw, hh, ↓reduceIte, Nat.mul_zero, Nat.sub_zero, Rect.mk.injEq, and_true]
    rw [Pt.ext_iff']; simp only [Pt.sub_x, Pt.sub_y]; omega
  · have h0 : ¬ (-(k : Int) ≥ 0) := by omega
    simp only [h0, if_false, withCenter, center, centerOffset, Sz.satSub, Sz.newEqual,
      Int.neg_neg, Int.toNat_natCast, Rect.mk.injEq, Pt.mk.injEq, Sz.mk.injEq]
    refine ⟨⟨?_, ?_⟩, ?_, ?_⟩ <;> omega

/-- `offset(0)` is the identity (sizes within `u32`). -/
theorem offset_zero (r : Rect) (hw : r.size.w ≤ 4294967295) (hh : r.size.h ≤ 4294967295) :
    r.offset 0 = r := by
  have := offset_grow r 0 (by omega) (by omega)
  simp only [Int.natCast_zero, Nat.mul_zero, Nat.add_zero] at this
  rw [this]
  cases r with | mk tl size =>
  cases tl; cases size
  simp only [Rect.mk.injEq, Pt.mk.injEq, and_true]
  constructor <;> omega

/-- A rectangle lying (weakly) within an in-range rectangle is in range. -/
theorem InRange.of_within {q sa : Rect} (h : sa.InRange)
    (hx : sa.tl.x ≤ q.tl.x ∧ q.tl.x + q.size.w ≤ sa.tl.x + sa.size.w)
    (hy : sa.tl.y ≤ q.tl.y ∧ q.tl.y + q.size.h ≤ sa.tl.y + sa.size.h) : q.InRange := by
  unfold InRange inI32 at h ⊢
  omega

end Rect

namespace StyledRect
open Rect

/-- No saturation anywhere in the style / offset arithmetic: the stroke width fits `i32`
(`saturating_as`) and the grown size fits `u32` (`saturating_add`). -/
def NoSat (s : Style) (r : Rect) : Prop :=
  s.width ≤ 2147483647 ∧ r.size.w + 2 * s.outsideStrokeWidth ≤ 4294967295 ∧
    r.size.h + 2 * s.outsideStrokeWidth ≤ 4294967295

instance (s : Style) (r : Rect) : Decidable (NoSat s r) := by unfold NoSat; exact inferInstance

/-- The guard of the pixel-level theorems: additionally the stroke area (= styled bounding box)
lies in the `i32` coordinate range, so that `points()` does not saturate. -/
def Guard (s : Style) (r : Rect) : Prop := s.width ≤ 2147483647 ∧ (strokeArea s r).InRange

instance (s : Style) (r : Rect) : Decidable (Guard s r) := by unfold Guard; exact inferInstance

theorem strokeArea_eq (s : Style) (r : Rect) (h : NoSat s r) :
    strokeArea s r =
      ⟨⟨r.tl.x - s.outsideStrokeWidth, r.tl.y - s.outsideStrokeWidth⟩,
       ⟨r.size.w + 2 * s.outsideStrokeWidth, r.size.h + 2 * s.outsideStrokeWidth⟩⟩ := by
  unfold strokeArea
  rw [s.strokeOffset_eq h.1, offset_grow r _ h.2.1 h.2.2]

theorem fillArea_eq (s : Style) (r : Rect) (h : NoSat s r) :
    fillArea s r =
      ⟨⟨r.tl.x + (((r.size.w - 1) / 2 : Nat) : Int)
          - (((r.size.w - 2 * s.insideStrokeWidth - 1) / 2 : Nat) : Int),
        r.tl.y + (((r.size.h - 1) / 2 : Nat) : Int)
          - (((r.size.h - 2 * s.insideStrokeWidth - 1) / 2 : Nat) : Int)⟩,
       ⟨r.size.w - 2 * s.insideStrokeWidth, r.size.h - 2 * s.insideStrokeWidth⟩⟩ := by
  unfold fillArea
  rw [s.fillOffset_eq h.1, offset_shrink r _ (by have := h.2.1; omega) (by have := h.2.2; omega)]

/-- The rectangles filled with the stroke colour by `draw_styled`, in the code's order. -/
def strokeRects (s : Style) (r : Rect) : List Rect :=
  [topBorder s r, bottomBorder s r] ++
    (if (fillArea s r).size.h > 0 then [leftBorder s r, rightBorder s r] else [])

theorem strokeCalls_eq (s : Style) (r : Rect) (sc : Color) :
    strokeCalls s r sc = (strokeRects s r).map (fun a => Call.fillSolid a sc) := by
  unfold strokeCalls strokeRects
  split <;> simp

/-- The combination step of the key lemma, on plain intervals: `R*` are the facts about the row
arithmetic (`top`, `bottom` heights), `C*` about the column arithmetic (`left` width). -/
theorem borders_abstract (X Y FX FY : Int) (SW SH FW FH th bsw lw : Nat) (px py : Int)
    (R1 : th + bsw ≤ SH) (R2 : FH = 0 → SH ≤ th + bsw)
    (R3 : FH > 0 → Y + (th : Int) = FY ∧ Y + ((SH - bsw : Nat) : Int) = FY + FH)
    (C1 : lw ≤ SW) (C2 : FW = 0 → SW ≤ 2 * lw)
    (C3 : FW > 0 → X + (lw : Int) = FX ∧ X + ((SW - lw : Nat) : Int) = FX + FW) :
    ((X ≤ px ∧ px < X + SW ∧ Y ≤ py ∧ py < Y + th) ∨
     (X ≤ px ∧ px < X + SW ∧ Y + ((SH - bsw : Nat) : Int) ≤ py ∧ py < Y + ((SH - bsw : Nat) : Int) + bsw) ∨
     (FH > 0 ∧
       ((X ≤ px ∧ px < X + lw ∧ Y + (th : Int) ≤ py ∧ py < Y + (th : Int) + FH) ∨
        (X + ((SW - lw : Nat) : Int) ≤ px ∧ px < X + ((SW - lw : Nat) : Int) + lw ∧
          Y + (th : Int) ≤ py ∧ py < Y + (th : Int) + FH))))
    ↔ ((X ≤ px ∧ px < X + SW ∧ Y ≤ py ∧ py < Y + SH) ∧
        ¬ (FX ≤ px ∧ px < FX + FW ∧ FY ≤ py ∧ py < FY + FH)) := by
  by_cases hFH : FH = 0
  · have := R2 hFH
    omega
  · have h3 := R3 (by omega)
    by_cases hFW : FW = 0
    · have := C2 hFW
      omega
    · have h4 := C3 (by omega)
      omega

/-! ### The four border rectangles as point sets -/

theorem contains_topBorder (s : Style) (r : Rect) (p : Pt) :
    (topBorder s r).contains p = true ↔
      ((strokeArea s r).tl.x ≤ p.x ∧ p.x < (strokeArea s r).tl.x + (strokeArea s r).size.w ∧
        (strokeArea s r).tl.y ≤ p.y ∧ p.y < (strokeArea s r).tl.y + (topBorder s r).size.h) := by
  rw [contains_iff]; rfl

theorem contains_bottomBorder (s : Style) (r : Rect) (p : Pt) :
    (bottomBorder s r).contains p = true ↔
      ((strokeArea s r).tl.x ≤ p.x ∧ p.x < (strokeArea s r).tl.x + (strokeArea s r).size.w ∧
        (strokeArea s r).tl.y + (((strokeArea s r).size.h - bottomStrokeWidth s r : Nat) : Int) ≤ p.y ∧
        p.y < (strokeArea s r).tl.y + (((strokeArea s r).size.h - bottomStrokeWidth s r : Nat) : Int)
          + bottomStrokeWidth s r) := by
  rw [contains_iff]
  simp only [bottomBorder, topBorder]
  omega

theorem contains_leftBorder (s : Style) (r : Rect) (p : Pt) :
    (leftBorder s r).contains p = true ↔
      ((strokeArea s r).tl.x ≤ p.x ∧ p.x < (strokeArea s r).tl.x + (leftBorder s r).size.w ∧
        (strokeArea s r).tl.y + ((topBorder s r).size.h : Int) ≤ p.y ∧
        p.y < (strokeArea s r).tl.y + ((topBorder s r).size.h : Int) + (fillArea s r).size.h) := by
  rw [contains_iff]
  simp only [leftBorder, topBorder]
  omega

theorem contains_rightBorder (s : Style) (r : Rect) (p : Pt) :
    (rightBorder s r).contains p = true ↔
      ((strokeArea s r).tl.x + (((strokeArea s r).size.w - (leftBorder s r).size.w : Nat) : Int) ≤ p.x ∧
        p.x < (strokeArea s r).tl.x + (((strokeArea s r).size.w - (leftBorder s r).size.w : Nat) : Int)
          + (leftBorder s r).size.w ∧
        (strokeArea s r).tl.y + ((topBorder s r).size.h : Int) ≤ p.y ∧
        p.y < (strokeArea s r).tl.y + ((topBorder s r).size.h : Int) + (fillArea s r).size.h) := by
  rw [contains_iff]
  simp only [rightBorder, Rect.translate, Pt.add_x, Pt.add_y, leftBorder, topBorder]
  omega

theorem exists_mem_strokeRects (s : Style) (r : Rect) (p : Pt) :
    (∃ a ∈ strokeRects s r, a.contains p = true) ↔
      ((topBorder s r).contains p = true ∨ (bottomBorder s r).contains p = true ∨
        ((fillArea s r).size.h > 0 ∧
          ((leftBorder s r).contains p = true ∨ (rightBorder s r).contains p = true))) := by
  unfold strokeRects
  by_cases h : (fillArea s r).size.h > 0
  · simp [h]
  · simp [h]

/-- Row arithmetic of `draw_styled` (`top`, `bottom` heights). -/
theorem rows_facts (s : Style) (r : Rect) (h : NoSat s r) :
    ((topBorder s r).size.h + bottomStrokeWidth s r ≤ (strokeArea s r).size.h) ∧
    ((fillArea s r).size.h = 0 → (strokeArea s r).size.h ≤ (topBorder s r).size.h + bottomStrokeWidth s r) ∧
    ((fillArea s r).size.h > 0 →
      (strokeArea s r).tl.y + ((topBorder s r).size.h : Int) = (fillArea s r).tl.y ∧
      (strokeArea s r).tl.y + (((strokeArea s r).size.h - bottomStrokeWidth s r : Nat) : Int)
        = (fillArea s r).tl.y + (fillArea s r).size.h) := by
  have hio := s.inside_add_outside (by have := h.1; omega)
  simp only [bottomStrokeWidth, topBorder, strokeArea_eq s r h, fillArea_eq s r h]
  refine ⟨?_, ?_, ?_⟩
  · omega
  · omega
  · intro hf; constructor <;> omega

/-- Column arithmetic of `draw_styled` (`left` width, `right` position). -/
theorem cols_facts (s : Style) (r : Rect) (h : NoSat s r) :
    ((leftBorder s r).size.w ≤ (strokeArea s r).size.w) ∧
    ((fillArea s r).size.w = 0 → (strokeArea s r).size.w ≤ 2 * (leftBorder s r).size.w) ∧
    ((fillArea s r).size.w > 0 →
      (strokeArea s r).tl.x + ((leftBorder s r).size.w : Int) = (fillArea s r).tl.x ∧
      (strokeArea s r).tl.x + (((strokeArea s r).size.w - (leftBorder s r).size.w : Nat) : Int)
        = (fillArea s r).tl.x + (fillArea s r).size.w) := by
  have hio := s.inside_add_outside (by have := h.1; omega)
  simp only [leftBorder, strokeArea_eq s r h, fillArea_eq s r h]
  refine ⟨?_, ?_, ?_⟩
  · omega
  · omega
  · intro hf; constructor <;> omega

/-- **Key lemma.** The border rectangles of `draw_styled` cover exactly the points of the stroke
area that are not in the fill area — for every size, stroke width and alignment, including the
cases where the fill area collapses to zero width and/or height. -/
theorem mem_strokeRects_iff (s : Style) (r : Rect) (h : NoSat s r) (p : Pt) :
    (∃ a ∈ strokeRects s r, a.contains p = true) ↔
      ((strokeArea s r).contains p = true ∧ ¬ (fillArea s r).contains p = true) := by
  obtain ⟨R1, R2, R3⟩ := rows_facts s r h
  obtain ⟨C1, C2, C3⟩ := cols_facts s r h
  rw [exists_mem_strokeRects, contains_topBorder, contains_bottomBorder, contains_leftBorder,
    contains_rightBorder, contains_iff, contains_iff]
  exact borders_abstract _ _ _ _ _ _ _ _ _ _ _ _ _ R1 R2 R3 C1 C2 C3

end StyledRect
end EG
