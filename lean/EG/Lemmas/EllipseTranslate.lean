/-
  EG.Lemmas.EllipseTranslate — the styled ellipse commutes with translation: `offset`, the stroke
  and fill areas, the scanline iterators (the scanlines of the moved ellipse are the moved
  scanlines), hence the call list of `draw()` and the pixel list of `pixels()`.
  Guards: `Ellipse.InRange` of the iterated areas before and after the move (where `rows()` /
  `columns()` of the bounding box do not saturate).
-/
import EG.Lemmas.ScanlineTranslate
import EG.Lemmas.EllipseStyled
namespace EG
namespace Ellipse

/-! ### areas -/

theorem translate_tl (e : Ellipse) (d : Pt) : (e.translate d).tl = e.tl + d := rfl
theorem translate_size (e : Ellipse) (d : Pt) : (e.translate d).size = e.size := rfl
theorem translate_boundingBox (e : Ellipse) (d : Pt) :
    (e.translate d).boundingBox = e.boundingBox.translate d := rfl

theorem translate_center (e : Ellipse) (d : Pt) : (e.translate d).center = e.center + d := by
  unfold center
  rw [translate_boundingBox, Rect.center_translate]

theorem withCenter_add (p d : Pt) (s : Sz) : withCenter (p + d) s = (withCenter p s).translate d := by
  unfold withCenter translate
  rw [Rect.withCenter_translate]
  rfl

/-- `offset` commutes with translation, for every offset (growing and shrinking). -/
theorem translate_offset (e : Ellipse) (d : Pt) (o : Int) :
    (e.translate d).offset o = (e.offset o).translate d := by
  unfold offset
  by_cases h : o ≥ 0
  · simp only [h, ↓reduceIte, translate, Ellipse.mk.injEq, and_true]
    rw [Pt.ext_iff']; simp only [Pt.add_x, Pt.add_y, Pt.sub_x, Pt.sub_y]; omega
  · simp only [h, ↓reduceIte, translate_center, translate_size, withCenter_add]

theorem translate_strokeArea (st : PrimStyle) (e : Ellipse) (d : Pt) :
    (e.translate d).strokeArea st = (e.strokeArea st).translate d := translate_offset e d _

theorem translate_fillArea (st : PrimStyle) (e : Ellipse) (d : Pt) :
    (e.translate d).fillArea st = (e.fillArea st).translate d := translate_offset e d _

theorem translate_styledBoundingBox (st : PrimStyle) (e : Ellipse) (d : Pt) :
    (e.translate d).styledBoundingBox st = (e.styledBoundingBox st).translate d := by
  unfold styledBoundingBox
  rw [translate_boundingBox, Rect.offset_translate]

theorem translate_center2x (e : Ellipse) (d : Pt) :
    (e.translate d).center2x = ⟨e.center2x.x + 2 * d.x, e.center2x.y + 2 * d.y⟩ := by
  rw [Pt.ext_iff']
  simp only [center2x, center2xOf, translate, Pt.add_x, Pt.add_y]
  constructor <;> omega

/-! ### the scanline iterator -/

theorem hit_shift (c2 : Pt) (ec : EllipseContains) (d : Pt) (y x : Int) :
    hit ⟨c2.x + 2 * d.x, c2.y + 2 * d.y⟩ ec (y + d.y) (x + d.x) = hit c2 ec y x := by
  unfold hit
  have e : ((⟨(x + d.x) * 2 - (c2.x + 2 * d.x), (y + d.y) * 2 - (c2.y + 2 * d.y)⟩ : Pt)) =
      (⟨x * 2 - c2.x, y * 2 - c2.y⟩ : Pt) := by
    rw [Pt.ext_iff']; constructor <;> (dsimp only; omega)
  rw [e]

/-- The iterator state moved by `d`. -/
def ScanlinesIt.shift (d : Pt) (it : ScanlinesIt) : ScanlinesIt :=
  ⟨it.y + d.y, it.yEnd + d.y, it.xs + d.x, it.xe + d.x,
    ⟨it.center2x.x + 2 * d.x, it.center2x.y + 2 * d.y⟩, it.ec⟩

theorem ScanlinesIt.row_shift (d : Pt) (it : ScanlinesIt) (y : Int) :
    (it.shift d).row (y + d.y) = (it.row y).map (Scanline.shift d) := by
  unfold ScanlinesIt.row ScanlinesIt.shift
  dsimp only
  rw [mirroredRange_shift d.x (p := hit it.center2x it.ec y)
    (fun x => hit_shift it.center2x it.ec d y x)]
  cases mirroredRange (hit it.center2x it.ec y) it.xs it.xe <;> rfl

/-- **The scanlines of the moved iterator are the moved scanlines.** -/
theorem ScanlinesIt.toList_shift (d : Pt) (it : ScanlinesIt) :
    (it.shift d).toList = it.toList.map (Scanline.shift d) := by
  rw [ScanlinesIt.toList_eq, ScanlinesIt.toList_eq]
  unfold ScanlinesIt.rest
  have e1 : (it.shift d).y = it.y + d.y := rfl
  have e2 : (it.shift d).yEnd = it.yEnd + d.y := rfl
  rw [e1, e2, irange_shift, List.filterMap_map, List.map_filterMap]
  apply filterMap_congr'
  intro y _
  exact ScanlinesIt.row_shift d it y

theorem scanlines_translate {e : Ellipse} {d : Pt} (h : e.InRange) (h' : (e.translate d).InRange) :
    (e.translate d).scanlines = e.scanlines.shift d := by
  rw [scanlines_eq h', scanlines_eq h, translate_center2x]
  unfold ScanlinesIt.shift
  simp only [translate_tl, translate_size, Pt.add_x, Pt.add_y,
    ScanlinesIt.mk.injEq, and_true, true_and]
  refine ⟨?_, ?_⟩ <;> omega

/-- **The scanlines of the moved ellipse are the moved scanlines.** -/
theorem scanlines_toList_translate {e : Ellipse} {d : Pt} (h : e.InRange)
    (h' : (e.translate d).InRange) :
    (e.translate d).scanlines.toList = e.scanlines.toList.map (Scanline.shift d) := by
  rw [scanlines_translate h h', ScanlinesIt.toList_shift]

/-! ### the styled scanline iterator -/

theorem style_shift (d : Pt) (it : StyledScanlinesIt) (s : Scanline) :
    (⟨it.scanlines.shift d, it.fillArea⟩ : StyledScanlinesIt).style (s.shift d) =
      (it.style s).shift d := by
  unfold StyledScanlinesIt.style
  rw [← StyledScanline.new_shift]
  unfold Scanline.shift ScanlinesIt.shift
  dsimp only
  rw [mirroredRange_shift d.x (p := hit it.scanlines.center2x it.fillArea s.y)
    (fun x => hit_shift it.scanlines.center2x it.fillArea d s.y x)]

/-- **The styled scanlines of the moved areas are the moved styled scanlines.** -/
theorem styledScanlines_toList_translate {S F : Ellipse} {d : Pt} (h : S.InRange)
    (h' : (S.translate d).InRange) :
    (styledScanlines (S.translate d) (F.translate d)).toList =
      (styledScanlines S F).toList.map (StyledScanline.shift d) := by
  rw [StyledScanlinesIt.toList_eq, StyledScanlinesIt.toList_eq]
  unfold styledScanlines
  dsimp only
  rw [scanlines_toList_translate h h', List.map_map, List.map_map, translate_size,
    scanlines_translate h h']
  apply List.map_congr_left
  intro s _
  exact style_shift d ⟨S.scanlines, EllipseContains.new F.size⟩ s

/-! ### `draw()` and `pixels()` -/

/-- **`draw()` of the moved styled ellipse makes the moved calls.** -/
theorem drawStyled_translate (st : PrimStyle) (e : Ellipse) (d : Pt)
    (hS : (e.strokeArea st).InRange) (hF : (e.fillArea st).InRange)
    (hS' : ((e.translate d).strokeArea st).InRange) (hF' : ((e.translate d).fillArea st).InRange) :
    (e.translate d).drawStyled st = (e.drawStyled st).map (Call.translate d) := by
  rw [translate_strokeArea] at hS'
  rw [translate_fillArea] at hF'
  unfold drawStyled
  rw [translate_strokeArea, translate_fillArea]
  cases st.effectiveStrokeColor with
  | none =>
    cases st.fillColor with
    | none => rfl
    | some fc =>
      simp only
      rw [scanlines_toList_translate hF hF', drawFillLines_shift]
  | some sc =>
    cases st.fillColor with
    | none =>
      simp only
      rw [styledScanlines_toList_translate hS hS', drawLines_shift]
    | some fc =>
      simp only
      rw [styledScanlines_toList_translate hS hS', drawLines_shift]

/-- **`pixels()` of the moved styled ellipse are the moved pixels**, in the same order. -/
theorem styledPixels_translate (st : PrimStyle) (e : Ellipse) (d : Pt)
    (hS : (e.strokeArea st).InRange) (hS' : ((e.translate d).strokeArea st).InRange) :
    (e.translate d).styledPixels st = Writes.translate d (e.styledPixels st) := by
  rw [translate_strokeArea] at hS'
  unfold styledPixels styledPixelsIt
  rw [translate_strokeArea, translate_fillArea, styledScanlines_toList_translate hS hS',
    StyledPixelsIt.toList_new_shift]

/-- `contains` of the moved ellipse at a point = `contains` of the ellipse at the point moved back. -/
theorem translate_contains (e : Ellipse) (d p : Pt) :
    (e.translate d).contains p = e.contains (p - d) := by
  unfold contains
  have h : (⟨p.x * 2, p.y * 2⟩ : Pt) - (e.translate d).center2x =
      (⟨(p - d).x * 2, (p - d).y * 2⟩ : Pt) - e.center2x := by
    rw [Pt.ext_iff']
    simp only [center2x, center2xOf, translate, Pt.sub_x, Pt.sub_y, Pt.add_x, Pt.add_y]
    constructor <;> omega
  rw [h]
  rfl

/-- The prescribed colour of the moved ellipse at `p` is that of the ellipse at `p - d`. -/
theorem styledExpected_translate (st : PrimStyle) (e : Ellipse) (d p : Pt) :
    styledExpected st (e.translate d) p = styledExpected st e (p - d) := by
  unfold styledExpected
  rw [translate_strokeArea, translate_fillArea, translate_contains, translate_contains]

end Ellipse
end EG
