/-
  EG.Lemmas.CheckedRRect — range theorems of the `RoundedRectangle` kernels
  (Model/CheckedRRect.lean).

  * `CornerRadii::confine` cannot panic for ANY `u32` radii and sizes (`confine_ok`): the `u64`
    sums, `u128` cross products and the `u64` scaling product always fit, the divisor is
    positive, the `as u32` cast does not truncate.
  * Everything behind it (`EllipseQuadrant`, `RoundedRectangleContains`, `Scanlines`,
    `StyledScanlines`) is proved for rectangles of the shape domain `RR.rect` (corner within
    +-4096, sides up to 4096: 4 times the display scale) with ARBITRARY `u32` corner radii —
    `confine` makes every radius at most the side it lies along — and probed points within
    +-8192.
-/
import EG.Lemmas.CheckedDS
import EG.Lemmas.RoundedRectRow
import EG.Model.CheckedRRect
namespace EG.Chk
open EG

/-- `omega`, after reducing structure projections if needed -/
macro "so" : tactic => `(tactic| first | omega | (simp only; omega))

theorem chkU128_ok {a : Nat} (h : a ≤ 340282366920938463463374607431768211455) : chkU128 a = some a := by
  simp [chkU128, h]

/-! ## `find` / `rfind` evaluated lazily -/

theorem findFuel_ok {pred : Int → Option Bool} {p : Int → Bool} :
    ∀ (fuel : Nat) (a b : Int), (b - a).toNat = fuel →
      (∀ x, a ≤ x → x < b → pred x = some (p x)) →
      findFuel pred fuel a b = some (EG.rangeFind p a b) := by
  intro fuel
  induction fuel with
  | zero =>
    intro a b hf _
    unfold findFuel EG.rangeFind
    rw [irange_empty (a := a) (b := b) (by omega)]; rfl
  | succ fuel ih =>
    intro a b hf hp
    have hab : a < b := by omega
    unfold findFuel EG.rangeFind
    rw [if_pos hab, hp a (by omega) hab, irange_cons hab]
    simp only [Option.bind_eq_bind, Option.bind_some, List.find?_cons]
    cases hpa : p a with
    | true => simp
    | false =>
      simp only [Bool.false_eq_true, ↓reduceIte]
      rw [ih (a + 1) b (by omega) (fun x h1 h2 => hp x (by omega) h2)]
      rfl

theorem rfindFuel_ok {pred : Int → Option Bool} {p : Int → Bool} :
    ∀ (fuel : Nat) (a b : Int), (b - a).toNat = fuel →
      (∀ x, a ≤ x → x < b → pred x = some (p x)) →
      rfindFuel pred fuel a b = some (EG.rangeRFind p a b) := by
  intro fuel
  induction fuel with
  | zero =>
    intro a b hf _
    unfold rfindFuel EG.rangeRFind
    rw [irange_empty (a := a) (b := b) (by omega)]; rfl
  | succ fuel ih =>
    intro a b hf hp
    have hab : a < b := by omega
    unfold rfindFuel EG.rangeRFind
    rw [if_pos hab, hp (b - 1) (by omega) (by omega), irange_snoc hab]
    simp only [Option.bind_eq_bind, Option.bind_some, List.reverse_append, List.reverse_cons,
      List.reverse_nil, List.nil_append, List.cons_append, List.find?_cons]
    cases hpa : p (b - 1) with
    | true => simp
    | false =>
      simp only [Bool.false_eq_true, ↓reduceIte]
      rw [ih a (b - 1) (by omega) (fun x h1 h2 => hp x h1 (by omega))]
      rfl

theorem rangeFind_ok {pred : Int → Option Bool} {p : Int → Bool} {a b : Int}
    (hp : ∀ x, a ≤ x → x < b → pred x = some (p x)) :
    rangeFind pred a b = some (EG.rangeFind p a b) := findFuel_ok _ a b rfl hp

theorem rangeRFind_ok {pred : Int → Option Bool} {p : Int → Bool} {a b : Int}
    (hp : ∀ x, a ≤ x → x < b → pred x = some (p x)) :
    rangeRFind pred a b = some (EG.rangeRFind p a b) := rfindFuel_ok _ a b rfl hp

/-! ## `CornerRadii::confine` is total -/

namespace CornerRadii
open EG.CornerRadii

/-- all eight radii are `u32` values -/
def InU32 (c : EG.CornerRadii) : Prop :=
  (c.tl.w ≤ 4294967295 ∧ c.tl.h ≤ 4294967295) ∧ (c.tr.w ≤ 4294967295 ∧ c.tr.h ≤ 4294967295) ∧
  (c.br.w ≤ 4294967295 ∧ c.br.h ≤ 4294967295) ∧ (c.bl.w ≤ 4294967295 ∧ c.bl.h ≤ 4294967295)
instance (c : EG.CornerRadii) : Decidable (InU32 c) := by unfold InU32; exact inferInstance

/-- a `(u32 side, u64 pair sum)` pair -/
def Pair (p : Nat × Nat) : Prop := p.1 ≤ 4294967295 ∧ p.2 ≤ 8589934590

theorem sides_ok {c : EG.CornerRadii} (hc : InU32 c) (bb : Sz) :
    sides c bb = some (EG.CornerRadii.sides c bb) := by
  obtain ⟨⟨_, _⟩, ⟨_, _⟩, ⟨_, _⟩, ⟨_, _⟩⟩ := hc
  unfold sides EG.CornerRadii.sides
  chk_simp

theorem sides_pair {c : EG.CornerRadii} (hc : InU32 c) {bb : Sz} (hw : bb.w ≤ 4294967295)
    (hh : bb.h ≤ 4294967295) : ∀ s ∈ EG.CornerRadii.sides c bb, Pair s := by
  obtain ⟨⟨_, _⟩, ⟨_, _⟩, ⟨_, _⟩, ⟨_, _⟩⟩ := hc
  intro s hs
  unfold EG.CornerRadii.sides at hs
  simp only [List.mem_cons, List.not_mem_nil, or_false] at hs
  unfold Pair
  rcases hs with rfl | rfl | rfl | rfl <;> simp only <;> omega

theorem confineStep_ok {acc side : Nat × Nat} (ha : Pair acc) (hs : Pair side) :
    confineStep acc side = some (EG.CornerRadii.confineStep acc side) ∧
    Pair (EG.CornerRadii.confineStep acc side) := by
  obtain ⟨a1, a2⟩ := ha
  obtain ⟨s1, s2⟩ := hs
  have h1 : side.1 * acc.2 ≤ 4294967295 * 8589934590 := Nat.mul_le_mul s1 a2
  have h2 : acc.1 * side.2 ≤ 4294967295 * 8589934590 := Nat.mul_le_mul a1 s2
  constructor
  · unfold confineStep EG.CornerRadii.confineStep
    rw [chkU128_ok (by omega), chkU128_ok (by omega)]
    rfl
  · unfold EG.CornerRadii.confineStep
    split
    · exact ⟨s1, s2⟩
    · exact ⟨a1, a2⟩

theorem factorFold_ok : ∀ (l : List (Nat × Nat)) (acc : Nat × Nat), Pair acc → (∀ s ∈ l, Pair s) →
    factorFold l acc = some (l.foldl EG.CornerRadii.confineStep acc) ∧
    Pair (l.foldl EG.CornerRadii.confineStep acc) := by
  intro l
  induction l with
  | nil => intro acc ha _; exact ⟨rfl, ha⟩
  | cons s rest ih =>
    intro acc ha hl
    obtain ⟨e, hp⟩ := confineStep_ok ha (hl s (List.mem_cons_self ..))
    unfold factorFold
    rw [e]
    simp only [Option.bind_eq_bind, Option.bind_some, List.foldl_cons]
    exact ih _ hp (fun t ht => hl t (List.mem_cons_of_mem _ ht))

theorem factor_ok {c : EG.CornerRadii} (hc : InU32 c) {bb : Sz} (hw : bb.w ≤ 4294967295)
    (hh : bb.h ≤ 4294967295) :
    factor c bb = some (EG.CornerRadii.factor c bb) ∧ Pair (EG.CornerRadii.factor c bb) := by
  unfold factor EG.CornerRadii.factor
  rw [sides_ok hc]
  simp only [Option.bind_eq_bind, Option.bind_some]
  exact factorFold_ok _ (1, 1) (by unfold Pair; simp) (sides_pair hc hw hh)

theorem scaleLength_ok {f : Nat × Nat} (hf : Pair f) (hpos : 0 < f.2) (hle : f.1 ≤ f.2) {a : Nat}
    (ha : a ≤ 4294967295) : scaleLength f a = some (EG.CornerRadii.scaleLength f a) := by
  have h1 : a * f.1 ≤ 4294967295 * 4294967295 := Nat.mul_le_mul ha hf.1
  have h2 := EG.CornerRadii.scaleLength_le hle a
  unfold scaleLength
  rw [chkU64_ok (by omega)]
  simp only [Option.bind_eq_bind, Option.bind_some]
  rw [divU_ok hpos]
  simp only [Option.bind_some, Option.pure_def]
  unfold EG.CornerRadii.scaleLength at h2 ⊢
  rw [Nat.mod_eq_of_lt (by omega)]

theorem scaleSz_ok {f : Nat × Nat} (hf : Pair f) (hpos : 0 < f.2) (hle : f.1 ≤ f.2) {r : Sz}
    (hr : r.w ≤ 4294967295 ∧ r.h ≤ 4294967295) : scaleSz f r = some (EG.CornerRadii.scaleSz f r) := by
  unfold scaleSz EG.CornerRadii.scaleSz
  rw [scaleLength_ok hf hpos hle hr.1, scaleLength_ok hf hpos hle hr.2]
  rfl

/-- **`CornerRadii::confine` never panics**: any `u32` radii, any `u32` size. -/
theorem confine_ok {c : EG.CornerRadii} (hc : InU32 c) {bb : Sz} (hw : bb.w ≤ 4294967295)
    (hh : bb.h ≤ 4294967295) : confine c bb = some (EG.CornerRadii.confine c bb) := by
  obtain ⟨e, hp⟩ := factor_ok hc hw hh
  obtain ⟨hpos, hle, _⟩ := EG.CornerRadii.factor_spec c bb
  unfold confine EG.CornerRadii.confine
  rw [e]
  simp only [Option.bind_eq_bind, Option.bind_some]
  split
  · rw [scaleSz_ok hp hpos hle hc.1, scaleSz_ok hp hpos hle hc.2.1, scaleSz_ok hp hpos hle hc.2.2.1,
      scaleSz_ok hp hpos hle hc.2.2.2]
    rfl
  · rfl

end CornerRadii

/-! ## The shape domain of rounded rectangles -/

/-- corner within +-4096, sides up to 4096 -/
def RR.rect (r : Rect) : Prop :=
  (-4096 ≤ r.tl.x ∧ r.tl.x ≤ 4096) ∧ (-4096 ≤ r.tl.y ∧ r.tl.y ≤ 4096) ∧ r.size.w ≤ 4096 ∧ r.size.h ≤ 4096
instance (r : Rect) : Decidable (RR.rect r) := by unfold RR.rect; exact inferInstance
/-- probed points within +-8192 -/
def RR.probe (p : Pt) : Prop := (-8192 ≤ p.x ∧ p.x ≤ 8192) ∧ (-8192 ≤ p.y ∧ p.y ≤ 8192)
instance (p : Pt) : Decidable (RR.probe p) := by unfold RR.probe; exact inferInstance

/-- What the proofs need to know about a corner quadrant: its box lies inside the rectangle's
range, its doubled centre is small, its ellipse constants are `u32`. -/
structure QuadOk (e : EG.EllipseQuadrant) : Prop where
  cx : -16384 ≤ e.center2x.x ∧ e.center2x.x ≤ 24576
  cy : -16384 ≤ e.center2x.y ∧ e.center2x.y ≤ 24576
  a : e.ellipse.a ≤ 4294967295
  b : e.ellipse.b ≤ 4294967295
  tlx : -4096 ≤ e.bbox.tl.x ∧ e.bbox.tl.x + e.bbox.size.w ≤ 8192
  tly : -4096 ≤ e.bbox.tl.y ∧ e.bbox.tl.y + e.bbox.size.h ≤ 8192
  w : e.bbox.size.w ≤ 4096
  h : e.bbox.size.h ≤ 4096

namespace EllipseQuadrant

theorem szMul_ok {s : Sz} (hw : s.w ≤ 2147483647) (hh : s.h ≤ 2147483647) :
    szMul s 2 = some ⟨s.w * 2, s.h * 2⟩ := by
  unfold szMul; chk_simp

/-- `EllipseQuadrant::new` for a corner box inside -4096 ..= 8192 whose radius is at most 4096 per
axis. -/
theorem new_ok {tl : Pt} {radius : Sz} (q : Quadrant)
    (hx : -4096 ≤ tl.x ∧ tl.x + radius.w ≤ 8192) (hy : -4096 ≤ tl.y ∧ tl.y + radius.h ≤ 8192)
    (hw : radius.w ≤ 4096) (hh : radius.h ≤ 4096) :
    new tl radius q = some (EG.EllipseQuadrant.new tl radius q) ∧
    QuadOk (EG.EllipseQuadrant.new tl radius q) := by
  obtain ⟨_, _⟩ := hx
  obtain ⟨_, _⟩ := hy
  have hsq1 : (radius.w * 2) * (radius.w * 2) ≤ 8192 * 8192 := nat_sq_le (by omega)
  have hsq2 : (radius.h * 2) * (radius.h * 2) ≤ 8192 * 8192 := nat_sq_le (by omega)
  constructor
  · have tail : ∀ etl : Pt, (-8192 ≤ etl.x ∧ etl.x ≤ 8192) → (-8192 ≤ etl.y ∧ etl.y ≤ 8192) →
        (do
          let size2 ← szMul radius 2
          let c ← Ellipse.center2xOf etl size2
          let size2' ← szMul radius 2
          let e ← EllipseContains.new size2'
          pure (⟨⟨tl, radius⟩, c, e⟩ : EG.EllipseQuadrant)) =
        some ⟨⟨tl, radius⟩, EG.EllipseQuadrant.ellipseCenter2x etl ⟨radius.w * 2, radius.h * 2⟩,
          EG.EllipseContains.new ⟨radius.w * 2, radius.h * 2⟩⟩ := by
      intro etl ⟨_, _⟩ ⟨_, _⟩
      rw [szMul_ok (by omega) (by omega)]
      simp only [Option.bind_eq_bind, Option.bind_some]
      unfold Ellipse.center2xOf
      rw [ptMul_ok (by omega) (by omega)]
      simp only [Option.bind_eq_bind, Option.bind_some]
      rw [ptAddSize_ok (by so) (by so) (by so) (by so)]
      simp only [Option.bind_some]
      rw [EllipseContains.new_ok (by so) (by so)]
      rfl
    unfold new EG.EllipseQuadrant.new
    cases q <;> simp only [Option.bind_eq_bind, Option.pure_def, Option.bind_some]
    · exact tail tl (by omega) (by omega)
    · rw [ptSubSize_ok (by so) (by so) (by so) (by so)]
      simp only [Option.bind_some, Int.natCast_zero, Int.sub_zero]
      exact tail _ (by so) (by so)
    · rw [ptSubSize_ok (by omega) (by omega) (by omega) (by omega)]
      simp only [Option.bind_some]
      exact tail _ (by so) (by so)
    · rw [ptSubSize_ok (by so) (by so) (by so) (by so)]
      simp only [Option.bind_some, Int.natCast_zero, Int.sub_zero]
      exact tail _ (by so) (by so)
  · have ha : (EG.EllipseContains.new ⟨radius.w * 2, radius.h * 2⟩).a ≤ 4294967295 := by
      simp only [EG.EllipseContains.new, pow2_nat]; omega
    have hb : (EG.EllipseContains.new ⟨radius.w * 2, radius.h * 2⟩).b ≤ 4294967295 := by
      simp only [EG.EllipseContains.new, pow2_nat]; omega
    unfold EG.EllipseQuadrant.new
    cases q <;>
      exact ⟨by simp only [EG.EllipseQuadrant.ellipseCenter2x]; omega,
        by simp only [EG.EllipseQuadrant.ellipseCenter2x]; omega, ha, hb,
        ⟨by omega, by omega⟩, ⟨by omega, by omega⟩, hw, hh⟩

/-- `EllipseQuadrant::contains` for a probed point within +-8192. -/
theorem contains_ok {e : EG.EllipseQuadrant} (he : QuadOk e) {p : Pt} (hp : RR.probe p) :
    contains e p = some (e.contains p) := by
  obtain ⟨⟨_, _⟩, ⟨_, _⟩⟩ := hp
  obtain ⟨⟨_, _⟩, ⟨_, _⟩, ha, hb, _, _, _, _⟩ := he
  unfold contains EG.EllipseQuadrant.contains
  rw [ptMul_ok (by omega) (by omega)]
  simp only [Option.bind_eq_bind, Option.bind_some]
  rw [ptSub_ok (by so) (by so)]
  simp only [Option.bind_some]
  exact EllipseContains.contains_ok ha hb (by simp only [Pt.sub_x]; omega) (by simp only [Pt.sub_y]; omega)

end EllipseQuadrant

/-! ## `RoundedRectangle` -/

namespace RoundedRect
open EG.CornerRadii

theorem rr_u32 {r : Rect} (h : RR.rect r) : r.size.w ≤ 4294967295 ∧ r.size.h ≤ 4294967295 := by
  obtain ⟨_, _, _, _⟩ := h; omega

/-- `get_confined_corner_quadrant` for a rectangle of the shape domain and ANY `u32` radii. -/
theorem cornerQuadrant_ok {r : EG.RoundedRect} (hr : RR.rect r.rect) (hc : CornerRadii.InU32 r.corners)
    (q : Quadrant) :
    cornerQuadrant r q = some (r.cornerQuadrant q) ∧ QuadOk (r.cornerQuadrant q) := by
  have hu := rr_u32 hr
  have hle := confine_radius_le r.corners r.rect.size
  obtain ⟨⟨_, _⟩, ⟨_, _⟩, _, _⟩ := hr
  obtain ⟨l1, l2, l3, l4, l5, l6, l7, l8⟩ := hle
  unfold cornerQuadrant EG.RoundedRect.cornerQuadrant
  dsimp only
  rw [CornerRadii.confine_ok hc hu.1 hu.2]
  simp only [Option.bind_eq_bind, Option.bind_some]
  cases q <;> simp only
  · exact EllipseQuadrant.new_ok .topLeft (by omega) (by omega) (by omega) (by omega)
  · rw [ptAddSize_ok (by so) (by so) (by so) (by so)]
    simp only [Option.bind_some]
    rw [ptSubSize_ok (by so) (by so) (by so) (by so)]
    simp only [Option.bind_some, Int.natCast_zero, Int.add_zero, Int.sub_zero]
    exact EllipseQuadrant.new_ok .topRight (by so) (by so) (by omega) (by omega)
  · rw [ptAddSize_ok (by omega) (by omega) (by omega) (by omega)]
    simp only [Option.bind_some]
    rw [ptSubSize_ok (by so) (by so) (by so) (by so)]
    simp only [Option.bind_some]
    exact EllipseQuadrant.new_ok .bottomRight (by so) (by so) (by omega) (by omega)
  · rw [ptAddSize_ok (by so) (by so) (by so) (by so)]
    simp only [Option.bind_some]
    rw [ptSubSize_ok (by so) (by so) (by so) (by so)]
    simp only [Option.bind_some, Int.natCast_zero, Int.add_zero, Int.sub_zero]
    exact EllipseQuadrant.new_ok .bottomLeft (by so) (by so) (by omega) (by omega)

/-- `OffsetOutline::offset` for `|offset| <= 2^28`: the saturating radius arithmetic cannot
panic, the rectangle is `Rectangle::offset`. -/
theorem offset_ok {r : EG.RoundedRect} (hr : W.rect r.rect) {o : Int} (ho : W.coord o) :
    offset r o = some (r.offset o) := by
  unfold offset EG.RoundedRect.offset
  rw [Chk.offset_ok hr ho]
  obtain ⟨_, _⟩ := ho
  simp only [Option.bind_eq_bind, Option.bind_some]
  by_cases hpos : o ≥ 0
  · simp only [hpos, ↓reduceIte, i32AsU32_nonneg hpos]; rfl
  · simp only [hpos, ↓reduceIte]
    chk_simp

theorem translate_ok {r : EG.RoundedRect} (h : W.pt r.rect.tl) {d : Pt} (hd : W.pt d) :
    translate r d = some (r.translate d) := by
  unfold translate EG.RoundedRect.translate
  rw [Chk.translate_ok h hd]; rfl

end RoundedRect

/-! ## `RoundedRectangleContains` -/

/-- Every quadrant of the structure is fine and the boxes / rows are those of a rectangle of the
shape domain. -/
structure RRCOk (c : EG.RRContains) : Prop where
  tl : QuadOk c.topLeft
  tr : QuadOk c.topRight
  bl : QuadOk c.bottomLeft
  br : QuadOk c.bottomRight
  rows : -4096 ≤ c.rowsStart ∧ c.rowsEnd ≤ 8192
  cols : -4096 ≤ c.colsStart ∧ c.colsEnd ≤ 8192
  colsLe : c.colsStart ≤ c.colsEnd

namespace RRContains

theorem rowsEnd_eq {r : Rect} (h : RR.rect r) : r.rowsEnd = r.tl.y + r.size.h ∧ r.columnsEnd = r.tl.x + r.size.w := by
  obtain ⟨⟨_, _⟩, ⟨_, _⟩, _, _⟩ := h
  have e1 : satAsI32 r.size.h = r.size.h := by unfold satAsI32; rw [if_pos (by omega)]
  have e2 : satAsI32 r.size.w = r.size.w := by unfold satAsI32; rw [if_pos (by omega)]
  unfold Rect.rowsEnd Rect.columnsEnd
  rw [e1, e2]
  unfold satAddI32
  constructor
  · rw [if_neg (by omega), if_neg (by omega)]
  · rw [if_neg (by omega), if_neg (by omega)]

/-- **`RoundedRectangleContains::new`** (= `Scanlines::new`): rectangle of the shape domain, any
`u32` radii. -/
theorem new_ok {r : EG.RoundedRect} (hr : RR.rect r.rect) (hc : CornerRadii.InU32 r.corners) :
    new r = some (EG.RRContains.new r) ∧ RRCOk (EG.RRContains.new r) := by
  obtain ⟨e1, q1⟩ := RoundedRect.cornerQuadrant_ok hr hc .topLeft
  obtain ⟨e2, q2⟩ := RoundedRect.cornerQuadrant_ok hr hc .topRight
  obtain ⟨e3, q3⟩ := RoundedRect.cornerQuadrant_ok hr hc .bottomLeft
  obtain ⟨e4, q4⟩ := RoundedRect.cornerQuadrant_ok hr hc .bottomRight
  obtain ⟨re, ce⟩ := rowsEnd_eq hr
  have h1 := q1.h; have h2 := q2.h; have h3 := q3.h; have h4 := q4.h
  obtain ⟨⟨_, _⟩, ⟨_, _⟩, _, _⟩ := hr
  constructor
  · unfold new EG.RRContains.new
    rw [e1, e2, e3, e4]
    simp only [Option.bind_eq_bind, Option.bind_some, re]
    chk_simp
  · unfold EG.RRContains.new
    exact ⟨q1, q2, q3, q4, by simp only [re]; omega, by simp only [ce]; omega, by simp only [ce]; omega⟩

theorem leftCorner_ok {c : EG.RRContains} (hc : RRCOk c) {y : Int} {e : EG.EllipseQuadrant}
    (h : c.leftCorner y = some e) : QuadOk e := by
  unfold EG.RRContains.leftCorner at h
  split at h
  · cases h; exact hc.tl
  · split at h
    · cases h; exact hc.bl
    · cases h

theorem rightCorner_ok {c : EG.RRContains} (hc : RRCOk c) {y : Int} {e : EG.EllipseQuadrant}
    (h : c.rightCorner y = some e) : QuadOk e := by
  unfold EG.RRContains.rightCorner at h
  split at h
  · cases h; exact hc.tr
  · split at h
    · cases h; exact hc.br
    · cases h

/-- **`RoundedRectangleContains::contains`** for probed points within +-8192. -/
theorem contains_ok {c : EG.RRContains} (hc : RRCOk c) {p : Pt} (hp : RR.probe p) :
    contains c p = some (c.contains p) := by
  unfold contains EG.RRContains.contains
  split
  · rfl
  · simp only [Option.bind_eq_bind]
    cases hl : c.leftCorner p.y with
    | none =>
      simp only [Option.filter_none, Option.pure_def, Option.bind_some, Bool.not_true,
        Bool.false_eq_true, ↓reduceIte, Option.toList_none, List.nil_append]
      cases hr : c.rightCorner p.y with
      | none => simp
      | some er =>
        by_cases f : p.x ≥ er.colsStart
        · simp [Option.filter, f, EllipseQuadrant.contains_ok (rightCorner_ok hc hr) hp]
        · simp [Option.filter, f]
    | some el =>
      have ql := leftCorner_ok hc hl
      by_cases fl : p.x < el.colsEnd
      · simp only [Option.filter, fl, decide_true, ↓reduceIte, EllipseQuadrant.contains_ok ql hp,
          Option.bind_some, Option.toList_some, List.cons_append, List.nil_append, List.all_cons]
        cases el.contains p
        · simp
        · simp only [Bool.not_true, Bool.false_eq_true, ↓reduceIte, Bool.true_and]
          cases hr : c.rightCorner p.y with
          | none => simp
          | some er =>
            by_cases f : p.x ≥ er.colsStart
            · simp [f, EllipseQuadrant.contains_ok (rightCorner_ok hc hr) hp]
            · simp [f]
      · simp only [Option.filter, fl, decide_false, Bool.false_eq_true, ↓reduceIte, Option.pure_def,
          Option.bind_some, Bool.not_true, Option.toList_none, List.nil_append]
        cases hr : c.rightCorner p.y with
        | none => simp
        | some er =>
          by_cases f : p.x ≥ er.colsStart
          · simp [f, EllipseQuadrant.contains_ok (rightCorner_ok hc hr) hp]
          · simp [f]

theorem quad_cols {e : EG.EllipseQuadrant} (he : QuadOk e) :
    e.colsStart = e.bbox.tl.x ∧ e.colsEnd = e.bbox.tl.x + e.bbox.size.w := by
  obtain ⟨_, _, _, _, ⟨_, _⟩, ⟨_, _⟩, _, _⟩ := he
  have e2 : satAsI32 e.bbox.size.w = e.bbox.size.w := by unfold satAsI32; rw [if_pos (by omega)]
  unfold EG.EllipseQuadrant.colsStart EG.EllipseQuadrant.colsEnd Rect.columnsEnd
  rw [e2]
  unfold satAddI32
  refine ⟨rfl, ?_⟩
  rw [if_neg (by omega), if_neg (by omega)]

/-- `x_start` of a row within +-8192. -/
theorem xStart_ok {c : EG.RRContains} (hc : RRCOk c) {y : Int} (hy : -8192 ≤ y ∧ y ≤ 8192) :
    xStart c y = some (c.xStart y) := by
  unfold xStart EG.RRContains.xStart
  cases hl : c.leftCorner y with
  | none => rfl
  | some e =>
    have q := leftCorner_ok hc hl
    obtain ⟨cs, ce⟩ := quad_cols q
    have b1 := q.tlx; have b2 := q.w
    simp only [Option.map_some, Option.getD_some]
    rw [rangeFind_ok (p := fun x => e.contains ⟨x, y⟩) (by
      intro x h1 h2
      exact EllipseQuadrant.contains_ok q ⟨⟨by so, by so⟩, hy⟩)]
    rfl

/-- `x_end` of a row within +-8192. -/
theorem xEnd_ok {c : EG.RRContains} (hc : RRCOk c) {y : Int} (hy : -8192 ≤ y ∧ y ≤ 8192) :
    xEnd c y = some (c.xEnd y) := by
  unfold xEnd EG.RRContains.xEnd
  cases hr : c.rightCorner y with
  | none => rfl
  | some e =>
    have q := rightCorner_ok hc hr
    obtain ⟨cs, ce⟩ := quad_cols q
    have b1 := q.tlx; have b2 := q.w
    simp only [Option.map_some, Option.getD_some]
    rw [rangeRFind_ok (p := fun x => e.contains ⟨x, y⟩) (by
      intro x h1 h2
      exact EllipseQuadrant.contains_ok q ⟨⟨by so, by so⟩, hy⟩)]
    simp only [Option.bind_eq_bind, Option.bind_some]
    cases hf : EG.rangeRFind (fun x => e.contains ⟨x, y⟩) e.colsStart e.colsEnd with
    | none => rfl
    | some x =>
      obtain ⟨hx, hx2, _, _⟩ := rangeRFind_some.1 hf
      simp only [Option.map_some, Option.getD_some]
      exact chkI32_ok (by omega) (by omega)

/-- The scanline of a row. -/
theorem row_ok {c : EG.RRContains} (hc : RRCOk c) {y : Int} (hy : -8192 ≤ y ∧ y ≤ 8192) :
    row c y = some (c.row y) := by
  unfold row EG.RRContains.row
  rw [xStart_ok hc hy, xEnd_ok hc hy]; rfl

/-- Both ends of every row's scanline lie within the column range of the shape domain. -/
theorem row_bounds {c : EG.RRContains} (hc : RRCOk c) (y : Int) :
    (-4096 ≤ (c.row y).xs ∧ (c.row y).xs ≤ 8192) ∧ (-4096 ≤ (c.row y).xe ∧ (c.row y).xe ≤ 8192) := by
  have hcols := hc.cols
  constructor
  · unfold EG.RRContains.row EG.RRContains.xStart
    simp only
    cases hl : c.leftCorner y with
    | none =>
      simp only [Option.map_none, Option.getD_none]
      have h1 := hc.colsLe
      omega
    | some e =>
      have q := leftCorner_ok hc hl
      obtain ⟨cs, ce⟩ := quad_cols q
      have b1 := q.tlx; have b2 := q.w
      simp only [Option.map_some, Option.getD_some]
      cases hf : EG.rangeFind (fun x => e.contains ⟨x, y⟩) e.colsStart e.colsEnd with
      | none => simp only [Option.getD_none]; omega
      | some x =>
        obtain ⟨h1, h2, _, _⟩ := rangeFind_some.1 hf
        simp only [Option.getD_some]; omega
  · unfold EG.RRContains.row EG.RRContains.xEnd
    simp only
    cases hr : c.rightCorner y with
    | none =>
      simp only [Option.map_none, Option.getD_none]
      have h1 := hc.colsLe
      omega
    | some e =>
      have q := rightCorner_ok hc hr
      obtain ⟨cs, ce⟩ := quad_cols q
      have b1 := q.tlx; have b2 := q.w
      simp only [Option.map_some, Option.getD_some]
      cases hf : EG.rangeRFind (fun x => e.contains ⟨x, y⟩) e.colsStart e.colsEnd with
      | none => simp only [Option.map_none, Option.getD_none]; omega
      | some x =>
        obtain ⟨h1, h2, _, _⟩ := rangeRFind_some.1 hf
        simp only [Option.map_some, Option.getD_some]; omega

/-- **`Scanlines::next`**: one step, and the invariant is kept. -/
theorem next_ok {c : EG.RRContains} (hc : RRCOk c) :
    next c = some c.next ∧ ∀ s c', c.next = some (s, c') → RRCOk c' := by
  have hr := hc.rows
  constructor
  · unfold next EG.RRContains.next
    split
    · rw [row_ok hc (by omega)]; rfl
    · rfl
  · intro s c' h
    unfold EG.RRContains.next at h
    split at h
    · cases h
      exact ⟨hc.tl, hc.tr, hc.bl, hc.br, by so, hc.cols, hc.colsLe⟩
    · cases h

/-- `fill_range` of `StyledScanlines::next`: the fill area probed along a stroke scanline whose
ends are within +-8192. -/
theorem fillRange_ok {f : EG.RRContains} (hf : RRCOk f) {s : EG.Scanline}
    (hxs : -8192 ≤ s.xs) (hxe : s.xe ≤ 8192) :
    fillRange f s = some (
      if f.rowsStart ≤ s.y ∧ s.y < f.rowsEnd then
        match EG.rangeFind (fun x => f.contains ⟨x, s.y⟩) s.xs s.xe,
              (EG.rangeRFind (fun x => f.contains ⟨x, s.y⟩) s.xs s.xe).map (· + 1) with
        | some a, some b => some (a, b)
        | _, _ => none
      else none) := by
  have hr := hf.rows
  unfold fillRange
  split
  · rename_i hy
    have hp : ∀ x, s.xs ≤ x → x < s.xe → contains f ⟨x, s.y⟩ = some (f.contains ⟨x, s.y⟩) := by
      intro x h1 h2
      exact contains_ok hf ⟨⟨by so, by so⟩, ⟨by so, by so⟩⟩
    rw [rangeFind_ok (p := fun x => f.contains ⟨x, s.y⟩) hp,
      rangeRFind_ok (p := fun x => f.contains ⟨x, s.y⟩) hp]
    simp only [Option.bind_eq_bind, Option.bind_some]
    cases hb : EG.rangeRFind (fun x => f.contains ⟨x, s.y⟩) s.xs s.xe with
    | none => simp
    | some x =>
      obtain ⟨hx, hx2, _, _⟩ := rangeRFind_some.1 hb
      simp only [Option.bind_some, Option.pure_def, Option.map_some]
      rw [chkI32_ok (by omega) (by omega)]
      simp only [Option.bind_some]
      cases EG.rangeFind (fun x => f.contains ⟨x, s.y⟩) s.xs s.xe <;> rfl
  · rfl

end RRContains

/-- **`RoundedRectangle::contains`**: rectangle of the shape domain, any `u32` radii, probed
points within +-8192. -/
theorem RoundedRect.contains_ok {r : EG.RoundedRect} (hr : RR.rect r.rect)
    (hc : CornerRadii.InU32 r.corners) {p : Pt} (hp : RR.probe p) :
    RoundedRect.contains r p = some (r.contains p) := by
  obtain ⟨e, ok⟩ := RRContains.new_ok hr hc
  unfold RoundedRect.contains EG.RoundedRect.contains
  rw [e]
  simp only [Option.bind_eq_bind, Option.bind_some]
  exact RRContains.contains_ok ok hp

end EG.Chk
