/-
  EG.Lemmas.ThickGeoBand — how far from the ideal line a stroked line reaches.
  A parallel in band `n` is fetched after `2|n| - 1` (left) or `2|n|` (right) other parallels, at a
  moment when `acc^2 <= threshold`; every earlier parallel has added `2 D` to the accumulator,
  except the `Extra` ones, which add only `2 d` although they, too, move the stroke one full band
  (`D / L` px) outwards. Hence, with `E` the number of `Extra` parallels of the run,
      4 D |n| <= acc + D - d + 2 (D - d) E,      acc <= 2 w L,
  and a pixel of band `n` has `2 |cross| <= 2 D |n| + D`.
-/
import EG.Lemmas.ThickGeoHole
import EG.Lemmas.ThickTotal
set_option linter.unusedSimpArgs false
set_option linter.unnecessarySeqFocus false
namespace EG
namespace Thick
open ParallelsIterator StrokeCtx Line

/-- Number of `Extra` parallels in a list of parallels. -/
def exCount : List ParItem → Int
  | [] => 0
  | x :: xs => (if x.2.2 = .extra then 1 else 0) + exCount xs

theorem exCount_nonneg : ∀ xs : List ParItem, 0 ≤ exCount xs
  | [] => Int.le_refl _
  | x :: xs => by
    have := exCount_nonneg xs
    unfold exCount
    split <;> omega

/-- **Every parallel of the run is fetched while the accumulator is below the threshold, after
`2|n| - 1` resp. `2|n|` parallels that have each been counted.** -/
theorem run_upper (c : StrokeCtx) (hv : c.Valid) (fl : Bool) (hfr : c.FrameOK fl) (s : Pt) (T : Int)
    {it : ParallelsIterator} {xs : List ParItem} (hrun : Run it xs) :
    ∀ (iL jR : Nat) (e0 : Int), NInv c s fl it iL jR → SideOK it iL jR → it.thicknessThreshold = T →
    c.D + c.d + 2 * c.D * ((iL : Int) + jR) - 2 * (c.D - c.d) * e0 ≤ it.thicknessAccumulator →
    ∀ x ∈ xs, ∃ (n a : Int), ParOK c s (c.ph c.M' * n) x.2.1 x.2.2 ∧ a * a ≤ T ∧
      (0 < n → c.D + c.d + 2 * c.D * (2 * n - 1) - 2 * (c.D - c.d) * (e0 + exCount xs) ≤ a) ∧
      (n ≤ 0 → c.D + c.d + 2 * c.D * (-(2 * n)) - 2 * (c.D - c.d) * (e0 + exCount xs) ≤ a) := by
  have hD := hv.hD
  have hdD := hv.hdD
  induction hrun with
  | done _ => intro _ _ _ _ _ _ _ x hx; cases hx
  | @step it it' b ty xs hn _ ih =>
    intro iL jR e0 hg hside hT hA x hx
    obtain ⟨hsw, hcase⟩ := next_geo c hv fl hfr s it it' iL jR hg b ty hn
    obtain ⟨a1, a2, a3⟩ := next_acc c it it' b ty hg.hperp hn
    have hex0 := exCount_nonneg xs
    have hexc : exCount ((it.nextSide, b, ty) :: xs) =
        (if ty = .extra then 1 else 0) + exCount xs := rfl
    have hstep : accStep c ty = 2 * c.D - 2 * (c.D - c.d) * (if ty = .extra then 1 else 0) := by
      cases ty <;> simp [accStep] <;> omega
    have hmono : (c.D - c.d) * e0 ≤
        (c.D - c.d) * (e0 + exCount ((it.nextSide, b, ty) :: xs)) := by
      apply Int.mul_le_mul_of_nonneg_left _ (by omega)
      rw [hexc]; split <;> omega
    have hdist : (c.D - c.d) * (e0 + exCount ((it.nextSide, b, ty) :: xs)) =
        (c.D - c.d) * (e0 + (if ty = .extra then 1 else 0) + exCount xs) := by
      rw [hexc, Int.add_assoc]
    rcases hcase with ⟨hs, hg', hok⟩ | ⟨hs, hg', hok⟩
    · have hjR : jR = iL + 1 := by
        rcases hside with ⟨h1, _⟩ | ⟨_, h2⟩
        · rw [hs] at h1; cases h1
        · exact h2
      rcases List.mem_cons.mp hx with rfl | hx
      · refine ⟨(iL : Int) + 1, it.thicknessAccumulator, hok, by rw [← hT]; omega, ?_, ?_⟩
        · intro _
          have : 2 * c.D * (2 * ((iL : Int) + 1) - 1) = 2 * c.D * ((iL : Int) + jR) := by
            rw [hjR]; push_cast; congr 1; omega
          rw [this]
          have h3 : 2 * (c.D - c.d) * e0 = 2 * ((c.D - c.d) * e0) := Int.mul_assoc _ _ _
          have h4 : 2 * (c.D - c.d) * (e0 + exCount ((it.nextSide, b, ty) :: xs)) =
            2 * ((c.D - c.d) * (e0 + exCount ((it.nextSide, b, ty) :: xs))) := Int.mul_assoc _ _ _
          omega
        · intro h0; omega
      · have hA' : c.D + c.d + 2 * c.D * (((iL + 1 : Nat) : Int) + jR) -
            2 * (c.D - c.d) * (e0 + (if ty = .extra then 1 else 0)) ≤ it'.thicknessAccumulator := by
          rw [a3, hstep]
          push_cast
          have h5 : 2 * c.D * ((iL : Int) + 1 + jR) = 2 * c.D * ((iL : Int) + jR) + 2 * c.D := by
            rw [Int.mul_add, Int.mul_add, Int.mul_add]; omega
          have h6 : 2 * (c.D - c.d) * (e0 + (if ty = .extra then 1 else 0)) =
              2 * (c.D - c.d) * e0 + 2 * (c.D - c.d) * (if ty = .extra then 1 else 0) := Int.mul_add _ _ _
          omega
        obtain ⟨n, a, g1, g2, g3, g4⟩ := ih (iL + 1) jR _ hg'
          (Or.inl ⟨by rw [hsw, hs]; rfl, hjR⟩) (by rw [a2, hT]) hA' x hx
        refine ⟨n, a, g1, g2, ?_, ?_⟩
        · intro h0; have := g3 h0; rw [hexc, ← Int.add_assoc]; exact this
        · intro h0; have := g4 h0; rw [hexc, ← Int.add_assoc]; exact this
    · have hjR : jR = iL := by
        rcases hside with ⟨_, h2⟩ | ⟨h1, _⟩
        · exact h2
        · rw [hs] at h1; cases h1
      rcases List.mem_cons.mp hx with rfl | hx
      · refine ⟨-(jR : Int), it.thicknessAccumulator, by rw [Int.mul_neg]; exact hok,
          by rw [← hT]; omega, ?_, ?_⟩
        · intro h0; omega
        · intro _
          have : 2 * c.D * (-(2 * -(jR : Int))) = 2 * c.D * ((iL : Int) + jR) := by
            rw [hjR]; congr 1; omega
          rw [this]
          have h3 : 2 * (c.D - c.d) * e0 = 2 * ((c.D - c.d) * e0) := Int.mul_assoc _ _ _
          have h4 : 2 * (c.D - c.d) * (e0 + exCount ((it.nextSide, b, ty) :: xs)) =
            2 * ((c.D - c.d) * (e0 + exCount ((it.nextSide, b, ty) :: xs))) := Int.mul_assoc _ _ _
          omega
      · have hA' : c.D + c.d + 2 * c.D * ((iL : Int) + ((jR + 1 : Nat) : Int)) -
            2 * (c.D - c.d) * (e0 + (if ty = .extra then 1 else 0)) ≤ it'.thicknessAccumulator := by
          rw [a3, hstep]
          push_cast
          have h5 : 2 * c.D * ((iL : Int) + (jR + 1)) = 2 * c.D * ((iL : Int) + jR) + 2 * c.D := by
            rw [Int.mul_add, Int.mul_add, Int.mul_add]; omega
          have h6 : 2 * (c.D - c.d) * (e0 + (if ty = .extra then 1 else 0)) =
              2 * (c.D - c.d) * e0 + 2 * (c.D - c.d) * (if ty = .extra then 1 else 0) := Int.mul_add _ _ _
          omega
        obtain ⟨n, a, g1, g2, g3, g4⟩ := ih iL (jR + 1) _ hg'
          (Or.inr ⟨by rw [hsw, hs]; rfl, by omega⟩) (by rw [a2, hT]) hA' x hx
        refine ⟨n, a, g1, g2, ?_, ?_⟩
        · intro h0; have := g3 h0; rw [hexc, ← Int.add_assoc]; exact this
        · intro h0; have := g4 h0; rw [hexc, ← Int.add_assoc]; exact this

/-- The run of an iterator state is unique. -/
theorem run_unique {it : ParallelsIterator} {xs ys : List ParItem} (h1 : Run it xs) (h2 : Run it ys) :
    xs = ys := by
  induction h1 generalizing ys with
  | done hn =>
    cases h2 with
    | done _ => rfl
    | step hn' _ => rw [hn] at hn'; cases hn'
  | step hn _ ih =>
    cases h2 with
    | done hn' => rw [hn] at hn'; cases hn'
    | step hn' hr' =>
      rw [hn] at hn'
      simp only [Option.some.injEq, Prod.mk.injEq] at hn'
      obtain ⟨⟨rfl, rfl⟩, rfl⟩ := hn'
      rw [ih hr']

/-- `E` is the number of `Extra` parallels the iterator of the stroke yields. -/
def ExtraParallels (l : Line) (w : Nat) (E : Int) : Prop :=
  ∃ it xs, ParallelsIterator.new l (satAsI32 w) .none = some it ∧ Run it xs ∧ E = exCount xs

theorem extraParallels_unique (l : Line) (w : Nat) (E E' : Int) (h : ExtraParallels l w E)
    (h' : ExtraParallels l w E') : E = E' := by
  obtain ⟨it, xs, h1, h2, rfl⟩ := h
  obtain ⟨it', xs', h1', h2', rfl⟩ := h'
  rw [h1] at h1'
  simp only [Option.some.injEq] at h1'
  subst h1'
  rw [run_unique h2 h2']

/-- An axis-parallel stroke has no `Extra` parallel. -/
theorem exCount_zero (c : StrokeCtx) (s : Pt) (hd : c.d = 0) :
    ∀ xs : List ParItem, (∀ x ∈ xs, ∃ K, ParOK c s K x.2.1 x.2.2) → exCount xs = 0
  | [], _ => rfl
  | x :: xs, h => by
    unfold exCount
    rw [exCount_zero c s hd xs (fun y hy => h y (List.mem_cons_of_mem _ hy))]
    obtain ⟨K, _, _, _, hx⟩ := h x List.mem_cons_self
    split
    · rename_i hty; have := (hx hty).2.1; omega
    · rfl

/-- **How far from the ideal line the stroke reaches**: for every pixel `q`, with
`X = ph q - ph start = -+ 2 cross(q)` and `E` the number of `Extra` parallels, there is an
accumulator value `a` with `a^2 <= (2 w)^2 L2` and `2 |X| <= a + 3 D - d + 2 (D - d) E`. -/
theorem thickPoints_reach (l : Line) (w : Nat) (hw2 : w ≤ 2147483647) (ps : List Pt)
    (hps : thickPoints l w = some ps) :
    ∃ E, ExtraParallels l w E ∧ 0 ≤ E ∧ ((ctxOf l).d = 0 → E = 0) ∧ ∀ q ∈ ps, ∃ a : Int,
      a * a ≤ (w : Int) * 2 * ((w : Int) * 2) *
        ((ctxOf l).D * (ctxOf l).D + (ctxOf l).d * (ctxOf l).d) ∧
      2 * ((ctxOf l).ph q - (ctxOf l).ph l.start) ≤
        a + 3 * (ctxOf l).D - (ctxOf l).d + 2 * ((ctxOf l).D - (ctxOf l).d) * E ∧
      -(2 * ((ctxOf l).ph q - (ctxOf l).ph l.start)) ≤
        a + 3 * (ctxOf l).D - (ctxOf l).d + 2 * ((ctxOf l).D - (ctxOf l).d) * E := by
  have hv := ctxOf_valid l
  have hD := hv.hD
  have hd0 := hv.hd0
  have hdD := hv.hdD
  have hfr := frameOK_ctxOf l
  have hsat : satAsI32 w = (w : Int) := by unfold satAsI32; simp only [hw2, ↓reduceIte]
  obtain ⟨it0, hnew0, hside, hg, hacc, hthr⟩ := new_ninv l (satAsI32 w)
  obtain ⟨xs0, hrun0⟩ : ∃ xs, Run it0 xs := by
    by_cases hw : w = 0
    · -- width 0: the threshold is 0, the iterator is finished at once
      refine ⟨[], Run.done (it' := it0) (next_done it0 ?_)⟩
      rw [hthr, hacc, hsat, hw]
      simp only [Nat.cast_zero, Int.zero_mul, gt_iff_lt]
      have : 0 < (ctxOf l).D + (ctxOf l).d := by omega
      exact Int.mul_pos this this
    · obtain ⟨ps', hps'⟩ := thickPoints_total l w
      obtain ⟨it, xs, hnew, hrun, _⟩ := thickPoints_run l w hw ps' hps'
      rw [hnew0] at hnew
      simp only [Option.some.injEq] at hnew
      subst hnew
      exact ⟨xs, hrun⟩
  obtain ⟨hall, _⟩ := run_bands (ctxOf l) hv _ hfr l.start hrun0 0 0 hg
  refine ⟨exCount xs0, ⟨it0, xs0, hnew0, hrun0, rfl⟩, exCount_nonneg _, ?_, ?_⟩
  · intro hd
    exact exCount_zero (ctxOf l) l.start hd xs0 (fun x hx => by
      obtain ⟨n, _, hn⟩ := hall x hx; exact ⟨_, hn⟩)
  by_cases hw : w = 0
  · rw [hw, thickPoints_width0] at hps
    simp only [Option.some.injEq] at hps
    subst hps; intro q hq; cases hq
  obtain ⟨it, xs, hnew, hrun, rfl⟩ := thickPoints_run l w hw ps hps
  rw [hnew0] at hnew
  simp only [Option.some.injEq] at hnew
  subst hnew
  have hxs : xs = xs0 := run_unique hrun hrun0
  subst hxs
  rw [hsat, L2_eq] at hthr
  intro q hq
  obtain ⟨x, hx, hqx⟩ := List.mem_flatMap.mp hq
  obtain ⟨n, a, hok, ha, hn1, hn2⟩ := run_upper (ctxOf l) hv _ hfr l.start _ hrun 0 0 0 hg
    (Or.inl ⟨hside, rfl⟩) hthr (by rw [hacc]; simp) x hx
  obtain ⟨b1, b2⟩ := parPts_band hv hok _ q hqx
  refine ⟨a, ha, ?_, ?_⟩
  all_goals
    simp only [Int.zero_add] at hn1 hn2
    rcases tau_cases hfr with ht | ht <;> rw [ht] at b1 b2 <;>
      by_cases h0 : 0 < n
    all_goals
      first
      | (have h3 := hn1 h0
         have : (ctxOf l).D * 1 ≤ (ctxOf l).D * n := Int.mul_le_mul_of_nonneg_left (by omega) (by omega)
         nlinarith)
      | (have h3 := hn2 (by omega)
         have : (ctxOf l).D * n ≤ (ctxOf l).D * 0 := Int.mul_le_mul_of_nonneg_left (by omega) (by omega)
         nlinarith)

end Thick
end EG
