/-
  EG.Lemmas.ThickWidth1 — a stroked line of width 1 yields exactly `Line::points()`.
-/
import EG.Lemmas.LineProps
import EG.Model.ThickLine
namespace EG
namespace Thick
open ParallelsIterator

/-- Skipping the centre line in `ParallelsIterator::new`: with `left = (start, 0)` the first
perpendicular point is `Normal`, so `next_parallel(Left)` returns at once and only touches `left`. -/
theorem nextParallel_left_fresh (it : ParallelsIterator) (start : Pt)
    (hl : it.left = ⟨start, 0⟩) (hthr : 0 ≤ it.perpendicularParameters.errorThreshold) :
    it.nextParallel .left =
      some ((.normal start, it.leftError),
        { it with left := ⟨start + it.perpendicularParameters.positionStep.major,
                           0 + it.perpendicularParameters.errorStep.major⟩ }) := by
  have hc : ¬ ((0 : Int) > it.perpendicularParameters.errorThreshold) := by omega
  simp only [nextParallel, loopFuel, nextParallelFuel, Bresenham.nextAll, hl, hc, ↓reduceIte, sideError]

/-- The first parallel on the right side with `right = (start, 0)`: `Normal(start)`, error 0. -/
theorem nextParallel_right_fresh (it : ParallelsIterator) (start : Pt)
    (hr : it.right = ⟨start, 0⟩) (hthr : 0 < it.perpendicularParameters.errorThreshold) :
    it.nextParallel .right =
      some ((.normal start, it.rightError),
        { it with right := ⟨start - it.perpendicularParameters.positionStep.major,
                            0 - it.perpendicularParameters.errorStep.major⟩ }) := by
  have hc : ¬ ((0 : Int) ≤ -it.perpendicularParameters.errorThreshold) := by omega
  simp only [nextParallel, loopFuel, nextParallelFuel, Bresenham.previousAll, hr, hc, ↓reduceIte,
    sideError]

/-- First call of `ParallelsIterator::next` in the fresh state (side `Right`, `right = (start, 0)`,
accumulator still below the threshold): the centre line itself, as a `Normal` parallel. -/
theorem next_first (it : ParallelsIterator) (start : Pt)
    (hr : it.right = ⟨start, 0⟩) (hre : it.rightError = 0) (hs : it.nextSide = .right)
    (hso : it.strokeOffset = .none)
    (hthr : 0 < it.perpendicularParameters.errorThreshold)
    (hacc : ¬ it.thicknessAccumulator * it.thicknessAccumulator > it.thicknessThreshold) :
    ∃ it1 : ParallelsIterator,
      it.next = some (some (⟨start, 0⟩, .normal), it1) ∧
      it1.parallelParameters = it.parallelParameters ∧
      it1.thicknessThreshold = it.thicknessThreshold ∧
      it1.thicknessAccumulator =
        it.thicknessAccumulator + it.perpendicularParameters.errorStep.minor := by
  refine ⟨{ it with
      right := ⟨start - it.perpendicularParameters.positionStep.major,
                0 - it.perpendicularParameters.errorStep.major⟩
      thicknessAccumulator := it.thicknessAccumulator + it.perpendicularParameters.errorStep.minor
      nextSide := .left }, ?_, rfl, rfl, rfl⟩
  unfold ParallelsIterator.next
  rw [if_neg hacc, hs, nextParallel_right_fresh it start hr hthr]
  simp only [hre, hso, ↓reduceIte, Bresenham.withInitialError, hs, LineSide.swap]

/-- Once the accumulator exceeds the threshold the parallels iterator is finished. -/
theorem next_done (it : ParallelsIterator)
    (hacc : it.thicknessAccumulator * it.thicknessAccumulator > it.thicknessThreshold) :
    it.next = some (none, it) := by
  unfold ParallelsIterator.next
  rw [if_pos hacc]

namespace ThickPointsIt

/-- While points of the current parallel remain, `ThickPoints::next` is `line::Points::next` on
the parallel. -/
theorem next_running (it : ThickPointsIt) (h : it.parallelPointsRemaining > 0) :
    it.next = some (some ((it.parallel.next it.iter.parallelParameters).1,
      { it with parallelPointsRemaining := it.parallelPointsRemaining - 1,
                parallel := (it.parallel.next it.iter.parallelParameters).2 })) := by
  simp only [next, loopFuel, nextFuel, h, ↓reduceIte]

/-- Draining the last parallel: the remaining points of that parallel, then the end. -/
theorem drainFuel_last_parallel (pp : BresenhamParameters) (len : Nat) (iter : ParallelsIterator)
    (hpp : iter.parallelParameters = pp)
    (hdone : iter.thicknessAccumulator * iter.thicknessAccumulator > iter.thicknessThreshold) :
    ∀ (r fuel : Nat) (b : Bresenham), r < fuel →
      drainFuel fuel ⟨b, len, r, iter⟩ = some (Line.PointsIt.toListFuel r ⟨pp, b, r⟩) := by
  intro r
  induction r with
  | zero =>
    intro fuel b hf
    obtain ⟨f, rfl⟩ : ∃ f, fuel = f + 1 := ⟨fuel - 1, by omega⟩
    simp only [drainFuel, next, loopFuel, nextFuel, Nat.lt_irrefl, ↓reduceIte, next_done iter hdone,
      Line.PointsIt.toListFuel]
  | succ r ih =>
    intro fuel b hf
    obtain ⟨f, rfl⟩ : ∃ f, fuel = f + 1 := ⟨fuel - 1, by omega⟩
    rw [drainFuel, next_running _ (by simp)]
    simp only [Nat.add_sub_cancel, hpp]
    rw [ih f _ (by omega)]
    simp only [Line.PointsIt.toListFuel, Line.PointsIt.next, Nat.zero_lt_succ, ↓reduceIte,
      Nat.add_sub_cancel]

/-- Width-1 core: from the fresh state the iterator yields the centre line (as a walk with the
parallel parameters) and stops. -/
theorem drainFuel_width1 (iter : ParallelsIterator) (start : Pt) (len : Nat) (hlen : 0 < len)
    (hr : iter.right = ⟨start, 0⟩) (hre : iter.rightError = 0) (hs : iter.nextSide = .right)
    (hso : iter.strokeOffset = .none)
    (hthr : 0 < iter.perpendicularParameters.errorThreshold)
    (hacc : ¬ iter.thicknessAccumulator * iter.thicknessAccumulator > iter.thicknessThreshold)
    (hacc1 : (iter.thicknessAccumulator + iter.perpendicularParameters.errorStep.minor) *
        (iter.thicknessAccumulator + iter.perpendicularParameters.errorStep.minor) >
        iter.thicknessThreshold)
    (b0 : Bresenham) (fuel : Nat) (hf : len < fuel) :
    drainFuel fuel ⟨b0, len, 0, iter⟩ =
      some (Line.PointsIt.toListFuel len ⟨iter.parallelParameters, ⟨start, 0⟩, len⟩) := by
  obtain ⟨it1, hn, h1, h2, h3⟩ := next_first iter start hr hre hs hso hthr hacc
  have hdone : it1.thicknessAccumulator * it1.thicknessAccumulator > it1.thicknessThreshold := by
    rw [h2, h3]; exact hacc1
  obtain ⟨f, rfl⟩ : ∃ f, fuel = f + 1 := ⟨fuel - 1, by omega⟩
  obtain ⟨n, rfl⟩ : ∃ n, len = n + 1 := ⟨len - 1, by omega⟩
  have hstep : ThickPointsIt.next ⟨b0, n + 1, 0, iter⟩ =
      ThickPointsIt.next ⟨⟨start, 0⟩, n + 1, n + 1, it1⟩ := by
    simp only [next, loopFuel, nextFuel, Nat.lt_irrefl, ↓reduceIte, hn, Nat.zero_lt_succ]
    rfl
  have := drainFuel_last_parallel iter.parallelParameters (n + 1) it1 h1 hdone (n + 1) (f + 1)
    ⟨start, 0⟩ (by omega)
  rw [← this]
  unfold drainFuel
  rw [hstep]

end ThickPointsIt

/-! ## The parameters of a width-1 stroke -/

open Line in
theorem dmaj_perpendicular (m : Line) : dmaj m.perpendicular = dmaj m := by
  unfold dmaj yMajor aabs dxOf dyOf Line.perpendicular
  simp only [Pt.add_x, Pt.add_y, Pt.sub_x, Pt.sub_y]
  omega

theorem aabs_mul_self (a : Int) : Line.aabs a * Line.aabs a = a * a := by
  unfold Line.aabs
  by_cases h : a < 0
  · simp only [h, ↓reduceIte, Int.neg_mul_neg]
  · simp only [h, ↓reduceIte]

open Line in
theorem dmaj_dmin_squares (m : Line) :
    dmaj m * dmaj m + dmin m * dmin m = dxOf m * dxOf m + dyOf m * dyOf m := by
  unfold dmaj dmin
  by_cases h : yMajor m
  · simp only [h, ↓reduceIte, aabs_mul_self]; omega
  · simp only [h, ↓reduceIte, aabs_mul_self]

theorem sq_expand1 (D d : Int) : (D + d) * (D + d) = D * D + 2 * (D * d) + d * d := by grind
theorem sq_expand2 (D d : Int) :
    (D + d + 2 * D) * (D + d + 2 * D) = 9 * (D * D) + 6 * (D * d) + d * d := by grind

/-- `(dmaj + dmin)^2 ≤ (2·1)^2 (dx^2 + dy^2) < (dmaj + dmin + 2 dmaj)^2`: the accumulator admits the
centre line and nothing else. -/
theorem width1_arith (D d S : Int) (hd0 : 0 ≤ d) (hdD : d ≤ D) (hD : 0 < D)
    (hS : S = D * D + d * d) :
    ¬ ((D + d) * (D + d) > 1 * 2 * (1 * 2) * S) ∧
      (D + d + 2 * D) * (D + d + 2 * D) > 1 * 2 * (1 * 2) * S := by
  have h1 : D * d ≤ D * D := Int.mul_le_mul_of_nonneg_left hdD (by omega)
  have h2 : 0 ≤ D * d := Int.mul_nonneg (by omega) hd0
  have h3 : 0 ≤ d * d := Int.mul_nonneg hd0 hd0
  have h4 : 0 < D * D := Int.mul_pos hD hD
  have h5 : d * d ≤ D * d := Int.mul_le_mul_of_nonneg_right hdD hd0
  rw [sq_expand1, sq_expand2, hS]
  refine ⟨?_, ?_⟩ <;> omega

/-- The line that determines the Bresenham parameters of the stroke (`HORIZONTAL_LINE` for a
zero-length line). -/
def paramLine (l : Line) : Line := if l.start = l.stop then horizontalLine else l

theorem paramLine_nondeg (l : Line) : (paramLine l).start ≠ (paramLine l).stop := by
  unfold paramLine
  by_cases h : l.start = l.stop
  · simp only [h, ↓reduceIte, horizontalLine]; decide
  · simp only [h, ↓reduceIte]; exact h

theorem dmaj_paramLine_pos (l : Line) : 0 < Line.dmaj (paramLine l) := by
  have h1 := Line.dmaj_nonneg (paramLine l)
  have h2 := paramLine_nondeg l
  have h3 : Line.dmaj (paramLine l) ≠ 0 := fun h => h2 ((Line.dmaj_zero_iff _).mp h)
  omega

/-- `ParallelsIterator::new(line, t, StrokeOffset::None)` for any thickness: the fields that the
first call of `next` reads. -/
theorem new_any (l : Line) (t : Int) :
    ∃ iter, ParallelsIterator.new l t .none = some iter ∧
      iter.right = ⟨l.start, 0⟩ ∧ iter.rightError = 0 ∧ iter.nextSide = .right ∧
      iter.strokeOffset = .none ∧
      iter.parallelParameters = BresenhamParameters.new (paramLine l) ∧
      iter.perpendicularParameters = BresenhamParameters.new (paramLine l).perpendicular ∧
      iter.thicknessAccumulator = Line.dmaj (paramLine l) + Line.dmin (paramLine l) ∧
      iter.thicknessThreshold =
        t * 2 * (t * 2) * (Line.dxOf (paramLine l) * Line.dxOf (paramLine l) +
          Line.dyOf (paramLine l) * Line.dyOf (paramLine l)) := by
  have hthr : 0 ≤ (BresenhamParameters.new (paramLine l).perpendicular).errorThreshold := by
    rw [Line.params_new]; exact Line.dmaj_nonneg _
  unfold ParallelsIterator.new
  simp only [LineSide.swap]
  rw [nextParallel_left_fresh _ l.start rfl hthr]
  refine ⟨_, rfl, rfl, rfl, rfl, rfl, rfl, rfl, ?_, ?_⟩
  · show tdiv2 ((BresenhamParameters.new (paramLine l)).errorStep.minor +
        (BresenhamParameters.new (paramLine l)).errorStep.major) = _
    rw [Line.params_new]
    have := Line.dmin_nonneg (paramLine l)
    have := Line.dmaj_nonneg (paramLine l)
    unfold tdiv2
    simp only
    omega
  · rfl

/-- The walk with the parameters of `paramLine l` from `l.start` is `Line::points()`. -/
theorem centre_walk (l : Line) :
    Line.PointsIt.toListFuel (majorLength l)
      ⟨BresenhamParameters.new (paramLine l), ⟨l.start, 0⟩, majorLength l⟩ = Line.points l := by
  by_cases h : l.start = l.stop
  · obtain ⟨s, e⟩ := l
    simp only at h
    subst h
    rw [Line.points_zero_length]
    have hl : majorLength ⟨s, s⟩ = 1 := by
      rw [Line.majorLength_eq, (Line.dmaj_zero_iff _).mpr rfl]; rfl
    rw [hl]
    have hp : paramLine ⟨s, s⟩ = horizontalLine := by simp [paramLine]
    rw [hp]
    simp [Line.PointsIt.toListFuel, Line.PointsIt.next, Bresenham.next, BresenhamParameters.new,
      horizontalLine, Pt.abs]
  · have hp : paramLine l = l := by simp [paramLine, h]
    rw [hp]
    rfl

theorem majorLength_pos (l : Line) : 0 < majorLength l := by
  rw [Line.majorLength_eq]; omega

/-- A stroked line of width 1 yields exactly `Line::points()`, in the same order. -/
theorem thickPoints_width1 (l : Line) : thickPoints l 1 = some (Line.points l) := by
  obtain ⟨iter, hnew, hr, hre, hs, hso, hpp, hperp, hacc, hthr⟩ := new_any l 1
  have hD := dmaj_paramLine_pos l
  have hd0 := Line.dmin_nonneg (paramLine l)
  have hdD := Line.dmin_le_dmaj (paramLine l)
  have hmin : iter.perpendicularParameters.errorStep.minor = 2 * Line.dmaj (paramLine l) := by
    rw [hperp, Line.params_new, dmaj_perpendicular]
  have hpthr : 0 < iter.perpendicularParameters.errorThreshold := by
    rw [hperp, Line.params_new, dmaj_perpendicular]; exact hD
  obtain ⟨ha1, ha2⟩ := width1_arith (Line.dmaj (paramLine l)) (Line.dmin (paramLine l)) _ hd0 hdD hD
    (dmaj_dmin_squares (paramLine l)).symm
  have hone : satAsI32 1 = 1 := by decide
  unfold thickPoints ThickPointsIt.new
  rw [hone, hnew]
  simp only [Nat.one_ne_zero, ↓reduceIte]
  rw [ThickPointsIt.drainFuel_width1 iter l.start (majorLength l) (majorLength_pos l) hr hre hs hso
    hpthr (by rw [hacc, hthr]; exact ha1) (by rw [hacc, hthr, hmin]; exact ha2) _ _
    (by
      unfold pixelBudget
      have := Nat.le_mul_of_pos_right (majorLength l)
        (show 0 < iter.thicknessThreshold.toNat + 2 by omega)
      omega)]
  rw [hpp, centre_walk]

/-! ## Any width >= 1: the centre line is emitted first -/

namespace ThickPointsIt

/-- Whatever follows, the points of the current parallel come first. -/
theorem drainFuel_prefix (pp : BresenhamParameters) (len : Nat) (iter : ParallelsIterator)
    (hpp : iter.parallelParameters = pp) :
    ∀ (r fuel : Nat) (b : Bresenham) (ps : List Pt), r < fuel →
      drainFuel fuel ⟨b, len, r, iter⟩ = some ps →
      ∃ more, ps = Line.PointsIt.toListFuel r ⟨pp, b, r⟩ ++ more := by
  intro r
  induction r with
  | zero => intro fuel b ps _ _; exact ⟨ps, by simp [Line.PointsIt.toListFuel]⟩
  | succ r ih =>
    intro fuel b ps hf h
    obtain ⟨f, rfl⟩ : ∃ f, fuel = f + 1 := ⟨fuel - 1, by omega⟩
    rw [drainFuel, next_running _ (by simp)] at h
    simp only [Nat.add_sub_cancel, hpp] at h
    cases hrec : drainFuel f ⟨(b.next pp).2, len, r, iter⟩ with
    | none => rw [hrec] at h; simp at h
    | some qs =>
      rw [hrec] at h
      simp only [Option.some.injEq] at h
      obtain ⟨more, hm⟩ := ih f _ qs (by omega) hrec
      refine ⟨more, ?_⟩
      rw [← h, hm]
      simp only [Line.PointsIt.toListFuel, Line.PointsIt.next, Nat.zero_lt_succ, ↓reduceIte,
        Nat.add_sub_cancel, List.cons_append]

end ThickPointsIt

theorem len_lt_budget (l : Line) (thr : Int) : majorLength l < pixelBudget l thr := by
  unfold pixelBudget
  have := Nat.le_mul_of_pos_right (majorLength l) (show 0 < thr.toNat + 2 by omega)
  omega

/-- For every stroke width `w ≥ 1` (below the `i32` saturation point) the stroked line starts with
the thin line: `pixels = points() ++ more`. -/
theorem thickPoints_prefix (l : Line) (w : Nat) (hw : 1 ≤ w) (hw2 : w ≤ 2147483647) (ps : List Pt)
    (h : thickPoints l w = some ps) : ∃ more, ps = Line.points l ++ more := by
  have hsat : satAsI32 w = (w : Int) := by unfold satAsI32; simp only [hw2, ↓reduceIte]
  obtain ⟨iter, hnew, hr, hre, hs, hso, hpp, hperp, hacc, hthr⟩ := new_any l (w : Int)
  have hD := dmaj_paramLine_pos l
  have hd0 := Line.dmin_nonneg (paramLine l)
  have hdD := Line.dmin_le_dmaj (paramLine l)
  have hpthr : 0 < iter.perpendicularParameters.errorThreshold := by
    rw [hperp, Line.params_new, dmaj_perpendicular]; exact hD
  obtain ⟨ha1, _⟩ := width1_arith (Line.dmaj (paramLine l)) (Line.dmin (paramLine l)) _ hd0 hdD hD
    (dmaj_dmin_squares (paramLine l)).symm
  -- the threshold for width w is at least the one for width 1
  have hmono : ¬ iter.thicknessAccumulator * iter.thicknessAccumulator > iter.thicknessThreshold := by
    rw [hacc, hthr]
    have hS : 0 ≤ Line.dxOf (paramLine l) * Line.dxOf (paramLine l) +
        Line.dyOf (paramLine l) * Line.dyOf (paramLine l) := by
      rw [← dmaj_dmin_squares]
      have := Int.mul_nonneg (Line.dmaj_nonneg (paramLine l)) (Line.dmaj_nonneg (paramLine l))
      have := Int.mul_nonneg hd0 hd0
      omega
    have hww : 1 * 2 * (1 * 2) ≤ (w : Int) * 2 * ((w : Int) * 2) := by
      have h1 : (2 : Int) ≤ (w : Int) * 2 := by omega
      have := Int.mul_le_mul h1 h1 (by omega) (by omega)
      omega
    have := Int.mul_le_mul_of_nonneg_right hww hS
    omega
  unfold thickPoints ThickPointsIt.new at h
  rw [hsat, hnew] at h
  have hw0 : w ≠ 0 := by omega
  simp only [hw0, ↓reduceIte] at h
  obtain ⟨it1, hn, h1, _, _⟩ := next_first iter l.start hr hre hs hso hpthr hmono
  have hlen := majorLength_pos l
  obtain ⟨f, hf⟩ : ∃ f, pixelBudget l iter.thicknessThreshold = f + 1 :=
    ⟨pixelBudget l iter.thicknessThreshold - 1, by unfold pixelBudget; omega⟩
  obtain ⟨n, hn1⟩ : ∃ n, majorLength l = n + 1 := ⟨majorLength l - 1, by omega⟩
  have hstep : ThickPointsIt.next ⟨Bresenham.new l.start, majorLength l, 0, iter⟩ =
      ThickPointsIt.next ⟨⟨l.start, 0⟩, majorLength l, majorLength l, it1⟩ := by
    rw [hn1]
    simp only [ThickPointsIt.next, loopFuel, ThickPointsIt.nextFuel, Nat.lt_irrefl, ↓reduceIte, hn,
      Nat.zero_lt_succ]
    rfl
  have h' : ThickPointsIt.drainFuel (pixelBudget l iter.thicknessThreshold)
      ⟨⟨l.start, 0⟩, majorLength l, majorLength l, it1⟩ = some ps := by
    rw [← h, hf]
    unfold ThickPointsIt.drainFuel
    rw [hstep]
  obtain ⟨more, hm⟩ := ThickPointsIt.drainFuel_prefix (BresenhamParameters.new (paramLine l))
    (majorLength l) it1 (by rw [h1, hpp]) (majorLength l) (pixelBudget l iter.thicknessThreshold)
    ⟨l.start, 0⟩ ps (len_lt_budget l _) h'
  exact ⟨more, by rw [hm, centre_walk]⟩

/-- Stroke width 0: no pixel (`effective_stroke_color()` is `None`). -/
theorem thickPoints_width0 (l : Line) : thickPoints l 0 = some [] := by
  obtain ⟨iter, hnew, _⟩ := new_any l 0
  have hz : satAsI32 0 = 0 := by decide
  unfold thickPoints ThickPointsIt.new
  rw [hz, hnew]
  simp only [↓reduceIte]

end Thick
end EG
