/-
  EG.Lemmas.FontText — the writes of a whole drawn string in closed form, by character index.
-/
import EG.Lemmas.FontPixels
import EG.Lemmas.FontMapping
namespace EG
namespace Font

theorem glyphArea_size_of_drawable (f : MonoFont) (c : Nat) (h : f.areaDrawable (f.glyphArea c) = true) :
    (f.glyphArea c).size = ⟨f.cw, f.ch⟩ := by
  rw [areaDrawable_iff] at h
  unfold MonoFont.glyphArea MonoFont.glyphAreaOfIndex at *
  by_cases hc : f.cw = 0 ∨ f.imgW < f.cw
  · simp only [hc, ↓reduceIte, Rect.zero, Sz.zero] at h
    omega
  · simp only [hc, ↓reduceIte]

/-- Writes of the gap after a character. -/
def gapWrites (f : MonoFont) (m : Mode) (p : Pt) : Writes :=
  match m.bgColour with
  | some bc => if f.spacing > 0 then rectWrites ⟨p, ⟨f.spacing, f.ch⟩⟩ bc else []
  | none => []

theorem spacing_lowerDefault (B : Rect) (f : MonoFont) (m : Mode) (p : Pt)
    (h : (⟨p, ⟨f.spacing, f.ch⟩⟩ : Rect).InRange) :
    ((spacingCalls f m.bgColour.isSome p).flatMap m.lower).flatMap (Call.lowerDefault B) = gapWrites f m p := by
  unfold spacingCalls gapWrites
  by_cases hs : f.spacing > 0
  · cases m <;>
      simp [Mode.bgColour, hs, Mode.lower, fillSolid_lowerDefault B _ _ h]
  · cases m <;> simp [Mode.bgColour, hs]

/-- Writes of the characters and gaps of a string, by recursion on the text. -/
def textWrites (f : MonoFont) (atlas : Pt → Bool) (m : Mode) (pos : Pt) : List Nat → Writes
  | [] => []
  | [c] => cellWrites m atlas pos (f.glyphArea c)
  | c :: c' :: cs =>
    cellWrites m atlas pos (f.glyphArea c) ++ gapWrites f m ⟨pos.x + (f.cw : Int), pos.y⟩ ++
      textWrites f atlas m ⟨pos.x + (f.cw : Int) + (f.spacing : Int), pos.y⟩ (c' :: cs)

/-- The whole line stays inside `i32` coordinates (what the real code needs anyway not to overflow). -/
def TextInRange (f : MonoFont) (pos : Pt) (n : Nat) : Prop :=
  f.cw ≤ 2147483647 ∧ f.ch ≤ 2147483647 ∧ f.spacing ≤ 2147483647 ∧
  inI32 pos.x ∧ inI32 pos.y ∧ pos.y + (f.ch : Int) ≤ 2147483647 ∧
    pos.x + ((n * (f.cw + f.spacing) : Nat) : Int) ≤ 2147483647

theorem glyphCalls_lowerDefault (B : Rect) (f : MonoFont) (atlas : Pt → Bool) (m : Mode) (c : Nat) (p : Pt)
    (hd : f.areaDrawable (f.glyphArea c) = true) (hr : (⟨p, ⟨f.cw, f.ch⟩⟩ : Rect).InRange) :
    ((f.glyphCalls atlas c p).flatMap m.lower).flatMap (Call.lowerDefault B) =
      cellWrites m atlas p (f.glyphArea c) := by
  have hs := glyphArea_size_of_drawable f c hd
  unfold MonoFont.glyphCalls
  simp only [hd, ↓reduceIte, List.flatMap_cons, List.flatMap_nil, List.append_nil]
  exact glyph_lowerDefault B m atlas p (f.glyphArea c) (by rw [hs]; exact hr)

theorem textBCalls_lowerDefault (B : Rect) (f : MonoFont) (atlas : Pt → Bool) (m : Mode) :
    ∀ (text : List Nat) (pos : Pt), (∀ c ∈ text, f.areaDrawable (f.glyphArea c) = true) →
      TextInRange f pos text.length →
      ((textBCalls f atlas m.bgColour.isSome pos text).flatMap m.lower).flatMap (Call.lowerDefault B) =
        textWrites f atlas m pos text
  | [], _, _, _ => by simp [textBCalls, textWrites]
  | [c], pos, hd, hr => by
    simp only [textBCalls, textWrites]
    apply glyphCalls_lowerDefault B f atlas m c pos (hd c (by simp))
    unfold TextInRange inI32 at hr
    simp only [List.length_cons, List.length_nil, Nat.zero_add, Nat.one_mul, Int.natCast_add] at hr
    unfold Rect.InRange inI32
    simp only
    omega
  | c :: c' :: cs, pos, hd, hr => by
    have hd' : ∀ x ∈ c' :: cs, f.areaDrawable (f.glyphArea x) = true :=
      fun x hx => hd x (List.mem_cons_of_mem _ hx)
    unfold TextInRange inI32 at hr
    simp only [List.length_cons] at hr
    rw [Nat.add_mul, Nat.add_mul] at hr
    simp only [Nat.one_mul, Int.natCast_add] at hr
    have hr' : TextInRange f ⟨pos.x + (f.cw : Int) + (f.spacing : Int), pos.y⟩ (c' :: cs).length := by
      unfold TextInRange inI32
      simp only [List.length_cons]
      rw [Nat.add_mul]
      simp only [Nat.one_mul, Int.natCast_add]
      omega
    have ih := textBCalls_lowerDefault B f atlas m (c' :: cs) _ hd' hr'
    have h1 := glyphCalls_lowerDefault B f atlas m c pos (hd c (by simp))
      (by unfold Rect.InRange inI32; simp only; omega)
    have h2 := spacing_lowerDefault B f m ⟨pos.x + (f.cw : Int), pos.y⟩
      (by unfold Rect.InRange inI32; simp only; omega)
    simp only [textBCalls, textWrites, List.flatMap_append, ih, h1, h2]

/-! ### Membership by character index -/

/-- `(q, col)` is written by the cell of the `i`-th character: `q` is pixel `(dx, dy)` of the cell at
x offset `i * (cw + spacing)` and `col` is what the colour rule gives for the atlas bit at `(dx, dy)` of
the glyph cell the mapping designates for that character. -/
def InCell (f : MonoFont) (atlas : Pt → Bool) (m : Mode) (pos : Pt) (text : List Nat) (q : Pt) (col : Color) : Prop :=
  ∃ i c, text[i]? = some c ∧ ∃ dy, dy < f.ch ∧ ∃ dx, dx < f.cw ∧
    q = ⟨cellX f pos i + (dx : Int), pos.y + (dy : Int)⟩ ∧
    m.colourOf (atlas ⟨(f.glyphArea c).tl.x + (dx : Int), (f.glyphArea c).tl.y + (dy : Int)⟩) = some col

/-- `(q, col)` is written by the gap after the `i`-th character (not the last one): background colour. -/
def InGap (f : MonoFont) (m : Mode) (pos : Pt) (n : Nat) (q : Pt) (col : Color) : Prop :=
  ∃ i, i + 1 < n ∧ ∃ dy, dy < f.ch ∧ ∃ dx, dx < f.spacing ∧
    q = ⟨cellX f pos i + (f.cw : Int) + (dx : Int), pos.y + (dy : Int)⟩ ∧ m.bgColour = some col

theorem mem_gapWrites (f : MonoFont) (m : Mode) (p q : Pt) (col : Color) :
    (q, col) ∈ gapWrites f m p ↔
      ∃ dy, dy < f.ch ∧ ∃ dx, dx < f.spacing ∧ q = ⟨p.x + (dx : Int), p.y + (dy : Int)⟩ ∧ m.bgColour = some col := by
  unfold gapWrites
  cases hb : m.bgColour with
  | none => simp
  | some bc =>
    by_cases hs : f.spacing > 0
    · simp only [hs, ↓reduceIte, mem_rectWrites, Option.some.injEq]
      constructor
      · rintro ⟨rfl, h1, h2, h3, h4⟩
        refine ⟨(q.y - p.y).toNat, by omega, (q.x - p.x).toNat, by omega, ?_, rfl⟩
        rw [Pt.ext_iff']; simp only; omega
      · rintro ⟨dy, hdy, dx, hdx, rfl, rfl⟩
        refine ⟨rfl, ?_⟩
        dsimp only; omega
    · simp only [hs, ↓reduceIte, List.not_mem_nil, false_iff]
      rintro ⟨dy, _, dx, hdx, _⟩
      omega

theorem mem_textWrites (f : MonoFont) (atlas : Pt → Bool) (m : Mode) :
    ∀ (text : List Nat) (pos : Pt), (∀ c ∈ text, (f.glyphArea c).size = ⟨f.cw, f.ch⟩) → ∀ (q : Pt) (col : Color),
      (q, col) ∈ textWrites f atlas m pos text ↔
        (InCell f atlas m pos text q col ∨ InGap f m pos text.length q col)
  | [], pos, _, q, col => by
    simp [textWrites, InCell, InGap]
  | [c], pos, hs, q, col => by
    have hsz := hs c (by simp)
    simp only [textWrites, mem_cellWrites, hsz, InCell, InGap, List.length_cons, List.length_nil]
    constructor
    · rintro ⟨dy, hdy, dx, hdx, rfl, hc⟩
      exact Or.inl ⟨0, c, by simp, dy, hdy, dx, hdx, by simp [cellX], hc⟩
    · rintro (⟨i, c', hi, dy, hdy, dx, hdx, rfl, hc⟩ | ⟨i, hi, _⟩)
      · cases i with
        | zero =>
          simp at hi; subst hi
          exact ⟨dy, hdy, dx, hdx, by simp [cellX], hc⟩
        | succ j => simp at hi
      · omega
  | c :: c' :: cs, pos, hs, q, col => by
    have hsz := hs c (by simp)
    have hs' : ∀ x ∈ c' :: cs, (f.glyphArea x).size = ⟨f.cw, f.ch⟩ := fun x hx => hs x (List.mem_cons_of_mem _ hx)
    have ih := mem_textWrites f atlas m (c' :: cs) ⟨pos.x + (f.cw : Int) + (f.spacing : Int), pos.y⟩ hs' q col
    simp only [textWrites, List.mem_append, mem_cellWrites, hsz, mem_gapWrites, ih]
    constructor
    · rintro ((⟨dy, hdy, dx, hdx, rfl, hc⟩ | ⟨dy, hdy, dx, hdx, rfl, hb⟩) | (h | h))
      · exact Or.inl ⟨0, c, by simp, dy, hdy, dx, hdx, by simp [cellX], hc⟩
      · exact Or.inr ⟨0, by simp, dy, hdy, dx, hdx, by simp [cellX], hb⟩
      · obtain ⟨i, x, hi, dy, hdy, dx, hdx, rfl, hc⟩ := h
        exact Or.inl ⟨i + 1, x, by simpa using hi, dy, hdy, dx, hdx, by rw [cellX_succ], hc⟩
      · obtain ⟨i, hi, dy, hdy, dx, hdx, rfl, hb⟩ := h
        exact Or.inr ⟨i + 1, by simp at hi ⊢; omega, dy, hdy, dx, hdx, by rw [cellX_succ], hb⟩
    · rintro (⟨i, x, hi, dy, hdy, dx, hdx, rfl, hc⟩ | ⟨i, hi, dy, hdy, dx, hdx, rfl, hb⟩)
      · cases i with
        | zero =>
          simp at hi; subst hi
          exact Or.inl (Or.inl ⟨dy, hdy, dx, hdx, by simp [cellX], hc⟩)
        | succ j =>
          exact Or.inr (Or.inl ⟨j, x, by simpa using hi, dy, hdy, dx, hdx, by rw [cellX_succ], hc⟩)
      · cases i with
        | zero => exact Or.inl (Or.inr ⟨dy, hdy, dx, hdx, by simp [cellX], hb⟩)
        | succ j =>
          exact Or.inr (Or.inr ⟨j, by simp at hi ⊢; omega, dy, hdy, dx, hdx, by rw [cellX_succ], hb⟩)

end Font
end EG
