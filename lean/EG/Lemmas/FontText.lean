/-
  EG.Lemmas.FontText — the writes of a whole drawn string in closed form, by character index.
-/
import EG.Lemmas.FontPixels
import EG.Lemmas.FontMapping
namespace EG
namespace Font

theorem glyphArea_size_of_drawable (f : MonoFont) (c : Nat) (h : f.areaDrawable (f.glyphArea c) = true) :
    (f.glyphArea c).size = ⟨f.cw, f.ch⟩ := by
  rw [areaDrawable_iff] at h
  unfold MonoFont.glyphArea MonoFont.glyphAreaOfIndex at *
  by_cases hc : f.cw = 0 ∨ f.imgW < f.cw
  · simp only [hc, ↓reduceIte, Rect.zero, Sz.zero] at h
    omega
  · simp only [hc, ↓reduceIte]

/-- Writes of the gap after a character. -/
def gapWrites (f : MonoFont) (m : Mode) (p : Pt) : Writes :=
  match m.bgColour with
  | some bc => if f.spacing > 0 then rectWrites ⟨p, ⟨f.spacing, f.ch⟩⟩ bc else []
  | none => []

theorem spacing_lowerDefault (B : Rect) (f : MonoFont) (m : Mode) (p : Pt)
    (h : (⟨p, ⟨f.spacing, f.ch⟩⟩ : Rect).InRange) :
    ((spacingCalls f m.bgColour.isSome p).flatMap m.lower).flatMap (Call.lowerDefault B) = gapWrites f m p := by
  unfold spacingCalls gapWrites
  by_cases hs : f.spacing > 0
  · cases m <;>
      simp [Mode.bgColour, hs, Mode.lower, fillSolid_lowerDefault B _ _ h]
  · cases m <;> simp [Mode.bgColour, hs]

/-- Writes of the characters and gaps of a string, by recursion on the text. -/
def textWrites (f : MonoFont) (atlas : Pt → Bool) (m : Mode) (pos : Pt) : List Nat → Writes
  | [] => []
  | [c] => cellWrites m atlas pos (f.glyphArea c)
  | c :: c' :: cs =>
    cellWrites m atlas pos (f.glyphArea c) ++ gapWrites f m ⟨pos.x + (f.cw : Int), pos.y⟩ ++
      textWrites f atlas m ⟨pos.x + (f.cw : Int) + (f.spacing : Int), pos.y⟩ (c' :: cs)

/-- The whole line stays inside `i32` coordinates (what the real code needs anyway not to overflow). -/
def TextInRange (f : MonoFont) (pos : Pt) (n : Nat) : Prop :=
  f.cw ≤ 2147483647 ∧ f.ch ≤ 2147483647 ∧ f.spacing ≤ 2147483647 ∧
  inI32 pos.x ∧ inI32 pos.y ∧ pos.y + (f.ch : Int) ≤ 2147483647 ∧
    pos.x + ((n * (f.cw + f.spacing) : Nat) : Int) ≤ 2147483647

theorem glyphCalls_lowerDefault (B : Rect) (f : MonoFont) (atlas : Pt → Bool) (m : Mode) (c : Nat) (p : Pt)
    (hd : f.areaDrawable (f.glyphArea c) = true) (hr : (⟨p, ⟨f.cw, f.ch⟩⟩ : Rect).InRange) :
    ((f.glyphCalls atlas c p).flatMap m.lower).flatMap (Call.lowerDefault B) =
      cellWrites m atlas p (f.glyphArea c) := by
  have hs := glyphArea_size_of_drawable f c hd
  unfold MonoFont.glyphCalls
  simp only [hd, ↓reduceIte, List.flatMap_cons, List.flatMap_nil, List.append_nil]
  exact glyph_lowerDefault B m atlas p (f.glyphArea c) (by rw [hs]; exact hr)

theorem textBCalls_lowerDefault (B : Rect) (f : MonoFont) (atlas : Pt → Bool) (m : Mode) :
    ∀ (text : List Nat) (pos : Pt), (∀ c ∈ text, f.areaDrawable (f.glyphArea c) = true) →
      TextInRange f pos text.length →
      ((textBCalls f atlas m.bgColour.isSome pos text).flatMap m.lower).flatMap (Call.lowerDefault B) =
        textWrites f atlas m pos text
  | [], _, _, _ => by simp [textBCalls, textWrites]
  | [c], pos, hd, hr => by
    simp only [textBCalls, textWrites]
    apply glyphCalls_lowerDefault B f atlas m c pos (hd c (by simp))
    unfold TextInRange inI32 at hr
    simp only [List.length_cons, List.length_nil, Nat.zero_add, Nat.one_mul, Int.natCast_add] at hr
    unfold Rect.InRange inI32
    simp only
    omega
  | c :: c' :: cs, pos, hd, hr => by
    have hd' : ∀ x ∈ c' :: cs, f.areaDrawable (f.glyphArea x) = true :=
      fun x hx => hd x (List.mem_cons_of_mem _ hx)
    unfold TextInRange inI32 at hr
    simp only [List.length_cons] at hr
    rw [Nat.add_mul, Nat.add_mul] at hr
    simp only [Nat.one_mul, Int.natCast_add] at hr
    have hr' : TextInRange f ⟨pos.x + (f.cw : Int) + (f.spacing : Int), pos.y⟩ (c' :: cs).length := by
      unfold TextInRange inI32
      simp only [List.length_cons]
      rw [Nat.add_mul]
      simp only [Nat.one_mul, Int.natCast_add]
      omega
    have ih := textBCalls_lowerDefault B f atlas m (c' :: cs) _ hd' hr'
    have h1 := glyphCalls_lowerDefault B f atlas m c pos (hd c (by simp))
      (by unfold Rect.InRange inI32; simp only; omega)
    have h2 := spacing_lowerDefault B f m ⟨pos.x + (f.cw : Int), pos.y⟩
      (by unfold Rect.InRange inI32; simp only; omega)
    simp only [textBCalls, textWrites, List.flatMap_append, ih, h1, h2]

/-! ### Membership by character index -/

/-- `(q, col)` is written by the cell of the `i`-th character: `q` is pixel `(dx, dy)` of the cell at
x offset `i * (cw + spacing)` and `col` is what the colour rule gives for the atlas bit at `(dx, dy)` of
the glyph cell the mapping designates for that character. -/
def InCell (f : MonoFont) (atlas : Pt → Bool) (m : Mode) (pos : Pt) (text : List Nat) (q : Pt) (col : Color) : Prop :=
  ∃ i c, text[i]? = some c ∧ ∃ dy, dy < f.ch ∧ ∃ dx, dx < f.cw ∧
    q = ⟨cellX f pos i + (dx : Int), pos.y + (dy : Int)⟩ ∧
    m.colourOf (atlas ⟨(f.glyphArea c).tl.x + (dx : Int), (f.glyphArea c).tl.y + (dy : Int)⟩) = some col

/-- `(q, col)` is written by the gap after the `i`-th character (not the last one): background colour. -/
def InGap (f : MonoFont) (m : Mode) (pos : Pt) (n : Nat) (q : Pt) (col : Color) : Prop :=
  ∃ i, i + 1 < n ∧ ∃ dy, dy < f.ch ∧ ∃ dx, dx < f.spacing ∧
    q = ⟨cellX f pos i + (f.cw : Int) + (dx : Int), pos.y + (dy : Int)⟩ ∧ m.bgColour = some col

theorem mem_gapWrites (f : MonoFont) (m : Mode) (p q : Pt) (col : Color) :
    (q, col) ∈ gapWrites f m p ↔
      ∃ dy, dy < f.ch ∧ ∃ dx, dx < f.spacing ∧ q = ⟨p.x + (dx : Int), p.y + (dy : Int)⟩ ∧ m.bgColour = some col := by
  unfold gapWrites
  cases hb : m.bgColour with
  | none => simp
  | some bc =>
    by_cases hs : f.spacing > 0
    · simp only [hs, ↓reduceIte, mem_rectWrites, Option.some.injEq]
      constructor
      · rintro ⟨rfl, h1, h2, h3, h4⟩
        refine ⟨(q.y - p.y).toNat, by omega, (q.x - p.x).toNat, by omega, ?_, rfl⟩
        rw [Pt.ext_iff']; simp only; omega
      · rintro ⟨dy, hdy, dx, hdx, rfl, rfl⟩
        refine ⟨rfl, ?_⟩
        dsimp only; omega
    · simp only [hs, ↓reduceIte, List.not_mem_nil, false_iff]
      rintro ⟨dy, _, dx, hdx, _⟩
      omega

theorem mem_textWrites (f : MonoFont) (atlas : Pt → Bool) (m : Mode) :
    ∀ (text : List Nat) (pos : Pt), (∀ c ∈ text, (f.glyphArea c).size = ⟨f.cw, f.ch⟩) → ∀ (q : Pt) (col : Color),
      (q, col) ∈ textWrites f atlas m pos text ↔
        (InCell f atlas m pos text q col ∨ InGap f m pos text.length q col)
  | [], pos, _, q, col => by
    simp [textWrites, InCell, InGap]
  | [c], pos, hs, q, col => by
    have hsz := hs c (by simp)
    simp only [textWrites, mem_cellWrites, hsz, InCell, InGap, List.length_cons, List.length_nil]
    constructor
    · rintro ⟨dy, hdy, dx, hdx, rfl, hc⟩
      exact Or.inl ⟨0, c, by simp, dy, hdy, dx, hdx, by simp [cellX], hc⟩
    · rintro (⟨i, c', hi, dy, hdy, dx, hdx, rfl, hc⟩ | ⟨i, hi, _⟩)
      · cases i with
        | zero =>
          simp at hi; subst hi
          exact ⟨dy, hdy, dx, hdx, by simp [cellX], hc⟩
        | succ j => simp at hi
      · omega
  | c :: c' :: cs, pos, hs, q, col => by
    have hsz := hs c (by simp)
    have hs' : ∀ x ∈ c' :: cs, (f.glyphArea x).size = ⟨f.cw, f.ch⟩ := fun x hx => hs x (List.mem_cons_of_mem _ hx)
    have ih := mem_textWrites f atlas m (c' :: cs) ⟨pos.x + (f.cw : Int) + (f.spacing : Int), pos.y⟩ hs' q col
    simp only [textWrites, List.mem_append, mem_cellWrites, hsz, mem_gapWrites, ih]
    constructor
    · rintro ((⟨dy, hdy, dx, hdx, rfl, hc⟩ | ⟨dy, hdy, dx, hdx, rfl, hb⟩) | (h | h))
      · exact Or.inl ⟨0, c, by simp, dy, hdy, dx, hdx, by simp [cellX], hc⟩
      · exact Or.inr ⟨0, by simp, dy, hdy, dx, hdx, by simp [cellX], hb⟩
      · obtain ⟨i, x, hi, dy, hdy, dx, hdx, rfl, hc⟩ := h
        exact Or.inl ⟨i + 1, x, by simpa using hi, dy, hdy, dx, hdx, by rw [cellX_succ], hc⟩
      · obtain ⟨i, hi, dy, hdy, dx, hdx, rfl, hb⟩ := h
        exact Or.inr ⟨i + 1, by simp at hi ⊢; omega, dy, hdy, dx, hdx, by rw [cellX_succ], hb⟩
    · rintro (⟨i, x, hi, dy, hdy, dx, hdx, rfl, hc⟩ | ⟨i, hi, dy, hdy, dx, hdx, rfl, hb⟩)
      · cases i with
        | zero =>
          simp at hi; subst hi
          exact Or.inl (Or.inl ⟨dy, hdy, dx, hdx, by simp [cellX], hc⟩)
        | succ j =>
          exact Or.inr (Or.inl ⟨j, x, by simpa using hi, dy, hdy, dx, hdx, by rw [cellX_succ], hc⟩)
      · cases i with
        | zero => exact Or.inl (Or.inr ⟨dy, hdy, dx, hdx, by simp [cellX], hb⟩)
        | succ j =>
          exact Or.inr (Or.inr ⟨j, by simp at hi ⊢; omega, dy, hdy, dx, hdx, by rw [cellX_succ], hb⟩)

/-! ### Every pixel is written at most once by the characters and gaps -/

theorem offset_unique (k i j a b : Nat) (ha : a < k) (hb : b < k) (h : i * k + a = j * k + b) : i = j ∧ a = b := by
  have hij : i = j := by
    rcases Nat.lt_trichotomy i j with hlt | heq | hgt
    · have := Nat.mul_le_mul_right k (Nat.succ_le_of_lt hlt)
      rw [Nat.succ_mul] at this
      omega
    · exact heq
    · have := Nat.mul_le_mul_right k (Nat.succ_le_of_lt hgt)
      rw [Nat.succ_mul] at this
      omega
  subst hij
  exact ⟨rfl, by omega⟩

theorem textWrites_functional (f : MonoFont) (atlas : Pt → Bool) (m : Mode) (text : List Nat) (pos : Pt)
    (hs : ∀ c ∈ text, (f.glyphArea c).size = ⟨f.cw, f.ch⟩) (q : Pt) (c₁ c₂ : Color)
    (h₁ : (q, c₁) ∈ textWrites f atlas m pos text) (h₂ : (q, c₂) ∈ textWrites f atlas m pos text) : c₁ = c₂ := by
  rw [mem_textWrites f atlas m text pos hs] at h₁ h₂
  rcases h₁ with ⟨i, x, hi, dy, hdy, dx, hdx, hq, hc⟩ | ⟨i, hi, dy, hdy, dx, hdx, hq, hb⟩ <;>
  rcases h₂ with ⟨i', x', hi', dy', hdy', dx', hdx', hq', hc'⟩ | ⟨i', hi', dy', hdy', dx', hdx', hq', hb'⟩
  · rw [hq] at hq'
    rw [Pt.ext_iff'] at hq'
    unfold cellX at hq'
    simp only at hq'
    have := offset_unique (f.cw + f.spacing) i i' dx dx' (by omega) (by omega) (by omega)
    obtain ⟨rfl, rfl⟩ := this
    have : dy = dy' := by omega
    subst this
    rw [hi] at hi'; cases hi'
    rw [hc] at hc'; cases hc'; rfl
  · rw [hq] at hq'
    rw [Pt.ext_iff'] at hq'
    unfold cellX at hq'
    simp only at hq'
    have := offset_unique (f.cw + f.spacing) i i' dx (f.cw + dx') (by omega) (by omega) (by omega)
    omega
  · rw [hq] at hq'
    rw [Pt.ext_iff'] at hq'
    unfold cellX at hq'
    simp only at hq'
    have := offset_unique (f.cw + f.spacing) i i' (f.cw + dx) dx' (by omega) (by omega) (by omega)
    omega
  · rw [hb] at hb'; cases hb'; rfl

/-! ### Decorations and the whole write list of `draw_string` -/

def decoWrites (f : MonoFont) (st : Style) (width : Nat) (pos : Pt) : Writes :=
  (match st.strikethrough.effective st.textColor with
   | some c => rectWrites (decoRect f.stOff f.stH pos width) c
   | none => []) ++
  (match st.underline.effective st.textColor with
   | some c => rectWrites (decoRect f.ulOff f.ulH pos width) c
   | none => [])

def DecoInRange (f : MonoFont) (pos : Pt) (width : Nat) : Prop :=
  (decoRect f.stOff f.stH pos width).InRange ∧ (decoRect f.ulOff f.ulH pos width).InRange

theorem drawDecorations_lowerDefault (B : Rect) (f : MonoFont) (st : Style) (width : Nat) (pos : Pt)
    (h : DecoInRange f pos width) :
    (f.drawDecorations st width pos).flatMap (Call.lowerDefault B) = decoWrites f st width pos := by
  unfold MonoFont.drawDecorations decoWrites
  rw [List.flatMap_append]
  cases st.strikethrough.effective st.textColor <;> cases st.underline.effective st.textColor <;>
    simp [fillSolid_lowerDefault B _ _ h.1, fillSolid_lowerDefault B _ _ h.2]

/-- **The write list of `draw_string`** (either recording target): the cells and gaps of the text by
character index, then strikethrough and underline over the text width, clipped to the target's box. -/
theorem drawString_writes (B : Rect) (f : MonoFont) (atlas : Pt → Bool) (st : Style) (m : Mode)
    (hm : st.mode = some m) (text : List Nat) (position : Pt) (bl : Baseline)
    (hd : ∀ c ∈ text, f.areaDrawable (f.glyphArea c) = true)
    (hr : TextInRange f ⟨position.x, position.y - f.baselineOffset bl⟩ text.length)
    (hdr : DecoInRange f ⟨position.x, position.y - f.baselineOffset bl⟩ (textWidth f text.length)) :
    (f.drawString atlas st text position bl).1.flatMap (Call.writesDefault B) =
      clipWrites B (textWrites f atlas m ⟨position.x, position.y - f.baselineOffset bl⟩ text ++
        (if 0 < textWidth f text.length
         then decoWrites f st (textWidth f text.length) ⟨position.x, position.y - f.baselineOffset bl⟩ else [])) := by
  rw [flatMap_writesDefault, drawString_of_mode f atlas st m hm]
  simp only [List.flatMap_append]
  rw [textBCalls_lowerDefault B f atlas m text _ hd hr]
  congr 2
  split
  · exact drawDecorations_lowerDefault B f st _ _ hdr
  · rfl

theorem runDefault_eq_applyFn (B : Rect) (calls : List Call) :
    runDefault B calls = applyFn PMap.empty (calls.flatMap (Call.writesDefault B)) := rfl

theorem mem_decoWrites (f : MonoFont) (st : Style) (width : Nat) (pos : Pt) (q : Pt) (col : Color) :
    (q, col) ∈ decoWrites f st width pos ↔
      ((q, col) ∈ (match st.strikethrough.effective st.textColor with
         | some c => rectWrites (decoRect f.stOff f.stH pos width) c | none => [])) ∨
      ((q, col) ∈ (match st.underline.effective st.textColor with
         | some c => rectWrites (decoRect f.ulOff f.ulH pos width) c | none => [])) := by
  unfold decoWrites; rw [List.mem_append]

theorem mem_rectWrites' (r : Rect) (c : Color) (q : Pt) (col : Color) :
    (q, col) ∈ rectWrites r c ↔ col = c ∧ r.contains q = true := by
  rw [mem_rectWrites, Rect.contains_iff]

/-! ### The pixel map of a drawn string -/

section PixelMap
variable (B : Rect) (f : MonoFont) (atlas : Pt → Bool) (st : Style) (m : Mode) (hm : st.mode = some m)
  (text : List Nat) (position : Pt) (bl : Baseline)
  (hd : ∀ c ∈ text, f.areaDrawable (f.glyphArea c) = true)
  (hr : TextInRange f ⟨position.x, position.y - f.baselineOffset bl⟩ text.length)
  (hdr : DecoInRange f ⟨position.x, position.y - f.baselineOffset bl⟩ (textWidth f text.length))
include hm hd hr hdr

/-- A pixel of a character cell or gap that no decoration covers gets the colour the rule gives. -/
theorem text_pixel_map (q : Pt) (col : Color) (hB : B.contains q = true)
    (hq : InCell f atlas m ⟨position.x, position.y - f.baselineOffset bl⟩ text q col ∨
          InGap f m ⟨position.x, position.y - f.baselineOffset bl⟩ text.length q col)
    (hnd : ∀ c, (q, c) ∉ decoWrites f st (textWidth f text.length) ⟨position.x, position.y - f.baselineOffset bl⟩) :
    runDefault B (f.drawString atlas st text position bl).1 q = some col := by
  have hs : ∀ c ∈ text, (f.glyphArea c).size = ⟨f.cw, f.ch⟩ := fun c hc => glyphArea_size_of_drawable f c (hd c hc)
  have e : runDefault B (f.drawString atlas st text position bl).1 q =
      applyFn (fun _ => none) ((f.drawString atlas st text position bl).1.flatMap (Call.writesDefault B)) q := rfl
  rw [e, drawString_writes B f atlas st m hm text position bl hd hr hdr]
  unfold clipWrites
  rw [List.filter_append, applyFn_append, applyFn_of_not_mem]
  · apply applyFn_of_mem_functional
    · rw [List.mem_filter]
      exact ⟨(mem_textWrites f atlas m text _ hs q col).mpr hq, by simpa using hB⟩
    · intro c' hc'
      rw [List.mem_filter] at hc'
      exact textWrites_functional f atlas m text _ hs q c' col hc'.1 ((mem_textWrites f atlas m text _ hs q col).mpr hq)
  · intro w hw e'
    rw [List.mem_filter] at hw
    split at hw
    · apply hnd w.2
      rw [← e']
      exact hw.1
    · cases hw.1

/-- A pixel that belongs to no character cell, gap or decoration is left untouched. -/
theorem untouched_pixel_map (q : Pt)
    (hnt : ∀ col, ¬ (InCell f atlas m ⟨position.x, position.y - f.baselineOffset bl⟩ text q col ∨
          InGap f m ⟨position.x, position.y - f.baselineOffset bl⟩ text.length q col))
    (hnd : ∀ c, (q, c) ∉ decoWrites f st (textWidth f text.length) ⟨position.x, position.y - f.baselineOffset bl⟩) :
    runDefault B (f.drawString atlas st text position bl).1 q = none := by
  have hs : ∀ c ∈ text, (f.glyphArea c).size = ⟨f.cw, f.ch⟩ := fun c hc => glyphArea_size_of_drawable f c (hd c hc)
  have e : runDefault B (f.drawString atlas st text position bl).1 q =
      applyFn (fun _ => none) ((f.drawString atlas st text position bl).1.flatMap (Call.writesDefault B)) q := rfl
  rw [e, drawString_writes B f atlas st m hm text position bl hd hr hdr]
  apply applyFn_of_not_mem
  intro w hw e'
  unfold clipWrites at hw
  rw [List.mem_filter, List.mem_append] at hw
  rcases hw.1 with h | h
  · apply hnt w.2
    rw [← e']
    exact (mem_textWrites f atlas m text _ hs w.1 w.2).mp h
  · split at h
    · apply hnd w.2
      rw [← e']
      exact h
    · cases h

/-- Underline: every pixel of the rectangle `text width x underline height` at the font's underline
offset below the (baseline-adjusted) position gets the underline colour — it is drawn last. -/
theorem underline_pixel_map (c : Color) (hu : st.underline.effective st.textColor = some c)
    (hw : 0 < textWidth f text.length) (q : Pt) (hB : B.contains q = true)
    (hq : (decoRect f.ulOff f.ulH ⟨position.x, position.y - f.baselineOffset bl⟩ (textWidth f text.length)).contains q = true) :
    runDefault B (f.drawString atlas st text position bl).1 q = some c := by
  have e : runDefault B (f.drawString atlas st text position bl).1 q =
      applyFn (fun _ => none) ((f.drawString atlas st text position bl).1.flatMap (Call.writesDefault B)) q := rfl
  rw [e, drawString_writes B f atlas st m hm text position bl hd hr hdr]
  unfold clipWrites decoWrites
  simp only [hw, ↓reduceIte, hu]
  rw [← List.append_assoc, List.filter_append, applyFn_append]
  apply applyFn_of_mem_functional
  · rw [List.mem_filter, mem_rectWrites']
    exact ⟨⟨rfl, hq⟩, by simpa using hB⟩
  · intro c' hc'
    rw [List.mem_filter, mem_rectWrites'] at hc'
    exact hc'.1.1

/-- Strikethrough: likewise at the strikethrough offset, wherever the underline does not cover it. -/
theorem strikethrough_pixel_map (c : Color) (hst : st.strikethrough.effective st.textColor = some c)
    (hw : 0 < textWidth f text.length) (q : Pt) (hB : B.contains q = true)
    (hq : (decoRect f.stOff f.stH ⟨position.x, position.y - f.baselineOffset bl⟩ (textWidth f text.length)).contains q = true)
    (hnu : st.underline.effective st.textColor = none ∨
      (decoRect f.ulOff f.ulH ⟨position.x, position.y - f.baselineOffset bl⟩ (textWidth f text.length)).contains q = false) :
    runDefault B (f.drawString atlas st text position bl).1 q = some c := by
  have e : runDefault B (f.drawString atlas st text position bl).1 q =
      applyFn (fun _ => none) ((f.drawString atlas st text position bl).1.flatMap (Call.writesDefault B)) q := rfl
  rw [e, drawString_writes B f atlas st m hm text position bl hd hr hdr]
  unfold clipWrites decoWrites
  simp only [hw, ↓reduceIte, hst]
  rw [← List.append_assoc, List.filter_append, applyFn_append, applyFn_of_not_mem]
  · rw [List.filter_append, applyFn_append]
    apply applyFn_of_mem_functional
    · rw [List.mem_filter, mem_rectWrites']
      exact ⟨⟨rfl, hq⟩, by simpa using hB⟩
    · intro c' hc'
      rw [List.mem_filter, mem_rectWrites'] at hc'
      exact hc'.1.1
  · intro w hw' e'
    rw [List.mem_filter] at hw'
    rcases hnu with h | h
    · rw [h] at hw'; cases hw'.1
    · cases hue : st.underline.effective st.textColor with
      | none => rw [hue] at hw'; cases hw'.1
      | some cu =>
        rw [hue] at hw'
        have hm' : (w.1, w.2) ∈ rectWrites (decoRect f.ulOff f.ulH ⟨position.x, position.y - f.baselineOffset bl⟩ (textWidth f text.length)) cu := hw'.1
        rw [mem_rectWrites', e', h] at hm'
        cases hm'.2

end PixelMap

/-! ### Coordinate forms of the side conditions -/

instance (f : MonoFont) (pos : Pt) (n : Nat) : Decidable (TextInRange f pos n) := by
  unfold TextInRange; exact inferInstance
instance (f : MonoFont) (pos : Pt) (w : Nat) : Decidable (DecoInRange f pos w) := by
  unfold DecoInRange; exact inferInstance

/-- `q` is not covered by a decoration that is actually drawn. -/
def NotDecorated (f : MonoFont) (st : Style) (width : Nat) (pos q : Pt) : Prop :=
  (st.strikethrough.effective st.textColor = none ∨ (decoRect f.stOff f.stH pos width).contains q = false) ∧
  (st.underline.effective st.textColor = none ∨ (decoRect f.ulOff f.ulH pos width).contains q = false)
instance (f : MonoFont) (st : Style) (w : Nat) (pos q : Pt) : Decidable (NotDecorated f st w pos q) := by
  unfold NotDecorated; exact inferInstance

theorem not_mem_decoWrites (f : MonoFont) (st : Style) (width : Nat) (pos q : Pt)
    (h : NotDecorated f st width pos q) : ∀ c, (q, c) ∉ decoWrites f st width pos := by
  intro c hc
  rw [mem_decoWrites] at hc
  rcases hc with hc | hc
  · cases hs : st.strikethrough.effective st.textColor with
    | none => rw [hs] at hc; cases hc
    | some cs =>
      rw [hs] at hc
      have := (mem_rectWrites' _ _ _ _).mp hc
      rcases h.1 with h1 | h1
      · rw [hs] at h1; cases h1
      · rw [h1] at this; cases this.2
  · cases hs : st.underline.effective st.textColor with
    | none => rw [hs] at hc; cases hc
    | some cs =>
      rw [hs] at hc
      have := (mem_rectWrites' _ _ _ _).mp hc
      rcases h.2 with h1 | h1
      · rw [hs] at h1; cases h1
      · rw [h1] at this; cases this.2

/-- The only thing written to pixel `(dx, dy)` of the `i`-th cell is that cell's own pixel. -/
theorem cell_pixel_unique (f : MonoFont) (atlas : Pt → Bool) (m : Mode) (pos : Pt) (text : List Nat)
    (i c dx dy : Nat) (hi : text[i]? = some c) (hdx : dx < f.cw) (col : Color)
    (h : InCell f atlas m pos text ⟨cellX f pos i + (dx : Int), pos.y + (dy : Int)⟩ col ∨
         InGap f m pos text.length ⟨cellX f pos i + (dx : Int), pos.y + (dy : Int)⟩ col) :
    m.colourOf (atlas ⟨(f.glyphArea c).tl.x + (dx : Int), (f.glyphArea c).tl.y + (dy : Int)⟩) = some col := by
  rcases h with ⟨i', x', hi', dy', hdy', dx', hdx', hq', hc'⟩ | ⟨i', hi', dy', hdy', dx', hdx', hq', hb'⟩
  · rw [Pt.ext_iff'] at hq'
    unfold cellX at hq'
    simp only at hq'
    have := offset_unique (f.cw + f.spacing) i i' dx dx' (by omega) (by omega) (by omega)
    obtain ⟨rfl, rfl⟩ := this
    have : dy = dy' := by omega
    subst this
    rw [hi] at hi'; cases hi'
    exact hc'
  · rw [Pt.ext_iff'] at hq'
    unfold cellX at hq'
    simp only at hq'
    have := offset_unique (f.cw + f.spacing) i i' dx (f.cw + dx') (by omega) (by omega) (by omega)
    omega

/-- The only thing written to a gap pixel is the background colour. -/
theorem gap_pixel_unique (f : MonoFont) (atlas : Pt → Bool) (m : Mode) (pos : Pt) (text : List Nat)
    (i dx dy : Nat) (hdx : dx < f.spacing) (col : Color)
    (h : InCell f atlas m pos text ⟨cellX f pos i + (f.cw : Int) + (dx : Int), pos.y + (dy : Int)⟩ col ∨
         InGap f m pos text.length ⟨cellX f pos i + (f.cw : Int) + (dx : Int), pos.y + (dy : Int)⟩ col) :
    m.bgColour = some col := by
  rcases h with ⟨i', x', hi', dy', hdy', dx', hdx', hq', hc'⟩ | ⟨i', hi', dy', hdy', dx', hdx', hq', hb'⟩
  · rw [Pt.ext_iff'] at hq'
    unfold cellX at hq'
    simp only at hq'
    have := offset_unique (f.cw + f.spacing) i i' (f.cw + dx) dx' (by omega) (by omega) (by omega)
    omega
  · exact hb'

/-- Nothing of the characters and gaps lies outside the box `text width x character height`. -/
theorem outside_not_in_text (f : MonoFont) (atlas : Pt → Bool) (m : Mode) (pos : Pt) (text : List Nat) (q : Pt)
    (h : q.y < pos.y ∨ pos.y + (f.ch : Int) ≤ q.y ∨ q.x < pos.x ∨ pos.x + (textWidth f text.length : Int) ≤ q.x)
    (col : Color) : ¬ (InCell f atlas m pos text q col ∨ InGap f m pos text.length q col) := by
  have key : ∀ i, i < text.length → ((i * (f.cw + f.spacing) : Nat) : Int) + (f.cw : Int) ≤ (textWidth f text.length : Int) := by
    intro i hi
    unfold textWidth
    obtain ⟨k, hk⟩ : ∃ k, text.length = i + 1 + k := ⟨text.length - (i + 1), by omega⟩
    rw [hk]
    have e1 : i + 1 + k - 1 = i + k := by omega
    rw [e1]
    simp only [Nat.mul_add, Nat.add_mul, Nat.one_mul, Int.natCast_add]
    have := Int.natCast_nonneg (k * f.cw)
    have := Int.natCast_nonneg (k * f.spacing)
    omega
  rintro (⟨i, x, hi, dy, hdy, dx, hdx, rfl, _⟩ | ⟨i, hi, dy, hdy, dx, hdx, rfl, _⟩)
  · have hlt : i < text.length := by
      rcases Nat.lt_or_ge i text.length with h' | h'
      · exact h'
      · rw [List.getElem?_eq_none h'] at hi; cases hi
    have := key i hlt
    unfold cellX at h
    simp only at h
    omega
  · have k1 := key (i + 1) hi
    rw [Nat.succ_mul] at k1
    simp only [Int.natCast_add] at k1
    unfold cellX at h
    simp only at h
    omega

end Font
end EG
