/-
  EG.Lemmas.GlueFontImage — the font model's glyph stream (`cellBits`, C14) is the colour stream the
  image model (C09) hands to `fill_contiguous` when the glyph sub-image of the 1-bpp atlas is drawn.

  The font model (`EG.Model.Font`) takes the atlas as a function `atlas : Pt → Bool` and POSTULATES
  that drawing a glyph issues `fill_contiguous(cell box, cellBits atlas cell)`. The real glyph is
  `SubImage::new_unchecked(&font.image, cell)` of an `ImageRaw<BinaryColor>` (one bit per pixel,
  default data order) drawn through `ImageRaw::draw_sub_image` / `ContiguousPixels`, which C09 models.
  Here: for a well-formed one-bit image `im`, with `atlas p := (im.pixel p == Some(1))`
  (`BinaryColor::from(RawU1)`: on iff the bit is set), C09's stream for an accepted area IS
  `cellBits atlas area` (as raw values 0 / 1), exactly `w*h` items.
-/
import EG.Lemmas.ImageRawImage
import EG.Lemmas.FontMapping
import EG.Lemmas.RawLoadStore
namespace EG.Glue
open EG EG.Raw EG.Img EG.Font

/-- `font.image.pixel(p) == Some(BinaryColor::On)`: the atlas function the font model is fed with. -/
def atlasOf (im : ImageRaw) : Pt → Bool := fun p => im.pixel p == some 1

/-- Raw value of a `BinaryColor` (`On = 1`, `Off = 0`). -/
def bitColor (b : Bool) : Color := if b then 1 else 0

/-- A call on the binary target, with colours as raw values (the convention of the image model). -/
def bcallToCall : BCall → Call
  | .fillContiguous area bits => .fillContiguous area (bits.map bitColor)
  | .fillSolid area on => .fillSolid area (bitColor on)

/-- Pixels of a one-bit image are 0 or 1. -/
theorem pixel_one_bit {im : ImageRaw} (hw : im.WF) (h1 : im.bits = 1) {p : Pt} {v : Nat}
    (h : im.pixel p = some v) : v < 2 := by
  rw [ImageRaw.pixel_eq hw] at h
  split at h
  · rw [h1, load_sub (Or.inl rfl)] at h
    by_cases hlt : (p.x.toNat + p.y.toNat * im.dataWidth) / (8 / 1) < im.data.length
    · rw [loadBits_of_lt hlt] at h
      cases h
      unfold loadByte rawNew mask
      rw [Nat.and_two_pow_sub_one_eq_mod]
      exact Nat.mod_lt _ (by decide)
    · rw [loadBits_of_ge (by omega)] at h; cases h
  · cases h

/-- So a pixel is determined by the atlas function. -/
theorem pixel_eq_bitColor {im : ImageRaw} (hw : im.WF) (h1 : im.bits = 1) {p : Pt}
    (hp : im.boundingBox.contains p = true) : im.pixel p = some (bitColor (atlasOf im p)) := by
  cases hv : im.pixel p with
  | none => rw [ImageRaw.pixel_none_iff hw, hp] at hv; cases hv
  | some v =>
    have := pixel_one_bit hw h1 hv
    unfold atlasOf bitColor
    rw [hv]
    have : v = 0 ∨ v = 1 := by omega
    rcases this with rfl | rfl <;> simp

theorem flatMap_congr_mem {α β : Type} {l : List α} {f g : α → List β} (h : ∀ a ∈ l, f a = g a) :
    l.flatMap f = l.flatMap g := by
  induction l with
  | nil => rfl
  | cons x xs ih =>
    simp only [List.flatMap_cons]
    rw [h x (List.mem_cons_self), ih (fun a ha => h a (List.mem_cons_of_mem _ ha))]

theorem satAddI32_zero_nat {n : Nat} (h : n ≤ 2147483647) : satAddI32 0 (n : Int) = n := by
  unfold satAddI32; split <;> (try split) <;> omega

/-- Row-major points of an origin box that fits `i32`, written with `List.range`. -/
theorem pointsSpec_origin (w h : Nat) (hw : w ≤ 2147483647) (hh : h ≤ 2147483647) :
    Rect.pointsSpec ⟨Pt.zero, ⟨w, h⟩⟩ =
      (List.range h).flatMap (fun (r : Nat) => (List.range w).map (fun (c : Nat) => (⟨(c : Int), (r : Int)⟩ : Pt))) := by
  unfold Rect.pointsSpec
  by_cases hz : (⟨Pt.zero, ⟨w, h⟩⟩ : Rect).isZeroSized = true
  · simp only [hz, ↓reduceIte]
    rw [Rect.isZeroSized_iff] at hz
    simp only at hz
    rcases hz with rfl | rfl
    · simp
    · simp
  · simp only [hz, Bool.false_eq_true, ↓reduceIte]
    have hr : (⟨Pt.zero, ⟨w, h⟩⟩ : Rect).rows = (List.range h).map (fun (i : Nat) => (i : Int)) := by
      unfold Rect.rows irange
      simp only [Pt.zero, Rect.satAsI32_of_le hh]
      rw [satAddI32_zero_nat hh]
      have : ((h : Int) - 0).toNat = h := by omega
      rw [this]
      apply List.map_congr_left; intro i _; omega
    have hc : (⟨Pt.zero, ⟨w, h⟩⟩ : Rect).columns = (List.range w).map (fun (i : Nat) => (i : Int)) := by
      unfold Rect.columns irange
      simp only [Pt.zero, Rect.satAsI32_of_le hw]
      rw [satAddI32_zero_nat hw]
      have : ((w : Int) - 0).toNat = w := by omega
      rw [this]
      apply List.map_congr_left; intro i _; omega
    rw [hr, hc]
    simp only [List.flatMap_map, List.map_map]
    rfl

/-- **The sub-image stream is `cellBits`**: for a well-formed one-bit image and an area that
`draw_sub_image` accepts, the single `fill_contiguous` call carries the box of the area's size and
the stream `cellBits (atlasOf im) area` (as raw values), which has exactly `w * h` items. -/
theorem drawSubImage_eq_cellBits {im : ImageRaw} (hw : im.WF) (h1 : im.bits = 1) {a : Rect}
    (ha : im.Accepts a) :
    im.drawSubImage a = [Call.fillContiguous ⟨Pt.zero, a.size⟩ ((cellBits (atlasOf im) a).map bitColor)] ∧
      (cellBits (atlasOf im) a).length = a.size.w * a.size.h := by
  obtain ⟨cs, hcall, hcs, hlen⟩ := ImageRaw.drawSubImage_accept hw ha
  obtain ⟨h0w, h0h, hx, hy, hxw, hyh⟩ := ha
  have hwI := hw.wI32
  have hhI := hw.hI32
  have hcs2 : cs.map some = ((cellBits (atlasOf im) a).map bitColor).map some := by
    rw [hcs, pointsSpec_origin a.size.w a.size.h (by omega) (by omega)]
    unfold cellBits
    simp only [List.map_flatMap, List.map_map]
    apply flatMap_congr_mem
    intro r hr
    apply List.map_congr_left
    intro c hc
    rw [List.mem_range] at hr hc
    simp only [Function.comp]
    have hin : im.boundingBox.contains (a.tl + ⟨(c : Int), (r : Int)⟩) = true := by
      rw [ImageRaw.contains_boundingBox]
      simp only [Pt.add_x, Pt.add_y]
      omega
    rw [pixel_eq_bitColor hw h1 hin]
    rfl
  have hinj : cs = (cellBits (atlasOf im) a).map bitColor :=
    (List.map_inj_right (fun _ _ h => Option.some.inj h)).mp hcs2
  refine ⟨by rw [hcall, hinj], ?_⟩
  rw [← hlen, hinj, List.length_map]

end EG.Glue
