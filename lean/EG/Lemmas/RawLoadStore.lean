/-
  EG.Lemmas.RawLoadStore — the laws of `RawData::load` / `RawData::store` for all seven raw types
  at once (dispatch on `bits`), assembled from the per-family lemmas of EG/Lemmas/Raw.lean.
-/
import EG.Lemmas.Raw
namespace EG.Raw

/-- 16, 24 or 32 bits. -/
def multiByte (bits : Nat) : Prop := bits = 16 ∨ bits = 24 ∨ bits = 32
instance (bits : Nat) : Decidable (multiByte bits) := by unfold multiByte; exact inferInstance

theorem validBits_cases {bits : Nat} (h : validBits bits = true) :
    subByte bits ∨ bits = 8 ∨ multiByte bits := by
  simp only [validBits, Bool.or_eq_true, beq_iff_eq] at h
  unfold subByte multiByte
  omega

theorem load_sub {bits : Nat} (h : subByte bits) (o : Order) (buf : List Nat) (i : Nat) :
    load bits o buf i = loadBits bits o buf i := by
  simp only [load, subByte_lt h, ↓reduceIte]

theorem store_sub {bits : Nat} (h : subByte bits) (o : Order) (v : Nat) (buf : List Nat) (i : Nat) :
    store bits o v buf i = storeBits bits o v buf i := by
  simp only [store, subByte_lt h, ↓reduceIte]

theorem load_multi {bits : Nat} (h : multiByte bits) (o : Order) (buf : List Nat) (i : Nat) :
    load bits o buf i = loadBytes (bits / 8) o buf i := by
  rcases h with rfl | rfl | rfl <;> rfl

theorem store_multi {bits : Nat} (h : multiByte bits) (o : Order) (v : Nat) (buf : List Nat) (i : Nat) :
    store bits o v buf i = storeBytes (bits / 8) o v buf i := by
  rcases h with rfl | rfl | rfl <;> rfl

theorem multiByte_pos {bits : Nat} (h : multiByte bits) : 0 < bits / 8 := by
  rcases h with rfl | rfl | rfl <;> decide

theorem multiByte_pow {bits : Nat} (h : multiByte bits) : 256 ^ (bits / 8) = 2 ^ bits := by
  rcases h with rfl | rfl | rfl <;> decide

theorem pixelCount_multi {bits : Nat} (h : multiByte bits) (len : Nat) :
    pixelCount bits len = len / (bits / 8) := by
  rcases h with rfl | rfl | rfl <;> rfl

/-- The byte positions that belong to pixel `i`. -/
def ownByte (bits i k : Nat) : Prop :=
  if bits < 8 then k = i / (8 / bits) else i * (bits / 8) ≤ k ∧ k < i * (bits / 8) + bits / 8
instance (bits i k : Nat) : Decidable (ownByte bits i k) := by unfold ownByte; exact inferInstance

/-! ### inside / outside -/

theorem store_inside {bits : Nat} (hb : validBits bits = true) (o : Order) (v : Nat) (buf : List Nat)
    (i : Nat) (hin : i < pixelCount bits buf.length) : (store bits o v buf i).1 = true := by
  rcases validBits_cases hb with h | rfl | h
  · rw [store_sub h, storeBits_of_lt ((subByte_inside_iff h _ _).mp hin)]
  · have : i < buf.length := by simpa [pixelCount] using hin
    show (storeU8 v buf i).1 = true
    rw [storeU8_of_lt this]
  · rw [store_multi h, storeBytes_of_le]
    rw [pixelCount_multi h] at hin
    exact (multiByte_inside_iff (multiByte_pos h) _ _).mp hin

theorem store_outside {bits : Nat} (hb : validBits bits = true) (o : Order) (v : Nat) (buf : List Nat)
    (i : Nat) (hout : pixelCount bits buf.length ≤ i) : store bits o v buf i = (false, buf) := by
  rcases validBits_cases hb with h | rfl | h
  · rw [store_sub h, storeBits_of_ge]
    have := subByte_inside_iff h buf.length i
    omega
  · have : buf.length ≤ i := by simpa [pixelCount] using hout
    show storeU8 v buf i = (false, buf)
    rw [storeU8_of_ge this]
  · rw [store_multi h, storeBytes_of_gt]
    rw [pixelCount_multi h] at hout
    have := multiByte_inside_iff (multiByte_pos h) buf.length i
    omega

theorem load_outside {bits : Nat} (hb : validBits bits = true) (o : Order) (buf : List Nat)
    (i : Nat) (hout : pixelCount bits buf.length ≤ i) : load bits o buf i = none := by
  rcases validBits_cases hb with h | rfl | h
  · rw [load_sub h, loadBits_of_ge]
    have := subByte_inside_iff h buf.length i
    omega
  · have : buf.length ≤ i := by simpa [pixelCount] using hout
    show buf[i]? = none
    exact List.getElem?_eq_none this
  · rw [load_multi h, loadBytes_of_gt]
    rw [pixelCount_multi h] at hout
    have := multiByte_inside_iff (multiByte_pos h) buf.length i
    omega

theorem load_inside {bits : Nat} (hb : validBits bits = true) (o : Order) (buf : List Nat)
    (i : Nat) (hin : i < pixelCount bits buf.length) : ∃ v, load bits o buf i = some v := by
  rcases validBits_cases hb with h | rfl | h
  · rw [load_sub h, loadBits_of_lt ((subByte_inside_iff h _ _).mp hin)]
    exact ⟨_, rfl⟩
  · have : i < buf.length := by simpa [pixelCount] using hin
    exact ⟨buf[i], by show buf[i]? = some buf[i]; exact List.getElem?_eq_getElem this⟩
  · rw [load_multi h, loadBytes_of_le]
    · exact ⟨_, rfl⟩
    · rw [pixelCount_multi h] at hin
      exact (multiByte_inside_iff (multiByte_pos h) _ _).mp hin

theorem load_eq_none_iff {bits : Nat} (hb : validBits bits = true) (o : Order) (buf : List Nat)
    (i : Nat) : load bits o buf i = none ↔ pixelCount bits buf.length ≤ i := by
  constructor
  · intro hn
    by_cases hin : i < pixelCount bits buf.length
    · obtain ⟨v, hv⟩ := load_inside hb o buf i hin
      rw [hv] at hn; cases hn
    · omega
  · exact load_outside hb o buf i

/-! ### get / set -/

theorem load_store_same {bits : Nat} (hb : validBits bits = true) (o : Order) {v : Nat}
    {buf : List Nat} {i : Nat} (hw : BytesOk buf) (hv : v < 2 ^ bits)
    (hin : i < pixelCount bits buf.length) :
    load bits o (store bits o v buf i).2 i = some v := by
  rcases validBits_cases hb with h | rfl | h
  · rw [store_sub h, load_sub h]
    exact loadBits_storeBits_same h hw hv ((subByte_inside_iff h _ _).mp hin)
  · have hlt : i < buf.length := by simpa [pixelCount] using hin
    show (storeU8 v buf i).2[i]? = some v
    rw [storeU8_of_lt hlt]
    exact List.getElem?_set_self hlt
  · rw [store_multi h, load_multi h]
    rw [pixelCount_multi h] at hin
    exact loadBytes_storeBytes_same (by rw [multiByte_pow h]; exact hv)
      ((multiByte_inside_iff (multiByte_pos h) _ _).mp hin)

theorem load_store_other {bits : Nat} (hb : validBits bits = true) (o : Order) {v : Nat}
    {buf : List Nat} {i j : Nat} (hw : BytesOk buf) (hv : v < 2 ^ bits) (hne : j ≠ i) :
    load bits o (store bits o v buf i).2 j = load bits o buf j := by
  rcases validBits_cases hb with h | rfl | h
  · rw [store_sub h, load_sub h, load_sub h]
    exact loadBits_storeBits_other h hw hv hne
  · show (storeU8 v buf i).2[j]? = buf[j]?
    by_cases hlt : i < buf.length
    · rw [storeU8_of_lt hlt]
      exact List.getElem?_set_ne (Ne.symm hne)
    · rw [storeU8_of_ge (by omega)]
  · rw [store_multi h, load_multi h, load_multi h]
    exact loadBytes_storeBytes_other hne

theorem store_length {bits : Nat} (hb : validBits bits = true) (o : Order) (v : Nat)
    (buf : List Nat) (i : Nat) : (store bits o v buf i).2.length = buf.length := by
  by_cases hin : i < pixelCount bits buf.length
  · rcases validBits_cases hb with h | rfl | h
    · rw [store_sub h]; exact storeBits_length _ _ _ _ _
    · have hlt : i < buf.length := by simpa [pixelCount] using hin
      show (storeU8 v buf i).2.length = buf.length
      rw [storeU8_of_lt hlt]; simp
    · rw [store_multi h]
      rw [pixelCount_multi h] at hin
      have hle := (multiByte_inside_iff (multiByte_pos h) _ _).mp hin
      rw [storeBytes_of_le hle]
      exact splice_length (by rw [encodeBytes_length]; exact hle)
  · rw [store_outside hb o v buf i (by omega)]

/-- Every byte that does not belong to pixel `i` is unchanged. -/
theorem store_other_bytes {bits : Nat} (hb : validBits bits = true) (o : Order) (v : Nat)
    (buf : List Nat) (i k : Nat) (hk : ¬ ownByte bits i k) :
    (store bits o v buf i).2[k]? = buf[k]? := by
  by_cases hin : i < pixelCount bits buf.length
  · rcases validBits_cases hb with h | rfl | h
    · rw [store_sub h]
      apply storeBits_other_byte
      simpa [ownByte, subByte_lt h] using hk
    · have hlt : i < buf.length := by simpa [pixelCount] using hin
      show (storeU8 v buf i).2[k]? = buf[k]?
      rw [storeU8_of_lt hlt]
      apply List.getElem?_set_ne
      simp only [ownByte, Nat.lt_irrefl, ↓reduceIte, Nat.reduceDiv, Nat.mul_one] at hk
      omega
    · rw [store_multi h]
      rw [pixelCount_multi h] at hin
      have hle := (multiByte_inside_iff (multiByte_pos h) _ _).mp hin
      rw [storeBytes_of_le hle]
      have h8 : ¬ bits < 8 := by rcases h with rfl | rfl | rfl <;> decide
      simp only [ownByte, h8, ↓reduceIte] at hk
      apply splice_getElem?_outside (by rw [encodeBytes_length]; exact hle)
      rw [encodeBytes_length]
      omega
  · rw [store_outside hb o v buf i (by omega)]

theorem store_bytesOk {bits : Nat} (hb : validBits bits = true) (o : Order) {v : Nat}
    {buf : List Nat} (i : Nat) (hw : BytesOk buf) (hv : v < 2 ^ bits) :
    BytesOk (store bits o v buf i).2 := by
  by_cases hin : i < pixelCount bits buf.length
  · rcases validBits_cases hb with h | rfl | h
    · rw [store_sub h]; exact storeBits_bytesOk h hw hv
    · have hlt : i < buf.length := by simpa [pixelCount] using hin
      show BytesOk (storeU8 v buf i).2
      rw [storeU8_of_lt hlt]
      exact hw.set _ hv
    · rw [store_multi h]
      rw [pixelCount_multi h] at hin
      have hle := (multiByte_inside_iff (multiByte_pos h) _ _).mp hin
      rw [storeBytes_of_le hle]
      exact splice_bytesOk hw (encodeBytes_bytesOk _ _ _)
  · rw [store_outside hb o v buf i (by omega)]; exact hw

/-- A loaded value is a value of the raw type. -/
theorem load_lt {bits : Nat} (hb : validBits bits = true) (o : Order) {buf : List Nat} {i v : Nat}
    (hw : BytesOk buf) (hl : load bits o buf i = some v) : v < 2 ^ bits := by
  rcases validBits_cases hb with h | rfl | h
  · rw [load_sub h] at hl
    by_cases hlt : i / (8 / bits) < buf.length
    · rw [loadBits_of_lt hlt] at hl
      cases hl
      unfold loadByte rawNew mask
      rw [Nat.and_two_pow_sub_one_eq_mod]
      exact Nat.mod_lt _ (Nat.two_pow_pos bits)
    · rw [loadBits_of_ge (by omega)] at hl; cases hl
  · exact hw.of_getElem? hl
  · rw [load_multi h] at hl
    by_cases hle : i * (bits / 8) + bits / 8 ≤ buf.length
    · rw [loadBytes_of_le hle] at hl
      cases hl
      rw [← multiByte_pow h]
      have hlen : ((buf.drop (i * (bits / 8))).take (bits / 8)).length = bits / 8 := by
        simp only [List.length_take, List.length_drop]; omega
      have hok : BytesOk ((buf.drop (i * (bits / 8))).take (bits / 8)) := (hw.drop _).take _
      unfold decodeBytes
      split
      · have := fromLe_lt _ (fun x hx => hok x (List.mem_reverse.mp hx))
        rw [List.length_reverse, hlen] at this
        exact this
      · have := fromLe_lt _ hok
        rw [hlen] at this
        exact this
    · rw [loadBytes_of_gt (by omega)] at hl; cases hl

end EG.Raw
