/-
  EG.Lemmas.CheckedTriangle — range theorems of the `Triangle` kernels
  (Model/CheckedTriangle.lean): with every vertex within +-8192 (`Triangle.SmallPt`, 8 times the
  display scale) the checked kernel returns `some` of the plain kernel of `EG.Model.Triangle`;
  the probed point of `contains` is arbitrary (a point outside the bounding box is answered
  before any product is formed).

  Bounds behind it (Lemmas/TriangleI32.lean): coordinate x coordinate <= 2^26, coordinate x
  difference <= 2^27; `area_doubled` is a sum of products bounded by 6 * 2^26, `s`, `t` likewise,
  `s + t` by 12 * 2^26 < 2^31.
-/
import EG.Lemmas.CheckedScanline
import EG.Lemmas.TriangleI32
import EG.Lemmas.Rect
import EG.Model.CheckedTriangle
namespace EG.Chk
open EG EG.Triangle

namespace Triangle

theorem boundingBox_ok {t : EG.Triangle} (h1 : W.pt t.v1) (h2 : W.pt t.v2) (h3 : W.pt t.v3) :
    boundingBox t = some t.boundingBox := by
  obtain ⟨⟨_, _⟩, ⟨_, _⟩⟩ := h1
  obtain ⟨⟨_, _⟩, ⟨_, _⟩⟩ := h2
  obtain ⟨⟨_, _⟩, ⟨_, _⟩⟩ := h3
  unfold boundingBox EG.Triangle.boundingBox
  apply withCorners_ok <;> simp only <;> omega

theorem areaDoubled_ok {t : EG.Triangle} (h1 : SmallPt t.v1) (h2 : SmallPt t.v2) (h3 : SmallPt t.v3) :
    areaDoubled t = some t.areaDoubled := by
  obtain ⟨⟨a1, a2⟩, ⟨a3, a4⟩⟩ := h1
  obtain ⟨⟨b1, b2⟩, ⟨b3, b4⟩⟩ := h2
  obtain ⟨⟨c1, c2⟩, ⟨c3, c4⟩⟩ := h3
  have p1 := cc (a := -t.v2.y) (b := t.v3.x) (by omega) (by omega)
  have p2 := cd (a := t.v1.y) (b := t.v3.x - t.v2.x) (by omega) (by omega)
  have p3 := cd (a := t.v1.x) (b := t.v2.y - t.v3.y) (by omega) (by omega)
  have p4 := cc (a := t.v2.x) (b := t.v3.y) (by omega) (by omega)
  unfold areaDoubled EG.Triangle.areaDoubled
  chk_simp

theorem baryS_ok {t : EG.Triangle} {p : Pt} (h1 : SmallPt t.v1) (h3 : SmallPt t.v3) (hp : SmallPt p) :
    baryS t p = some (t.baryS p) := by
  obtain ⟨⟨a1, a2⟩, ⟨a3, a4⟩⟩ := h1
  obtain ⟨⟨c1, c2⟩, ⟨c3, c4⟩⟩ := h3
  obtain ⟨⟨q1, q2⟩, ⟨q3, q4⟩⟩ := hp
  have s1 := cc (a := t.v1.y) (b := t.v3.x) (by omega) (by omega)
  have s2 := cc (a := t.v1.x) (b := t.v3.y) (by omega) (by omega)
  have s3 := dc (a := t.v3.y - t.v1.y) (b := p.x) (by omega) (by omega)
  have s4 := dc (a := t.v1.x - t.v3.x) (b := p.y) (by omega) (by omega)
  unfold baryS EG.Triangle.baryS
  chk_simp

theorem baryT_ok {t : EG.Triangle} {p : Pt} (h1 : SmallPt t.v1) (h2 : SmallPt t.v2) (hp : SmallPt p) :
    baryT t p = some (t.baryT p) := by
  obtain ⟨⟨a1, a2⟩, ⟨a3, a4⟩⟩ := h1
  obtain ⟨⟨b1, b2⟩, ⟨b3, b4⟩⟩ := h2
  obtain ⟨⟨q1, q2⟩, ⟨q3, q4⟩⟩ := hp
  have t1 := cc (a := t.v1.x) (b := t.v2.y) (by omega) (by omega)
  have t2 := cc (a := t.v1.y) (b := t.v2.x) (by omega) (by omega)
  have t3 := dc (a := t.v1.y - t.v2.y) (b := p.x) (by omega) (by omega)
  have t4 := dc (a := t.v2.x - t.v1.x) (b := p.y) (by omega) (by omega)
  unfold baryT EG.Triangle.baryT
  chk_simp

/-- `|s|`, `|t|` below `2^30`: the guarded sum `s + t` fits `i32`. -/
theorem isInsideOf_ok {s u a : Int} (hs : -1073741824 ≤ s ∧ s ≤ 1073741823)
    (hu : -1073741824 ≤ u ∧ u ≤ 1073741823) :
    isInsideOf s u a = some (if a < 0 then decide (s ≤ 0 ∧ u ≤ 0 ∧ s + u ≥ a)
      else decide (s ≥ 0 ∧ u ≥ 0 ∧ s + u ≤ a)) := by
  obtain ⟨_, _⟩ := hs
  obtain ⟨_, _⟩ := hu
  unfold isInsideOf
  by_cases ha : a < 0
  · simp only [ha, ↓reduceIte]
    by_cases c : s ≤ 0 ∧ u ≤ 0
    · simp only [c, and_self, ↓reduceIte, true_and]; chk_simp
    · rw [if_neg c]
      have : ¬ (s ≤ 0 ∧ u ≤ 0 ∧ s + u ≥ a) := by omega
      simp [this]
  · simp only [ha, ↓reduceIte]
    by_cases c : s ≥ 0 ∧ u ≥ 0
    · simp only [c, and_self, ↓reduceIte, true_and]; chk_simp
    · rw [if_neg c]
      have : ¬ (s ≥ 0 ∧ u ≥ 0 ∧ s + u ≤ a) := by omega
      simp [this]

theorem bary_bounds {t : EG.Triangle} {p : Pt} (h1 : SmallPt t.v1) (h2 : SmallPt t.v2)
    (h3 : SmallPt t.v3) (hp : SmallPt p) :
    (-1073741824 ≤ t.baryS p ∧ t.baryS p ≤ 1073741823) ∧
    (-1073741824 ≤ t.baryT p ∧ t.baryT p ≤ 1073741823) := by
  obtain ⟨⟨a1, a2⟩, ⟨a3, a4⟩⟩ := h1
  obtain ⟨⟨b1, b2⟩, ⟨b3, b4⟩⟩ := h2
  obtain ⟨⟨c1, c2⟩, ⟨c3, c4⟩⟩ := h3
  obtain ⟨⟨q1, q2⟩, ⟨q3, q4⟩⟩ := hp
  have s1 := cc (a := t.v1.y) (b := t.v3.x) (by omega) (by omega)
  have s2 := cc (a := t.v1.x) (b := t.v3.y) (by omega) (by omega)
  have s3 := dc (a := t.v3.y - t.v1.y) (b := p.x) (by omega) (by omega)
  have s4 := dc (a := t.v1.x - t.v3.x) (b := p.y) (by omega) (by omega)
  have t1 := cc (a := t.v1.x) (b := t.v2.y) (by omega) (by omega)
  have t2 := cc (a := t.v1.y) (b := t.v2.x) (by omega) (by omega)
  have t3 := dc (a := t.v1.y - t.v2.y) (b := p.x) (by omega) (by omega)
  have t4 := dc (a := t.v2.x - t.v1.x) (b := p.y) (by omega) (by omega)
  unfold EG.Triangle.baryS EG.Triangle.baryT
  refine ⟨⟨?_, ?_⟩, ?_, ?_⟩ <;> omega

/-- `sort_two_yx` returns its two arguments. -/
theorem sortTwoYx_cases (p q : Pt) : sortTwoYx p q = (p, q) ∨ sortTwoYx p q = (q, p) := by
  unfold sortTwoYx; split <;> simp

/-- Every vertex of `sorted_yx` is one of the three vertices; any predicate true of all three
holds for the sorted ones. -/
theorem sortedYx_all {t : EG.Triangle} {P : Pt → Prop} (h1 : P t.v1) (h2 : P t.v2) (h3 : P t.v3) :
    P t.sortedYx.v1 ∧ P t.sortedYx.v2 ∧ P t.sortedYx.v3 := by
  unfold EG.Triangle.sortedYx
  simp only
  rcases sortTwoYx_cases t.v1 t.v2 with e1 | e1 <;> rw [e1] <;> simp only
  · rcases sortTwoYx_cases t.v3 t.v1 with e2 | e2 <;> rw [e2] <;> simp only
    · rcases sortTwoYx_cases t.v1 t.v2 with e3 | e3 <;> rw [e3] <;> exact ⟨‹_›, ‹_›, ‹_›⟩
    · rcases sortTwoYx_cases t.v3 t.v2 with e3 | e3 <;> rw [e3] <;> exact ⟨‹_›, ‹_›, ‹_›⟩
  · rcases sortTwoYx_cases t.v3 t.v2 with e2 | e2 <;> rw [e2] <;> simp only
    · rcases sortTwoYx_cases t.v2 t.v1 with e3 | e3 <;> rw [e3] <;> exact ⟨‹_›, ‹_›, ‹_›⟩
    · rcases sortTwoYx_cases t.v3 t.v1 with e3 | e3 <;> rw [e3] <;> exact ⟨‹_›, ‹_›, ‹_›⟩

theorem onEdge_ok {t : EG.Triangle} (h1 : W.pt t.v1) (h2 : W.pt t.v2) (h3 : W.pt t.v3) (p : Pt) :
    onEdge t p = some (t.edgePoints.any (fun q => q == p)) := by
  obtain ⟨s1, s2, s3⟩ := sortedYx_all (P := W.pt) h1 h2 h3
  unfold onEdge
  simp only
  rw [linePointsNew_ok (l := ⟨t.sortedYx.v1, t.sortedYx.v2⟩) s1 s2,
    linePointsNew_ok (l := ⟨t.sortedYx.v1, t.sortedYx.v3⟩) s1 s3,
    linePointsNew_ok (l := ⟨t.sortedYx.v2, t.sortedYx.v3⟩) s2 s3]
  simp only [Option.bind_eq_bind, Option.bind_some]
  rw [linePointsAny_ok (l := ⟨t.sortedYx.v1, t.sortedYx.v2⟩) s1 s2,
    linePointsAny_ok (l := ⟨t.sortedYx.v1, t.sortedYx.v3⟩) s1 s3,
    linePointsAny_ok (l := ⟨t.sortedYx.v2, t.sortedYx.v3⟩) s2 s3]
  simp only [Option.bind_some, EG.Triangle.edgePoints, EG.Triangle.edgeLines, List.flatMap_cons,
    List.flatMap_nil, List.append_nil, List.any_append]
  cases (Line.points ⟨t.sortedYx.v1, t.sortedYx.v2⟩).any (fun q => q == p) <;>
    cases (Line.points ⟨t.sortedYx.v1, t.sortedYx.v3⟩).any (fun q => q == p) <;>
    simp only [Bool.false_eq_true, ↓reduceIte, Bool.true_or, Bool.false_or, Bool.or_true, Option.pure_def]

theorem smallPt_W {p : Pt} (h : SmallPt p) : W.pt p := by
  obtain ⟨⟨_, _⟩, ⟨_, _⟩⟩ := h
  unfold W.pt W.coord; omega

/-- A point inside the bounding box of small vertices is small. -/
theorem contains_small {t : EG.Triangle} {p : Pt} (h1 : SmallPt t.v1) (h2 : SmallPt t.v2)
    (h3 : SmallPt t.v3) (hc : t.boundingBox.contains p = true) : SmallPt p := by
  obtain ⟨⟨a1, a2⟩, ⟨a3, a4⟩⟩ := h1
  obtain ⟨⟨b1, b2⟩, ⟨b3, b4⟩⟩ := h2
  obtain ⟨⟨c1, c2⟩, ⟨c3, c4⟩⟩ := h3
  rw [Rect.contains_iff] at hc
  unfold EG.Triangle.boundingBox Rect.withCorners at hc
  simp only at hc
  unfold SmallPt
  omega

/-- **`Triangle::contains`**: vertices within +-8192, any probed point. -/
theorem contains_ok {t : EG.Triangle} (h1 : SmallPt t.v1) (h2 : SmallPt t.v2) (h3 : SmallPt t.v3)
    (p : Pt) : contains t p = some (t.contains p) := by
  have w1 := smallPt_W h1
  have w2 := smallPt_W h2
  have w3 := smallPt_W h3
  have hbbW : W.rect t.boundingBox := by
    obtain ⟨⟨a1, a2⟩, ⟨a3, a4⟩⟩ := h1
    obtain ⟨⟨b1, b2⟩, ⟨b3, b4⟩⟩ := h2
    obtain ⟨⟨c1, c2⟩, ⟨c3, c4⟩⟩ := h3
    unfold EG.Triangle.boundingBox Rect.withCorners W.rect W.pt W.sz W.coord W.size
    simp only
    omega
  unfold contains EG.Triangle.contains EG.Triangle.containsWith
  rw [boundingBox_ok w1 w2 w3]
  simp only [Option.bind_eq_bind, Option.bind_some]
  rw [Chk.contains_ok hbbW]
  simp only [Option.bind_some]
  by_cases hc : t.boundingBox.contains p = true
  · have hp := contains_small h1 h2 h3 hc
    simp only [hc, Bool.not_true, Bool.false_eq_true, ↓reduceIte]
    rw [baryS_ok h1 h3 hp, baryT_ok h1 h2 hp, areaDoubled_ok h1 h2 h3]
    simp only [Option.bind_some]
    by_cases ha : t.areaDoubled = 0
    · simp [ha]
    · simp only [ha, ↓reduceIte]
      obtain ⟨bs, bt⟩ := bary_bounds h1 h2 h3 hp
      rw [isInsideOf_ok bs bt]
      simp only [Option.bind_some]
      have e : (if t.areaDoubled < 0 then
            decide (t.baryS p ≤ 0 ∧ t.baryT p ≤ 0 ∧ t.baryS p + t.baryT p ≥ t.areaDoubled)
          else decide (t.baryS p ≥ 0 ∧ t.baryT p ≥ 0 ∧ t.baryS p + t.baryT p ≤ t.areaDoubled))
          = t.isInside p := by
        unfold EG.Triangle.isInside; rfl
      rw [e]
      cases t.isInside p
      · simp only [Bool.false_eq_true, ↓reduceIte]
        exact onEdge_ok w1 w2 w3 p
      · simp
  · have hc' : t.boundingBox.contains p = false := by simpa using hc
    simp [hc']

theorem sortedClockwise_ok {t : EG.Triangle} (h1 : SmallPt t.v1) (h2 : SmallPt t.v2)
    (h3 : SmallPt t.v3) : sortedClockwise t = some t.sortedClockwise := by
  unfold sortedClockwise EG.Triangle.sortedClockwise
  rw [areaDoubled_ok h1 h2 h3]
  rfl

/-- **`scanline_intersection`**: vertices within +-8192, any row. -/
theorem scanlineIntersection_ok {t : EG.Triangle} (h1 : SmallPt t.v1) (h2 : SmallPt t.v2)
    (h3 : SmallPt t.v3) (y : Int) : scanlineIntersection t y = some (t.scanlineIntersection y) := by
  obtain ⟨s1, s2, s3⟩ := sortedYx_all (P := W.pt) (smallPt_W h1) (smallPt_W h2) (smallPt_W h3)
  unfold scanlineIntersection EG.Triangle.scanlineIntersection
  rw [areaDoubled_ok h1 h2 h3]
  simp only [Option.bind_eq_bind, Option.bind_some]
  split
  · exact Scanline.bresenhamIntersection_ok _ (l := ⟨t.sortedYx.v1, t.sortedYx.v3⟩) s1 s3
  · rw [Scanline.bresenhamIntersection_ok _ (l := ⟨t.sortedYx.v1, t.sortedYx.v2⟩) s1 s2]
    simp only [Option.bind_some]
    rw [Scanline.bresenhamIntersection_ok _ (l := ⟨t.sortedYx.v1, t.sortedYx.v3⟩) s1 s3]
    simp only [Option.bind_some]
    exact Scanline.bresenhamIntersection_ok _ (l := ⟨t.sortedYx.v2, t.sortedYx.v3⟩) s2 s3

theorem translate_ok {t : EG.Triangle} (h1 : W.pt t.v1) (h2 : W.pt t.v2) (h3 : W.pt t.v3) {d : Pt}
    (hd : W.pt d) : translate t d = some (t.translate d) := by
  obtain ⟨⟨_, _⟩, ⟨_, _⟩⟩ := h1
  obtain ⟨⟨_, _⟩, ⟨_, _⟩⟩ := h2
  obtain ⟨⟨_, _⟩, ⟨_, _⟩⟩ := h3
  obtain ⟨⟨_, _⟩, ⟨_, _⟩⟩ := hd
  unfold translate EG.Triangle.translate
  rw [ptAdd_ok (by omega) (by omega), ptAdd_ok (by omega) (by omega), ptAdd_ok (by omega) (by omega)]
  rfl

end Triangle
end EG.Chk
