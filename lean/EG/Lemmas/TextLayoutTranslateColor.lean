/-
  EG.Lemmas.TextLayoutTranslateColor — the calls of a translated text for EVERY style, including
  the styles with exactly one of text / background colour set, where the colour adapter
  (`MonoFontDrawTarget` `Foreground` / `Background`) lowers a glyph cell to `draw_iter` over
  `area.points()` zipped with the glyph bits: `Rectangle::points` of the moved cell are the moved
  points as long as the cell is empty or inside the `i32` range before and after the move. Every
  cell lies in its line's strip, every strip in the text's bounding box
  (EG/Lemmas/TextLayoutBox.lean), so the guard is on the bounding box alone.
-/
import EG.Lemmas.TextLayoutTranslate
import EG.Lemmas.TextLayoutBox
import EG.Lemmas.CallTranslate
namespace EG
namespace TextLayout
open Font

/-- A rectangle inside a box that is in the `i32` range before and after the move is empty or in
range before and after the move. -/
theorem moveOK_of_rectIn {a R : Rect} {d : Pt} (h : RectIn a R) (hR : R.InRange)
    (hR' : (R.translate d).InRange) : a.MoveOK d := by
  by_cases hz : a.size.w = 0 ∨ a.size.h = 0
  · exact Or.inl (Rect.isZeroSized_iff.mpr hz)
  · right
    unfold RectIn at h
    unfold Rect.InRange inI32 at hR hR' ⊢
    simp only [Rect.translate_tl, Rect.translate_size, Pt.add_x, Pt.add_y] at hR' ⊢
    omega

theorem zip_filter_map_translate (pts : List Pt) (bits : List Bool) (d : Pt) (keep : Bool → Bool)
    (c : Color) :
    (((pts.map (fun p => p + d)).zip bits).filter (fun pb => keep pb.2)).map (fun pb => (pb.1, c)) =
      Writes.translate d (((pts.zip bits).filter (fun pb => keep pb.2)).map (fun pb => (pb.1, c))) := by
  unfold Writes.translate
  rw [zip_map_left', List.filter_map, List.map_map, List.map_map]
  rfl

/-- **Colour lowering commutes with the move for every mode** (`Foreground`, `Background`, `Both`)
when the cell's `points()` move with it. -/
theorem lower_translate (m : Mode) (d : Pt) (b : BCall) (h : (bcallArea b).MoveOK d) :
    m.lower (bcallTranslate d b) = (m.lower b).map (Call.translate d) := by
  cases b with
  | fillContiguous a bits =>
    have hp := Rect.points_translate_of_moveOK h
    simp only [bcallArea] at hp
    cases m with
    | fg tc =>
      simp only [bcallTranslate, Mode.lower, List.map_cons, List.map_nil, Call.translate, hp]
      rw [zip_filter_map_translate a.points bits d (fun b => b) tc]
    | bg bc =>
      simp only [bcallTranslate, Mode.lower, List.map_cons, List.map_nil, Call.translate, hp]
      rw [zip_filter_map_translate a.points bits d (fun b => !b) bc]
    | both tc bc => rfl
  | fillSolid a on =>
    cases m <;> cases on <;> rfl

/-- The glyph part of a line at a moved position: the moved calls, for every style, when the
line's strip lies in a box that is in range before and after the move. -/
theorem glyphPartCalls_translate_of_box (f : MonoFont) (atlas : Pt → Bool) (st : Style)
    (text : List Nat) (p d : Pt) (R : Rect) (hin : RectIn (strip f p text.length) R)
    (hR : R.InRange) (hR' : (R.translate d).InRange) :
    glyphPartCalls f atlas st text (p + d) = (glyphPartCalls f atlas st text p).map (Call.translate d) := by
  have key : ∀ (m : Mode) (hasBg : Bool),
      (binCalls f atlas hasBg (p + d) text).flatMap m.lower =
        ((binCalls f atlas hasBg p text).flatMap m.lower).map (Call.translate d) := by
    intro m hasBg
    rw [binCalls_translate, List.flatMap_map, List.map_flatMap]
    apply Scan.flatMap_congr' _
    intro b hb
    exact lower_translate m d b
      (moveOK_of_rectIn (RectIn.trans (binCalls_in_strip f atlas hasBg text p b hb) hin) hR hR')
  unfold glyphPartCalls
  cases st.textColor <;> cases st.bgColor
  · rfl
  · exact key _ _
  · exact key _ _
  · exact key _ _

/-- `draw_string` at a moved position makes the moved calls — every style. -/
theorem drawString_calls_translate_of_box (f : MonoFont) (atlas : Pt → Bool) (st : Style)
    (text : List Nat) (p d : Pt) (bl : Baseline) (R : Rect)
    (hin : RectIn (measureString f st text p bl).bbox R) (hR : R.InRange)
    (hR' : (R.translate d).InRange) :
    (f.drawString atlas st text (p + d) bl).1 =
      (f.drawString atlas st text p bl).1.map (Call.translate d) := by
  have e : (⟨(p + d).x, (p + d).y - f.baselineOffset bl⟩ : Pt) = ⟨p.x, p.y - f.baselineOffset bl⟩ + d := by
    rw [Pt.ext_iff']; constructor <;> (try simp only [Pt.add_x, Pt.add_y]) <;> (try omega)
  rw [measureString_bbox] at hin
  rw [drawString_calls, drawString_calls, e,
    glyphPartCalls_translate_of_box f atlas st text _ d R
      (RectIn.trans (strip_in_box f st _ text.length) hin) hR hR',
    decoPartCalls_translate, List.map_append]

theorem drawLines_calls_translate_of_box (f : MonoFont) (atlas : Pt → Bool) (st : Style)
    (bl : Baseline) (d : Pt) (R : Rect) (hR : R.InRange) (hR' : (R.translate d).InRange) :
    ∀ (ls : List (List Nat × Pt)) (n n' : Pt),
      (∀ lp ∈ ls, RectIn (measureString f st lp.1 lp.2 bl).bbox R) →
      (drawLines f atlas st bl (ls.map (fun lp => (lp.1, lp.2 + d))) n').1 =
        (drawLines f atlas st bl ls n).1.map (Call.translate d)
  | [], _, _, _ => rfl
  | (l, p) :: rest, n, n', h => by
    simp only [List.map_cons, drawLines,
      drawString_calls_translate_of_box f atlas st l p d bl R (h (l, p) List.mem_cons_self) hR hR',
      List.map_append]
    rw [drawLines_calls_translate_of_box f atlas st bl d R hR hR' rest _ _
      (fun lp hlp => h lp (List.mem_cons_of_mem _ hlp))]

/-- **The calls of the translated text are the calls of the original moved by `d`, for every
style** — bounding box in the `i32` range before and after the move. -/
theorem draw_calls_translate (f : MonoFont) (atlas : Pt → Bool) (t : Text) (d : Pt)
    (hR : (boundingBox f t).InRange) (hR' : (boundingBox f (t.translate d)).InRange) :
    (draw f atlas (t.translate d)).1 = (draw f atlas t).1.map (Call.translate d) := by
  rw [boundingBox_translate] at hR'
  unfold draw
  rw [lines_translate]
  exact drawLines_calls_translate_of_box f atlas t.style t.ts.baseline d _ hR hR' _ _ _
    (lineBox_in_boundingBox f t)

/-- A call inside a box that is in range before and after the move satisfies the side condition of
the picture lemma. -/
theorem callIn_moveOK {R : Rect} {d : Pt} (hR : R.InRange) (hR' : (R.translate d).InRange) (B : Rect) :
    ∀ {c : Call}, CallIn R c → c.MoveOK B d
  | .drawIter _, _ => trivial
  | .fillContiguous _ _, hc => moveOK_of_rectIn hc hR hR'
  | .fillSolid _ _, hc => moveOK_of_rectIn hc hR hR'
  | .clear _, hc => absurd hc id

end TextLayout
end EG
