/-
  EG.Lemmas.RawBitsT1 — byte-level get/set law for 1 bit(s) per pixel, both data orders, by kernel
  evaluation over the whole domain (see RawBitsDef.lean).
-/
import EG.Lemmas.RawBitsDef
namespace EG.Raw

theorem byteLaw_1_le : byteLawCheck 1 .le = true := by decide +kernel
theorem byteLaw_1_be : byteLawCheck 1 .be = true := by decide +kernel

end EG.Raw
