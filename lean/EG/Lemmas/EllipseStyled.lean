/-
  EG.Lemmas.EllipseStyled — stroke / fill areas of a styled ellipse and the exact pixel maps of
  `draw()` and `pixels()` (same structure as `CircleStyled`, with `rows.find_map` scanlines).
-/
import EG.Lemmas.EllipsePoints
import EG.Lemmas.CircleStyled
namespace EG
namespace Ellipse

/-! ### `offset` -/

/-- The size computed by `OffsetOutline::offset`. -/
def offsetSize (s : Sz) (o : Int) : Sz :=
  if o ≥ 0 then s.satAdd (Sz.newEqual (2 * o.toNat)) else s.satSub (Sz.newEqual (2 * (-o).toNat))

theorem offset_nonneg (e : Ellipse) (o : Int) (h : o ≥ 0) :
    e.offset o = ⟨e.tl - ⟨o, o⟩, offsetSize e.size o⟩ := by
  unfold offset offsetSize; rw [if_pos h, if_pos h]
theorem offset_neg (e : Ellipse) (o : Int) (h : ¬ o ≥ 0) :
    e.offset o = withCenter e.center (offsetSize e.size o) := by
  unfold offset offsetSize; rw [if_neg h, if_neg h]
theorem offset_size (e : Ellipse) (o : Int) : (e.offset o).size = offsetSize e.size o := by
  by_cases h : o ≥ 0
  · rw [offset_nonneg e o h]
  · rw [offset_neg e o h]; rfl

theorem withCenter_def (e : Ellipse) (s' : Sz) :
    withCenter e.center s' =
      ⟨⟨e.tl.x + (((e.size.w - 1) / 2 : Nat) : Int) - (((s'.w - 1) / 2 : Nat) : Int),
        e.tl.y + (((e.size.h - 1) / 2 : Nat) : Int) - (((s'.h - 1) / 2 : Nat) : Int)⟩, s'⟩ := rfl

theorem offsetSize_grow (s : Sz) (k : Nat) (hw : s.w + 2 * k ≤ 4294967295) (hh : s.h + 2 * k ≤ 4294967295) :
    offsetSize s (k : Int) = ⟨s.w + 2 * k, s.h + 2 * k⟩ := by
  unfold offsetSize Sz.satAdd Sz.newEqual satAddU32
  rw [if_pos (by omega)]
  simp only [Int.toNat_natCast]
  rw [if_pos hw, if_pos hh]

theorem offsetSize_shrink (s : Sz) (k : Nat) (hk : 1 ≤ k) :
    offsetSize s (-(k : Int)) = ⟨s.w - 2 * k, s.h - 2 * k⟩ := by
  unfold offsetSize Sz.satSub Sz.newEqual
  rw [if_neg (by omega)]
  simp only [Int.neg_neg, Int.toNat_natCast]

/-- Re-centring on the same centre with a size of the same parity keeps `center_2x`. -/
theorem withCenter_center2x (e : Ellipse) (s' : Sz) (hw : 1 ≤ e.size.w) (hh : 1 ≤ e.size.h)
    (hw' : 1 ≤ s'.w) (hh' : 1 ≤ s'.h) (pw : s'.w % 2 = e.size.w % 2) (ph : s'.h % 2 = e.size.h % 2) :
    (withCenter e.center s').center2x = e.center2x := by
  rw [withCenter_def, Pt.ext_iff', center2x_x, center2x_y, center2x_x, center2x_y]
  simp only
  constructor <;> omega

/-- **`offset` by `k ≥ 0` grows the ellipse by `k` on every side** (no `u32` saturation). -/
theorem offset_grow (e : Ellipse) (k : Nat) (_hw : 1 ≤ e.size.w) (_hh : 1 ≤ e.size.h)
    (sw : e.size.w + 2 * k ≤ 4294967295) (sh : e.size.h + 2 * k ≤ 4294967295) :
    e.offset (k : Int) = ⟨⟨e.tl.x - k, e.tl.y - k⟩, ⟨e.size.w + 2 * k, e.size.h + 2 * k⟩⟩ := by
  rw [offset_nonneg e k (by omega), offsetSize_grow _ _ sw sh]
  simp only [Ellipse.mk.injEq, Pt.ext_iff', Pt.sub_x, Pt.sub_y, and_true]

/-- **`offset` by `-k` shrinks the ellipse by `k` on every side** while something is left. -/
theorem offset_shrink (e : Ellipse) (k : Nat) (hk : 1 ≤ k) (hw : 2 * k < e.size.w) (hh : 2 * k < e.size.h) :
    e.offset (-(k : Int)) = ⟨⟨e.tl.x + k, e.tl.y + k⟩, ⟨e.size.w - 2 * k, e.size.h - 2 * k⟩⟩ := by
  rw [offset_neg e _ (by omega), offsetSize_shrink _ _ hk, withCenter_def]
  simp only [Ellipse.mk.injEq, Pt.ext_iff', and_true]
  constructor <;> omega

theorem offset_shrink_size (e : Ellipse) (k : Nat) (hk : 1 ≤ k) :
    (e.offset (-(k : Int))).size = ⟨e.size.w - 2 * k, e.size.h - 2 * k⟩ := by
  rw [offset_size, offsetSize_shrink _ _ hk]

theorem offset_zero (e : Ellipse) (hw : e.size.w ≤ 4294967295) (hh : e.size.h ≤ 4294967295) :
    e.offset 0 = e := by
  have := offsetSize_grow e.size 0 (by omega) (by omega)
  simp only [Int.natCast_zero, Nat.mul_zero, Nat.add_zero] at this
  rw [offset_nonneg e 0 (by omega), this]
  cases e with
  | mk tl size =>
    simp only [Ellipse.mk.injEq, Pt.ext_iff', Pt.sub_x, Pt.sub_y, and_true]
    constructor <;> omega

/-- `offset` keeps `center_2x` whenever the ellipse and its offset are not empty (and the grown
size does not saturate). -/
theorem offset_center2x (e : Ellipse) (o : Int) (hw : 1 ≤ e.size.w) (hh : 1 ≤ e.size.h)
    (hw' : 1 ≤ (e.offset o).size.w) (hh' : 1 ≤ (e.offset o).size.h)
    (hs : o ≥ 0 → (e.offset o).size = ⟨e.size.w + 2 * o.toNat, e.size.h + 2 * o.toNat⟩)
    (pw : (e.offset o).size.w % 2 = e.size.w % 2) (ph : (e.offset o).size.h % 2 = e.size.h % 2) :
    (e.offset o).center2x = e.center2x := by
  by_cases h : o ≥ 0
  · have hd := hs h
    rw [Pt.ext_iff', center2x_x, center2x_y, center2x_x, center2x_y, hd]
    rw [offset_nonneg e o h]
    simp only [Pt.sub_x, Pt.sub_y]
    constructor <;> omega
  · rw [offset_neg e o h] at hw' hh' pw ph ⊢
    exact withCenter_center2x e _ hw hh hw' hh' pw ph

/-! ### stroke area and fill area -/

theorem strokeArea_size {st : PrimStyle} {e : Ellipse} (hS : (e.strokeArea st).InRange) :
    (e.strokeArea st).size =
      ⟨e.size.w + 2 * st.strokeOffset.toNat, e.size.h + 2 * st.strokeOffset.toNat⟩ := by
  have hlw := Rect.InRange.w_le hS
  have hlh := Rect.InRange.h_le hS
  have h0 := PrimStyle.satAsI32_nonneg st.outsideStrokeWidth
  unfold strokeArea at hlw hlh ⊢
  simp only [boundingBox] at hlw hlh
  rw [offset_size] at hlw hlh ⊢
  unfold PrimStyle.strokeOffset at hlw hlh ⊢
  unfold offsetSize Sz.satAdd Sz.newEqual satAddU32 at hlw hlh ⊢
  rw [if_pos (by omega)] at hlw hlh ⊢
  simp only at hlw hlh ⊢
  split at hlw <;> split at hlh <;> rename_i c1 c2
  · rw [if_pos c1, if_pos c2]
  · omega
  · omega
  · omega

theorem fillArea_size {st : PrimStyle} {e : Ellipse} (hF : (e.fillArea st).InRange) :
    (e.fillArea st).size =
      ⟨e.size.w - 2 * (-st.fillOffset).toNat, e.size.h - 2 * (-st.fillOffset).toNat⟩ := by
  have hlw := Rect.InRange.w_le hF
  have hlh := Rect.InRange.h_le hF
  have h0 := PrimStyle.satAsI32_nonneg st.insideStrokeWidth
  unfold fillArea at hlw hlh ⊢
  simp only [boundingBox] at hlw hlh
  rw [offset_size] at hlw hlh ⊢
  unfold PrimStyle.fillOffset at hlw hlh ⊢
  by_cases hz : satAsI32 st.insideStrokeWidth = 0
  · rw [hz] at hlw hlh ⊢
    unfold offsetSize Sz.satAdd Sz.newEqual satAddU32 at hlw hlh ⊢
    simp only [Int.neg_zero, ge_iff_le, Int.le_refl, ↓reduceIte, Int.toNat_zero, Nat.mul_zero,
      Nat.add_zero, Nat.sub_zero] at hlw hlh ⊢
    split at hlw <;> split at hlh <;> rename_i c1 c2
    · rw [if_pos c1, if_pos c2]
    · omega
    · omega
    · omega
  · unfold offsetSize Sz.satSub Sz.newEqual
    rw [if_neg (by omega)]

/-- Relations between the two areas that the scanline code relies on. -/
theorem areas_rel {st : PrimStyle} {e : Ellipse} (hS : (e.strokeArea st).InRange)
    (hF : (e.fillArea st).InRange) :
    (e.fillArea st).size.w ≤ (e.strokeArea st).size.w ∧
    (e.fillArea st).size.h ≤ (e.strokeArea st).size.h ∧
    ((e.strokeArea st).size.w = (e.strokeArea st).size.h → (e.fillArea st).size.w = (e.fillArea st).size.h) ∧
    (1 ≤ (e.fillArea st).size.w → 1 ≤ (e.fillArea st).size.h →
      (e.fillArea st).center2x = (e.strokeArea st).center2x) := by
  have hs := strokeArea_size hS
  have hf := fillArea_size hF
  rw [hs, hf]
  simp only
  refine ⟨by omega, by omega, by omega, ?_⟩
  intro h1 h2
  have hF2 : (e.fillArea st).center2x = e.center2x := by
    unfold fillArea at hf ⊢
    apply offset_center2x e _ (by omega) (by omega)
    · rw [hf]; simp only; omega
    · rw [hf]; simp only; omega
    · intro hge
      have : st.fillOffset = 0 := by
        have := PrimStyle.satAsI32_nonneg st.insideStrokeWidth
        unfold PrimStyle.fillOffset at hge ⊢; omega
      rw [hf, this]; simp
    · rw [hf]; simp only; omega
    · rw [hf]; simp only; omega
  have hS2 : (e.strokeArea st).center2x = e.center2x := by
    unfold strokeArea at hs ⊢
    apply offset_center2x e _ (by omega) (by omega)
    · rw [hs]; simp only; omega
    · rw [hs]; simp only; omega
    · intro _; exact hs
    · rw [hs]; simp only; omega
    · rw [hs]; simp only; omega
  rw [hF2, hS2]

theorem areas_eq_of_zero_width {st : PrimStyle} (e : Ellipse) (h : st.strokeWidth = 0) :
    e.strokeArea st = e.fillArea st := by
  unfold strokeArea fillArea
  rw [(st.zero_width_offsets h).1, (st.zero_width_offsets h).2]

/-- Concentric areas: the fill test implies the stroke test. -/
theorem hit_nested {c2 : Pt} {sF sS : Sz} (hw : sF.w ≤ sS.w) (hh : sF.h ≤ sS.h)
    (hcls : sS.w = sS.h → sF.w = sF.h) {x y : Int}
    (h : hit c2 (EllipseContains.new sF) y x = true) : hit c2 (EllipseContains.new sS) y x = true := by
  by_cases hS : sS.w = sS.h
  · have hFe := hcls hS
    rw [hit_iff] at h ⊢
    obtain ⟨a1, a2, a3⟩ := EllipseContains.new_circle hFe
    obtain ⟨b1, b2, b3⟩ := EllipseContains.new_circle hS
    unfold EllipseContains.wdist at h ⊢
    rw [a1, a2, a3] at h
    rw [b1, b2, b3]
    have := threshold_mono hw
    omega
  · have hi := EllipseContains.ideal_of_contains (s := sF) h
    simp only at hi
    rw [hit_iff]
    obtain ⟨b1, b2, b3⟩ := EllipseContains.new_ellipse hS
    unfold EllipseContains.wdist
    rw [b1, b2, b3]
    simp only
    have hX := mul_self_nonneg (x * 2 - c2.x)
    have hY := mul_self_nonneg (y * 2 - c2.y)
    have haa : ((sF.w * sF.w : Nat) : Int) ≤ ((sS.w * sS.w : Nat) : Int) := by
      exact_mod_cast Nat.mul_le_mul hw hw
    have hbb : ((sF.h * sF.h : Nat) : Int) ≤ ((sS.h * sS.h : Nat) : Int) := by
      exact_mod_cast Nat.mul_le_mul hh hh
    have hi' : ((sF.h * sF.h : Nat) : Int) * ((x * 2 - c2.x) * (x * 2 - c2.x)) +
        ((sF.w * sF.w : Nat) : Int) * ((y * 2 - c2.y) * (y * 2 - c2.y)) <
        ((sF.w * sF.w : Nat) : Int) * ((sF.h * sF.h : Nat) : Int) := by
      rw [Int.mul_comm ((sF.w * sF.w : Nat) : Int) ((sF.h * sF.h : Nat) : Int)]
      push_cast at hi ⊢
      exact hi
    have := ellipse_nested (Int.natCast_nonneg _) (Int.natCast_nonneg _) hX hY hi' haa hbb
    rw [Int.mul_comm ((sS.w * sS.w : Nat) : Int) ((sS.h * sS.h : Nat) : Int)] at this
    push_cast at this ⊢
    exact this

/-! ### the scanlines a `for` loop sees -/

/-- What is true of every scanline the iterator yields for ellipse `e`. -/
structure ScanOK (e : Ellipse) (s : Scanline) : Prop where
  inbox : e.tl.x ≤ s.xs ∧ s.xs < s.xe ∧ s.xe ≤ e.tl.x + e.size.w ∧ e.tl.y ≤ s.y ∧ s.y < e.tl.y + e.size.h
  centred : s.xs + s.xe = e.tl.x + (e.tl.x + e.size.w)
  hits : ∀ x, e.contains ⟨x, s.y⟩ = true ↔ s.xs ≤ x ∧ x < s.xe

theorem mem_scanlines_toList {e : Ellipse} (h : e.InRange) {s : Scanline} :
    s ∈ e.scanlines.toList ↔ ∃ y, e.tl.y ≤ y ∧ y < e.tl.y + e.size.h ∧
      (mirroredRange (hit e.center2x (EllipseContains.new e.size) y) e.tl.x (e.tl.x + e.size.w)).map
        (fun r => (⟨y, r.1, r.2⟩ : Scanline)) = some s := by
  rw [ScanlinesIt.toList_eq, scanlines_eq h]
  unfold ScanlinesIt.rest ScanlinesIt.row
  simp only [List.mem_filterMap, mem_irange]
  constructor
  · rintro ⟨y, hy, hr⟩; exact ⟨y, hy.1, hy.2, hr⟩
  · rintro ⟨y, h1, h2, hr⟩; exact ⟨y, ⟨h1, h2⟩, hr⟩

theorem scan_ok {e : Ellipse} (h : e.InRange) : ∀ s ∈ e.scanlines.toList, ScanOK e s := by
  intro s hs
  rw [mem_scanlines_toList h] at hs
  obtain ⟨y, h1, h2, hr⟩ := hs
  rcases row_spec e y with ⟨hm, _⟩ | ⟨l, u, hm, a1, a2, a3, a4, a5⟩
  · rw [hm] at hr; cases hr
  · rw [hm] at hr
    simp only [Option.map_some, Option.some.injEq] at hr
    subst hr
    exact ⟨⟨a1, a2, a3, h1, h2⟩, a4, a5⟩

theorem scan_cover {e : Ellipse} (h : e.InRange) {p : Pt} (hp : e.contains p = true) :
    ∃ s ∈ e.scanlines.toList, s.y = p.y := by
  have hb := contains_imp_box hp
  rcases row_spec e p.y with ⟨_, hno⟩ | ⟨l, u, hm, _⟩
  · have := hno p.x
    rw [show (⟨p.x, p.y⟩ : Pt) = p from rfl, hp] at this; cases this
  · refine ⟨⟨p.y, l, u⟩, ?_, rfl⟩
    rw [mem_scanlines_toList h]
    exact ⟨p.y, hb.2.2.1, hb.2.2.2, by rw [hm]; rfl⟩

theorem ScanOK.wf {e : Ellipse} {s : Scanline} (h : e.InRange) (hs : ScanOK e s) : s.WF := by
  obtain ⟨⟨a1, a2, a3, a4, a5⟩, _, _⟩ := hs
  unfold InRange Rect.InRange inI32 boundingBox at h
  simp only at h
  unfold Scanline.WF Rect.InRange inI32
  simp only
  omega

/-! ### the styled scanlines a `for` loop sees -/

theorem ScanlinesIt.next_center2x (it : ScanlinesIt) : (it.next).2.center2x = it.center2x := by
  unfold ScanlinesIt.next
  generalize (it.yEnd - it.y).toNat + 1 = fuel
  induction fuel generalizing it with
  | zero => rfl
  | succ fuel ih =>
    unfold ScanlinesIt.nextFuel
    split
    · split
      · rfl
      · rw [ih]
    · rfl

theorem StyledScanlinesIt.toListFuel_eq : ∀ (fuel : Nat) (it : StyledScanlinesIt),
    it.toListFuel fuel = (it.scanlines.toListFuel fuel).map it.style := by
  intro fuel
  induction fuel with
  | zero => intro it; rfl
  | succ fuel ih =>
    intro it
    unfold StyledScanlinesIt.toListFuel StyledScanlinesIt.next ScanlinesIt.toListFuel
    have hc := ScanlinesIt.next_center2x it.scanlines
    cases hn : it.scanlines.next with
    | mk o sl' =>
      rw [hn] at hc
      cases o with
      | none => rfl
      | some s =>
        simp only [List.map_cons]
        rw [ih]
        congr 1
        congr 1
        unfold StyledScanlinesIt.style
        simp only at hc ⊢
        rw [hc]

theorem StyledScanlinesIt.toList_eq (it : StyledScanlinesIt) :
    it.toList = it.scanlines.toList.map it.style :=
  StyledScanlinesIt.toListFuel_eq _ it

/-- What is true of every styled scanline the iterator yields for stroke area `S`, fill area `F`. -/
structure RowOK (S F : Ellipse) (l : StyledScanline) : Prop where
  order : l.ss ≤ l.fs ∧ l.fs ≤ l.fe ∧ l.fe ≤ l.se
  inbox : S.tl.x ≤ l.ss ∧ l.se ≤ S.tl.x + S.size.w ∧ S.tl.y ≤ l.y ∧ l.y < S.tl.y + S.size.h
  stroke : ∀ x, S.contains ⟨x, l.y⟩ = true ↔ l.ss ≤ x ∧ x < l.se
  fill : ∀ x, F.contains ⟨x, l.y⟩ = true ↔ l.fs ≤ x ∧ x < l.fe

/-- The hypotheses about a stroke area `S` and a fill area `F` (see `areas_rel`). -/
structure AreasRel (S F : Ellipse) : Prop where
  w_le : F.size.w ≤ S.size.w
  h_le : F.size.h ≤ S.size.h
  cls : S.size.w = S.size.h → F.size.w = F.size.h
  centre : 1 ≤ F.size.w → 1 ≤ F.size.h → F.center2x = S.center2x

theorem style_ok {S F : Ellipse} {s : Scanline} (hs : ScanOK S s) (hr : AreasRel S F) :
    ((styledScanlines S F).style s).y = s.y ∧ RowOK S F ((styledScanlines S F).style s) := by
  obtain ⟨⟨a1, a2, a3, a4, a5⟩, hcen, hhits⟩ := hs
  have hSw : 1 ≤ S.size.w := by omega
  have hsc : SymConvex (hit S.center2x (EllipseContains.new F.size) s.y) s.xs s.xe :=
    hit_symConvex_row _ _ (by rw [center2x_x]; omega)
  have hFS : ∀ x, hit S.center2x (EllipseContains.new F.size) s.y x = true → s.xs ≤ x ∧ x < s.xe := by
    intro x hx
    rw [← hhits, contains_eq_hit]
    exact hit_nested hr.w_le hr.h_le hr.cls hx
  have hFc : ∀ x, F.contains ⟨x, s.y⟩ = hit S.center2x (EllipseContains.new F.size) s.y x := by
    intro x
    by_cases h1 : 1 ≤ F.size.w ∧ 1 ≤ F.size.h
    · rw [contains_eq_hit, hr.centre h1.1 h1.2]
    · have h0 : F.size.w = 0 ∨ F.size.h = 0 := by omega
      rw [contains_false_of_zero h0]
      symm
      rw [Bool.eq_false_iff]
      intro hx
      -- a hit of the fill test would be a point of the ellipse `⟨S.tl', F.size⟩` with a zero side
      have hi := EllipseContains.ideal_of_contains (s := F.size) hx
      have hb := ideal_bounds hi
      omega
  have hst : (styledScanlines S F).style s = StyledScanline.new s.y s.xs s.xe
      (mirroredRange (hit S.center2x (EllipseContains.new F.size) s.y) s.xs s.xe) := rfl
  rw [hst]
  cases hm : mirroredRange (hit S.center2x (EllipseContains.new F.size) s.y) s.xs s.xe with
  | none =>
    simp only [StyledScanline.new]
    refine ⟨by first | rfl | trivial, ?_⟩
    constructor
    · dsimp only; omega
    · dsimp only; exact ⟨a1, a3, a4, a5⟩
    · dsimp only; exact hhits
    · intro x
      dsimp only
      rw [hFc]
      constructor
      · intro hx
        have hb := hFS x hx
        rw [mirroredRange_none.mp hm x hb.1 hb.2] at hx
        cases hx
      · intro hx; omega
  | some r =>
    obtain ⟨fl, fu⟩ := r
    obtain ⟨s1, s2, s3, s4, _⟩ := mirroredRange_spec hsc hm
    simp only [StyledScanline.new]
    refine ⟨by first | rfl | trivial, ?_⟩
    constructor
    · dsimp only; omega
    · dsimp only; exact ⟨a1, a3, a4, a5⟩
    · dsimp only; exact hhits
    · intro x
      dsimp only
      rw [hFc]
      constructor
      · intro hx
        have hb := hFS x hx
        exact (s1 x hb.1 hb.2).mp hx
      · intro hx
        exact (s1 x (by omega) (by omega)).mpr hx

theorem RowOK.wf {S F : Ellipse} {l : StyledScanline} (h : S.InRange) (hl : RowOK S F l) : l.WF := by
  obtain ⟨⟨o1, o2, o3⟩, ⟨b1, b2, b3, b4⟩, _, _⟩ := hl
  unfold InRange Rect.InRange inI32 boundingBox at h
  simp only at h
  unfold StyledScanline.WF Scanline.WF Rect.InRange inI32 StyledScanline.strokeLeft
    StyledScanline.fill StyledScanline.strokeRight
  simp only
  omega

/-- A fill-area point is a stroke-area point. -/
theorem fill_subset {S F : Ellipse} (hr : AreasRel S F) {p : Pt} (h : F.contains p = true) :
    S.contains p = true := by
  have hb := contains_imp_box h
  have hc := hr.centre (by omega) (by omega)
  cases p with
  | mk x y =>
    rw [contains_eq_hit] at h ⊢
    rw [hc] at h
    exact hit_nested hr.w_le hr.h_le hr.cls h

section lines
variable {S F : Ellipse} (hS : S.InRange) (hr : AreasRel S F)
include hS hr

theorem lines_ok : ∀ l ∈ (styledScanlines S F).toList, RowOK S F l := by
  intro l hl
  rw [StyledScanlinesIt.toList_eq, List.mem_map] at hl
  obtain ⟨s, hs, rfl⟩ := hl
  exact (style_ok (scan_ok hS s hs) hr).2

theorem lines_cover {p : Pt} (hp : S.contains p = true) :
    ∃ l ∈ (styledScanlines S F).toList, l.y = p.y := by
  obtain ⟨s, hs, hy⟩ := scan_cover hS hp
  refine ⟨(styledScanlines S F).style s, ?_, ?_⟩
  · rw [StyledScanlinesIt.toList_eq, List.mem_map]; exact ⟨s, hs, rfl⟩
  · rw [(style_ok (scan_ok hS s hs) hr).1, hy]

/-- Membership in the coloured points of the styled scanlines, in terms of the two areas. -/
theorem mem_lines_iff (scol fcol : Option Color) (p : Pt) (col : Color) :
    (p, col) ∈ pixelsSpec scol fcol (styledScanlines S F).toList ↔
      (F.contains p = true ∧ fcol = some col) ∨
      (S.contains p = true ∧ F.contains p = false ∧ scol = some col) := by
  rw [mem_pixelsSpec]
  constructor
  · rintro ⟨l, hl, hm⟩
    obtain ⟨⟨o1, o2, o3⟩, _, hst, hfi⟩ := lines_ok hS hr l hl
    rw [StyledScanline.mem_pixelsSpec] at hm
    obtain ⟨hy, hm⟩ := hm
    have hp : p = ⟨p.x, l.y⟩ := by rw [← hy]
    rcases hm with ⟨hcol, hx⟩ | ⟨hcol, hx⟩
    · right
      refine ⟨?_, ?_, hcol⟩
      · rw [hp, hst]; omega
      · rw [hp, Bool.eq_false_iff, Ne, hfi]; omega
    · left
      exact ⟨by rw [hp, hfi]; exact hx, hcol⟩
  · intro h
    have hSc : S.contains p = true := by
      rcases h with ⟨hf, _⟩ | ⟨hs, _⟩
      · exact fill_subset hr hf
      · exact hs
    obtain ⟨l, hl, hy⟩ := lines_cover hS hr hSc
    obtain ⟨⟨o1, o2, o3⟩, _, hst, hfi⟩ := lines_ok hS hr l hl
    have hp : p = ⟨p.x, l.y⟩ := by rw [hy]
    refine ⟨l, hl, ?_⟩
    rw [StyledScanline.mem_pixelsSpec]
    refine ⟨hy.symm, ?_⟩
    rw [hp, hst] at hSc
    rcases h with ⟨hf, hcol⟩ | ⟨_, hf, hcol⟩
    · right
      rw [hp, hfi] at hf
      exact ⟨hcol, hf⟩
    · left
      rw [hp, Bool.eq_false_iff, Ne, hfi] at hf
      exact ⟨hcol, by omega⟩

end lines

/-- Membership in the fill-only draw path's writes. -/
theorem mem_fill_lines_iff {F : Ellipse} (hF : F.InRange) (fc : Color) (p : Pt) (col : Color) :
    (p, col) ∈ F.scanlines.toList.flatMap (fun l => l.points.map (fun q => (q, fc))) ↔
      F.contains p = true ∧ fc = col := by
  simp only [List.mem_flatMap, List.mem_map, Prod.mk.injEq]
  constructor
  · rintro ⟨s, hs, q, hq, rfl, rfl⟩
    obtain ⟨_, _, hhits⟩ := scan_ok hF s hs
    rw [Scanline.mem_points] at hq
    refine ⟨?_, rfl⟩
    have hp : q = ⟨q.x, s.y⟩ := by rw [← hq.1]
    rw [hp, hhits]; exact hq.2
  · rintro ⟨hf, rfl⟩
    obtain ⟨s, hs, hy⟩ := scan_cover hF hf
    obtain ⟨_, _, hhits⟩ := scan_ok hF s hs
    refine ⟨s, hs, p, ?_, rfl, rfl⟩
    rw [Scanline.mem_points]
    refine ⟨hy.symm, ?_⟩
    have hp : p = ⟨p.x, s.y⟩ := by rw [hy]
    rw [hp, hhits] at hf
    exact hf

/-! ### the exact pixel maps -/

/-- The colour the property text prescribes for point `p` (before clipping to the target). -/
def styledExpected (st : PrimStyle) (e : Ellipse) (p : Pt) : Option Color :=
  if (e.fillArea st).contains p = true then st.fillColor
  else if (e.strokeArea st).contains p = true ∧ st.strokeWidth > 0 then st.strokeColor
  else none

theorem styledExpected_eq_some (st : PrimStyle) (e : Ellipse) (p : Pt) (col : Color) :
    styledExpected st e p = some col ↔
      ((e.fillArea st).contains p = true ∧ st.fillColor = some col) ∨
      ((e.strokeArea st).contains p = true ∧ (e.fillArea st).contains p = false ∧
        st.strokeWidth > 0 ∧ st.strokeColor = some col) := by
  unfold styledExpected
  by_cases hf : (e.fillArea st).contains p = true
  · simp [hf]
  · have hf' : (e.fillArea st).contains p = false := by simpa using hf
    by_cases hs : (e.strokeArea st).contains p = true ∧ st.strokeWidth > 0
    · simp [hf', hs]
    · simp only [hf', Bool.false_eq_true, ↓reduceIte, hs, false_and, false_or, true_and]
      constructor
      · intro h; cases h
      · rintro ⟨h1, h2, _⟩; exact absurd ⟨h1, h2⟩ hs

section exact
variable {st : PrimStyle} {e : Ellipse} (hS : (e.strokeArea st).InRange) (hF : (e.fillArea st).InRange)
include hS hF

theorem areasRel : AreasRel (e.strokeArea st) (e.fillArea st) := by
  obtain ⟨h1, h2, h3, h4⟩ := areas_rel hS hF
  exact ⟨h1, h2, h3, h4⟩

/-- Membership in the (unclipped, natively lowered) writes of `draw()`. -/
theorem mem_draw_iff (B : Rect) (p : Pt) (col : Color) :
    (p, col) ∈ (e.drawStyled st).flatMap (Call.lowerNative B) ↔ styledExpected st e p = some col := by
  have hr := areasRel hS hF
  rw [styledExpected_eq_some]
  unfold drawStyled PrimStyle.effectiveStrokeColor
  cases hsc : st.strokeColor with
  | none =>
    cases hfc : st.fillColor with
    | none => simp
    | some fc =>
      simp only
      rw [drawFillLines_lowerNative fc _ (fun l hl => (scan_ok hF l hl).wf hF), mem_fill_lines_iff hF]
      simp
  | some sc =>
    by_cases hw : st.strokeWidth > 0
    · simp only [hw, ↓reduceIte]
      cases hfc : st.fillColor with
      | none =>
        simp only
        rw [drawLines_lowerNative sc none _ (fun l hl => (lines_ok hS hr l hl).wf hS),
          mem_lines_iff hS hr]
        simp
      | some fc =>
        simp only
        rw [drawLines_lowerNative sc (some fc) _ (fun l hl => (lines_ok hS hr l hl).wf hS),
          mem_lines_iff hS hr]
        simp
    · simp only [hw, ↓reduceIte]
      cases hfc : st.fillColor with
      | none => simp
      | some fc =>
        simp only
        rw [drawFillLines_lowerNative fc _ (fun l hl => (scan_ok hF l hl).wf hF), mem_fill_lines_iff hF]
        simp

/-- Membership in the pixels of `pixels()`. -/
theorem mem_pixels_iff (p : Pt) (col : Color) :
    (p, col) ∈ e.styledPixels st ↔ styledExpected st e p = some col := by
  have hr := areasRel hS hF
  rw [styledExpected_eq_some]
  unfold styledPixels styledPixelsIt
  rw [StyledPixelsIt.toList_new, mem_lines_iff hS hr]
  by_cases hw : st.strokeWidth > 0
  · simp [hw]
  · have h0 : st.strokeWidth = 0 := by omega
    rw [areas_eq_of_zero_width e h0]
    simp only [hw, false_and, and_false, or_false]
    constructor
    · rintro (h | ⟨h1, h2, _⟩)
      · exact h
      · rw [h1] at h2; cases h2
    · intro h; exact Or.inl h

theorem fill_subset_stroke {p : Pt} (h : (e.fillArea st).contains p = true) :
    (e.strokeArea st).contains p = true := fill_subset (areasRel hS hF) h

end exact

theorem strokeArea_inside {st : PrimStyle} (e : Ellipse) (h : st.strokeAlignment = .inside)
    (hw : e.size.w ≤ 4294967295) (hh : e.size.h ≤ 4294967295) : e.strokeArea st = e := by
  unfold strokeArea PrimStyle.strokeOffset PrimStyle.outsideStrokeWidth
  rw [h]
  exact offset_zero e hw hh

theorem fillArea_outside {st : PrimStyle} (e : Ellipse) (h : st.strokeAlignment = .outside)
    (hw : e.size.w ≤ 4294967295) (hh : e.size.h ≤ 4294967295) : e.fillArea st = e := by
  unfold fillArea PrimStyle.fillOffset PrimStyle.insideStrokeWidth
  rw [h]
  exact offset_zero e hw hh

end Ellipse
end EG
