/-
  EG.Lemmas.C01ThickPoly — styled polylines of width > 1: the `fill_solid` rectangles of
  `draw_styled` (`Joins.drawStyled`) write, in the same order, exactly the points `pixels()`
  (`Joins.pixels`) yields.

  Both walk the same `ScanlineIterator` (`PolyScanlines`): `draw_thick` turns every scanline into a
  1-px-high rectangle, `StyledPixelsIterator` walks every scanline point by point.
  * `polyLines`: the complete scanline run exists, is what `draw_thick`'s `for` loop sees (the
    step budget `stepBudget` of `toList` is never used up) and consists of non-empty scanlines;
  * `polyPix_run`: the pixel iterator's complete run is the concatenation of the scanlines' points,
    moved by `translate`;
  * `pixels_eq_of_lt_budget`: `Joins.pixels` is that list whenever it is shorter than its budget.
-/
import EG.Lemmas.C01ThickStream
import EG.Lemmas.JoinsTotalPoly
import EG.Lemmas.JoinsPolyScan
import EG.Lemmas.ScanlinePaths
namespace EG
namespace C01Thick
open EG.Tgt EG.Joins

/-! ### the model drains are `listFuel` -/

theorem polyScanlines_toListFuel_eq : ∀ (fuel : Nat) (it : PolyScanlines),
    it.toListFuel fuel = listFuel PolyScanlines.next fuel it := by
  intro fuel
  induction fuel with
  | zero => intro it; rfl
  | succ n ih =>
    intro it
    rw [PolyScanlines.toListFuel, listFuel]
    cases it.next with
    | none => rfl
    | some r =>
      cases r with
      | none => rfl
      | some p =>
        obtain ⟨s, it'⟩ := p
        simp only [Option.bind_eq_bind, Option.bind_some, ih it']
        cases listFuel PolyScanlines.next n it' <;> rfl

theorem polyThickPixels_toListFuel_eq : ∀ (fuel : Nat) (it : PolyThickPixels),
    it.toListFuel fuel = listFuel PolyThickPixels.next fuel it := by
  intro fuel
  induction fuel with
  | zero => intro it; rfl
  | succ n ih =>
    intro it
    rw [PolyThickPixels.toListFuel, listFuel]
    cases it.next with
    | none => rfl
    | some r =>
      cases r with
      | none => rfl
      | some p =>
        obtain ⟨s, it'⟩ := p
        simp only [Option.bind_eq_bind, Option.bind_some, ih it']
        cases listFuel PolyThickPixels.next n it' <;> rfl

/-! ### `ScanlineIterator::next`: what it returns is non-empty and lowers `mu` -/

theorem polyScanlines_nextFuel_yield : ∀ (fuel : Nat) (it : PolyScanlines) (s : Scanline)
    (it' : PolyScanlines), PolyScanlines.Ok it → it.nextFuel fuel = some (some (s, it')) →
    PolyScanlines.Ok it' ∧ PolyScanlines.mu it' < PolyScanlines.mu it ∧ s.isEmpty = false := by
  intro fuel
  induction fuel with
  | zero => intro it s it' _ h; cases h
  | succ n ih =>
    intro it s it' hok h
    obtain ⟨r, ints', hn, hl', hp', hw', hm'⟩ := PolyIntersections.next_spec it.intersections hok
    rw [PolyScanlines.nextFuel, hn] at h
    cases r with
    | some nxt =>
      dsimp only at h
      have hm := hm' rfl
      by_cases he : nxt.isEmpty = true
      · simp only [he, Bool.not_true, Bool.false_eq_true, ↓reduceIte] at h
        obtain ⟨h1, h2, h3⟩ := ih _ s it' (show PolyScanlines.Ok { it with intersections := ints' } from hl') h
        refine ⟨h1, ?_, h3⟩
        unfold PolyScanlines.mu at h2 ⊢
        dsimp only at h2
        rw [hp'] at h2
        omega
      · have he' : nxt.isEmpty = false := by simpa using he
        simp only [he', Bool.not_false, ↓reduceIte, Option.some.injEq, Prod.mk.injEq] at h
        obtain ⟨rfl, rfl⟩ := h
        refine ⟨hl', ?_, he'⟩
        unfold PolyScanlines.mu
        dsimp only
        rw [hp']
        omega
    | none =>
      dsimp only at h
      by_cases hrows : it.rowsStart < it.rowsEnd
      · simp only [hrows, ↓reduceIte] at h
        obtain ⟨ints2, h2, e1, e2, e3, e4⟩ :=
          PolyIntersections.new_total ints'.points ints'.width it.rowsStart
        have hreset : ints'.resetWithNewScanline it.rowsStart = some ints2 := h2
        rw [hreset] at h
        dsimp only at h
        have hok2 : PolyScanlines.Ok ⟨it.rowsStart + 1, it.rowsEnd, it.rowsStart, ints2⟩ := by
          show ints2.remainingPoints.length ≤ ints2.points.length
          rw [e1, e2]
        obtain ⟨h1, h2', h3⟩ := ih _ s it' hok2 h
        refine ⟨h1, ?_, h3⟩
        have hm2 : PolyIntersections.m ints2 ≤ ints2.points.length := by
          unfold PolyIntersections.m
          rw [e2, e4, e1]
          split
          · exact Nat.le_refl _
          · simp [Scanline.newEmpty, Scanline.isEmpty]
        unfold PolyScanlines.mu at h2' ⊢
        dsimp only at h2'
        rw [e1, hp'] at hm2 h2'
        obtain ⟨k, hk⟩ : ∃ k : Nat, (it.rowsEnd - it.rowsStart).toNat = k + 1 :=
          ⟨(it.rowsEnd - it.rowsStart).toNat - 1, by omega⟩
        have hk' : (it.rowsEnd - (it.rowsStart + 1)).toNat = k := by omega
        rw [hk, Nat.succ_mul]
        rw [hk'] at h2'
        omega
      · simp only [hrows, ↓reduceIte] at h
        cases h

theorem polyScanlines_next_yield (it it' : PolyScanlines) (s : Scanline) (hok : PolyScanlines.Ok it)
    (h : it.next = some (some (s, it'))) :
    PolyScanlines.Ok it' ∧ PolyScanlines.mu it' < PolyScanlines.mu it ∧ s.isEmpty = false :=
  polyScanlines_nextFuel_yield _ it s it' hok h

/-- **The complete scanline run of a `ScanlineIterator` with the invariant `Ok`**: it exists, it is
what `toList` (the `for` loop of `draw_thick`, fuel `stepBudget`) returns, and every scanline in
it is non-empty. -/
theorem polyLines (it : PolyScanlines) (hok : PolyScanlines.Ok it) :
    ∃ L, it.toList = some L ∧ Run PolyScanlines.next it L ∧ ∀ s ∈ L, s.isEmpty = false := by
  obtain ⟨L, hL⟩ := PolyScanlines.toListFuel_total it.stepBudget it hok
  have hL' : listFuel PolyScanlines.next it.stepBudget it = some L := by
    rw [← polyScanlines_toListFuel_eq]; exact hL
  have hlen : L.length ≤ PolyScanlines.mu it :=
    listFuel_length_le_mu PolyScanlines.Ok PolyScanlines.mu
      (fun s a s' hinv hn => ⟨(polyScanlines_next_yield s s' a hinv hn).1,
        (polyScanlines_next_yield s s' a hinv hn).2.1⟩) _ it L hok hL'
  have hrun : Run PolyScanlines.next it L :=
    listFuel_run _ it L hL' (Nat.lt_of_le_of_lt hlen (PolyScanlines.mu_lt_stepBudget it hok))
  refine ⟨L, hL, hrun, ?_⟩
  -- non-emptiness needs the invariant along the run
  clear hL hL' hlen
  induction hrun with
  | done _ => intro s hs; cases hs
  | step h1 _ ih =>
    intro s hs
    obtain ⟨hok', -, hne⟩ := polyScanlines_next_yield _ _ _ hok h1
    rcases List.mem_cons.mp hs with rfl | hs
    · exact hne
    · exact ih hok' s hs

/-! ### the pixel iterator walks the scanlines point by point -/

theorem scanline_next_none {s : Scanline} (h : s.isEmpty = true) : s.next = none := by
  unfold Scanline.isEmpty at h
  unfold Scanline.next
  have : ¬ s.xs < s.xe := by simpa using h
  simp only [this, ↓reduceIte]

theorem scanline_points_nil {s : Scanline} (h : s.isEmpty = true) : s.points = [] := by
  unfold Scanline.isEmpty at h
  exact Scanline.points_empty (by simpa using h)

theorem scanline_next_some {s : Scanline} (h : s.isEmpty = false) :
    s.next = some (⟨s.xs, s.y⟩, { s with xs := s.xs + 1 }) ∧
      s.points = ⟨s.xs, s.y⟩ :: ({ s with xs := s.xs + 1 } : Scanline).points := by
  unfold Scanline.isEmpty at h
  have hx : s.xs < s.xe := by simpa using h
  refine ⟨?_, Scanline.points_cons hx⟩
  unfold Scanline.next
  simp only [hx, ↓reduceIte]

/-- Draining the current line first: if every state with an exhausted current line runs `R`, a state
with current line `li` runs the points of `li` (moved by `translate`), then `R`. -/
theorem polyPix_drain (si : PolyScanlines) (tr : Pt) (R : List Pt)
    (hR : ∀ li0 : Scanline, li0.isEmpty = true → Run PolyThickPixels.next ⟨si, li0, tr⟩ R) :
    ∀ (n : Nat) (li : Scanline), (li.xe - li.xs).toNat = n →
      Run PolyThickPixels.next ⟨si, li, tr⟩ (li.points.map (· + tr) ++ R) := by
  intro n
  induction n with
  | zero =>
    intro li hn
    have he : li.isEmpty = true := by unfold Scanline.isEmpty; simp; omega
    rw [scanline_points_nil he]
    exact hR li he
  | succ n ih =>
    intro li hn
    have he : li.isEmpty = false := by unfold Scanline.isEmpty; simp; omega
    obtain ⟨h1, h2⟩ := scanline_next_some he
    rw [h2, List.map_cons, List.cons_append]
    refine Run.step ?_ (ih _ (by dsimp only; omega))
    unfold PolyThickPixels.next
    dsimp only
    rw [h1]

/-- **The run of the pixel iterator** whose scanline iterator runs `L` (non-empty scanlines) and
whose current line is `li`: the points of `li`, then those of every scanline of `L`, each moved
by `translate`. -/
theorem polyPix_run (tr : Pt) {si : PolyScanlines} {L : List Scanline}
    (h : Run PolyScanlines.next si L) (hne : ∀ s ∈ L, s.isEmpty = false) (li : Scanline) :
    Run PolyThickPixels.next ⟨si, li, tr⟩
      (li.points.map (· + tr) ++ (L.flatMap Scanline.points).map (· + tr)) := by
  induction h generalizing li with
  | done h1 =>
    apply polyPix_drain _ tr _ _ _ li rfl
    intro li0 he
    apply Run.done
    unfold PolyThickPixels.next
    dsimp only
    rw [scanline_next_none he, h1]
    rfl
  | @step s s' a l h1 _ ih =>
    apply polyPix_drain _ tr _ _ _ li rfl
    intro li0 he
    have hane := hne a List.mem_cons_self
    obtain ⟨h2, h3⟩ := scanline_next_some hane
    rw [List.flatMap_cons, h3, List.cons_append, List.map_cons]
    refine Run.step (s' := ⟨s', { a with xs := a.xs + 1 }, tr⟩) ?_ ?_
    · unfold PolyThickPixels.next
      dsimp only
      rw [scanline_next_none he, h1]
      simp only [Option.bind_eq_bind, Option.bind_some, h2, pure]
    · have := ih (fun x hx => hne x (List.mem_cons_of_mem _ hx)) { a with xs := a.xs + 1 }
      rw [List.map_append]
      exact this

/-- The pixel iterator `StyledPixelsIterator::new` builds runs the points of all scanlines. -/
theorem polyPix_new (pl : Polyline) (w : Nat) (si : PolyScanlines) (hsi : PolyScanlines.new pl w = some si)
    (L : List Scanline) (hL : Run PolyScanlines.next si L)
    (hne : ∀ s ∈ L, s.isEmpty = false) :
    ∃ it, PolyThickPixels.new pl w = some it ∧
      Run PolyThickPixels.next it ((L.flatMap Scanline.points).map (· + pl.translate)) := by
  unfold PolyThickPixels.new
  simp only [hsi, Option.bind_eq_bind, Option.bind_some]
  cases hL with
  | done h1 =>
    rw [h1]
    refine ⟨_, rfl, ?_⟩
    have := polyPix_run pl.translate (Run.done h1) (fun s hs => by cases hs) (Scanline.newEmpty 0)
    simpa [Scanline.points, Scanline.newEmpty, irange_empty] using this
  | @step _ s' a l h1 hr =>
    rw [h1]
    refine ⟨_, rfl, ?_⟩
    have := polyPix_run pl.translate hr (fun x hx => hne x (List.mem_cons_of_mem _ hx)) a
    rw [List.flatMap_cons, List.map_append]
    exact this

/-! ### `Joins.pixels` and `Joins.drawStyled` in terms of the scanline run -/

/-- The scanlines of a stroked polyline (width > 1): `none` never (`polyScanlineRun_total`). -/
def polyScanlineRun (pl : Polyline) (w : Nat) : Option (List Scanline) :=
  match PolyScanlines.new pl w with
  | some it => it.toList
  | none => none

theorem polyScanlineRun_total (pl : Polyline) (w : Nat) : ∃ L, polyScanlineRun pl w = some L := by
  obtain ⟨it, hit, hok⟩ := PolyScanlines.new_total pl w
  obtain ⟨L, hL, -, -⟩ := polyLines it hok
  exact ⟨L, by unfold polyScanlineRun; rw [hit]; exact hL⟩

/-- A scanline moved by `d` (`Translated::fill_solid` moves the rectangle; `StyledPixelsIterator`
adds `translate` to every point). -/
def moveS (s : Scanline) (d : Pt) : Scanline := ⟨s.y + d.y, s.xs + d.x, s.xe + d.x⟩

theorem moveS_points (s : Scanline) (d : Pt) : (moveS s d).points = s.points.map (· + d) := by
  unfold Scanline.points moveS
  dsimp only
  have hr : irange (s.xs + d.x) (s.xe + d.x) = (irange s.xs s.xe).map (· + d.x) := by
    unfold irange
    rw [List.map_map]
    have : (s.xe + d.x - (s.xs + d.x)).toNat = (s.xe - s.xs).toNat := by omega
    rw [this]
    apply List.map_congr_left
    intro i _
    simp only [Function.comp]
    omega
  rw [hr, List.map_map, List.map_map]
  apply List.map_congr_left
  intro x _
  rfl

theorem moveS_isEmpty (s : Scanline) (d : Pt) : (moveS s d).isEmpty = s.isEmpty := by
  unfold Scanline.isEmpty moveS
  dsimp only
  congr 1
  apply decide_eq_decide.mpr
  omega

theorem moveS_toRectangle (s : Scanline) (d : Pt) :
    (moveS s d).toRectangle = s.toRectangle.translate d := by
  unfold Scanline.toRectangle
  rw [moveS_isEmpty]
  unfold moveS Rect.translate
  dsimp only
  have : (s.xe + d.x - (s.xs + d.x)).toNat = (s.xe - s.xs).toNat := by omega
  rw [this]
  rfl

theorem moveS_zero (s : Scanline) : moveS s Pt.zero = s := by
  unfold moveS Pt.zero
  cases s
  simp

theorem rect_translate_zero (r : Rect) : r.translate Pt.zero = r := by
  unfold Rect.translate
  cases r with
  | mk tl size =>
    congr 1
    rw [Pt.ext_iff']
    simp [Pt.zero]

/-- **`draw_styled` of a stroked polyline of width > 1** issues one `fill_solid` per scanline of
the run, with the rectangle of the scanline moved by `translate`. -/
theorem drawStyled_eq_run (pl : Polyline) (w : Nat) (hw : 2 ≤ w) :
    ∃ L, polyScanlineRun pl w = some L ∧ (∀ s ∈ L, s.isEmpty = false) ∧
      drawStyled pl w = some (.fillSolids (L.map (fun s => (moveS s pl.translate).toRectangle))) := by
  obtain ⟨it, hit, hok⟩ := PolyScanlines.new_total pl w
  obtain ⟨L, hL, -, hne⟩ := polyLines it hok
  refine ⟨L, by unfold polyScanlineRun; rw [hit]; exact hL, hne, ?_⟩
  have hfilter : (L.map Scanline.toRectangle).filter (fun r => !r.isZeroSized) = L.map Scanline.toRectangle := by
    rw [List.filter_eq_self]
    intro r hr
    rw [List.mem_map] at hr
    obtain ⟨s, hs, rfl⟩ := hr
    have he := hne s hs
    unfold Scanline.isEmpty at he
    have hx : s.xs < s.xe := by simpa using he
    unfold Scanline.toRectangle Rect.isZeroSized Scanline.isEmpty
    simp only [hx, decide_true, Bool.not_true, Bool.not_false, ↓reduceIte]
    simp
    omega
  have hrects : drawThickRects pl w = some (L.map Scanline.toRectangle) := by
    unfold drawThickRects
    simp only [hit, hL, Option.bind_eq_bind, Option.bind_some, pure, hfilter]
  obtain ⟨k, rfl⟩ : ∃ k, w = k + 2 := ⟨w - 2, by omega⟩
  unfold drawStyled
  simp only [hrects, Option.bind_eq_bind, Option.bind_some]
  by_cases ht : pl.translate = Pt.zero
  · simp only [ht, ne_eq, not_true_eq_false, ↓reduceIte, pure, Option.some.injEq,
      PolyDraw.fillSolids.injEq]
    apply List.map_congr_left
    intro s _
    rw [moveS_zero]
  · simp only [ne_eq, ht, not_false_eq_true, ↓reduceIte, pure, List.map_map, Option.some.injEq,
      PolyDraw.fillSolids.injEq]
    apply List.map_congr_left
    intro s _
    simp only [Function.comp, moveS_toRectangle]

theorem flatMap_length_le_sum {α β : Type} (L : List α) (f : α → List β) (g : α → Nat)
    (h : ∀ a, (f a).length ≤ g a) : (L.flatMap f).length ≤ (L.map g).sum := by
  induction L with
  | nil => simp
  | cons a L ih =>
    rw [List.flatMap_cons, List.length_append, List.map_cons, List.sum_cons]
    have := h a
    omega

/-- The model's fuel for `pixels()` in terms of the scanline run. -/
theorem polyPixelFuel_eq (pl : Polyline) (w : Nat) (L : List Scanline)
    (hL : polyScanlineRun pl w = some L) :
    polyPixelFuel pl w = some ((L.map (fun s => (s.xe - s.xs).toNat)).sum + 1) := by
  unfold polyScanlineRun at hL
  unfold polyPixelFuel
  cases hsi : PolyScanlines.new pl w with
  | none => rw [hsi] at hL; cases hL
  | some si =>
    rw [hsi] at hL
    dsimp only at hL
    simp only [hL, Option.bind_eq_bind, Option.bind_some, pure]

/-- **`pixels()` of a stroked polyline of width > 1 is the complete pixel run**: it walks the
scanlines of the scanline run (what the `for` loop of `draw_thick` sees) point by point; the model's
fuel (the total length of those scanlines, plus one) is never used up. -/
theorem pixels_eq_run (pl : Polyline) (w : Nat) (hw : 2 ≤ w) :
    ∃ L, polyScanlineRun pl w = some L ∧
      pixels pl w = some (L.flatMap (fun s => (moveS s pl.translate).points)) := by
  obtain ⟨si, hsi, hok⟩ := PolyScanlines.new_total pl w
  obtain ⟨L, hL, hrun, hne⟩ := polyLines si hok
  have hLr : polyScanlineRun pl w = some L := by unfold polyScanlineRun; rw [hsi]; exact hL
  refine ⟨L, hLr, ?_⟩
  obtain ⟨it, hit, hpix⟩ := polyPix_new pl w si hsi L hrun hne
  obtain ⟨k, rfl⟩ : ∃ k, w = k + 2 := ⟨w - 2, by omega⟩
  unfold pixels
  simp only [polyPixelFuel_eq pl (k + 2) L hLr, hit, Option.bind_eq_bind, Option.bind_some]
  rw [polyThickPixels_toListFuel_eq]
  have hlen : ((L.flatMap Scanline.points).map (· + pl.translate)).length <
      (L.map (fun s => (s.xe - s.xs).toNat)).sum + 1 := by
    rw [List.length_map]
    have := flatMap_length_le_sum L Scanline.points (fun s => (s.xe - s.xs).toNat)
      (fun s => by rw [Scanline.points_length])
    omega
  rw [hpix.listFuel _ hlen, List.map_flatMap]
  congr 1
  apply flatMap_congr_left
  intro s _
  rw [moveS_points]

/-! ### the write sequences of `draw()` and of `draw_iter(pixels())` -/

theorem toRectangle_of_nonempty {s : Scanline} (h : s.isEmpty = false) :
    s.toRectangle = ⟨⟨s.xs, s.y⟩, ⟨(s.xe - s.xs).toNat, 1⟩⟩ := by
  unfold Scanline.toRectangle
  simp [h]

/-- The native `fill_solid` of the rectangle of a non-empty scanline writes the points of the
scanline, left to right (the rectangle must not saturate `i32`). -/
theorem fillSolid_toRectangle_lower (s : Scanline) (h : s.isEmpty = false) (hr : s.toRectangle.InRange)
    (B : Rect) (c : Color) :
    Call.lowerNative B (.fillSolid s.toRectangle c) = s.points.map (fun p => (p, c)) := by
  have hwf : s.WF := by unfold Scanline.WF; rw [← toRectangle_of_nonempty h]; exact hr
  have := Scanline.draw_lowerNative s hwf B c
  unfold Scanline.draw at this
  simp only [h, Bool.false_eq_true, ↓reduceIte, List.flatMap_cons, List.flatMap_nil,
    List.append_nil] at this
  rw [toRectangle_of_nonempty h]
  exact this

/-- The target calls of a `PolyDraw` with stroke colour `c`. -/
def polyCalls (c : Color) : PolyDraw → List Call
  | .nothing => []
  | .drawIter pts => [Call.drawIter (pts.map (fun p => (p, c)))]
  | .fillSolids rs => rs.map (fun r => Call.fillSolid r c)

/-- The `fill_solid` rectangles of a `PolyDraw`. -/
def polyRects : PolyDraw → List Rect
  | .fillSolids rs => rs
  | _ => []

/-- **Stroked polyline, every width: the writes of `draw()` are the pixels of `pixels()`, in the
same order** — nothing for width 0; one `draw_iter` of `points()` for width 1; for width > 1 every
`fill_solid` rectangle is one scanline, written left to right, and `pixels()` walks the same
scanlines in the same order. `hr`: no rectangle saturates `i32`. -/
theorem poly_writes (pl : Polyline) (w : Nat) (c : Color) (B : Rect) (d : PolyDraw) (ps : List Pt)
    (hd : drawStyled pl w = some d) (hps : pixels pl w = some ps)
    (hr : ∀ r ∈ polyRects d, r.InRange) :
    (polyCalls c d).flatMap (Call.lowerNative B) = ps.map (fun p => (p, c)) := by
  rcases Nat.lt_or_ge w 2 with hw | hw
  · rcases (show w = 0 ∨ w = 1 by omega) with rfl | rfl
    · simp only [drawStyled, Option.some.injEq] at hd
      simp only [pixels, Option.some.injEq] at hps
      subst hd hps
      rfl
    · simp only [drawStyled, Option.some.injEq] at hd
      simp only [pixels, Option.some.injEq] at hps
      subst hd hps
      simp [polyCalls, Call.lowerNative]
  · obtain ⟨bb, hbb⟩ := untranslatedBoundingBox_total pl w
    obtain ⟨L, hL, hne, hd'⟩ := drawStyled_eq_run pl w hw
    obtain ⟨L', hL', hps''⟩ := pixels_eq_run pl w hw
    have hps' : ps = L'.flatMap (fun s => (moveS s pl.translate).points) := by
      rw [hps] at hps''; exact Option.some.inj hps''
    clear hps''
    rw [hL] at hL'
    simp only [Option.some.injEq] at hL'
    subst hL'
    rw [hd'] at hd
    simp only [Option.some.injEq] at hd
    subst hd
    rw [hps']
    simp only [polyCalls, polyRects] at hr ⊢
    rw [List.map_map, List.flatMap_map, List.map_flatMap]
    apply flatMap_congr_left
    intro s hs
    simp only [Function.comp]
    apply fillSolid_toRectangle_lower
    · rw [moveS_isEmpty]; exact hne s hs
    · exact hr _ (List.mem_map.mpr ⟨s, hs, rfl⟩)

/-! ### the styled polyline with an optional stroke colour; guards -/

/-- `draw_styled` of `polyline.into_styled(style)`, `sc = style.stroke_color`, `w = style.stroke_width`:
nothing without a stroke colour. -/
def polyStyledCalls (pl : Polyline) (w : Nat) (sc : Option Color) : Option (List Call) :=
  match sc with
  | none => some []
  | some c => (drawStyled pl w).map (polyCalls c)

/-- `pixels()` of the same styled polyline: `next` returns `None` without a stroke colour. -/
def polyStyledPixels (pl : Polyline) (w : Nat) (sc : Option Color) : Option Writes :=
  match sc with
  | none => some []
  | some c => (pixels pl w).map (·.map (fun p => (p, c)))

/-- Guard: no `fill_solid` rectangle of `draw_styled` saturates `i32`. -/
def PolyRectsInRange (pl : Polyline) (w : Nat) : Prop :=
  match drawStyled pl w with
  | some d => ∀ r ∈ polyRects d, r.InRange
  | none => True

instance (pl : Polyline) (w : Nat) : Decidable (PolyRectsInRange pl w) := by
  unfold PolyRectsInRange; split <;> exact inferInstance

/-- `poly_writes` with the optional colour and the range guard. -/
theorem polyStyled_writes (pl : Polyline) (w : Nat) (sc : Option Color) (B : Rect)
    (hr : PolyRectsInRange pl w) (calls : List Call) (px : Writes)
    (hc : polyStyledCalls pl w sc = some calls) (hp : polyStyledPixels pl w sc = some px) :
    calls.flatMap (Call.lowerNative B) = px := by
  cases sc with
  | none =>
    simp only [polyStyledCalls, polyStyledPixels, Option.some.injEq] at hc hp
    subst hc hp
    rfl
  | some c =>
    unfold polyStyledCalls at hc
    unfold polyStyledPixels at hp
    dsimp only at hc hp
    cases hd : drawStyled pl w with
    | none => rw [hd] at hc; cases hc
    | some d =>
      cases hps : pixels pl w with
      | none => rw [hps] at hp; cases hp
      | some ps =>
        rw [hd] at hc
        rw [hps] at hp
        simp only [Option.map_some, Option.some.injEq] at hc hp
        subst hc hp
        apply poly_writes pl w c B d ps hd hps
        unfold PolyRectsInRange at hr
        rw [hd] at hr
        exact hr

end C01Thick
end EG
