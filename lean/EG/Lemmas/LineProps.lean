/-
  EG.Lemmas.LineProps — geometric facts about `Line::points()` derived from the closed form
  (`points_eq`) and the error invariant (`err_bounds`).
-/
import EG.Lemmas.LinePoints
namespace EG
namespace Line

theorem ptAt_of_yMajor {l : Line} (h : yMajor l) (k : Nat) :
    ptAt l k = ⟨l.start.x + mAt (aabs (dyOf l)) (aabs (dxOf l)) k * sgn (dxOf l),
                l.start.y + (k : Int) * sgn (dyOf l)⟩ := by
  unfold ptAt ptAtG pmaj pmin dmaj dmin
  simp only [h, ↓reduceIte, Int.mul_zero, Int.add_zero]

theorem ptAt_of_xMajor {l : Line} (h : ¬ yMajor l) (k : Nat) :
    ptAt l k = ⟨l.start.x + (k : Int) * sgn (dxOf l),
                l.start.y + mAt (aabs (dxOf l)) (aabs (dyOf l)) k * sgn (dyOf l)⟩ := by
  unfold ptAt ptAtG pmaj pmin dmaj dmin
  simp only [h, ↓reduceIte, Int.mul_zero, Int.add_zero]

theorem ptAt_zero (l : Line) : ptAt l 0 = l.start := by
  unfold ptAt ptAtG
  rw [mAt_zero (dmaj_nonneg l)]
  simp

theorem dmaj_zero_iff (l : Line) : dmaj l = 0 ↔ l.start = l.stop := by
  unfold dmaj yMajor aabs dxOf dyOf
  rw [Pt.ext_iff']
  constructor
  · intro h; refine ⟨?_, ?_⟩ <;> omega
  · rintro ⟨h1, h2⟩; omega

theorem add_sub_self' (a b : Int) : a + b - a = b := by omega

theorem sgn_cases (a : Int) :
    (0 ≤ a ∧ sgn a = 1 ∧ aabs a = a) ∨ (a < 0 ∧ sgn a = -1 ∧ aabs a = -a) := by
  unfold sgn aabs
  by_cases h : a < 0
  · right; have h' : ¬ a ≥ 0 := by omega
    simp only [h, h', ↓reduceIte]; exact ⟨trivial, trivial, trivial⟩
  · left; have h' : a ≥ 0 := by omega
    simp only [h, h', ↓reduceIte]; exact ⟨trivial, trivial, trivial⟩

theorem aabs_mul_sgn (a : Int) : aabs a * sgn a = a := by
  rcases sgn_cases a with ⟨_, h1, h2⟩ | ⟨_, h1, h2⟩ <;> rw [h1, h2] <;> omega

/-- The last point (`k = dmaj`) is the end point. -/
theorem ptAt_last (l : Line) (k : Nat) (hk : (k : Int) = dmaj l) : ptAt l k = l.stop := by
  by_cases hz : dmaj l = 0
  · have hk0 : k = 0 := by omega
    subst hk0
    rw [ptAt_zero]
    exact (dmaj_zero_iff l).mp hz
  · have hpos : 0 < dmaj l := by have := dmaj_nonneg l; omega
    have hend := mAt_end (dmin_nonneg l) (dmin_le_dmaj l) hpos k hk
    by_cases h : yMajor l
    · rw [ptAt_of_yMajor h]
      simp only [dmaj, dmin, h, ↓reduceIte] at hend hk
      rw [hend, hk, aabs_mul_sgn, aabs_mul_sgn, Pt.ext_iff']
      unfold dxOf dyOf
      dsimp only
      refine ⟨?_, ?_⟩ <;> omega
    · rw [ptAt_of_xMajor h]
      simp only [dmaj, dmin, h, ↓reduceIte] at hend hk
      rw [hend, hk, aabs_mul_sgn, aabs_mul_sgn, Pt.ext_iff']
      unfold dxOf dyOf
      dsimp only
      refine ⟨?_, ?_⟩ <;> omega

/-- One step of the walk: exactly one pixel along the major axis (towards the end point), zero or
one pixel along the minor axis (towards the end point). -/
theorem ptAt_step (l : Line) (k : Nat) :
    (yMajor l →
      (ptAt l (k + 1)).y - (ptAt l k).y = sgn (dyOf l) ∧
      ((ptAt l (k + 1)).x - (ptAt l k).x = 0 ∨ (ptAt l (k + 1)).x - (ptAt l k).x = sgn (dxOf l))) ∧
    (¬ yMajor l →
      (ptAt l (k + 1)).x - (ptAt l k).x = sgn (dxOf l) ∧
      ((ptAt l (k + 1)).y - (ptAt l k).y = 0 ∨ (ptAt l (k + 1)).y - (ptAt l k).y = sgn (dyOf l))) := by
  refine ⟨fun h => ?_, fun h => ?_⟩
  · rw [ptAt_of_yMajor h, ptAt_of_yMajor h]
    dsimp only
    rw [succ_mul']
    refine ⟨by omega, ?_⟩
    rcases mAt_succ (aabs (dyOf l)) (aabs (dxOf l)) k with e | e <;> rw [e]
    · left; omega
    · right; rw [Int.add_mul, Int.one_mul]; omega
  · rw [ptAt_of_xMajor h, ptAt_of_xMajor h]
    dsimp only
    rw [succ_mul']
    refine ⟨by omega, ?_⟩
    rcases mAt_succ (aabs (dxOf l)) (aabs (dyOf l)) k with e | e <;> rw [e]
    · left; omega
    · right; rw [Int.add_mul, Int.one_mul]; omega

/-- Every point is within half a pixel of the ideal line, measured along the minor axis:
`|2 (dx (y - y0) - dy (x - x0))| ≤ max(|dx|, |dy|)`. -/
theorem ptAt_cross (l : Line) (k : Nat) (hk : (k : Int) ≤ dmaj l) :
    -dmaj l ≤ 2 * (dxOf l * ((ptAt l k).y - l.start.y) - dyOf l * ((ptAt l k).x - l.start.x)) ∧
    2 * (dxOf l * ((ptAt l k).y - l.start.y) - dyOf l * ((ptAt l k).x - l.start.x)) ≤ dmaj l := by
  by_cases hz : dmaj l = 0
  · have hk0 : k = 0 := by have := dmaj_nonneg l; omega
    subst hk0
    rw [ptAt_zero, hz]
    simp
  · have hpos : 0 < dmaj l := by have := dmaj_nonneg l; omega
    obtain ⟨_, hb1, hb2⟩ := err_bounds (dmin_nonneg l) (dmin_le_dmaj l) hpos k
    by_cases h : yMajor l
    · rw [ptAt_of_yMajor h]
      simp only [dmaj, dmin, h, ↓reduceIte] at hb1 hb2 hpos ⊢
      rw [add_sub_self', add_sub_self']
      generalize mAt (aabs (dyOf l)) (aabs (dxOf l)) k = m at *
      generalize dxOf l = dx at *
      generalize dyOf l = dy at *
      rcases sgn_cases dx with ⟨_, sx, ax⟩ | ⟨_, sx, ax⟩ <;>
        rcases sgn_cases dy with ⟨_, sy, ay⟩ | ⟨_, sy, ay⟩ <;>
        simp only [sx, sy, ax, ay, Int.mul_one, Int.mul_neg, Int.neg_mul, Int.neg_neg] at hb1 hb2 ⊢ <;>
        refine ⟨?_, ?_⟩ <;> omega
    · rw [ptAt_of_xMajor h]
      simp only [dmaj, dmin, h, ↓reduceIte] at hb1 hb2 hpos ⊢
      rw [add_sub_self', add_sub_self']
      generalize mAt (aabs (dxOf l)) (aabs (dyOf l)) k = m at *
      generalize dxOf l = dx at *
      generalize dyOf l = dy at *
      rcases sgn_cases dx with ⟨_, sx, ax⟩ | ⟨_, sx, ax⟩ <;>
        rcases sgn_cases dy with ⟨_, sy, ay⟩ | ⟨_, sy, ay⟩ <;>
        simp only [sx, sy, ax, ay, Int.mul_one, Int.mul_neg, Int.neg_mul, Int.neg_neg] at hb1 hb2 ⊢ <;>
        refine ⟨?_, ?_⟩ <;> omega

/-- Every point lies coordinate-wise between the end points. -/
theorem ptAt_in_box (l : Line) (k : Nat) (hk : (k : Int) ≤ dmaj l) :
    min l.start.x l.stop.x ≤ (ptAt l k).x ∧ (ptAt l k).x ≤ max l.start.x l.stop.x ∧
    min l.start.y l.stop.y ≤ (ptAt l k).y ∧ (ptAt l k).y ≤ max l.start.y l.stop.y := by
  by_cases hz : dmaj l = 0
  · have hk0 : k = 0 := by have := dmaj_nonneg l; omega
    subst hk0
    rw [ptAt_zero]
    refine ⟨?_, ?_, ?_, ?_⟩ <;> omega
  · have hpos : 0 < dmaj l := by have := dmaj_nonneg l; omega
    have hm1 := mAt_le (dmin_nonneg l) (dmin_le_dmaj l) hpos k hk
    have hm0 := mAt_nonneg (dmin := dmin l) (dmaj_nonneg l) k
    have hx : l.stop.x = l.start.x + dxOf l := by unfold dxOf; omega
    have hy : l.stop.y = l.start.y + dyOf l := by unfold dyOf; omega
    by_cases h : yMajor l
    · rw [ptAt_of_yMajor h]
      simp only [dmaj, dmin, h, ↓reduceIte] at hm0 hm1 hk
      dsimp only
      rw [hx, hy]
      generalize mAt (aabs (dyOf l)) (aabs (dxOf l)) k = m at *
      generalize dxOf l = dx at *
      generalize dyOf l = dy at *
      rcases sgn_cases dx with ⟨_, sx, ax⟩ | ⟨_, sx, ax⟩ <;>
        rcases sgn_cases dy with ⟨_, sy, ay⟩ | ⟨_, sy, ay⟩ <;>
        rw [sx, sy] <;>
        refine ⟨?_, ?_, ?_, ?_⟩ <;> omega
    · rw [ptAt_of_xMajor h]
      simp only [dmaj, dmin, h, ↓reduceIte] at hm0 hm1 hk
      dsimp only
      rw [hx, hy]
      generalize mAt (aabs (dxOf l)) (aabs (dyOf l)) k = m at *
      generalize dxOf l = dx at *
      generalize dyOf l = dy at *
      rcases sgn_cases dx with ⟨_, sx, ax⟩ | ⟨_, sx, ax⟩ <;>
        rcases sgn_cases dy with ⟨_, sy, ay⟩ | ⟨_, sy, ay⟩ <;>
        rw [sx, sy] <;>
        refine ⟨?_, ?_, ?_, ?_⟩ <;> omega

theorem dxOf_translate (l : Line) (d : Pt) : dxOf (l.translate d) = dxOf l := by
  unfold dxOf translate; simp only [Pt.add_x]; omega
theorem dyOf_translate (l : Line) (d : Pt) : dyOf (l.translate d) = dyOf l := by
  unfold dyOf translate; simp only [Pt.add_y]; omega

theorem params_congr {l l' : Line} (hx : dxOf l' = dxOf l) (hy : dyOf l' = dyOf l) :
    dmaj l' = dmaj l ∧ dmin l' = dmin l ∧ pmaj l' = pmaj l ∧ pmin l' = pmin l := by
  have hiff : yMajor l' ↔ yMajor l := by unfold yMajor; rw [hx, hy]
  unfold dmaj dmin pmaj pmin
  by_cases h : yMajor l
  · have h' := hiff.mpr h
    simp only [h, h', ↓reduceIte, hx, hy, and_self]
  · have h' : ¬ yMajor l' := fun c => h (hiff.mp c)
    simp only [h, h', ↓reduceIte, hx, hy, and_self]

theorem ptAt_translate (l : Line) (d : Pt) (k : Nat) : ptAt (l.translate d) k = ptAt l k + d := by
  obtain ⟨e1, e2, e3, e4⟩ := params_congr (dxOf_translate l d) (dyOf_translate l d)
  unfold ptAt
  rw [e1, e2, e3, e4]
  simp only [ptAtG, translate, Pt.ext_iff', Pt.add_x, Pt.add_y]
  refine ⟨?_, ?_⟩ <;> omega

/-- Translation commutes with `points()`. -/
theorem points_translate (l : Line) (d : Pt) :
    points (l.translate d) = (points l).map (· + d) := by
  obtain ⟨e1, _⟩ := params_congr (dxOf_translate l d) (dyOf_translate l d)
  rw [points_eq, points_eq, e1, List.map_map]
  apply List.map_congr_left
  intro k _
  exact ptAt_translate l d k

/-- A zero-length line yields exactly its start point. -/
theorem points_zero_length (s : Pt) : points ⟨s, s⟩ = [s] := by
  have hz : dmaj ⟨s, s⟩ = 0 := (dmaj_zero_iff _).mpr rfl
  rw [points_eq, hz]
  simp [ptAt_zero]

end Line
end EG
