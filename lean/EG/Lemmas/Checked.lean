/-
  EG.Lemmas.Checked — the DSL lemmas of `EG.Model.Checked` and the range theorems of the
  `Rectangle` / `Point (+|-) Size` kernels: inside the stated coordinate / size bounds the checked
  kernel returns `some` of the plain kernel.

  Bounds: `W.coord x` = `|x| <= 2^28`, `W.size n` = `n <= 2^28` ("wide" domain, 2^18 times the
  display scale): every kernel here is linear, so the bounds are only limited by `i32`.
-/
import EG.Model.Checked
namespace EG.Chk
open EG

/-! ## DSL lemmas -/

theorem chkI32_ok {a : Int} (h1 : -2147483648 ≤ a) (h2 : a ≤ 2147483647) : chkI32 a = some a := by
  simp [chkI32, h1, h2]
theorem chkI64_ok {a : Int} (h1 : -9223372036854775808 ≤ a) (h2 : a ≤ 9223372036854775807) :
    chkI64 a = some a := by
  simp [chkI64, h1, h2]
theorem chkU32_ok {a : Nat} (h : a ≤ 4294967295) : chkU32 a = some a := by simp [chkU32, h]
theorem chkU64_ok {a : Nat} (h : a ≤ 18446744073709551615) : chkU64 a = some a := by simp [chkU64, h]
theorem chkUsize_ok {a : Nat} (h : a ≤ 18446744073709551615) : chkUsize a = some a := by
  simp [chkUsize, chkU64, h]
theorem subU_ok {a b : Nat} (h : b ≤ a) : subU a b = some (a - b) := by simp [subU, h]
theorem divU_ok {a b : Nat} (h : 0 < b) : divU a b = some (a / b) := by
  have : b ≠ 0 := by omega
  simp [divU, this]
theorem assert_ok {c : Prop} [Decidable c] (h : c) : assert c = some () := by simp [assert, h]

theorem chkI32_none {a : Int} (h : a < -2147483648 ∨ 2147483647 < a) : chkI32 a = none := by
  unfold chkI32; rw [if_neg]; omega
theorem chkI64_none {a : Int} (h : a < -9223372036854775808 ∨ 9223372036854775807 < a) :
    chkI64 a = none := by
  unfold chkI64; rw [if_neg]; omega
theorem chkU32_none {a : Nat} (h : 4294967295 < a) : chkU32 a = none := by
  unfold chkU32; rw [if_neg]; omega
theorem chkU64_none {a : Nat} (h : 18446744073709551615 < a) : chkU64 a = none := by
  unfold chkU64; rw [if_neg]; omega

theorem chkI32_some {a b : Int} (h : chkI32 a = some b) : b = a ∧ -2147483648 ≤ a ∧ a ≤ 2147483647 := by
  unfold chkI32 at h; split at h
  · simp only [Option.some.injEq] at h; omega
  · cases h
theorem chkI64_some {a b : Int} (h : chkI64 a = some b) :
    b = a ∧ -9223372036854775808 ≤ a ∧ a ≤ 9223372036854775807 := by
  unfold chkI64 at h; split at h
  · simp only [Option.some.injEq] at h; omega
  · cases h

theorem u32AsI32_small {n : Nat} (h : n ≤ 2147483647) : u32AsI32 n = (n : Int) := by
  simp [u32AsI32, h]
theorem i32AsU32_nonneg {a : Int} (h : 0 ≤ a) : i32AsU32 a = a.toNat := by simp [i32AsU32, h]

/-- Rewrites every checked operation whose side condition `omega` can prove from the context. -/
macro "chk_simp" : tactic =>
  `(tactic| simp (disch := omega) only [chkI32_ok, chkI64_ok, chkU32_ok, chkU64_ok, chkUsize_ok,
      subU_ok, divU_ok, assert_ok, u32AsI32_small, i32AsU32_nonneg,
      Option.bind_eq_bind, Option.bind_some, Option.pure_def, bind_pure_comp, Option.map_some,
      Option.map_eq_map])

/-! ## The wide domain -/

/-- `|x| <= 2^28` -/
def W.coord (x : Int) : Prop := -268435456 ≤ x ∧ x ≤ 268435456
/-- `n <= 2^28` -/
def W.size (n : Nat) : Prop := n ≤ 268435456
def W.pt (p : Pt) : Prop := W.coord p.x ∧ W.coord p.y
def W.sz (s : Sz) : Prop := W.size s.w ∧ W.size s.h
def W.rect (r : Rect) : Prop := W.pt r.tl ∧ W.sz r.size
instance (x : Int) : Decidable (W.coord x) := by unfold W.coord; exact inferInstance
instance (n : Nat) : Decidable (W.size n) := by unfold W.size; exact inferInstance
instance (p : Pt) : Decidable (W.pt p) := by unfold W.pt; exact inferInstance
instance (s : Sz) : Decidable (W.sz s) := by unfold W.sz; exact inferInstance
instance (r : Rect) : Decidable (W.rect r) := by unfold W.rect; exact inferInstance

/-! ## `Point` operators -/

theorem ptAdd_ok {a b : Pt} (hx : -2147483648 ≤ a.x + b.x ∧ a.x + b.x ≤ 2147483647)
    (hy : -2147483648 ≤ a.y + b.y ∧ a.y + b.y ≤ 2147483647) : ptAdd a b = some (a + b) := by
  unfold ptAdd; chk_simp; rfl

theorem ptSub_ok {a b : Pt} (hx : -2147483648 ≤ a.x - b.x ∧ a.x - b.x ≤ 2147483647)
    (hy : -2147483648 ≤ a.y - b.y ∧ a.y - b.y ≤ 2147483647) : ptSub a b = some (a - b) := by
  unfold ptSub; chk_simp; rfl

theorem ptMul_ok {a : Pt} {k : Int} (hx : -2147483648 ≤ a.x * k ∧ a.x * k ≤ 2147483647)
    (hy : -2147483648 ≤ a.y * k ∧ a.y * k ≤ 2147483647) : ptMul a k = some ⟨a.x * k, a.y * k⟩ := by
  unfold ptMul; chk_simp

theorem ptAddSize_ok {p : Pt} {s : Sz} (hw : s.w ≤ 2147483647) (hh : s.h ≤ 2147483647)
    (hx : -2147483648 ≤ p.x + s.w ∧ p.x + s.w ≤ 2147483647)
    (hy : -2147483648 ≤ p.y + s.h ∧ p.y + s.h ≤ 2147483647) :
    ptAddSize p s = some ⟨p.x + s.w, p.y + s.h⟩ := by
  unfold ptAddSize; chk_simp

theorem ptSubSize_ok {p : Pt} {s : Sz} (hw : s.w ≤ 2147483647) (hh : s.h ≤ 2147483647)
    (hx : -2147483648 ≤ p.x - s.w ∧ p.x - s.w ≤ 2147483647)
    (hy : -2147483648 ≤ p.y - s.h ∧ p.y - s.h ≤ 2147483647) :
    ptSubSize p s = some ⟨p.x - s.w, p.y - s.h⟩ := by
  unfold ptSubSize; chk_simp

/-- `Point + Size` panics (debug assertion) for sizes above `i32::MAX`, whatever the point. -/
theorem ptAddSize_assert {p : Pt} {s : Sz} (hw : 2147483647 < s.w) (h32 : s.w ≤ 4294967295) :
    ptAddSize p s = none := by
  unfold ptAddSize
  have : ¬ (u32AsI32 s.w ≥ 0) := by unfold u32AsI32; split <;> omega
  simp [assert, this]

/-! ## `Rectangle` -/

theorem withCorners_ok {c1 c2 : Pt} (hx : -2147483648 ≤ c1.x - c2.x ∧ c1.x - c2.x ≤ 2147483647)
    (hy : -2147483648 ≤ c1.y - c2.y ∧ c1.y - c2.y ≤ 2147483647) :
    withCorners c1 c2 = some (Rect.withCorners c1 c2) := by
  unfold withCorners; chk_simp; rfl

theorem centerOffset_le (s : Sz) : (Rect.centerOffset s).w ≤ s.w / 2 ∧ (Rect.centerOffset s).h ≤ s.h / 2 := by
  unfold Rect.centerOffset; constructor <;> simp only <;> omega

theorem withCenter_ok {c : Pt} {s : Sz}
    (hc : (-1073741824 ≤ c.x ∧ c.x ≤ 1073741824) ∧ (-1073741824 ≤ c.y ∧ c.y ≤ 1073741824))
    (hs : s.w ≤ 2147483648 ∧ s.h ≤ 2147483648) :
    withCenter c s = some (Rect.withCenter c s) := by
  obtain ⟨⟨_, _⟩, ⟨_, _⟩⟩ := hc
  have := centerOffset_le s
  unfold withCenter
  rw [ptSubSize_ok (by omega) (by omega) (by omega) (by omega)]
  rfl

theorem center_ok {r : Rect} (ht : W.pt r.tl) (hs : r.size.w ≤ 2147483648 ∧ r.size.h ≤ 2147483648) :
    center r = some r.center := by
  obtain ⟨⟨_, _⟩, ⟨_, _⟩⟩ := ht
  have := centerOffset_le r.size
  unfold center
  rw [ptAddSize_ok (by omega) (by omega) (by omega) (by omega)]
  rfl

theorem bottomRight_ok {r : Rect} (h : W.rect r) : bottomRight r = some r.bottomRight := by
  obtain ⟨⟨⟨_, _⟩, ⟨_, _⟩⟩, ⟨_, _⟩⟩ := h
  unfold W.size at *
  unfold bottomRight Rect.bottomRight
  split
  · rw [ptAddSize_ok (by omega) (by omega) (by omega) (by omega)]
    chk_simp
    rw [ptSub_ok (by simp only; omega) (by simp only; omega)]
    rfl
  · rfl

theorem contains_ok {r : Rect} (h : W.rect r) (p : Pt) : contains r p = some (r.contains p) := by
  unfold contains Rect.contains
  rw [bottomRight_ok h]
  split <;> rfl

theorem bottomRight_eq {r : Rect} {br : Pt} (h : r.bottomRight = some br) :
    br.x = r.tl.x + r.size.w - 1 ∧ br.y = r.tl.y + r.size.h - 1 := by
  unfold Rect.bottomRight at h
  split at h
  · cases h; exact ⟨rfl, rfl⟩
  · cases h

theorem intersection_ok {a b : Rect} (ha : W.rect a) (hb : W.rect b) :
    intersection a b = some (a.intersection b) := by
  unfold intersection Rect.intersection
  rw [bottomRight_ok ha, bottomRight_ok hb]
  chk_simp
  obtain ⟨⟨⟨_, _⟩, ⟨_, _⟩⟩, ⟨_, _⟩⟩ := ha
  obtain ⟨⟨⟨_, _⟩, ⟨_, _⟩⟩, ⟨_, _⟩⟩ := hb
  unfold W.size at *
  cases hobr : b.bottomRight <;> cases hsbr : a.bottomRight <;> simp only
  · rw [contains_ok (by unfold W.rect W.pt W.sz W.coord W.size; omega)]; rfl
  · rw [contains_ok (by unfold W.rect W.pt W.sz W.coord W.size; omega)]; rfl
  · have h1 := bottomRight_eq hobr
    have h2 := bottomRight_eq hsbr
    split
    · apply withCorners_ok <;> simp only [Pt.componentMax, Pt.componentMin] <;> omega
    · rfl

theorem anchorX_ok {r : Rect} (h : W.rect r) (a : AnchorX) : anchorX r a = some (r.anchorX a) := by
  obtain ⟨⟨⟨_, _⟩, ⟨_, _⟩⟩, ⟨_, _⟩⟩ := h
  unfold W.size at *
  unfold anchorX Rect.anchorX
  have hs : satAsI32 r.size.w = r.size.w := by unfold satAsI32; rw [if_pos (by omega)]
  cases a <;> simp only [hs, tdiv2] <;> apply chkI32_ok <;> (try split) <;> omega

theorem anchorY_ok {r : Rect} (h : W.rect r) (a : AnchorY) : anchorY r a = some (r.anchorY a) := by
  obtain ⟨⟨⟨_, _⟩, ⟨_, _⟩⟩, ⟨_, _⟩⟩ := h
  unfold W.size at *
  unfold anchorY Rect.anchorY
  have hs : satAsI32 r.size.h = r.size.h := by unfold satAsI32; rw [if_pos (by omega)]
  cases a <;> simp only [hs, tdiv2] <;> apply chkI32_ok <;> (try split) <;> omega

theorem anchorPoint_ok {r : Rect} (h : W.rect r) (a : Anchor) :
    anchorPoint r a = some (r.anchorPoint a) := by
  unfold anchorPoint Rect.anchorPoint
  rw [anchorX_ok h, anchorY_ok h]; rfl

theorem anchor_br_bounds {r : Rect} (h : W.rect r) :
    r.tl.x ≤ (r.anchorPoint ⟨.right, .bottom⟩).x ∧ (r.anchorPoint ⟨.right, .bottom⟩).x ≤ r.tl.x + r.size.w ∧
    r.tl.y ≤ (r.anchorPoint ⟨.right, .bottom⟩).y ∧ (r.anchorPoint ⟨.right, .bottom⟩).y ≤ r.tl.y + r.size.h := by
  obtain ⟨_, ⟨_, _⟩⟩ := h
  unfold W.size at *
  have hw : satAsI32 r.size.w = r.size.w := by unfold satAsI32; rw [if_pos (by omega)]
  have hh : satAsI32 r.size.h = r.size.h := by unfold satAsI32; rw [if_pos (by omega)]
  simp only [Rect.anchorPoint, Rect.anchorX, Rect.anchorY, hw, hh]
  omega

theorem envelope_ok {a b : Rect} (ha : W.rect a) (hb : W.rect b) :
    envelope a b = some (a.envelope b) := by
  unfold envelope Rect.envelope
  rw [anchorPoint_ok ha, anchorPoint_ok hb]
  chk_simp
  have h1 := anchor_br_bounds ha
  have h2 := anchor_br_bounds hb
  obtain ⟨⟨⟨_, _⟩, ⟨_, _⟩⟩, ⟨_, _⟩⟩ := ha
  obtain ⟨⟨⟨_, _⟩, ⟨_, _⟩⟩, ⟨_, _⟩⟩ := hb
  unfold W.size at *
  apply withCorners_ok <;> simp only [Pt.componentMax, Pt.componentMin] <;> omega

theorem resizedWidth_ok {r : Rect} (h : W.coord r.tl.x) (hs : W.size r.size.w) {w : Nat} (hw : W.size w)
    (a : AnchorX) : resizedWidth r w a = some (r.resizedWidth w a) := by
  obtain ⟨_, _⟩ := h
  unfold W.size at *
  unfold resizedWidth Rect.resizedWidth
  have h1 : satAsI32 r.size.w = r.size.w := by unfold satAsI32; rw [if_pos (by omega)]
  have h2 : satAsI32 w = w := by unfold satAsI32; rw [if_pos (by omega)]
  cases a <;> simp only [h1, h2, tdiv2] <;> (try split) <;> chk_simp

theorem resizedHeight_ok {r : Rect} (h : W.coord r.tl.y) (hs : W.size r.size.h) {w : Nat} (hw : W.size w)
    (a : AnchorY) : resizedHeight r w a = some (r.resizedHeight w a) := by
  obtain ⟨_, _⟩ := h
  unfold W.size at *
  unfold resizedHeight Rect.resizedHeight
  have h1 : satAsI32 r.size.h = r.size.h := by unfold satAsI32; rw [if_pos (by omega)]
  have h2 : satAsI32 w = w := by unfold satAsI32; rw [if_pos (by omega)]
  cases a <;> simp only [h1, h2, tdiv2] <;> (try split) <;> chk_simp

theorem resized_ok {r : Rect} (h : W.rect r) {s : Sz} (hs : W.sz s) (a : Anchor) :
    resized r s a = some (r.resized s a) := by
  unfold resized Rect.resized
  rw [resizedWidth_ok h.1.1 h.2.1 hs.1]
  chk_simp
  exact resizedHeight_ok (r := r.resizedWidth s.w a.ax) h.1.2 h.2.2 hs.2 a.ay

theorem center_bounds (r : Rect) :
    r.tl.x ≤ r.center.x ∧ r.center.x ≤ r.tl.x + r.size.w / 2 ∧
    r.tl.y ≤ r.center.y ∧ r.center.y ≤ r.tl.y + r.size.h / 2 := by
  have := centerOffset_le r.size
  simp only [Rect.center]; omega

theorem satAddU32_small {a b : Nat} (h : a + b ≤ 4294967295) : satAddU32 a b = a + b := by
  simp [satAddU32, h]

/-- `Rectangle::offset` for `|offset| <= 2^28`. -/
theorem offset_ok {r : Rect} (h : W.rect r) {o : Int} (ho : W.coord o) :
    offset r o = some (r.offset o) := by
  have hcb := center_bounds r
  obtain ⟨⟨⟨_, _⟩, ⟨_, _⟩⟩, ⟨_, _⟩⟩ := h
  obtain ⟨_, _⟩ := ho
  unfold W.size at *
  unfold offset Rect.offset
  by_cases hpos : o ≥ 0
  · simp only [hpos, ↓reduceIte]
    rw [ptSub_ok (by simp only; omega) (by simp only; omega)]
    chk_simp
  · simp only [hpos, ↓reduceIte]
    rw [center_ok (by unfold W.pt W.coord; omega) (by omega)]
    chk_simp
    apply withCenter_ok (by omega)
    simp only [Sz.satSub, Sz.newEqual]
    omega

theorem translate_ok {r : Rect} (h : W.pt r.tl) {d : Pt} (hd : W.pt d) :
    translate r d = some (r.translate d) := by
  obtain ⟨⟨_, _⟩, ⟨_, _⟩⟩ := h
  obtain ⟨⟨_, _⟩, ⟨_, _⟩⟩ := hd
  unfold translate Rect.translate
  rw [ptAdd_ok (by omega) (by omega)]
  rfl

end EG.Chk
