/-
  EG.Lemmas.JoinsBBoxTriAlign — what the stroke ALIGNMENT of a triangle gives the bounding-box proof
  for free (C02, `triangle::styled_bounding_box`):

  * `StrokeOffset::Left` (Outside strokes): the RIGHT edge line of every side is the side itself
    (`Line::extents` returns the line as its right extent), so both right corners of every join are
    the vertex exactly (`join_right_exact`; the intersection of two lines through the vertex is
    computed exactly, `i32` coordinates) - and the right edge of a segment is what every
    `edges_bounding_box` holds, skeleton or not. Hence **the three vertices lie in the stroke box**:
    the vertex clause of `TriStrokeGuard` is a theorem for Outside strokes
    (`triStrokeGuard_of_outside`).
  * `StrokeOffset::Right` (Inside strokes): the LEFT corners of every join are the vertex
    (`join_left_exact`, EG/Lemmas/TriTopRow.lean), the box is the vertex box; so of the (up to 24)
    outline end points that `TriOutlineGuard` asks to be in the box only the RIGHT corners of the three
    joins (the inner corners: at most six points, three for miter / left-bevel joins) are not there by
    proof: `TriInsideGuard`, `triOutlineGuard_of_inside`.
-/
import EG.Lemmas.JoinsBBoxTriMain
import EG.Lemmas.TriTopRow
set_option linter.unusedSimpArgs false
namespace EG
namespace Joins
open Thick (LineSide StrokeOffset)

/-! ### `StrokeOffset::Left`: the right corners of a join are the vertex itself -/

theorem extents_left_right (l : Line) (w : Nat) (lft rgt : Line)
    (h : extents l w .left = some (lft, rgt)) : rgt = l := by
  unfold extents at h
  cases hn : Thick.ParallelsIterator.new l (satAsI32 w) .left with
  | none => rw [hn] at h; cases h
  | some it =>
    rw [hn] at h
    simp only [Option.bind_eq_bind, Option.bind_some] at h
    have hmk : (⟨l.start, l.start + (l.stop - l.start) - Pt.zero⟩ : Line) = l := line_rebuild l
    cases hl : lastParallel (4 * w + 8) it none with
    | none => rw [hl] at h; cases h
    | some o =>
      rw [hl] at h
      cases o with
      | none =>
        simp only [Option.bind_some, pure, Option.some.injEq, Prod.mk.injEq] at h
        rw [← h.2]; exact hmk
      | some r =>
        obtain ⟨b, ty⟩ := r
        simp only [Option.bind_some, pure, Option.some.injEq, Prod.mk.injEq] at h
        rw [← h.2]; exact hmk

/-- The private `intersections` when the right edge lines are the two sides themselves: nothing, or the
right intersection is the vertex exactly. -/
theorem intersections_right (a m b : Pt) (fl sl : Line) (hx : inI32 m.x) (hy : inI32 m.y) :
    intersections fl ⟨a, m⟩ sl ⟨m, b⟩ = none ∨
    ∃ l side, intersections fl ⟨a, m⟩ sl ⟨m, b⟩ = some (l, side, m) := by
  unfold intersections
  cases h1 : (IntersectionParams.fromLines sl fl).intersection with
  | colinear => left; simp only [h1]
  | point pl sd =>
    rcases intersection_through a m b hx hy with h | ⟨side, h⟩
    · left; simp only [h1, h]
    · right
      simp only [h1, h]
      have hl : (if (!(IntersectionParams.fromLines ⟨m, b⟩ ⟨a, m⟩).nearlyColinearHasError) = true then m
          else (⟨a, m⟩ : Line).stop) = m := by split <;> rfl
      rw [hl]
      exact ⟨_, _, rfl⟩

/-- The right corners of `from_extents` when the right edge lines are the two sides themselves. -/
theorem fromExtents_right_corners (a m b : Pt) (w : Nat) (fl sl : Line) (hx : inI32 m.x) (hy : inI32 m.y) :
    (LineJoin.fromExtents m w fl ⟨a, m⟩ sl ⟨m, b⟩).firstEdgeEnd.right = m ∧
    (LineJoin.fromExtents m w fl ⟨a, m⟩ sl ⟨m, b⟩).secondEdgeStart.right = m := by
  unfold LineJoin.fromExtents
  rcases intersections_right a m b fl sl hx hy with h | ⟨l, side, h⟩
  · rw [h]; exact ⟨rfl, rfl⟩
  · rw [h]
    simp only []
    cases side with
    | left =>
      simp only []
      cases (LinearEquation.fromLine (⟨a, m⟩ : Line)).checkSide b LineSide.left
      · simp only [Bool.not_false, ↓reduceIte]
        split <;> exact ⟨rfl, rfl⟩
      · exact ⟨rfl, rfl⟩
    | right =>
      simp only []
      cases (LinearEquation.fromLine fl).checkSide sl.stop LineSide.right
      · simp only [Bool.not_false, ↓reduceIte]
        split <;> exact ⟨rfl, rfl⟩
      · exact ⟨rfl, rfl⟩

/-- **`StrokeOffset::Left` (any width): both right corners of the join at `m` are `m`** (`i32`
coordinates). -/
theorem join_right_exact (a m b : Pt) (w : Nat) (hx : inI32 m.x) (hy : inI32 m.y)
    (j : LineJoin) (hj : LineJoin.fromPoints a m b w .left = some j) :
    j.firstEdgeEnd.right = m ∧ j.secondEdgeStart.right = m := by
  unfold LineJoin.fromPoints at hj
  cases h1 : extents ⟨a, m⟩ w .left with
  | none => rw [h1] at hj; cases hj
  | some p1 =>
    obtain ⟨fl, fr⟩ := p1
    cases h2 : extents ⟨m, b⟩ w .left with
    | none => rw [h1, h2] at hj; cases hj
    | some p2 =>
      obtain ⟨sl, sr⟩ := p2
      rw [h1, h2] at hj
      simp only [Option.bind_eq_bind, Option.bind_some, pure, Option.some.injEq] at hj
      subst hj
      rw [extents_left_right _ _ _ _ h1, extents_left_right _ _ _ _ h2]
      exact fromExtents_right_corners a m b w fl sl hx hy

/-! ### The right edge of a segment is in its box, skeleton or not -/

theorem box_right_start {U : Rect} {s : ThickSegment} (hb : BoxIn U s) :
    U.contains s.startJoin.secondEdgeStart.right = true := by
  cases h : s.isSkeleton with
  | true => exact skeleton_box_start hb h
  | false => exact (thick_box_corners hb h).1

theorem box_right_stop {U : Rect} {s : ThickSegment} (hb : BoxIn U s) :
    U.contains s.endJoin.firstEdgeEnd.right = true := by
  cases h : s.isSkeleton with
  | true => exact skeleton_box_stop hb h
  | false => exact (thick_box_corners hb h).2.1

/-- The clockwise-sorted triangle has `i32` vertices if the triangle has. -/
theorem sortedClockwise_i32 (t : Tri) (hi : TriI32 t) :
    (inI32 t.sortedClockwise.v1.x ∧ inI32 t.sortedClockwise.v1.y) ∧
    (inI32 t.sortedClockwise.v2.x ∧ inI32 t.sortedClockwise.v2.y) ∧
    (inI32 t.sortedClockwise.v3.x ∧ inI32 t.sortedClockwise.v3.y) :=
  sortedClockwise_all (fun p => inI32 p.x ∧ inI32 p.y) t hi.1 hi.2.1 hi.2.2

/-- `sorted_clockwise` permutes the vertices (the other direction of `sortedClockwise_all`). -/
theorem sortedClockwise_all_rev (P : Pt → Prop) (t : Tri)
    (h : P t.sortedClockwise.v1 ∧ P t.sortedClockwise.v2 ∧ P t.sortedClockwise.v3) :
    P t.v1 ∧ P t.v2 ∧ P t.v3 := by
  -- every vertex of `t` is a vertex of the sorted triangle
  have hmem : ∀ p, (p = t.v1 ∨ p = t.v2 ∨ p = t.v3) →
      (p = t.sortedClockwise.v1 ∨ p = t.sortedClockwise.v2 ∨ p = t.sortedClockwise.v3) := by
    intro p hp
    unfold Tri.sortedClockwise
    split
    · rcases hp with rfl | rfl | rfl
      · right; left; rfl
      · left; rfl
      · right; right; rfl
    · split
      · exact hp
      · unfold Tri.sortedYx
        rcases sortTwoYx_cases t.v1 t.v2 with e1 | e1 <;> rw [e1] <;> simp only
        · rcases sortTwoYx_cases t.v3 t.v1 with e2 | e2 <;> rw [e2] <;> simp only
          · rcases sortTwoYx_cases t.v1 t.v2 with e3 | e3 <;> rw [e3] <;> simp only <;>
              rcases hp with rfl | rfl | rfl <;> simp
          · rcases sortTwoYx_cases t.v3 t.v2 with e3 | e3 <;> rw [e3] <;> simp only <;>
              rcases hp with rfl | rfl | rfl <;> simp
        · rcases sortTwoYx_cases t.v3 t.v2 with e2 | e2 <;> rw [e2] <;> simp only
          · rcases sortTwoYx_cases t.v2 t.v1 with e3 | e3 <;> rw [e3] <;> simp only <;>
              rcases hp with rfl | rfl | rfl <;> simp
          · rcases sortTwoYx_cases t.v3 t.v1 with e3 | e3 <;> rw [e3] <;> simp only <;>
              rcases hp with rfl | rfl | rfl <;> simp
  have key : ∀ p, (p = t.v1 ∨ p = t.v2 ∨ p = t.v3) → P p := by
    intro p hp
    rcases hmem p hp with rfl | rfl | rfl
    · exact h.1
    · exact h.2.1
    · exact h.2.2
  exact ⟨key _ (Or.inl rfl), key _ (Or.inr (Or.inl rfl)), key _ (Or.inr (Or.inr rfl))⟩

/-! ### Outside strokes: the vertices lie in the stroke box -/

/-- `TriStrokeGuard` without its vertex clause. -/
def TriOutsideStrokeGuard (t : Tri) (style : TriStyle) : Prop :=
  match closedSegments3 t.sortedClockwise style.strokeWidth style.strokeAlignment.toOffset with
  | some [a, b, c] =>
    let U := foldEdgeBoxes [a, b, c]
    (-2147483648 : Int) ≤ U.tl.y ∧ adjOK U a b = true ∧ adjOK U b c = true ∧ adjOK U c a = true
  | _ => True

instance (t : Tri) (style : TriStyle) : Decidable (TriOutsideStrokeGuard t style) := by
  unfold TriOutsideStrokeGuard; split <;> exact inferInstance

/-- **Outside stroke (any width), `i32` vertices: the three vertices lie in the fold of the boxes of
the three closed segments** - each vertex is the start of the right edge of the segment that begins
there. -/
theorem outside_vertices_in_stroke_box (t : Tri) (w : Nat) (hi : TriI32 t) (a b c : ThickSegment)
    (hs : closedSegments3 t.sortedClockwise w .left = some [a, b, c]) :
    (foldEdgeBoxes [a, b, c]).contains t.v1 = true ∧ (foldEdgeBoxes [a, b, c]).contains t.v2 = true ∧
      (foldEdgeBoxes [a, b, c]).contains t.v3 = true := by
  obtain ⟨i1, i2, i3⟩ := sortedClockwise_i32 t hi
  apply sortedClockwise_all_rev (fun p => (foldEdgeBoxes [a, b, c]).contains p = true) t
  unfold closedSegments3 at hs
  cases h0 : LineJoin.fromPoints t.sortedClockwise.v3 t.sortedClockwise.v1 t.sortedClockwise.v2 w .left with
  | none => rw [h0] at hs; cases hs
  | some j0 =>
    cases h1 : LineJoin.fromPoints t.sortedClockwise.v1 t.sortedClockwise.v2 t.sortedClockwise.v3 w .left with
    | none => rw [h0, h1] at hs; cases hs
    | some j1 =>
      cases h2 : LineJoin.fromPoints t.sortedClockwise.v2 t.sortedClockwise.v3 t.sortedClockwise.v1 w .left with
      | none => rw [h0, h1, h2] at hs; cases hs
      | some j2 =>
        rw [h0, h1, h2] at hs
        simp only [Option.bind_eq_bind, Option.bind_some, pure, Option.some.injEq, List.cons.injEq,
          and_true] at hs
        obtain ⟨rfl, rfl, rfl⟩ := hs
        have hb := fun s hs => foldEdgeBoxes_boxIn [⟨j0, j1⟩, ⟨j1, j2⟩, ⟨j2, j0⟩] s hs
        have e0 := (join_right_exact _ _ _ w i1.1 i1.2 j0 h0).2
        have e1 := (join_right_exact _ _ _ w i2.1 i2.2 j1 h1).2
        have e2 := (join_right_exact _ _ _ w i3.1 i3.2 j2 h2).2
        have c0 := box_right_start (hb ⟨j0, j1⟩ (by simp))
        have c1 := box_right_start (hb ⟨j1, j2⟩ (by simp))
        have c2 := box_right_start (hb ⟨j2, j0⟩ (by simp))
        dsimp only at c0 c1 c2
        rw [e0] at c0
        rw [e1] at c1
        rw [e2] at c2
        exact ⟨c0, c1, c2⟩

/-- **For an Outside stroke the vertex clause of `TriStrokeGuard` holds by proof.** -/
theorem triStrokeGuard_of_outside (t : Tri) (style : TriStyle) (hal : style.strokeAlignment = .outside)
    (hi : TriI32 t) (hg : TriOutsideStrokeGuard t style) : TriStrokeGuard t style := by
  unfold TriOutsideStrokeGuard at hg
  unfold TriStrokeGuard
  have hoff : style.strokeAlignment.toOffset = .left := by rw [hal]; rfl
  rw [hoff] at hg ⊢
  cases hs : closedSegments3 t.sortedClockwise style.strokeWidth .left with
  | none => trivial
  | some segs =>
    rw [hs] at hg
    match segs, hs, hg with
    | [a, b, c], hs, hg =>
      obtain ⟨g0, g1, g2, g3⟩ := hg
      exact ⟨g0, g1, g2, g3, fun _ => outside_vertices_in_stroke_box t _ hi a b c hs⟩
    | [], _, _ => trivial
    | [_], _, _ => trivial
    | [_, _], _, _ => trivial
    | _ :: _ :: _ :: _ :: _, _, _ => trivial

/-! ### Inside strokes: only the inner corners are left to check -/

/-- All four corners of the join lie in the rectangle. -/
def JoinIn (U : Rect) (j : LineJoin) : Prop :=
  (U.contains j.firstEdgeEnd.left = true ∧ U.contains j.secondEdgeStart.left = true) ∧
  (U.contains j.firstEdgeEnd.right = true ∧ U.contains j.secondEdgeStart.right = true)

theorem filler_midpoint_of_joinIn {U : Rect} {j : LineJoin} (h : JoinIn U j) :
    ∀ f, j.fillerLine = some f → U.contains (midpoint f) = true := by
  intro f hf
  rw [fillerLine_eq] at hf
  cases hside : fillerSide j with
  | none => rw [hside] at hf; cases hf
  | some side =>
    rw [hside] at hf
    cases side with
    | left => cases hf; exact contains_midpoint ⟨h.1.1, h.1.2⟩
    | right => cases hf; exact contains_midpoint ⟨h.2.1, h.2.2⟩

/-- Every outline line of a segment whose two joins have their corners in `U` ends in `U`. -/
theorem outline_covered_of_joinIn {U : Rect} (s : ThickSegment) (hA : JoinIn U s.startJoin)
    (hB : JoinIn U s.endJoin) : ∀ l ∈ s.outline, Covered U l := by
  cases h : s.isSkeleton with
  | true =>
    rw [outline_skeleton s h]
    intro l hl
    simp only [List.mem_cons, List.not_mem_nil, or_false] at hl
    subst hl
    exact ⟨hA.2.2, hB.2.1⟩
  | false =>
    rw [outline_eq s h]
    intro l hl
    simp only [List.mem_append] at hl
    rcases hl with (hl | hl) | hl
    · exact cap_covered s.startJoin s.startJoin.secondEdgeStart hA.1.2 hA.2.2
        (filler_midpoint_of_joinIn hA) l hl
    · exact cap_covered s.endJoin s.endJoin.firstEdgeEnd hB.1.1 hB.2.1
        (filler_midpoint_of_joinIn hB) l hl
    · simp only [List.mem_cons, List.not_mem_nil, or_false] at hl
      rcases hl with rfl | rfl
      · exact ⟨hA.2.2, hB.2.1⟩
      · exact ⟨hB.1.1, hA.1.2⟩

/-- The guard left for Inside strokes: the two RIGHT (inner) corners of each of the three joins - each
join is the start join of exactly one closed segment - lie in the plain vertex box. -/
def TriInsideGuard (t : Tri) (w : Nat) : Prop :=
  match closedSegments3 t.sortedClockwise w .right with
  | some segs => ∀ s ∈ segs, t.boundingBox.contains s.startJoin.firstEdgeEnd.right = true ∧
      t.boundingBox.contains s.startJoin.secondEdgeStart.right = true
  | none => True

instance (t : Tri) (w : Nat) : Decidable (TriInsideGuard t w) := by
  unfold TriInsideGuard; split <;> exact inferInstance

/-- **Inside stroke, `i32` vertices: `TriOutlineGuard` (all outline end points and the vertices in the
box, top row an `i32`) follows from the inner corners being in the vertex box.** -/
theorem triOutlineGuard_of_inside (t : Tri) (style : TriStyle) (hal : style.strokeAlignment = .inside)
    (hi : TriI32 t) (hg : TriInsideGuard t style.strokeWidth) : TriOutlineGuard t style := by
  have hbb : triStyledBoundingBox t style = some t.boundingBox := by
    unfold triStyledBoundingBox
    have : style.strokeWidth < 2 ∨ style.strokeAlignment = .inside := Or.inr hal
    simp only [this, ↓reduceIte]
  have hoff : style.strokeAlignment.toOffset = .right := by rw [hal]; rfl
  obtain ⟨i1, i2, i3⟩ := sortedClockwise_i32 t hi
  obtain ⟨b1, b2, b3⟩ := sortedClockwise_all (fun p => t.boundingBox.contains p = true) t
    (tri_boundingBox_contains t).1 (tri_boundingBox_contains t).2.1 (tri_boundingBox_contains t).2.2
  unfold TriOutlineGuard
  rw [hbb, hoff]
  dsimp only
  refine ⟨?_, ?_⟩
  · have e : t.boundingBox.tl.y = min (min t.v1.y t.v2.y) t.v3.y := by
      unfold Tri.boundingBox Rect.withCorners
      dsimp only
      omega
    obtain ⟨⟨_, h1⟩, ⟨_, h2⟩, ⟨_, h3⟩⟩ := hi
    unfold inI32 at h1 h2 h3
    omega
  · unfold TriInsideGuard at hg
    cases hs : closedSegments3 t.sortedClockwise style.strokeWidth .right with
    | none => trivial
    | some segs =>
      rw [hs] at hg
      dsimp only at hg ⊢
      refine ⟨?_, tri_boundingBox_contains t⟩
      unfold closedSegments3 at hs
      cases h0 : LineJoin.fromPoints t.sortedClockwise.v3 t.sortedClockwise.v1 t.sortedClockwise.v2
          style.strokeWidth .right with
      | none => rw [h0] at hs; cases hs
      | some j0 =>
        cases h1 : LineJoin.fromPoints t.sortedClockwise.v1 t.sortedClockwise.v2 t.sortedClockwise.v3
            style.strokeWidth .right with
        | none => rw [h0, h1] at hs; cases hs
        | some j1 =>
          cases h2 : LineJoin.fromPoints t.sortedClockwise.v2 t.sortedClockwise.v3 t.sortedClockwise.v1
              style.strokeWidth .right with
          | none => rw [h0, h1, h2] at hs; cases hs
          | some j2 =>
            rw [h0, h1, h2] at hs
            simp only [Option.bind_eq_bind, Option.bind_some, pure, Option.some.injEq] at hs
            subst hs
            obtain ⟨l0, l0'⟩ := join_left_exact _ _ _ style.strokeWidth .right i1.1 i1.2 (Or.inr rfl) j0 h0
            obtain ⟨l1, l1'⟩ := join_left_exact _ _ _ style.strokeWidth .right i2.1 i2.2 (Or.inr rfl) j1 h1
            obtain ⟨l2, l2'⟩ := join_left_exact _ _ _ style.strokeWidth .right i3.1 i3.2 (Or.inr rfl) j2 h2
            have r0 := hg ⟨j0, j1⟩ (by simp)
            have r1 := hg ⟨j1, j2⟩ (by simp)
            have r2 := hg ⟨j2, j0⟩ (by simp)
            dsimp only at r0 r1 r2
            have J0 : JoinIn t.boundingBox j0 := ⟨⟨by rw [l0]; exact b1, by rw [l0']; exact b1⟩, r0⟩
            have J1 : JoinIn t.boundingBox j1 := ⟨⟨by rw [l1]; exact b2, by rw [l1']; exact b2⟩, r1⟩
            have J2 : JoinIn t.boundingBox j2 := ⟨⟨by rw [l2]; exact b3, by rw [l2']; exact b3⟩, r2⟩
            intro s hs
            simp only [List.mem_cons, List.not_mem_nil, or_false] at hs
            rcases hs with rfl | rfl | rfl
            · exact outline_covered_of_joinIn _ J0 J1
            · exact outline_covered_of_joinIn _ J1 J2
            · exact outline_covered_of_joinIn _ J2 J0

/-- The right edge is an outline line of every segment. -/
theorem right_edge_mem_outline (s : ThickSegment) : s.edges.1 ∈ s.outline := by
  cases h : s.isSkeleton with
  | true => rw [outline_skeleton s h]; exact List.mem_cons_self
  | false => rw [outline_eq s h]; simp

/-- `TriInsideGuard` is the weaker guard: it holds wherever `TriOutlineGuard` does (the inner corners are
end points of the right edges, which are outline lines). -/
theorem triInsideGuard_of_outline (t : Tri) (style : TriStyle) (hal : style.strokeAlignment = .inside)
    (h : TriOutlineGuard t style) : TriInsideGuard t style.strokeWidth := by
  have hbb : triStyledBoundingBox t style = some t.boundingBox := by
    unfold triStyledBoundingBox
    have : style.strokeWidth < 2 ∨ style.strokeAlignment = .inside := Or.inr hal
    simp only [this, ↓reduceIte]
  have hoff : style.strokeAlignment.toOffset = .right := by rw [hal]; rfl
  unfold TriOutlineGuard at h
  rw [hbb, hoff] at h
  unfold TriInsideGuard
  cases hs : closedSegments3 t.sortedClockwise style.strokeWidth .right with
  | none => trivial
  | some segs =>
    rw [hs] at h
    dsimp only at h ⊢
    obtain ⟨_, hout, _⟩ := h
    unfold closedSegments3 at hs
    cases h0 : LineJoin.fromPoints t.sortedClockwise.v3 t.sortedClockwise.v1 t.sortedClockwise.v2
        style.strokeWidth .right with
    | none => rw [h0] at hs; cases hs
    | some j0 =>
      cases h1 : LineJoin.fromPoints t.sortedClockwise.v1 t.sortedClockwise.v2 t.sortedClockwise.v3
          style.strokeWidth .right with
      | none => rw [h0, h1] at hs; cases hs
      | some j1 =>
        cases h2 : LineJoin.fromPoints t.sortedClockwise.v2 t.sortedClockwise.v3 t.sortedClockwise.v1
            style.strokeWidth .right with
        | none => rw [h0, h1, h2] at hs; cases hs
        | some j2 =>
          rw [h0, h1, h2] at hs
          simp only [Option.bind_eq_bind, Option.bind_some, pure, Option.some.injEq] at hs
          subst hs
          have e0 := hout ⟨j0, j1⟩ (by simp) _ (right_edge_mem_outline _)
          have e1 := hout ⟨j1, j2⟩ (by simp) _ (right_edge_mem_outline _)
          have e2 := hout ⟨j2, j0⟩ (by simp) _ (right_edge_mem_outline _)
          unfold ThickSegment.edges at e0 e1 e2
          dsimp only at e0 e1 e2
          intro s hs
          simp only [List.mem_cons, List.not_mem_nil, or_false] at hs
          rcases hs with rfl | rfl | rfl
          · exact ⟨e2.2, e0.1⟩
          · exact ⟨e0.2, e1.1⟩
          · exact ⟨e1.2, e2.1⟩

/-- For an Outside stroke with `i32` vertices the two guards are the same. -/
theorem triStrokeGuard_outside_iff (t : Tri) (style : TriStyle) (hal : style.strokeAlignment = .outside)
    (hi : TriI32 t) : TriStrokeGuard t style ↔ TriOutsideStrokeGuard t style := by
  refine ⟨?_, triStrokeGuard_of_outside t style hal hi⟩
  unfold TriStrokeGuard TriOutsideStrokeGuard
  generalize closedSegments3 t.sortedClockwise style.strokeWidth style.strokeAlignment.toOffset = o
  rcases o with _ | (_ | ⟨a, _ | ⟨b, _ | ⟨c, _ | ⟨d, r⟩⟩⟩⟩)
  · exact id
  · exact id
  · exact id
  · exact id
  · rintro ⟨g0, g1, g2, g3, _⟩
    exact ⟨g0, g1, g2, g3⟩
  · exact id

/-! ### Center / Outside strokes: only the COLUMNS of the vertices matter -/

/-- `TriStrokeGuard` with its vertex clause weakened to what the proof uses: the x coordinates of the
three vertices lie in the columns of the stroke box (a vertex may lie above or below the box: the rows
iterated are the rows of the box). -/
def TriStrokeColumnsGuard (t : Tri) (style : TriStyle) : Prop :=
  match closedSegments3 t.sortedClockwise style.strokeWidth style.strokeAlignment.toOffset with
  | some [a, b, c] =>
    let U := foldEdgeBoxes [a, b, c]
    (-2147483648 : Int) ≤ U.tl.y ∧ adjOK U a b = true ∧ adjOK U b c = true ∧ adjOK U c a = true ∧
      (style.fillColor.isSome = true →
        (U.tl.x ≤ t.v1.x ∧ t.v1.x ≤ U.tl.x + U.size.w - 1) ∧ (U.tl.x ≤ t.v2.x ∧ t.v2.x ≤ U.tl.x + U.size.w - 1) ∧
          (U.tl.x ≤ t.v3.x ∧ t.v3.x ≤ U.tl.x + U.size.w - 1))
  | _ => True

instance (t : Tri) (style : TriStyle) : Decidable (TriStrokeColumnsGuard t style) := by
  unfold TriStrokeColumnsGuard; split <;> exact inferInstance

/-- The columns guard is the weaker one. -/
theorem triStrokeColumnsGuard_of_guard (t : Tri) (style : TriStyle) (h : TriStrokeGuard t style) :
    TriStrokeColumnsGuard t style := by
  unfold TriStrokeGuard at h
  unfold TriStrokeColumnsGuard
  generalize closedSegments3 t.sortedClockwise style.strokeWidth style.strokeAlignment.toOffset = o at h ⊢
  rcases o with _ | (_ | ⟨a, _ | ⟨b, _ | ⟨c, _ | ⟨d, r⟩⟩⟩⟩)
  · trivial
  · trivial
  · trivial
  · trivial
  · obtain ⟨g0, g1, g2, g3, gv⟩ := h
    refine ⟨g0, g1, g2, g3, ?_⟩
    intro hf
    obtain ⟨v1, v2, v3⟩ := gv hf
    rw [Rect.contains_iff] at v1 v2 v3
    refine ⟨?_, ?_, ?_⟩ <;> omega
  · trivial

/-- `TriCtx` for a Center / Outside stroke of width > 1 under the columns guard. -/
theorem triCtx_stroke_columns (t : Tri) (style : TriStyle) (hw : 2 ≤ style.strokeWidth)
    (hal : style.strokeAlignment ≠ .inside) (hg : TriStrokeColumnsGuard t style) (bb : Rect)
    (hbb : triStyledBoundingBox t style = some bb) :
    -2147483648 ≤ bb.tl.y ∧
    ∀ c, TriCtx t.sortedClockwise style.strokeWidth style.strokeAlignment.toOffset bb.tl.x
      (bb.tl.x + bb.size.w - 1) (c && style.strokeAlignment.toOffset == .right) style.fillColor.isSome := by
  rw [triStyledBoundingBox_eq] at hbb
  have hcond : ¬ (style.strokeWidth < 2 ∨ style.strokeAlignment = .inside) := by
    intro h; rcases h with h | h
    · omega
    · exact hal h
  simp only [hcond, ↓reduceIte] at hbb
  have hoff : (style.strokeAlignment.toOffset == StrokeOffset.right) = false := by
    cases hs : style.strokeAlignment with
    | inside => exact absurd hs hal
    | center => rfl
    | outside => rfl
  unfold TriStrokeColumnsGuard at hg
  unfold closedSegments3 at hbb hg
  cases h0 : LineJoin.fromPoints t.sortedClockwise.v3 t.sortedClockwise.v1 t.sortedClockwise.v2
      style.strokeWidth style.strokeAlignment.toOffset with
  | none => rw [h0] at hbb; cases hbb
  | some j0 =>
    cases h1 : LineJoin.fromPoints t.sortedClockwise.v1 t.sortedClockwise.v2 t.sortedClockwise.v3
        style.strokeWidth style.strokeAlignment.toOffset with
    | none => rw [h0, h1] at hbb; cases hbb
    | some j1 =>
      cases h2 : LineJoin.fromPoints t.sortedClockwise.v2 t.sortedClockwise.v3 t.sortedClockwise.v1
          style.strokeWidth style.strokeAlignment.toOffset with
      | none => rw [h0, h1, h2] at hbb; cases hbb
      | some j2 =>
        rw [h0, h1, h2] at hbb hg
        simp only [Option.bind_eq_bind, Option.bind_some, pure, Option.map_some, Option.some.injEq] at hbb hg
        subst hbb
        obtain ⟨hmin, g1, g2, g3, gv⟩ := hg
        have hcov := closed3_outline_covered ⟨j0, j1⟩ ⟨j1, j2⟩ ⟨j2, j0⟩ rfl rfl rfl g1 g2 g3
        refine ⟨hmin, ?_⟩
        intro c
        rw [hoff, Bool.and_false]
        constructor
        · intro _ _ idx a b ha hb
          exact covered_segOK (hcov _ (edge_segment_mem t.sortedClockwise style.strokeWidth
            style.strokeAlignment.toOffset _ (by unfold closedSegments3; rw [h0, h1, h2]; rfl) idx a b ha hb))
        · intro h
          rcases h with h | h
          · cases h
          · obtain ⟨v1, v2, v3⟩ := gv h
            exact sortedClockwise_all (fun p =>
              (foldEdgeBoxes [⟨j0, j1⟩, ⟨j1, j2⟩, ⟨j2, j0⟩]).tl.x ≤ p.x ∧
              p.x ≤ (foldEdgeBoxes [⟨j0, j1⟩, ⟨j1, j2⟩, ⟨j2, j0⟩]).tl.x +
                (foldEdgeBoxes [⟨j0, j1⟩, ⟨j1, j2⟩, ⟨j2, j0⟩]).size.w - 1) t v1 v2 v3

end Joins
end EG
