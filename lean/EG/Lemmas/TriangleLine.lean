/-
  EG.Lemmas.TriangleLine — what the triangle rasteriser needs from its ingredients:
  * lines that run downwards (`start.y ≤ end.y`, as all edges of a `(y, x)`-sorted triangle do):
    the rows of `Line::points()` are non-decreasing, every row between the end points is hit;
  * on such a list `skip_while(p.y != y).take_while(p.y == y)` is `filter (p.y == y)`;
  * `Scanline::extend` / `bresenham_intersection`: the result covers every pixel of the line in that
    row, keeps what was covered before, stays within given bounds, and its two ends are attained.
-/
import EG.Lemmas.LineProps
import EG.Lemmas.TrianglePoints
namespace EG

/-! ## downward lines -/

namespace Line

theorem sgn_of_nonneg {a : Int} (h : 0 ≤ a) : sgn a = 1 := by
  unfold sgn; simp [h]

/-- One step of a downward line moves the row by 0 or 1. -/
theorem ptAt_y_step {l : Line} (h : 0 ≤ dyOf l) (k : Nat) :
    (ptAt l (k + 1)).y = (ptAt l k).y ∨ (ptAt l (k + 1)).y = (ptAt l k).y + 1 := by
  obtain ⟨hy, hx⟩ := ptAt_step l k
  have hs := sgn_of_nonneg h
  by_cases hm : yMajor l
  · have := (hy hm).1; omega
  · have := (hx hm).2; omega

theorem ptAt_y_mono {l : Line} (h : 0 ≤ dyOf l) (i : Nat) : ∀ (n : Nat),
    (ptAt l i).y ≤ (ptAt l (i + n)).y := by
  intro n
  induction n with
  | zero => exact Int.le_refl _
  | succ n ih =>
    have := ptAt_y_step h (i + n)
    rw [← Nat.add_assoc]; omega

/-- The rows along `points()` of a downward line are non-decreasing. -/
theorem points_pairwise_y {l : Line} (h : 0 ≤ dyOf l) :
    (points l).Pairwise (fun a b => a.y ≤ b.y) := by
  rw [points_eq, List.pairwise_map]
  have : (List.range ((dmaj l).toNat + 1)).Pairwise (· < ·) := List.pairwise_lt_range
  refine this.imp ?_
  intro i j hij
  have := ptAt_y_mono h i (j - i)
  have e : i + (j - i) = j := by omega
  rwa [e] at this

/-- Every row between the end points of a downward line is hit. -/
theorem exists_point_in_row {l : Line} (h : 0 ≤ dyOf l) (y : Int) (h1 : l.start.y ≤ y)
    (h2 : y ≤ l.stop.y) : ∃ p ∈ points l, p.y = y := by
  have key : ∀ k : Nat, y ≤ (ptAt l k).y → ∃ j : Nat, j ≤ k ∧ (ptAt l j).y = y := by
    intro k
    induction k with
    | zero =>
      intro hk
      rw [ptAt_zero] at hk
      exact ⟨0, Nat.le_refl _, by rw [ptAt_zero]; omega⟩
    | succ k ih =>
      intro hk
      by_cases hc : y ≤ (ptAt l k).y
      · obtain ⟨j, hj, e⟩ := ih hc
        exact ⟨j, by omega, e⟩
      · have := ptAt_y_step h k
        exact ⟨k + 1, Nat.le_refl _, by omega⟩
  have hd := dmaj_nonneg l
  have hlast := ptAt_last l (dmaj l).toNat (by omega)
  obtain ⟨j, hj, e⟩ := key (dmaj l).toNat (by rw [hlast]; exact h2)
  exact ⟨ptAt l j, mem_points.mpr ⟨j, by omega, rfl⟩, e⟩

end Line

/-! ## `skip_while(.. != y).take_while(.. == y)` on a list with non-decreasing rows -/

theorem takeWhile_eq_filter_of_ge (y : Int) : ∀ (l : List Pt),
    l.Pairwise (fun a b => a.y ≤ b.y) → (∀ p ∈ l, y ≤ p.y) →
    l.takeWhile (fun p => p.y == y) = l.filter (fun p => p.y == y) := by
  intro l
  induction l with
  | nil => intro _ _; rfl
  | cons a l ih =>
    intro hp hge
    rw [List.pairwise_cons] at hp
    by_cases ha : a.y = y
    · have : (a.y == y) = true := by simpa using ha
      rw [List.takeWhile_cons, List.filter_cons]
      simp only [this, ↓reduceIte]
      rw [ih hp.2 (fun p hp' => hge p (List.mem_cons_of_mem _ hp'))]
    · have hf : (a.y == y) = false := by simpa using ha
      rw [List.takeWhile_cons, List.filter_cons]
      simp only [hf, Bool.false_eq_true, ↓reduceIte]
      symm
      rw [List.filter_eq_nil_iff]
      intro p hp'
      have h1 := hp.1 p hp'
      have h2 := hge a List.mem_cons_self
      simp only [beq_iff_eq]; omega

theorem dropTake_eq_filter (y : Int) : ∀ (l : List Pt), l.Pairwise (fun a b => a.y ≤ b.y) →
    (l.dropWhile (fun p => p.y != y)).takeWhile (fun p => p.y == y) =
      l.filter (fun p => p.y == y) := by
  intro l
  induction l with
  | nil => intro _; rfl
  | cons a l ih =>
    intro hp
    have hp' := hp
    rw [List.pairwise_cons] at hp
    by_cases ha : a.y = y
    · have h1 : (a.y != y) = false := by simp [ha]
      rw [List.dropWhile_cons]
      simp only [h1, Bool.false_eq_true, ↓reduceIte]
      apply takeWhile_eq_filter_of_ge y _ hp'
      intro p hp''
      rcases List.mem_cons.mp hp'' with rfl | hm
      · omega
      · have := hp.1 p hm; omega
    · have h1 : (a.y != y) = true := by simp [ha]
      have h2 : (a.y == y) = false := by simpa using ha
      rw [List.dropWhile_cons, List.filter_cons]
      simp only [h1, h2, ↓reduceIte, Bool.false_eq_true]
      exact ih hp.2

/-! ## `Scanline::extend` -/

namespace Scanline

/-- `x` is a column of the scanline. -/
def Covers (s : Scanline) (x : Int) : Prop := s.xs ≤ x ∧ x < s.xe

theorem extend_y (s : Scanline) (x : Int) : (s.extend x).y = s.y := by
  unfold extend; split <;> (try split) <;> (try split) <;> rfl

theorem extend_covers_self (s : Scanline) (x : Int) : (s.extend x).Covers x := by
  unfold extend Covers isEmpty
  by_cases h0 : s.xs < s.xe
  · simp only [h0, decide_true, Bool.not_true, Bool.false_eq_true, ↓reduceIte]
    split
    · dsimp only; omega
    · split
      · dsimp only; omega
      · omega
  · simp only [h0, decide_false, Bool.not_false, ↓reduceIte]; omega

theorem extend_mono {s : Scanline} {z : Int} (h : s.Covers z) (x : Int) : (s.extend x).Covers z := by
  unfold Covers at h
  unfold extend Covers isEmpty
  have h0 : s.xs < s.xe := by omega
  simp only [h0, decide_true, Bool.not_true, Bool.false_eq_true, ↓reduceIte]
  split
  · dsimp only; omega
  · split
    · dsimp only; omega
    · omega

theorem extend_nonempty (s : Scanline) (x : Int) : (s.extend x).xs < (s.extend x).xe := by
  have := extend_covers_self s x; unfold Covers at this; omega

/-- Bounds are kept: an empty or bounded scanline extended by a bounded column is bounded. -/
theorem extend_within {s : Scanline} {lo hi x : Int} (hs : ¬ s.xs < s.xe ∨ (lo ≤ s.xs ∧ s.xe ≤ hi))
    (hx : lo ≤ x ∧ x < hi) : lo ≤ (s.extend x).xs ∧ (s.extend x).xe ≤ hi := by
  unfold extend isEmpty
  by_cases h0 : s.xs < s.xe
  · simp only [h0, decide_true, Bool.not_true, Bool.false_eq_true, ↓reduceIte]
    split
    · dsimp only; omega
    · split
      · dsimp only; omega
      · omega
  · simp only [h0, decide_false, Bool.not_false, ↓reduceIte]; omega

/-- The ends of the extended scanline are `x` or the old ends. -/
theorem extend_ends (s : Scanline) (x : Int) :
    ((s.extend x).xs = x ∨ (s.xs < s.xe ∧ (s.extend x).xs = s.xs)) ∧
    ((s.extend x).xe = x + 1 ∨ (s.xs < s.xe ∧ (s.extend x).xe = s.xe)) := by
  unfold extend isEmpty
  by_cases h0 : s.xs < s.xe
  · simp only [h0, decide_true, Bool.not_true, Bool.false_eq_true, ↓reduceIte, true_and]
    split
    · exact ⟨Or.inl rfl, Or.inr rfl⟩
    · split
      · exact ⟨Or.inr rfl, Or.inl rfl⟩
      · exact ⟨Or.inr rfl, Or.inr rfl⟩
  · simp only [h0, decide_false, Bool.not_false, ↓reduceIte]
    refine ⟨Or.inl ?_, Or.inl ?_⟩ <;> trivial

/-! ### folding `extend` over the pixels of a row -/

/-- `pts.for_each(|p| self.extend(p.x))`. -/
def extendAll (s : Scanline) (l : List Pt) : Scanline := l.foldl (fun s p => s.extend p.x) s

theorem extendAll_y : ∀ (l : List Pt) (s : Scanline), (s.extendAll l).y = s.y := by
  intro l
  induction l with
  | nil => intro s; rfl
  | cons p l ih => intro s; simp only [extendAll, List.foldl_cons] at ih ⊢; rw [ih, extend_y]

theorem extendAll_mono : ∀ (l : List Pt) {s : Scanline} {z : Int}, s.Covers z →
    (s.extendAll l).Covers z := by
  intro l
  induction l with
  | nil => intro s z h; exact h
  | cons p l ih =>
    intro s z h
    simp only [extendAll, List.foldl_cons] at ih ⊢
    exact ih (extend_mono h p.x)

theorem extendAll_covers : ∀ (l : List Pt) (s : Scanline) (q : Pt), q ∈ l →
    (s.extendAll l).Covers q.x := by
  intro l
  induction l with
  | nil => intro s q h; cases h
  | cons p l ih =>
    intro s q h
    simp only [extendAll, List.foldl_cons] at ih ⊢
    rcases List.mem_cons.mp h with rfl | hm
    · exact extendAll_mono l (extend_covers_self s q.x)
    · exact ih _ q hm

theorem extendAll_within {lo hi : Int} : ∀ (l : List Pt) (s : Scanline),
    (¬ s.xs < s.xe ∨ (lo ≤ s.xs ∧ s.xe ≤ hi)) → (∀ q ∈ l, lo ≤ q.x ∧ q.x < hi) →
    (¬ (s.extendAll l).xs < (s.extendAll l).xe ∨ (lo ≤ (s.extendAll l).xs ∧ (s.extendAll l).xe ≤ hi)) := by
  intro l
  induction l with
  | nil => intro s hs _; exact hs
  | cons p l ih =>
    intro s hs hl
    simp only [extendAll, List.foldl_cons] at ih ⊢
    exact ih _ (Or.inr (extend_within hs (hl p List.mem_cons_self)))
      (fun q hq => hl q (List.mem_cons_of_mem _ hq))

/-- Both ends of the result are attained: by a pixel of the list or by the scanline before. -/
theorem extendAll_ends : ∀ (l : List Pt) (s : Scanline),
    (s.extendAll l).xs < (s.extendAll l).xe →
    ((∃ q ∈ l, q.x = (s.extendAll l).xs) ∨ (s.xs < s.xe ∧ (s.extendAll l).xs = s.xs)) ∧
    ((∃ q ∈ l, q.x + 1 = (s.extendAll l).xe) ∨ (s.xs < s.xe ∧ (s.extendAll l).xe = s.xe)) := by
  intro l
  induction l with
  | nil => intro s h; exact ⟨Or.inr ⟨h, rfl⟩, Or.inr ⟨h, rfl⟩⟩
  | cons p l ih =>
    intro s h
    simp only [extendAll, List.foldl_cons] at ih h ⊢
    obtain ⟨i1, i2⟩ := ih (s.extend p.x) h
    obtain ⟨e1, e2⟩ := extend_ends s p.x
    constructor
    · rcases i1 with ⟨q, hq, e⟩ | ⟨_, e⟩
      · exact Or.inl ⟨q, List.mem_cons_of_mem _ hq, e⟩
      · rcases e1 with e1 | ⟨hne, e1⟩
        · exact Or.inl ⟨p, List.mem_cons_self, by omega⟩
        · exact Or.inr ⟨hne, by omega⟩
    · rcases i2 with ⟨q, hq, e⟩ | ⟨_, e⟩
      · exact Or.inl ⟨q, List.mem_cons_of_mem _ hq, e⟩
      · rcases e2 with e2 | ⟨hne, e2⟩
        · exact Or.inl ⟨p, List.mem_cons_self, by omega⟩
        · exact Or.inr ⟨hne, by omega⟩

/-! ### `bresenham_intersection` with a downward line -/

/-- The pixels of the line in the scanline's row. -/
def rowPixels (l : Line) (y : Int) : List Pt := (Line.points l).filter (fun p => p.y == y)

theorem mem_rowPixels {l : Line} {y : Int} {q : Pt} :
    q ∈ rowPixels l y ↔ q ∈ Line.points l ∧ q.y = y := by
  unfold rowPixels; simp

/-- For a downward line `bresenham_intersection` extends the scanline by all pixels of the line in
its row (the guard on the row range is redundant: outside it there is no such pixel). -/
theorem bint_eq_extendAll (s : Scanline) {l : Line} (h : 0 ≤ Line.dyOf l) :
    s.bint l = s.extendAll (rowPixels l s.y) := by
  have hd : l.start.y ≤ l.stop.y := by unfold Line.dyOf at h; omega
  unfold bint bresenhamIntersection
  simp only [hd, ↓reduceIte]
  by_cases hin : l.start.y ≤ s.y ∧ s.y ≤ l.stop.y
  · simp only [hin, and_self, decide_true, Bool.not_true, Bool.false_eq_true, ↓reduceIte]
    rw [dropTake_eq_filter s.y _ (Line.points_pairwise_y h)]
    rfl
  · simp only [hin, decide_false, Bool.not_false, ↓reduceIte]
    have : rowPixels l s.y = [] := by
      unfold rowPixels
      rw [List.filter_eq_nil_iff]
      intro p hp
      obtain ⟨k, hk, rfl⟩ := Line.mem_points.mp hp
      have hb := Line.ptAt_in_box l k hk
      simp only [beq_iff_eq]; omega
    rw [this]; rfl

end Scanline
end EG
