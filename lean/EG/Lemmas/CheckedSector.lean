/-
  EG.Lemmas.CheckedSector — range theorems of the sector / arc kernels
  (Model/CheckedSector.lean).

  Domains: normal vectors of the plane sector (and of the bevel line) within +-1024 per
  component (`Sec.normal`; `OriginLinearEquation::with_angle` scales a unit vector by
  `NORMAL_VECTOR_SCALE = 1024`), doubled deltas within +-32767 (`J.pt`: the largest values whose
  squared length fits `i32`, so `DistanceIterator` is the binding constraint, not the dot
  products), circles of the shape domain `S` (corner within +-4096, diameter up to 8192, probed
  points within +-8192).
-/
import EG.Lemmas.CheckedDS
import EG.Lemmas.CheckedThick
import EG.Lemmas.TriangleI32
import EG.Model.CheckedSector
namespace EG.Chk
open EG

/-- components within +-1024 -/
def Sec.normal (n : Pt) : Prop := (-1024 ≤ n.x ∧ n.x ≤ 1024) ∧ (-1024 ≤ n.y ∧ n.y ≤ 1024)
instance (n : Pt) : Decidable (Sec.normal n) := by unfold Sec.normal; exact inferInstance
/-- both normals of a plane sector within +-1024 -/
def Sec.ps (ps : EG.PlaneSector) : Prop := Sec.normal ps.left ∧ Sec.normal ps.right
instance (ps : EG.PlaneSector) : Decidable (Sec.ps ps) := by unfold Sec.ps; exact inferInstance

namespace PlaneSector

/-- a coordinate within +-32767 times a normal component within +-2048 -/
theorem prod_bound {a b : Int} (ha : -32767 ≤ a ∧ a ≤ 32767) (hb : -2048 ≤ b ∧ b ≤ 2048) :
    -67106816 ≤ a * b ∧ a * b ≤ 67106816 := by
  have := Triangle.mul_bound (B := 32767) (C := 2048) ha hb; omega

theorem distance_ok {n p : Pt} (hn : Sec.normal n) (hp : J.pt p) :
    distance n p = some (EG.PlaneSector.distance n p) ∧
    (-134213632 ≤ EG.PlaneSector.distance n p ∧ EG.PlaneSector.distance n p ≤ 134213632) := by
  obtain ⟨⟨_, _⟩, ⟨_, _⟩⟩ := hn
  obtain ⟨hx, hy⟩ := hp
  unfold J.coord at hx hy
  have h1 := prod_bound hx (b := n.x) (by omega)
  have h2 := prod_bound hy (b := n.y) (by omega)
  unfold distance Isect.dot EG.PlaneSector.distance dotProduct
  refine ⟨?_, ?_, ?_⟩
  · chk_simp
  · omega
  · omega

/-- **`PlaneSector::contains`**: normals within +-1024, doubled delta within +-32767. -/
theorem contains_ok {ps : EG.PlaneSector} (hps : Sec.ps ps) {p : Pt} (hp : J.pt p) :
    contains ps p = some (ps.contains p) := by
  obtain ⟨e1, _⟩ := distance_ok hps.1 hp
  obtain ⟨e2, _⟩ := distance_ok hps.2 hp
  obtain ⟨⟨⟨_, _⟩, ⟨_, _⟩⟩, ⟨⟨_, _⟩, ⟨_, _⟩⟩⟩ := hps
  obtain ⟨hx, hy⟩ := hp
  unfold J.coord at hx hy
  have l1 := Triangle.mul_bound (B := 1024) (C := 1024) (a := ps.left.x) (b := ps.right.x) (by omega) (by omega)
  have l2 := Triangle.mul_bound (B := 1024) (C := 1024) (a := ps.left.y) (b := ps.right.y) (by omega) (by omega)
  have b1 := prod_bound hx (b := ps.left.y + ps.right.y) (by omega)
  have b2 := prod_bound hy (b := -(ps.left.x + ps.right.x)) (by omega)
  unfold contains EG.PlaneSector.contains EG.PlaneSector.behindBisector
  rw [e1, e2]
  simp only [Option.bind_eq_bind, Option.bind_some, EG.PlaneSector.checkLeft, EG.PlaneSector.checkRight]
  by_cases hop : ps.op = .intersection
  · simp only [hop, ↓reduceIte]
    have elr : Isect.dot ps.left ps.right = some (dotProduct ps.left ps.right) := by
      unfold Isect.dot dotProduct; chk_simp
    rw [elr]
    simp only [Option.bind_some]
    by_cases hlr : dotProduct ps.left ps.right > 0
    · simp only [hlr, ↓reduceIte]
      chk_simp
      have epb : Isect.dot p ⟨ps.left.y + ps.right.y, -(ps.left.x + ps.right.x)⟩ =
          some (dotProduct p ⟨ps.left.y + ps.right.y, -(ps.left.x + ps.right.x)⟩) := by
        unfold Isect.dot dotProduct; chk_simp
      rw [epb]
      simp only [Option.bind_some]
      split <;> simp_all
    · simp only [hlr, ↓reduceIte]; rfl
  · simp only [hop, ↓reduceIte]; rfl

/-- **`PlaneSector::point_type`**: thresholds of absolute value below `2^31`. -/
theorem pointType_ok {ps : EG.PlaneSector} (hps : Sec.ps ps) {p : Pt} (hp : J.pt p) {ti tout : Int}
    (hti : -2147483647 ≤ ti ∧ ti ≤ 2147483647) (hto : -2147483647 ≤ tout ∧ tout ≤ 2147483647) :
    pointType ps p ti tout = some (ps.pointType p ti tout) := by
  obtain ⟨e1, _⟩ := distance_ok hps.1 hp
  obtain ⟨e2, _⟩ := distance_ok hps.2 hp
  obtain ⟨_, _⟩ := hti
  obtain ⟨_, _⟩ := hto
  unfold pointType EG.PlaneSector.pointType
  rw [e1, e2]
  chk_simp
  split
  · split <;> rfl
  · rfl

end PlaneSector

/-! ## `DistanceIterator` -/

/-- The rectangle iterator only yields points within +-8192. -/
structure PtsOk (it : Rect.PointsIt) : Prop where
  x : -8192 ≤ it.x
  xs : -8192 ≤ it.xStart
  xe : it.xEnd ≤ 8193
  y : -8192 ≤ it.y
  ye : it.yEnd ≤ 8193

theorem PtsOk.nextFuel : ∀ (fuel : Nat) (it : Rect.PointsIt), PtsOk it → ∀ p it',
    it.nextFuel fuel = some (p, it') →
    ((-8192 ≤ p.x ∧ p.x ≤ 8192) ∧ (-8192 ≤ p.y ∧ p.y ≤ 8192)) ∧ PtsOk it' := by
  intro fuel
  induction fuel with
  | zero => intro it _ p it' h; cases h
  | succ fuel ih =>
    intro it hi p it' h
    unfold Rect.PointsIt.nextFuel at h
    split at h
    · split at h
      · cases h
        have := hi.x; have := hi.xe; have := hi.y; have := hi.ye
        exact ⟨⟨⟨by omega, by simp only; omega⟩, ⟨by omega, by simp only; omega⟩⟩,
          ⟨by simp only; omega, hi.xs, hi.xe, hi.y, hi.ye⟩⟩
      · have hy := hi.y
        exact ih { it with y := it.y + 1, x := it.xStart }
          ⟨hi.xs, hi.xs, hi.xe, by show -8192 ≤ it.y + 1; omega, hi.ye⟩ p it' h
    · cases h

theorem PtsOk.next {it : Rect.PointsIt} (hi : PtsOk it) {p : Pt} {it' : Rect.PointsIt}
    (h : it.next = some (p, it')) :
    ((-8192 ≤ p.x ∧ p.x ≤ 8192) ∧ (-8192 ≤ p.y ∧ p.y ≤ 8192)) ∧ PtsOk it' :=
  PtsOk.nextFuel _ it hi p it' h

theorem PtsOk.empty : PtsOk Rect.PointsIt.empty := ⟨by decide, by decide, by decide, by decide, by decide⟩

/-- The bounding box of a circle of the shape domain is iterated within +-8192. -/
theorem PtsOk.ofRect {r : Rect} (hx : -4096 ≤ r.tl.x ∧ r.tl.x ≤ 4096) (hy : -4096 ≤ r.tl.y ∧ r.tl.y ≤ 4096)
    (hw : r.size.w ≤ 4097) (hh : r.size.h ≤ 4097) : PtsOk r.pointsIt := by
  unfold Rect.pointsIt
  split
  · exact PtsOk.empty
  · have e1 : satAsI32 r.size.h = r.size.h := by unfold satAsI32; rw [if_pos (by omega)]
    have e2 : satAsI32 r.size.w = r.size.w := by unfold satAsI32; rw [if_pos (by omega)]
    have c1 : r.columnsEnd = r.tl.x + r.size.w := by
      unfold Rect.columnsEnd; rw [e2]; unfold satAddI32; rw [if_neg (by omega), if_neg (by omega)]
    have c2 : r.rowsEnd = r.tl.y + r.size.h := by
      unfold Rect.rowsEnd; rw [e1]; unfold satAddI32; rw [if_neg (by omega), if_neg (by omega)]
    exact ⟨by simp only; omega, by simp only; omega, by simp only [c1]; omega, by simp only; omega,
      by simp only [c2]; omega⟩

/-- invariant of a `DistanceIterator`: points within +-8192, doubled centre within +-16383 -/
structure DistOk (it : EG.DistIt) : Prop where
  pts : PtsOk it.points
  cx : -16383 ≤ it.center2x.x ∧ it.center2x.x ≤ 16383
  cy : -16383 ≤ it.center2x.y ∧ it.center2x.y ≤ 16383

namespace DistIt

theorem item_ok {c p : Pt} (hcx : -16383 ≤ c.x ∧ c.x ≤ 16383) (hcy : -16383 ≤ c.y ∧ c.y ≤ 16383)
    (hp : (-8192 ≤ p.x ∧ p.x ≤ 8192) ∧ (-8192 ≤ p.y ∧ p.y ≤ 8192)) :
    item c p = some (EG.DistIt.item c p) ∧ J.pt (EG.DistIt.item c p).2.1 := by
  obtain ⟨_, _⟩ := hcx
  obtain ⟨_, _⟩ := hcy
  obtain ⟨⟨_, _⟩, ⟨_, _⟩⟩ := hp
  constructor
  · unfold item EG.DistIt.item
    rw [ptMul_ok (by omega) (by omega)]
    simp only [Option.bind_eq_bind, Option.bind_some]
    rw [ptSub_ok (by simp only; omega) (by simp only; omega)]
    simp only [Option.bind_some]
    rw [lengthSquared_ok (by simp only [Pt.sub_x]; omega) (by simp only [Pt.sub_y]; omega)]
    simp only [Option.bind_some, Option.pure_def]
    have hn : 0 ≤ EG.lengthSquared ((⟨p.x * 2, p.y * 2⟩ : Pt) - c) := by
      unfold EG.lengthSquared
      have := sq_nonneg' ((⟨p.x * 2, p.y * 2⟩ : Pt) - c).x
      have := sq_nonneg' ((⟨p.x * 2, p.y * 2⟩ : Pt) - c).y
      omega
    rw [i32AsU32_nonneg hn]
  · unfold EG.DistIt.item J.pt J.coord
    simp only [Pt.sub_x, Pt.sub_y]
    omega

theorem next_ok {it : EG.DistIt} (hi : DistOk it) :
    next it = some it.next ∧
    ∀ x it', it.next = some (x, it') → J.pt x.2.1 ∧ DistOk it' := by
  unfold next EG.DistIt.next
  cases hn : it.points.next with
  | none => exact ⟨rfl, fun _ _ h => by cases h⟩
  | some r =>
    obtain ⟨p, pts'⟩ := r
    obtain ⟨hp, hpts⟩ := hi.pts.next hn
    obtain ⟨e, hj⟩ := item_ok hi.cx hi.cy hp
    simp only
    rw [e]
    refine ⟨rfl, ?_⟩
    intro x it' h
    cases h
    exact ⟨hj, ⟨hpts, hi.cx, hi.cy⟩⟩

/-- `find` with a predicate that is fine on every item whose delta is within +-32767. -/
theorem findFuel_ok {pred : DistItem → Option Bool} {q : DistItem → Bool}
    (hq : ∀ x : DistItem, J.pt x.2.1 → pred x = some (q x)) :
    ∀ (fuel : Nat) (it : EG.DistIt), DistOk it →
      findFuel pred fuel it = some (EG.DistIt.findFuel q fuel it) ∧
      ∀ x it', EG.DistIt.findFuel q fuel it = some (x, it') → J.pt x.2.1 ∧ DistOk it' := by
  intro fuel
  induction fuel with
  | zero => intro it _; exact ⟨rfl, fun _ _ h => by cases h⟩
  | succ fuel ih =>
    intro it hi
    obtain ⟨e, hnext⟩ := next_ok hi
    unfold findFuel EG.DistIt.findFuel
    rw [e]
    simp only [Option.bind_eq_bind, Option.bind_some]
    cases hn : it.next with
    | none => exact ⟨rfl, fun _ _ h => by cases h⟩
    | some r =>
      obtain ⟨x, it'⟩ := r
      obtain ⟨hj, hi'⟩ := hnext x it' hn
      simp only
      rw [hq x hj]
      simp only [Option.bind_some]
      cases hqx : q x with
      | true =>
        simp only [↓reduceIte]
        refine ⟨rfl, ?_⟩
        intro y it'' h
        cases h
        exact ⟨hj, hi'⟩
      | false =>
        simp only [Bool.false_eq_true, ↓reduceIte]
        exact ih it' hi'

theorem find_ok {pred : DistItem → Option Bool} {q : DistItem → Bool}
    (hq : ∀ x : DistItem, J.pt x.2.1 → pred x = some (q x)) {it : EG.DistIt} (hi : DistOk it) :
    find pred it = some (it.find q) ∧
    ∀ x it', it.find q = some (x, it') → J.pt x.2.1 ∧ DistOk it' :=
  findFuel_ok hq _ it hi

end DistIt

/-- circles of the shape domain with an odd extra pixel of diameter (stroke areas) -/
def Sec.circle (c : EG.Circle) : Prop :=
  (-4096 ≤ c.tl.x ∧ c.tl.x ≤ 4096) ∧ (-4096 ≤ c.tl.y ∧ c.tl.y ≤ 4096) ∧ c.d ≤ 4097
instance (c : EG.Circle) : Decidable (Sec.circle c) := by unfold Sec.circle; exact inferInstance

theorem Circle.distances_ok {c : EG.Circle} (h : Sec.circle c) :
    Circle.distances c = some c.distances ∧ DistOk c.distances := by
  obtain ⟨hx, hy, hd⟩ := h
  constructor
  · unfold Circle.distances EG.Circle.distances
    rw [Circle.center2x_ok (by unfold W.pt W.coord; omega) (by unfold W.size; omega)]
    rfl
  · unfold EG.Circle.distances EG.DistIt.new
    refine ⟨PtsOk.ofRect hx hy hd hd, ?_, ?_⟩
    · simp only [EG.Circle.center2x]; omega
    · simp only [EG.Circle.center2x]; omega

/-! ## `Sector`, `Arc`: `contains`, `points()` -/

/-- sectors whose circle is in the shape domain and whose normals are within +-1024 -/
def Sec.sector (s : EG.Sector) : Prop := Sec.circle s.toCircle ∧ Sec.ps s.ps
instance (s : EG.Sector) : Decidable (Sec.sector s) := by unfold Sec.sector; exact inferInstance
def Sec.arc (a : EG.Arc) : Prop := Sec.circle a.toCircle ∧ Sec.ps a.ps
instance (a : EG.Arc) : Decidable (Sec.arc a) := by unfold Sec.arc; exact inferInstance

namespace Sector

/-- **`Sector::contains`**: circle of the shape domain, probed point within +-8192. -/
theorem contains_ok {s : EG.Sector} (hs : Sec.sector s) {p : Pt} (hpx : S.probe p.x) (hpy : S.probe p.y) :
    contains s p = some (s.contains p) := by
  obtain ⟨⟨hx, hy, hd⟩, hps⟩ := hs
  have hx' : -4096 ≤ s.tl.x ∧ s.tl.x ≤ 4096 := hx
  have hy' : -4096 ≤ s.tl.y ∧ s.tl.y ≤ 4096 := hy
  have hd' : s.d ≤ 4097 := hd
  unfold contains EG.Sector.contains
  rw [Circle.contains_ok (c := s.toCircle) (by unfold S.coord; exact hx) (by unfold S.coord; exact hy)
    (by unfold S.size; have : s.toCircle.d ≤ 4097 := hd; omega) hpx hpy]
  simp only [Option.bind_eq_bind, Option.bind_some]
  split
  · obtain ⟨_, _⟩ := hpx
    obtain ⟨_, _⟩ := hpy
    rw [ptMul_ok (by omega) (by omega)]
    simp only [Option.bind_some]
    unfold center2x
    rw [Circle.center2x_ok (by unfold W.pt W.coord; exact ⟨by omega, by omega⟩) (by unfold W.size; exact (by have : s.toCircle.d ≤ 4097 := hd; omega))]
    simp only [Option.bind_some]
    have e1 : s.toCircle.center2x.x = s.tl.x * 2 + ((s.d - 1 : Nat) : Int) := rfl
    have e2 : s.toCircle.center2x.y = s.tl.y * 2 + ((s.d - 1 : Nat) : Int) := rfl
    rw [ptSub_ok (by simp only; omega) (by simp only; omega)]
    simp only [Option.bind_some]
    have ec : s.toCircle.center2x = s.center2x := rfl
    rw [ec]
    exact PlaneSector.contains_ok hps (by
      unfold J.pt J.coord
      have f1 : s.center2x.x = s.tl.x * 2 + ((s.d - 1 : Nat) : Int) := rfl
      have f2 : s.center2x.y = s.tl.y * 2 + ((s.d - 1 : Nat) : Int) := rfl
      simp only [Pt.sub_x, Pt.sub_y]
      omega)
  · rfl

theorem offset_ok {s : EG.Sector} (ht : W.pt s.tl) (hd : W.size s.d) {o : Int} (ho : W.coord o) :
    offset s o = some (s.offset o) := by
  unfold offset EG.Sector.offset
  rw [Circle.offset_ok (c := s.toCircle) ht hd ho]
  rfl

theorem translate_ok {s : EG.Sector} (ht : W.pt s.tl) {d : Pt} (hd : W.pt d) :
    translate s d = some (s.translate d) := by
  obtain ⟨⟨_, _⟩, ⟨_, _⟩⟩ := ht
  obtain ⟨⟨_, _⟩, ⟨_, _⟩⟩ := hd
  unfold translate EG.Sector.translate
  rw [ptAdd_ok (by omega) (by omega)]
  rfl

/-- invariant of `sector::Points` -/
structure PtsItOk (it : EG.Sector.PointsIt) : Prop where
  iter : DistOk it.iter
  ps : Sec.ps it.planeSector

theorem pointsIt_ok {s : EG.Sector} (hs : Sec.sector s) :
    pointsIt s = some s.pointsIt ∧ PtsItOk s.pointsIt := by
  obtain ⟨e, hd⟩ := Circle.distances_ok hs.1
  have hdd : s.d ≤ 4097 := hs.1.2.2
  constructor
  · unfold pointsIt EG.Sector.pointsIt
    rw [e]
    simp only [Option.bind_eq_bind, Option.bind_some]
    rw [diameterToThreshold_ok (by omega)]
    rfl
  · exact ⟨hd, hs.2⟩

theorem pred_ok {it : EG.Sector.PointsIt} (hi : PtsItOk it) (x : DistItem) (hx : J.pt x.2.1) :
    pred it x = some (it.pred x) := by
  unfold pred EG.Sector.PointsIt.pred
  split
  · rename_i h
    rw [PlaneSector.contains_ok hi.ps hx]
    simp [h]
  · rename_i h
    simp [h]

/-- **`sector::Points::next`**: one step, and the invariant is kept. -/
theorem next_ok {it : EG.Sector.PointsIt} (hi : PtsItOk it) :
    next it = some it.next ∧ ∀ p it', it.next = some (p, it') → PtsItOk it' := by
  obtain ⟨e, hf⟩ := DistIt.find_ok (pred := pred it) (q := it.pred) (pred_ok hi) hi.iter
  unfold next EG.Sector.PointsIt.next
  rw [e]
  simp only [Option.bind_eq_bind, Option.bind_some]
  cases hfind : it.iter.find it.pred with
  | none => exact ⟨rfl, fun _ _ h => by cases h⟩
  | some r =>
    obtain ⟨x, iter'⟩ := r
    refine ⟨rfl, ?_⟩
    intro p it' h
    cases h
    exact ⟨(hf x iter' hfind).2, hi.ps⟩

end Sector

namespace Arc

/-- invariant of `arc::Points` -/
structure PtsItOk (it : EG.Arc.PointsIt) : Prop where
  iter : DistOk it.iter
  ps : Sec.ps it.planeSector

theorem offset_d_le (c : EG.Circle) {o : Int} (ho : o < 0) : (c.offset o).d ≤ c.d := by
  unfold EG.Circle.offset
  rw [if_neg (by omega)]
  simp only [EG.Circle.withCenter]
  omega

theorem pointsIt_ok {a : EG.Arc} (ha : Sec.arc a) :
    pointsIt a = some a.pointsIt ∧ PtsItOk a.pointsIt := by
  obtain ⟨e, hd⟩ := Circle.distances_ok ha.1
  obtain ⟨hx, hy, hdd⟩ := ha.1
  have hx' : -4096 ≤ a.tl.x ∧ a.tl.x ≤ 4096 := hx
  have hy' : -4096 ≤ a.tl.y ∧ a.tl.y ≤ 4096 := hy
  have hd' : a.d ≤ 4097 := hdd
  have hle := offset_d_le a.toCircle (o := -1) (by omega)
  have hle' : (a.toCircle.offset (-1)).d ≤ a.d := hle
  constructor
  · unfold pointsIt EG.Arc.pointsIt
    dsimp only
    rw [Circle.offset_ok (c := a.toCircle) (o := -1) (by unfold W.pt W.coord; exact ⟨by omega, by omega⟩)
      (by unfold W.size; exact (by have : a.toCircle.d ≤ 4097 := hdd; omega)) (by unfold W.coord; omega)]
    simp only [Option.bind_eq_bind, Option.bind_some]
    rw [e]
    simp only [Option.bind_some]
    rw [diameterToThreshold_ok (by have : a.toCircle.d ≤ 4097 := hdd; omega),
      diameterToThreshold_ok (by omega)]
    rfl
  · exact ⟨hd, ha.2⟩

theorem pred_ok {outer inner : Nat} {ps : EG.PlaneSector} (hps : Sec.ps ps) (x : DistItem)
    (hx : J.pt x.2.1) :
    pred outer inner ps x =
      some (decide (x.2.2 < outer) && decide (x.2.2 ≥ inner) && ps.contains x.2.1) := by
  unfold pred
  split
  · rename_i h
    rw [PlaneSector.contains_ok hps hx]
    simp [h.1, h.2]
  · rename_i h
    by_cases h1 : x.2.2 < outer
    · have h2 : ¬ x.2.2 ≥ inner := fun h2 => h ⟨h1, h2⟩
      simp [h1, h2]
    · simp [h1]

/-- **`arc::Points::next`**: one step, and the invariant is kept. -/
theorem next_ok {it : EG.Arc.PointsIt} (hi : PtsItOk it) :
    next it = some it.next ∧ ∀ p it', it.next = some (p, it') → PtsItOk it' := by
  obtain ⟨e, hf⟩ := DistIt.find_ok (pred := pred it.outerThreshold it.innerThreshold it.planeSector)
    (q := it.pred) (fun x hx => pred_ok hi.ps x hx) hi.iter
  unfold next EG.Arc.PointsIt.next
  rw [e]
  simp only [Option.bind_eq_bind, Option.bind_some]
  cases hfind : it.iter.find it.pred with
  | none => exact ⟨rfl, fun _ _ h => by cases h⟩
  | some r =>
    obtain ⟨x, iter'⟩ := r
    refine ⟨rfl, ?_⟩
    intro p it' h
    cases h
    exact ⟨(hf x iter' hfind).2, hi.ps⟩

theorem translate_ok {a : EG.Arc} (ht : W.pt a.tl) {d : Pt} (hd : W.pt d) :
    translate a d = some (a.translate d) := by
  obtain ⟨⟨_, _⟩, ⟨_, _⟩⟩ := ht
  obtain ⟨⟨_, _⟩, ⟨_, _⟩⟩ := hd
  unfold translate EG.Arc.translate
  rw [ptAdd_ok (by omega) (by omega)]
  rfl

end Arc

/-! ## Styled sectors and arcs -/

/-- a stroke width whose inside / outside parts keep the thresholds inside `i32` with room to
spare; 1024 is eight times the display-scale maximum -/
def Sec.width (st : Style) : Prop := st.width ≤ 1024
instance (st : Style) : Decidable (Sec.width st) := by unfold Sec.width; exact inferInstance

theorem Sec.outside_le {st : Style} (h : Sec.width st) : st.outsideStrokeWidth ≤ 1024 := by
  unfold Sec.width at h
  unfold Style.outsideStrokeWidth
  cases st.align <;> simp only <;> omega

theorem Sec.inside_le {st : Style} (h : Sec.width st) : st.insideStrokeWidth ≤ 1024 := by
  unfold Sec.width at h
  unfold Style.insideStrokeWidth satAddU32
  cases st.align <;> simp only
  · omega
  · rw [if_pos (by omega)]; omega
  · omega

theorem Sec.strokeOffset_eq {st : Style} (h : Sec.width st) :
    st.strokeOffset = (st.outsideStrokeWidth : Int) ∧ 0 ≤ st.strokeOffset ∧ st.strokeOffset ≤ 1024 := by
  have := Sec.outside_le h
  unfold Style.strokeOffset satAsI32
  rw [if_pos (by omega)]
  omega

theorem Sec.insideI32_eq {st : Style} (h : Sec.width st) :
    satAsI32 st.insideStrokeWidth = (st.insideStrokeWidth : Int) := by
  have := Sec.inside_le h
  unfold satAsI32
  rw [if_pos (by omega)]

/-- circles small enough that every stroke area of width up to 1024 is in `Sec.circle` -/
def Sec.base (c : EG.Circle) : Prop :=
  (-2048 ≤ c.tl.x ∧ c.tl.x ≤ 2048) ∧ (-2048 ≤ c.tl.y ∧ c.tl.y ≤ 2048) ∧ c.d ≤ 2048
instance (c : EG.Circle) : Decidable (Sec.base c) := by unfold Sec.base; exact inferInstance

theorem Sec.base_W {c : EG.Circle} (h : Sec.base c) : W.pt c.tl ∧ W.size c.d := by
  obtain ⟨⟨_, _⟩, ⟨_, _⟩, _⟩ := h
  unfold W.pt W.coord W.size; omega

/-- growing a base circle by a stroke offset stays in the shape domain -/
theorem Sec.offset_grow {c : EG.Circle} (h : Sec.base c) {o : Int} (ho : 0 ≤ o ∧ o ≤ 1024) :
    Sec.circle (c.offset o) := by
  obtain ⟨⟨_, _⟩, ⟨_, _⟩, _⟩ := h
  obtain ⟨_, _⟩ := ho
  unfold EG.Circle.offset
  rw [if_pos (by omega)]
  unfold Sec.circle satAddU32
  simp only [Pt.sub_x, Pt.sub_y]
  rw [if_pos (by omega)]
  omega

theorem Sec.offset_d_le (c : EG.Circle) {o : Int} (ho : o ≤ 0) : (c.offset o).d ≤ c.d := by
  unfold EG.Circle.offset
  by_cases h : o ≥ 0
  · have : o = 0 := by omega
    subst this
    simp [satAddU32]
    split <;> omega
  · rw [if_neg h]
    simp only [EG.Circle.withCenter]
    omega

namespace Sector

theorem thresholdInside_ok {w : Int} (h : 0 ≤ w ∧ w ≤ 1048575) :
    thresholdInside w = some (w * normalVectorScale * 2 - normalVectorScale) := by
  obtain ⟨_, _⟩ := h
  unfold thresholdInside normalVectorScale
  chk_simp

theorem thresholdOutside_ok {w : Int} (h : 0 ≤ w ∧ w ≤ 1048575) :
    thresholdOutside w = some (w * normalVectorScale * 2 + normalVectorScale) := by
  obtain ⟨_, _⟩ := h
  unfold thresholdOutside normalVectorScale
  chk_simp

theorem bevelThreshold_ok {w : Int} (h : 0 ≤ w ∧ w ≤ 524288) :
    bevelThreshold w = some (-w * normalVectorScale * 4) := by
  obtain ⟨_, _⟩ := h
  unfold bevelThreshold normalVectorScale
  chk_simp

/-- invariant of `sector::styled::StyledPixelsIterator` -/
structure StyledOk (it : EG.Sector.StyledPixelsIt) : Prop where
  iter : DistOk it.iter
  ps : Sec.ps it.planeSector
  ti : -2147483647 ≤ it.strokeThresholdInside ∧ it.strokeThresholdInside ≤ 2147483647
  tout : -2147483647 ≤ it.strokeThresholdOutside ∧ it.strokeThresholdOutside ≤ 2147483647
  bevel : ∀ k e, it.bevel = some (k, e) →
    Sec.normal e.normalVector ∧ (-1073741824 ≤ e.originDistance ∧ e.originDistance ≤ 1073741824)

/-- **`StyledPixelsIterator::new`** of a styled sector: base circle within +-2048 / 2048, stroke
width up to 1024, normals (plane sector and bevel) within +-1024. -/
theorem styledPixelsIt_ok {st : Style} {s : EG.Sector} {bevel : SectorBevel} (hw : Sec.width st)
    (hc : Sec.base s.toCircle) (hps : Sec.ps s.ps)
    (hb : ∀ k n, bevel = some (k, n) → Sec.normal n) :
    styledPixelsIt st s bevel = some (s.styledPixelsIt st bevel) ∧ StyledOk (s.styledPixelsIt st bevel) := by
  obtain ⟨so1, so2, so3⟩ := Sec.strokeOffset_eq hw
  have hin := Sec.inside_le hw
  have hout := Sec.outside_le hw
  have ein := Sec.insideI32_eq hw
  have eout : satAsI32 st.outsideStrokeWidth = (st.outsideStrokeWidth : Int) := so1
  obtain ⟨wt, wd⟩ := Sec.base_W hc
  have hgrow := Sec.offset_grow hc ⟨so2, so3⟩
  obtain ⟨ed, hd⟩ := Circle.distances_ok hgrow
  have hfd := Sec.offset_d_le s.toCircle (o := st.fillOffset) (by unfold Style.fillOffset; rw [ein]; omega)
  have hsd : (s.toCircle.offset st.strokeOffset).d ≤ 4097 := hgrow.2.2
  have hbase : s.toCircle.d ≤ 2048 := hc.2.2
  have efill : -(satAsI32 st.insideStrokeWidth) = st.fillOffset := rfl
  constructor
  · unfold styledPixelsIt EG.Sector.styledPixelsIt EG.Sector.strokeArea EG.Sector.fillArea
    rw [offset_ok wt wd (by unfold W.coord; omega)]
    simp only [Option.bind_eq_bind, Option.bind_some]
    rw [chkI32_ok (by rw [ein]; omega) (by rw [ein]; omega), efill]
    simp only [Option.bind_some]
    rw [offset_ok wt wd (by unfold W.coord Style.fillOffset; rw [ein]; omega)]
    simp only [Option.bind_some]
    have e1 : (s.offset st.strokeOffset).toCircle = s.toCircle.offset st.strokeOffset := rfl
    have e2 : (s.offset st.fillOffset).d = (s.toCircle.offset st.fillOffset).d := rfl
    have e3 : (s.offset st.strokeOffset).ps = s.ps := rfl
    rw [e1, e2]
    rw [diameterToThreshold_ok (by omega), diameterToThreshold_ok (by omega)]
    rw [thresholdInside_ok (by rw [ein]; omega), thresholdOutside_ok (by rw [eout]; omega)]
    cases hbv : bevel with
    | none =>
      cases ht : st.isTransparent
      · simp only [Bool.not_false, ↓reduceIte, ed, Option.bind_some, Option.pure_def, Option.map_none]
        rfl
      · simp only [Bool.not_true, Bool.false_eq_true, ↓reduceIte, Option.pure_def, Option.bind_some,
          Option.map_none]
        rfl
    | some kn =>
      obtain ⟨k, n⟩ := kn
      cases ht : st.isTransparent
      · simp only [Bool.not_false, ↓reduceIte, ed, Option.bind_some, Option.pure_def, Option.map_some]
        rw [bevelThreshold_ok (by rw [eout]; omega)]
        rfl
      · simp only [Bool.not_true, Bool.false_eq_true, ↓reduceIte, Option.pure_def, Option.bind_some,
          Option.map_some]
        rw [bevelThreshold_ok (by rw [eout]; omega)]
        rfl
  · unfold EG.Sector.styledPixelsIt EG.Sector.strokeArea
    refine ⟨?_, hps, ?_, ?_, ?_⟩
    · simp only
      split
      · exact hd
      · exact ⟨PtsOk.empty, by decide, by decide⟩
    · simp only [ein, normalVectorScale]; omega
    · simp only [eout, normalVectorScale]; omega
    · intro k e he
      simp only at he
      cases hbv : bevel with
      | none => rw [hbv] at he; cases he
      | some kn =>
        obtain ⟨k', n⟩ := kn
        rw [hbv] at he
        simp only [Option.map_some, Option.some.injEq, Prod.mk.injEq] at he
        obtain ⟨_, rfl⟩ := he
        exact ⟨hb k' n hbv, by simp only [eout, normalVectorScale]; omega⟩

theorem checkLeft_ok {le : Joins.LinearEquation} (hn : Sec.normal le.normalVector)
    (ho : -1073741824 ≤ le.originDistance ∧ le.originDistance ≤ 1073741824) {p : Pt} (hp : J.pt p) :
    checkLeft le p = some (le.checkSide p .left) := by
  obtain ⟨e, b1, b2⟩ := PlaneSector.distance_ok hn hp
  obtain ⟨_, _⟩ := ho
  have e' : Isect.dot p le.normalVector = some (Joins.dot p le.normalVector) := e
  have b1' : -134213632 ≤ Joins.dot p le.normalVector := b1
  have b2' : Joins.dot p le.normalVector ≤ 134213632 := b2
  unfold checkLeft Joins.LinearEquation.checkSide Joins.LinearEquation.distance
  rw [e']
  chk_simp

theorem bevelStroke_ok {it : EG.Sector.StyledPixelsIt} (hi : StyledOk it) {delta : Pt} (hp : J.pt delta) :
    bevelStroke it delta = some (it.bevelStroke delta) := by
  unfold bevelStroke EG.Sector.StyledPixelsIt.bevelStroke
  cases hb : it.bevel with
  | none => rfl
  | some ke =>
    obtain ⟨k, e⟩ := ke
    obtain ⟨hn, ho⟩ := hi.bevel k e hb
    simp only
    rw [checkLeft_ok hn ho hp]
    simp only [Option.bind_eq_bind, Option.bind_some]
    split
    · cases k <;> rfl
    · rfl

/-- The body of the loop for one item whose delta is within +-32767. -/
theorem pixel_ok {it : EG.Sector.StyledPixelsIt} (hi : StyledOk it) (x : DistItem) (hx : J.pt x.2.1) :
    pixel it x = some (it.pixel x) := by
  unfold pixel EG.Sector.StyledPixelsIt.pixel
  dsimp only
  rw [PlaneSector.pointType_ok hi.ps hx hi.ti hi.tout]
  simp only [Option.bind_eq_bind, Option.bind_some]
  cases it.planeSector.pointType x.2.1 it.strokeThresholdInside it.strokeThresholdOutside with
  | none => rfl
  | some pt =>
    simp only
    by_cases hs : pt = .stroke
    · simp only [hs, ↓reduceIte]
      rw [bevelStroke_ok hi hx]
      simp only [Option.bind_some]
      cases it.bevelStroke x.2.1 with
      | none => rfl
      | some pt2 =>
        simp only
        cases pt2 <;> cases hsc : it.strokeColor <;> cases hfc : it.fillColor <;>
          by_cases hc : x.2.2 ≥ it.innerThreshold <;> simp [hc]
    · simp only [hs, ↓reduceIte, Option.pure_def, Option.bind_some]
      cases pt <;> cases hsc : it.strokeColor <;> cases hfc : it.fillColor <;>
        by_cases hc : x.2.2 ≥ it.innerThreshold <;> simp [hc] at hs ⊢

/-- **`sector::styled::StyledPixelsIterator::next`**: any number of turns of its loop. -/
theorem styledNextFuel_ok : ∀ (fuel : Nat) (it : EG.Sector.StyledPixelsIt), StyledOk it →
    styledNextFuel fuel it = some (it.nextFuel fuel) ∧
    ∀ w it', it.nextFuel fuel = some (w, it') → StyledOk it' := by
  intro fuel
  induction fuel with
  | zero => intro it _; exact ⟨rfl, fun _ _ h => by cases h⟩
  | succ fuel ih =>
    intro it hi
    obtain ⟨e, hf⟩ := DistIt.find_ok (pred := fun x => pure (decide (x.2.2 < it.outerThreshold)))
      (q := it.inOuter) (fun x _ => rfl) hi.iter
    unfold styledNextFuel EG.Sector.StyledPixelsIt.nextFuel
    rw [e]
    simp only [Option.bind_eq_bind, Option.bind_some]
    cases hfind : it.iter.find it.inOuter with
    | none => exact ⟨rfl, fun _ _ h => by cases h⟩
    | some r =>
      obtain ⟨x, iter'⟩ := r
      obtain ⟨hj, hd⟩ := hf x iter' hfind
      have hi' : StyledOk { it with iter := iter' } := ⟨hd, hi.ps, hi.ti, hi.tout, hi.bevel⟩
      simp only
      rw [pixel_ok hi x hj]
      simp only [Option.bind_some]
      cases hp : it.pixel x with
      | some w =>
        simp only
        refine ⟨rfl, ?_⟩
        intro w' it' h
        cases h
        exact hi'
      | none =>
        simp only
        exact ih _ hi'

theorem styledNext_ok {it : EG.Sector.StyledPixelsIt} (hi : StyledOk it) :
    styledNext it = some it.next ∧ ∀ w it', it.next = some (w, it') → StyledOk it' :=
  styledNextFuel_ok _ it hi

end Sector

namespace Arc

/-- invariant of `arc::styled::StyledPixelsIterator` -/
structure StyledOk (it : EG.Arc.StyledPixelsIt) : Prop where
  iter : DistOk it.iter
  ps : Sec.ps it.planeSector

/-- **`StyledPixelsIterator::new`** of a styled arc. -/
theorem styledPixelsIt_ok {st : Style} {a : EG.Arc} (hw : Sec.width st) (hc : Sec.base a.toCircle)
    (hps : Sec.ps a.ps) :
    styledPixelsIt st a = some (a.styledPixelsIt st) ∧ StyledOk (a.styledPixelsIt st) := by
  obtain ⟨so1, so2, so3⟩ := Sec.strokeOffset_eq hw
  have hin := Sec.inside_le hw
  have ein := Sec.insideI32_eq hw
  obtain ⟨wt, wd⟩ := Sec.base_W hc
  have hgrow := Sec.offset_grow hc ⟨so2, so3⟩
  obtain ⟨ed, hd⟩ := Circle.distances_ok hgrow
  have hfd := Sec.offset_d_le a.toCircle (o := st.fillOffset) (by unfold Style.fillOffset; rw [ein]; omega)
  have hsd : (a.toCircle.offset st.strokeOffset).d ≤ 4097 := hgrow.2.2
  have hbase : a.toCircle.d ≤ 2048 := hc.2.2
  have efill : -(satAsI32 st.insideStrokeWidth) = st.fillOffset := rfl
  constructor
  · unfold styledPixelsIt EG.Arc.styledPixelsIt EG.Arc.outsideEdge EG.Arc.insideEdge
    dsimp only
    rw [Circle.offset_ok wt wd (by unfold W.coord; omega)]
    simp only [Option.bind_eq_bind, Option.bind_some]
    rw [chkI32_ok (by rw [ein]; omega) (by rw [ein]; omega), efill]
    simp only [Option.bind_some]
    rw [Circle.offset_ok wt wd (by unfold W.coord Style.fillOffset; rw [ein]; omega)]
    simp only [Option.bind_some]
    rw [diameterToThreshold_ok (by omega), diameterToThreshold_ok (by omega)]
    cases ht : st.isTransparent
    · simp only [Bool.not_false, ↓reduceIte, ed, Option.bind_some, Option.pure_def]
      rfl
    · simp only [Bool.not_true, Bool.false_eq_true, ↓reduceIte, Option.pure_def, Option.bind_some]
      rfl
  · unfold EG.Arc.styledPixelsIt EG.Arc.outsideEdge
    refine ⟨?_, hps⟩
    simp only
    split
    · exact hd
    · exact ⟨PtsOk.empty, by decide, by decide⟩

/-- **`arc::styled::StyledPixelsIterator::next`**. -/
theorem styledNext_ok {it : EG.Arc.StyledPixelsIt} (hi : StyledOk it) :
    styledNext it = some it.next ∧ ∀ w it', it.next = some (w, it') → StyledOk it' := by
  unfold styledNext EG.Arc.StyledPixelsIt.next
  cases hc : it.strokeColor with
  | none => exact ⟨rfl, fun _ _ h => by cases h⟩
  | some c =>
    obtain ⟨e, hf⟩ := DistIt.find_ok (pred := pred it.outerThreshold it.innerThreshold it.planeSector)
      (q := it.pred) (fun x hx => pred_ok hi.ps x hx) hi.iter
    simp only
    rw [e]
    simp only [Option.bind_eq_bind, Option.bind_some]
    cases hfind : it.iter.find it.pred with
    | none => exact ⟨rfl, fun _ _ h => by cases h⟩
    | some r =>
      obtain ⟨x, iter'⟩ := r
      refine ⟨rfl, ?_⟩
      intro w it' h
      cases h
      exact ⟨(hf x iter' hfind).2, hi.ps⟩

end Arc
end EG.Chk
