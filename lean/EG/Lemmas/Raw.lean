/-
  EG.Lemmas.Raw — `load` / `store` on buffers of any length and any index:
  the byte-level law (kernel tables, RawBits.lean) lifted by proof with `List.set` / `getElem?`
  lemmas (sub-byte depths), byte-list arithmetic for 16/24/32 bits, the 8-bit case.
-/
import EG.Lemmas.RawBits
namespace EG.Raw

/-! ## Well-formed buffers -/

theorem BytesOk.of_getElem? {buf : List Nat} (h : BytesOk buf) {k b : Nat} (hb : buf[k]? = some b) :
    b < 256 := h b (List.mem_of_getElem? hb)

theorem BytesOk.getElem {buf : List Nat} (h : BytesOk buf) {k : Nat} (hk : k < buf.length) :
    buf[k] < 256 := h _ (List.getElem_mem hk)

theorem BytesOk.set {buf : List Nat} (h : BytesOk buf) (k : Nat) {nb : Nat} (hnb : nb < 256) :
    BytesOk (buf.set k nb) := by
  intro b hb
  rcases List.mem_or_eq_of_mem_set hb with h1 | h1
  · exact h b h1
  · exact h1 ▸ hnb

theorem BytesOk.append {a b : List Nat} (ha : BytesOk a) (hb : BytesOk b) : BytesOk (a ++ b) := by
  intro x hx
  rcases List.mem_append.mp hx with h | h
  · exact ha x h
  · exact hb x h

theorem BytesOk.take {a : List Nat} (ha : BytesOk a) (n : Nat) : BytesOk (a.take n) :=
  fun x hx => ha x (List.mem_of_mem_take hx)

theorem BytesOk.drop {a : List Nat} (ha : BytesOk a) (n : Nat) : BytesOk (a.drop n) :=
  fun x hx => ha x (List.mem_of_mem_drop hx)

/-! ## Sub-byte depths -/

theorem ppb_pos {bits : Nat} (h : subByte bits) : 0 < 8 / bits := by
  rcases h with rfl | rfl | rfl <;> decide

theorem subByte_lt {bits : Nat} (h : subByte bits) : bits < 8 := by
  rcases h with rfl | rfl | rfl <;> decide

theorem loadBits_of_lt {bits : Nat} {o : Order} {buf : List Nat} {i : Nat}
    (hlt : i / (8 / bits) < buf.length) :
    loadBits bits o buf i
      = some (loadByte bits (slotShift bits o (i % (8 / bits))) buf[i / (8 / bits)]) := by
  simp only [loadBits, bitPosition_eq, List.getElem?_eq_getElem hlt]

theorem loadBits_of_ge {bits : Nat} {o : Order} {buf : List Nat} {i : Nat}
    (hge : buf.length ≤ i / (8 / bits)) : loadBits bits o buf i = none := by
  simp only [loadBits, bitPosition_eq, List.getElem?_eq_none hge]

theorem storeBits_of_lt {bits : Nat} {o : Order} {v : Nat} {buf : List Nat} {i : Nat}
    (hlt : i / (8 / bits) < buf.length) :
    storeBits bits o v buf i
      = (true, buf.set (i / (8 / bits))
          (storeByte bits (slotShift bits o (i % (8 / bits))) v buf[i / (8 / bits)])) := by
  simp only [storeBits, bitPosition_eq, List.getElem?_eq_getElem hlt]

theorem storeBits_of_ge {bits : Nat} {o : Order} {v : Nat} {buf : List Nat} {i : Nat}
    (hge : buf.length ≤ i / (8 / bits)) : storeBits bits o v buf i = (false, buf) := by
  simp only [storeBits, bitPosition_eq, List.getElem?_eq_none hge]

theorem storeBits_length (bits : Nat) (o : Order) (v : Nat) (buf : List Nat) (i : Nat) :
    (storeBits bits o v buf i).2.length = buf.length := by
  by_cases hlt : i / (8 / bits) < buf.length
  · rw [storeBits_of_lt hlt]; simp
  · rw [storeBits_of_ge (by omega)]

theorem loadBits_storeBits_same {bits : Nat} {o : Order} {v : Nat} {buf : List Nat} {i : Nat}
    (h : subByte bits) (hw : BytesOk buf) (hv : v < 2 ^ bits) (hlt : i / (8 / bits) < buf.length) :
    loadBits bits o (storeBits bits o v buf i).2 i = some v := by
  rw [storeBits_of_lt hlt]
  have hlt' : i / (8 / bits) < (buf.set (i / (8 / bits))
      (storeByte bits (slotShift bits o (i % (8 / bits))) v buf[i / (8 / bits)])).length := by
    simpa using hlt
  rw [loadBits_of_lt hlt']
  simp only [List.getElem_set_self]
  exact congrArg some (byteLaw_spec h (hw.getElem hlt) (Nat.mod_lt _ (ppb_pos h)) hv).2.1

theorem loadBits_storeBits_other {bits : Nat} {o : Order} {v : Nat} {buf : List Nat} {i j : Nat}
    (h : subByte bits) (hw : BytesOk buf) (hv : v < 2 ^ bits) (hne : j ≠ i) :
    loadBits bits o (storeBits bits o v buf i).2 j = loadBits bits o buf j := by
  by_cases hlt : i / (8 / bits) < buf.length
  · rw [storeBits_of_lt hlt]
    by_cases hj : j / (8 / bits) < buf.length
    · have hj' : j / (8 / bits) < (buf.set (i / (8 / bits))
          (storeByte bits (slotShift bits o (i % (8 / bits))) v buf[i / (8 / bits)])).length := by
        simpa using hj
      rw [loadBits_of_lt hj', loadBits_of_lt hj]
      by_cases hb : j / (8 / bits) = i / (8 / bits)
      · -- same byte, different slot
        have hslot : j % (8 / bits) ≠ i % (8 / bits) := by
          intro hm
          apply hne
          rw [← Nat.div_add_mod j (8 / bits), ← Nat.div_add_mod i (8 / bits), hb, hm]
        have key := (byteLaw_spec (o := o) h (hw.getElem hlt) (Nat.mod_lt i (ppb_pos h)) hv).2.2.1
          (j % (8 / bits)) (Nat.mod_lt _ (ppb_pos h)) hslot
        simp only [hb, List.getElem_set_self]
        exact congrArg some key
      · have hb' : i / (8 / bits) ≠ j / (8 / bits) := fun e => hb e.symm
        simp only [List.getElem_set_ne hb']
    · have hj' : (buf.set (i / (8 / bits))
          (storeByte bits (slotShift bits o (i % (8 / bits))) v buf[i / (8 / bits)])).length
            ≤ j / (8 / bits) := by
        simp only [List.length_set]; omega
      rw [loadBits_of_ge hj', loadBits_of_ge (by omega)]
  · rw [storeBits_of_ge (by omega)]

/-- Bytes other than pixel `i`'s byte are unchanged. -/
theorem storeBits_other_byte {bits : Nat} {o : Order} {v : Nat} {buf : List Nat} {i k : Nat}
    (hk : k ≠ i / (8 / bits)) : (storeBits bits o v buf i).2[k]? = buf[k]? := by
  by_cases hlt : i / (8 / bits) < buf.length
  · rw [storeBits_of_lt hlt]
    simp only [List.getElem?_set_ne (Ne.symm hk)]
  · rw [storeBits_of_ge (by omega)]

/-- In pixel `i`'s byte: the bits of the pixel's field are those of the value, every other bit
is the old one. -/
theorem storeBits_own_byte {bits : Nat} {o : Order} {v : Nat} {buf : List Nat} {i : Nat}
    (h : subByte bits) (hw : BytesOk buf) (hv : v < 2 ^ bits) (hlt : i / (8 / bits) < buf.length) :
    ∃ nb, (storeBits bits o v buf i).2[i / (8 / bits)]? = some nb ∧ nb < 256 ∧
      ∀ p, p < 8 → nb.testBit p =
        if slotShift bits o (i % (8 / bits)) ≤ p ∧ p < slotShift bits o (i % (8 / bits)) + bits
        then v.testBit (p - slotShift bits o (i % (8 / bits)))
        else buf[i / (8 / bits)].testBit p := by
  have key := byteLaw_spec (o := o) h (hw.getElem hlt) (Nat.mod_lt i (ppb_pos h)) hv
  refine ⟨storeByte bits (slotShift bits o (i % (8 / bits))) v buf[i / (8 / bits)], ?_, key.1, key.2.2.2⟩
  rw [storeBits_of_lt hlt]
  simp only [List.getElem?_set_self hlt]

theorem storeBits_bytesOk {bits : Nat} {o : Order} {v : Nat} {buf : List Nat} {i : Nat}
    (h : subByte bits) (hw : BytesOk buf) (hv : v < 2 ^ bits) :
    BytesOk (storeBits bits o v buf i).2 := by
  by_cases hlt : i / (8 / bits) < buf.length
  · rw [storeBits_of_lt hlt]
    exact hw.set _ (byteLaw_spec h (hw.getElem hlt) (Nat.mod_lt i (ppb_pos h)) hv).1
  · rw [storeBits_of_ge (by omega)]; exact hw

/-- `i` is inside the buffer iff its byte exists. -/
theorem subByte_inside_iff {bits : Nat} (h : subByte bits) (len i : Nat) :
    i < pixelCount bits len ↔ i / (8 / bits) < len := by
  unfold pixelCount
  simp only [subByte_lt h, ↓reduceIte]
  exact (Nat.div_lt_iff_lt_mul (ppb_pos h)).symm

/-- Bit `k` of the loaded value is bit `bit_index + k` of the pixel's byte (for `k < bits`),
and `0` above. No table: by `testBit` algebra, for every byte and shift. -/
theorem loadByte_testBit (bits sh b k : Nat) :
    (loadByte bits sh b).testBit k = (decide (k < bits) && b.testBit (sh + k)) := by
  unfold loadByte rawNew mask
  rw [Nat.testBit_and, Nat.testBit_shiftRight, Nat.testBit_two_pow_sub_one, Bool.and_comm]

/-! ## 8 bits per pixel -/

theorem storeU8_of_lt {v : Nat} {buf : List Nat} {i : Nat} (hlt : i < buf.length) :
    storeU8 v buf i = (true, buf.set i v) := by
  simp only [storeU8, List.getElem?_eq_getElem hlt]

theorem storeU8_of_ge {v : Nat} {buf : List Nat} {i : Nat} (hge : buf.length ≤ i) :
    storeU8 v buf i = (false, buf) := by
  simp only [storeU8, List.getElem?_eq_none hge]

/-! ## Several bytes per pixel: byte-list arithmetic -/

theorem toLe_length (n v : Nat) : (toLe n v).length = n := by
  induction n generalizing v with
  | zero => rfl
  | succ n ih => simp [toLe, ih]

theorem toBe_length (n v : Nat) : (toBe n v).length = n := by
  simp [toBe, toLe_length]

theorem toLe_bytesOk (n v : Nat) : BytesOk (toLe n v) := by
  induction n generalizing v with
  | zero => intro b hb; cases hb
  | succ n ih =>
    intro b hb
    simp only [toLe, List.mem_cons] at hb
    rcases hb with rfl | hb
    · omega
    · exact ih _ b hb

theorem toBe_bytesOk (n v : Nat) : BytesOk (toBe n v) := by
  intro b hb
  exact toLe_bytesOk n v b (by simpa [toBe] using hb)

/-- `from_le_bytes(to_le_bytes(v)) = v` for every `v < 256^n`. -/
theorem fromLe_toLe (n v : Nat) (hv : v < 256 ^ n) : fromLe (toLe n v) = v := by
  induction n generalizing v with
  | zero => simp only [Nat.pow_zero] at hv; simp only [toLe, fromLe]; omega
  | succ n ih =>
    have h1 : v / 256 < 256 ^ n := by
      apply Nat.div_lt_of_lt_mul
      rw [Nat.pow_succ, Nat.mul_comm] at hv
      exact hv
    simp only [toLe, fromLe, ih _ h1]
    omega

theorem fromBe_toBe (n v : Nat) (hv : v < 256 ^ n) : fromBe (toBe n v) = v := by
  simp only [fromBe, toBe, List.reverse_reverse, fromLe_toLe n v hv]

/-- A well-formed `n`-byte list decodes to a value below `256^n`. -/
theorem fromLe_lt (s : List Nat) (hs : BytesOk s) : fromLe s < 256 ^ s.length := by
  induction s with
  | nil => simp [fromLe]
  | cons b bs ih =>
    have hb : b < 256 := hs b (List.mem_cons_self)
    have := ih (fun x hx => hs x (List.mem_cons_of_mem _ hx))
    simp only [fromLe, List.length_cons, Nat.pow_succ]
    omega

/-- Little-endian layout: byte `j` of the list is digit `j` (base 256) of the value. -/
theorem fromLe_digit (s : List Nat) (hs : BytesOk s) (j : Nat) (hj : j < s.length) :
    s[j] = fromLe s / 256 ^ j % 256 := by
  induction s generalizing j with
  | nil => cases hj
  | cons b bs ih =>
    have hb : b < 256 := hs b (List.mem_cons_self)
    have hbs : BytesOk bs := fun x hx => hs x (List.mem_cons_of_mem _ hx)
    cases j with
    | zero => simp only [List.getElem_cons_zero, fromLe, Nat.pow_zero, Nat.div_one]; omega
    | succ j =>
      simp only [List.getElem_cons_succ, fromLe]
      rw [ih hbs j (by simpa using hj), Nat.pow_succ, Nat.mul_comm (256 ^ j) 256,
        ← Nat.div_div_eq_div_mul]
      congr 2
      omega

def decodeBytes (o : Order) (s : List Nat) : Nat := if o.alt then fromBe s else fromLe s
def encodeBytes (o : Order) (n v : Nat) : List Nat := if o.alt then toBe n v else toLe n v

theorem encodeBytes_length (o : Order) (n v : Nat) : (encodeBytes o n v).length = n := by
  unfold encodeBytes; split
  · exact toBe_length n v
  · exact toLe_length n v

theorem encodeBytes_bytesOk (o : Order) (n v : Nat) : BytesOk (encodeBytes o n v) := by
  unfold encodeBytes; split
  · exact toBe_bytesOk n v
  · exact toLe_bytesOk n v

theorem decode_encode (o : Order) (n v : Nat) (hv : v < 256 ^ n) :
    decodeBytes o (encodeBytes o n v) = v := by
  unfold decodeBytes encodeBytes; split
  · exact fromBe_toBe n v hv
  · exact fromLe_toLe n v hv

theorem loadBytes_of_le {n : Nat} {o : Order} {buf : List Nat} {i : Nat}
    (hle : i * n + n ≤ buf.length) :
    loadBytes n o buf i = some (decodeBytes o ((buf.drop (i * n)).take n)) := by
  have h1 : i * n ≤ buf.length := by omega
  have h2 : n ≤ (buf.drop (i * n)).length := by simp only [List.length_drop]; omega
  simp only [loadBytes, sliceFrom, slicePrefix, h1, h2, ↓reduceIte, decodeBytes]

theorem loadBytes_of_gt {n : Nat} {o : Order} {buf : List Nat} {i : Nat}
    (hgt : buf.length < i * n + n) : loadBytes n o buf i = none := by
  unfold loadBytes sliceFrom slicePrefix
  by_cases h1 : i * n ≤ buf.length
  · have h2 : ¬ n ≤ (buf.drop (i * n)).length := by simp only [List.length_drop]; omega
    simp only [h1, h2, ↓reduceIte]
  · simp only [h1, ↓reduceIte]

theorem storeBytes_of_le {n : Nat} {o : Order} {v : Nat} {buf : List Nat} {i : Nat}
    (hle : i * n + n ≤ buf.length) :
    storeBytes n o v buf i = (true, splice buf (i * n) (encodeBytes o n v)) := by
  have h1 : i * n ≤ buf.length := by omega
  have h2 : n ≤ (buf.drop (i * n)).length := by simp only [List.length_drop]; omega
  simp only [storeBytes, sliceFrom, slicePrefix, h1, h2, ↓reduceIte, encodeBytes]

theorem storeBytes_of_gt {n : Nat} {o : Order} {v : Nat} {buf : List Nat} {i : Nat}
    (hgt : buf.length < i * n + n) : storeBytes n o v buf i = (false, buf) := by
  unfold storeBytes sliceFrom slicePrefix
  by_cases h1 : i * n ≤ buf.length
  · have h2 : ¬ n ≤ (buf.drop (i * n)).length := by simp only [List.length_drop]; omega
    simp only [h1, h2, ↓reduceIte]
  · simp only [h1, ↓reduceIte]

/-! ### `splice` -/

theorem splice_length {buf : List Nat} {a : Nat} {bytes : List Nat}
    (h : a + bytes.length ≤ buf.length) : (splice buf a bytes).length = buf.length := by
  simp only [splice, List.length_append, List.length_take, List.length_drop]
  omega

theorem splice_getElem?_outside {buf : List Nat} {a : Nat} {bytes : List Nat}
    (h : a + bytes.length ≤ buf.length) {k : Nat} (hk : k < a ∨ a + bytes.length ≤ k) :
    (splice buf a bytes)[k]? = buf[k]? := by
  unfold splice
  have hlt : (buf.take a).length = a := by simp only [List.length_take]; omega
  rcases hk with hk | hk
  · rw [List.append_assoc, List.getElem?_append_left (by omega)]
    simp only [List.getElem?_take, hk, ↓reduceIte]
  · rw [List.getElem?_append_right (by simp only [List.length_append, hlt]; omega)]
    simp only [List.length_append, hlt, List.getElem?_drop]
    congr 1
    omega

theorem splice_getElem?_inside {buf : List Nat} {a : Nat} {bytes : List Nat}
    (h : a + bytes.length ≤ buf.length) {k : Nat} (hk : k < bytes.length) :
    (splice buf a bytes)[a + k]? = bytes[k]? := by
  unfold splice
  have hlt : (buf.take a).length = a := by simp only [List.length_take]; omega
  rw [List.append_assoc, List.getElem?_append_right (by omega), hlt,
    List.getElem?_append_left (by omega)]
  congr 1
  omega

theorem splice_bytesOk {buf : List Nat} {a : Nat} {bytes : List Nat}
    (hw : BytesOk buf) (hb : BytesOk bytes) : BytesOk (splice buf a bytes) :=
  ((hw.take a).append hb).append (hw.drop _)

/-- The `n` bytes at offset `s` as a function of `getElem?`. -/
theorem window_ext {l l' : List Nat} {s n : Nat}
    (h : ∀ k, k < n → l[s + k]? = l'[s + k]?) : (l.drop s).take n = (l'.drop s).take n := by
  apply List.ext_getElem?
  intro k
  simp only [List.getElem?_take, List.getElem?_drop]
  split
  · rename_i hk; exact h k hk
  · rfl

theorem splice_window_self {buf : List Nat} {a : Nat} {bytes : List Nat}
    (h : a + bytes.length ≤ buf.length) :
    ((splice buf a bytes).drop a).take bytes.length = bytes := by
  apply List.ext_getElem?
  intro k
  simp only [List.getElem?_take, List.getElem?_drop]
  split
  · rename_i hk; exact splice_getElem?_inside h hk
  · rename_i hk; rw [List.getElem?_eq_none (by omega)]

theorem loadBytes_storeBytes_same {n : Nat} {o : Order} {v : Nat} {buf : List Nat} {i : Nat}
    (hv : v < 256 ^ n) (hle : i * n + n ≤ buf.length) :
    loadBytes n o (storeBytes n o v buf i).2 i = some v := by
  rw [storeBytes_of_le hle]
  have hl := encodeBytes_length o n v
  have hle' : i * n + (encodeBytes o n v).length ≤ buf.length := by omega
  rw [loadBytes_of_le (by rw [splice_length hle']; exact hle)]
  have := splice_window_self hle'
  rw [hl] at this
  simp only [this, decode_encode o n v hv]

theorem loadBytes_storeBytes_other {n : Nat} {o : Order} {v : Nat} {buf : List Nat} {i j : Nat}
    (hne : j ≠ i) : loadBytes n o (storeBytes n o v buf i).2 j = loadBytes n o buf j := by
  by_cases hle : i * n + n ≤ buf.length
  · rw [storeBytes_of_le hle]
    have hl := encodeBytes_length o n v
    have hle' : i * n + (encodeBytes o n v).length ≤ buf.length := by omega
    by_cases hj : j * n + n ≤ buf.length
    · rw [loadBytes_of_le (by rw [splice_length hle']; exact hj), loadBytes_of_le hj]
      congr 2
      apply window_ext
      intro k hk
      apply splice_getElem?_outside hle'
      rw [hl]
      rcases Nat.lt_or_gt_of_ne hne with hlt | hgt
      · left
        have : (j + 1) * n ≤ i * n := Nat.mul_le_mul_right n hlt
        rw [Nat.succ_mul] at this
        omega
      · right
        have : (i + 1) * n ≤ j * n := Nat.mul_le_mul_right n hgt
        rw [Nat.succ_mul] at this
        omega
    · rw [loadBytes_of_gt (by rw [splice_length hle']; omega), loadBytes_of_gt (by omega)]
  · rw [storeBytes_of_gt (by omega)]

/-- `i` is inside the buffer iff its `n` bytes are. -/
theorem multiByte_inside_iff {n : Nat} (hn : 0 < n) (len i : Nat) :
    i < len / n ↔ i * n + n ≤ len := by
  rw [← Nat.succ_mul, ← Nat.le_div_iff_mul_le hn]
  omega

end EG.Raw
