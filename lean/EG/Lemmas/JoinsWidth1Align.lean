/-
  EG.Lemmas.JoinsWidth1Align — stroke width 1 with ANY stroke alignment (`StrokeOffset::None / Left /
  Right`): what the triangle scanline code gets from the join code.
  * every edge segment is a skeleton segment whose scanline is the Bresenham intersection of the
    plain edge (`segment_width1_off`; `Line::extents(1, _)` is the line itself twice,
    EG.Lemmas.JoinsBBoxWidth1Off);
  * a width-1 join is never `Degenerate` (`fromExtents_width1_not_degenerate`);
  * `Triangle::is_collapsed(1, off)` is `area_doubled <= 0` (`isCollapsed_width1`): the inner point
    of join `i` is the vertex, the "opposite edge" is the plain opposite edge, and the signed distance
    is `area_doubled` for each of the three joins. For the `sorted_clockwise` triangle that is
    `area_doubled == 0` (`isCollapsed_width1_sortedClockwise`).
  Hence `ScanlineIntersections::new(sorted_clockwise, 1, off, ..)` has
  `is_collapsed = (area_doubled == 0) && off == Right`: only a zero-area triangle with
  `StrokeAlignment::Inside` takes the collapsed arm of `generate_lines` (the whole
  `scanline_intersection` row in the stroke colour); everything else runs `edge_intersections` over
  the three skeleton segments.
-/
import EG.Lemmas.JoinsBBoxTriWidth1
import EG.Lemmas.Triangle
import EG.Model.TriangleAligned
import Mathlib.Tactic.Ring
set_option linter.unusedSimpArgs false
namespace EG
namespace Joins
open Thick (LineSide StrokeOffset)

/-- **A one-pixel segment is the thin edge line, for every stroke offset.** -/
theorem segment_width1_off (a m1 m2 b : Pt) (off : StrokeOffset) (h1x : inI32 m1.x)
    (h1y : inI32 m1.y) (h2x : inI32 m2.x) (h2y : inI32 m2.y) :
    ∃ j1 j2, LineJoin.fromPoints a m1 m2 1 off = some j1 ∧
      LineJoin.fromPoints m1 m2 b 1 off = some j2 ∧
      (ThickSegment.mk j1 j2).isSkeleton = true ∧
      ∀ y, (ThickSegment.mk j1 j2).intersection y = bint (Scanline.newEmpty y) ⟨m1, m2⟩ := by
  obtain ⟨j1, e1, c1, c1'⟩ := fromPoints_width1_off a m1 m2 off h1x h1y
  obtain ⟨j2, e2, c2, _⟩ := fromPoints_width1_off m1 m2 b off h2x h2y
  have hs : (ThickSegment.mk j1 j2).isSkeleton = true := by
    unfold ThickSegment.isSkeleton; simp only [c1]; exact beq_self_eq_true m1
  refine ⟨j1, j2, e1, e2, hs, ?_⟩
  intro y
  rw [intersection_skeleton _ hs]
  unfold ThickSegment.edges
  simp only [c1', c2]

/-! ### the kind of a width-1 join -/

/-- The join `from_points(a, m, b, 1, _)` after its extents. -/
def join1 (a m b : Pt) : LineJoin := LineJoin.fromExtents m 1 ⟨a, m⟩ ⟨a, m⟩ ⟨m, b⟩ ⟨m, b⟩

theorem fromPoints_width1_eq (a m b : Pt) (off : StrokeOffset) :
    LineJoin.fromPoints a m b 1 off = some (join1 a m b) := by
  unfold LineJoin.fromPoints
  rw [extents_width1, extents_width1]
  rfl

/-- Turn of the path `a → m → b`: `(m - a) × (b - m)`. -/
def turn (a m b : Pt) : Int := (m.x - a.x) * (b.y - m.y) - (m.y - a.y) * (b.x - m.x)

theorem denominator_through (a m b : Pt) :
    (IntersectionParams.fromLines ⟨m, b⟩ ⟨a, m⟩).denominator = -turn a m b := by
  unfold IntersectionParams.fromLines LinearEquation.fromLine turn
  simp only [det, dot, rotate90, Line.delta, Pt.sub_x, Pt.sub_y]
  ring

/-- Signed distance of `p` from the line `l` (`LinearEquation::distance`): `(l.end - l.start) × (p - l.start)`. -/
theorem distance_fromLine (l : Line) (p : Pt) :
    (LinearEquation.fromLine l).distance p =
      (l.stop.x - l.start.x) * (p.y - l.start.y) - (l.stop.y - l.start.y) * (p.x - l.start.x) := by
  unfold LinearEquation.distance LinearEquation.fromLine
  simp only [dot, rotate90, Line.delta, Pt.sub_x, Pt.sub_y]
  ring

/-- **A width-1 join is never `Degenerate`**: the "self-intersection" test asks whether the next
vertex lies on the outer side of the first edge, and the outer side is by definition the other one. -/
theorem join1_not_degenerate (a m b : Pt) : (join1 a m b).isDegenerate = false := by
  unfold join1 LineJoin.fromExtents intersections
  have hden := denominator_through a m b
  unfold IntersectionParams.intersection
  by_cases h0 : turn a m b = 0
  · have hd : (IntersectionParams.fromLines ⟨m, b⟩ ⟨a, m⟩).denominator = 0 := by omega
    simp only [hd, ↓reduceIte]
    rfl
  · have hd : ¬ (IntersectionParams.fromLines ⟨m, b⟩ ⟨a, m⟩).denominator = 0 := by omega
    simp only [hd, ↓reduceIte]
    have hdist : (LinearEquation.fromLine (⟨a, m⟩ : Line)).distance b = turn a m b := by
      rw [distance_fromLine]; unfold turn; dsimp only; ring
    by_cases hneg : (IntersectionParams.fromLines ⟨m, b⟩ ⟨a, m⟩).denominator < 0
    · -- outer side left; the next vertex is strictly right of the first edge
      have hcs : (LinearEquation.fromLine (⟨a, m⟩ : Line)).checkSide b LineSide.left = false := by
        unfold LinearEquation.checkSide
        simp only [hdist]
        exact decide_eq_false (by omega)
      simp only [hneg, ↓reduceIte, hcs, Bool.not_false]
      repeat' split
      all_goals rfl
    · have hcs : (LinearEquation.fromLine (⟨a, m⟩ : Line)).checkSide b LineSide.right = false := by
        unfold LinearEquation.checkSide
        simp only [hdist]
        exact decide_eq_false (by omega)
      simp only [hneg, ↓reduceIte, hcs, Bool.not_false]
      repeat' split
      all_goals rfl

theorem join1_corners (a m b : Pt) (hx : inI32 m.x) (hy : inI32 m.y) :
    (join1 a m b).firstEdgeEnd = ⟨m, m⟩ ∧ (join1 a m b).secondEdgeStart = ⟨m, m⟩ :=
  fromExtents_width1_corners a m b hx hy

/-! ### `is_collapsed` at stroke width 1 -/

theorem joins_width1 (t : Tri) (off : StrokeOffset) :
    t.joins 1 off = some [join1 t.v3 t.v1 t.v2, join1 t.v1 t.v2 t.v3, join1 t.v2 t.v3 t.v1] := by
  unfold Tri.joins
  simp only [fromPoints_width1_eq]
  rfl

/-- The closure of `is_collapsed` for a width-1 join at vertex `m` with the opposite edge `p q`: is
the vertex on or left of the opposite edge. -/
theorem joinCollapsed_width1 (t : Tri) (off : StrokeOffset) (i : Nat) (a m b : Pt)
    (hx : inI32 m.x) (hy : inI32 m.y) :
    t.joinCollapsed 1 off i (join1 a m b) =
      some ((LinearEquation.fromLine ⟨t.vertex (i + 1), t.vertex (i + 2)⟩).checkSide m .left) := by
  unfold Tri.joinCollapsed
  simp only [join1_not_degenerate, Bool.false_eq_true, ↓reduceIte, extents_width1,
    (join1_corners a m b hx hy).1]
  rfl

/-- **`Triangle::is_collapsed(1, off)` is `area_doubled <= 0`**, for every stroke offset. -/
theorem isCollapsed_width1 (t : Tri) (off : StrokeOffset) (hi : TriI32 t) :
    t.isCollapsed 1 off = some (decide (t.areaDoubled ≤ 0)) := by
  obtain ⟨⟨h1x, h1y⟩, ⟨h2x, h2y⟩, ⟨h3x, h3y⟩⟩ := hi
  unfold Tri.isCollapsed
  rw [joins_width1]
  simp only [Option.bind_eq_bind, Option.bind_some]
  rw [joinCollapsed_width1 t off 0 _ _ _ h1x h1y, joinCollapsed_width1 t off 1 _ _ _ h2x h2y,
    joinCollapsed_width1 t off 2 _ _ _ h3x h3y]
  simp only [Option.bind_some, pure]
  have v1 : t.vertex (0 + 1) = t.v2 := rfl
  have v2 : t.vertex (0 + 2) = t.v3 := rfl
  have v3 : t.vertex (1 + 1) = t.v3 := rfl
  have v4 : t.vertex (1 + 2) = t.v1 := rfl
  have v5 : t.vertex (2 + 1) = t.v1 := rfl
  have v6 : t.vertex (2 + 2) = t.v2 := rfl
  simp only [Nat.zero_add, Nat.reduceAdd] at v1 v2 v3 v4 v5 v6 ⊢
  try rw [v1]
  try rw [v2]
  try rw [v3]
  try rw [v4]
  try rw [v5]
  try rw [v6]
  unfold LinearEquation.checkSide
  simp only [distance_fromLine]
  have e1 : (t.v3.x - t.v2.x) * (t.v1.y - t.v2.y) - (t.v3.y - t.v2.y) * (t.v1.x - t.v2.x) =
      t.areaDoubled := by unfold Tri.areaDoubled; ring
  have e2 : (t.v1.x - t.v3.x) * (t.v2.y - t.v3.y) - (t.v1.y - t.v3.y) * (t.v2.x - t.v3.x) =
      t.areaDoubled := by unfold Tri.areaDoubled; ring
  have e3 : (t.v2.x - t.v1.x) * (t.v3.y - t.v1.y) - (t.v2.y - t.v1.y) * (t.v3.x - t.v1.x) =
      t.areaDoubled := by unfold Tri.areaDoubled; ring
  rw [e1, e2, e3, Bool.or_self, Bool.or_self]

/-! ### the bridge to the `tri` topic's `Triangle` -/

/-- The same triangle in the `tri` topic's model. -/
def Tri.toTriangle (t : Tri) : Triangle := ⟨t.v1, t.v2, t.v3⟩

theorem toTriangle_areaDoubled (t : Tri) : t.toTriangle.areaDoubled = t.areaDoubled := rfl

theorem toTriangle_sortedYx (t : Tri) : t.sortedYx.toTriangle = t.toTriangle.sortedYx := by
  unfold Tri.sortedYx Triangle.sortedYx Tri.sortTwoYx Triangle.sortTwoYx Triangle.yxLt Tri.toTriangle
  dsimp only
  repeat' split
  all_goals rfl

theorem toTriangle_sortedClockwise (t : Tri) :
    t.sortedClockwise.toTriangle = t.toTriangle.sortedClockwise := by
  unfold Tri.sortedClockwise Triangle.sortedClockwise
  rw [toTriangle_areaDoubled]
  split
  · rfl
  · split
    · rfl
    · exact toTriangle_sortedYx t

theorem toTriangle_vertex (t : Tri) (i : Nat) : t.toTriangle.vertex i = t.vertex i := by
  unfold Triangle.vertex Tri.vertex Tri.toTriangle
  have h : i % 3 = 0 ∨ i % 3 = 1 ∨ i % 3 = 2 := by omega
  rcases h with h | h | h <;> rw [h] <;> rfl

/-- `sorted_clockwise` has non-negative `area_doubled`, zero exactly when the triangle's is. -/
theorem sortedClockwise_area (t : Tri) :
    0 ≤ t.sortedClockwise.areaDoubled ∧ (t.sortedClockwise.areaDoubled = 0 ↔ t.areaDoubled = 0) := by
  by_cases h1 : t.areaDoubled < 0
  · have es : t.sortedClockwise = ⟨t.v2, t.v1, t.v3⟩ := by
      unfold Tri.sortedClockwise; rw [if_pos h1]
    have e : (Tri.mk t.v2 t.v1 t.v3).areaDoubled = -t.areaDoubled := by
      unfold Tri.areaDoubled; dsimp only; ring
    rw [es, e]; omega
  · by_cases h2 : t.areaDoubled > 0
    · have es : t.sortedClockwise = t := by
        unfold Tri.sortedClockwise; rw [if_neg h1, if_pos h2]
      rw [es]; omega
    · have es : t.sortedClockwise = t.sortedYx := by
        unfold Tri.sortedClockwise; rw [if_neg h1, if_neg h2]
      have h0 : t.areaDoubled = 0 := by omega
      have e : t.sortedYx.areaDoubled = 0 := by
        rw [← toTriangle_areaDoubled, toTriangle_sortedYx]
        exact (Triangle.areaDoubled_eq_zero_iff_of_mem_orders
          (Triangle.sortedYx_mem_orders t.toTriangle)).mpr h0
      rw [es]; omega

/-- For the triangle the scanline code works on: collapsed iff the area is zero. -/
theorem isCollapsed_width1_sortedClockwise (t : Tri) (off : StrokeOffset) (hi : TriI32 t) :
    t.sortedClockwise.isCollapsed 1 off = some (decide (t.areaDoubled = 0)) := by
  have hi' : TriI32 t.sortedClockwise :=
    sortedClockwise_all (fun p => inI32 p.x ∧ inI32 p.y) t hi.1 hi.2.1 hi.2.2
  rw [isCollapsed_width1 _ off hi']
  obtain ⟨h1, h2⟩ := sortedClockwise_area t
  congr 1
  by_cases h : t.areaDoubled = 0
  · have := h2.mpr h
    simp only [h, decide_true, decide_eq_true_eq]; omega
  · have : ¬ t.sortedClockwise.areaDoubled = 0 := fun c => h (h2.mp c)
    simp only [h, decide_false, decide_eq_false_iff_not]; omega

/-- **The `is_collapsed` flag of `ScanlineIntersections::new` at stroke width 1**:
`area_doubled <= 0 && offset == Right`. -/
theorem new_isCollapsed_width1 (tc : Tri) (off : StrokeOffset) (hasFill : Bool) (y : Int)
    (hi : TriI32 tc) :
    ∀ it, TriIntersections.new tc 1 off hasFill y = some it →
      it.isCollapsed = (decide (tc.areaDoubled ≤ 0) && off == .right) ∧
      it.triangle = tc ∧ it.strokeWidth = 1 ∧ it.strokeOffset = off ∧ it.hasFill = hasFill := by
  intro it h
  unfold TriIntersections.new at h
  rw [isCollapsed_width1 tc off hi] at h
  simp only [Option.bind_eq_bind, Option.bind_some] at h
  unfold TriIntersections.resetWithNewScanline at h
  cases hg : TriIntersections.generateLines _ y with
  | none => rw [hg] at h; simp at h
  | some lines =>
    rw [hg] at h
    simp only [Option.bind_eq_bind, Option.bind_some, pure, Option.some.injEq] at h
    subst h
    exact ⟨rfl, rfl, rfl, rfl, rfl⟩

/-- The alignment of the `tri` topic's outline model as a stroke offset. -/
def alignOffset : TriAlign → StrokeOffset
  | .inside => .right
  | .center => .none
  | .outside => .left

/-- The flag of the `tri` topic's outline model (`Triangle.collapsedFlag1`) is the flag the join
code computes. -/
theorem new_isCollapsed_eq_flag (tc : Tri) (a : TriAlign) (hasFill : Bool) (y : Int)
    (hi : TriI32 tc) :
    ∀ it, TriIntersections.new tc 1 (alignOffset a) hasFill y = some it →
      it.isCollapsed = tc.toTriangle.collapsedFlag1 a := by
  intro it h
  rw [(new_isCollapsed_width1 tc _ hasFill y hi it h).1]
  unfold Triangle.collapsedFlag1
  rw [toTriangle_areaDoubled]
  cases a <;> rfl

end Joins
end EG
