/-
  EG.Lemmas.TextLayoutTranslate — `Transform for Text`: line positions, returned position, bounding
  box and the calls on the binary target all move by the translation vector.
-/
import EG.Lemmas.TextLayoutLines
import EG.Model.CallTranslate
namespace EG
namespace TextLayout
open Font

theorem pt_add_mk (p d : Pt) (a b : Int) : (⟨(p + d).x + a, (p + d).y + b⟩ : Pt) = ⟨p.x + a, p.y + b⟩ + d := by
  rw [Pt.ext_iff']; constructor <;> (try simp only [Pt.add_x, Pt.add_y]) <;> (try omega)

theorem alignedPos_translate (f : MonoFont) (st : Style) (ts : TextStyle) (line : List Nat) (p d : Pt) :
    alignedPos f st ts line (p + d) = alignedPos f st ts line p + d := by
  unfold alignedPos
  cases ts.alignment <;> simp only <;> rw [Pt.ext_iff'] <;> simp only [Pt.add_x, Pt.add_y] <;> omega

theorem linesGo_translate (f : MonoFont) (st : Style) (ts : TextStyle) (d : Pt) :
    ∀ (segs : List (List Nat)) (p : Pt),
      linesGo f st ts (p + d) segs = (linesGo f st ts p segs).map (fun lp => (lp.1, lp.2 + d))
  | [], _ => rfl
  | seg :: rest, p => by
    have e : (⟨(p + d).x, (p + d).y + lineHeight f ts⟩ : Pt) = ⟨p.x, p.y + lineHeight f ts⟩ + d := by
      have := pt_add_mk p d 0 (lineHeight f ts)
      simpa using this
    simp only [linesGo, List.map_cons, alignedPos_translate, e, linesGo_translate f st ts d rest]

/-- The lines of `text.translate(d)`: same contents, every position moved by `d`. -/
theorem lines_translate (f : MonoFont) (t : Text) (d : Pt) :
    lines f (t.translate d) = (lines f t).map (fun lp => (lp.1, lp.2 + d)) := by
  simp only [lines, Text.translate]
  exact linesGo_translate f t.style t.ts d _ _

theorem drawString_next_translate (f : MonoFont) (atlas : Pt → Bool) (st : Style) (text : List Nat) (p d : Pt)
    (bl : Baseline) :
    (f.drawString atlas st text (p + d) bl).2 = (f.drawString atlas st text p bl).2 + d := by
  simp only [drawString_next]
  rw [Pt.ext_iff']; constructor <;> (try simp only [Pt.add_x, Pt.add_y]) <;> (try omega)

theorem drawLines_next_translate (f : MonoFont) (atlas : Pt → Bool) (st : Style) (bl : Baseline) (d : Pt) :
    ∀ (ls : List (List Nat × Pt)) (n : Pt),
      (drawLines f atlas st bl (ls.map (fun lp => (lp.1, lp.2 + d))) (n + d)).2 =
        (drawLines f atlas st bl ls n).2 + d
  | [], _ => rfl
  | (l, p) :: rest, n => by
    simp only [List.map_cons, drawLines, drawString_next_translate]
    exact drawLines_next_translate f atlas st bl d rest _

/-- `text.translate(d).draw()` returns the position `text.draw()` returns, moved by `d`. -/
theorem draw_next_translate (f : MonoFont) (atlas : Pt → Bool) (t : Text) (d : Pt) :
    (draw f atlas (t.translate d)).2 = (draw f atlas t).2 + d := by
  unfold draw
  rw [lines_translate]
  exact drawLines_next_translate f atlas t.style t.ts.baseline d _ _

/-! ### Bounding box -/

theorem measureString_translate (f : MonoFont) (st : Style) (text : List Nat) (p d : Pt) (bl : Baseline) :
    measureString f st text (p + d) bl =
      ⟨(measureString f st text p bl).bbox.translate d, (measureString f st text p bl).next + d⟩ := by
  simp only [measureString, Rect.translate, Metrics.mk.injEq, Rect.mk.injEq, and_true]
  constructor <;> rw [Pt.ext_iff'] <;> constructor <;> (try simp only [Pt.add_x, Pt.add_y]) <;> (try omega)

/-- the running `(min, max)` pair moved by `d` -/
def shiftMM (d : Pt) : Option (Pt × Pt) → Option (Pt × Pt)
  | none => none
  | some (mn, mx) => some (mn + d, mx + d)

theorem bottomRight_translate (r : Rect) (d : Pt) :
    (r.translate d).bottomRight = r.bottomRight.map (· + d) := by
  unfold Rect.bottomRight Rect.translate
  split
  · simp only [Option.map_some, Option.some.injEq]
    rw [Pt.ext_iff']; constructor <;> (try simp only [Pt.add_x, Pt.add_y]) <;> (try omega)
  · rfl

theorem updateMinMax_translate (mm : Option (Pt × Pt)) (m : Metrics) (d : Pt) :
    updateMinMax (shiftMM d mm) ⟨m.bbox.translate d, m.next + d⟩ = shiftMM d (updateMinMax mm m) := by
  unfold updateMinMax
  simp only [bottomRight_translate]
  cases hbr : m.bbox.bottomRight with
  | none => simp
  | some br =>
    cases mm with
    | none => simp [shiftMM, Rect.translate]
    | some mnmx =>
      obtain ⟨mn, mx⟩ := mnmx
      simp only [Option.map_some, shiftMM, Rect.translate, Option.some.injEq, Prod.mk.injEq]
      constructor <;> rw [Pt.ext_iff'] <;> simp only [Pt.add_x, Pt.add_y] <;> omega

theorem minMaxGo_translate (f : MonoFont) (st : Style) (bl : Baseline) (d : Pt) :
    ∀ (ls : List (List Nat × Pt)) (mm : Option (Pt × Pt)),
      minMaxGo f st bl (shiftMM d mm) (ls.map (fun lp => (lp.1, lp.2 + d))) =
        shiftMM d (minMaxGo f st bl mm ls)
  | [], _ => rfl
  | (l, p) :: rest, mm => by
    simp only [List.map_cons, minMaxGo, measureString_translate, updateMinMax_translate]
    exact minMaxGo_translate f st bl d rest _

theorem withCorners_translate (a b d : Pt) :
    Rect.withCorners (a + d) (b + d) = (Rect.withCorners a b).translate d := by
  unfold Rect.withCorners Rect.translate
  simp only [Pt.add_x, Pt.add_y, Rect.mk.injEq, Sz.mk.injEq]
  refine ⟨?_, ?_, ?_⟩
  · rw [Pt.ext_iff']; constructor <;> (try simp only [Pt.add_x, Pt.add_y]) <;> (try omega)
  · omega
  · omega

/-- `text.translate(d).bounding_box()` is `text.bounding_box()` moved by `d` — also for an empty text
(zero-sized box at the position). -/
theorem boundingBox_translate (f : MonoFont) (t : Text) (d : Pt) :
    boundingBox f (t.translate d) = (boundingBox f t).translate d := by
  unfold boundingBox
  rw [lines_translate]
  have h := minMaxGo_translate f t.style t.ts.baseline d (lines f t) none
  simp only [shiftMM] at h
  show (match minMaxGo f t.style t.ts.baseline none (List.map (fun lp => (lp.1, lp.2 + d)) (lines f t)) with
    | some (mn, mx) => Rect.withCorners mn mx
    | none => ⟨t.position + d, Sz.zero⟩) = _
  rw [h]
  cases minMaxGo f t.style t.ts.baseline none (lines f t) with
  | none => rfl
  | some mnmx => obtain ⟨mn, mx⟩ := mnmx; exact withCorners_translate mn mx d

/-! ### Calls on the binary target -/

/-- A binary-target call with its area moved by `d`. -/
def bcallTranslate (d : Pt) : BCall → BCall
  | .fillContiguous a bits => .fillContiguous (a.translate d) bits
  | .fillSolid a on => .fillSolid (a.translate d) on

theorem glyphCalls_translate (f : MonoFont) (atlas : Pt → Bool) (c : Nat) (p d : Pt) :
    f.glyphCalls atlas c (p + d) = (f.glyphCalls atlas c p).map (bcallTranslate d) := by
  unfold MonoFont.glyphCalls
  simp only
  split <;> simp [bcallTranslate, Rect.translate]

theorem gapCalls_translate (f : MonoFont) (hasBg : Bool) (p d : Pt) :
    gapCalls f hasBg (p + d) = (gapCalls f hasBg p).map (bcallTranslate d) := by
  unfold gapCalls
  split <;> simp [bcallTranslate, Rect.translate]

theorem binCalls_translate (f : MonoFont) (atlas : Pt → Bool) (hasBg : Bool) (d : Pt) :
    ∀ (text : List Nat) (p : Pt),
      binCalls f atlas hasBg (p + d) text = (binCalls f atlas hasBg p text).map (bcallTranslate d)
  | [], _ => rfl
  | [c], p => by simp only [binCalls, glyphCalls_translate]
  | c :: c' :: cs, p => by
    have e1 : (⟨(p + d).x + (f.cw : Int), (p + d).y⟩ : Pt) = ⟨p.x + (f.cw : Int), p.y⟩ + d := by
      have := pt_add_mk p d (f.cw : Int) 0; simpa using this
    have e2 : (⟨(p + d).x + (f.cw : Int) + (f.spacing : Int), (p + d).y⟩ : Pt) =
        ⟨p.x + (f.cw : Int) + (f.spacing : Int), p.y⟩ + d := by
      rw [Pt.ext_iff']; constructor <;> (try simp only [Pt.add_x, Pt.add_y]) <;> (try omega)
    simp only [binCalls, glyphCalls_translate, e1, e2, gapCalls_translate,
      binCalls_translate f atlas hasBg d (c' :: cs), List.map_append]

/-- Colour lowering commutes with the move when text and background colour are both set. -/
theorem lower_both_translate (tc bc : Color) (d : Pt) (b : BCall) :
    (Mode.both tc bc).lower (bcallTranslate d b) = ((Mode.both tc bc).lower b).map (Call.translate d) := by
  cases b <;> simp [bcallTranslate, Mode.lower, Call.translate]

theorem drawDecorations_translate (f : MonoFont) (st : Style) (w : Nat) (p d : Pt) :
    f.drawDecorations st w (p + d) = (f.drawDecorations st w p).map (Call.translate d) := by
  have e : ∀ off h, decoRect off h (p + d) w = (decoRect off h p w).translate d := by
    intro off h
    simp only [decoRect, Rect.translate, Rect.mk.injEq, and_true]
    rw [Pt.ext_iff']; constructor <;> (try simp only [Pt.add_x, Pt.add_y]) <;> (try omega)
  unfold MonoFont.drawDecorations
  cases st.strikethrough.effective st.textColor <;> cases st.underline.effective st.textColor <;>
    simp [e, Call.translate]

theorem glyphPartCalls_translate (f : MonoFont) (atlas : Pt → Bool) (st : Style) (text : List Nat) (p d : Pt)
    (h : (st.textColor = none ↔ st.bgColor = none)) :
    glyphPartCalls f atlas st text (p + d) = (glyphPartCalls f atlas st text p).map (Call.translate d) := by
  unfold glyphPartCalls
  cases htc : st.textColor <;> cases hbg : st.bgColor
  · rfl
  · rw [htc, hbg] at h; simp at h
  · rw [htc, hbg] at h; simp at h
  · simp only [binCalls_translate, List.flatMap_map, List.map_flatMap, lower_both_translate]

theorem decoPartCalls_translate (f : MonoFont) (st : Style) (n : Nat) (p d : Pt) :
    decoPartCalls f st n (p + d) = (decoPartCalls f st n p).map (Call.translate d) := by
  unfold decoPartCalls
  split
  · rw [drawDecorations_translate]
  · rfl

/-- `draw_string` at a moved position makes the moved calls — for the styles whose calls are all area
fills (text and background colour both set, or neither). -/
theorem drawString_calls_translate (f : MonoFont) (atlas : Pt → Bool) (st : Style) (text : List Nat) (p d : Pt)
    (bl : Baseline) (h : (st.textColor = none ↔ st.bgColor = none)) :
    (f.drawString atlas st text (p + d) bl).1 = (f.drawString atlas st text p bl).1.map (Call.translate d) := by
  have e : (⟨(p + d).x, (p + d).y - f.baselineOffset bl⟩ : Pt) = ⟨p.x, p.y - f.baselineOffset bl⟩ + d := by
    rw [Pt.ext_iff']; constructor <;> (try simp only [Pt.add_x, Pt.add_y]) <;> (try omega)
  rw [drawString_calls, drawString_calls, e, glyphPartCalls_translate f atlas st text _ d h,
    decoPartCalls_translate, List.map_append]

theorem drawLines_calls_translate (f : MonoFont) (atlas : Pt → Bool) (st : Style) (bl : Baseline) (d : Pt)
    (h : (st.textColor = none ↔ st.bgColor = none)) :
    ∀ (ls : List (List Nat × Pt)) (n n' : Pt),
      (drawLines f atlas st bl (ls.map (fun lp => (lp.1, lp.2 + d))) n').1 =
        (drawLines f atlas st bl ls n).1.map (Call.translate d)
  | [], _, _ => rfl
  | (l, p) :: rest, n, n' => by
    simp only [List.map_cons, drawLines, drawString_calls_translate f atlas st l p d bl h, List.map_append]
    rw [drawLines_calls_translate f atlas st bl d h rest]

end TextLayout
end EG
