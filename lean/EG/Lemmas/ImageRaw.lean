/-
  EG.Lemmas.ImageRaw — `ImageRaw::new`, row padding, `pixel`.
-/
import EG.Lemmas.ImageRawAux
import EG.Lemmas.RectPoints
namespace EG.Img
open EG EG.Raw

/-- A well-formed raw image: the length check of `ImageRaw::new` passed, the depth is one of the
seven raw types, width and height survive the `as i32` casts of `pixel`, and the buffer holds at
most `usize::MAX` pixels (`Fits`). -/
structure ImageRaw.WF (im : ImageRaw) : Prop where
  bits : validBits im.bits = true
  len : im.data.length = bytesPerRow im.size.w im.bits * im.size.h
  wI32 : im.size.w ≤ 2147483647
  hI32 : im.size.h ≤ 2147483647
  fits : Fits im.bits im.data

namespace ImageRaw

theorem new_ok_iff (bits : Nat) (o : Order) (data : List Nat) (size : Sz) (im : ImageRaw) :
    new bits o data size = .ok im ↔
      (data.length = bytesPerRow size.w bits * size.h ∧ im = ⟨bits, o, data, size⟩) := by
  unfold new
  by_cases h : data.length = bytesPerRow size.w bits * size.h
  · simp only [h, bne_self_eq_false, Bool.false_eq_true, ↓reduceIte, Except.ok.injEq, true_and]
    exact eq_comm
  · have hb : (data.length != bytesPerRow size.w bits * size.h) = true := by simpa using h
    simp only [hb, ↓reduceIte, reduceCtorEq, h, false_and]

theorem new_error_iff (bits : Nat) (o : Order) (data : List Nat) (size : Sz) (e : Nat) :
    new bits o data size = .error e ↔
      (data.length ≠ bytesPerRow size.w bits * size.h ∧ e = bytesPerRow size.w bits * size.h) := by
  unfold new
  by_cases h : data.length = bytesPerRow size.w bits * size.h
  · simp only [h, bne_self_eq_false, Bool.false_eq_true, ↓reduceIte, reduceCtorEq, ne_eq,
      not_true_eq_false, false_and]
  · have hb : (data.length != bytesPerRow size.w bits * size.h) = true := by simpa using h
    simp only [hb, ↓reduceIte, Except.error.injEq, ne_eq, h, not_false_eq_true, true_and]
    exact eq_comm

/-- What `new` establishes, with the range facts, is `WF`. -/
theorem wf_of_new {bits : Nat} {o : Order} {data : List Nat} {size : Sz} {im : ImageRaw}
    (h : new bits o data size = .ok im) (hb : validBits bits = true)
    (hw : size.w ≤ 2147483647) (hh : size.h ≤ 2147483647) (hf : Fits bits data) : im.WF := by
  rw [new_ok_iff] at h
  obtain ⟨hl, rfl⟩ := h
  exact ⟨hb, hl, hw, hh, hf⟩

theorem newConst_eq (bits : Nat) (o : Order) (data : List Nat) (size : Sz) :
    newConst bits o data size =
      if data.length = bytesPerRow size.w bits * size.h then some ⟨bits, o, data, size⟩ else none := by
  unfold newConst new
  by_cases h : data.length = bytesPerRow size.w bits * size.h
  · simp only [h, bne_self_eq_false, Bool.false_eq_true, ↓reduceIte]
  · have hb : (data.length != bytesPerRow size.w bits * size.h) = true := by simpa using h
    simp only [hb, ↓reduceIte, h]

/-- Rows are padded to whole bytes: `bytes_per_row` is the least number of bytes holding `w` pixels. -/
theorem bytesPerRow_spec (w bits : Nat) :
    w * bits ≤ 8 * bytesPerRow w bits ∧ 8 * bytesPerRow w bits < w * bits + 8 := by
  unfold bytesPerRow; omega

theorem dataWidth_sub_byte {im : ImageRaw} (h : im.bits < 8) :
    im.dataWidth = bytesPerRow im.size.w im.bits * (8 / im.bits) := by
  unfold dataWidth; simp only [h, ↓reduceIte]

theorem dataWidth_whole_byte {im : ImageRaw} (h : ¬ im.bits < 8) : im.dataWidth = im.size.w := by
  unfold dataWidth; simp only [h, ↓reduceIte]

/-- No underflow in `row_skip = data_width - width`. -/
theorem width_le_dataWidth {im : ImageRaw} (hb : validBits im.bits = true) :
    im.size.w ≤ im.dataWidth := by
  unfold dataWidth bytesPerRow
  rcases validBits_cases hb with h | h | h | h | h | h | h <;> rw [h] <;> simp <;> omega

/-- The padding is less than one byte worth of pixels. -/
theorem dataWidth_lt {im : ImageRaw} (hb : validBits im.bits = true) (h8 : im.bits < 8) :
    im.dataWidth < im.size.w + 8 / im.bits := by
  unfold dataWidth bytesPerRow
  rcases validBits_cases hb with h | h | h | h | h | h | h <;> rw [h] at h8 ⊢ <;> simp at h8 ⊢ <;> omega

/-- A buffer accepted by `new` holds exactly `data_width * height` pixels. -/
theorem pixelCount_eq {im : ImageRaw} (hw : im.WF) :
    pixelCount im.bits im.data.length = im.dataWidth * im.size.h := by
  rw [hw.len]
  unfold dataWidth pixelCount bytesPerRow
  rcases validBits_cases hw.bits with h | h | h | h | h | h | h <;> rw [h] <;>
    simp only [show (1:Nat) < 8 from by omega, show (2:Nat) < 8 from by omega,
      show (4:Nat) < 8 from by omega, show ¬ (8:Nat) < 8 from by omega,
      show ¬ (16:Nat) < 8 from by omega, show ¬ (24:Nat) < 8 from by omega,
      show ¬ (32:Nat) < 8 from by omega, ↓reduceIte]
  · exact Nat.mul_right_comm _ _ _
  · exact Nat.mul_right_comm _ _ _
  · exact Nat.mul_right_comm _ _ _
  · have : (im.size.w * 8 + 7) / 8 = im.size.w := by omega
    rw [this]; simp
  · have : (im.size.w * 16 + 7) / 8 = 2 * im.size.w := by omega
    rw [this, Nat.mul_assoc]; simp
  · have : (im.size.w * 24 + 7) / 8 = 3 * im.size.w := by omega
    rw [this, Nat.mul_assoc]; simp
  · have : (im.size.w * 32 + 7) / 8 = 4 * im.size.w := by omega
    rw [this, Nat.mul_assoc]; simp

theorem asI32_of_le {n : Nat} (h : n ≤ 2147483647) : asI32 n = n := by
  unfold asI32
  have : n % 4294967296 = n := Nat.mod_eq_of_lt (by omega)
  rw [this]
  have : n < 2147483648 := by omega
  simp only [this, ↓reduceIte]

/-- Beyond `i32::MAX` the cast wraps: a width of `2^31` becomes `i32::MIN`, so the test
`p.x >= width as i32` holds for every `p` and `pixel` answers `None` everywhere. -/
theorem pixel_none_of_width_wraps (im : ImageRaw) (h : im.size.w = 2147483648) (p : Pt) :
    im.pixel p = none := by
  unfold pixel asI32
  rw [h]
  have : p.x < 0 ∨ p.y < 0 ∨ p.x ≥ (if 2147483648 % 4294967296 < 2147483648
      then (((2147483648 % 4294967296 : Nat)) : Int)
      else ((2147483648 % 4294967296 : Nat) : Int) - 4294967296) ∨
      p.y ≥ (if im.size.h % 4294967296 < 2147483648 then ((im.size.h % 4294967296 : Nat) : Int)
        else ((im.size.h % 4294967296 : Nat) : Int) - 4294967296) := by
    simp only [show ¬ (2147483648 % 4294967296 < 2147483648) from by omega, ↓reduceIte]
    omega
  simp only [this, ↓reduceIte]

theorem contains_boundingBox {im : ImageRaw} {p : Pt} :
    im.boundingBox.contains p = true ↔ 0 ≤ p.x ∧ p.x < im.size.w ∧ 0 ≤ p.y ∧ p.y < im.size.h := by
  rw [Rect.contains_iff]; simp only [boundingBox, Pt.zero]; omega

/-- The raw index of an inside pixel is inside the buffer. -/
theorem index_lt {im : ImageRaw} (hw : im.WF) {x y : Nat} (hx : x < im.size.w) (hy : y < im.size.h) :
    x + y * im.dataWidth < pixelCount im.bits im.data.length := by
  rw [pixelCount_eq hw]
  have h1 := width_le_dataWidth hw.bits
  have h2 : (y + 1) * im.dataWidth ≤ im.size.h * im.dataWidth := Nat.mul_le_mul_right _ hy
  rw [Nat.succ_mul] at h2
  rw [Nat.mul_comm im.dataWidth im.size.h]
  omega

/-- `pixel` inside the bounding box reads raw pixel `x + y * data_width`; outside it is `None`. -/
theorem pixel_eq {im : ImageRaw} (hw : im.WF) (p : Pt) :
    im.pixel p =
      if im.boundingBox.contains p = true then
        load im.bits im.order im.data (p.x.toNat + p.y.toNat * im.dataWidth)
      else none := by
  unfold pixel
  rw [asI32_of_le hw.wI32, asI32_of_le hw.hI32]
  by_cases hc : im.boundingBox.contains p = true
  · simp only [hc, ↓reduceIte]
    rw [contains_boundingBox] at hc
    have : ¬ (p.x < 0 ∨ p.y < 0 ∨ p.x ≥ (im.size.w : Int) ∨ p.y ≥ (im.size.h : Int)) := by omega
    simp only [this, ↓reduceIte]
    have := iter_nth_fst (it := Iter.new im.bits im.order im.data) hw.bits hw.fits
      (p.x.toNat + p.y.toNat * im.dataWidth)
    simp only [Iter.new, Nat.zero_add] at this ⊢
    exact this
  · simp only [hc]
    rw [contains_boundingBox] at hc
    have : (p.x < 0 ∨ p.y < 0 ∨ p.x ≥ (im.size.w : Int) ∨ p.y ≥ (im.size.h : Int)) := by omega
    simp only [this, ↓reduceIte, Bool.false_eq_true]

/-- `pixel(p)` is `None` exactly outside the bounding box. -/
theorem pixel_none_iff {im : ImageRaw} (hw : im.WF) (p : Pt) :
    im.pixel p = none ↔ im.boundingBox.contains p = false := by
  rw [pixel_eq hw]
  by_cases hc : im.boundingBox.contains p = true
  · simp only [hc, ↓reduceIte, Bool.true_eq_false, iff_false]
    rw [contains_boundingBox] at hc
    rw [load_eq_none_iff hw.bits]
    have := index_lt hw (x := p.x.toNat) (y := p.y.toNat) (by omega) (by omega)
    omega
  · simp only [hc, Bool.false_eq_true, ↓reduceIte]

end ImageRaw
end EG.Img
