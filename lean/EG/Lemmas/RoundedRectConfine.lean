/-
  EG.Lemmas.RoundedRectConfine — `CornerRadii::confine`: pure integer arithmetic.
  The loop keeps the side with the smallest ratio `size / corner_size` (cross-multiplied), starting
  from `1 / 1`; every radius is scaled by that ratio (rounding down).
-/
import EG.Model.RoundedRect
namespace EG
namespace CornerRadii

/-- ratio `p.1 / p.2` is at most ratio `q.1 / q.2` (cross-multiplied) -/
def RatioLe (p q : Nat × Nat) : Prop := p.1 * q.2 ≤ q.1 * p.2

theorem RatioLe.refl (p : Nat × Nat) : RatioLe p p := Nat.le_refl _

theorem RatioLe.trans {p q r : Nat × Nat} (h1 : RatioLe p q) (h2 : RatioLe q r) (hq : 0 < q.2) :
    RatioLe p r := by
  unfold RatioLe at *
  apply Nat.le_of_mul_le_mul_right _ hq
  calc p.1 * r.2 * q.2 = (p.1 * q.2) * r.2 := by
        rw [Nat.mul_assoc, Nat.mul_comm r.2 q.2, ← Nat.mul_assoc]
    _ ≤ (q.1 * p.2) * r.2 := Nat.mul_le_mul_right _ h1
    _ = (q.1 * r.2) * p.2 := by rw [Nat.mul_assoc, Nat.mul_comm p.2 r.2, ← Nat.mul_assoc]
    _ ≤ (r.1 * q.2) * p.2 := Nat.mul_le_mul_right _ h2
    _ = r.1 * p.2 * q.2 := by rw [Nat.mul_assoc, Nat.mul_comm q.2 p.2, ← Nat.mul_assoc]

theorem confineStep_spec (acc s : Nat × Nat) (hacc : 0 < acc.2) :
    0 < (confineStep acc s).2 ∧ RatioLe (confineStep acc s) acc ∧ RatioLe (confineStep acc s) s := by
  unfold confineStep
  by_cases h : s.1 * acc.2 < acc.1 * s.2
  · simp only [h, ↓reduceIte]
    refine ⟨?_, ?_, RatioLe.refl _⟩
    · cases hs : s.2 with
      | zero => rw [hs] at h; simp at h
      | succ n => omega
    · unfold RatioLe; omega
  · simp only [h, ↓reduceIte]
    refine ⟨hacc, RatioLe.refl _, ?_⟩
    unfold RatioLe; omega

theorem foldl_confineStep_spec : ∀ (l : List (Nat × Nat)) (acc : Nat × Nat), 0 < acc.2 →
    0 < (l.foldl confineStep acc).2 ∧ RatioLe (l.foldl confineStep acc) acc ∧
      ∀ s ∈ l, RatioLe (l.foldl confineStep acc) s := by
  intro l
  induction l with
  | nil => intro acc h; exact ⟨h, RatioLe.refl _, fun s hs => by cases hs⟩
  | cons t l ih =>
    intro acc hacc
    obtain ⟨h1, h2, h3⟩ := confineStep_spec acc t hacc
    obtain ⟨i1, i2, i3⟩ := ih (confineStep acc t) h1
    simp only [List.foldl_cons]
    refine ⟨i1, i2.trans h2 h1, ?_⟩
    intro s hs
    rcases List.mem_cons.mp hs with rfl | hs'
    · exact i2.trans h3 h1
    · exact i3 s hs'

/-- The scale factor `size / corner_size`: `corner_size > 0`, the factor is at most `1 / 1` and at
most the ratio of every side. -/
theorem factor_spec (c : CornerRadii) (bb : Sz) :
    0 < (c.factor bb).2 ∧ (c.factor bb).1 ≤ (c.factor bb).2 ∧
      ∀ s ∈ c.sides bb, (c.factor bb).1 * s.2 ≤ s.1 * (c.factor bb).2 := by
  obtain ⟨h1, h2, h3⟩ := foldl_confineStep_spec (c.sides bb) (1, 1) (by decide)
  refine ⟨h1, ?_, h3⟩
  have := h2
  unfold RatioLe at this
  simp only [Nat.mul_one, Nat.one_mul] at this
  exact this

/-- Two radii along a side whose ratio bounds the factor fit into the side after scaling. -/
theorem scale_pair_le {f : Nat × Nat} (hf : 0 < f.2) {side a b : Nat}
    (h : f.1 * (a + b) ≤ side * f.2) : scaleLength f a + scaleLength f b ≤ side := by
  unfold scaleLength
  apply Nat.le_of_mul_le_mul_right _ hf
  have h1 : a * f.1 / f.2 * f.2 ≤ a * f.1 := Nat.div_mul_le_self _ _
  have h2 : b * f.1 / f.2 * f.2 ≤ b * f.1 := Nat.div_mul_le_self _ _
  calc (a * f.1 / f.2 + b * f.1 / f.2) * f.2 = a * f.1 / f.2 * f.2 + b * f.1 / f.2 * f.2 :=
        Nat.add_mul _ _ _
    _ ≤ a * f.1 + b * f.1 := Nat.add_le_add h1 h2
    _ = f.1 * (a + b) := by rw [← Nat.add_mul, Nat.mul_comm]
    _ ≤ side * f.2 := h

theorem scaleLength_le {f : Nat × Nat} (hf : f.1 ≤ f.2) (a : Nat) : scaleLength f a ≤ a := by
  unfold scaleLength
  apply Nat.div_le_of_le_mul
  rw [Nat.mul_comm f.2 a]
  exact Nat.mul_le_mul_left _ hf

/-- For each of the four sides the two radii along it add up to at most the side. -/
def Fits (c : CornerRadii) (bb : Sz) : Prop :=
  c.tl.w + c.tr.w ≤ bb.w ∧ c.tr.h + c.br.h ≤ bb.h ∧ c.bl.w + c.br.w ≤ bb.w ∧ c.tl.h + c.bl.h ≤ bb.h
instance (c : CornerRadii) (bb : Sz) : Decidable (c.Fits bb) := by unfold Fits; exact inferInstance

theorem confine_fits' (c : CornerRadii) (bb : Sz) : (c.confine bb).Fits bb := by
  obtain ⟨hpos, hle, hs⟩ := factor_spec c bb
  have s1 := hs (bb.w, c.tl.w + c.tr.w) (by simp [sides])
  have s2 := hs (bb.h, c.tr.h + c.br.h) (by simp [sides])
  have s3 := hs (bb.w, c.bl.w + c.br.w) (by simp [sides])
  have s4 := hs (bb.h, c.tl.h + c.bl.h) (by simp [sides])
  simp only at s1 s2 s3 s4
  unfold confine
  by_cases hlt : (c.factor bb).1 < (c.factor bb).2
  · simp only [hlt, ↓reduceIte]
    exact ⟨scale_pair_le hpos s1, scale_pair_le hpos s2, scale_pair_le hpos s3, scale_pair_le hpos s4⟩
  · simp only [hlt, ↓reduceIte]
    have he : (c.factor bb).1 = (c.factor bb).2 := by omega
    rw [he] at s1 s2 s3 s4
    unfold Fits
    refine ⟨?_, ?_, ?_, ?_⟩
    · rw [Nat.mul_comm] at s1; exact Nat.le_of_mul_le_mul_right s1 hpos
    · rw [Nat.mul_comm] at s2; exact Nat.le_of_mul_le_mul_right s2 hpos
    · rw [Nat.mul_comm] at s3; exact Nat.le_of_mul_le_mul_right s3 hpos
    · rw [Nat.mul_comm] at s4; exact Nat.le_of_mul_le_mul_right s4 hpos

theorem factor_of_fits (c : CornerRadii) (bb : Sz) (h : c.Fits bb) : c.factor bb = (1, 1) := by
  obtain ⟨h1, h2, h3, h4⟩ := h
  unfold factor sides
  simp only [List.foldl_cons, List.foldl_nil]
  have e1 : confineStep (1, 1) (bb.w, c.tl.w + c.tr.w) = (1, 1) := by
    unfold confineStep; simp only []; rw [if_neg (by omega)]
  rw [e1]
  have e2 : confineStep (1, 1) (bb.h, c.tr.h + c.br.h) = (1, 1) := by
    unfold confineStep; simp only []; rw [if_neg (by omega)]
  rw [e2]
  have e3 : confineStep (1, 1) (bb.w, c.bl.w + c.br.w) = (1, 1) := by
    unfold confineStep; simp only []; rw [if_neg (by omega)]
  rw [e3]
  unfold confineStep; simp only []; rw [if_neg (by omega)]

theorem confine_noop' (c : CornerRadii) (bb : Sz) (h : c.Fits bb) : c.confine bb = c := by
  unfold confine
  rw [factor_of_fits c bb h]
  simp

theorem confine_le' (c : CornerRadii) (bb : Sz) :
    (c.confine bb).tl.w ≤ c.tl.w ∧ (c.confine bb).tl.h ≤ c.tl.h ∧
    (c.confine bb).tr.w ≤ c.tr.w ∧ (c.confine bb).tr.h ≤ c.tr.h ∧
    (c.confine bb).br.w ≤ c.br.w ∧ (c.confine bb).br.h ≤ c.br.h ∧
    (c.confine bb).bl.w ≤ c.bl.w ∧ (c.confine bb).bl.h ≤ c.bl.h := by
  obtain ⟨_, hle, _⟩ := factor_spec c bb
  unfold confine
  by_cases hlt : (c.factor bb).1 < (c.factor bb).2
  · simp only [hlt, ↓reduceIte, scaleSz]
    exact ⟨scaleLength_le hle _, scaleLength_le hle _, scaleLength_le hle _, scaleLength_le hle _,
      scaleLength_le hle _, scaleLength_le hle _, scaleLength_le hle _, scaleLength_le hle _⟩
  · simp only [hlt, ↓reduceIte]
    exact ⟨Nat.le_refl _, Nat.le_refl _, Nat.le_refl _, Nat.le_refl _, Nat.le_refl _, Nat.le_refl _,
      Nat.le_refl _, Nat.le_refl _⟩

/-- `confine` is idempotent (its result fits). -/
theorem confine_confine (c : CornerRadii) (bb : Sz) :
    (c.confine bb).confine bb = c.confine bb :=
  confine_noop' _ bb (confine_fits' c bb)

/-- Every confined radius is at most the side it lies along. -/
theorem confine_radius_le (c : CornerRadii) (bb : Sz) :
    (c.confine bb).tl.w ≤ bb.w ∧ (c.confine bb).tl.h ≤ bb.h ∧
    (c.confine bb).tr.w ≤ bb.w ∧ (c.confine bb).tr.h ≤ bb.h ∧
    (c.confine bb).br.w ≤ bb.w ∧ (c.confine bb).br.h ≤ bb.h ∧
    (c.confine bb).bl.w ≤ bb.w ∧ (c.confine bb).bl.h ≤ bb.h := by
  have := confine_fits' c bb
  unfold Fits at this
  omega

end CornerRadii
end EG
