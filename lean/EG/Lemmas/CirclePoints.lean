/-
  EG.Lemmas.CirclePoints — the circle's scanline and point iterators equal their closed forms;
  `row_hits_interval`; `points() = bounding_box().points().filter(contains)`.
-/
import EG.Lemmas.Circle
namespace EG
namespace Circle

/-- No `u32 -> i32` saturation and no `i32` overflow in the bounding box (what the real code needs
anyway to avoid a panic in a checked build). -/
def InRange (c : Circle) : Prop := c.boundingBox.InRange
instance (c : Circle) : Decidable c.InRange := by unfold InRange; exact inferInstance

theorem scanlines_eq {c : Circle} (h : c.InRange) :
    c.scanlines = ⟨c.tl.y, c.tl.y + c.d, c.tl.x, c.tl.x + c.d, c.center2x, c.threshold⟩ := by
  unfold scanlines
  simp only [Rect.rowsEnd_eq h, Rect.columnsEnd_eq h]
  rfl

/-! ### `Scanlines`: closed form of what a `for` loop sees -/

theorem ScanlinesIt.toListFuel_eq : ∀ (fuel : Nat) (it : ScanlinesIt), (it.yEnd - it.y).toNat < fuel →
    it.toListFuel fuel = untilNone ((irange it.y it.yEnd).map it.row) := by
  intro fuel
  induction fuel with
  | zero => intro it h; omega
  | succ fuel ih =>
    intro it h
    unfold ScanlinesIt.toListFuel ScanlinesIt.next
    by_cases hy : it.y < it.yEnd
    · simp only [hy, ↓reduceIte]
      rw [irange_cons hy, List.map_cons]
      cases hr : it.row it.y with
      | none => simp only [untilNone]
      | some s =>
        simp only [untilNone]
        rw [ih _ (by dsimp only; omega)]
        rfl
    · simp only [hy, ↓reduceIte]
      rw [irange_empty (a := it.y) (b := it.yEnd) (by omega)]
      rfl

theorem ScanlinesIt.toList_eq (it : ScanlinesIt) :
    it.toList = untilNone ((irange it.y it.yEnd).map it.row) :=
  ScanlinesIt.toListFuel_eq _ it (by omega)

/-! ### `row_hits_interval` -/

/-- **`row_hits_interval`.** For a circle with `d ≥ 1` and a row `y` of its bounding box the
scanline iterator finds a hit (the early `None` never fires), and the scanline it builds —
"first hit .. columns.end shortened by the same amount" — is non-empty, lies within the columns,
is centred (the first hit's mirror is the last hit) and is exactly the set of accepted `x`. -/
theorem row_hits_interval {c : Circle} {y : Int} (h1 : c.tl.y ≤ y) (h2 : y < c.tl.y + c.d) :
    ∃ l u, mirroredRange (hit c.center2x c.threshold y) c.tl.x (c.tl.x + c.d) = some (l, u) ∧
      c.tl.x ≤ l ∧ l < u ∧ u ≤ c.tl.x + c.d ∧ l + u = c.tl.x + (c.tl.x + c.d) ∧
      (∀ x, c.contains ⟨x, y⟩ = true ↔ l ≤ x ∧ x < u) := by
  have hd : 1 ≤ c.d := by omega
  have hsc : SymConvex (hit c.center2x c.threshold y) c.tl.x (c.tl.x + c.d) :=
    hit_symConvex_row _ _ (by rw [center2x_x]; omega)
  cases hm : mirroredRange (hit c.center2x c.threshold y) c.tl.x (c.tl.x + c.d) with
  | none =>
    have := mirroredRange_none.mp hm (c.tl.x + ((c.d - 1) / 2 : Nat)) (by omega) (by omega)
    rw [← contains_eq_hit, center_col_hit h1 h2] at this
    cases this
  | some r =>
    obtain ⟨l, u⟩ := r
    obtain ⟨s1, s2, s3, s4, s5⟩ := mirroredRange_spec hsc hm
    refine ⟨l, u, rfl, s2, s4, s3, s5, ?_⟩
    intro x
    constructor
    · intro hx
      have hb := contains_imp_box hx
      simp only at hb
      rw [contains_eq_hit] at hx
      exact (s1 x hb.1 hb.2.1).mp hx
    · intro hx
      rw [contains_eq_hit]
      exact (s1 x (by omega) (by omega)).mpr hx

/-- Column version (the transpose). -/
theorem column_hits_interval {c : Circle} {x : Int} (h1 : c.tl.x ≤ x) (h2 : x < c.tl.x + c.d) :
    ∃ l u, c.tl.y ≤ l ∧ l < u ∧ u ≤ c.tl.y + c.d ∧ l + u = c.tl.y + (c.tl.y + c.d) ∧
      (∀ y, c.contains ⟨x, y⟩ = true ↔ l ≤ y ∧ y < u) := by
  have hd : 1 ≤ c.d := by omega
  have hsc : SymConvex (fun y => hit c.center2x c.threshold y x) c.tl.y (c.tl.y + c.d) :=
    hit_symConvex_col _ _ (by rw [center2x_y]; omega)
  cases hm : mirroredRange (fun y => hit c.center2x c.threshold y x) c.tl.y (c.tl.y + c.d) with
  | none =>
    have := mirroredRange_none.mp hm (c.tl.y + ((c.d - 1) / 2 : Nat)) (by omega) (by omega)
    rw [← contains_eq_hit, center_row_hit h1 h2] at this
    cases this
  | some r =>
    obtain ⟨l, u⟩ := r
    obtain ⟨s1, s2, s3, s4, s5⟩ := mirroredRange_spec hsc hm
    refine ⟨l, u, s2, s4, s3, s5, ?_⟩
    intro y
    constructor
    · intro hy
      have hb := contains_imp_box hy
      simp only at hb
      rw [contains_eq_hit] at hy
      exact (s1 y hb.2.2.1 hb.2.2.2).mp hy
    · intro hy
      rw [contains_eq_hit]
      exact (s1 y (by omega) (by omega)).mpr hy

/-! ### `Points`: closed form -/

/-- Concatenate scanlines as `Points::next` does: an empty scanline ends the stream. -/
def joinNonEmpty : List Scanline → List Pt
  | [] => []
  | s :: r => if s.xs < s.xe then s.points ++ joinNonEmpty r else []

/-- Closed form of what the iterator state still has to yield. -/
def PointsIt.rest (it : PointsIt) : List Pt :=
  it.current.points ++
    joinNonEmpty (untilNone ((irange it.scanlines.y it.scanlines.yEnd).map it.scanlines.row))

theorem PointsIt.next_spec (it : PointsIt) :
    match it.next with
    | some (p, it') => it.rest = p :: it'.rest
    | none => it.rest = [] := by
  unfold PointsIt.next Scanline.next
  by_cases hc : it.current.xs < it.current.xe
  · simp only [hc, ↓reduceIte]
    unfold PointsIt.rest
    rw [Scanline.points_cons hc]
    rfl
  · simp only [hc, ↓reduceIte]
    unfold PointsIt.rest ScanlinesIt.next
    rw [Scanline.points_empty hc, List.nil_append]
    by_cases hy : it.scanlines.y < it.scanlines.yEnd
    · simp only [hy, ↓reduceIte]
      rw [irange_cons hy, List.map_cons]
      cases hr : it.scanlines.row it.scanlines.y with
      | none => simp only [untilNone, joinNonEmpty]
      | some s =>
        simp only [untilNone, joinNonEmpty]
        by_cases hs : s.xs < s.xe
        · simp only [hs, ↓reduceIte]
          rw [Scanline.points_cons hs]
          rfl
        · simp only [hs, ↓reduceIte]
    · simp only [hy, ↓reduceIte]
      rw [irange_empty (a := it.scanlines.y) (b := it.scanlines.yEnd) (by omega)]
      rfl

theorem PointsIt.toListFuel_eq : ∀ (fuel : Nat) (it : PointsIt), it.rest.length < fuel →
    it.toListFuel fuel = it.rest := by
  intro fuel
  induction fuel with
  | zero => intro it h; omega
  | succ fuel ih =>
    intro it h
    unfold PointsIt.toListFuel
    have := it.next_spec
    split <;> rename_i heq <;> rw [heq] at this <;> simp only at this
    · rw [this] at h ⊢
      rw [ih _ (by simpa using h)]
    · exact this.symm

/-! ### `points() = bounding_box().points().filter(contains)` -/

theorem filter_flatMap' {α β : Type} (l : List α) (f : α → List β) (p : β → Bool) :
    (l.flatMap f).filter p = l.flatMap (fun a => (f a).filter p) := by
  induction l with
  | nil => rfl
  | cons a l ih => simp only [List.flatMap_cons, List.filter_append, ih]

/-- The rows of the box, joined, are the accepted points of each row. -/
theorem join_rows (c : Circle) : ∀ (ys : List Int), (∀ y ∈ ys, c.tl.y ≤ y ∧ y < c.tl.y + c.d) →
    joinNonEmpty (untilNone (ys.map
      (ScanlinesIt.row ⟨c.tl.y, c.tl.y + c.d, c.tl.x, c.tl.x + c.d, c.center2x, c.threshold⟩))) =
    ys.flatMap (fun y =>
      ((irange c.tl.x (c.tl.x + c.d)).map (fun x => (⟨x, y⟩ : Pt))).filter c.contains) := by
  intro ys
  induction ys with
  | nil => intro _; rfl
  | cons y ys ih =>
    intro h
    obtain ⟨hy1, hy2⟩ := h y List.mem_cons_self
    obtain ⟨l, u, hm, _, hlu, _, _, hall⟩ := row_hits_interval hy1 hy2
    have hsc : SymConvex (hit c.center2x c.threshold y) c.tl.x (c.tl.x + c.d) :=
      hit_symConvex_row _ _ (by rw [center2x_x]; omega)
    have hf := filter_irange_mirrored hsc hm
    simp only [List.map_cons, List.flatMap_cons]
    have hrow : ScanlinesIt.row ⟨c.tl.y, c.tl.y + c.d, c.tl.x, c.tl.x + c.d, c.center2x, c.threshold⟩ y =
        some ⟨y, l, u⟩ := by
      unfold ScanlinesIt.row
      simp only [hm, Option.map_some]
    rw [hrow]
    simp only [untilNone, joinNonEmpty, hlu, ↓reduceIte]
    rw [ih (fun z hz => h z (List.mem_cons_of_mem _ hz))]
    congr 1
    rw [List.filter_map]
    have : (c.contains ∘ fun x => (⟨x, y⟩ : Pt)) = hit c.center2x c.threshold y := by
      funext x; simp only [Function.comp]; exact contains_eq_hit c x y
    rw [this, hf]
    rfl

theorem pointsIt_rest {c : Circle} (h : c.InRange) :
    c.pointsIt.rest = c.boundingBox.points.filter c.contains := by
  unfold PointsIt.rest pointsIt
  rw [scanlines_eq h]
  simp only [Scanline.newEmpty]
  rw [Scanline.points_empty (by simp), List.nil_append, Rect.points_eq_spec]
  rw [join_rows c _ (by intro y hy; rw [mem_irange] at hy; exact hy)]
  unfold Rect.pointsSpec
  by_cases hz : c.boundingBox.isZeroSized = true
  · rw [if_pos hz]
    rw [Rect.isZeroSized_iff] at hz
    have : c.d = 0 := by simp only [boundingBox] at hz; omega
    rw [irange_empty (a := c.tl.y) (b := c.tl.y + c.d) (by omega)]
    rfl
  · rw [if_neg hz, filter_flatMap']
    have hr := Rect.rowsEnd_eq h
    have hc := Rect.columnsEnd_eq h
    unfold Rect.rowsEnd at hr; unfold Rect.columnsEnd at hc
    simp only [Rect.rows, Rect.columns, hr, hc]
    rfl

/-- **`points()` yields exactly the bounding-box points that `contains()` accepts, in the
bounding box's (row-major) order.** -/
theorem points_eq_filter {c : Circle} (h : c.InRange) :
    c.points = c.boundingBox.points.filter c.contains := by
  unfold points
  simp only
  rw [PointsIt.toListFuel_eq, pointsIt_rest h]
  rw [pointsIt_rest h]
  have h1 := List.length_filter_le c.contains c.boundingBox.points
  have h2 := Rect.points_length h
  have hb : c.pointsIt.budget = c.d * c.d := by
    unfold PointsIt.budget pointsIt
    rw [scanlines_eq h]
    simp only [Scanline.newEmpty]
    have e1 : (c.tl.y + (c.d : Int) - c.tl.y).toNat = c.d := by omega
    have e2 : (c.tl.x + (c.d : Int) - c.tl.x).toNat = c.d := by omega
    rw [e1, e2]
    simp
  rw [hb]
  simp only [boundingBox] at h1 h2 ⊢
  omega

end Circle
end EG
