/-
  EG.Lemmas.CircleStyled — stroke / fill areas of a styled circle and the exact pixel maps of
  `draw()` and `pixels()`.
-/
import EG.Lemmas.CirclePoints
import EG.Lemmas.ScanlinePaths
namespace EG

/-! ### split of the stroke width -/
namespace PrimStyle

theorem satAsI32_nonneg (n : Nat) : 0 ≤ satAsI32 n := by unfold satAsI32; split <;> omega

theorem width_split (s : PrimStyle) (h : s.strokeWidth < 4294967295) :
    s.insideStrokeWidth + s.outsideStrokeWidth = s.strokeWidth := by
  unfold insideStrokeWidth outsideStrokeWidth satAddU32
  cases s.strokeAlignment <;> simp only <;> (try split) <;> omega

theorem zero_width_offsets (s : PrimStyle) (h : s.strokeWidth = 0) :
    s.strokeOffset = 0 ∧ s.fillOffset = 0 := by
  unfold strokeOffset fillOffset insideStrokeWidth outsideStrokeWidth satAddU32 satAsI32
  rw [h]
  cases s.strokeAlignment <;> simp

end PrimStyle

namespace Circle

/-! ### `offset` -/

theorem offset_d (c : Circle) (o : Int) :
    (c.offset o).d = if o ≥ 0 then satAddU32 c.d (2 * o.toNat) else c.d - 2 * (-o).toNat := by
  unfold offset; split <;> rfl

theorem offset_nonneg (c : Circle) (o : Int) (h : o ≥ 0) :
    c.offset o = ⟨c.tl - ⟨o, o⟩, satAddU32 c.d (2 * o.toNat)⟩ := by unfold offset; rw [if_pos h]
theorem offset_neg (c : Circle) (o : Int) (h : ¬ o ≥ 0) :
    c.offset o = withCenter c.center (c.d - 2 * (-o).toNat) := by unfold offset; rw [if_neg h]

theorem withCenter_tl_x (c : Circle) (d' : Nat) :
    (withCenter c.center d').tl.x = c.tl.x + (((c.d - 1) / 2 : Nat) : Int) - (((d' - 1) / 2 : Nat) : Int) := rfl
theorem withCenter_tl_y (c : Circle) (d' : Nat) :
    (withCenter c.center d').tl.y = c.tl.y + (((c.d - 1) / 2 : Nat) : Int) - (((d' - 1) / 2 : Nat) : Int) := rfl
theorem withCenter_d (p : Pt) (d' : Nat) : (withCenter p d').d = d' := rfl

/-- Re-centring on the same centre with a diameter of the same parity keeps `center_2x`. -/
theorem withCenter_center2x (c : Circle) (d' : Nat) (h1 : 1 ≤ c.d) (h2 : 1 ≤ d')
    (hp : d' % 2 = c.d % 2) : (withCenter c.center d').center2x = c.center2x := by
  rw [Pt.ext_iff']
  rw [center2x_x, center2x_y, center2x_x, center2x_y, withCenter_tl_x, withCenter_tl_y, withCenter_d]
  constructor <;> omega

/-- **`offset` by `k ≥ 0` grows the circle by `k` on every side** (no `u32` saturation). -/
theorem offset_grow (c : Circle) (k : Nat) (_hd : 1 ≤ c.d) (hs : c.d + 2 * k ≤ 4294967295) :
    c.offset (k : Int) = ⟨⟨c.tl.x - k, c.tl.y - k⟩, c.d + 2 * k⟩ := by
  rw [offset_nonneg c k (by omega)]
  simp only [Circle.mk.injEq, Pt.ext_iff', Pt.sub_x, Pt.sub_y, Int.toNat_natCast, satAddU32]
  rw [if_pos (by omega)]
  simp

/-- **`offset` by `-k` shrinks the circle by `k` on every side** as long as something is left;
otherwise the diameter saturates at 0. -/
theorem offset_shrink (c : Circle) (k : Nat) (hk : 1 ≤ k) (hd : 2 * k < c.d) :
    c.offset (-(k : Int)) = ⟨⟨c.tl.x + k, c.tl.y + k⟩, c.d - 2 * k⟩ := by
  have hd' : (c.offset (-(k : Int))).d = c.d - 2 * k := by
    rw [offset_d, if_neg (by omega)]
    omega
  have e : c.offset (-(k : Int)) = withCenter c.center (c.d - 2 * k) := by
    rw [offset_neg c _ (by omega)]
    simp only [Int.neg_neg, Int.toNat_natCast]
  rw [e]
  unfold withCenter
  simp only [Circle.mk.injEq, Pt.ext_iff', and_true]
  have hx := withCenter_tl_x c (c.d - 2 * k)
  have hy := withCenter_tl_y c (c.d - 2 * k)
  unfold withCenter at hx hy
  simp only at hx hy
  rw [hx, hy]
  constructor <;> omega

theorem offset_shrink_collapse (c : Circle) (k : Nat) (hk : 1 ≤ k) (hd : c.d ≤ 2 * k) :
    (c.offset (-(k : Int))).d = 0 := by
  rw [offset_d, if_neg (by omega)]
  omega

theorem offset_zero (c : Circle) (h : c.d ≤ 4294967295) : c.offset 0 = c := by
  rw [offset_nonneg c 0 (by omega)]
  cases c with
  | mk tl d =>
    simp only [Circle.mk.injEq, Pt.ext_iff', Pt.sub_x, Pt.sub_y, Int.toNat_zero, Nat.mul_zero,
      satAddU32, Nat.add_zero]
    rw [if_pos h]
    exact ⟨⟨by omega, by omega⟩, rfl⟩

/-- `offset` keeps `center_2x` whenever the circle and its offset are not empty (and the grown
diameter does not saturate). -/
theorem offset_center2x (c : Circle) (o : Int) (h1 : 1 ≤ c.d) (h2 : 1 ≤ (c.offset o).d)
    (hs : o ≥ 0 → (c.offset o).d = c.d + 2 * o.toNat) : (c.offset o).center2x = c.center2x := by
  by_cases h : o ≥ 0
  · have hd := hs h
    rw [Pt.ext_iff', center2x_x, center2x_y, center2x_x, center2x_y, hd]
    rw [offset_nonneg c o h]
    simp only [Pt.sub_x, Pt.sub_y]
    constructor <;> omega
  · rw [offset_neg c o h] at h2 ⊢
    rw [withCenter_d] at h2
    exact withCenter_center2x c _ h1 h2 (by omega)

/-! ### stroke area and fill area -/

theorem strokeArea_d {st : PrimStyle} {c : Circle} (hS : (c.strokeArea st).InRange) :
    (c.strokeArea st).d = c.d + 2 * st.strokeOffset.toNat := by
  have hle := Rect.InRange.w_le hS
  have h0 := PrimStyle.satAsI32_nonneg st.outsideStrokeWidth
  unfold strokeArea at hle ⊢
  simp only [boundingBox] at hle
  rw [offset_d] at hle ⊢
  unfold PrimStyle.strokeOffset at hle ⊢
  rw [if_pos (by omega)] at hle ⊢
  unfold satAddU32 at hle ⊢
  split at hle <;> rename_i hc
  · rw [if_pos hc]
  · omega

theorem fillArea_d {st : PrimStyle} {c : Circle} (hF : (c.fillArea st).InRange) :
    (c.fillArea st).d = c.d - 2 * (-st.fillOffset).toNat := by
  have hle := Rect.InRange.w_le hF
  have h0 := PrimStyle.satAsI32_nonneg st.insideStrokeWidth
  unfold fillArea at hle ⊢
  simp only [boundingBox] at hle
  rw [offset_d] at hle ⊢
  unfold PrimStyle.fillOffset at hle ⊢
  by_cases hz : satAsI32 st.insideStrokeWidth = 0
  · rw [hz] at hle ⊢
    simp only [Int.neg_zero, ge_iff_le, Int.le_refl, ↓reduceIte, Int.toNat_zero, Nat.mul_zero,
      Nat.sub_zero] at hle ⊢
    unfold satAddU32 at hle ⊢
    split at hle <;> rename_i hc
    · rw [if_pos hc]; omega
    · omega
  · rw [if_neg (by omega)] at hle ⊢

/-- The fill area is not larger than the stroke area, and (when it is not empty) has the same
`center_2x`: the scanline code may use the stroke area's centre with the fill threshold. -/
theorem areas_rel {st : PrimStyle} {c : Circle} (hS : (c.strokeArea st).InRange)
    (hF : (c.fillArea st).InRange) :
    (c.fillArea st).d ≤ (c.strokeArea st).d ∧
      (1 ≤ (c.fillArea st).d → (c.fillArea st).center2x = (c.strokeArea st).center2x) := by
  have hs := strokeArea_d hS
  have hf := fillArea_d hF
  refine ⟨by omega, ?_⟩
  intro h1
  have hF2 : (c.fillArea st).center2x = c.center2x := by
    unfold fillArea at h1 hf ⊢
    apply offset_center2x c _ (by omega) h1
    intro hge
    have : st.fillOffset = 0 := by
      have := PrimStyle.satAsI32_nonneg st.insideStrokeWidth
      unfold PrimStyle.fillOffset at hge ⊢; omega
    rw [hf, this]; simp
  have hS2 : (c.strokeArea st).center2x = c.center2x := by
    unfold strokeArea at hs ⊢
    apply offset_center2x c _ (by omega) (by rw [hs]; omega)
    intro _; exact hs
  rw [hF2, hS2]

theorem areas_eq_of_zero_width {st : PrimStyle} (c : Circle) (h : st.strokeWidth = 0) :
    c.strokeArea st = c.fillArea st := by
  unfold strokeArea fillArea
  rw [(st.zero_width_offsets h).1, (st.zero_width_offsets h).2]

/-! ### the scanlines a `for` loop sees -/

/-- What is true of every scanline the iterator yields for circle `c`. -/
structure ScanOK (c : Circle) (s : Scanline) : Prop where
  inbox : c.tl.x ≤ s.xs ∧ s.xs < s.xe ∧ s.xe ≤ c.tl.x + c.d ∧ c.tl.y ≤ s.y ∧ s.y < c.tl.y + c.d
  centred : s.xs + s.xe = c.tl.x + (c.tl.x + c.d)
  hits : ∀ x, c.contains ⟨x, s.y⟩ = true ↔ s.xs ≤ x ∧ x < s.xe

theorem scanlines_toList_eq {c : Circle} (h : c.InRange) :
    c.scanlines.toList = (irange c.tl.y (c.tl.y + c.d)).map
      (fun y => (c.scanlines.row y).getD default) := by
  rw [ScanlinesIt.toList_eq]
  have e := scanlines_eq h
  have ey : c.scanlines.y = c.tl.y := by rw [e]
  have eye : c.scanlines.yEnd = c.tl.y + c.d := by rw [e]
  rw [ey, eye]
  apply untilNone_map_some
  intro y hy
  rw [mem_irange] at hy
  obtain ⟨l, u, hm, _⟩ := row_hits_interval hy.1 hy.2
  rw [e]
  unfold ScanlinesIt.row
  simp only [hm, Option.map_some, Option.getD_some]

theorem row_scanOK {c : Circle} (h : c.InRange) {y : Int} (h1 : c.tl.y ≤ y) (h2 : y < c.tl.y + c.d) :
    ((c.scanlines.row y).getD default).y = y ∧ ScanOK c ((c.scanlines.row y).getD default) := by
  obtain ⟨l, u, hm, a1, a2, a3, a4, a5⟩ := row_hits_interval h1 h2
  rw [scanlines_eq h]
  unfold ScanlinesIt.row
  simp only [hm, Option.map_some, Option.getD_some]
  exact ⟨by first | rfl | trivial, ⟨⟨a1, a2, a3, h1, h2⟩, a4, a5⟩⟩

theorem scan_ok {c : Circle} (h : c.InRange) : ∀ s ∈ c.scanlines.toList, ScanOK c s := by
  intro s hs
  rw [scanlines_toList_eq h, List.mem_map] at hs
  obtain ⟨y, hy, rfl⟩ := hs
  rw [mem_irange] at hy
  exact (row_scanOK h hy.1 hy.2).2

theorem scan_cover {c : Circle} (h : c.InRange) (y : Int) (h1 : c.tl.y ≤ y) (h2 : y < c.tl.y + c.d) :
    ∃ s ∈ c.scanlines.toList, s.y = y := by
  refine ⟨(c.scanlines.row y).getD default, ?_, (row_scanOK h h1 h2).1⟩
  rw [scanlines_toList_eq h, List.mem_map]
  exact ⟨y, mem_irange.mpr ⟨h1, h2⟩, rfl⟩

theorem ScanOK.wf {c : Circle} {s : Scanline} (h : c.InRange) (hs : ScanOK c s) : s.WF := by
  obtain ⟨⟨a1, a2, a3, a4, a5⟩, _, _⟩ := hs
  unfold InRange Rect.InRange inI32 boundingBox at h
  simp only at h
  unfold Scanline.WF Rect.InRange inI32
  simp only
  omega

/-! ### the styled scanlines a `for` loop sees -/

theorem StyledScanlinesIt.toListFuel_eq : ∀ (fuel : Nat) (it : StyledScanlinesIt),
    it.toListFuel fuel = (it.scanlines.toListFuel fuel).map it.style := by
  intro fuel
  induction fuel with
  | zero => intro it; rfl
  | succ fuel ih =>
    intro it
    unfold StyledScanlinesIt.toListFuel StyledScanlinesIt.next ScanlinesIt.toListFuel
    cases hn : it.scanlines.next with
    | mk o sl' =>
      cases o with
      | none => rfl
      | some s =>
        simp only [List.map_cons]
        rw [ih]
        have : sl'.center2x = it.scanlines.center2x := by
          unfold ScanlinesIt.next at hn
          split at hn
          · simp only [Prod.mk.injEq] at hn; rw [← hn.2]
          · simp only [Prod.mk.injEq] at hn; cases hn.1
        congr 1
        congr 1
        unfold StyledScanlinesIt.style
        simp only [this]

theorem StyledScanlinesIt.toList_eq (it : StyledScanlinesIt) :
    it.toList = it.scanlines.toList.map it.style :=
  StyledScanlinesIt.toListFuel_eq _ it

/-- What is true of every styled scanline the iterator yields for stroke area `S`, fill area `F`. -/
structure RowOK (S F : Circle) (l : StyledScanline) : Prop where
  order : l.ss ≤ l.fs ∧ l.fs ≤ l.fe ∧ l.fe ≤ l.se
  inbox : S.tl.x ≤ l.ss ∧ l.se ≤ S.tl.x + S.d ∧ S.tl.y ≤ l.y ∧ l.y < S.tl.y + S.d
  stroke : ∀ x, S.contains ⟨x, l.y⟩ = true ↔ l.ss ≤ x ∧ x < l.se
  fill : ∀ x, F.contains ⟨x, l.y⟩ = true ↔ l.fs ≤ x ∧ x < l.fe

theorem style_ok {S F : Circle} {s : Scanline} (hs : ScanOK S s) (hd : F.d ≤ S.d)
    (hc : 1 ≤ F.d → F.center2x = S.center2x) :
    ((styledScanlines S F).style s).y = s.y ∧ RowOK S F ((styledScanlines S F).style s) := by
  obtain ⟨⟨a1, a2, a3, a4, a5⟩, hcen, hhits⟩ := hs
  have hSd : 1 ≤ S.d := by omega
  have hsc : SymConvex (hit S.center2x F.threshold s.y) s.xs s.xe :=
    hit_symConvex_row _ _ (by rw [center2x_x]; omega)
  -- the fill test implies the stroke test
  have hFS : ∀ x, hit S.center2x F.threshold s.y x = true → s.xs ≤ x ∧ x < s.xe := by
    intro x hx
    rw [← hhits, contains_eq_hit]
    rw [hit_iff] at hx ⊢
    have := threshold_mono hd
    unfold threshold at hx ⊢
    omega
  -- the fill test is `F.contains`
  have hFc : ∀ x, F.contains ⟨x, s.y⟩ = hit S.center2x F.threshold s.y x := by
    intro x
    by_cases h1 : 1 ≤ F.d
    · rw [contains_eq_hit, hc h1]
    · have h0 : F.d = 0 := by omega
      rw [contains_false_of_zero h0]
      symm
      rw [Bool.eq_false_iff]
      intro hx
      rw [hit_iff] at hx
      have := dist2_nonneg S.center2x ⟨x, s.y⟩
      unfold threshold at hx
      rw [h0, threshold_zero] at hx
      omega
  have hst : (styledScanlines S F).style s = StyledScanline.new s.y s.xs s.xe
      (mirroredRange (hit S.center2x F.threshold s.y) s.xs s.xe) := rfl
  rw [hst]
  cases hm : mirroredRange (hit S.center2x F.threshold s.y) s.xs s.xe with
  | none =>
    simp only [StyledScanline.new]
    refine ⟨by first | rfl | trivial, ?_⟩
    constructor
    · dsimp only; omega
    · dsimp only; exact ⟨a1, a3, a4, a5⟩
    · dsimp only; exact hhits
    · intro x
      dsimp only
      rw [hFc]
      constructor
      · intro hx
        have hb := hFS x hx
        rw [mirroredRange_none.mp hm x hb.1 hb.2] at hx
        cases hx
      · intro hx; omega
  | some r =>
    obtain ⟨fl, fu⟩ := r
    obtain ⟨s1, s2, s3, s4, _⟩ := mirroredRange_spec hsc hm
    simp only [StyledScanline.new]
    refine ⟨by first | rfl | trivial, ?_⟩
    constructor
    · dsimp only; omega
    · dsimp only; exact ⟨a1, a3, a4, a5⟩
    · dsimp only; exact hhits
    · intro x
      dsimp only
      rw [hFc]
      constructor
      · intro hx
        have hb := hFS x hx
        exact (s1 x hb.1 hb.2).mp hx
      · intro hx
        exact (s1 x (by omega) (by omega)).mpr hx

theorem RowOK.wf {S F : Circle} {l : StyledScanline} (h : S.InRange) (hl : RowOK S F l) : l.WF := by
  obtain ⟨⟨o1, o2, o3⟩, ⟨b1, b2, b3, b4⟩, _, _⟩ := hl
  unfold InRange Rect.InRange inI32 boundingBox at h
  simp only at h
  unfold StyledScanline.WF Scanline.WF Rect.InRange inI32 StyledScanline.strokeLeft
    StyledScanline.fill StyledScanline.strokeRight
  simp only
  omega

section lines
variable {S F : Circle} (hS : S.InRange) (hd : F.d ≤ S.d) (hc : 1 ≤ F.d → F.center2x = S.center2x)
include hS hd hc

theorem lines_ok : ∀ l ∈ (styledScanlines S F).toList, RowOK S F l := by
  intro l hl
  rw [StyledScanlinesIt.toList_eq, List.mem_map] at hl
  obtain ⟨s, hs, rfl⟩ := hl
  exact (style_ok (scan_ok hS s hs) hd hc).2

theorem lines_cover (y : Int) (h1 : S.tl.y ≤ y) (h2 : y < S.tl.y + S.d) :
    ∃ l ∈ (styledScanlines S F).toList, l.y = y := by
  obtain ⟨s, hs, hy⟩ := scan_cover hS y h1 h2
  refine ⟨(styledScanlines S F).style s, ?_, ?_⟩
  · rw [StyledScanlinesIt.toList_eq, List.mem_map]; exact ⟨s, hs, rfl⟩
  · rw [(style_ok (scan_ok hS s hs) hd hc).1, hy]

/-- Membership in the coloured points of the styled scanlines, in terms of the two areas. -/
theorem mem_lines_iff (scol fcol : Option Color) (p : Pt) (col : Color) :
    (p, col) ∈ pixelsSpec scol fcol (styledScanlines S F).toList ↔
      (F.contains p = true ∧ fcol = some col) ∨
      (S.contains p = true ∧ F.contains p = false ∧ scol = some col) := by
  rw [mem_pixelsSpec]
  constructor
  · rintro ⟨l, hl, hm⟩
    obtain ⟨⟨o1, o2, o3⟩, _, hst, hfi⟩ := lines_ok hS hd hc l hl
    rw [StyledScanline.mem_pixelsSpec] at hm
    obtain ⟨hy, hm⟩ := hm
    have hp : p = ⟨p.x, l.y⟩ := by rw [← hy]
    rcases hm with ⟨hcol, hx⟩ | ⟨hcol, hx⟩
    · right
      refine ⟨?_, ?_, hcol⟩
      · rw [hp, hst]; omega
      · rw [hp, Bool.eq_false_iff, Ne, hfi]; omega
    · left
      exact ⟨by rw [hp, hfi]; exact hx, hcol⟩
  · intro h
    have hSc : S.contains p = true := by
      rcases h with ⟨hf, _⟩ | ⟨hs, _⟩
      · -- a fill point is a stroke-area point: it lies in a row of `S`, inside the fill range
        by_cases hF1 : 1 ≤ F.d
        · rw [contains_iff] at hf ⊢
          rw [hc hF1] at hf
          have := threshold_mono hd
          unfold threshold at hf ⊢
          omega
        · rw [contains_false_of_zero (by omega)] at hf; cases hf
      · exact hs
    have hb := contains_imp_box hSc
    obtain ⟨l, hl, hy⟩ := lines_cover hS hd hc p.y hb.2.2.1 hb.2.2.2
    obtain ⟨⟨o1, o2, o3⟩, _, hst, hfi⟩ := lines_ok hS hd hc l hl
    have hp : p = ⟨p.x, l.y⟩ := by rw [hy]
    refine ⟨l, hl, ?_⟩
    rw [StyledScanline.mem_pixelsSpec]
    refine ⟨hy.symm, ?_⟩
    rw [hp, hst] at hSc
    rcases h with ⟨hf, hcol⟩ | ⟨_, hf, hcol⟩
    · right
      rw [hp, hfi] at hf
      exact ⟨hcol, hf⟩
    · left
      rw [hp, Bool.eq_false_iff, Ne, hfi] at hf
      exact ⟨hcol, by omega⟩

end lines

/-- Membership in the fill-only draw path's writes. -/
theorem mem_fill_lines_iff {F : Circle} (hF : F.InRange) (fc : Color) (p : Pt) (col : Color) :
    (p, col) ∈ F.scanlines.toList.flatMap (fun l => l.points.map (fun q => (q, fc))) ↔
      F.contains p = true ∧ fc = col := by
  simp only [List.mem_flatMap, List.mem_map, Prod.mk.injEq]
  constructor
  · rintro ⟨s, hs, q, hq, rfl, rfl⟩
    obtain ⟨_, _, hhits⟩ := scan_ok hF s hs
    rw [Scanline.mem_points] at hq
    refine ⟨?_, rfl⟩
    have hp : q = ⟨q.x, s.y⟩ := by rw [← hq.1]
    rw [hp, hhits]; exact hq.2
  · rintro ⟨hf, rfl⟩
    have hb := contains_imp_box hf
    obtain ⟨s, hs, hy⟩ := scan_cover hF p.y hb.2.2.1 hb.2.2.2
    obtain ⟨_, _, hhits⟩ := scan_ok hF s hs
    refine ⟨s, hs, p, ?_, rfl, rfl⟩
    rw [Scanline.mem_points]
    refine ⟨hy.symm, ?_⟩
    have hp : p = ⟨p.x, s.y⟩ := by rw [hy]
    rw [hp, hhits] at hf
    exact hf

/-! ### the exact pixel maps -/

/-- The colour the property text prescribes for point `p` (before clipping to the target). -/
def styledExpected (st : PrimStyle) (c : Circle) (p : Pt) : Option Color :=
  if (c.fillArea st).contains p = true then st.fillColor
  else if (c.strokeArea st).contains p = true ∧ st.strokeWidth > 0 then st.strokeColor
  else none

theorem styledExpected_eq_some (st : PrimStyle) (c : Circle) (p : Pt) (col : Color) :
    styledExpected st c p = some col ↔
      ((c.fillArea st).contains p = true ∧ st.fillColor = some col) ∨
      ((c.strokeArea st).contains p = true ∧ (c.fillArea st).contains p = false ∧
        st.strokeWidth > 0 ∧ st.strokeColor = some col) := by
  unfold styledExpected
  by_cases hf : (c.fillArea st).contains p = true
  · simp [hf]
  · have hf' : (c.fillArea st).contains p = false := by simpa using hf
    by_cases hs : (c.strokeArea st).contains p = true ∧ st.strokeWidth > 0
    · simp [hf', hs]
    · simp only [hf', Bool.false_eq_true, ↓reduceIte, hs, false_and, false_or, true_and]
      constructor
      · intro h; cases h
      · rintro ⟨h1, h2, _⟩; exact absurd ⟨h1, h2⟩ hs

section exact
variable {st : PrimStyle} {c : Circle} (hS : (c.strokeArea st).InRange) (hF : (c.fillArea st).InRange)
include hS hF

/-- Membership in the (unclipped, natively lowered) writes of `draw()`. -/
theorem mem_draw_iff (B : Rect) (p : Pt) (col : Color) :
    (p, col) ∈ (c.drawStyled st).flatMap (Call.lowerNative B) ↔ styledExpected st c p = some col := by
  obtain ⟨hd, hc⟩ := areas_rel hS hF
  rw [styledExpected_eq_some]
  unfold drawStyled PrimStyle.effectiveStrokeColor
  cases hsc : st.strokeColor with
  | none =>
    cases hfc : st.fillColor with
    | none => simp
    | some fc =>
      simp only
      rw [drawFillLines_lowerNative fc _ (fun l hl => (scan_ok hF l hl).wf hF), mem_fill_lines_iff hF]
      simp
  | some sc =>
    by_cases hw : st.strokeWidth > 0
    · simp only [hw, ↓reduceIte]
      cases hfc : st.fillColor with
      | none =>
        simp only
        rw [drawLines_lowerNative sc none _ (fun l hl => (lines_ok hS hd hc l hl).wf hS),
          mem_lines_iff hS hd hc]
        simp
      | some fc =>
        simp only
        rw [drawLines_lowerNative sc (some fc) _ (fun l hl => (lines_ok hS hd hc l hl).wf hS),
          mem_lines_iff hS hd hc]
        simp
    · simp only [hw, ↓reduceIte]
      cases hfc : st.fillColor with
      | none => simp
      | some fc =>
        simp only
        rw [drawFillLines_lowerNative fc _ (fun l hl => (scan_ok hF l hl).wf hF), mem_fill_lines_iff hF]
        simp

/-- Membership in the pixels of `pixels()`. -/
theorem mem_pixels_iff (p : Pt) (col : Color) :
    (p, col) ∈ c.styledPixels st ↔ styledExpected st c p = some col := by
  obtain ⟨hd, hc⟩ := areas_rel hS hF
  rw [styledExpected_eq_some]
  unfold styledPixels styledPixelsIt
  rw [StyledPixelsIt.toList_new, mem_lines_iff hS hd hc]
  by_cases hw : st.strokeWidth > 0
  · simp [hw]
  · have h0 : st.strokeWidth = 0 := by omega
    rw [areas_eq_of_zero_width c h0]
    simp only [hw, false_and, and_false, or_false]
    constructor
    · rintro (h | ⟨h1, h2, _⟩)
      · exact h
      · rw [h1] at h2; cases h2
    · intro h; exact Or.inl h

end exact

/-- The fill area lies inside the stroke area. -/
theorem fill_subset_stroke {st : PrimStyle} {c : Circle} (hS : (c.strokeArea st).InRange)
    (hF : (c.fillArea st).InRange) {p : Pt} (h : (c.fillArea st).contains p = true) :
    (c.strokeArea st).contains p = true := by
  obtain ⟨hd, hc⟩ := areas_rel hS hF
  by_cases hF1 : 1 ≤ (c.fillArea st).d
  · rw [contains_iff] at h ⊢
    rw [hc hF1] at h
    have := threshold_mono hd
    unfold threshold at h ⊢
    omega
  · rw [contains_false_of_zero (by omega)] at h; cases h

/-- With an `Inside` stroke the stroke area is the circle itself; with an `Outside` stroke the fill
area is. -/
theorem strokeArea_inside {st : PrimStyle} (c : Circle) (h : st.strokeAlignment = .inside)
    (hd : c.d ≤ 4294967295) : c.strokeArea st = c := by
  unfold strokeArea PrimStyle.strokeOffset PrimStyle.outsideStrokeWidth
  rw [h]
  exact offset_zero c hd

theorem fillArea_outside {st : PrimStyle} (c : Circle) (h : st.strokeAlignment = .outside)
    (hd : c.d ≤ 4294967295) : c.fillArea st = c := by
  unfold fillArea PrimStyle.fillOffset PrimStyle.insideStrokeWidth
  rw [h]
  exact offset_zero c hd

end Circle
end EG
