/-
  EG.Lemmas.ThickGeoDiscount — the band of a stroked line once the SKIPPED `Extra` perpendicular
  steps are discounted, for every line and every width (the mechanism of the known finding
  `C17:thick-band:wide-stroke-overcount`, made exact).

  Counting (EG.Lemmas.ThickSkip): on each side, with `N` / `E` the `Normal` / `Extra` parallels
  returned so far and `S` the `Extra` steps skipped so far,
      walker error (left)   = 2 d (N + 1) - 2 D (E + S)        (right: -2 d N + 2 D (E + S))
      parallel error        = +-(2 d (E + S) - 2 D E)
      accumulator           = D + d + 2 D (N_L + N_R) + 2 d (E_L + E_R)
  and the geometric invariant `NInv` (EG.Lemmas.ThickGeoRun) bounds all four errors by about `D`.
  Hence `2 D E = 2 d (E + S) + O(D)` on each side: a pixel of the `n`-th band of a side, at
  `|2 cross| <= 2 D n + D = 2 D N + 2 D E + D`, satisfies
      |2 cross| - 2 d S  <=  2 D N + 2 d E + D - (+-err)  =  (the side's share of the accumulator) + D - (+-err),
  and the two shares differ by `2 (D - d) z`, `z` = the difference of the numbers of `Extra` parallels
  of the two sides: `|z| <= 1` because both numbers are `d^2 n / L2 + O(1)` (an exact identity, see
  `disc_left` / `disc_right`), and `|z| = 1` forces the parallel error to the favourable end.
  With the accumulator `A <= 2 w L` at the moment the parallel is fetched:
      2 (|2 cross| - 2 d S(side))  <=  A + 5 D - d.
-/
import EG.Lemmas.ThickSkip
import EG.Lemmas.ThickGeoBand
set_option linter.unusedSimpArgs false
set_option linter.unnecessarySeqFocus false
namespace EG
namespace Thick
open ParallelsIterator StrokeCtx Line

/-- `1` for an `Extra` parallel, `0` for a `Normal` one. -/
def exTy : ParallelLineType → Int
  | .normal => 0
  | .extra => 1

theorem exTy_cases (ty : ParallelLineType) : exTy ty = 0 ∨ exTy ty = 1 := by
  cases ty <;> simp [exTy]

/-- **One call of `next` that yields a parallel, counted**: `k = skipsFuel loopFuel it side` skipped
`Extra` steps, then one returned point. -/
theorem next_counts (c : StrokeCtx) (it it' : ParallelsIterator) (b : Bresenham)
    (ty : ParallelLineType) (hperp : it.perpendicularParameters = c.perp)
    (hpp : it.parallelParameters = c.pp) (h : it.next = some (some (b, ty), it')) :
    it'.flip = it.flip ∧
    (it.nextSide = .left →
      it'.left.error = it.left.error + 2 * c.d * (1 - exTy ty) -
        2 * c.D * ((skipsFuel loopFuel it .left : Int) + exTy ty) ∧
      it'.leftError = it.leftError + sgL it.flip *
        (2 * c.d * ((skipsFuel loopFuel it .left : Int) + exTy ty) - 2 * c.D * exTy ty) ∧
      it'.right = it.right ∧ it'.rightError = it.rightError) ∧
    (it.nextSide = .right →
      it'.right.error = it.right.error - 2 * c.d * (1 - exTy ty) +
        2 * c.D * ((skipsFuel loopFuel it .right : Int) + exTy ty) ∧
      it'.rightError = it.rightError + sgR it.flip *
        (2 * c.d * ((skipsFuel loopFuel it .right : Int) + exTy ty) - 2 * c.D * exTy ty) ∧
      it'.left = it.left ∧ it'.leftError = it.leftError) := by
  unfold ParallelsIterator.next at h
  split at h
  · simp at h
  · cases hnp : it.nextParallel it.nextSide with
    | none => rw [hnp] at h; simp at h
    | some v =>
      obtain ⟨⟨point, error⟩, it1⟩ := v
      rw [hnp] at h
      unfold ParallelsIterator.nextParallel at hnp
      have key : it'.left = it1.left ∧ it'.leftError = it1.leftError ∧ it'.right = it1.right ∧
          it'.rightError = it1.rightError ∧ it'.flip = it1.flip ∧ exTy ty = exOf point := by
        cases point with
        | normal p =>
          simp only [Option.some.injEq, Prod.mk.injEq] at h
          obtain ⟨⟨-, rfl⟩, rfl⟩ := h
          split <;> exact ⟨rfl, rfl, rfl, rfl, rfl, rfl⟩
        | extra p =>
          simp only [Option.some.injEq, Prod.mk.injEq] at h
          obtain ⟨⟨-, rfl⟩, rfl⟩ := h
          split <;> exact ⟨rfl, rfl, rfl, rfl, rfl, rfl⟩
      obtain ⟨k1, k2, k3, k4, k5, k6⟩ := key
      cases hs : it.nextSide with
      | left =>
        rw [hs] at hnp
        obtain ⟨r1, r2, r3, r4, r5⟩ := npf_left_counts c _ it _ _ _ hperp hpp hnp
        exact ⟨by rw [k5, r5], ⟨fun _ => ⟨by rw [k1, k6, r1], by rw [k2, k6, r2], by rw [k3, r3],
          by rw [k4, r4]⟩, fun hc => nomatch hc⟩⟩
      | right =>
        rw [hs] at hnp
        obtain ⟨r1, r2, r3, r4, r5⟩ := npf_right_counts c _ it _ _ _ hperp hpp hnp
        exact ⟨by rw [k5, r5], ⟨(fun hc => nomatch hc), fun _ => ⟨by rw [k3, k6, r1], by rw [k4, k6, r2],
          by rw [k1, r3], by rw [k2, r4]⟩⟩⟩

/-- The counting invariant of the iterator between two calls of `next` (see the file header). -/
structure CInv (c : StrokeCtx) (it : ParallelsIterator) (NL EL SL NR ER SR : Int) : Prop where
  wl : it.left.error = 2 * c.d * (NL + 1) - 2 * c.D * (EL + SL)
  el : it.leftError = sgL it.flip * (2 * c.d * (EL + SL) - 2 * c.D * EL)
  wr : it.right.error = -(2 * c.d * NR) + 2 * c.D * (ER + SR)
  er : it.rightError = sgR it.flip * (2 * c.d * (ER + SR) - 2 * c.D * ER)
  acc : it.thicknessAccumulator = c.D + c.d + 2 * c.D * (NL + NR) + 2 * c.d * (EL + ER)
  nn : 0 ≤ NL ∧ 0 ≤ EL ∧ 0 ≤ SL ∧ 0 ≤ NR ∧ 0 ≤ ER ∧ 0 ≤ SR

/-- The fresh iterator: nothing counted yet. -/
theorem new_cinv (l : Line) (t : Int) (it : ParallelsIterator)
    (h : ParallelsIterator.new l t .none = some it) : CInv (ctxOf l) it 0 0 0 0 0 0 := by
  obtain ⟨it', hnew, _, _, _, _, _, hl, hle, hr, hre, hacc, _⟩ := new_fields l t
  rw [h] at hnew
  simp only [Option.some.injEq] at hnew
  subst hnew
  refine ⟨by rw [hl]; show 2 * (ctxOf l).d = _; ring, by rw [hle]; ring, by rw [hr]; show (0 : Int) = _; ring,
    by rw [hre]; ring, by rw [hacc]; ring, by omega⟩

/-- The totals do not depend on the fuel. -/
theorem skipTotals_unique : ∀ (f g : Nat) (it : ParallelsIterator) (r r' : Nat × Nat),
    skipTotals f it = some r → skipTotals g it = some r' → r = r'
  | 0, _, _, _, _, h, _ => by simp [skipTotals] at h
  | _ + 1, 0, _, _, _, _, h => by simp [skipTotals] at h
  | f + 1, g + 1, it, r, r', h, h' => by
    unfold skipTotals at h h'
    cases hn : it.next with
    | none => rw [hn] at h; simp at h
    | some v =>
      obtain ⟨o, it'⟩ := v
      rw [hn] at h h'
      cases o with
      | none =>
        simp only [Option.some.injEq] at h h'
        rw [← h, ← h']
      | some x =>
        simp only at h h'
        cases h1 : skipTotals f it' with
        | none => rw [h1] at h; simp at h
        | some ab =>
          cases h2 : skipTotals g it' with
          | none => rw [h2] at h'; simp at h'
          | some ab' =>
            have := skipTotals_unique f g it' ab ab' h1 h2
            subst this
            rw [h1] at h
            rw [h2] at h'
            rw [h] at h'
            simpa using h'

/-! ### The arithmetic of the two sides -/

/-- Left side: a pixel of band `n = N_L + E_L` (the parallel just yielded). With `z = E_R - E_L`
(`= N_L - N_R`) the claim is `2 (D - d) z - 2 els <= 2 D`; the exact identity
`2 L2 z = d (wr + wl) - D (ers - els) - 2 d^2` gives `z <= 1`, and `z = 1` forces `els >= D - 2 d`. -/
theorem disc_left (D d NL EL SL NR ER SR wl els wr ers : Int) (hD : 0 < D) (hd0 : 0 ≤ d) (hdD : d ≤ D)
    (hwl : wl = 2 * d * (NL + 1) - 2 * D * (EL + SL)) (hels : els = 2 * d * (EL + SL) - 2 * D * EL)
    (hwr : wr = -(2 * d * NR) + 2 * D * (ER + SR)) (hers : ers = 2 * d * (ER + SR) - 2 * D * ER)
    (_b1 : -D < wl) (b2 : wl ≤ D + 2 * d) (b3 : -D ≤ els) (_b4 : els ≤ D) (_b5 : -D - 2 * d < wr)
    (b6 : wr ≤ D) (b7 : -D ≤ ers) (_b8 : ers ≤ D) (hn : NL + EL = NR + ER) :
    4 * D * (NL + EL) + 2 * D - 4 * d * SL ≤
      (D + d + 2 * D * (NL + NR) + 2 * d * (EL + ER)) + 3 * D - d := by
  have h4 : d * D ≤ D * D := Int.mul_le_mul_of_nonneg_right hdD (by omega)
  have h5 : 0 < D * D := Int.mul_pos hD hD
  have h6 : 0 ≤ d * d := Int.mul_nonneg hd0 hd0
  have hid : 2 * (D * D + d * d) * (ER - EL) = d * (wr + wl) - D * (ers - els) - 2 * (d * d) := by
    have : NL = NR + ER - EL := by omega
    rw [hwl, hels, hwr, hers, this]; ring
  have h1 : d * (wr + wl) ≤ d * (2 * D + 2 * d) := Int.mul_le_mul_of_nonneg_left (by omega) hd0
  have hz : ER - EL ≤ 1 := by
    by_contra hc
    have hz2 : 2 ≤ ER - EL := by omega
    have h2 : D * (els - ers) ≤ D * (2 * D) := Int.mul_le_mul_of_nonneg_left (by omega) (by omega)
    have h3 : 2 * (D * D + d * d) * 2 ≤ 2 * (D * D + d * d) * (ER - EL) :=
      Int.mul_le_mul_of_nonneg_left hz2 (by omega)
    nlinarith
  have h8 : 2 * els = 4 * d * EL + 4 * d * SL - 4 * D * EL := by rw [hels]; ring
  have h9 : NL - NR = ER - EL := by omega
  -- the claim in terms of `z = ER - EL`: 2 (D - d) z - 2 els <= 2 D
  suffices hf : 2 * ((D - d) * (ER - EL)) - 2 * els ≤ 2 * D by nlinarith
  by_cases hz1 : ER - EL = 1
  · -- z = 1: els >= D - 2 d
    rw [hz1] at hid ⊢
    have h2 : D * (-D) ≤ D * ers := Int.mul_le_mul_of_nonneg_left b7 (by omega)
    have hDe : D * (D - 2 * d) ≤ D * els := by nlinarith
    have := Int.le_of_mul_le_mul_left hDe hD
    omega
  · have hz0 : ER - EL ≤ 0 := by omega
    have h7 : (D - d) * (ER - EL) ≤ (D - d) * 0 := Int.mul_le_mul_of_nonneg_left hz0 (by omega)
    omega

/-- Right side: a pixel of band `-(N_R + E_R - 1)` (the parallel just yielded). With
`z = E_R - E_L` the claim is `-2 (D - d) z - 2 ers <= 2 D`; `2 L2 z = d (wr + wl) - D (ers - els)`
gives `z >= -1`, and `z = -1` forces `ers >= D - 2 d`. -/
theorem disc_right (D d NL EL SL NR ER SR wl els wr ers : Int) (hD : 0 < D) (hd0 : 0 ≤ d) (hdD : d ≤ D)
    (hwl : wl = 2 * d * (NL + 1) - 2 * D * (EL + SL)) (hels : els = 2 * d * (EL + SL) - 2 * D * EL)
    (hwr : wr = -(2 * d * NR) + 2 * D * (ER + SR)) (hers : ers = 2 * d * (ER + SR) - 2 * D * ER)
    (b1 : -D < wl) (_b2 : wl ≤ D + 2 * d) (b3 : -D ≤ els) (b4 : els ≤ D) (b5 : -D - 2 * d < wr)
    (_b6 : wr ≤ D) (b7 : -D ≤ ers) (_b8 : ers ≤ D) (hn : NL + EL + 1 = NR + ER) :
    4 * D * (NR + ER - 1) + 2 * D - 4 * d * SR ≤
      (D + d + 2 * D * (NL + NR) + 2 * d * (EL + ER)) + D - d := by
  have h4 : d * D ≤ D * D := Int.mul_le_mul_of_nonneg_right hdD (by omega)
  have h5 : 0 < D * D := Int.mul_pos hD hD
  have h6 : 0 ≤ d * d := Int.mul_nonneg hd0 hd0
  have hid : 2 * (D * D + d * d) * (ER - EL) = d * (wr + wl) - D * (ers - els) := by
    have : NR = NL + EL + 1 - ER := by omega
    rw [hwl, hels, hwr, hers, this]; ring
  have h1 : d * (-(2 * D) - 2 * d) ≤ d * (wr + wl) := Int.mul_le_mul_of_nonneg_left (by omega) hd0
  have hz : -1 ≤ ER - EL := by
    by_contra hc
    have hz2 : ER - EL ≤ -2 := by omega
    have h2 : D * (ers - els) ≥ D * (-(2 * D)) := Int.mul_le_mul_of_nonneg_left (by omega) (by omega)
    have h3 : 2 * (D * D + d * d) * (ER - EL) ≤ 2 * (D * D + d * d) * (-2) :=
      Int.mul_le_mul_of_nonneg_left hz2 (by omega)
    nlinarith
  have h8 : 2 * ers = 4 * d * ER + 4 * d * SR - 4 * D * ER := by rw [hers]; ring
  have h9 : NR - NL = 1 - (ER - EL) := by omega
  suffices hf : -(2 * ((D - d) * (ER - EL))) - 2 * ers ≤ 2 * D by nlinarith
  by_cases hz1 : ER - EL = -1
  · rw [hz1] at hid ⊢
    have h2 : D * (-D) ≤ D * els := Int.mul_le_mul_of_nonneg_left b3 (by omega)
    have hDe : D * (D - 2 * d) ≤ D * ers := by nlinarith
    have := Int.le_of_mul_le_mul_left hDe hD
    omega
  · have hz0 : 0 ≤ ER - EL := by omega
    have h7 : (D - d) * 0 ≤ (D - d) * (ER - EL) := Int.mul_le_mul_of_nonneg_left hz0 (by omega)
    omega

theorem sgL_cases (fl : Bool) : sgL fl = 1 ∨ sgL fl = -1 := by cases fl <;> simp [sgL]
theorem sgR_cases (fl : Bool) : sgR fl = 1 ∨ sgR fl = -1 := by cases fl <;> simp [sgR]

/-- The bounds of `NInv` on the four errors, in the variables of `disc_left` / `disc_right`. -/
theorem cinv_bounds {c : StrokeCtx} {s : Pt} {fl : Bool} {it : ParallelsIterator} {iL jR : Nat}
    {NL EL SL NR ER SR : Int} (hg : NInv c s fl it iL jR) (hc : CInv c it NL EL SL NR ER SR) :
    ∃ wl els wr ers : Int,
      wl = 2 * c.d * (NL + 1) - 2 * c.D * (EL + SL) ∧ els = 2 * c.d * (EL + SL) - 2 * c.D * EL ∧
      wr = -(2 * c.d * NR) + 2 * c.D * (ER + SR) ∧ ers = 2 * c.d * (ER + SR) - 2 * c.D * ER ∧
      -c.D < wl ∧ wl ≤ c.D + 2 * c.d ∧ -c.D ≤ els ∧ els ≤ c.D ∧ -c.D - 2 * c.d < wr ∧ wr ≤ c.D ∧
      -c.D ≤ ers ∧ ers ≤ c.D := by
  obtain ⟨_, _, _, _, hL, hR⟩ := hg
  obtain ⟨cwl, cel, cwr, cer, _, _⟩ := hc
  refine ⟨_, _, _, _, rfl, rfl, rfl, rfl, ?_, ?_, ?_, ?_, ?_, ?_, ?_, ?_⟩
  · rw [← cwl]; exact hL.ew1
  · rw [← cwl]; exact hL.ew2
  · have := hL.el1; have := hL.el2
    rcases sgL_cases it.flip with hs | hs <;> rw [hs] at cel <;> omega
  · have := hL.el1; have := hL.el2
    rcases sgL_cases it.flip with hs | hs <;> rw [hs] at cel <;> omega
  · rw [← cwr]; exact hR.ew1
  · rw [← cwr]; exact hR.ew2
  · have := hR.er1; have := hR.er2
    rcases sgR_cases it.flip with hs | hs <;> rw [hs] at cer <;> omega
  · have := hR.er1; have := hR.er2
    rcases sgR_cases it.flip with hs | hs <;> rw [hs] at cer <;> omega

/-- **Every parallel of the run, with the skipped steps of its side discounted.** -/
theorem run_discount (c : StrokeCtx) (hv : c.Valid) (fl : Bool) (hfr : c.FrameOK fl) (s : Pt) (T : Int)
    {it : ParallelsIterator} {xs : List ParItem} (hrun : Run it xs) :
    ∀ (iL jR : Nat) (NL EL SL NR ER SR : Int), NInv c s fl it iL jR → SideOK it iL jR →
    CInv c it NL EL SL NR ER SR → NL + EL = iL → NR + ER = jR → it.thicknessThreshold = T →
    ∃ (f a b : Nat), skipTotals f it = some (a, b) ∧
      ∀ x ∈ xs, ∃ (n A : Int), ParOK c s (c.ph c.M' * n) x.2.1 x.2.2 ∧ 0 ≤ A ∧ A * A ≤ T ∧
        (0 < n → 2 * (2 * c.D * n + c.D - 2 * c.d * (SL + a)) ≤ A + 5 * c.D - c.d) ∧
        (n ≤ 0 → 2 * (2 * c.D * (-n) + c.D - 2 * c.d * (SR + b)) ≤ A + 5 * c.D - c.d) := by
  have hD := hv.hD
  have hd0 := hv.hd0
  have hdD := hv.hdD
  induction hrun with
  | @done it it' hn =>
    intro _ _ _ _ _ _ _ _ _ _ _ _ _ _
    refine ⟨1, 0, 0, ?_, fun x hx => by cases hx⟩
    simp [skipTotals, hn]
  | @step it it' b ty xs hn _ ih =>
    intro iL jR NL EL SL NR ER SR hg hside hc hnL hnR hT
    obtain ⟨hsw, hcase⟩ := next_geo c hv fl hfr s it it' iL jR hg b ty hn
    obtain ⟨a1, a2, a3⟩ := next_acc c it it' b ty hg.hperp hn
    obtain ⟨cfl, cL, cR⟩ := next_counts c it it' b ty hg.hperp hg.hpp hn
    obtain ⟨cwl, cel, cwr, cer, cacc, n1, n2, n3, n4, n5, n6⟩ := hc
    have hx01 := exTy_cases ty
    have hstep : accStep c ty = 2 * c.D * (1 - exTy ty) + 2 * c.d * exTy ty := by
      cases ty <;> simp [accStep, exTy]
    have hstep2 : accStep c ty ≤ 2 * c.D := by cases ty <;> simp only [accStep] <;> omega
    -- the accumulator before the call
    have hA0 : 0 ≤ it.thicknessAccumulator := by
      rw [cacc]
      have := Int.mul_nonneg (show 0 ≤ 2 * c.D by omega) (show 0 ≤ NL + NR by omega)
      have := Int.mul_nonneg (show 0 ≤ 2 * c.d by omega) (show 0 ≤ EL + ER by omega)
      omega
    have hAT : it.thicknessAccumulator * it.thicknessAccumulator ≤ T := by rw [← hT]; omega
    rcases hcase with ⟨hs, hg', hok⟩ | ⟨hs, hg', hok⟩
    · -- a left parallel
      have hjR : jR = iL + 1 := by
        rcases hside with ⟨h1, _⟩ | ⟨_, h2⟩
        · rw [hs] at h1; cases h1
        · exact h2
      obtain ⟨u1, u2, u3, u4⟩ := cL hs
      have hc' : CInv c it' (NL + (1 - exTy ty)) (EL + exTy ty)
          (SL + (skipsFuel loopFuel it .left : Int)) NR ER SR := by
        refine ⟨?_, ?_, ?_, ?_, ?_, ?_⟩
        · rw [u1, cwl]; ring
        · rw [u2, cel, cfl]; ring
        · rw [u3, cwr]
        · rw [u4, cer, cfl]
        · rw [a3, cacc, hstep]; ring
        · refine ⟨?_, ?_, ?_, n4, n5, n6⟩ <;> rcases hx01 with h0 | h0 <;> omega
      obtain ⟨f, a, b', hst, hall⟩ := ih (iL + 1) jR _ _ _ _ _ _ hg'
        (Or.inl ⟨by rw [hsw, hs]; rfl, hjR⟩) hc' (by push_cast; omega) hnR (by rw [a2, hT])
      refine ⟨f + 1, a + skipsFuel loopFuel it .left, b', ?_, ?_⟩
      · simp [skipTotals, hn, hst, hs]
      · intro x hx
        rcases List.mem_cons.mp hx with rfl | hx
        · obtain ⟨wl, els, wr, ers, e1, e2, e3, e4, b1, b2, b3, b4, b5, b6, b7, b8⟩ := cinv_bounds hg' hc'
          have key := disc_left c.D c.d _ _ _ _ _ _ wl els wr ers hD hd0 hdD e1 e2 e3 e4 b1 b2 b3 b4 b5
            b6 b7 b8 (by omega)
          refine ⟨(iL : Int) + 1, it.thicknessAccumulator, hok, hA0, hAT, ?_, fun h0 => by omega⟩
          intro _
          have hda : 0 ≤ c.d * (a : Int) := Int.mul_nonneg hd0 (by omega)
          have hsum : NL + (1 - exTy ty) + (EL + exTy ty) = (iL : Int) + 1 := by omega
          rw [hsum] at key
          have hacc' : c.D + c.d + 2 * c.D * (NL + (1 - exTy ty) + NR) + 2 * c.d * (EL + exTy ty + ER) =
              it.thicknessAccumulator + accStep c ty := by rw [cacc, hstep]; ring
          rw [hacc'] at key
          push_cast
          linarith
        · obtain ⟨n, A, g1, g2, g3, g4, g5⟩ := hall x hx
          refine ⟨n, A, g1, g2, g3, ?_, g5⟩
          intro h0
          have := g4 h0
          push_cast
          have e : SL + ((a : Int) + (skipsFuel loopFuel it .left : Int)) =
            SL + (skipsFuel loopFuel it .left : Int) + a := by ring
          rw [e]; exact this
    · -- a right parallel
      have hjR : jR = iL := by
        rcases hside with ⟨_, h2⟩ | ⟨h1, _⟩
        · exact h2
        · rw [hs] at h1; cases h1
      obtain ⟨u1, u2, u3, u4⟩ := cR hs
      have hc' : CInv c it' NL EL SL (NR + (1 - exTy ty)) (ER + exTy ty)
          (SR + (skipsFuel loopFuel it .right : Int)) := by
        refine ⟨?_, ?_, ?_, ?_, ?_, ?_⟩
        · rw [u3, cwl]
        · rw [u4, cel, cfl]
        · rw [u1, cwr]; ring
        · rw [u2, cer, cfl]; ring
        · rw [a3, cacc, hstep]; ring
        · refine ⟨n1, n2, n3, ?_, ?_, ?_⟩ <;> rcases hx01 with h0 | h0 <;> omega
      obtain ⟨f, a, b', hst, hall⟩ := ih iL (jR + 1) _ _ _ _ _ _ hg'
        (Or.inr ⟨by rw [hsw, hs]; rfl, by omega⟩) hc' hnL (by push_cast; omega) (by rw [a2, hT])
      refine ⟨f + 1, a, b' + skipsFuel loopFuel it .right, ?_, ?_⟩
      · simp [skipTotals, hn, hst, hs]
      · intro x hx
        rcases List.mem_cons.mp hx with rfl | hx
        · obtain ⟨wl, els, wr, ers, e1, e2, e3, e4, b1, b2, b3, b4, b5, b6, b7, b8⟩ := cinv_bounds hg' hc'
          have key := disc_right c.D c.d _ _ _ _ _ _ wl els wr ers hD hd0 hdD e1 e2 e3 e4 b1 b2 b3 b4 b5
            b6 b7 b8 (by omega)
          refine ⟨-(jR : Int), it.thicknessAccumulator, by rw [Int.mul_neg]; exact hok, hA0, hAT,
            fun h0 => by omega, ?_⟩
          intro _
          have hdb : 0 ≤ c.d * (b' : Int) := Int.mul_nonneg hd0 (by omega)
          have hsum : NR + (1 - exTy ty) + (ER + exTy ty) - 1 = (jR : Int) := by omega
          rw [hsum] at key
          have hacc' : c.D + c.d + 2 * c.D * (NL + (NR + (1 - exTy ty))) + 2 * c.d * (EL + (ER + exTy ty)) =
              it.thicknessAccumulator + accStep c ty := by rw [cacc, hstep]; ring
          rw [hacc'] at key
          push_cast
          rw [Int.neg_neg]
          linarith
        · obtain ⟨n, A, g1, g2, g3, g4, g5⟩ := hall x hx
          refine ⟨n, A, g1, g2, g3, g4, ?_⟩
          intro h0
          have := g5 h0
          push_cast
          have e : SR + ((b' : Int) + (skipsFuel loopFuel it .right : Int)) =
            SR + (skipsFuel loopFuel it .right : Int) + b' := by ring
          rw [e]; exact this

/-- **The reach of a stroked line with the skipped steps discounted**, every line and width: with
`(a, b)` the total numbers of skipped `Extra` steps on the left / right side, every pixel `q` lies
in a band `n` (`X - tau n` in `(-D, D]`, `X = ph q - ph start = -+ 2 cross`), and there is an
accumulator value `A >= 0`, `A^2 <= (2 w)^2 L2`, with
`2 (2 D |n| + D - 2 d (a resp. b)) <= A + 5 D - d` (`a` for the left bands `n > 0`). -/
theorem thickPoints_discount (l : Line) (w : Nat) (hw2 : w ≤ 2147483647) (ps : List Pt)
    (hps : thickPoints l w = some ps) :
    ∃ (it0 : ParallelsIterator) (f a b : Nat),
      ParallelsIterator.new l (satAsI32 w) .none = some it0 ∧ skipTotals f it0 = some (a, b) ∧
      ∀ q ∈ ps, ∃ (n A : Int), 0 ≤ A ∧
        A * A ≤ (w : Int) * 2 * ((w : Int) * 2) *
          ((ctxOf l).D * (ctxOf l).D + (ctxOf l).d * (ctxOf l).d) ∧
        -(ctxOf l).D < (ctxOf l).ph q - (ctxOf l).ph l.start - (ctxOf l).ph (ctxOf l).M' * n ∧
        (ctxOf l).ph q - (ctxOf l).ph l.start - (ctxOf l).ph (ctxOf l).M' * n ≤ (ctxOf l).D ∧
        (0 < n → 2 * (2 * (ctxOf l).D * n + (ctxOf l).D - 2 * (ctxOf l).d * (a : Int)) ≤
          A + 5 * (ctxOf l).D - (ctxOf l).d) ∧
        (n ≤ 0 → 2 * (2 * (ctxOf l).D * (-n) + (ctxOf l).D - 2 * (ctxOf l).d * (b : Int)) ≤
          A + 5 * (ctxOf l).D - (ctxOf l).d) := by
  have hv := ctxOf_valid l
  have hfr := frameOK_ctxOf l
  have hsat : satAsI32 w = (w : Int) := by unfold satAsI32; simp only [hw2, ↓reduceIte]
  obtain ⟨it0, hnew0, hside, hg, hacc, hthr⟩ := new_ninv l (satAsI32 w)
  have hc0 := new_cinv l (satAsI32 w) it0 hnew0
  obtain ⟨xs0, hrun0⟩ : ∃ xs, Run it0 xs := by
    by_cases hw : w = 0
    · refine ⟨[], Run.done (it' := it0) (next_done it0 ?_)⟩
      rw [hthr, hacc, hsat, hw]
      simp only [Nat.cast_zero, Int.zero_mul, gt_iff_lt]
      have : 0 < (ctxOf l).D + (ctxOf l).d := by have := hv.hD; have := hv.hd0; omega
      exact Int.mul_pos this this
    · obtain ⟨ps', hps'⟩ := thickPoints_total l w
      obtain ⟨it, xs, hnew, hrun, _⟩ := thickPoints_run l w hw ps' hps'
      rw [hnew0] at hnew
      simp only [Option.some.injEq] at hnew
      subst hnew
      exact ⟨xs, hrun⟩
  rw [hsat, L2_eq] at hthr
  obtain ⟨f, a, b, hst, hall⟩ := run_discount (ctxOf l) hv _ hfr l.start _ hrun0 0 0 0 0 0 0 0 0 hg
    (Or.inl ⟨hside, rfl⟩) hc0 (by simp) (by simp) hthr
  refine ⟨it0, f, a, b, hnew0, hst, ?_⟩
  by_cases hw : w = 0
  · rw [hw, thickPoints_width0] at hps
    simp only [Option.some.injEq] at hps
    subst hps; intro q hq; cases hq
  obtain ⟨it, xs, hnew, hrun, rfl⟩ := thickPoints_run l w hw ps hps
  rw [hnew0] at hnew
  simp only [Option.some.injEq] at hnew
  subst hnew
  have hxs : xs = xs0 := run_unique hrun hrun0
  subst hxs
  intro q hq
  obtain ⟨x, hx, hqx⟩ := List.mem_flatMap.mp hq
  obtain ⟨n, A, hok, hA0, hAT, h1, h2⟩ := hall x hx
  obtain ⟨b1, b2⟩ := parPts_band hv hok _ q hqx
  simp only [Int.zero_add] at h1 h2
  exact ⟨n, A, hA0, hAT, b1, b2, h1, h2⟩

end Thick
end EG
