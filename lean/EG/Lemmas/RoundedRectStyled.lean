/-
  EG.Lemmas.RoundedRectStyled — the styled rounded rectangle:
  * `StyledScanlines` in closed form; every styled scanline splits the stroke area's row into
    stroke-left / fill / stroke-right with the fill part = the points of the row inside the fill area
    (first and last hit of a convex row),
  * membership in the writes of `draw()` and of `pixels()` in terms of `stroke_area.contains` and
    `fill_area.contains`.
-/
import EG.Lemmas.RoundedRectShape
import EG.Lemmas.ScanlinePaths
import EG.Lemmas.Style
namespace EG
namespace RoundedRect

/-! ### `StyledScanlines` in closed form -/

theorem StyledScanlinesIt.style_advance (it : StyledScanlinesIt) (sl : RRContains) :
    ({ it with scanlines := sl } : StyledScanlinesIt).style = it.style := rfl

theorem StyledScanlinesIt.toListFuel_eq : ∀ (fuel : Nat) (it : StyledScanlinesIt),
    (it.scanlines.rowsEnd - it.scanlines.rowsStart).toNat < fuel →
    it.toListFuel fuel = (irange it.scanlines.rowsStart it.scanlines.rowsEnd).map
      (fun y => it.style (it.scanlines.row y)) := by
  intro fuel
  induction fuel with
  | zero => intro it h; omega
  | succ fuel ih =>
    intro it h
    unfold StyledScanlinesIt.toListFuel StyledScanlinesIt.next RRContains.next
    by_cases hy : it.scanlines.rowsStart < it.scanlines.rowsEnd
    · simp only [hy, ↓reduceIte]
      rw [ih _ (by dsimp only; omega), irange_cons hy]
      simp only [List.map_cons, RRContains.row_advance, StyledScanlinesIt.style_advance]
    · simp only [hy, ↓reduceIte]
      rw [irange_empty (a := it.scanlines.rowsStart) (b := it.scanlines.rowsEnd) (by omega)]; rfl

theorem StyledScanlinesIt.toList_eq (it : StyledScanlinesIt) :
    it.toList = (irange it.scanlines.rowsStart it.scanlines.rowsEnd).map
      (fun y => it.style (it.scanlines.row y)) :=
  StyledScanlinesIt.toListFuel_eq _ it (by omega)

/-! ### one styled scanline -/

/-- What the styled scanline `l` of row `y` of the stroke area `S` is, relative to the fill area `F`. -/
structure RowOK (S F : RoundedRect) (y : Int) (l : StyledScanline) : Prop where
  y_eq : l.y = y
  ord : l.ss ≤ l.se → l.ss ≤ l.fs ∧ l.fs ≤ l.fe ∧ l.fe ≤ l.se
  emp : l.se < l.ss → l.fs = l.se ∧ l.fe = l.se
  stroke : ∀ x, (l.ss ≤ x ∧ x < l.se) ↔ S.contains ⟨x, y⟩ = true
  fill : ∀ x, l.ss ≤ x → x < l.se → ((l.fs ≤ x ∧ x < l.fe) ↔ F.contains ⟨x, y⟩ = true)
  range : S.rect.tl.x ≤ l.ss ∧ l.ss ≤ S.rect.tl.x + S.rect.size.w ∧
    S.rect.tl.x ≤ l.se ∧ l.se ≤ S.rect.tl.x + S.rect.size.w

theorem fillArea_contains (S F : RoundedRect) (p : Pt) :
    (styledScanlines S F).fillArea.contains p = F.contains p := rfl

theorem style_ok {S F : RoundedRect} (hS : S.InRange) (hF : F.InRange) {y : Int}
    (hy : S.rect.tl.y ≤ y ∧ y < S.rect.tl.y + S.rect.size.h) :
    RowOK S F y ((styledScanlines S F).style ((RRContains.new S).row y)) := by
  have hg := new_geo S hS
  obtain ⟨a1, a2, _⟩ := RRContains.xStart_spec hg y
  obtain ⟨b1, b2, _⟩ := RRContains.xEnd_spec hg y
  rw [(new_cols S hS).1] at a1 b1; rw [(new_cols S hS).2] at a2 b2
  have hstroke : ∀ x, ((RRContains.new S).xStart y ≤ x ∧ x < (RRContains.new S).xEnd y) ↔
      S.contains ⟨x, y⟩ = true := by
    intro x
    rw [contains_iff_row S hS]
    constructor
    · intro h; exact ⟨hy, h⟩
    · intro h; exact h.2
  -- the fill range
  unfold StyledScanlinesIt.style StyledScanlinesIt.fillRange
  simp only [RRContains.row, fillArea_contains]
  by_cases hrow : (styledScanlines S F).fillArea.rowsStart ≤ y ∧ y < (styledScanlines S F).fillArea.rowsEnd
  · simp only [hrow, and_self, ↓reduceIte]
    cases hf : rangeFind (fun x => F.contains ⟨x, y⟩) ((RRContains.new S).xStart y)
        ((RRContains.new S).xEnd y) with
    | none =>
      simp only [StyledScanline.new]
      refine ⟨rfl, fun h => ⟨h, Int.le_refl _, Int.le_refl _⟩, fun _ => ⟨rfl, rfl⟩, hstroke, ?_,
        ⟨a1, a2, b1, b2⟩⟩
      intro x h1 h2
      dsimp only at h1 h2 ⊢
      have hx0 : F.contains ⟨x, y⟩ = false := rangeFind_none.mp hf x h1 h2
      rw [hx0]
      constructor
      · intro h; omega
      · intro h; cases h
    | some a =>
      cases hr : rangeRFind (fun x => F.contains ⟨x, y⟩) ((RRContains.new S).xStart y)
          ((RRContains.new S).xEnd y) with
      | none =>
        simp only [Option.map_none, StyledScanline.new]
        refine ⟨rfl, fun h => ⟨h, Int.le_refl _, Int.le_refl _⟩, fun _ => ⟨rfl, rfl⟩, hstroke, ?_,
          ⟨a1, a2, b1, b2⟩⟩
        intro x h1 h2
        dsimp only at h1 h2 ⊢
        have hx0 : F.contains ⟨x, y⟩ = false := rangeRFind_none.mp hr x h1 h2
        rw [hx0]
        constructor
        · intro h; omega
        · intro h; cases h
      | some b =>
        simp only [Option.map_some, StyledScanline.new]
        obtain ⟨f1, f2, f3', f4'⟩ := rangeFind_some.mp hf
        obtain ⟨r1, r2, r3', r4'⟩ := rangeRFind_some.mp hr
        have f3 : F.contains ⟨a, y⟩ = true := f3'
        have f4 : ∀ x, (RRContains.new S).xStart y ≤ x → x < a → F.contains ⟨x, y⟩ = false := f4'
        have r3 : F.contains ⟨b, y⟩ = true := r3'
        have r4 : ∀ x, b < x → x < (RRContains.new S).xEnd y → F.contains ⟨x, y⟩ = false := r4'
        have hab : a ≤ b := by
          by_cases hc : a ≤ b
          · exact hc
          · have := f4 b r1 (by omega); rw [r3] at this; cases this
        refine ⟨rfl, fun _ => ⟨f1, by dsimp only; omega, by dsimp only; omega⟩,
          fun h => by dsimp only at h ⊢; omega, hstroke, ?_, ⟨a1, a2, b1, b2⟩⟩
        intro x h1 h2
        dsimp only at h1 h2 ⊢
        constructor
        · intro hx
          exact row_contiguous F hF y a b x f3 r3 ⟨hx.1, by omega⟩
        · intro hx
          constructor
          · by_cases hc : a ≤ x
            · exact hc
            · have := f4 x h1 (by omega); rw [hx] at this; cases this
          · by_cases hc : x < b + 1
            · exact hc
            · have := r4 x (by omega) h2; rw [hx] at this; cases this
  · simp only [hrow, ↓reduceIte, StyledScanline.new]
    refine ⟨rfl, fun h => ⟨h, Int.le_refl _, Int.le_refl _⟩, fun _ => ⟨rfl, rfl⟩, hstroke, ?_,
      ⟨a1, a2, b1, b2⟩⟩
    intro x h1 h2
    dsimp only at h1 h2 ⊢
    have hn : F.contains ⟨x, y⟩ = false := by
      cases hc : F.contains ⟨x, y⟩ with
      | false => rfl
      | true =>
        unfold contains at hc
        rw [RRContains.contains_iff] at hc
        exact absurd hc.1 hrow
    rw [hn]
    constructor
    · intro h; omega
    · intro h; cases h

theorem RowOK.wf {S F : RoundedRect} {y : Int} {l : StyledScanline} (hS : S.InRange)
    (hy : S.rect.tl.y ≤ y ∧ y < S.rect.tl.y + S.rect.size.h) (hl : RowOK S F y l) : l.WF := by
  obtain ⟨o1, o2, o3, _, _, o4⟩ := hl
  unfold InRange Rect.InRange inI32 at hS
  by_cases hc : l.ss ≤ l.se
  · have := o2 hc
    unfold StyledScanline.WF Scanline.WF Rect.InRange inI32 StyledScanline.strokeLeft
      StyledScanline.fill StyledScanline.strokeRight
    simp only
    omega
  · have := o3 (by omega)
    unfold StyledScanline.WF Scanline.WF Rect.InRange inI32 StyledScanline.strokeLeft
      StyledScanline.fill StyledScanline.strokeRight
    simp only
    omega

section lines
variable {S F : RoundedRect} (hS : S.InRange) (hF : F.InRange)
include hS hF

theorem lines_ok : ∀ l ∈ (styledScanlines S F).toList,
    ∃ y, (S.rect.tl.y ≤ y ∧ y < S.rect.tl.y + S.rect.size.h) ∧ RowOK S F y l := by
  intro l hl
  rw [StyledScanlinesIt.toList_eq, List.mem_map] at hl
  obtain ⟨y, hy, rfl⟩ := hl
  have hy' : S.rect.tl.y ≤ y ∧ y < S.rect.tl.y + S.rect.size.h := by
    have := mem_irange.mp hy
    have e1 : (styledScanlines S F).scanlines.rowsStart = S.rect.tl.y := (new_rows S hS).1
    have e2 : (styledScanlines S F).scanlines.rowsEnd = S.rect.tl.y + S.rect.size.h := (new_rows S hS).2
    rw [e1, e2] at this
    exact this
  exact ⟨y, hy', style_ok hS hF hy'⟩

theorem lines_wf : ∀ l ∈ (styledScanlines S F).toList, l.WF := by
  intro l hl
  obtain ⟨y, hy, hok⟩ := lines_ok hS hF l hl
  exact hok.wf hS hy

theorem lines_cover (y : Int) (hy : S.rect.tl.y ≤ y ∧ y < S.rect.tl.y + S.rect.size.h) :
    ∃ l ∈ (styledScanlines S F).toList, RowOK S F y l := by
  refine ⟨(styledScanlines S F).style ((RRContains.new S).row y), ?_, style_ok hS hF hy⟩
  rw [StyledScanlinesIt.toList_eq, List.mem_map]
  refine ⟨y, ?_, rfl⟩
  have e1 : (styledScanlines S F).scanlines.rowsStart = S.rect.tl.y := (new_rows S hS).1
  have e2 : (styledScanlines S F).scanlines.rowsEnd = S.rect.tl.y + S.rect.size.h := (new_rows S hS).2
  rw [e1, e2, mem_irange]
  exact hy

/-- Membership in the coloured points of the styled scanlines, in terms of the two areas: the fill
colour on the points of the stroke area that the fill area contains, the stroke colour on the other
points of the stroke area. -/
theorem mem_lines_iff (scol fcol : Option Color) (p : Pt) (col : Color) :
    (p, col) ∈ pixelsSpec scol fcol (styledScanlines S F).toList ↔
      (S.contains p = true ∧ F.contains p = true ∧ fcol = some col) ∨
      (S.contains p = true ∧ F.contains p = false ∧ scol = some col) := by
  rw [mem_pixelsSpec]
  constructor
  · rintro ⟨l, hl, hm⟩
    obtain ⟨y, hy, hok⟩ := lines_ok hS hF l hl
    rw [StyledScanline.mem_pixelsSpec] at hm
    obtain ⟨hpy, hm⟩ := hm
    have hp : p = ⟨p.x, y⟩ := by rw [← hok.y_eq, ← hpy]
    by_cases hc : l.ss ≤ l.se
    · have ho := hok.ord hc
      rcases hm with ⟨hcol, hx⟩ | ⟨hcol, hx⟩
      · right
        have hin : l.ss ≤ p.x ∧ p.x < l.se := by omega
        refine ⟨by rw [hp, ← hok.stroke]; exact hin, ?_, hcol⟩
        rw [hp, Bool.eq_false_iff, Ne, ← hok.fill p.x hin.1 hin.2]; omega
      · left
        have hin : l.ss ≤ p.x ∧ p.x < l.se := by omega
        exact ⟨by rw [hp, ← hok.stroke]; exact hin, by rw [hp, ← hok.fill p.x hin.1 hin.2]; exact hx, hcol⟩
    · have ho := hok.emp (by omega)
      omega
  · intro h
    have hSc : S.contains p = true := by
      rcases h with ⟨hs, _⟩ | ⟨hs, _⟩ <;> exact hs
    have hb := contains_imp_bbox S hS hSc
    unfold boundingBox at hb
    rw [Rect.contains_iff] at hb
    obtain ⟨l, hl, hok⟩ := lines_cover hS hF p.y ⟨hb.2.2.1, hb.2.2.2⟩
    refine ⟨l, hl, ?_⟩
    rw [StyledScanline.mem_pixelsSpec]
    refine ⟨hok.y_eq.symm, ?_⟩
    have hin : l.ss ≤ p.x ∧ p.x < l.se := (hok.stroke p.x).mpr hSc
    have ho := hok.ord (by omega)
    rcases h with ⟨_, hf, hcol⟩ | ⟨_, hf, hcol⟩
    · right
      exact ⟨hcol, (hok.fill p.x hin.1 hin.2).mpr hf⟩
    · left
      have : ¬ (l.fs ≤ p.x ∧ p.x < l.fe) := by
        intro hc; rw [(hok.fill p.x hin.1 hin.2).mp hc] at hf; cases hf
      exact ⟨hcol, by omega⟩

end lines

/-! ### the fill-only draw path: plain scanlines of the fill area -/

theorem scanline_wf {F : RoundedRect} (hF : F.InRange) : ∀ s ∈ F.scanlines.toList, s.WF := by
  intro s hs
  unfold scanlines at hs
  rw [RRContains.toList_eq, List.mem_map] at hs
  obtain ⟨y, hy, rfl⟩ := hs
  rw [mem_irange, (new_rows F hF).1, (new_rows F hF).2] at hy
  obtain ⟨a1, a2, _⟩ := RRContains.xStart_spec (new_geo F hF) y
  obtain ⟨b1, b2, _⟩ := RRContains.xEnd_spec (new_geo F hF) y
  rw [(new_cols F hF).1] at a1 b1; rw [(new_cols F hF).2] at a2 b2
  unfold InRange Rect.InRange inI32 at hF
  unfold Scanline.WF Rect.InRange inI32 RRContains.row
  simp only
  omega

theorem mem_fill_lines_iff {F : RoundedRect} (hF : F.InRange) (fc : Color) (p : Pt) (col : Color) :
    (p, col) ∈ F.scanlines.toList.flatMap (fun l => l.points.map (fun q => (q, fc))) ↔
      F.contains p = true ∧ fc = col := by
  unfold scanlines
  rw [RRContains.toList_eq, (new_rows F hF).1, (new_rows F hF).2]
  simp only [List.mem_flatMap, List.mem_map, Prod.mk.injEq, mem_irange]
  constructor
  · rintro ⟨s, ⟨y, hy, rfl⟩, q, hq, rfl, rfl⟩
    rw [Scanline.mem_points] at hq
    refine ⟨?_, rfl⟩
    have hqy : q.y = y := hq.1
    have hp : q = ⟨q.x, y⟩ := by rw [← hqy]
    rw [hp, contains_iff_row F hF]
    exact ⟨hy, hq.2⟩
  · rintro ⟨hf, rfl⟩
    have hp : p = ⟨p.x, p.y⟩ := rfl
    rw [hp, contains_iff_row F hF] at hf
    refine ⟨(RRContains.new F).row p.y, ⟨p.y, hf.1, rfl⟩, p, ?_, rfl, rfl⟩
    rw [Scanline.mem_points]
    exact ⟨rfl, hf.2⟩

/-! ### the exact pixel maps -/

/-- Every point of the fill area lies in the stroke area (`fill_area()` is the shape shrunk by the
inside part of the stroke, `stroke_area()` the shape grown by the outside part). -/
def FillInStroke (st : Style) (r : RoundedRect) : Prop :=
  ∀ p, (r.fillArea st).contains p = true → (r.strokeArea st).contains p = true

/-- Width 0: `stroke_area = fill_area`. -/
theorem areas_eq_of_zero_width (st : Style) (r : RoundedRect) (h : st.width = 0) :
    r.strokeArea st = r.fillArea st := by
  unfold strokeArea fillArea
  rw [(st.offsets_of_width_zero h).1, (st.offsets_of_width_zero h).2]

theorem fillInStroke_of_zero_width (st : Style) (r : RoundedRect) (h : st.width = 0) :
    FillInStroke st r := by
  intro p hp
  rw [areas_eq_of_zero_width st r h]; exact hp

/-- A collapsed fill area (a stroke at least as wide as half the shape: zero width or height) contains
no point, so it lies in the stroke area trivially. -/
theorem fillInStroke_of_collapsed (st : Style) (r : RoundedRect) (hF : (r.fillArea st).InRange)
    (hz : (r.fillArea st).rect.size.w = 0 ∨ (r.fillArea st).rect.size.h = 0) : FillInStroke st r := by
  intro p hp
  have hb := contains_imp_bbox _ hF hp
  unfold boundingBox at hb
  rw [Rect.contains_false_of_zero hz] at hb
  cases hb

/-- The colour the property text prescribes for point `p` (before clipping to the target). -/
def styledExpected (st : Style) (r : RoundedRect) (p : Pt) : Option Color :=
  if (r.fillArea st).contains p = true then st.fill
  else if (r.strokeArea st).contains p = true ∧ st.width > 0 then st.stroke
  else none

theorem styledExpected_eq_some (st : Style) (r : RoundedRect) (p : Pt) (col : Color) :
    styledExpected st r p = some col ↔
      ((r.fillArea st).contains p = true ∧ st.fill = some col) ∨
      ((r.strokeArea st).contains p = true ∧ (r.fillArea st).contains p = false ∧
        st.width > 0 ∧ st.stroke = some col) := by
  unfold styledExpected
  by_cases hf : (r.fillArea st).contains p = true
  · simp [hf]
  · have hf' : (r.fillArea st).contains p = false := by simpa using hf
    by_cases hs : (r.strokeArea st).contains p = true ∧ st.width > 0
    · simp [hf', hs]
    · simp only [hf', Bool.false_eq_true, ↓reduceIte, hs, false_and, false_or, true_and]
      constructor
      · intro h; cases h
      · rintro ⟨h1, h2, _⟩; exact absurd ⟨h1, h2⟩ hs

section exact
variable {st : Style} {r : RoundedRect} (hS : (r.strokeArea st).InRange)
  (hF : (r.fillArea st).InRange) (hI : FillInStroke st r)
include hS hF hI

/-- Membership in the (unclipped, natively lowered) writes of `draw()`. -/
theorem mem_draw_iff (B : Rect) (p : Pt) (col : Color) :
    (p, col) ∈ (r.drawStyled st).flatMap (Call.lowerNative B) ↔ styledExpected st r p = some col := by
  rw [styledExpected_eq_some]
  unfold drawStyled
  rw [Style.effectiveStrokeColor_eq]
  have hI' := hI p
  by_cases hw : st.width > 0
  · simp only [hw, ↓reduceIte]
    cases hsc : st.stroke with
    | none =>
      cases hfc : st.fill with
      | none => simp
      | some fc =>
        simp only
        rw [drawFillLines_lowerNative fc _ (scanline_wf hF), mem_fill_lines_iff hF]
        simp
    | some sc =>
      cases hfc : st.fill with
      | none =>
        simp only
        rw [drawLines_lowerNative sc none _ (lines_wf hS hF), mem_lines_iff hS hF]
        simp
      | some fc =>
        simp only
        rw [drawLines_lowerNative sc (some fc) _ (lines_wf hS hF), mem_lines_iff hS hF]
        simp only [Option.some.injEq, true_and]
        constructor
        · rintro (⟨_, h2, h3⟩ | ⟨h1, h2, h3⟩)
          · exact Or.inl ⟨h2, h3⟩
          · exact Or.inr ⟨h1, h2, h3⟩
        · rintro (⟨h2, h3⟩ | ⟨h1, h2, h3⟩)
          · exact Or.inl ⟨hI' h2, h2, h3⟩
          · exact Or.inr ⟨h1, h2, h3⟩
  · simp only [hw, ↓reduceIte]
    cases hfc : st.fill with
    | none => simp
    | some fc =>
      simp only
      rw [drawFillLines_lowerNative fc _ (scanline_wf hF), mem_fill_lines_iff hF]
      simp

/-- Membership in the pixels of `pixels()`. -/
theorem mem_pixels_iff (p : Pt) (col : Color) :
    (p, col) ∈ r.styledPixels st ↔ styledExpected st r p = some col := by
  rw [styledExpected_eq_some]
  unfold styledPixels styledPixelsIt
  rw [StyledPixelsIt.toList_new, mem_lines_iff hS hF]
  have hI' := hI p
  by_cases hw : st.width > 0
  · simp only [hw, true_and]
    constructor
    · rintro (⟨_, h2, h3⟩ | ⟨h1, h2, h3⟩)
      · exact Or.inl ⟨h2, h3⟩
      · exact Or.inr ⟨h1, h2, h3⟩
    · rintro (⟨h2, h3⟩ | ⟨h1, h2, h3⟩)
      · exact Or.inl ⟨hI' h2, h2, h3⟩
      · exact Or.inr ⟨h1, h2, h3⟩
  · have h0 : st.width = 0 := by omega
    rw [areas_eq_of_zero_width st r h0]
    simp only [hw, false_and, and_false, or_false]
    constructor
    · rintro (⟨_, h2, h3⟩ | ⟨h1, h2, _⟩)
      · exact ⟨h2, h3⟩
      · rw [h1] at h2; cases h2
    · rintro ⟨h2, h3⟩; exact Or.inl ⟨h2, h2, h3⟩

end exact

end RoundedRect
end EG
