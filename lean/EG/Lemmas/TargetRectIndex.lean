/-
  EG.Lemmas.TargetRectIndex — row-major indexing of `Rectangle::points` and the point-wise meaning
  of `fill_contiguous` / `fill_solid` / `clear` writes.
-/
import EG.Lemmas.Target
namespace EG
open Tgt

theorem Tgt.getElem?_flatMap_const {α β : Type} (l : List α) (f : α → List β) (n : Nat)
    (h : ∀ a ∈ l, (f a).length = n) (j i : Nat) (hi : i < n) :
    (l.flatMap f)[j * n + i]? = (l[j]?).bind (fun a => (f a)[i]?) := by
  induction l generalizing j with
  | nil => simp
  | cons a l ih =>
    have ha := h a List.mem_cons_self
    rw [List.flatMap_cons]
    cases j with
    | zero =>
      rw [List.getElem?_append_left (by omega)]
      simp
    | succ j =>
      rw [List.getElem?_append_right (by rw [ha, Nat.succ_mul]; omega)]
      have : (j + 1) * n + i - (f a).length = j * n + i := by rw [ha, Nat.succ_mul]; omega
      rw [this, ih (fun b hb => h b (List.mem_cons_of_mem _ hb))]
      simp

namespace Rect

/-- Row-major index of a point of the rectangle. -/
def indexOf (r : Rect) (p : Pt) : Nat := (p.y - r.tl.y).toNat * r.size.w + (p.x - r.tl.x).toNat

theorem pointsSpec_of_zero {r : Rect} (h : r.isZeroSized = true) : r.pointsSpec = [] := by
  unfold pointsSpec; rw [if_pos h]

/-- Point number `j * w + i` of `points()` is `top_left + (i, j)`. -/
theorem pointsSpec_getElem? {r : Rect} (hr : r.InRange) (i j : Nat) (hi : i < r.size.w)
    (hj : j < r.size.h) : r.pointsSpec[j * r.size.w + i]? = some ⟨r.tl.x + i, r.tl.y + j⟩ := by
  unfold pointsSpec
  have hz : ¬ r.isZeroSized = true := by rw [isZeroSized_iff]; omega
  rw [if_neg hz]
  have hre := rowsEnd_eq hr
  have hce := columnsEnd_eq hr
  unfold rowsEnd at hre; unfold columnsEnd at hce
  rw [getElem?_flatMap_const _ _ r.size.w
    (by intro a _; simp only [columns, List.length_map, irange_length, hce]; omega) j i hi]
  have hjl : j < r.rows.length := by simp only [rows, irange_length, hre]; omega
  have hil : i < r.columns.length := by simp only [columns, irange_length, hce]; omega
  rw [List.getElem?_eq_getElem hjl]
  simp only [Option.bind_some, List.getElem?_map, List.getElem?_eq_getElem hil, Option.map_some]
  simp only [rows, columns, irange_getElem]

theorem indexOf_lt {r : Rect} {p : Pt} (hp : r.contains p = true) :
    (p.x - r.tl.x).toNat < r.size.w ∧ (p.y - r.tl.y).toNat < r.size.h := by
  rw [contains_iff] at hp; omega

theorem pointsSpec_nodup (r : Rect) : r.pointsSpec.Nodup := by
  rw [← points_eq_spec]; exact points_nodup r

theorem pointsSpec_idxOf {r : Rect} (hr : r.InRange) {p : Pt} (hp : r.contains p = true) :
    r.pointsSpec.idxOf p = r.indexOf p := by
  have hb := indexOf_lt hp
  have hc := hp; rw [contains_iff] at hc
  have h := pointsSpec_getElem? hr _ _ hb.1 hb.2
  have hpt : (⟨r.tl.x + ((p.x - r.tl.x).toNat : Int), r.tl.y + ((p.y - r.tl.y).toNat : Int)⟩ : Pt) = p := by
    rw [Pt.ext_iff']; simp only; omega
  rw [hpt] at h
  obtain ⟨hlt, hget⟩ := List.getElem?_eq_some_iff.mp h
  have := (pointsSpec_nodup r).idxOf_getElem _ hlt
  rw [hget] at this
  exact this

/-- **`fill_contiguous` meaning, point-wise**: the point with row-major index `k` gets colour
number `k` of the stream, if the stream is that long; nothing else is written. -/
theorem lastWrite_pointsSpec_zip {r : Rect} (hr : r.isZeroSized = true ∨ r.InRange) (cs : List Color)
    (p : Pt) : lastWrite (r.pointsSpec.zip cs) p = if r.contains p = true then cs[r.indexOf p]? else none := by
  rcases hr with hz | hr
  · rw [pointsSpec_of_zero hz]
    rw [isZeroSized_iff] at hz
    simp [lastWrite_nil, contains_false_of_zero hz]
  · rw [lastWrite_zip_nodup _ (pointsSpec_nodup r)]
    by_cases hp : r.contains p = true
    · rw [if_pos ((mem_pointsSpec hr).mpr hp), if_pos hp, pointsSpec_idxOf hr hp]
    · rw [if_neg (fun h => hp ((mem_pointsSpec hr).mp h)), if_neg hp]

/-- **`fill_solid` / `clear` meaning, point-wise.** -/
theorem lastWrite_pointsSpec_const {r : Rect} (hr : r.isZeroSized = true ∨ r.InRange) (c : Color)
    (p : Pt) : lastWrite (r.pointsSpec.map (fun q => (q, c))) p = if r.contains p = true then some c else none := by
  rw [lastWrite_map_const]
  rcases hr with hz | hr
  · rw [pointsSpec_of_zero hz]
    rw [isZeroSized_iff] at hz
    simp [contains_false_of_zero hz]
  · by_cases hp : r.contains p = true
    · rw [if_pos ((mem_pointsSpec hr).mpr hp), if_pos hp]
    · rw [if_neg (fun h => hp ((mem_pointsSpec hr).mp h)), if_neg hp]

end Rect
end EG
