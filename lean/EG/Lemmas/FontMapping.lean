/-
  EG.Lemmas.FontMapping — `StrGlyphMapping`: `index` against the expanded character list; the
  character ranges in closed form; glyph cells of indices below `glyphs_per_row * rows`.
-/
import EG.Model.Font
namespace EG
namespace Font

/-! ### `enumerate().find()` = first position -/

theorem findGo_eq (c : Nat) : ∀ (l : List Nat) (i : Nat),
    findGo c l i = if c ∈ l then some (i + l.idxOf c) else none
  | [], i => by simp [findGo]
  | v :: vs, i => by
    unfold findGo
    by_cases h : c = v
    · subst h; simp
    · have ih := findGo_eq c vs (i + 1)
      have hb : (v == c) = false := by simp; exact fun e => h e.symm
      simp only [h, ↓reduceIte, ih, List.mem_cons, false_or, List.idxOf_cons, hb, cond_false]
      split
      · simp; omega
      · rfl

/-- `index c` is the position of the first occurrence of `c` in the expanded list if there is one,
else the replacement index. -/
theorem index_eq (m : StrMapping) (c : Nat) :
    m.index c = if c ∈ expand m.data then (expand m.data).idxOf c else m.replacement := by
  unfold StrMapping.index
  rw [findGo_eq]
  by_cases h : c ∈ expand m.data <;> simp [h]

theorem index_of_mem (m : StrMapping) (c : Nat) (h : c ∈ expand m.data) :
    ∃ hlt : m.index c < (expand m.data).length,
      (expand m.data)[m.index c] = c ∧ ∀ k (hk : k < m.index c), (expand m.data)[k]'(by omega) ≠ c := by
  have e : m.index c = (expand m.data).idxOf c := by rw [index_eq]; simp [h]
  have hlt : (expand m.data).idxOf c < (expand m.data).length := List.idxOf_lt_length_of_mem h
  refine ⟨by omega, ?_, ?_⟩
  · simp [e]
  · intro k hk heq
    rw [e] at hk
    have hk' : k < (expand m.data).length := by omega
    have hk2 : k < (expand m.data).findIdx (· == c) := hk
    have := List.not_of_lt_findIdx hk2
    simp [heq] at this

theorem index_of_not_mem (m : StrMapping) (c : Nat) (h : c ∉ expand m.data) :
    m.index c = m.replacement := by
  rw [index_eq]; simp [h]

/-- Two different mapped characters never share a glyph index (for every mapping string). -/
theorem index_injective_on_mapped (m : StrMapping) (c₁ c₂ : Nat) (h₁ : c₁ ∈ expand m.data)
    (h₂ : c₂ ∈ expand m.data) (h : m.index c₁ = m.index c₂) : c₁ = c₂ := by
  obtain ⟨l1, g1, _⟩ := index_of_mem m c₁ h₁
  obtain ⟨l2, g2, _⟩ := index_of_mem m c₂ h₂
  rw [← g1, ← g2]
  congr 1

/-- With a duplicate-free expansion every position below the count is the index of exactly the
character listed there: indices and mapped characters correspond one to one. -/
theorem index_getElem_of_nodup (m : StrMapping) (hn : (expand m.data).Nodup) (k : Nat)
    (hk : k < (expand m.data).length) : m.index ((expand m.data)[k]) = k := by
  rw [index_eq]
  simp only [List.getElem_mem, ↓reduceIte]
  exact List.Nodup.idxOf_getElem hn k hk

theorem index_lt (m : StrMapping) (hr : m.replacement < (expand m.data).length) (c : Nat) :
    m.index c < (expand m.data).length := by
  by_cases h : c ∈ expand m.data
  · exact (index_of_mem m c h).1
  · rw [index_of_not_mem m c h]; exact hr

/-! ### `expand`: equations and the range iterator in closed form -/

theorem expand_range (s e : Nat) (rest : List Nat) :
    expand (0 :: s :: e :: rest) = charRange s e ++ expand rest := by
  simp [expand]

theorem expand_char (c : Nat) (rest : List Nat) (h : c ≠ 0) : expand (c :: rest) = c :: expand rest := by
  cases c with
  | zero => exact absurd rfl h
  | succ n => simp [expand]

theorem expand_incomplete₁ : expand [0] = [] := by simp [expand]
theorem expand_incomplete₂ (s : Nat) : expand [0, s] = [] := by simp [expand]

def isSurrogate (c : Nat) : Prop := 0xD800 ≤ c ∧ c ≤ 0xDFFF
instance (c : Nat) : Decidable (isSurrogate c) := by unfold isSurrogate; exact inferInstance

/-- Below the surrogate gap (or above it) a range is the plain interval, position `k` holds `s + k`. -/
theorem charRangeGo_plain : ∀ (fuel cur e : Nat), cur ≤ e → e + 1 - cur ≤ fuel →
    (e ≤ 0xD7FF ∨ 0xD7FF < cur) → charRangeGo fuel cur e = List.range' cur (e + 1 - cur)
  | 0, cur, e, h1, h2, _ => by omega
  | fuel + 1, cur, e, h1, h2, h3 => by
    unfold charRangeGo
    by_cases hlt : cur < e
    · have hns : nextScalar cur = cur + 1 := by unfold nextScalar; split <;> omega
      have ih := charRangeGo_plain fuel (cur + 1) e (by omega) (by omega) (by omega)
      have hlen : e + 1 - cur = (e + 1 - (cur + 1)) + 1 := by omega
      simp only [hlt, ↓reduceIte, hns, ih]
      rw [hlen, List.range'_succ]
    · have heq : cur = e := by omega
      subst heq
      simp

theorem charRange_plain (s e : Nat) (h : s ≤ e) (hg : e ≤ 0xD7FF ∨ 0xD7FF < s) :
    charRange s e = List.range' s (e + 1 - s) :=
  charRangeGo_plain _ s e h (Nat.le_refl _) hg

theorem charRange_empty (s e : Nat) (h : e < s) : charRange s e = [] := by
  unfold charRange
  have : e + 1 - s = 0 ∨ e + 1 - s = 1 := by omega
  rcases this with h0 | h1
  · rw [h0]; rfl
  · rw [h1]; unfold charRangeGo
    have h2 : ¬ s < e := by omega
    have h3 : ¬ s = e := by omega
    simp [h2, h3]

theorem mem_charRange_plain (s e c : Nat) (hg : e ≤ 0xD7FF ∨ 0xD7FF < s) :
    c ∈ charRange s e ↔ s ≤ c ∧ c ≤ e := by
  by_cases h : s ≤ e
  · rw [charRange_plain s e h hg, List.mem_range'_1]; omega
  · rw [charRange_empty s e (by omega)]; simp; omega

theorem charRange_nodup_plain (s e : Nat) (hg : e ≤ 0xD7FF ∨ 0xD7FF < s) : (charRange s e).Nodup := by
  by_cases h : s ≤ e
  · rw [charRange_plain s e h hg]; exact List.nodup_range'
  · rw [charRange_empty s e (by omega)]; exact List.nodup_nil

/-! ### The string as a list of ranges (what `StrGlyphMapping::ranges()` iterates), and a cheap
sufficient check for a duplicate-free expansion -/

/-- The inclusive ranges the string encodes, in order (a plain character is a one-element range). -/
def segments : List Nat → List (Nat × Nat)
  | [] => []
  | 0 :: s :: e :: rest => (s, e) :: segments rest
  | 0 :: _ => []
  | c :: rest => (c, c) :: segments rest

theorem expand_eq_segments : ∀ data : List Nat,
    expand data = (segments data).flatMap (fun r => charRange r.1 r.2)
  | [] => by simp [expand, segments]
  | [0] => by simp [expand, segments]
  | [0, _] => by simp [expand, segments]
  | 0 :: s :: e :: rest => by
    have ih := expand_eq_segments rest
    simp [expand, segments, ih]
  | (c + 1) :: rest => by
    have ih := expand_eq_segments rest
    have h1 : charRange (c + 1) (c + 1) = [c + 1] := by
      unfold charRange
      have : c + 1 + 1 - (c + 1) = 1 := by omega
      rw [this]; unfold charRangeGo; simp
    simp [expand, segments, ih, h1]

/-- A range that does not cross the surrogate gap. -/
def segPlain (r : Nat × Nat) : Bool := decide (r.2 ≤ 0xD7FF ∨ 0xD7FF < r.1)

/-- Two inclusive ranges without a common element (an empty range is disjoint from everything). -/
def segDisjoint (r r' : Nat × Nat) : Bool := decide (r.2 < r.1 ∨ r'.2 < r'.1 ∨ r.2 < r'.1 ∨ r'.2 < r.1)

/-- All ranges plain and pairwise disjoint. -/
def segsOK : List (Nat × Nat) → Bool
  | [] => true
  | r :: rs => segPlain r && rs.all (segDisjoint r) && segsOK rs

theorem nodup_of_segsOK : ∀ segs : List (Nat × Nat), segsOK segs = true →
    (segs.flatMap (fun r => charRange r.1 r.2)).Nodup
  | [], _ => by simp
  | r :: rs, h => by
    simp only [segsOK, Bool.and_eq_true, List.all_eq_true] at h
    obtain ⟨⟨hp, hd⟩, hrest⟩ := h
    have hp' : r.2 ≤ 0xD7FF ∨ 0xD7FF < r.1 := by simpa [segPlain] using hp
    have hrs : ∀ r' ∈ rs, segPlain r' = true := by
      have : ∀ (l : List (Nat × Nat)), segsOK l = true → ∀ r' ∈ l, segPlain r' = true := by
        intro l
        induction l with
        | nil => intro _ r' hr'; cases hr'
        | cons a l ih =>
          intro hl r' hr'
          simp only [segsOK, Bool.and_eq_true] at hl
          rcases List.mem_cons.mp hr' with e | e
          · rw [e]; exact hl.1.1
          · exact ih hl.2 r' e
      exact this rs hrest
    rw [List.flatMap_cons, List.nodup_append]
    refine ⟨charRange_nodup_plain r.1 r.2 hp', nodup_of_segsOK rs hrest, ?_⟩
    intro a ha b hb hab
    subst hab
    rw [List.mem_flatMap] at hb
    obtain ⟨r', hr', hb'⟩ := hb
    have hp2 : r'.2 ≤ 0xD7FF ∨ 0xD7FF < r'.1 := by simpa [segPlain] using hrs r' hr'
    rw [mem_charRange_plain _ _ _ hp'] at ha
    rw [mem_charRange_plain _ _ _ hp2] at hb'
    have := hd r' hr'
    simp only [segDisjoint, decide_eq_true_eq] at this
    omega

/-- The expansion of a mapping string has no duplicates when its ranges are plain and pairwise
disjoint (checked on the short range list, whatever the size of the ranges). -/
theorem expand_nodup_of_segsOK (data : List Nat) (h : segsOK (segments data) = true) :
    (expand data).Nodup := by
  rw [expand_eq_segments]; exact nodup_of_segsOK _ h

/-! ### Glyph cells -/

theorem areaDrawable_iff (f : MonoFont) (a : Rect) :
    f.areaDrawable a = true ↔
      0 < a.size.w ∧ 0 < a.size.h ∧ 0 ≤ a.tl.x ∧ 0 ≤ a.tl.y ∧
      a.tl.x.toNat + a.size.w ≤ f.imgW ∧ a.tl.y.toNat + a.size.h ≤ f.imgH := by
  unfold MonoFont.areaDrawable Rect.isZeroSized
  simp only [Bool.not_eq_true', Bool.or_eq_false_iff, decide_eq_false_iff_not, beq_eq_false_iff_ne, ne_eq]
  omega

/-- Every glyph index below `glyphs_per_row * rows` has its cell completely inside the image
(for every font, not only the built-in ones). -/
theorem cell_inside_of_lt (f : MonoFont) (gi : Nat) (hcw : 0 < f.cw) (hch : 0 < f.ch)
    (h : gi < (f.imgW / f.cw) * (f.imgH / f.ch)) :
    f.areaDrawable (f.glyphAreaOfIndex gi) = true := by
  have hgpr : 0 < f.imgW / f.cw := by
    rcases Nat.eq_zero_or_pos (f.imgW / f.cw) with h0 | h0
    · rw [h0] at h; simp at h
    · exact h0
  have hw : f.cw ≤ f.imgW := by
    by_cases hle : f.cw ≤ f.imgW
    · exact hle
    · have : f.imgW / f.cw = 0 := Nat.div_eq_of_lt (by omega)
      omega
  rw [areaDrawable_iff]
  unfold MonoFont.glyphAreaOfIndex
  have hc : ¬ (f.cw = 0 ∨ f.imgW < f.cw) := by omega
  simp only [hc, ↓reduceIte]
  have hrow : gi / (f.imgW / f.cw) < f.imgH / f.ch := by
    apply (Nat.div_lt_iff_lt_mul hgpr).mpr
    rw [Nat.mul_comm]; exact h
  have hcol : gi - gi / (f.imgW / f.cw) * (f.imgW / f.cw) < f.imgW / f.cw := by
    have := Nat.mod_lt gi hgpr
    have e := Nat.div_add_mod gi (f.imgW / f.cw)
    have e2 : gi / (f.imgW / f.cw) * (f.imgW / f.cw) = (f.imgW / f.cw) * (gi / (f.imgW / f.cw)) := Nat.mul_comm _ _
    omega
  have h1 : (gi - gi / (f.imgW / f.cw) * (f.imgW / f.cw) + 1) * f.cw ≤ (f.imgW / f.cw) * f.cw :=
    Nat.mul_le_mul_right _ hcol
  have h2 : (f.imgW / f.cw) * f.cw ≤ f.imgW := Nat.div_mul_le_self _ _
  have h3 : (gi / (f.imgW / f.cw) + 1) * f.ch ≤ (f.imgH / f.ch) * f.ch := Nat.mul_le_mul_right _ hrow
  have h4 : (f.imgH / f.ch) * f.ch ≤ f.imgH := Nat.div_mul_le_self _ _
  rw [Nat.add_mul] at h1 h3
  simp only [Nat.one_mul] at h1 h3
  refine ⟨hcw, hch, by omega, by omega, ?_, ?_⟩
  · simp only [Int.toNat_natCast]; omega
  · simp only [Int.toNat_natCast]; omega

/-- Cells of different indices of one font do not overlap: different column or different row. -/
theorem glyphArea_injective (f : MonoFont) (i j : Nat) (hcw : 0 < f.cw) (hch : 0 < f.ch)
    (hw : f.cw ≤ f.imgW) (h : f.glyphAreaOfIndex i = f.glyphAreaOfIndex j) : i = j := by
  unfold MonoFont.glyphAreaOfIndex at h
  have hc : ¬ (f.cw = 0 ∨ f.imgW < f.cw) := by omega
  simp only [hc, ↓reduceIte, Rect.mk.injEq, Pt.mk.injEq, Int.natCast_inj, and_true] at h
  have hgpr : 0 < f.imgW / f.cw := Nat.div_pos hw hcw
  obtain ⟨hx, hy⟩ := h
  have hy' := Nat.eq_of_mul_eq_mul_right hch hy
  have hx' := Nat.eq_of_mul_eq_mul_right hcw hx
  have ei := Nat.div_add_mod i (f.imgW / f.cw)
  have ej := Nat.div_add_mod j (f.imgW / f.cw)
  have ci : i / (f.imgW / f.cw) * (f.imgW / f.cw) = (f.imgW / f.cw) * (i / (f.imgW / f.cw)) := Nat.mul_comm _ _
  have cj : j / (f.imgW / f.cw) * (f.imgW / f.cw) = (f.imgW / f.cw) * (j / (f.imgW / f.cw)) := Nat.mul_comm _ _
  rw [hy'] at hx' ci ei
  omega

end Font
end EG
