/-
  EG.Lemmas.CheckedSegment — range theorems of the thick-segment kernels
  (Model/CheckedSegment.lean), and the bound that makes them apply at display scale:

  * every corner of a `LineJoin` built from display-scale edge lines (`Joins.EdgeDS`: start and
    delta within +-4096) lies within 2^27 + 4096 of the origin (`Near`): a corner is an end of
    an edge line or an intersection point that passed `nearly_colinear_has_error`, and the latter
    is within 2^27 of an edge start (`Joins.rawPoint_near_start`, Lagrange's identity);
  * for segments whose join corners are `Near`, `edges_bounding_box`, the cap midpoints and all
    Bresenham intersections of `intersection` are the plain ones (line ends within 2^28 = `W`).
-/
import EG.Lemmas.CheckedScanline
import EG.Lemmas.JoinsExtentsBound
import EG.Model.CheckedSegment
namespace EG.Chk.Joins
open EG EG.Joins EG.Chk

/-- within 2^27 + 4096 of the origin -/
def Near (p : Pt) : Prop := (-134221824 ≤ p.x ∧ p.x ≤ 134221824) ∧ (-134221824 ≤ p.y ∧ p.y ≤ 134221824)
instance (p : Pt) : Decidable (Near p) := by unfold Near; exact inferInstance

theorem Near.W {p : Pt} (h : Near p) : W.pt p := by
  obtain ⟨⟨_, _⟩, ⟨_, _⟩⟩ := h
  unfold W.pt W.coord; omega

/-- all four corners of a join are `Near` -/
def JoinNear (j : LineJoin) : Prop :=
  Near j.firstEdgeEnd.left ∧ Near j.firstEdgeEnd.right ∧ Near j.secondEdgeStart.left ∧
  Near j.secondEdgeStart.right

theorem edge_ends_near {l : Line} (h : EdgeDS l) : Near l.start ∧ Near l.stop := by
  obtain ⟨⟨⟨_, _⟩, ⟨_, _⟩⟩, ⟨⟨_, _⟩, ⟨_, _⟩⟩⟩ := h
  simp only [Line.delta, Pt.sub_x, Pt.sub_y] at *
  unfold Near
  omega

theorem satI32_id {a : Int} (h : -2147483648 ≤ a ∧ a ≤ 2147483647) : satI32 a = a := by
  unfold satI32
  rw [if_neg (by omega), if_neg (by omega)]

/-- The point `intersection()` returns for two display-scale edge lines, when it is used. -/
theorem intersection_point_near {l1 l2 : Line} (h1 : EdgeDS l1) (h2 : EdgeDS l2) {p : Pt} {side : Thick.LineSide}
    (hi : (IntersectionParams.fromLines l1 l2).intersection = .point p side)
    (hnc : (IntersectionParams.fromLines l1 l2).nearlyColinearHasError = false) : Near p := by
  obtain ⟨⟨hx1, hx2⟩, ⟨hy1, hy2⟩⟩ := rawPoint_near_start h1 h2 hnc
  obtain ⟨⟨⟨_, _⟩, ⟨_, _⟩⟩, _⟩ := h1
  unfold IntersectionParams.intersection at hi
  split at hi
  · cases hi
  · simp only [Intersection.point.injEq] at hi
    rw [← hi.1]
    unfold IntersectionParams.rawPoint at hx1 hx2 hy1 hy2
    simp only at hx1 hx2 hy1 hy2
    rw [roundDiv_eq, roundDiv_eq, satI32_id (by omega), satI32_id (by omega)]
    unfold Near
    simp only
    omega

/-- The two points the private `intersections` of line_join.rs hands back. -/
theorem intersections_near {fl fr sl sr : Line} (h1 : EdgeDS fl) (h2 : EdgeDS fr) (h3 : EdgeDS sl)
    (h4 : EdgeDS sr) {l r : Pt} {side : Thick.LineSide}
    (h : Joins.intersections fl fr sl sr = some (l, side, r)) : Near l ∧ Near r := by
  unfold Joins.intersections at h
  simp only at h
  cases hi1 : (IntersectionParams.fromLines sl fl).intersection with
  | colinear => rw [hi1] at h; cases h
  | point p1 s1 =>
    rw [hi1] at h
    simp only at h
    cases hi2 : (IntersectionParams.fromLines sr fr).intersection with
    | colinear => rw [hi2] at h; cases h
    | point p2 s2 =>
      rw [hi2] at h
      simp only [Option.some.injEq, Prod.mk.injEq] at h
      obtain ⟨e1, _, e2⟩ := h
      constructor
      · rw [← e1]
        cases hnc : (IntersectionParams.fromLines sl fl).nearlyColinearHasError with
        | false => simp only [Bool.not_false, ↓reduceIte]; exact intersection_point_near h3 h1 hi1 hnc
        | true => simp only [Bool.not_true, Bool.false_eq_true, ↓reduceIte]; exact (edge_ends_near h1).2
      · rw [← e2]
        cases hnc : (IntersectionParams.fromLines sr fr).nearlyColinearHasError with
        | false => simp only [Bool.not_false, ↓reduceIte]; exact intersection_point_near h4 h2 hi2 hnc
        | true => simp only [Bool.not_true, Bool.false_eq_true, ↓reduceIte]; exact (edge_ends_near h2).2

/-- **Every corner of a join of display-scale edge lines is within 2^27 + 4096.** -/
theorem fromExtents_near (mid : Pt) (w : Nat) {fl fr sl sr : Line} (h1 : EdgeDS fl) (h2 : EdgeDS fr)
    (h3 : EdgeDS sl) (h4 : EdgeDS sr) : JoinNear (LineJoin.fromExtents mid w fl fr sl sr) := by
  obtain ⟨a1, a2⟩ := edge_ends_near h1
  obtain ⟨b1, b2⟩ := edge_ends_near h2
  obtain ⟨c1, c2⟩ := edge_ends_near h3
  obtain ⟨d1, d2⟩ := edge_ends_near h4
  unfold LineJoin.fromExtents JoinNear
  cases hi : Joins.intersections fl fr sl sr with
  | none => exact ⟨a2, b2, c1, d1⟩
  | some t =>
    obtain ⟨l, side, r⟩ := t
    obtain ⟨nl, nr⟩ := intersections_near h1 h2 h3 h4 hi
    simp only
    cases side <;> simp only <;> split <;> (try split) <;>
      first
        | exact ⟨nl, nr, nl, nr⟩
        | exact ⟨a2, nr, c1, nr⟩
        | exact ⟨nl, b2, nl, d1⟩
        | exact ⟨a2, b2, c1, d1⟩

/-- `LineJoin::from_points` of three display-scale vertices, stroke width up to 128, any offset. -/
theorem fromPoints_near {start mid stop : Pt} (h1 : VDS start) (h2 : VDS mid) (h3 : VDS stop) {w : Nat}
    (hw : w ≤ 128) {off : Thick.StrokeOffset} {j : LineJoin}
    (h : LineJoin.fromPoints start mid stop w off = some j) : JoinNear j := by
  unfold LineJoin.fromPoints at h
  cases he1 : extents ⟨start, mid⟩ w off with
  | none => rw [he1] at h; cases h
  | some p1 =>
    obtain ⟨fl, fr⟩ := p1
    cases he2 : extents ⟨mid, stop⟩ w off with
    | none => rw [he1, he2] at h; cases h
    | some p2 =>
      obtain ⟨sl, sr⟩ := p2
      rw [he1, he2] at h
      simp only [Option.bind_eq_bind, Option.bind_some, Option.pure_def, Option.some.injEq] at h
      obtain ⟨e1, e2⟩ := extents_edgeDS (l := ⟨start, mid⟩) h1 h2 hw he1
      obtain ⟨e3, e4⟩ := extents_edgeDS (l := ⟨mid, stop⟩) h2 h3 hw he2
      rw [← h]
      exact fromExtents_near mid w e1 e2 e3 e4

/-- `LineJoin::start` / `LineJoin::end` of a display-scale segment. -/
theorem start_near {a b : Pt} (h1 : VDS a) (h2 : VDS b) {w : Nat} (hw : w ≤ 128) {off : Thick.StrokeOffset}
    {j : LineJoin} (h : LineJoin.start a b w off = some j) : JoinNear j := by
  unfold LineJoin.start at h
  cases he : extents ⟨a, b⟩ w off with
  | none => rw [he] at h; cases h
  | some p =>
    obtain ⟨l, r⟩ := p
    rw [he] at h
    simp only [Option.bind_eq_bind, Option.bind_some, Option.pure_def, Option.some.injEq] at h
    obtain ⟨e1, e2⟩ := extents_edgeDS (l := ⟨a, b⟩) h1 h2 hw he
    rw [← h]
    exact ⟨(edge_ends_near e1).1, (edge_ends_near e2).1, (edge_ends_near e1).1, (edge_ends_near e2).1⟩

theorem stop_near {a b : Pt} (h1 : VDS a) (h2 : VDS b) {w : Nat} (hw : w ≤ 128) {off : Thick.StrokeOffset}
    {j : LineJoin} (h : LineJoin.stop a b w off = some j) : JoinNear j := by
  unfold LineJoin.stop at h
  cases he : extents ⟨a, b⟩ w off with
  | none => rw [he] at h; cases h
  | some p =>
    obtain ⟨l, r⟩ := p
    rw [he] at h
    simp only [Option.bind_eq_bind, Option.bind_some, Option.pure_def, Option.some.injEq] at h
    obtain ⟨e1, e2⟩ := extents_edgeDS (l := ⟨a, b⟩) h1 h2 hw he
    rw [← h]
    exact ⟨(edge_ends_near e1).2, (edge_ends_near e2).2, (edge_ends_near e1).2, (edge_ends_near e2).2⟩

/-! ## The kernels -/

theorem midpoint_ok {l : Line} (hs : Near l.start) (he : Near l.stop) :
    EG.Chk.Joins.midpoint l = some (EG.Joins.midpoint l) ∧ Near (EG.Joins.midpoint l) := by
  obtain ⟨⟨_, _⟩, ⟨_, _⟩⟩ := hs
  obtain ⟨⟨_, _⟩, ⟨_, _⟩⟩ := he
  have tx : ∀ d : Int, (0 ≤ d → 0 ≤ tdiv2 d ∧ tdiv2 d ≤ d) ∧ (d < 0 → d ≤ tdiv2 d ∧ tdiv2 d ≤ 0) := by
    intro d; unfold tdiv2; constructor <;> intro h <;> split <;> omega
  have hx := tx (l.stop.x - l.start.x)
  have hy := tx (l.stop.y - l.start.y)
  constructor
  · unfold EG.Chk.Joins.midpoint EG.Joins.midpoint
    rw [ptSub_ok (by omega) (by omega)]
    simp only [Option.bind_eq_bind, Option.bind_some, Pt.sub_x, Pt.sub_y]
    rw [ptAdd_ok (by simp only; omega) (by simp only; omega)]
  · unfold EG.Joins.midpoint Near
    simp only [Pt.add_x, Pt.add_y, Pt.sub_x, Pt.sub_y]
    omega

theorem fillerLine_near {j : LineJoin} (hj : JoinNear j) {f : Line} (h : j.fillerLine = some f) :
    Near f.start ∧ Near f.stop := by
  obtain ⟨a, b, c, d⟩ := hj
  unfold LineJoin.fillerLine at h
  split at h
  · split at h <;> (cases h; first | exact ⟨a, c⟩ | exact ⟨b, d⟩)
  · split at h <;> (cases h; first | exact ⟨a, c⟩ | exact ⟨b, d⟩)
  · cases h

/-- all ends of the cap lines are `Near` -/
def CapNear (c : Line × Option Line) : Prop :=
  (Near c.1.start ∧ Near c.1.stop) ∧ ∀ l, c.2 = some l → Near l.start ∧ Near l.stop

theorem cap_ok {j : LineJoin} (hj : JoinNear j) {c : EdgeCorners} (hl : Near c.left) (hr : Near c.right) :
    EG.Chk.Joins.cap j c = some (j.cap c) ∧ CapNear (j.cap c) := by
  unfold EG.Chk.Joins.cap LineJoin.cap
  cases hf : j.fillerLine with
  | none => exact ⟨rfl, ⟨hl, hr⟩, fun _ h => by cases h⟩
  | some f =>
    obtain ⟨fs, fe⟩ := fillerLine_near hj hf
    obtain ⟨e, hm⟩ := midpoint_ok fs fe
    simp only
    rw [e]
    refine ⟨rfl, ⟨hl, hm⟩, ?_⟩
    intro l h
    simp only [Option.some.injEq] at h
    rw [← h]
    exact ⟨hm, hr⟩

theorem bint_eq (s : EG.Scanline) (l : Line) :
    EG.Joins.bint s l = s.bresenhamIntersection l.start l.stop (Line.points l) := by
  unfold EG.Joins.bint EG.Scanline.bresenhamIntersection
  simp only
  generalize (if l.start.y ≤ l.stop.y then decide (l.start.y ≤ s.y ∧ s.y ≤ l.stop.y)
    else decide (l.stop.y ≤ s.y ∧ s.y ≤ l.start.y)) = inY
  cases inY <;> simp

namespace ThickSegment

/-- both joins of a segment have `Near` corners -/
def SegNear (s : EG.Joins.ThickSegment) : Prop := JoinNear s.startJoin ∧ JoinNear s.endJoin

theorem edges_near {s : EG.Joins.ThickSegment} (h : SegNear s) :
    (Near s.edges.1.start ∧ Near s.edges.1.stop) ∧ (Near s.edges.2.start ∧ Near s.edges.2.stop) := by
  obtain ⟨⟨_, _, a3, a4⟩, ⟨b1, b2, _, _⟩⟩ := h
  exact ⟨⟨a4, b2⟩, ⟨b1, a3⟩⟩

/-- **`edges_bounding_box`**. -/
theorem edgesBoundingBox_ok {s : EG.Joins.ThickSegment} (h : SegNear s) :
    edgesBoundingBox s = some s.edgesBoundingBox := by
  obtain ⟨⟨⟨⟨_, _⟩, ⟨_, _⟩⟩, ⟨⟨_, _⟩, ⟨_, _⟩⟩⟩, ⟨⟨⟨_, _⟩, ⟨_, _⟩⟩, ⟨⟨_, _⟩, ⟨_, _⟩⟩⟩⟩ := edges_near h
  unfold edgesBoundingBox EG.Joins.ThickSegment.edgesBoundingBox EG.Chk.Joins.lineBoundingBox EG.Joins.lineBoundingBox
  simp only
  split
  · exact withCorners_ok (by omega) (by omega)
  · apply withCorners_ok <;> simp only [Pt.componentMin, Pt.componentMax] <;> omega

theorem bintAll_ok : ∀ (ls : List Line) (s : EG.Scanline),
    (∀ l ∈ ls, Near l.start ∧ Near l.stop) → bintAll ls s = some (ls.foldl EG.Joins.bint s) := by
  intro ls
  induction ls with
  | nil => intro s _; rfl
  | cons l rest ih =>
    intro s h
    obtain ⟨hs, he⟩ := h l (List.mem_cons_self ..)
    unfold bintAll
    rw [Scanline.bresenhamIntersection_ok s hs.W he.W]
    simp only [Option.bind_eq_bind, Option.bind_some, List.foldl_cons, bint_eq]
    rw [← bint_eq]
    exact ih _ (fun l' hl' => h l' (List.mem_cons_of_mem _ hl'))

theorem outline_ok {s : EG.Joins.ThickSegment} (h : SegNear s) :
    outline s = some s.outline ∧ ∀ l ∈ s.outline, Near l.start ∧ Near l.stop := by
  obtain ⟨e1, e2⟩ := edges_near h
  obtain ⟨hj1, hj2⟩ := h
  unfold outline EG.Joins.ThickSegment.outline
  split
  · refine ⟨rfl, ?_⟩
    intro l hl
    simp only [List.mem_cons, List.not_mem_nil, or_false] at hl
    rw [hl]; exact e1
  · obtain ⟨c1, ⟨n1, n1'⟩⟩ := cap_ok hj1 (c := s.startJoin.secondEdgeStart) hj1.2.2.1 hj1.2.2.2
    obtain ⟨c2, ⟨n2, n2'⟩⟩ := cap_ok hj2 (c := s.endJoin.firstEdgeEnd) hj2.1 hj2.2.1
    rw [c1, c2]
    simp only [Option.bind_eq_bind, Option.bind_some, LineJoin.startCapLines, LineJoin.endCapLines]
    refine ⟨rfl, ?_⟩
    intro l hl
    simp only [List.mem_append, List.mem_cons, List.not_mem_nil, or_false] at hl
    rcases hl with (((rfl | hl) | rfl) | hl) | rfl | rfl
    · exact n1
    · cases ho : (s.startJoin.cap s.startJoin.secondEdgeStart).2 with
      | none => rw [ho] at hl; simp at hl
      | some l2 =>
        rw [ho] at hl
        simp only [List.mem_cons, List.not_mem_nil, or_false] at hl
        rw [hl]; exact n1' l2 ho
    · exact n2
    · cases ho : (s.endJoin.cap s.endJoin.firstEdgeEnd).2 with
      | none => rw [ho] at hl; simp at hl
      | some l2 =>
        rw [ho] at hl
        simp only [List.mem_cons, List.not_mem_nil, or_false] at hl
        rw [hl]; exact n2' l2 ho
    · exact e1
    · exact e2

/-- **`ThickSegment::intersection`**, every row. -/
theorem intersection_ok {s : EG.Joins.ThickSegment} (h : SegNear s) (y : Int) :
    intersection s y = some (s.intersection y) := by
  obtain ⟨e, hn⟩ := outline_ok h
  unfold intersection EG.Joins.ThickSegment.intersection
  rw [e]
  simp only [Option.bind_eq_bind, Option.bind_some]
  exact bintAll_ok _ _ hn

end ThickSegment

/-! ## The fold over `edges_bounding_box` -/

theorem bottomRight_withCorners {a b : Pt} (ha : Near a) (hb : Near b) :
    bottomRight (Rect.withCorners a b) = some (Rect.withCorners a b).bottomRight ∧
    Near (Rect.withCorners a b).tl ∧
    Near ((Rect.withCorners a b).bottomRight.getD (Rect.withCorners a b).tl) := by
  obtain ⟨⟨_, _⟩, ⟨_, _⟩⟩ := ha
  obtain ⟨⟨_, _⟩, ⟨_, _⟩⟩ := hb
  refine ⟨?_, ?_, ?_⟩
  · unfold bottomRight Rect.bottomRight Rect.withCorners
    simp only
    rw [if_pos (by omega)]
    rw [ptAddSize_ok (by simp only; omega) (by simp only; omega) (by simp only; omega) (by simp only; omega)]
    simp only [Option.bind_eq_bind, Option.bind_some]
    rw [ptSub_ok (by simp only; omega) (by simp only; omega)]
    rw [if_pos (by omega)]
    rfl
  · unfold Rect.withCorners Near; simp only; omega
  · unfold Rect.withCorners Rect.bottomRight Near
    simp only
    rw [if_pos (by omega)]
    simp only [Option.getD_some]
    omega

/-- a fold accumulator: still the initial `(i32::MAX, i32::MIN)` or two `Near` points -/
def AccOk (acc : Pt × Pt) : Prop :=
  acc = (⟨2147483647, 2147483647⟩, ⟨-2147483648, -2147483648⟩) ∨ (Near acc.1 ∧ Near acc.2)

theorem foldBoxStep_ok {acc : Pt × Pt} (ha : AccOk acc) {seg : EG.Joins.ThickSegment}
    (hs : ThickSegment.SegNear seg) :
    foldBoxStep acc seg = some (acc.1.componentMin seg.edgesBoundingBox.tl,
      acc.2.componentMax (seg.edgesBoundingBox.bottomRight.getD seg.edgesBoundingBox.tl)) ∧
    Near (acc.1.componentMin seg.edgesBoundingBox.tl) ∧
    Near (acc.2.componentMax (seg.edgesBoundingBox.bottomRight.getD seg.edgesBoundingBox.tl)) := by
  obtain ⟨⟨e1s, e1e⟩, ⟨e2s, e2e⟩⟩ := ThickSegment.edges_near hs
  -- the box is `with_corners` of two `Near` points in both arms
  have hbox : ∃ a b, Near a ∧ Near b ∧ seg.edgesBoundingBox = Rect.withCorners a b := by
    unfold EG.Joins.ThickSegment.edgesBoundingBox EG.Joins.lineBoundingBox
    simp only
    split
    · exact ⟨_, _, e1s, e1e, rfl⟩
    · refine ⟨_, _, ?_, ?_, rfl⟩
      · obtain ⟨⟨_, _⟩, ⟨_, _⟩⟩ := e1s; obtain ⟨⟨_, _⟩, ⟨_, _⟩⟩ := e1e
        obtain ⟨⟨_, _⟩, ⟨_, _⟩⟩ := e2s; obtain ⟨⟨_, _⟩, ⟨_, _⟩⟩ := e2e
        unfold Near; simp only [Pt.componentMin]; omega
      · obtain ⟨⟨_, _⟩, ⟨_, _⟩⟩ := e1s; obtain ⟨⟨_, _⟩, ⟨_, _⟩⟩ := e1e
        obtain ⟨⟨_, _⟩, ⟨_, _⟩⟩ := e2s; obtain ⟨⟨_, _⟩, ⟨_, _⟩⟩ := e2e
        unfold Near; simp only [Pt.componentMax]; omega
  obtain ⟨a, b, na, nb, eb⟩ := hbox
  obtain ⟨ebr, ntl, nbr⟩ := bottomRight_withCorners na nb
  rw [← eb] at ebr ntl nbr
  obtain ⟨⟨_, _⟩, ⟨_, _⟩⟩ := ntl
  obtain ⟨⟨_, _⟩, ⟨_, _⟩⟩ := nbr
  refine ⟨?_, ?_, ?_⟩
  · unfold foldBoxStep
    rw [ThickSegment.edgesBoundingBox_ok hs]
    simp only [Option.bind_eq_bind, Option.bind_some]
    rw [ebr]
    rfl
  · rcases ha with rfl | ⟨⟨⟨_, _⟩, ⟨_, _⟩⟩, _⟩ <;> (unfold Near; simp only [Pt.componentMin]; omega)
  · rcases ha with rfl | ⟨_, ⟨⟨_, _⟩, ⟨_, _⟩⟩⟩ <;> (unfold Near; simp only [Pt.componentMax]; omega)

theorem foldBoxes_ok : ∀ (segs : List EG.Joins.ThickSegment) (acc : Pt × Pt), AccOk acc →
    (∀ s ∈ segs, ThickSegment.SegNear s) →
    foldBoxes segs acc = some (segs.foldl (fun (acc : Pt × Pt) seg =>
      (acc.1.componentMin seg.edgesBoundingBox.tl,
        acc.2.componentMax (seg.edgesBoundingBox.bottomRight.getD seg.edgesBoundingBox.tl))) acc) ∧
    (segs ≠ [] → Near (segs.foldl (fun (acc : Pt × Pt) seg =>
      (acc.1.componentMin seg.edgesBoundingBox.tl,
        acc.2.componentMax (seg.edgesBoundingBox.bottomRight.getD seg.edgesBoundingBox.tl))) acc).1 ∧
      Near (segs.foldl (fun (acc : Pt × Pt) seg =>
      (acc.1.componentMin seg.edgesBoundingBox.tl,
        acc.2.componentMax (seg.edgesBoundingBox.bottomRight.getD seg.edgesBoundingBox.tl))) acc).2) := by
  intro segs
  induction segs with
  | nil => intro acc _ _; exact ⟨rfl, fun h => absurd rfl h⟩
  | cons sg rest ih =>
    intro acc ha hs
    obtain ⟨e, n1, n2⟩ := foldBoxStep_ok ha (hs sg (List.mem_cons_self ..))
    unfold foldBoxes
    rw [e]
    simp only [Option.bind_eq_bind, Option.bind_some, List.foldl_cons]
    obtain ⟨e2, hn⟩ := ih (acc.1.componentMin sg.edgesBoundingBox.tl,
      acc.2.componentMax (sg.edgesBoundingBox.bottomRight.getD sg.edgesBoundingBox.tl))
      (Or.inr ⟨n1, n2⟩) (fun s' h' => hs s' (List.mem_cons_of_mem _ h'))
    refine ⟨e2, fun _ => ?_⟩
    cases rest with
    | nil => exact ⟨n1, n2⟩
    | cons r rs => exact hn (by simp)

/-- **The bounding-box fold** of `untranslated_bounding_box` / `styled_bounding_box` over a
non-empty list of segments with `Near` corners. -/
theorem foldEdgeBoxes_ok {segs : List EG.Joins.ThickSegment} (hne : segs ≠ [])
    (hs : ∀ s ∈ segs, ThickSegment.SegNear s) :
    foldEdgeBoxes segs = some (EG.Joins.foldEdgeBoxes segs) := by
  obtain ⟨e, hn⟩ := foldBoxes_ok segs _ (Or.inl rfl) hs
  obtain ⟨⟨⟨_, _⟩, ⟨_, _⟩⟩, ⟨⟨_, _⟩, ⟨_, _⟩⟩⟩ := hn hne
  unfold foldEdgeBoxes EG.Joins.foldEdgeBoxes
  rw [e]
  simp only [Option.bind_eq_bind, Option.bind_some]
  exact withCorners_ok (by omega) (by omega)

end EG.Chk.Joins
