/-
  EG.Lemmas.Framebuffer — `set_pixel` is `store` at the pixel's index, `pixel` is `load` at the
  same index (through `as_image` / `ImageRaw::pixel` / `RawDataIterator::nth`), the index map is
  injective on the framebuffer's area and stays inside the used prefix `BUFFER_SIZE`.
-/
import EG.Lemmas.RawIter
import EG.Model.Framebuffer
namespace EG.Fb
open EG EG.Raw

/-- Well-formed framebuffer: one of the seven raw types, a byte buffer, `N >= BUFFER_SIZE`
(the compile-time `CHECK_N`), and a buffer that a 64-bit host can hold. -/
structure Fb.Wf (fb : Fb) : Prop where
  bits : validBits fb.bits = true
  bytes : BytesOk fb.data
  size : fb.bufSize ≤ fb.data.length
  fits : fb.data.length * 8 ≤ usizeMax

/-- Row width in pixels including the padding pixels (`ImageRaw::data_width`). -/
def Fb.rowPixels (fb : Fb) : Nat :=
  if fb.bits < 8 then bytesPerRow fb.width fb.bits * (8 / fb.bits) else fb.width

/-- Index of pixel `p` in the raw data (`x + y * data_width`). -/
def Fb.index (fb : Fb) (p : Pt) : Nat := p.x.toNat + p.y.toNat * fb.rowPixels

/-! ### Index arithmetic -/

theorem width_le_rowPixels (fb : Fb) (hb : validBits fb.bits = true) : fb.width ≤ fb.rowPixels := by
  unfold Fb.rowPixels bytesPerRow
  rcases validBits_cases hb with h | h | h
  · rcases h with h | h | h <;> rw [h] <;> simp only [Nat.reduceLT, ↓reduceIte, Nat.reduceDiv] <;> omega
  · rw [h]; simp
  · rcases h with h | h | h <;> rw [h] <;> simp

/-- `x + y * R` with `x < w ≤ R`, `y < h` is below `R * h`. -/
theorem lin_lt {x y w h R : Nat} (hx : x < w) (hy : y < h) (hw : w ≤ R) : x + y * R < h * R := by
  have h1 : (y + 1) * R ≤ h * R := Nat.mul_le_mul_right R hy
  rw [Nat.succ_mul] at h1
  omega

theorem lin_inj {x y x' y' w R : Nat} (hx : x < w) (hx' : x' < w) (hw : w ≤ R)
    (h : x + y * R = x' + y' * R) : x = x' ∧ y = y' := by
  have hR : 0 < R := by omega
  have h1 : (x + y * R) % R = x := by rw [Nat.add_mul_mod_self_right]; exact Nat.mod_eq_of_lt (by omega)
  have h2 : (x' + y' * R) % R = x' := by rw [Nat.add_mul_mod_self_right]; exact Nat.mod_eq_of_lt (by omega)
  have h3 : (x + y * R) / R = y := by
    rw [Nat.add_mul_div_right _ _ hR, Nat.div_eq_of_lt (by omega)]; omega
  have h4 : (x' + y' * R) / R = y' := by
    rw [Nat.add_mul_div_right _ _ hR, Nat.div_eq_of_lt (by omega)]; omega
  rw [h] at h1 h3
  exact ⟨by omega, by omega⟩

theorem pixelCount_mono (bits : Nat) {m m' : Nat} (h : m ≤ m') :
    pixelCount bits m ≤ pixelCount bits m' := by
  unfold pixelCount
  split
  · exact Nat.mul_le_mul_right _ h
  · exact Nat.div_le_div_right h

/-- The number of pixels in the used prefix is `height * rowPixels`. -/
theorem pixelCount_bufSize (fb : Fb) (hb : validBits fb.bits = true) :
    pixelCount fb.bits fb.bufSize = fb.height * fb.rowPixels := by
  unfold Fb.bufSize bufferSize Fb.rowPixels pixelCount bytesPerRow
  rcases validBits_cases hb with h | h | h
  · have := subByte_lt h
    simp only [this, ↓reduceIte]
    rw [Nat.mul_comm ((fb.width * fb.bits + 7) / 8) fb.height, Nat.mul_assoc]
  · rw [h]
    simp only [Nat.lt_irrefl, ↓reduceIte, Nat.reduceDiv, Nat.div_one]
    have : (fb.width * 8 + 7) / 8 = fb.width := by omega
    rw [this, Nat.mul_comm]
  · rcases h with h | h | h <;> rw [h] <;> simp only [Nat.reduceLT, ↓reduceIte, Nat.reduceDiv]
    · have : (fb.width * 16 + 7) / 8 = fb.width * 2 := by omega
      rw [this, Nat.mul_right_comm, Nat.mul_div_cancel _ (by decide : 0 < 2), Nat.mul_comm]
    · have : (fb.width * 24 + 7) / 8 = fb.width * 3 := by omega
      rw [this, Nat.mul_right_comm, Nat.mul_div_cancel _ (by decide : 0 < 3), Nat.mul_comm]
    · have : (fb.width * 32 + 7) / 8 = fb.width * 4 := by omega
      rw [this, Nat.mul_right_comm, Nat.mul_div_cancel _ (by decide : 0 < 4), Nat.mul_comm]

/-- Every pixel of the area has its index inside the used prefix. -/
theorem index_lt_prefix (fb : Fb) (hb : validBits fb.bits = true) {p : Pt} (hp : fb.inside p) :
    fb.index p < pixelCount fb.bits fb.bufSize := by
  rw [pixelCount_bufSize fb hb]
  obtain ⟨_, _, hx, hy⟩ := hp
  exact lin_lt hx hy (width_le_rowPixels fb hb)

theorem index_lt (fb : Fb) (hw : fb.Wf) {p : Pt} (hp : fb.inside p) :
    fb.index p < pixelCount fb.bits fb.data.length :=
  Nat.lt_of_lt_of_le (index_lt_prefix fb hw.bits hp) (pixelCount_mono _ hw.size)

/-- Distinct pixels of the area have distinct indices. -/
theorem index_inj (fb : Fb) (hb : validBits fb.bits = true) {p q : Pt} (hp : fb.inside p)
    (hq : fb.inside q) (h : fb.index p = fb.index q) : p = q := by
  obtain ⟨hpx, hpy, hx, _⟩ := hp
  obtain ⟨hqx, hqy, hx', _⟩ := hq
  have := lin_inj hx hx' (width_le_rowPixels fb hb) h
  rw [Pt.ext_iff']
  omega

/-! ### `set_pixel` is `store` at the pixel's index -/

theorem setPixel_outside (fb : Fb) {p : Pt} (c : Nat) (hp : ¬ fb.inside p) : fb.setPixel p c = fb := by
  unfold Fb.inside at hp
  by_cases h0 : 0 ≤ p.x ∧ 0 ≤ p.y
  · have h1 : ¬ (p.x.toNat < fb.width ∧ p.y.toNat < fb.height) :=
      fun h => hp ⟨h0.1, h0.2, h.1, h.2⟩
    simp only [Fb.setPixel, h0, h1, and_self, ↓reduceIte]
  · simp only [Fb.setPixel, h0, ↓reduceIte]

theorem setPixel_inside (fb : Fb) (hw : fb.Wf) {p : Pt} (c : Nat) (hp : fb.inside p) :
    fb.setPixel p c = { fb with data := (store fb.bits fb.order c fb.data (fb.index p)).2 } := by
  have hidx := index_lt fb hw hp
  obtain ⟨hx0, hy0, hx, hy⟩ := hp
  have h0 : 0 ≤ p.x ∧ 0 ≤ p.y := ⟨hx0, hy0⟩
  have h1 : p.x.toNat < fb.width ∧ p.y.toNat < fb.height := ⟨hx, hy⟩
  simp only [Fb.setPixel, h0, h1, and_self, ↓reduceIte]
  rcases validBits_cases hw.bits with h | h | h
  · -- impl_bit!
    have h8 := subByte_lt h
    simp only [h8, ↓reduceIte]
    congr 2
    unfold Fb.index Fb.rowPixels bytesPerRow
    simp only [h8, ↓reduceIte]
    rw [Nat.add_comm, Nat.mul_comm]
  · -- RawU8
    have hidx' : fb.index p < fb.data.length := by
      have := hidx; rw [h] at this; simpa [pixelCount] using this
    have hi : fb.index p = p.y.toNat * fb.width + p.x.toNat := by
      unfold Fb.index Fb.rowPixels; rw [h]; simp only [Nat.lt_irrefl, ↓reduceIte]; omega
    simp only [h, Nat.lt_irrefl, ↓reduceIte]
    congr 1
    show _ = (storeU8 c fb.data (fb.index p)).2
    rw [storeU8_of_lt hidx', hi]
  · -- impl_bytes!
    have h8 : ¬ fb.bits < 8 := by rcases h with h | h | h <;> rw [h] <;> decide
    have h8' : ¬ fb.bits = 8 := by rcases h with h | h | h <;> rw [h] <;> decide
    simp only [h8, h8', ↓reduceIte]
    congr 1
    rw [store_multi h]
    have hi : fb.index p = p.y.toNat * fb.width + p.x.toNat := by
      unfold Fb.index Fb.rowPixels; simp only [h8, ↓reduceIte]; omega
    rw [pixelCount_multi h] at hidx
    rw [storeBytes_of_le ((multiByte_inside_iff (multiByte_pos h) _ _).mp hidx), hi]
    rfl

theorem setPixel_bits (fb : Fb) (p : Pt) (c : Nat) : (fb.setPixel p c).bits = fb.bits := by
  simp only [Fb.setPixel]; (repeat' split) <;> rfl
theorem setPixel_order (fb : Fb) (p : Pt) (c : Nat) : (fb.setPixel p c).order = fb.order := by
  simp only [Fb.setPixel]; (repeat' split) <;> rfl
theorem setPixel_width (fb : Fb) (p : Pt) (c : Nat) : (fb.setPixel p c).width = fb.width := by
  simp only [Fb.setPixel]; (repeat' split) <;> rfl
theorem setPixel_height (fb : Fb) (p : Pt) (c : Nat) : (fb.setPixel p c).height = fb.height := by
  simp only [Fb.setPixel]; (repeat' split) <;> rfl

theorem setPixel_inside_iff (fb : Fb) (p : Pt) (c : Nat) (q : Pt) :
    (fb.setPixel p c).inside q ↔ fb.inside q := by
  unfold Fb.inside; rw [setPixel_width, setPixel_height]

theorem setPixel_bufSize (fb : Fb) (p : Pt) (c : Nat) : (fb.setPixel p c).bufSize = fb.bufSize := by
  unfold Fb.bufSize; rw [setPixel_width, setPixel_height, setPixel_bits]

theorem setPixel_index (fb : Fb) (p : Pt) (c : Nat) (q : Pt) :
    (fb.setPixel p c).index q = fb.index q := by
  unfold Fb.index Fb.rowPixels; rw [setPixel_width, setPixel_bits]

theorem setPixel_length (fb : Fb) (hw : fb.Wf) (p : Pt) (c : Nat) :
    (fb.setPixel p c).data.length = fb.data.length := by
  by_cases hp : fb.inside p
  · rw [setPixel_inside fb hw c hp]; exact store_length hw.bits _ _ _ _
  · rw [setPixel_outside fb c hp]

theorem setPixel_wf (fb : Fb) (hw : fb.Wf) (p : Pt) {c : Nat} (hc : c < 2 ^ fb.bits) :
    (fb.setPixel p c).Wf := by
  by_cases hp : fb.inside p
  · refine ⟨by rw [setPixel_bits]; exact hw.bits, ?_, ?_, ?_⟩
    · rw [setPixel_inside fb hw c hp]; exact store_bytesOk hw.bits _ _ hw.bytes hc
    · rw [setPixel_bufSize, setPixel_length fb hw]; exact hw.size
    · rw [setPixel_length fb hw]; exact hw.fits
  · rw [setPixel_outside fb c hp]; exact hw

/-! ### `pixel` is `load` at the pixel's index -/

/-- `load` looks only at the pixel's own bytes: cutting the buffer behind them changes nothing. -/
theorem load_take {bits : Nat} (hb : validBits bits = true) (o : Order) (buf : List Nat) {m i : Nat}
    (hm : m ≤ buf.length) (hi : i < pixelCount bits m) :
    load bits o (buf.take m) i = load bits o buf i := by
  have hi' : i < pixelCount bits buf.length := Nat.lt_of_lt_of_le hi (pixelCount_mono _ hm)
  have hlen : (buf.take m).length = m := by simp only [List.length_take]; omega
  rcases validBits_cases hb with h | h | h
  · have h1 : i / (8 / bits) < m := (subByte_inside_iff h _ _).mp hi
    have h2 : i / (8 / bits) < buf.length := by omega
    rw [load_sub h, load_sub h, loadBits_of_lt (by rw [hlen]; exact h1), loadBits_of_lt h2]
    simp only [List.getElem_take]
  · rw [h] at hi ⊢
    have : i < m := by simpa [pixelCount] using hi
    show (buf.take m)[i]? = buf[i]?
    simp only [List.getElem?_take, this, ↓reduceIte]
  · rw [load_multi h, load_multi h]
    rw [pixelCount_multi h] at hi hi'
    have h1 := (multiByte_inside_iff (multiByte_pos h) _ _).mp hi
    have h2 := (multiByte_inside_iff (multiByte_pos h) _ _).mp hi'
    rw [loadBytes_of_le (by rw [hlen]; exact h1), loadBytes_of_le h2]
    congr 2
    apply window_ext
    intro k hk
    have : i * (bits / 8) + k < m := by omega
    simp only [List.getElem?_take, this, ↓reduceIte]

theorem asImage_eq (fb : Fb) (hw : fb.Wf) :
    fb.asImage = some ⟨fb.bits, fb.order, fb.data.take fb.bufSize, fb.width, fb.height⟩ := by
  have hs := hw.size
  unfold Fb.asImage Img.new
  have hlen : (fb.data.take fb.bufSize).length = bytesPerRow fb.width fb.bits * fb.height := by
    simp only [List.length_take]
    have : fb.bufSize = bytesPerRow fb.width fb.bits * fb.height := rfl
    omega
  simp only [hs, ↓reduceIte, hlen, ne_eq, not_true_eq_false]

theorem pixel_eq_load (fb : Fb) (hw : fb.Wf) (q : Pt) :
    fb.pixel q = if fb.inside q then load fb.bits fb.order fb.data (fb.index q) else none := by
  unfold Fb.pixel
  rw [asImage_eq fb hw]
  simp only [Img.pixel]
  by_cases hq : fb.inside q
  · have hq' := hq
    obtain ⟨hx0, hy0, hx, hy⟩ := hq
    have hc : ¬ (q.x < 0 ∨ q.y < 0 ∨ q.x ≥ (fb.width : Int) ∨ q.y ≥ (fb.height : Int)) := by omega
    simp only [hc, hq', ↓reduceIte]
    have hfit : (fb.data.take fb.bufSize).length * 8 ≤ usizeMax := by
      have := hw.fits
      simp only [List.length_take]; omega
    have hidx : q.x.toNat + q.y.toNat * (Img.dataWidth ⟨fb.bits, fb.order, fb.data.take fb.bufSize, fb.width, fb.height⟩)
        = fb.index q := rfl
    rw [hidx]
    have := Iter.nth_fst (Iter.new fb.bits fb.order (fb.data.take fb.bufSize)) hw.bits hfit (fb.index q)
    simp only [Iter.new, Nat.zero_add] at this ⊢
    rw [this]
    exact load_take hw.bits _ _ hw.size (index_lt_prefix fb hw.bits hq')
  · have hc : q.x < 0 ∨ q.y < 0 ∨ q.x ≥ (fb.width : Int) ∨ q.y ≥ (fb.height : Int) := by
      unfold Fb.inside at hq; omega
    simp only [hc, hq, ↓reduceIte]

/-! ### get / set -/

theorem pixel_setPixel (fb : Fb) (hw : fb.Wf) (p : Pt) {c : Nat} (hc : c < 2 ^ fb.bits) (q : Pt) :
    (fb.setPixel p c).pixel q = if q = p ∧ fb.inside p then some c else fb.pixel q := by
  by_cases hp : fb.inside p
  · rw [pixel_eq_load _ (setPixel_wf fb hw p hc), pixel_eq_load fb hw]
    simp only [setPixel_inside_iff, setPixel_bits, setPixel_order, setPixel_index]
    by_cases hq : fb.inside q
    · simp only [hq, hp, and_true, ↓reduceIte]
      rw [setPixel_inside fb hw c hp]
      by_cases hqp : q = p
      · subst hqp
        simp only [↓reduceIte]
        exact Raw.load_store_same hw.bits _ hw.bytes hc (index_lt fb hw hp)
      · simp only [hqp, ↓reduceIte]
        apply Raw.load_store_other hw.bits _ hw.bytes hc
        intro he
        exact hqp (index_inj fb hw.bits hq hp he)
    · have hqp : ¬ (q = p ∧ fb.inside p) := by
        rintro ⟨rfl, _⟩; exact hq hp
      simp only [hq, hqp, ↓reduceIte]
  · rw [setPixel_outside fb c hp]
    simp only [hp, and_false, ↓reduceIte]

/-- Bytes at positions `>= BUFFER_SIZE` are never modified. -/
theorem setPixel_tail (fb : Fb) (hw : fb.Wf) (p : Pt) (c : Nat) {k : Nat} (hk : fb.bufSize ≤ k) :
    (fb.setPixel p c).data[k]? = fb.data[k]? := by
  by_cases hp : fb.inside p
  · rw [setPixel_inside fb hw c hp]
    apply store_other_bytes hw.bits
    have hidx := index_lt_prefix fb hw.bits hp
    unfold ownByte
    rcases validBits_cases hw.bits with h | h | h
    · have := (subByte_inside_iff h _ _).mp hidx
      simp only [subByte_lt h, ↓reduceIte]
      omega
    · rw [h] at hidx ⊢
      have : fb.index p < fb.bufSize := by simpa [pixelCount] using hidx
      simp only [Nat.lt_irrefl, ↓reduceIte, Nat.reduceDiv, Nat.mul_one]
      omega
    · have h8 : ¬ fb.bits < 8 := by rcases h with h | h | h <;> rw [h] <;> decide
      rw [pixelCount_multi h] at hidx
      have := (multiByte_inside_iff (multiByte_pos h) _ _).mp hidx
      simp only [h8, ↓reduceIte]
      omega
  · rw [setPixel_outside fb c hp]

end EG.Fb
