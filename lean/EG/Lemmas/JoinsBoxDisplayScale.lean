/-
  EG.Lemmas.JoinsBoxDisplayScale — the box guards of the picture-level join theorems
  (`BoxGuard`, `RowsGuard`, `TriBoxGuard`, `TriRowsGuard`) hold at display scale: vertices within
  +-1024 (`VDS`), stroke widths up to 128, moves within +-2^30 (`MoveDS`).

  Every corner point of a `LineJoin` is an end point of an edge line of `Line::extents` (within
  5159 of the origin: `extents_near`) or a USED rounded intersection point (within 2^27 of the start
  of an edge line: `rawPoint_near_start`), so every join corner lies within K = 2^27 + 4096 of the
  origin (`PtNear`). Hence the corners of every segment box and of the folded bounding box do, the
  first box absorbs the `i32::MAX / MIN` sentinels of the fold before and after the move
  (`SentinelOK`), and `rows()` of the moved box does not saturate (3 K + 2^30 + 1 < 2^31).
-/
import EG.Lemmas.JoinsExtentsBound
import EG.Lemmas.JoinsPolyScan
import EG.Lemmas.JoinsTriMove
namespace EG
namespace Joins
open Thick (LineSide StrokeOffset)

/-! ### points near the origin -/

/-- Within `K = 2^27 + 4096` of the origin. -/
def PtNear (p : Pt) : Prop :=
  (-134221824 ≤ p.x ∧ p.x ≤ 134221824) ∧ (-134221824 ≤ p.y ∧ p.y ≤ 134221824)

/-- Within 5159 (= 1024 + 16 * 128 + 37 + 2048 + 2) of the origin. -/
def PtSmall (p : Pt) : Prop := (-5159 ≤ p.x ∧ p.x ≤ 5159) ∧ (-5159 ≤ p.y ∧ p.y ≤ 5159)

theorem PtSmall.near {p : Pt} (h : PtSmall p) : PtNear p := by
  unfold PtSmall at h; unfold PtNear; omega

theorem VDS.near {p : Pt} (h : VDS p) : PtNear p := by
  unfold VDS at h; unfold PtNear; omega

theorem PtNear.min {a b : Pt} (ha : PtNear a) (hb : PtNear b) : PtNear (a.componentMin b) := by
  unfold PtNear at *; simp only [Pt.componentMin]; omega

theorem PtNear.max {a b : Pt} (ha : PtNear a) (hb : PtNear b) : PtNear (a.componentMax b) := by
  unfold PtNear at *; simp only [Pt.componentMax]; omega

/-- The end points of the edge lines of a display-scale segment. -/
theorem extents_small {l : Line} (hs : VDS l.start) (he : VDS l.stop) {w : Nat} (hw : w ≤ 128)
    {off : StrokeOffset} {L R : Line} (h : extents l w off = some (L, R)) :
    (PtSmall L.start ∧ PtSmall L.stop) ∧ (PtSmall R.start ∧ PtSmall R.stop) := by
  obtain ⟨⟨⟨⟨_, _⟩, ⟨_, _⟩⟩, ⟨⟨_, _⟩, ⟨_, _⟩⟩⟩, ⟨⟨⟨_, _⟩, ⟨_, _⟩⟩, ⟨⟨_, _⟩, ⟨_, _⟩⟩⟩⟩ := extents_near h
  obtain ⟨⟨_, _⟩, ⟨_, _⟩⟩ := hs
  obtain ⟨⟨_, _⟩, ⟨_, _⟩⟩ := he
  unfold PtSmall
  simp only [Pt.sub_x, Pt.sub_y] at *
  refine ⟨⟨⟨⟨?_, ?_⟩, ⟨?_, ?_⟩⟩, ⟨⟨?_, ?_⟩, ⟨?_, ?_⟩⟩⟩, ⟨⟨⟨?_, ?_⟩, ⟨?_, ?_⟩⟩, ⟨⟨?_, ?_⟩, ⟨?_, ?_⟩⟩⟩⟩ <;> omega

/-! ### intersection points -/

/-- A USED point of `intersection()` of two display-scale edge lines lies within `K`. -/
theorem intersection_point_near {l1 l2 : Line} (h1 : EdgeDS l1) (h2 : EdgeDS l2)
    (hnc : (IntersectionParams.fromLines l1 l2).nearlyColinearHasError = false) {p : Pt} {s : LineSide}
    (hi : (IntersectionParams.fromLines l1 l2).intersection = .point p s) : PtNear p := by
  obtain ⟨⟨hx1, hx2⟩, ⟨hy1, hy2⟩⟩ := rawPoint_near_start h1 h2 hnc
  obtain ⟨⟨hsx1, hsy1⟩, _⟩ := h1
  unfold IntersectionParams.rawPoint at hx1 hx2 hy1 hy2
  dsimp only at hx1 hx2 hy1 hy2
  unfold IntersectionParams.intersection at hi
  split at hi
  · cases hi
  · simp only [Intersection.point.injEq] at hi
    obtain ⟨rfl, _⟩ := hi
    unfold PtNear
    dsimp only
    rw [roundDiv_eq, roundDiv_eq, satI32_of_inI32 (by unfold inI32; omega),
      satI32_of_inI32 (by unfold inI32; omega)]
    omega

/-- The two corner points `intersections` returns are within `K`. -/
theorem intersections_near {fl fr sl sr : Line} (hfl : EdgeDS fl) (hfr : EdgeDS fr) (hsl : EdgeDS sl)
    (hsr : EdgeDS sr) (hpl : PtNear fl.stop) (hpr : PtNear fr.stop) {lI rI : Pt} {side : LineSide}
    (h : intersections fl fr sl sr = some (lI, side, rI)) : PtNear lI ∧ PtNear rI := by
  unfold intersections at h
  dsimp only at h
  cases h1 : (IntersectionParams.fromLines sl fl).intersection with
  | colinear => rw [h1] at h; cases h
  | point p1 s1 =>
    rw [h1] at h
    dsimp only at h
    cases h2 : (IntersectionParams.fromLines sr fr).intersection with
    | colinear => rw [h2] at h; cases h
    | point p2 s2 =>
      rw [h2] at h
      simp only [Option.some.injEq, Prod.mk.injEq] at h
      obtain ⟨rfl, _, rfl⟩ := h
      constructor
      · cases hnc : (IntersectionParams.fromLines sl fl).nearlyColinearHasError with
        | true => simpa using hpl
        | false => simpa using intersection_point_near hsl hfl hnc h1
      · cases hnc : (IntersectionParams.fromLines sr fr).nearlyColinearHasError with
        | true => simpa using hpr
        | false => simpa using intersection_point_near hsr hfr hnc h2

/-! ### join corners -/

/-- All four corner points of a join are within `K`. -/
def JoinNear (j : LineJoin) : Prop :=
  (PtNear j.firstEdgeEnd.left ∧ PtNear j.firstEdgeEnd.right) ∧
    (PtNear j.secondEdgeStart.left ∧ PtNear j.secondEdgeStart.right)

theorem fromExtents_near (mid : Pt) (w : Nat) {fl fr sl sr : Line} (hfl : EdgeDS fl) (hfr : EdgeDS fr)
    (hsl : EdgeDS sl) (hsr : EdgeDS sr) (h1 : PtNear fl.stop) (h2 : PtNear fr.stop)
    (h3 : PtNear sl.start) (h4 : PtNear sr.start) :
    JoinNear (LineJoin.fromExtents mid w fl fr sl sr) := by
  unfold LineJoin.fromExtents
  cases hI : intersections fl fr sl sr with
  | none => exact ⟨⟨h1, h2⟩, ⟨h3, h4⟩⟩
  | some r =>
    obtain ⟨lI, side, rI⟩ := r
    obtain ⟨hl, hr⟩ := intersections_near hfl hfr hsl hsr h1 h2 hI
    cases side
    · dsimp only
      split
      · split
        · exact ⟨⟨hl, hr⟩, ⟨hl, hr⟩⟩
        · exact ⟨⟨h1, hr⟩, ⟨h3, hr⟩⟩
      · exact ⟨⟨h1, h2⟩, ⟨h3, h4⟩⟩
    · dsimp only
      split
      · split
        · exact ⟨⟨hl, hr⟩, ⟨hl, hr⟩⟩
        · exact ⟨⟨hl, h2⟩, ⟨hl, h4⟩⟩
      · exact ⟨⟨h1, h2⟩, ⟨h3, h4⟩⟩

/-- **Every corner of a join of display-scale vertices lies within `K` of the origin.** -/
theorem fromPoints_near {start mid stop : Pt} (h1 : VDS start) (h2 : VDS mid) (h3 : VDS stop)
    {w : Nat} (hw : w ≤ 128) {off : StrokeOffset} {j : LineJoin}
    (h : LineJoin.fromPoints start mid stop w off = some j) : JoinNear j := by
  unfold LineJoin.fromPoints at h
  cases e1 : extents ⟨start, mid⟩ w off with
  | none => rw [e1] at h; cases h
  | some r1 =>
    obtain ⟨fl, fr⟩ := r1
    cases e2 : extents ⟨mid, stop⟩ w off with
    | none => rw [e1, e2] at h; cases h
    | some r2 =>
      obtain ⟨sl, sr⟩ := r2
      rw [e1, e2] at h
      simp only [Option.bind_eq_bind, Option.bind_some, pure, Option.some.injEq] at h
      subst h
      have hf := extents_edgeDS (l := ⟨start, mid⟩) h1 h2 hw e1
      have hs := extents_edgeDS (l := ⟨mid, stop⟩) h2 h3 hw e2
      have pf := extents_small (l := ⟨start, mid⟩) h1 h2 hw e1
      have ps := extents_small (l := ⟨mid, stop⟩) h2 h3 hw e2
      exact fromExtents_near mid w hf.1 hf.2 hs.1 hs.2 pf.1.2.near pf.2.2.near ps.1.1.near ps.2.1.near

theorem start_near {s m : Pt} (h1 : VDS s) (h2 : VDS m) {w : Nat} (hw : w ≤ 128) {off : StrokeOffset}
    {j : LineJoin} (h : LineJoin.start s m w off = some j) : JoinNear j := by
  unfold LineJoin.start at h
  cases e1 : extents ⟨s, m⟩ w off with
  | none => rw [e1] at h; cases h
  | some r1 =>
    obtain ⟨l, r⟩ := r1
    rw [e1] at h
    simp only [Option.bind_eq_bind, Option.bind_some, pure, Option.some.injEq] at h
    subst h
    have p := extents_small (l := ⟨s, m⟩) h1 h2 hw e1
    exact ⟨⟨p.1.1.near, p.2.1.near⟩, ⟨p.1.1.near, p.2.1.near⟩⟩

theorem stop_near {m e : Pt} (h1 : VDS m) (h2 : VDS e) {w : Nat} (hw : w ≤ 128) {off : StrokeOffset}
    {j : LineJoin} (h : LineJoin.stop m e w off = some j) : JoinNear j := by
  unfold LineJoin.stop at h
  cases e1 : extents ⟨m, e⟩ w off with
  | none => rw [e1] at h; cases h
  | some r1 =>
    obtain ⟨l, r⟩ := r1
    rw [e1] at h
    simp only [Option.bind_eq_bind, Option.bind_some, pure, Option.some.injEq] at h
    subst h
    have p := extents_small (l := ⟨m, e⟩) h1 h2 hw e1
    exact ⟨⟨p.1.2.near, p.2.2.near⟩, ⟨p.1.2.near, p.2.2.near⟩⟩

/-! ### segment boxes -/

/-- Both joins of a segment have their corners within `K`. -/
def SegNear (s : ThickSegment) : Prop := JoinNear s.startJoin ∧ JoinNear s.endJoin

/-- Top-left and bottom-right corner of a box within `K` (and its size at most `2 K + 1`). -/
def RectNear (r : Rect) : Prop :=
  PtNear r.tl ∧ PtNear (r.bottomRight.getD r.tl) ∧ r.size.w ≤ 268443649 ∧ r.size.h ≤ 268443649

theorem withCorners_near {a b : Pt} (ha : PtNear a) (hb : PtNear b) : RectNear (Rect.withCorners a b) := by
  have hw := Rect.withCorners_w a b
  have hh := Rect.withCorners_h a b
  have hbr : (Rect.withCorners a b).bottomRight =
      some ⟨(Rect.withCorners a b).tl.x + ((Rect.withCorners a b).size.w : Int) - 1,
        (Rect.withCorners a b).tl.y + ((Rect.withCorners a b).size.h : Int) - 1⟩ := by
    unfold Rect.bottomRight
    rw [if_pos (by constructor <;> omega)]
  unfold RectNear
  rw [hbr]
  unfold PtNear at *
  simp only [Option.getD_some, Rect.withCorners_tl_x, Rect.withCorners_tl_y, hw, hh]
  omega

theorem edgesBoundingBox_near {s : ThickSegment} (h : SegNear s) : RectNear s.edgesBoundingBox := by
  obtain ⟨⟨_, _⟩, ⟨s1, s2⟩⟩ := h.1
  obtain ⟨⟨e1, e2⟩, ⟨_, _⟩⟩ := h.2
  unfold ThickSegment.edgesBoundingBox ThickSegment.edges lineBoundingBox
  dsimp only
  split
  · exact withCorners_near s2 e2
  · exact withCorners_near (((s2.min e2).min e1).min s1) (((s2.max e2).max e1).max s1)

theorem sentinelOK_of_near {r : Rect} (h : RectNear r) {d : Pt} (hd : MoveDS d) : SentinelOK r d := by
  unfold RectNear PtNear at h
  unfold MoveDS at hd
  unfold SentinelOK
  dsimp only
  omega

/-- The fold of the segment boxes, started from corners within `K`, stays within `K`. -/
theorem foldl_boxStep_near : ∀ (segs : List ThickSegment) (acc : Pt × Pt), PtNear acc.1 → PtNear acc.2 →
    (∀ s ∈ segs, SegNear s) →
    PtNear (segs.foldl boxStep acc).1 ∧ PtNear (segs.foldl boxStep acc).2 := by
  intro segs
  induction segs with
  | nil => intro acc h1 h2 _; exact ⟨h1, h2⟩
  | cons s rest ih =>
    intro acc h1 h2 hs
    have hb := edgesBoundingBox_near (hs s List.mem_cons_self)
    rw [List.foldl_cons]
    exact ih (boxStep acc s) (h1.min hb.1) (h2.max hb.2.1) (fun s' hs' => hs s' (List.mem_cons_of_mem _ hs'))

/-- The first box absorbs the sentinels: after one step both corners are within `K`. -/
theorem boxStep_init_near {s : ThickSegment} (h : SegNear s) :
    PtNear (boxStep (⟨2147483647, 2147483647⟩, ⟨-2147483648, -2147483648⟩) s).1 ∧
    PtNear (boxStep (⟨2147483647, 2147483647⟩, ⟨-2147483648, -2147483648⟩) s).2 := by
  have hb := edgesBoundingBox_near h
  unfold RectNear PtNear at hb
  unfold boxStep PtNear
  simp only [Pt.componentMin, Pt.componentMax]
  omega

/-- The folded box of a non-empty list of segments with corners within `K`. -/
theorem foldEdgeBoxes_near {s : ThickSegment} {rest : List ThickSegment} (hs : SegNear s)
    (hr : ∀ s' ∈ rest, SegNear s') : RectNear (foldEdgeBoxes (s :: rest)) := by
  rw [foldEdgeBoxes_eq, List.foldl_cons]
  obtain ⟨i1, i2⟩ := boxStep_init_near hs
  obtain ⟨f1, f2⟩ := foldl_boxStep_near rest _ i1 i2 hr
  exact withCorners_near f1 f2

/-- `rows()` of a moved box with corners within `K` does not saturate. -/
theorem rowsEnd_translate_of_near {r : Rect} (h : RectNear r) {d : Pt} (hd : MoveDS d) :
    (r.translate d).rowsEnd = r.rowsEnd + d.y := by
  unfold RectNear PtNear at h
  unfold MoveDS at hd
  obtain ⟨⟨_, ⟨_, _⟩⟩, _, _, _⟩ := h
  unfold Rect.rowsEnd
  simp only [Rect.translate_tl, Rect.translate_size, Pt.add_y]
  have hh : r.size.h ≤ 2147483647 := by omega
  unfold satAddI32 satAsI32
  simp only [hh, ↓reduceIte]
  split <;> split <;> (try split) <;> (try split) <;> omega

/-! ### the segment iterator of a polyline -/

theorem windowsNext_mem {vs rest : List Pt} {a b c : Pt} (h : windowsNext vs = some ((a, b, c), rest)) :
    a ∈ vs ∧ b ∈ vs ∧ c ∈ vs ∧ ∀ v ∈ rest, v ∈ vs := by
  rcases vs with _ | ⟨x, _ | ⟨y, _ | ⟨z, r⟩⟩⟩
  · cases h
  · cases h
  · cases h
  · simp only [windowsNext, Option.some.injEq, Prod.mk.injEq] at h
    obtain ⟨⟨rfl, rfl, rfl⟩, rfl⟩ := h
    refine ⟨by simp, by simp, by simp, ?_⟩
    intro v hv
    exact List.mem_cons_of_mem _ hv

/-- Invariant of `ThickSegmentIter` on display-scale vertices. -/
structure IterNear (it : ThickSegmentIter) : Prop where
  sj : JoinNear it.startJoin
  ej : JoinNear it.endJoin
  win : ∀ v ∈ it.windows, VDS v
  pts : ∀ v ∈ it.points, VDS v
  w : it.width ≤ 128

theorem ThickSegmentIter.new_near {vs : List Pt} {w : Nat} {it : ThickSegmentIter}
    (h : ThickSegmentIter.new vs w = some it) (hn : 2 ≤ vs.length) (hv : ∀ v ∈ vs, VDS v)
    (hw : w ≤ 128) : IterNear it ∧ it.stop = false ∧ it.points = vs := by
  rcases vs with _ | ⟨a, _ | ⟨b, _ | ⟨c, rest⟩⟩⟩
  · simp at hn
  · simp at hn
  · have ha := hv a (by simp)
    have hb := hv b (by simp)
    unfold ThickSegmentIter.new at h
    simp only [windowsNext] at h
    cases h1 : LineJoin.start a b w .none with
    | none => rw [h1] at h; cases h
    | some j1 =>
      cases h2 : LineJoin.stop a b w .none with
      | none => rw [h1, h2] at h; cases h
      | some j2 =>
        rw [h1, h2] at h
        simp only [Option.bind_eq_bind, Option.bind_some, pure, Option.some.injEq] at h
        subst h
        exact ⟨⟨start_near ha hb hw h1, stop_near ha hb hw h2, (by intro v hv'; cases hv'), hv, hw⟩, rfl, rfl⟩
  · have ha := hv a (by simp)
    have hb := hv b (by simp)
    have hc := hv c (by simp)
    unfold ThickSegmentIter.new at h
    simp only [windowsNext] at h
    cases h1 : LineJoin.start a b w .none with
    | none => rw [h1] at h; cases h
    | some j1 =>
      cases h2 : LineJoin.fromPoints a b c w .none with
      | none => rw [h1, h2] at h; cases h
      | some j2 =>
        rw [h1, h2] at h
        simp only [Option.bind_eq_bind, Option.bind_some, pure, Option.some.injEq] at h
        subst h
        exact ⟨⟨start_near ha hb hw h1, fromPoints_near ha hb hc hw h2,
          fun v hv' => hv v (List.mem_cons_of_mem _ hv'), hv, hw⟩, rfl, rfl⟩

theorem ThickSegmentIter.next_near {it it' : ThickSegmentIter} {s : ThickSegment}
    (h : it.next = some (some (s, it'))) (hi : IterNear it) :
    SegNear s ∧ IterNear it' ∧ it'.points = it.points := by
  unfold ThickSegmentIter.next at h
  by_cases hs : it.stop = true
  · simp only [hs, ↓reduceIte, Option.some.injEq, reduceCtorEq] at h
  · simp only [hs, Bool.false_eq_true, ↓reduceIte] at h
    cases hw : windowsNext it.windows with
    | some r =>
      obtain ⟨⟨a, b, c⟩, rest⟩ := r
      obtain ⟨ma, mb, mc, mr⟩ := windowsNext_mem hw
      rw [hw] at h
      simp only [] at h
      cases hj : LineJoin.fromPoints a b c it.width .none with
      | none => rw [hj] at h; cases h
      | some j =>
        rw [hj] at h
        simp only [Option.bind_eq_bind, Option.bind_some, pure, Option.some.injEq, Prod.mk.injEq] at h
        obtain ⟨rfl, rfl⟩ := h
        have hjn := fromPoints_near (hi.win a ma) (hi.win b mb) (hi.win c mc) hi.w hj
        exact ⟨⟨hi.sj, hi.ej⟩, ⟨hi.ej, hjn, fun v hv => hi.win v (mr v hv), hi.pts, hi.w⟩, rfl⟩
    | none =>
      rw [hw] at h
      simp only [] at h
      by_cases hk : (it.endJoin.kind != JoinKind.stop) = true
      · simp only [hk, ↓reduceIte] at h
        cases hp1 : it.points[it.points.length - 2]? with
        | none => rw [hp1] at h; simp only [Option.some.injEq, reduceCtorEq] at h
        | some p1 =>
          cases hp2 : it.points.getLast? with
          | none => rw [hp1, hp2] at h; simp only [Option.some.injEq, reduceCtorEq] at h
          | some p2 =>
            rw [hp1, hp2] at h
            simp only [] at h
            cases hj : LineJoin.stop p1 p2 it.width .none with
            | none => rw [hj] at h; cases h
            | some j =>
              rw [hj] at h
              simp only [Option.bind_eq_bind, Option.bind_some, pure, Option.some.injEq,
                Prod.mk.injEq] at h
              obtain ⟨rfl, rfl⟩ := h
              have hjn := stop_near (hi.pts p1 (List.mem_of_getElem? hp1))
                (hi.pts p2 (List.mem_of_getLast? hp2)) hi.w hj
              exact ⟨⟨hi.sj, hi.ej⟩, ⟨hi.ej, hjn, hi.win, hi.pts, hi.w⟩, rfl⟩
      · simp only [hk, Bool.false_eq_true, ↓reduceIte, Option.some.injEq, Prod.mk.injEq] at h
        obtain ⟨rfl, rfl⟩ := h
        exact ⟨⟨hi.sj, hi.ej⟩, ⟨hi.ej, hi.ej, hi.win, hi.pts, hi.w⟩, rfl⟩

/-- Every segment the iterator yields has its corners within `K`. -/
theorem ThickSegmentIter.toListFuel_near : ∀ (fuel : Nat) (it : ThickSegmentIter) (segs : List ThickSegment),
    ThickSegmentIter.toListFuel fuel it = some segs → IterNear it → ∀ s ∈ segs, SegNear s := by
  intro fuel
  induction fuel with
  | zero =>
    intro it segs h _ s hs
    simp only [ThickSegmentIter.toListFuel, Option.some.injEq] at h
    subst h
    cases hs
  | succ fuel ih =>
    intro it segs h hi s hs
    unfold ThickSegmentIter.toListFuel at h
    cases hn : it.next with
    | none => rw [hn] at h; cases h
    | some r =>
      cases r with
      | none =>
        rw [hn] at h
        simp only [Option.bind_eq_bind, Option.bind_some, pure, Option.some.injEq] at h
        subst h
        cases hs
      | some si =>
        obtain ⟨s0, it'⟩ := si
        obtain ⟨hs0, hi', _⟩ := ThickSegmentIter.next_near hn hi
        rw [hn] at h
        simp only [Option.bind_eq_bind, Option.bind_some] at h
        cases hr : ThickSegmentIter.toListFuel fuel it' with
        | none => rw [hr] at h; cases h
        | some rest =>
          rw [hr] at h
          simp only [Option.bind_some, pure, Option.some.injEq] at h
          subst h
          rcases List.mem_cons.mp hs with rfl | hm
          · exact hs0
          · exact ih it' rest hr hi' s hm

/-- The first call of `next` on a fresh iterator over at least two points yields a segment (or the
model is stuck): never "finished". -/
theorem ThickSegmentIter.next_ne_done {it : ThickSegmentIter} (hs : it.stop = false)
    (hp : 2 ≤ it.points.length) : it.next ≠ some none := by
  unfold ThickSegmentIter.next
  simp only [hs, Bool.false_eq_true, ↓reduceIte]
  cases hw : windowsNext it.windows with
  | some r =>
    obtain ⟨⟨a, b, c⟩, rest⟩ := r
    simp only []
    cases LineJoin.fromPoints a b c it.width .none with
    | none => simp
    | some j => simp
  | none =>
    simp only []
    by_cases hk : (it.endJoin.kind != JoinKind.stop) = true
    · simp only [hk, ↓reduceIte]
      have h1 : it.points.length - 2 < it.points.length := by omega
      have hne : it.points ≠ [] := by intro e; rw [e] at hp; simp at hp
      rw [List.getElem?_eq_getElem h1, List.getLast?_eq_some_getLast hne]
      simp only []
      cases LineJoin.stop _ _ it.width .none with
      | none => simp
      | some j => simp
    · simp only [hk, Bool.false_eq_true, ↓reduceIte]
      simp

theorem polySegments_near {vs : List Pt} {w : Nat} (hn : 2 ≤ vs.length) (hv : ∀ v ∈ vs, VDS v)
    (hw : w ≤ 128) {segs : List ThickSegment} (h : polySegments vs w = some segs) :
    (∀ s ∈ segs, SegNear s) ∧ segs ≠ [] := by
  unfold polySegments at h
  cases hi : ThickSegmentIter.new vs w with
  | none => rw [hi] at h; cases h
  | some it =>
    rw [hi] at h
    simp only [Option.bind_some] at h
    obtain ⟨hnear, hstop, hpts⟩ := ThickSegmentIter.new_near hi hn hv hw
    unfold ThickSegmentIter.toList at h
    refine ⟨ThickSegmentIter.toListFuel_near _ it segs h hnear, ?_⟩
    rintro rfl
    unfold ThickSegmentIter.toListFuel at h
    cases hnx : it.next with
    | none => rw [hnx] at h; cases h
    | some r =>
      cases r with
      | none => exact ThickSegmentIter.next_ne_done hstop (by rw [hpts]; exact hn) hnx
      | some si =>
        obtain ⟨s0, it'⟩ := si
        rw [hnx] at h
        simp only [Option.bind_eq_bind, Option.bind_some] at h
        cases hr : ThickSegmentIter.toListFuel (it.points.length) it' with
        | none => rw [hr] at h; cases h
        | some rest => rw [hr] at h; simp at h

/-- **`BoxGuard` holds at display scale.** -/
theorem boxGuard_display_scale {vs : List Pt} {w : Nat} {d : Pt} (hn : 2 ≤ vs.length)
    (hv : ∀ v ∈ vs, VDS v) (hw : w ≤ 128) (hd : MoveDS d) : BoxGuard vs w d := by
  unfold BoxGuard
  cases hp : polySegments vs w with
  | none => trivial
  | some segs =>
    obtain ⟨hs, hne⟩ := polySegments_near hn hv hw hp
    cases segs with
    | nil => exact absurd rfl hne
    | cons s rest => exact sentinelOK_of_near (edgesBoundingBox_near (hs s List.mem_cons_self)) hd

/-- **`RowsGuard` holds at display scale** (for the stroked polylines the picture theorems are about:
non-zero width, at least two vertices). -/
theorem rowsGuard_display_scale {vs : List Pt} {w : Nat} {d : Pt} (hw0 : 0 < w) (hn : 2 ≤ vs.length)
    (hv : ∀ v ∈ vs, VDS v) (hw : w ≤ 128) (hd : MoveDS d) : RowsGuard vs w d := by
  unfold RowsGuard
  rw [untranslatedBoundingBox_eq _ _ ⟨hw0, by show vs.length > 1; omega⟩]
  show (match (polySegments vs w).map foldEdgeBoxes with
    | some bb => (bb.translate d).rowsEnd = bb.rowsEnd + d.y
    | none => True)
  cases hp : polySegments vs w with
  | none => trivial
  | some segs =>
    obtain ⟨hs, hne⟩ := polySegments_near hn hv hw hp
    cases segs with
    | nil => exact absurd rfl hne
    | cons s rest =>
      simp only [Option.map_some]
      exact rowsEnd_translate_of_near
        (foldEdgeBoxes_near (hs s List.mem_cons_self) (fun s' hs' => hs s' (List.mem_cons_of_mem _ hs'))) hd

/-! ### the closed segments of a triangle -/

theorem closedSegments3_near {t : Tri} (h1 : VDS t.v1) (h2 : VDS t.v2) (h3 : VDS t.v3) {w : Nat}
    (hw : w ≤ 128) {off : StrokeOffset} {segs : List ThickSegment}
    (h : closedSegments3 t w off = some segs) : (∀ s ∈ segs, SegNear s) ∧ segs ≠ [] := by
  unfold closedSegments3 at h
  cases e0 : LineJoin.fromPoints t.v3 t.v1 t.v2 w off with
  | none => rw [e0] at h; cases h
  | some j0 =>
    cases e1 : LineJoin.fromPoints t.v1 t.v2 t.v3 w off with
    | none => rw [e0, e1] at h; cases h
    | some j1 =>
      cases e2 : LineJoin.fromPoints t.v2 t.v3 t.v1 w off with
      | none => rw [e0, e1, e2] at h; cases h
      | some j2 =>
        rw [e0, e1, e2] at h
        simp only [Option.bind_eq_bind, Option.bind_some, pure, Option.some.injEq] at h
        subst h
        have n0 := fromPoints_near h3 h1 h2 hw e0
        have n1 := fromPoints_near h1 h2 h3 hw e1
        have n2 := fromPoints_near h2 h3 h1 hw e2
        refine ⟨?_, by simp⟩
        intro s hs
        simp only [List.mem_cons, List.not_mem_nil, or_false] at hs
        rcases hs with rfl | rfl | rfl
        · exact ⟨n0, n1⟩
        · exact ⟨n1, n2⟩
        · exact ⟨n2, n0⟩

/-- **`TriBoxGuard` holds at display scale.** -/
theorem triBoxGuard_display_scale {t : Tri} (h1 : VDS t.v1) (h2 : VDS t.v2) (h3 : VDS t.v3)
    {style : TriStyle} (hw : style.strokeWidth ≤ 128) {d : Pt} (hd : MoveDS d) :
    TriBoxGuard t style d := by
  obtain ⟨s1, s2, s3⟩ := sortedClockwise_VDS h1 h2 h3
  unfold TriBoxGuard
  cases hp : closedSegments3 t.sortedClockwise style.strokeWidth style.strokeAlignment.toOffset with
  | none => trivial
  | some segs =>
    obtain ⟨hs, hne⟩ := closedSegments3_near s1 s2 s3 hw hp
    cases segs with
    | nil => exact absurd rfl hne
    | cons s rest => exact sentinelOK_of_near (edgesBoundingBox_near (hs s List.mem_cons_self)) hd

theorem tri_boundingBox_near {t : Tri} (h1 : VDS t.v1) (h2 : VDS t.v2) (h3 : VDS t.v3) :
    RectNear t.boundingBox := by
  unfold Tri.boundingBox
  apply withCorners_near
  · unfold VDS at h1 h2 h3; unfold PtNear; dsimp only; omega
  · unfold VDS at h1 h2 h3; unfold PtNear; dsimp only; omega

/-- **`TriRowsGuard` holds at display scale.** -/
theorem triRowsGuard_display_scale {t : Tri} (h1 : VDS t.v1) (h2 : VDS t.v2) (h3 : VDS t.v3)
    {style : TriStyle} (hw : style.strokeWidth ≤ 128) {d : Pt} (hd : MoveDS d) :
    TriRowsGuard t style d := by
  obtain ⟨s1, s2, s3⟩ := sortedClockwise_VDS h1 h2 h3
  unfold TriRowsGuard
  rw [triStyledBoundingBox_eq]
  split
  · rename_i bb hb
    split at hb
    · simp only [Option.some.injEq] at hb
      subst hb
      exact rowsEnd_translate_of_near (tri_boundingBox_near h1 h2 h3) hd
    · cases hp : closedSegments3 t.sortedClockwise style.strokeWidth style.strokeAlignment.toOffset with
      | none => rw [hp] at hb; cases hb
      | some segs =>
        obtain ⟨hs, hne⟩ := closedSegments3_near s1 s2 s3 hw hp
        rw [hp] at hb
        simp only [Option.map_some, Option.some.injEq] at hb
        subst hb
        cases segs with
        | nil => exact absurd rfl hne
        | cons s rest =>
          exact rowsEnd_translate_of_near
            (foldEdgeBoxes_near (hs s List.mem_cons_self)
              (fun s' hs' => hs s' (List.mem_cons_of_mem _ hs'))) hd
  · trivial

/-- **All guards of the triangle picture theorems hold at display scale.** -/
theorem triGuards_display_scale {t : Tri} (h1 : VDS t.v1) (h2 : VDS t.v2) (h3 : VDS t.v3)
    {style : TriStyle} (hw : style.strokeWidth ≤ 128) {d : Pt} (hd : MoveDS d) :
    TriGuards t style d := by
  obtain ⟨s1, s2, s3⟩ := sortedClockwise_VDS h1 h2 h3
  exact ⟨triNoSat_display_scale s1 s2 s3 hw _ hd, triBoxGuard_display_scale h1 h2 h3 hw hd,
    triRowsGuard_display_scale h1 h2 h3 hw hd⟩

end Joins
end EG
