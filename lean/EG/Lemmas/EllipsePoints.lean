/-
  EG.Lemmas.EllipsePoints — the ellipse's scanline and point iterators equal their closed forms
  (`rows.find_map` skips rows without a hit); `points() = bounding_box().points().filter(contains)`.
-/
import EG.Lemmas.Ellipse
import EG.Lemmas.CirclePoints
set_option linter.unreachableTactic false
set_option linter.unusedTactic false
namespace EG
namespace Ellipse

/-- No `u32 -> i32` saturation and no `i32` overflow in the bounding box. -/
def InRange (e : Ellipse) : Prop := e.boundingBox.InRange
instance (e : Ellipse) : Decidable e.InRange := by unfold InRange; exact inferInstance

theorem scanlines_eq {e : Ellipse} (h : e.InRange) :
    e.scanlines = ⟨e.tl.y, e.tl.y + e.size.h, e.tl.x, e.tl.x + e.size.w, e.center2x,
      EllipseContains.new e.size⟩ := by
  unfold scanlines
  simp only [Rect.rowsEnd_eq h, Rect.columnsEnd_eq h]
  rfl

/-! ### `Scanlines`: closed form -/

/-- Closed form of what the scanline iterator still yields: the rows that have a hit. -/
def ScanlinesIt.rest (it : ScanlinesIt) : List Scanline := (irange it.y it.yEnd).filterMap it.row

theorem ScanlinesIt.nextFuel_spec : ∀ (fuel : Nat) (it : ScanlinesIt), (it.yEnd - it.y).toNat < fuel →
    (it.nextFuel fuel).2.row = it.row ∧ (it.nextFuel fuel).2.yEnd = it.yEnd ∧
    match (it.nextFuel fuel).1 with
    | some s => it.rest = s :: (it.nextFuel fuel).2.rest
    | none => it.rest = [] := by
  intro fuel
  induction fuel with
  | zero => intro it h; omega
  | succ fuel ih =>
    intro it h
    unfold ScanlinesIt.nextFuel
    by_cases hy : it.y < it.yEnd
    · simp only [hy, ↓reduceIte]
      cases hr : it.row it.y with
      | some s =>
        simp only
        refine ⟨by first | rfl | trivial, by first | rfl | trivial, ?_⟩
        unfold ScanlinesIt.rest
        rw [irange_cons hy, List.filterMap_cons, hr]
        rfl
      | none =>
        simp only
        obtain ⟨h1, h2, h3⟩ := ih { it with y := it.y + 1 } (by dsimp only; omega)
        refine ⟨h1, h2, ?_⟩
        have e : it.rest = ({ it with y := it.y + 1 } : ScanlinesIt).rest := by
          unfold ScanlinesIt.rest
          rw [irange_cons hy, List.filterMap_cons, hr]
          rfl
        rw [e]; exact h3
    · simp only [hy, ↓reduceIte]
      refine ⟨by first | rfl | trivial, by first | rfl | trivial, ?_⟩
      unfold ScanlinesIt.rest
      rw [irange_empty (a := it.y) (b := it.yEnd) (by omega)]
      rfl

theorem ScanlinesIt.rest_length_le (it : ScanlinesIt) : it.rest.length ≤ (it.yEnd - it.y).toNat := by
  unfold ScanlinesIt.rest
  have := List.length_filterMap_le it.row (irange it.y it.yEnd)
  rw [irange_length] at this
  exact this

theorem ScanlinesIt.toListFuel_eq : ∀ (fuel : Nat) (it : ScanlinesIt), it.rest.length < fuel →
    it.toListFuel fuel = it.rest := by
  intro fuel
  induction fuel with
  | zero => intro it h; omega
  | succ fuel ih =>
    intro it h
    unfold ScanlinesIt.toListFuel ScanlinesIt.next
    obtain ⟨_, _, h3⟩ := ScanlinesIt.nextFuel_spec ((it.yEnd - it.y).toNat + 1) it (by omega)
    cases hn : it.nextFuel ((it.yEnd - it.y).toNat + 1) with
    | mk o it' =>
      rw [hn] at h3
      cases o with
      | none => simp only at h3 ⊢; exact h3.symm
      | some s =>
        simp only at h3 ⊢
        rw [h3] at h ⊢
        rw [ih it' (by simpa using h)]

theorem ScanlinesIt.toList_eq (it : ScanlinesIt) : it.toList = it.rest :=
  ScanlinesIt.toListFuel_eq _ it (by have := it.rest_length_le; omega)

/-! ### `Points`: closed form -/

/-- Closed form of what the iterator state still has to yield. -/
def PointsIt.rest (it : PointsIt) : List Pt :=
  it.current.points ++ Circle.joinNonEmpty it.scanlines.rest

theorem PointsIt.next_spec (it : PointsIt) :
    match it.next with
    | some (p, it') => it.rest = p :: it'.rest
    | none => it.rest = [] := by
  unfold PointsIt.next Scanline.next
  by_cases hc : it.current.xs < it.current.xe
  · simp only [hc, ↓reduceIte]
    unfold PointsIt.rest
    rw [Scanline.points_cons hc]
    rfl
  · simp only [hc, ↓reduceIte]
    unfold PointsIt.rest ScanlinesIt.next
    rw [Scanline.points_empty hc, List.nil_append]
    obtain ⟨_, _, h3⟩ := ScanlinesIt.nextFuel_spec ((it.scanlines.yEnd - it.scanlines.y).toNat + 1)
      it.scanlines (by omega)
    cases hn : it.scanlines.nextFuel ((it.scanlines.yEnd - it.scanlines.y).toNat + 1) with
    | mk o sl' =>
      rw [hn] at h3
      cases o with
      | none =>
        simp only at h3 ⊢
        rw [h3]; rfl
      | some s =>
        simp only at h3 ⊢
        rw [h3]
        simp only [Circle.joinNonEmpty]
        by_cases hs : s.xs < s.xe
        · simp only [hs, ↓reduceIte]
          rw [Scanline.points_cons hs]
          rfl
        · simp only [hs, ↓reduceIte]

theorem PointsIt.toListFuel_eq : ∀ (fuel : Nat) (it : PointsIt), it.rest.length < fuel →
    it.toListFuel fuel = it.rest := by
  intro fuel
  induction fuel with
  | zero => intro it h; omega
  | succ fuel ih =>
    intro it h
    unfold PointsIt.toListFuel
    have := it.next_spec
    split <;> rename_i heq <;> rw [heq] at this <;> simp only at this
    · rw [this] at h ⊢
      rw [ih _ (by simpa using h)]
    · exact this.symm

/-! ### rows -/

/-- **Row interval lemma for the ellipse.** For any row `y` the scanline closure either finds no
hit — then no `x` at all is accepted in that row — or builds the scanline "first hit .. mirrored",
which is non-empty, inside the columns, centred, and exactly the set of accepted `x`. -/
theorem row_spec (e : Ellipse) (y : Int) :
    (mirroredRange (hit e.center2x (EllipseContains.new e.size) y) e.tl.x (e.tl.x + e.size.w) = none ∧
      ∀ x, e.contains ⟨x, y⟩ = false) ∨
    (∃ l u, mirroredRange (hit e.center2x (EllipseContains.new e.size) y) e.tl.x (e.tl.x + e.size.w) =
        some (l, u) ∧ e.tl.x ≤ l ∧ l < u ∧ u ≤ e.tl.x + e.size.w ∧
        l + u = e.tl.x + (e.tl.x + e.size.w) ∧ (∀ x, e.contains ⟨x, y⟩ = true ↔ l ≤ x ∧ x < u)) := by
  cases hm : mirroredRange (hit e.center2x (EllipseContains.new e.size) y) e.tl.x (e.tl.x + e.size.w) with
  | none =>
    left
    refine ⟨rfl, ?_⟩
    intro x
    cases hc : e.contains ⟨x, y⟩ with
    | false => rfl
    | true =>
      have hb := contains_imp_box hc
      simp only at hb
      rw [contains_eq_hit, mirroredRange_none.mp hm x hb.1 hb.2.1] at hc
      cases hc
  | some r =>
    right
    obtain ⟨l, u⟩ := r
    have hne : e.tl.x < e.tl.x + e.size.w := by
      unfold mirroredRange at hm
      cases hf : rangeFind (hit e.center2x (EllipseContains.new e.size) y) e.tl.x (e.tl.x + e.size.w) with
      | none => rw [hf] at hm; cases hm
      | some x0 => have := rangeFind_some.mp hf; omega
    have hsc : SymConvex (hit e.center2x (EllipseContains.new e.size) y) e.tl.x (e.tl.x + e.size.w) :=
      hit_symConvex_row _ _ (by rw [center2x_x]; omega)
    obtain ⟨s1, s2, s3, s4, s5⟩ := mirroredRange_spec hsc hm
    refine ⟨l, u, rfl, s2, s4, s3, s5, ?_⟩
    intro x
    constructor
    · intro hx
      have hb := contains_imp_box hx
      simp only at hb
      rw [contains_eq_hit] at hx
      exact (s1 x hb.1 hb.2.1).mp hx
    · intro hx
      rw [contains_eq_hit]
      exact (s1 x (by omega) (by omega)).mpr hx

/-- The rows, joined, are the accepted points of each row. -/
theorem join_rows (e : Ellipse) : ∀ (ys : List Int),
    Circle.joinNonEmpty (ys.filterMap
      (ScanlinesIt.row ⟨e.tl.y, e.tl.y + e.size.h, e.tl.x, e.tl.x + e.size.w, e.center2x,
        EllipseContains.new e.size⟩)) =
    ys.flatMap (fun y =>
      ((irange e.tl.x (e.tl.x + e.size.w)).map (fun x => (⟨x, y⟩ : Pt))).filter e.contains) := by
  intro ys
  induction ys with
  | nil => rfl
  | cons y ys ih =>
    simp only [List.filterMap_cons, List.flatMap_cons]
    have hcomp : (e.contains ∘ fun x => (⟨x, y⟩ : Pt)) = hit e.center2x (EllipseContains.new e.size) y := by
      funext x; rfl
    rcases row_spec e y with ⟨hm, _⟩ | ⟨l, u, hm, _, hlu, _, _, _⟩
    · have hrow : ScanlinesIt.row ⟨e.tl.y, e.tl.y + e.size.h, e.tl.x, e.tl.x + e.size.w, e.center2x,
          EllipseContains.new e.size⟩ y = none := by
        unfold ScanlinesIt.row
        simp only [hm, Option.map_none]
      rw [hrow]
      simp only
      rw [ih, List.filter_map, hcomp, filter_irange_none hm]
      rfl
    · have hne : e.tl.x < e.tl.x + e.size.w := by omega
      have hsc : SymConvex (hit e.center2x (EllipseContains.new e.size) y) e.tl.x (e.tl.x + e.size.w) :=
        hit_symConvex_row _ _ (by rw [center2x_x]; omega)
      have hrow : ScanlinesIt.row ⟨e.tl.y, e.tl.y + e.size.h, e.tl.x, e.tl.x + e.size.w, e.center2x,
          EllipseContains.new e.size⟩ y = some ⟨y, l, u⟩ := by
        unfold ScanlinesIt.row
        simp only [hm, Option.map_some]
      rw [hrow]
      simp only [Circle.joinNonEmpty, hlu, ↓reduceIte]
      rw [ih, List.filter_map, hcomp, filter_irange_mirrored hsc hm]
      rfl

theorem pointsIt_rest {e : Ellipse} (h : e.InRange) :
    e.pointsIt.rest = e.boundingBox.points.filter e.contains := by
  unfold PointsIt.rest pointsIt ScanlinesIt.rest
  rw [scanlines_eq h]
  simp only [Scanline.newEmpty]
  rw [Scanline.points_empty (by simp), List.nil_append, Rect.points_eq_spec]
  rw [join_rows e]
  unfold Rect.pointsSpec
  by_cases hz : e.boundingBox.isZeroSized = true
  · rw [if_pos hz]
    rw [Rect.isZeroSized_iff] at hz
    simp only [boundingBox] at hz
    rcases hz with hz | hz
    · -- no columns
      rw [hz]
      have : ∀ ys : List Int, ys.flatMap (fun y =>
          ((irange e.tl.x (e.tl.x + ((0 : Nat) : Int))).map (fun x => (⟨x, y⟩ : Pt))).filter e.contains) = [] := by
        intro ys
        rw [irange_empty (a := e.tl.x) (b := e.tl.x + ((0 : Nat) : Int)) (by omega)]
        induction ys with
        | nil => rfl
        | cons a l ih => simp only [List.flatMap_cons, ih]; rfl
      exact this _
    · rw [hz, irange_empty (a := e.tl.y) (b := e.tl.y + ((0 : Nat) : Int)) (by omega)]
      rfl
  · rw [if_neg hz, Circle.filter_flatMap']
    have hr := Rect.rowsEnd_eq h
    have hc := Rect.columnsEnd_eq h
    unfold Rect.rowsEnd at hr; unfold Rect.columnsEnd at hc
    simp only [Rect.rows, Rect.columns, hr, hc]
    rfl

/-- **`points()` yields exactly the bounding-box points that `contains()` accepts, in the
bounding box's (row-major) order** — for all sizes, also thin ellipses with empty rows. -/
theorem points_eq_filter {e : Ellipse} (h : e.InRange) :
    e.points = e.boundingBox.points.filter e.contains := by
  unfold points
  simp only
  rw [PointsIt.toListFuel_eq, pointsIt_rest h]
  rw [pointsIt_rest h]
  have h1 := List.length_filter_le e.contains e.boundingBox.points
  have h2 := Rect.points_length h
  have hb : e.pointsIt.budget = e.size.h * e.size.w := by
    unfold PointsIt.budget pointsIt
    rw [scanlines_eq h]
    simp only [Scanline.newEmpty]
    have e1 : (e.tl.y + (e.size.h : Int) - e.tl.y).toNat = e.size.h := by omega
    have e2 : (e.tl.x + (e.size.w : Int) - e.tl.x).toNat = e.size.w := by omega
    rw [e1, e2]
    simp
  rw [hb]
  simp only [boundingBox] at h1 h2 ⊢
  rw [Nat.mul_comm] at h2
  omega

end Ellipse
end EG
