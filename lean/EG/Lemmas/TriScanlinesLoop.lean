/-
  EG.Lemmas.TriScanlinesLoop — the non-fused `ScanlineIterator::next` of a styled triangle
  (`Joins.TriScanlines.next`, which returns the successor state with `None` too) against its view by
  a caller that stops at the first `None` (`Joins.TriScanlines.nextLoop`: the `for` loop of
  `draw_styled`, the `?` of `StyledPixelsIterator::next`).
  * `nextLoop_eq_def`: `nextLoop` in closed form (the arms of `next` with the state dropped on `None`);
  * `next_some_iff` / `next_none_iff`: the two views of one call;
  * `next_none_state`: what the state is after a `None`: unchanged when `rows` is exhausted, else
    standing on the next row with that row's (empty) line configuration.
-/
import EG.Model.ThickTriangle
namespace EG
namespace Joins
namespace TriScanlines

/-- `nextLoop` written out: the arms of `next`, no successor state with `None`. -/
def nextLoopDef (it : TriScanlines) : Option (Option ((Scanline × PointType) × TriScanlines)) :=
  match it.intersections.next with
  | some (r, ints) => some (some (r, { it with intersections := ints }))
  | none =>
    if it.rowsStart < it.rowsEnd then do
      let y := it.rowsStart
      let ints ← it.intersections.resetWithNewScanline y
      let it := { it with rowsStart := y + 1, scanlineY := y, intersections := ints }
      match ints.next with
      | some (r, ints) => pure (some (r, { it with intersections := ints }))
      | none => pure none
    else some none

theorem nextLoop_eq_def (it : TriScanlines) : it.nextLoop = it.nextLoopDef := by
  unfold nextLoop nextLoopDef TriScanlines.next
  cases h1 : it.intersections.next with
  | some p => obtain ⟨r, ints⟩ := p; rfl
  | none =>
    dsimp only
    by_cases hrows : it.rowsStart < it.rowsEnd
    · simp only [hrows, ↓reduceIte]
      cases hr : it.intersections.resetWithNewScanline it.rowsStart with
      | none => rfl
      | some ints =>
        simp only [Option.bind_eq_bind, Option.bind_some]
        cases h2 : ints.next with
        | none => rfl
        | some p => obtain ⟨r, ints2⟩ := p; rfl
    · simp only [hrows, ↓reduceIte]

/-- One call returned a scanline: both views agree on it and on the successor. -/
theorem next_some_iff (it it' : TriScanlines) (r : Scanline × PointType) :
    it.next = some (some r, it') ↔ it.nextLoop = some (some (r, it')) := by
  unfold nextLoop
  cases h : it.next with
  | none => simp
  | some p =>
    obtain ⟨o, s⟩ := p
    cases o with
    | none => simp
    | some x => simp

/-- One call returned `None` (whatever the state it left). -/
theorem next_none_iff (it : TriScanlines) :
    (∃ it', it.next = some (none, it')) ↔ it.nextLoop = some none := by
  unfold nextLoop
  cases h : it.next with
  | none => simp
  | some p =>
    obtain ⟨o, s⟩ := p
    cases o with
    | none => simp
    | some x => simp

theorem next_isSome_iff (it : TriScanlines) : it.next.isSome = it.nextLoop.isSome := by
  unfold nextLoop
  cases h : it.next with
  | none => rfl
  | some p =>
    obtain ⟨o, s⟩ := p
    cases o <;> rfl

/-- The state after a `None`: unchanged if there is no further row (or the reset is stuck, which
never happens), otherwise the iterator stands on the next row, whose line configuration has no
scanline left. -/
theorem next_none_state {it it' : TriScanlines} (h : it.next = some (none, it')) :
    it.intersections.next = none ∧
    ((¬ it.rowsStart < it.rowsEnd ∧ it' = it) ∨
     (it.rowsStart < it.rowsEnd ∧ ∃ ints, it.intersections.resetWithNewScanline it.rowsStart = some ints ∧
        ints.next = none ∧
        it' = { it with rowsStart := it.rowsStart + 1, scanlineY := it.rowsStart, intersections := ints })) := by
  unfold TriScanlines.next at h
  cases h1 : it.intersections.next with
  | some p => obtain ⟨r, ints⟩ := p; rw [h1] at h; simp at h
  | none =>
    refine ⟨rfl, ?_⟩
    rw [h1] at h
    dsimp only at h
    split at h
    · rename_i hrows
      right
      refine ⟨hrows, ?_⟩
      cases hr : it.intersections.resetWithNewScanline it.rowsStart with
      | none => rw [hr] at h; cases h
      | some ints =>
        rw [hr] at h
        simp only [Option.bind_eq_bind, Option.bind_some] at h
        cases h2 : ints.next with
        | some p => obtain ⟨r, ints2⟩ := p; rw [h2] at h; simp [pure] at h
        | none =>
          rw [h2] at h
          simp only [pure, Option.some.injEq, Prod.mk.injEq, true_and] at h
          exact ⟨ints, rfl, h2, h.symm⟩
    · rename_i hrows
      left
      simp only [Option.some.injEq, Prod.mk.injEq, true_and] at h
      exact ⟨hrows, h.symm⟩

end TriScanlines
end Joins
end EG
